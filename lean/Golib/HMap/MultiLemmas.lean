/-
  Golib.HMap.MultiLemmas — histories over several live containers refine slot-wise: every slot of the pool of
  CodeModel maps stays related to the same slot of the pool of Spec dictionaries, whatever the interleaving.
-/
import Golib.HMap.Multi
import Golib.HMap.LinkedStep
import Golib.HMap.PlainStep

set_option linter.unusedSectionVars false

namespace HMap
variable {K V : Type} [DecidableEq K] [DecidableEq V]

namespace LMap
variable {hash : K → Nat} {d : Desc K V}

/-- slot-wise relation between a pool of linked maps and a pool of dictionaries -/
def PoolRel (hash : K → Nat) (d : Desc K V) (dflt : LMap K V) (sdflt : S K V) (pool : Array (LMap K V)) (spool : Array (S K V)) : Prop :=
  pool.size = spool.size ∧ ∀ i, i < pool.size → Inv hash d (pool.getD i dflt) ∧ abs hash (pool.getD i dflt) = spool.getD i sdflt

theorem pool_refine_step (thr : Nat → Nat) (dflt : LMap K V) (sdflt : S K V) {pool : Array (LMap K V)} {spool : Array (S K V)}
    (h : PoolRel hash d dflt sdflt pool spool) (i : Nat) (hi : i < pool.size) (op : Op K V) :
    PoolRel hash d dflt sdflt (poolStep (LMap.step hash thr d) dflt pool i op).1 (poolStep (S.step d) sdflt spool i op).1 ∧
    (poolStep (LMap.step hash thr d) dflt pool i op).2 = (poolStep (S.step d) sdflt spool i op).2 := by
  obtain ⟨hsz, hrel⟩ := h
  have hi' : i < spool.size := by omega
  obtain ⟨t1, o1⟩ := poolStep_target (LMap.step hash thr d) dflt pool i op hi
  obtain ⟨t2, o2⟩ := poolStep_target (S.step d) sdflt spool i op hi'
  obtain ⟨hinv, habs⟩ := hrel i hi
  obtain ⟨ri, ro, re⟩ := refine_step thr hinv op
  refine ⟨⟨by rw [poolStep_size, poolStep_size, hsz], ?_⟩, ?_⟩
  · intro j hj
    rw [poolStep_size] at hj
    by_cases hji : j = i
    · subst hji
      rw [t1, t2, ← habs]
      exact ⟨ri, re⟩
    · rw [poolStep_frame _ _ _ _ _ _ hji, poolStep_frame _ _ _ _ _ _ hji]
      exact hrel j hj
  · rw [o1, o2, ← habs]; exact ro

/-- every history over the pool: outputs equal, every slot still refines its dictionary -/
theorem pool_refine_run (thr : Nat → Nat) (dflt : LMap K V) (sdflt : S K V) (ops : List (Nat × Op K V))
    {pool : Array (LMap K V)} {spool : Array (S K V)} (h : PoolRel hash d dflt sdflt pool spool)
    (hops : ∀ o ∈ ops, o.1 < pool.size) :
    PoolRel hash d dflt sdflt (poolRun (LMap.step hash thr d) dflt pool ops).1 (poolRun (S.step d) sdflt spool ops).1 ∧
    (poolRun (LMap.step hash thr d) dflt pool ops).2 = (poolRun (S.step d) sdflt spool ops).2 := by
  induction ops generalizing pool spool with
  | nil => exact ⟨h, rfl⟩
  | cons o rest ih =>
    obtain ⟨i, op⟩ := o
    have hi : i < pool.size := hops (i, op) (by simp)
    obtain ⟨h1, o1⟩ := pool_refine_step thr dflt sdflt h i hi op
    have := ih h1 (by
      intro o ho
      rw [poolStep_size]
      exact hops o (by simp [ho]))
    simp only [poolRun]
    exact ⟨this.1, by rw [o1, this.2]⟩

end LMap

namespace PMap
variable {hash : K → Nat} {d : PDesc K V}

def PoolRel (hash : K → Nat) (d : PDesc K V) (dflt : PMap K V) (sdflt : PS K V) (pool : Array (PMap K V)) (spool : Array (PS K V)) : Prop :=
  pool.size = spool.size ∧ ∀ i, i < pool.size → Rel hash d (pool.getD i dflt) (spool.getD i sdflt)

theorem pool_refine_step (thr : Nat → Nat) (dflt : PMap K V) (sdflt : PS K V) {pool : Array (PMap K V)} {spool : Array (PS K V)}
    (h : PoolRel hash d dflt sdflt pool spool) (i : Nat) (hi : i < pool.size) (op : POp K V) :
    PoolRel hash d dflt sdflt (poolStep (PMap.step hash thr d) dflt pool i op).1 (poolStep (PS.step d) sdflt spool i op).1 ∧
    Out.equiv (poolStep (PMap.step hash thr d) dflt pool i op).2 (poolStep (PS.step d) sdflt spool i op).2 := by
  obtain ⟨hsz, hrel⟩ := h
  have hi' : i < spool.size := by omega
  obtain ⟨t1, o1⟩ := poolStep_target (PMap.step hash thr d) dflt pool i op hi
  obtain ⟨t2, o2⟩ := poolStep_target (PS.step d) sdflt spool i op hi'
  obtain ⟨rr, ro⟩ := plain_refine_step thr (hrel i hi) op
  refine ⟨⟨by rw [poolStep_size, poolStep_size, hsz], ?_⟩, by rw [o1, o2]; exact ro⟩
  intro j hj
  rw [poolStep_size] at hj
  by_cases hji : j = i
  · subst hji; rw [t1, t2]; exact rr
  · rw [poolStep_frame _ _ _ _ _ _ hji, poolStep_frame _ _ _ _ _ _ hji]; exact hrel j hj

theorem pool_refine_run (thr : Nat → Nat) (dflt : PMap K V) (sdflt : PS K V) (ops : List (Nat × POp K V))
    {pool : Array (PMap K V)} {spool : Array (PS K V)} (h : PoolRel hash d dflt sdflt pool spool)
    (hops : ∀ o ∈ ops, o.1 < pool.size) :
    PoolRel hash d dflt sdflt (poolRun (PMap.step hash thr d) dflt pool ops).1 (poolRun (PS.step d) sdflt spool ops).1 ∧
    Outs.equiv (poolRun (PMap.step hash thr d) dflt pool ops).2 (poolRun (PS.step d) sdflt spool ops).2 := by
  induction ops generalizing pool spool with
  | nil => exact ⟨h, Outs.equiv.nil⟩
  | cons o rest ih =>
    obtain ⟨i, op⟩ := o
    have hi : i < pool.size := hops (i, op) (by simp)
    obtain ⟨h1, o1⟩ := pool_refine_step thr dflt sdflt h i hi op
    have := ih h1 (by
      intro o ho
      rw [poolStep_size]
      exact hops o (by simp [ho]))
    simp only [poolRun]
    exact ⟨this.1, Outs.equiv.cons o1 this.2⟩

end PMap
end HMap
