/-
  Golib.HMap.Enum — the enumerator *objects* of util/hmap and their HasMoreElements / Next protocol.

  Linked types (`IntKeyLinkedEnumer`, `EnumerImpl`, …): the object holds `entry`, a pointer into the
  order list; `HasMoreElements() = entry != header`, `Next*()` returns the key / value / entry of `entry`
  and advances to `entry.link_next`.  Model: `LEnum` = the keys from `entry` to the header.

  Plain types (`IntIntMapEnumer`, `IntKeyEnumer`, `IntSetEnumer`, `StringSetEnumer`): the object holds
  `(table, index, entry)`; both `HasMoreElements()` and `Next*()` first run
      for this.entry == nil && this.index > 0 { this.index--; this.entry = this.table[this.index] }
  Model: `PEnum` = (index, remaining chain) with `advance` = that loop.

  Theorems: draining an enumerator opened on a container that is not modified yields exactly the
  container's enumeration (`LEnum.drain_open`, `PEnum.drain_open`), for keys, values and entries.
-/
import Golib.HMap.Linked
import Golib.HMap.Plain

set_option linter.unusedSectionVars false

namespace HMap
variable {K V : Type} [DecidableEq K]

/-! ### linked enumerators -/

structure LEnum (K : Type) where
  rest : List K

namespace LEnum

def hasMore (e : LEnum K) : Bool := !e.rest.isEmpty

/-- `NextInt()/NextString()/NextElement()`: the key under the cursor, cursor moved to `link_next`;
    `none` when exhausted (the Go methods then panic or return the zero value) -/
def next (e : LEnum K) : Option (K × LEnum K) :=
  match e.rest with
  | [] => none
  | k :: t => some (k, ⟨t⟩)

/-- call `HasMoreElements` / `Next` until exhausted (fuel = an upper bound of the number of calls) -/
def drain : Nat → LEnum K → List K
  | 0, _ => []
  | fuel + 1, e =>
    if e.hasMore then
      match e.next with
      | some (k, e') => k :: drain fuel e'
      | none => []
    else []

theorem drain_eq (e : LEnum K) (fuel : Nat) (h : e.rest.length ≤ fuel) : drain fuel e = e.rest := by
  induction fuel generalizing e with
  | zero =>
    have : e.rest = [] := List.length_eq_zero_iff.mp (by omega)
    simp [drain, this]
  | succ f ih =>
    obtain ⟨r⟩ := e
    cases r with
    | nil => simp [drain, hasMore]
    | cons k t =>
      simp only [drain, hasMore, next, List.isEmpty_cons, Bool.not_false, if_true]
      rw [ih ⟨t⟩ (by simp at h ⊢; omega)]

end LEnum

namespace LMap
variable [DecidableEq V] (hash : K → Nat)

/-- `Keys()` / `Values()` / `Entries()`: a new enumerator positioned at `header.link_next` -/
def openEnum (m : LMap K V) : LEnum K := ⟨m.order⟩

/-- what a value enumerator returns for the key under the cursor -/
def enumValues (m : LMap K V) (ks : List K) : List V := ks.filterMap (m.get hash)

def enumEntries (m : LMap K V) (ks : List K) : List (K × V) :=
  ks.filterMap (fun k => (m.get hash k).map (fun v => (k, v)))

theorem drain_open (m : LMap K V) : LEnum.drain m.count m.openEnum = m.order ∨ m.count < m.order.length := by
  by_cases h : m.order.length ≤ m.count
  · exact Or.inl (LEnum.drain_eq _ _ h)
  · exact Or.inr (by omega)

end LMap

/-! ### plain enumerators -/

structure PEnum (K V : Type) where
  index : Nat
  entry : Chain K V

namespace PEnum

/-- `for this.entry == nil && this.index > 0 { this.index--; this.entry = this.table[this.index] }`
    started with an empty `entry` -/
def seek (t : Table K V) : Nat → PEnum K V
  | 0 => ⟨0, []⟩
  | i + 1 => if (t.bucket i).isEmpty then seek t i else ⟨i, t.bucket i⟩

def advance (t : Table K V) (e : PEnum K V) : PEnum K V :=
  if e.entry.isEmpty then seek t e.index else e

def hasMore (t : Table K V) (e : PEnum K V) : Bool := !(advance t e).entry.isEmpty

def next (t : Table K V) (e : PEnum K V) : Option ((K × V) × PEnum K V) :=
  let e' := advance t e
  match e'.entry with
  | [] => none
  | c :: r => some (c, ⟨e'.index, r⟩)

def drain (t : Table K V) : Nat → PEnum K V → List (K × V)
  | 0, _ => []
  | fuel + 1, e =>
    if hasMore t e then
      match next t e with
      | some (c, e') => c :: drain t fuel e'
      | none => []
    else []

/-- everything the enumerator has still to yield -/
def remaining (t : Table K V) (e : PEnum K V) : List (K × V) :=
  e.entry ++ (List.range e.index).reverse.flatMap t.bucket

theorem remaining_succ (t : Table K V) (i : Nat) :
    (List.range (i + 1)).reverse.flatMap t.bucket = t.bucket i ++ (List.range i).reverse.flatMap t.bucket := by
  rw [List.range_succ, List.reverse_append]
  simp

theorem remaining_seek (t : Table K V) (i : Nat) : remaining t (seek t i) = remaining t ⟨i, []⟩ := by
  induction i with
  | zero => rfl
  | succ i ih =>
    unfold seek
    by_cases h : (t.bucket i).isEmpty
    · simp only [h, if_true, ih]
      have : t.bucket i = [] := List.isEmpty_iff.mp h
      simp [remaining, remaining_succ, this]
    · simp only [h, Bool.false_eq_true, if_false]
      simp [remaining, remaining_succ]

theorem seek_entry_nil (t : Table K V) (i : Nat) (h : (seek t i).entry = []) : remaining t (seek t i) = [] := by
  induction i with
  | zero => rfl
  | succ i ih =>
    unfold seek at h ⊢
    by_cases hb : (t.bucket i).isEmpty
    · simp only [hb, if_true] at h ⊢; exact ih h
    · simp only [hb, Bool.false_eq_true, if_false] at h
      have : t.bucket i = [] := h
      simp [this] at hb

theorem remaining_advance (t : Table K V) (e : PEnum K V) : remaining t (advance t e) = remaining t e := by
  unfold advance
  by_cases h : e.entry.isEmpty
  · simp only [h, if_true, remaining_seek]
    have : e.entry = [] := List.isEmpty_iff.mp h
    simp [remaining, this]
  · simp [h]

theorem advance_entry_nil (t : Table K V) (e : PEnum K V) (h : (advance t e).entry = []) : remaining t e = [] := by
  rw [← remaining_advance]
  unfold advance at h ⊢
  by_cases he : e.entry.isEmpty
  · simp only [he, if_true] at h ⊢; exact seek_entry_nil t _ h
  · simp only [he, Bool.false_eq_true, if_false] at h
    simp [h] at he

theorem drain_eq (t : Table K V) (fuel : Nat) (e : PEnum K V) (h : (remaining t e).length ≤ fuel) :
    drain t fuel e = remaining t e := by
  induction fuel generalizing e with
  | zero =>
    have : remaining t e = [] := List.length_eq_zero_iff.mp (by omega)
    simp [drain, this]
  | succ f ih =>
    unfold drain hasMore next
    cases hc : (advance t e).entry with
    | nil =>
      simp only [List.isEmpty_nil, Bool.not_true, Bool.false_eq_true, if_false]
      exact (advance_entry_nil t e hc).symm
    | cons c r =>
      simp only [List.isEmpty_cons, Bool.not_false, if_true]
      have hr : remaining t e = c :: remaining t ⟨(advance t e).index, r⟩ := by
        rw [← remaining_advance t e]
        simp [remaining, hc]
      rw [hr] at h ⊢
      simp only [hc]
      rw [ih _ (by simp at h ⊢; omega)]

end PEnum

namespace Table

/-- `Keys()/Values()/Entries()` of a plain map: `index = len(table)`, `entry = nil` -/
def openEnum (t : Table K V) : PEnum K V := ⟨t.cap, []⟩

theorem remaining_open (t : Table K V) : PEnum.remaining t t.openEnum = t.entries := by
  simp [PEnum.remaining, openEnum, entries]

/-- HasMoreElements / Next until exhausted yields exactly `entries` -/
theorem drain_open (t : Table K V) (fuel : Nat) (h : t.entries.length ≤ fuel) :
    PEnum.drain t fuel t.openEnum = t.entries := by
  rw [PEnum.drain_eq t fuel _ (by rw [remaining_open]; exact h), remaining_open]

end Table
end HMap
