/-
  Golib.HMap.Enum — the enumerator *objects* of util/hmap and their HasMoreElements / Next protocol.

  Linked types (`IntKeyLinkedEnumer`, `EnumerImpl`, …): the object holds `entry`, a pointer into the
  order list; `HasMoreElements() = entry != header`, `Next*()` returns the key / value / entry of `entry`
  and advances to `entry.link_next`.  Model: `LEnum` = the keys from `entry` to the header.

  Plain types (`IntIntMapEnumer`, `IntKeyEnumer`, `IntSetEnumer`, `StringSetEnumer`): the object holds
  `(table, index, entry)`; both `HasMoreElements()` and `Next*()` first run
      for this.entry == nil && this.index > 0 { this.index--; this.entry = this.table[this.index] }
  Model: `PEnum` = (index, remaining chain) with `advance` = that loop.

  Theorems: draining an enumerator opened on a container that is not modified yields exactly the
  container's enumeration (`LEnum.drain_open`, `PEnum.drain_open`), for keys, values and entries.
-/
import Golib.HMap.Linked
import Golib.HMap.Plain

set_option linter.unusedSectionVars false

namespace HMap
variable {K V : Type} [DecidableEq K]

/-! ### linked enumerators -/

structure LEnum (K : Type) where
  rest : List K

namespace LEnum

def hasMore (e : LEnum K) : Bool := !e.rest.isEmpty

/-- `NextInt()/NextString()/NextElement()`: the key under the cursor, cursor moved to `link_next`;
    `none` when exhausted (the Go methods then panic or return the zero value) -/
def next (e : LEnum K) : Option (K × LEnum K) :=
  match e.rest with
  | [] => none
  | k :: t => some (k, ⟨t⟩)

/-- call `HasMoreElements` / `Next` until exhausted (fuel = an upper bound of the number of calls) -/
def drain : Nat → LEnum K → List K
  | 0, _ => []
  | fuel + 1, e =>
    if e.hasMore then
      match e.next with
      | some (k, e') => k :: drain fuel e'
      | none => []
    else []

/-- call `Next` exactly `n` times with no `HasMoreElements` in between -/
def takeN : Nat → LEnum K → List K
  | 0, _ => []
  | n + 1, e =>
    match e.next with
    | some (k, e') => k :: takeN n e'
    | none => []

theorem takeN_eq (n : Nat) (e : LEnum K) : takeN n e = e.rest.take n := by
  induction n generalizing e with
  | zero => simp [takeN]
  | succ n ih =>
    obtain ⟨r⟩ := e
    cases r with
    | nil => simp [takeN, next]
    | cons k t => simp [takeN, next, ih]

theorem drain_eq (e : LEnum K) (fuel : Nat) (h : e.rest.length ≤ fuel) : drain fuel e = e.rest := by
  induction fuel generalizing e with
  | zero =>
    have : e.rest = [] := List.length_eq_zero_iff.mp (by omega)
    simp [drain, this]
  | succ f ih =>
    obtain ⟨r⟩ := e
    cases r with
    | nil => simp [drain, hasMore]
    | cons k t =>
      simp only [drain, hasMore, next, List.isEmpty_cons, Bool.not_false, if_true]
      rw [ih ⟨t⟩ (by simp at h ⊢; omega)]

end LEnum

namespace LMap
variable [DecidableEq V] (hash : K → Nat)

/-- `Keys()` / `Values()` / `Entries()`: a new enumerator positioned at `header.link_next` -/
def openEnum (m : LMap K V) : LEnum K := ⟨m.order⟩

/-- what a value enumerator returns for the key under the cursor -/
def enumValues (m : LMap K V) (ks : List K) : List V := ks.filterMap (m.get hash)

def enumEntries (m : LMap K V) (ks : List K) : List (K × V) :=
  ks.filterMap (fun k => (m.get hash k).map (fun v => (k, v)))

theorem drain_open (m : LMap K V) : LEnum.drain m.count m.openEnum = m.order ∨ m.count < m.order.length := by
  by_cases h : m.order.length ≤ m.count
  · exact Or.inl (LEnum.drain_eq _ _ h)
  · exact Or.inr (by omega)

end LMap

/-! ### plain enumerators -/

structure PEnum (K V : Type) where
  index : Nat
  entry : Chain K V

namespace PEnum

/-- `for this.entry == nil && this.index > 0 { this.index--; this.entry = this.table[this.index] }`
    started with an empty `entry` -/
def seek (t : Table K V) : Nat → PEnum K V
  | 0 => ⟨0, []⟩
  | i + 1 => if (t.bucket i).isEmpty then seek t i else ⟨i, t.bucket i⟩

def advance (t : Table K V) (e : PEnum K V) : PEnum K V :=
  if e.entry.isEmpty then seek t e.index else e

def hasMore (t : Table K V) (e : PEnum K V) : Bool := !(advance t e).entry.isEmpty

def next (t : Table K V) (e : PEnum K V) : Option ((K × V) × PEnum K V) :=
  let e' := advance t e
  match e'.entry with
  | [] => none
  | c :: r => some (c, ⟨e'.index, r⟩)

def drain (t : Table K V) : Nat → PEnum K V → List (K × V)
  | 0, _ => []
  | fuel + 1, e =>
    if hasMore t e then
      match next t e with
      | some (c, e') => c :: drain t fuel e'
      | none => []
    else []

/-- everything the enumerator has still to yield -/
def remaining (t : Table K V) (e : PEnum K V) : List (K × V) :=
  e.entry ++ (List.range e.index).reverse.flatMap t.bucket

theorem remaining_succ (t : Table K V) (i : Nat) :
    (List.range (i + 1)).reverse.flatMap t.bucket = t.bucket i ++ (List.range i).reverse.flatMap t.bucket := by
  rw [List.range_succ, List.reverse_append]
  simp

theorem remaining_seek (t : Table K V) (i : Nat) : remaining t (seek t i) = remaining t ⟨i, []⟩ := by
  induction i with
  | zero => rfl
  | succ i ih =>
    unfold seek
    by_cases h : (t.bucket i).isEmpty
    · simp only [h, if_true, ih]
      have : t.bucket i = [] := List.isEmpty_iff.mp h
      simp [remaining, remaining_succ, this]
    · simp only [h, Bool.false_eq_true, if_false]
      simp [remaining, remaining_succ]

theorem seek_entry_nil (t : Table K V) (i : Nat) (h : (seek t i).entry = []) : remaining t (seek t i) = [] := by
  induction i with
  | zero => rfl
  | succ i ih =>
    unfold seek at h ⊢
    by_cases hb : (t.bucket i).isEmpty
    · simp only [hb, if_true] at h ⊢; exact ih h
    · simp only [hb, Bool.false_eq_true, if_false] at h
      have : t.bucket i = [] := h
      simp [this] at hb

theorem remaining_advance (t : Table K V) (e : PEnum K V) : remaining t (advance t e) = remaining t e := by
  unfold advance
  by_cases h : e.entry.isEmpty
  · simp only [h, if_true, remaining_seek]
    have : e.entry = [] := List.isEmpty_iff.mp h
    simp [remaining, this]
  · simp [h]

theorem advance_entry_nil (t : Table K V) (e : PEnum K V) (h : (advance t e).entry = []) : remaining t e = [] := by
  rw [← remaining_advance]
  unfold advance at h ⊢
  by_cases he : e.entry.isEmpty
  · simp only [he, if_true] at h ⊢; exact seek_entry_nil t _ h
  · simp only [he, Bool.false_eq_true, if_false] at h
    simp [h] at he

theorem drain_eq (t : Table K V) (fuel : Nat) (e : PEnum K V) (h : (remaining t e).length ≤ fuel) :
    drain t fuel e = remaining t e := by
  induction fuel generalizing e with
  | zero =>
    have : remaining t e = [] := List.length_eq_zero_iff.mp (by omega)
    simp [drain, this]
  | succ f ih =>
    unfold drain hasMore next
    cases hc : (advance t e).entry with
    | nil =>
      simp only [List.isEmpty_nil, Bool.not_true, Bool.false_eq_true, if_false]
      exact (advance_entry_nil t e hc).symm
    | cons c r =>
      simp only [List.isEmpty_cons, Bool.not_false, if_true]
      have hr : remaining t e = c :: remaining t ⟨(advance t e).index, r⟩ := by
        rw [← remaining_advance t e]
        simp [remaining, hc]
      rw [hr] at h ⊢
      simp only [hc]
      rw [ih _ (by simp at h ⊢; omega)]

/-! #### driving the enumerator without HasMoreElements (the `Size()`-driven loops of `IntSet.ToString`, `KeyArray`, …) -/

/-- call `Next` exactly `n` times with no `HasMoreElements` in between (stops early only if exhausted) -/
def takeN (t : Table K V) : Nat → PEnum K V → List (K × V)
  | 0, _ => []
  | n + 1, e =>
    match next t e with
    | some (c, e') => c :: takeN t n e'
    | none => []

/-- `Next` alone is correct: it runs the skip loop itself, so `n` bare calls yield the first `n` remaining elements -/
theorem takeN_eq (t : Table K V) (n : Nat) (e : PEnum K V) : takeN t n e = (remaining t e).take n := by
  induction n generalizing e with
  | zero => simp [takeN]
  | succ n ih =>
    unfold takeN next
    cases hc : (advance t e).entry with
    | nil => simp only [hc]; rw [advance_entry_nil t e hc]; simp
    | cons c r =>
      have hr : remaining t e = c :: remaining t ⟨(advance t e).index, r⟩ := by
        rw [← remaining_advance t e]
        simp [remaining, hc]
      simp only [hc]
      rw [hr, ih]; simp

/-- `HasMoreElements` (which moves `index`/`entry` past empty buckets) may be called any number of times between two
    `Next`s: it is idempotent and does not change what `Next` returns -/
theorem seek_seek (t : Table K V) (i : Nat) (h : (seek t i).entry.isEmpty = true) : seek t (seek t i).index = seek t i := by
  induction i with
  | zero => rfl
  | succ i ih =>
    by_cases hb : (t.bucket i).isEmpty
    · have e1 : seek t (i + 1) = seek t i := by simp [seek, hb]
      rw [e1] at h ⊢; exact ih h
    · have e1 : seek t (i + 1) = ⟨i, t.bucket i⟩ := by simp [seek, hb]
      rw [e1] at h; exact absurd h hb

theorem advance_idem (t : Table K V) (e : PEnum K V) : advance t (advance t e) = advance t e := by
  unfold advance
  by_cases h : e.entry.isEmpty
  · simp only [h, if_true]
    by_cases h2 : (seek t e.index).entry.isEmpty
    · simp only [h2, if_true]; exact seek_seek t _ h2
    · simp [h2]
  · simp [h]

theorem next_after_hasMore (t : Table K V) (e : PEnum K V) : next t (advance t e) = next t e := by
  unfold next; rw [advance_idem]

end PEnum

namespace Table

/-- `Keys()/Values()/Entries()` of a plain map: `index = len(table)`, `entry = nil` -/
def openEnum (t : Table K V) : PEnum K V := ⟨t.cap, []⟩

theorem remaining_open (t : Table K V) : PEnum.remaining t t.openEnum = t.entries := by
  simp [PEnum.remaining, openEnum, entries]

/-- `Size()` bare calls of `Next` on a fresh enumerator yield exactly `entries` -/
theorem takeN_open (t : Table K V) (n : Nat) (h : t.entries.length = n) : PEnum.takeN t n t.openEnum = t.entries := by
  rw [PEnum.takeN_eq, remaining_open, ← h, List.take_length]

/-- HasMoreElements / Next until exhausted yields exactly `entries` -/
theorem drain_open (t : Table K V) (fuel : Nat) (h : t.entries.length ≤ fuel) :
    PEnum.drain t fuel t.openEnum = t.entries := by
  rw [PEnum.drain_eq t fuel _ (by rw [remaining_open]; exact h), remaining_open]

end Table
end HMap
