/-
  Golib.HMap.Types — per-type descriptors of the 13 linked and 4 plain containers of util/hmap.

  A `TypeDesc` records the facts in which the Go files differ from one another or on which the
  model depends: key / value kind, what `add` does to a present key, the growth rule, the end
  evicted per put mode, the constructor guard for capacity 0, the bounds of the `ContainsValue`
  scan, and the guards around empty string keys.

  `linkedTypes` / `plainTypes` are the tables the CodeModel assumes (the drivers configure a session
  from them by type name).  Tie A regenerates the same tables from the Go source on every run
  (`Golib.Gen.C09`, `Golib.Gen.C12`) and `Golib.Props.C09Gen` / `C12Gen` prove them equal by `decide`.
-/
import Golib.HMap.Spec

namespace HMap

inductive KeyKind | int32 | int64 | str | obj | unknown
  deriving DecidableEq, Repr

inductive ValKind | obj | int32 | int64 | float32 | unit | unknown
  deriving DecidableEq, Repr

/-- what `add` stores for a present key -/
inductive AddOp | none | accumulate | assign | unknown
  deriving DecidableEq, Repr

/-- which end the eviction loop of a put mode removes from -/
inductive End | front | back | unknown
  deriving DecidableEq, Repr

/-- constructor with an explicit capacity: absent, or present with / without `if cap == 0 { cap = 1 }` -/
inductive CapGuard | noCtor | guarded | unguarded
  deriving DecidableEq, Repr

/-- the bucket scan of `ContainsValue`: absent; all buckets; bucket 0 skipped; starts at `tab[len(tab)]`
    (index out of range); a stub that returns false -/
inductive CVScan | none | all | skipsFirst | outOfRange | stub | unknown
  deriving DecidableEq, Repr

structure TypeDesc where
  name : String
  key : KeyKind
  val : ValKind
  addOp : AddOp
  growMul : Nat
  growAdd : Nat
  evictLast : End       -- modes PUT_LAST / PUT_FORCE_LAST
  evictFirst : End      -- modes PUT_FIRST / PUT_FORCE_FIRST
  capGuard : CapGuard
  cvScan : CVScan
  refuseEmpty : Bool    -- put/add return at once for the empty string key
  blindEmpty : Bool     -- contains answers false for the empty string key
  addFreshNew : Bool    -- Add on a fresh key returns the new value (plain IntIntMap)
  deriving DecidableEq, Repr

/-- (`unknown` constructors are produced only by the translator, for a shape it does not recognise;
    no table of the model contains one, so every obligation about such a type fails) -/
def lt (name : String) (key : KeyKind) (val : ValKind) (addOp : AddOp) (capGuard : CapGuard) (cvScan : CVScan)
    (refuseEmpty blindEmpty : Bool := false) : TypeDesc :=
  { name, key, val, addOp, growMul := 2, growAdd := 1, evictLast := .front, evictFirst := .back,
    capGuard, cvScan, refuseEmpty, blindEmpty, addFreshNew := false }

/-- the thirteen linked types as the CodeModel assumes them (after the proposed fixes D12 D13 D14 D16) -/
def linkedTypes : List TypeDesc := [
  lt "LinkedMap"           .obj   .obj     .none       .guarded .none,
  lt "IntKeyLinkedMap"     .int32 .obj     .none       .guarded .all,
  lt "LongKeyLinkedMap"    .int64 .obj     .none       .guarded .none,
  lt "StringKeyLinkedMap"  .str   .obj     .none       .noCtor  .none,
  lt "IntIntLinkedMap"     .int32 .int32   .accumulate .noCtor  .all,
  lt "IntFloatLinkedMap"   .int32 .float32 .accumulate .noCtor  .all,
  lt "LongFloatLinkedMap"  .int64 .float32 .accumulate .noCtor  .all,
  lt "LongLongLinkedMap"   .int64 .int64   .accumulate .guarded .all,
  lt "StringIntLinkedMap"  .str   .int32   .accumulate .noCtor  .all (refuseEmpty := true),
  lt "StringLongLinkedMap" .str   .int64   .accumulate .noCtor  .all (refuseEmpty := true),
  lt "LinkedSet"           .obj   .unit    .none       .noCtor  .none,
  lt "IntLinkedSet"        .int32 .unit    .none       .noCtor  .none,
  lt "StringLinkedSet"     .str   .unit    .none       .noCtor  .none (blindEmpty := true)
]

def pt (name : String) (key : KeyKind) (val : ValKind) (addOp : AddOp) (capGuard : CapGuard) (cvScan : CVScan)
    (refuseEmpty blindEmpty addFreshNew : Bool := false) : TypeDesc :=
  { name, key, val, addOp, growMul := 2, growAdd := 1, evictLast := .front, evictFirst := .back,
    capGuard, cvScan, refuseEmpty, blindEmpty, addFreshNew }

/-- the four plain types (after the proposed fixes D12 D16 D45); `evict*` are unused (no bound) -/
def plainTypes : List TypeDesc := [
  pt "IntIntMap" .int32 .int32 .accumulate .guarded .all (addFreshNew := true),
  pt "IntKeyMap" .int32 .obj   .none       .guarded .all,
  pt "IntSet"    .int32 .unit  .none       .noCtor  .none,
  pt "StringSet" .str   .unit  .none       .noCtor  .none (refuseEmpty := true) (blindEmpty := true)
]

def findType (tbl : List TypeDesc) (name : String) : Option TypeDesc := tbl.find? (fun t => t.name == name)

/-- a type is regular when it has none of the recorded deviations -/
def TypeDesc.regular (t : TypeDesc) : Bool :=
  !t.refuseEmpty && !t.blindEmpty && !t.addFreshNew && t.addOp != .assign &&
  (t.cvScan == .none || t.cvScan == .all) && t.capGuard != .unguarded

/-- the descriptor after a repair of the recorded deviations (known findings D15, D17): same type,
    the deviation flags cleared.  Tie A accepts either form; the harness replays each known finding and
    configures the session with the repaired form once a finding no longer reproduces. -/
def TypeDesc.repaired (t : TypeDesc) : TypeDesc :=
  { t with refuseEmpty := false, blindEmpty := false, addFreshNew := false }

/-! semantic reading of a descriptor.  In the drivers every value is an integer:
    * int32 / int64 values: the number itself (`add` wraps);
    * float32 values: the IEEE-754 **bit pattern** (0 … 2^32-1); `add` is float32 addition and `ContainsValue`
      compares with float `==` (NaN ≠ NaN, +0 = -0), both computed by Lean's `Float32` (the theorems are
      generic in `comb` and `veq`, so nothing is assumed about them);
    * interface{} values: a boxed integer, or `nilValue` for a stored `nil`. -/

def wrapBits (bits : Nat) (x : Int) : Int :=
  let m : Int := (2 : Int) ^ bits
  let h : Int := (2 : Int) ^ (bits - 1)
  (x + h) % m - h

def f32OfBits (a : Int) : Float32 := Float32.ofBits a.toNat.toUInt32

def f32add (a b : Int) : Int := ((f32OfBits a + f32OfBits b).toBits.toNat : Int)

def f32eq (a b : Int) : Bool := f32OfBits a == f32OfBits b

/-- a NaN bit pattern (payloads are not compared: both sides print `nan`) -/
def f32isNaN (a : Int) : Bool := a / 8388608 % 256 == 255 && a % 8388608 != 0

/-- the stored `nil` of the interface{}-valued maps (outside the int64 range of boxed values) -/
def nilValue : Int := 1180591620717411303424

def TypeDesc.comb (t : TypeDesc) : Int → Int → Int :=
  match t.addOp, t.val with
  | .assign, _ => fun _ b => b
  | .accumulate, .int32 => fun a b => wrapBits 32 (a + b)
  | .accumulate, .int64 => fun a b => wrapBits 64 (a + b)
  | .accumulate, .float32 => f32add
  | _, _ => fun a b => a + b

def TypeDesc.veq (t : TypeDesc) : Int → Int → Bool :=
  match t.val with
  | .float32 => f32eq
  | _ => fun a b => a == b

def TypeDesc.descOf {K : Type} (t : TypeDesc) (isEmpty : K → Bool) : Desc K Int :=
  { comb := t.comb, veq := t.veq,
    refuse := fun k => t.refuseEmpty && isEmpty k, blind := fun k => t.blindEmpty && isEmpty k }

end HMap
