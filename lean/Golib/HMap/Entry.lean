/-
  Golib.HMap.Entry — the rest of the public API of the thirteen linked types of util/hmap: what a caller can do
  with the *entry objects* handed out by `Entries()` (`<Type>LinkedEntry.go`: GetKey / GetValue / SetValue / Equals /
  HashCode / ToString) and the enumerator-driven text and list views of the containers.

    entrySetValue k v   `e := …Entries().NextElement()` with `e.GetKey() == k`, then `e.SetValue(v)`: the entry is the
                        cell of the table, so the write goes THROUGH to the container — value replaced in place, order
                        and size untouched, previous value returned (`old := this.value; this.value = v; return old`)
    unipoint k          StringLinkedSet.Unipoint: `put(key, PUT_LAST)`, answers the key whether or not it was present
    enumFrom k          `New<Type>Enumer(parent, e, ELEMENT_TYPE_KEYS)` for the entry `e` of key `k`: the keys from that
                        entry to the header
    valueIterator       IntKeyLinkedMap.ValueIterator(), driven with HasNext / Next (aliases of HasMoreElements / NextElement)
    toString nl         `ToString()` (`nl = false`) / IntKeyLinkedMap.ToFormatString() (`nl = true`): the loop
                        `for i := 0; x.HasMoreElements(); i++ { if i > 0 { ", " }; e.ToString() }` between `{` and `}`
    toKeySet            IntKeyLinkedMap.ToKeySet(): `PushFront` of every key — the keys in reverse order
    entryEquals k₁ k₂   `e₁.Equals(e₂)` and `e₁.HashCode()` for the entries of the two keys

  `XOp` adds these to the operations of `Golib.HMap.Spec`; `S.xstep` is the dictionary's answer, `LMap.xstep` the
  CodeModel's (through the table cell, the enumerator objects and the text loop).  Text is a list of bytes; a "byte"
  ≥ 256 stands for a float32 value printed with `%f` (the value's bit pattern + 256): Lean does not format floats.
-/
import Golib.HMap.Linked
import Golib.HMap.Enum

namespace HMap

/-- per-type parameters of the entry objects -/
structure EntryKind (K V : Type) where
  eqValue : Bool                 -- `Equals` compares `key == o.key && value == o.value` (otherwise the key only)
  veq : V → V → Bool             -- the `==` of the value type
  hashCode : K → V → Nat         -- `HashCode()`
  showK : K → List Nat           -- how `ToString` prints a key
  showV : V → List Nat           -- … and a value
  keyOnly : Bool := false        -- sets: `ToString` prints the keys

inductive XOut (K V : Type)
  | out (o : Out K V)
  | text (bs : List Nat)
  | eq (equals : Bool) (hash : Nat)
  deriving DecidableEq

inductive XOp (K V : Type)
  | base (op : Op K V)
  | entrySetValue (k : K) (v : V)
  | unipoint (k : K) (v : V)
  | enumFrom (k : K)
  | valueIterator
  | toString (nl : Bool)
  | toKeySet
  | entryEquals (k₁ k₂ : K)

namespace EntryKind
variable {K V : Type} [DecidableEq K]

/-- `<Type>LinkedEntry.Equals` -/
def equals (ek : EntryKind K V) (a b : K × V) : Bool :=
  decide (a.1 = b.1) && (!ek.eqValue || ek.veq a.2 b.2)

/-- `<Type>LinkedEntry.ToString()`: `fmt.Sprintf("%d=%d", key, value)` …; the sets print the key -/
def showEntry (ek : EntryKind K V) (e : K × V) : List Nat :=
  if ek.keyOnly then ek.showK e.1 else ek.showK e.1 ++ [61] ++ ek.showV e.2

/-- one element of the text loop (`ToFormatString` appends a newline to each) -/
def showLine (ek : EntryKind K V) (nl : Bool) (e : K × V) : List Nat :=
  ek.showEntry e ++ (if nl then [10] else [])

end EntryKind

/-- `", "` -/
def textSep : List Nat := [44, 32]

/-- `{` first `, ` second `, ` … `}` -/
def renderText : List (List Nat) → List Nat
  | [] => [123, 125]
  | x :: r => [123] ++ x ++ (r.map (textSep ++ ·)).flatten ++ [125]

namespace S
variable {K V : Type} [DecidableEq K] [DecidableEq V]

def entrySetValue (s : S K V) (k : K) (v : V) : S K V × Option V :=
  match AL.get s.ents k with
  | some old => ({ s with ents := AL.set s.ents k v }, some old)
  | none => (s, none)

def xstep (d : Desc K V) (ek : EntryKind K V) (s : S K V) : XOp K V → S K V × XOut K V
  | .base op => let r := step d s op; (r.1, .out r.2)
  | .entrySetValue k v => let r := s.entrySetValue k v; (r.1, .out (.ofVal r.2))
  | .unipoint k v => ((put d s .last k v).1, .out (.key k))
  | .enumFrom k => (s, .out (.keys ((s.ents.map (·.1)).dropWhile (· != k))))
  | .valueIterator => (s, .out (.vals (s.ents.map (·.2))))
  | .toString nl => (s, .text (renderText (s.ents.map (ek.showLine nl))))
  | .toKeySet => (s, .out (.keys (s.ents.map (·.1)).reverse))
  | .entryEquals k₁ k₂ =>
    match AL.get s.ents k₁, AL.get s.ents k₂ with
    | some v₁, some v₂ => (s, .eq (ek.equals (k₁, v₁) (k₂, v₂)) (ek.hashCode k₁ v₁))
    | _, _ => (s, .out .none)

def xrun (d : Desc K V) (ek : EntryKind K V) : S K V → List (XOp K V) → S K V × List (XOut K V)
  | s, [] => (s, [])
  | s, op :: ops =>
    let r := xstep d ek s op
    let rr := xrun d ek r.1 ops
    (rr.1, r.2 :: rr.2)

end S

namespace LMap
variable {K V : Type} [DecidableEq K] [DecidableEq V]
variable (hash : K → Nat) (thr : Nat → Nat)

/-- `e.SetValue(v)` on the entry object of key `k` obtained from `Entries()`: the entry IS the cell of the hash chain -/
def entrySetValue (m : LMap K V) (k : K) (v : V) : LMap K V × Option V :=
  match m.tab.get hash k with
  | some old => ({ m with tab := m.tab.setExisting hash k v }, some old)
  | none => (m, none)

/-- the loop of `ToString()`: `for i := 0; x.HasMoreElements(); i++ { if i > 0 { buffer.WriteString(", ") };
    e := x.NextElement(); buffer.WriteString(e.ToString()) }` (fuel bounds the number of rounds) -/
def textLoop (ek : EntryKind K V) (nl : Bool) (get : K → Option V) : Nat → Nat → LEnum K → List Nat
  | 0, _, _ => []
  | fuel + 1, i, e =>
    if e.hasMore then
      match e.next with
      | some (k, e') =>
        (if 0 < i then textSep else []) ++
          (match get k with
           | some v => ek.showLine nl (k, v)
           | none => []) ++ textLoop ek nl get fuel (i + 1) e'
      | none => []
    else []

def toText (ek : EntryKind K V) (nl : Bool) (m : LMap K V) : List Nat :=
  [123] ++ textLoop ek nl (m.get hash) m.count 0 m.openEnum ++ [125]

def xstep (d : Desc K V) (ek : EntryKind K V) (m : LMap K V) : XOp K V → LMap K V × XOut K V
  | .base op => let r := step hash thr d m op; (r.1, .out r.2)
  | .entrySetValue k v => let r := m.entrySetValue hash k v; (r.1, .out (.ofVal r.2))
  | .unipoint k v => ((m.put hash thr d .last k v).1, .out (.key k))
  | .enumFrom k => (m, .out (.keys (LEnum.drain m.count ⟨m.order.dropWhile (· != k)⟩)))
  | .valueIterator => (m, .out (.vals (m.enumValues hash (LEnum.drain m.count m.openEnum))))
  | .toString nl => (m, .text (m.toText hash ek nl))
  | .toKeySet => (m, .out (.keys ((LEnum.drain m.count m.openEnum).foldl (fun l k => k :: l) [])))
  | .entryEquals k₁ k₂ =>
    match m.get hash k₁, m.get hash k₂ with
    | some v₁, some v₂ => (m, .eq (ek.equals (k₁, v₁) (k₂, v₂)) (ek.hashCode k₁ v₁))
    | _, _ => (m, .out .none)

def xrun (d : Desc K V) (ek : EntryKind K V) : LMap K V → List (XOp K V) → LMap K V × List (XOut K V)
  | m, [] => (m, [])
  | m, op :: ops =>
    let r := xstep hash thr d ek m op
    let rr := xrun d ek r.1 ops
    (rr.1, r.2 :: rr.2)

end LMap
end HMap
