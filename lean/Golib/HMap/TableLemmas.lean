/-
  Golib.HMap.TableLemmas — the bucket array is a finite map.

  `Table.Inv`: capacity ≥ 1, every cell sits in the bucket of its own key (`home`), keys are distinct
  inside a bucket (`nodup`).  Under `Inv` the table behaves as the function `get`, for an arbitrary
  hash function:  `get_setExisting`, `get_insertNew`, `get_del`, `get_clear`, `get_rehash`, and the
  enumeration `entries` lists exactly the graph of `get`, each key once.
-/
import Golib.HMap.Table
import Golib.HMap.ChainLemmas

namespace HMap
namespace Table
set_option linter.unusedSectionVars false
variable {K V : Type} [DecidableEq K]

@[simp] theorem cap_setBucket (t : Table K V) (i : Nat) (c : Chain K V) : (t.setBucket i c).cap = t.cap := by
  simp [setBucket, cap]

theorem bucket_setBucket (t : Table K V) (i j : Nat) (c : Chain K V) :
    (t.setBucket i c).bucket j = if j = i ∧ i < t.cap then c else t.bucket j := by
  unfold setBucket bucket cap
  simp only [Array.getD_eq_getD_getElem?, Array.getElem?_setIfInBounds]
  by_cases hji : i = j
  · subst hji
    by_cases hlt : i < t.arr.size <;> simp [hlt]
  · have : ¬ j = i := fun e => hji e.symm
    simp [hji, this]

theorem bucket_ge (t : Table K V) {i : Nat} (h : t.cap ≤ i) : t.bucket i = [] := by
  unfold bucket cap at *
  simp [Array.getD_eq_getD_getElem?, Array.getElem?_eq_none h]

@[simp] theorem cap_new (n : Nat) : (new n : Table K V).cap = n := by simp [new, cap]

@[simp] theorem bucket_new (n i : Nat) : (new n : Table K V).bucket i = [] := by
  unfold new bucket
  simp only [Array.getD_eq_getD_getElem?]
  by_cases h : i < n
  · simp [h]
  · simp [h]

variable (hash : K → Nat)

structure Inv (t : Table K V) : Prop where
  pos : 0 < t.cap
  home : ∀ i, ∀ e ∈ t.bucket i, hash e.1 % t.cap = i
  nodup : ∀ i, ((t.bucket i).map Prod.fst).Nodup

theorem idx_lt (t : Table K V) (hp : 0 < t.cap) (k : K) : t.idx hash k < t.cap := Nat.mod_lt _ hp

theorem Inv.new {n : Nat} (h : 0 < n) : (Table.new n : Table K V).Inv hash :=
  ⟨by simpa using h, by simp, by simp⟩

@[simp] theorem get_new (n : Nat) (k : K) : (Table.new n : Table K V).get hash k = none := by
  simp [get]

@[simp] theorem cap_clear (t : Table K V) : t.clear.cap = t.cap := by simp [clear]

@[simp] theorem get_clear (t : Table K V) (k : K) : t.clear.get hash k = none := by simp [clear]

theorem Inv.clear {t : Table K V} (h : t.Inv hash) : t.clear.Inv hash := Inv.new hash h.pos

/-! ### setExisting -/

theorem get_setExisting (t : Table K V) (hp : 0 < t.cap) (k k' : K) (v : V) (h : (t.get hash k).isSome) :
    (t.setExisting hash k v).get hash k' = if k = k' then some v else t.get hash k' := by
  unfold setExisting get idx at *
  simp only [cap_setBucket, bucket_setBucket]
  have hlt : hash k % t.cap < t.cap := Nat.mod_lt _ hp
  by_cases hj : hash k' % t.cap = hash k % t.cap
  · simp only [hj, hlt, and_self, if_true]
    rw [chainGet_set _ _ _ _ h]
  · have : ¬ k = k' := fun e => hj (by rw [e])
    simp [hj, this]

theorem Inv.setExisting {t : Table K V} (h : t.Inv hash) (k : K) (v : V) : (t.setExisting hash k v).Inv hash := by
  refine ⟨by simpa [Table.setExisting] using h.pos, ?_, ?_⟩
  · intro i e he
    simp only [Table.setExisting, cap_setBucket, bucket_setBucket] at he ⊢
    split at he
    · rename_i hc
      have hm := mem_chainSet_fst he
      obtain ⟨e', he', hfe⟩ := List.mem_map.mp hm
      have := h.home _ e' he'
      rw [hfe] at this
      rw [this, hc.1]
    · exact h.home i e he
  · intro i
    simp only [Table.setExisting, bucket_setBucket]
    split
    · rw [chainSet_keys]; exact h.nodup _
    · exact h.nodup i

/-! ### insertNew -/

theorem get_insertNew (t : Table K V) (hp : 0 < t.cap) (k k' : K) (v : V) :
    (t.insertNew hash k v).get hash k' = if k = k' then some v else t.get hash k' := by
  unfold insertNew get idx
  simp only [cap_setBucket, bucket_setBucket]
  have hlt : hash k % t.cap < t.cap := Nat.mod_lt _ hp
  by_cases hj : hash k' % t.cap = hash k % t.cap
  · simp only [hj, hlt, and_self, if_true, chainGet_cons]
  · have : ¬ k = k' := fun e => hj (by rw [e])
    simp [hj, this]

theorem Inv.insertNew {t : Table K V} (h : t.Inv hash) (k : K) (v : V) (habs : t.get hash k = none) :
    (t.insertNew hash k v).Inv hash := by
  refine ⟨by simpa [Table.insertNew] using h.pos, ?_, ?_⟩
  · intro i e he
    simp only [Table.insertNew, cap_setBucket, bucket_setBucket] at he ⊢
    split at he
    · rename_i hc
      rcases List.mem_cons.mp he with he | he
      · subst he; simp [idx, hc.1]
      · have := h.home _ e he
        rw [this, hc.1]
    · exact h.home i e he
  · intro i
    simp only [Table.insertNew, bucket_setBucket]
    split
    · simp only [List.map_cons, List.nodup_cons]
      exact ⟨chainGet_none_iff.mp habs, h.nodup _⟩
    · exact h.nodup i

/-! ### del -/

theorem get_del (t : Table K V) (h : t.Inv hash) (k k' : K) :
    (t.del hash k).get hash k' = if k = k' then none else t.get hash k' := by
  unfold del get idx
  simp only [cap_setBucket, bucket_setBucket]
  have hlt : hash k % t.cap < t.cap := Nat.mod_lt _ h.pos
  by_cases hj : hash k' % t.cap = hash k % t.cap
  · simp only [hj, hlt, and_self, if_true]
    rw [chainGet_del _ _ _ (h.nodup _)]
  · have : ¬ k = k' := fun e => hj (by rw [e])
    simp [hj, this]

theorem Inv.del {t : Table K V} (h : t.Inv hash) (k : K) : (t.del hash k).Inv hash := by
  refine ⟨by simpa [Table.del] using h.pos, ?_, ?_⟩
  · intro i e he
    simp only [Table.del, cap_setBucket, bucket_setBucket] at he ⊢
    split at he
    · rename_i hc
      have := h.home _ e (mem_chainDel he)
      rw [this, hc.1]
    · exact h.home i e he
  · intro i
    simp only [Table.del, bucket_setBucket]
    split
    · exact chainDel_nodup _ (h.nodup _)
    · exact h.nodup i

/-! ### enumeration -/

theorem mem_entries {t : Table K V} {e : K × V} : e ∈ t.entries ↔ ∃ i, i < t.cap ∧ e ∈ t.bucket i := by
  unfold entries
  simp only [List.mem_flatMap, List.mem_reverse, List.mem_range]

theorem mem_entries_iff {t : Table K V} (h : t.Inv hash) {k : K} {v : V} :
    (k, v) ∈ t.entries ↔ t.get hash k = some v := by
  rw [mem_entries]
  unfold get
  rw [chainGet_eq_some_iff (h.nodup _)]
  constructor
  · rintro ⟨i, _, hi⟩
    have := h.home i _ hi
    simp only at this
    unfold idx; rw [this]; exact hi
  · intro hm
    exact ⟨_, idx_lt hash t h.pos k, hm⟩

theorem entries_keys_nodup {t : Table K V} (h : t.Inv hash) : (t.entries.map Prod.fst).Nodup := by
  unfold entries
  rw [List.map_flatMap]
  unfold List.Nodup
  rw [List.pairwise_flatMap]
  constructor
  · intro i _
    exact h.nodup i
  · rw [List.pairwise_reverse]
    have hr : (List.range t.cap).Pairwise (· ≠ ·) := List.nodup_range
    refine hr.imp ?_
    intro a b hab x hx y hy hxy
    obtain ⟨e1, he1, hf1⟩ := List.mem_map.mp hx
    obtain ⟨e2, he2, hf2⟩ := List.mem_map.mp hy
    have h1 := h.home _ e1 he1
    have h2 := h.home _ e2 he2
    rw [hf1] at h1; rw [hf2] at h2
    subst hxy
    exact hab (h2.symm.trans h1)

/-! ### rehash -/

@[simp] theorem cap_pushCell (t : Table K V) (e : K × V) : (t.pushCell hash e).cap = t.cap := by
  simp [pushCell]

@[simp] theorem cap_foldl_pushCell (es : List (K × V)) (t : Table K V) :
    (es.foldl (pushCell hash) t).cap = t.cap := by
  induction es generalizing t with
  | nil => rfl
  | cons e es ih => simp [List.foldl_cons, ih]

theorem bucket_foldl_pushCell (es : List (K × V)) (t : Table K V) (hp : 0 < t.cap) (j : Nat) :
    (es.foldl (pushCell hash) t).bucket j =
      (es.filter (fun e => decide (hash e.1 % t.cap = j))).reverse ++ t.bucket j := by
  induction es generalizing t with
  | nil => simp
  | cons e es ih =>
    rw [List.foldl_cons, ih _ (by simpa using hp)]
    simp only [cap_pushCell, List.filter_cons]
    unfold pushCell
    simp only [bucket_setBucket]
    have hlt : hash e.1 % t.cap < t.cap := Nat.mod_lt _ hp
    by_cases hj : hash e.1 % t.cap = j
    · subst hj; simp [hlt]
    · have : ¬ j = hash e.1 % t.cap := fun h => hj h.symm
      simp [hj, this]

@[simp] theorem cap_rehash (t : Table K V) : (t.rehash hash).cap = 2 * t.cap + 1 := by
  simp [rehash]

theorem bucket_rehash (t : Table K V) (j : Nat) :
    (t.rehash hash).bucket j = (t.entries.filter (fun e => decide (hash e.1 % (2 * t.cap + 1) = j))).reverse := by
  unfold rehash
  rw [bucket_foldl_pushCell hash _ _ (by simp)]
  simp

theorem Inv.rehash {t : Table K V} (h : t.Inv hash) : (t.rehash hash).Inv hash := by
  refine ⟨by simp, ?_, ?_⟩
  · intro i e he
    rw [bucket_rehash] at he
    simp only [List.mem_reverse, List.mem_filter, decide_eq_true_eq] at he
    simpa using he.2
  · intro i
    rw [bucket_rehash]
    have hn := entries_keys_nodup hash h
    have hs : ((t.entries.filter (fun e => decide (hash e.1 % (2 * t.cap + 1) = i))).map Prod.fst).Sublist
        (t.entries.map Prod.fst) := (List.filter_sublist).map _
    have := List.Nodup.sublist hs hn
    rw [List.map_reverse]
    exact List.pairwise_reverse.mpr (this.imp (fun h => Ne.symm h))

theorem get_rehash {t : Table K V} (h : t.Inv hash) (k : K) : (t.rehash hash).get hash k = t.get hash k := by
  have hr := Inv.rehash hash h
  apply Option.ext
  intro v
  rw [← mem_entries_iff hash h]
  unfold get
  rw [chainGet_eq_some_iff (hr.nodup _), bucket_rehash]
  simp [idx]

/-- rehashing keeps the set of cells -/
theorem mem_entries_rehash {t : Table K V} (h : t.Inv hash) (e : K × V) :
    e ∈ (t.rehash hash).entries ↔ e ∈ t.entries := by
  obtain ⟨k, v⟩ := e
  rw [mem_entries_iff hash (Inv.rehash hash h), mem_entries_iff hash h, get_rehash hash h]

end Table
end HMap
