/-
  Golib.HMap.PlainStep — `plain_refine` for every operation / history of the plain maps, the
  enumeration theorem, and the IntIntMap wire round trip.
-/
import Golib.HMap.PlainLemmas
import Golib.HMap.Wire

set_option linter.unusedSectionVars false
set_option linter.unusedSimpArgs false

namespace HMap

/-- equality of outputs, enumerations up to permutation (a plain hash map has no order) -/
def Out.equiv {K V : Type} : Out K V → Out K V → Prop
  | .keys a, .keys b => a.Perm b
  | .vals a, .vals b => a.Perm b
  | .ents a, .ents b => a.Perm b
  | x, y => x = y

theorem Out.equiv_of_eq {K V : Type} {x y : Out K V} (h : x = y) : Out.equiv x y := by
  subst h; cases x <;> first | rfl | exact List.Perm.refl _

/-- pointwise `Out.equiv` of two output sequences -/
inductive Outs.equiv {K V : Type} : List (Out K V) → List (Out K V) → Prop
  | nil : Outs.equiv [] []
  | cons {a b : Out K V} {as bs : List (Out K V)} : Out.equiv a b → Outs.equiv as bs → Outs.equiv (a :: as) (b :: bs)

namespace PMap
variable {K V : Type} [DecidableEq K] [DecidableEq V]
variable {hash : K → Nat} {thr : Nat → Nat} {d : PDesc K V}

local macro "triv" : tactic => `(tactic| first | rfl | trivial)

theorem plain_refine_step (thr : Nat → Nat) {m : PMap K V} {s : PS K V} (h : Rel hash d m s) (op : POp K V) :
    Rel hash d (PMap.step hash thr d m op).1 (PS.step d s op).1 ∧
    Out.equiv (PMap.step hash thr d m op).2 (PS.step d s op).2 := by
  cases op with
  | put k v =>
    obtain ⟨a, b⟩ := put_rel (thr := thr) h k v
    simp only [step, PS.step]; exact ⟨a, Out.equiv_of_eq (by rw [b])⟩
  | add k v =>
    obtain ⟨a, b⟩ := add_rel (thr := thr) h k v
    simp only [step, PS.step]; exact ⟨a, Out.equiv_of_eq (by rw [b])⟩
  | addIfExist k v =>
    obtain ⟨a, b⟩ := addIfExist_rel h k v
    simp only [step, PS.step]; exact ⟨a, Out.equiv_of_eq (by rw [b])⟩
  | get k =>
    simp only [step, PS.step, get]; exact ⟨h, Out.equiv_of_eq (by rw [h.get])⟩
  | containsKey k =>
    simp only [step, PS.step, get]; exact ⟨h, Out.equiv_of_eq (by rw [h.get])⟩
  | containsValue v =>
    simp only [step, PS.step]; exact ⟨h, Out.equiv_of_eq (by rw [any_perm _ (entries_perm h)])⟩
  | remove k =>
    obtain ⟨a, b⟩ := remove_rel h k
    simp only [step, PS.step]; exact ⟨a, Out.equiv_of_eq (by rw [b])⟩
  | clear =>
    simp only [step, PS.step]; exact ⟨clear_rel h, Out.equiv_of_eq rfl⟩
  | size =>
    simp only [step, PS.step]; exact ⟨h, Out.equiv_of_eq (by rw [h.count])⟩
  | isEmpty =>
    simp only [step, PS.step]
    refine ⟨h, Out.equiv_of_eq ?_⟩
    have := h.count
    cases he : s.ents with
    | nil => rw [he] at this; simp at this; simp [this]
    | cons a t =>
      rw [he] at this; simp at this
      have : m.count ≠ 0 := by omega
      simp [this]
  | isFull =>
    simp only [step, PS.step]; exact ⟨h, Out.equiv_of_eq (by rw [h.count, h.max])⟩
  | setMax n =>
    simp only [step, PS.step]
    exact ⟨⟨h.tab, h.get, h.wf, h.count, rfl, h.ok⟩, Out.equiv_of_eq rfl⟩
  | putAll l =>
    simp only [step, PS.step]; exact ⟨foldl_put_rel (thr := thr) l h, Out.equiv_of_eq rfl⟩
  | sort lt =>
    simp only [step, PS.step]; exact ⟨sort_rel (thr := thr) h lt, Out.equiv_of_eq rfl⟩
  | keys =>
    simp only [step, PS.step]; exact ⟨h, (entries_perm h).map _⟩
  | values =>
    simp only [step, PS.step]; exact ⟨h, (entries_perm h).map _⟩
  | entries =>
    simp only [step, PS.step]; exact ⟨h, entries_perm h⟩

def run (hash : K → Nat) (thr : Nat → Nat) (d : PDesc K V) : PMap K V → List (POp K V) → PMap K V × List (Out K V)
  | m, [] => (m, [])
  | m, op :: ops =>
    let r := step hash thr d m op
    let rr := run hash thr d r.1 ops
    (rr.1, r.2 :: rr.2)

end PMap

namespace PS
variable {K V : Type} [DecidableEq K] [DecidableEq V]
def run (d : PDesc K V) : PS K V → List (POp K V) → PS K V × List (Out K V)
  | s, [] => (s, [])
  | s, op :: ops =>
    let r := step d s op
    let rr := run d r.1 ops
    (rr.1, r.2 :: rr.2)
end PS

namespace PMap
variable {K V : Type} [DecidableEq K] [DecidableEq V]
variable {hash : K → Nat} {d : PDesc K V}

theorem plain_refine_run (thr : Nat → Nat) (ops : List (POp K V)) {m : PMap K V} {s : PS K V} (h : Rel hash d m s) :
    Rel hash d (PMap.run hash thr d m ops).1 (PS.run d s ops).1 ∧
    Outs.equiv (PMap.run hash thr d m ops).2 (PS.run d s ops).2 := by
  induction ops generalizing m s with
  | nil => exact ⟨h, Outs.equiv.nil⟩
  | cons op ops ih =>
    obtain ⟨hr, ho⟩ := plain_refine_step thr h op
    obtain ⟨r2, o2⟩ := ih hr
    simp only [run, PS.run]
    exact ⟨r2, Outs.equiv.cons ho o2⟩

/-- the table enumerates exactly the graph of `get`, each key once -/
theorem enumerate_once {m : PMap K V} (h : m.tab.Inv hash) :
    (m.tab.entries.map Prod.fst).Nodup ∧ ∀ k v, (k, v) ∈ m.tab.entries ↔ m.tab.get hash k = some v :=
  ⟨Table.entries_keys_nodup hash h, fun _ _ => Table.mem_entries_iff hash h⟩

end PMap

/-! ### wire -/
open Prim

theorem run_decPair (e : Int × Int) (r : Bytes) (h : inRange 8 e.1 ∧ inRange 8 e.2) :
    P.run decPair (encPair e ++ r) = some (e, r) := by
  unfold decPair encPair
  rw [List.append_assoc, P.run_bind_some _ _ _ _ _ (run_decDecimal e.1 _ h.1)]
  rw [P.run_bind_some _ _ _ _ _ (run_decDecimal e.2 _ h.2)]
  rfl

theorem run_pairsFromBytes (es : List (Int × Int)) (r : Bytes)
    (hlen : inRange 8 (es.length : Int)) (h : ∀ e ∈ es, inRange 8 e.1 ∧ inRange 8 e.2) :
    P.run pairsFromBytes (pairsToBytes es ++ r) = some (es, r) := by
  unfold pairsFromBytes pairsToBytes
  rw [List.append_assoc, P.run_bind_some _ _ _ _ _ (run_decDecimal _ _ hlen)]
  have : ¬ ((es.length : Int) < 0) := by omega
  simp only [this, if_false, Int.toNat_natCast]
  exact run_decMany encPair decPair (fun e => inRange 8 e.1 ∧ inRange 8 e.2) run_decPair es r h

namespace PMap
variable {hash : Int → Nat} {d : PDesc Int Int}

/-- `ToObject(ToBytes(m))` into a fresh map is the same finite map as `m` -/
theorem intint_wire (thr : Nat → Nat) (cap : Nat) {m : PMap Int Int} (h : m.tab.Inv hash)
    (hlen : inRange 8 (m.tab.entries.length : Int))
    (hr : ∀ e ∈ m.tab.entries, inRange 8 e.1 ∧ inRange 8 e.2)
    (hok : ∀ e ∈ m.tab.entries, d.refuse e.1 = false) :
    let m' := toObject hash thr d (PMap.new thr cap) (toBytes m)
    (∀ k, m'.tab.get hash k = m.tab.get hash k) ∧ m'.count = m.tab.entries.length ∧ m'.tab.Inv hash := by
  intro m'
  have hdec : P.run pairsFromBytes (toBytes m) = some (m.tab.entries, []) := by
    have := run_pairsFromBytes m.tab.entries [] hlen hr
    simpa [toBytes] using this
  have hm' : m' = m.tab.entries.foldl (fun acc e => (acc.put hash thr d e.1 e.2).1) (PMap.new thr cap) := by
    show toObject hash thr d (PMap.new thr cap) (toBytes m) = _
    unfold toObject; rw [hdec]
  have hrel := foldl_put_rel (thr := thr) (d := d) m.tab.entries (Rel.new (hash := hash) (thr := thr) (d := d) cap)
  have hn := Table.entries_keys_nodup hash h
  rw [foldl_put_fresh _ [] 0 (by simpa [AL.keys] using hn) hok] at hrel
  simp only [List.nil_append] at hrel
  rw [← hm'] at hrel
  refine ⟨?_, hrel.count, hrel.tab⟩
  intro k
  rw [hrel.get]
  apply Option.ext
  intro v
  rw [AL.get_eq_some_iff hn, Table.mem_entries_iff hash h]

end PMap
end HMap
