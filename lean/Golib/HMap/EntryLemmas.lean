/-
  Golib.HMap.EntryLemmas — the extended API (`Golib.HMap.Entry`) refines the dictionary: `refine_xstep`, `refine_xrun`.
-/
import Golib.HMap.Entry
import Golib.HMap.LinkedStep

set_option linter.unusedSectionVars false
set_option linter.unusedSimpArgs false

namespace HMap
namespace LMap
variable {K V : Type} [DecidableEq K] [DecidableEq V]
variable {hash : K → Nat} {thr : Nat → Nat} {d : Desc K V}

/-! ### SetValue on a live entry object -/

theorem entrySetValue_refines {m : LMap K V} (h : Inv hash d m) (k : K) (v : V) :
    Inv hash d (m.entrySetValue hash k v).1 ∧
    (m.entrySetValue hash k v).2 = ((abs hash m).entrySetValue k v).2 ∧
    abs hash (m.entrySetValue hash k v).1 = ((abs hash m).entrySetValue k v).1 := by
  unfold entrySetValue S.entrySetValue
  rw [abs_get h]
  cases hg : m.tab.get hash k with
  | none => exact ⟨h, rfl, rfl⟩
  | some old =>
    obtain ⟨hi, he⟩ := touch_refines h .last k v (by simp [hg])
    exact ⟨hi, rfl, abs_mk he rfl⟩

/-! ### the text loop -/

/-- the closed form of the loop started at round `i` -/
def preText (i : Nat) : List (List Nat) → List Nat
  | [] => []
  | x :: r => (if 0 < i then textSep else []) ++ x ++ (r.map (textSep ++ ·)).flatten

theorem preText_succ (i : Nat) (xs : List (List Nat)) : preText (i + 1) xs = (xs.map (textSep ++ ·)).flatten := by
  cases xs with
  | nil => rfl
  | cons x r => simp [preText, List.append_assoc]

theorem textLoop_eq (ek : EntryKind K V) (nl : Bool) (g : K → Option V) (ks : List K) :
    ∀ (fuel i : Nat), ks.length ≤ fuel → (∀ k ∈ ks, (g k).isSome) →
      textLoop ek nl g fuel i ⟨ks⟩ = preText i ((absL g ks).map (ek.showLine nl)) := by
  induction ks with
  | nil =>
    intro fuel i _ _
    cases fuel <;> simp [textLoop, LEnum.hasMore, preText]
  | cons k t ih =>
    intro fuel i hf hs
    cases fuel with
    | zero => simp at hf
    | succ f =>
      obtain ⟨w, hw⟩ := Option.isSome_iff_exists.mp (hs k (by simp))
      have iht := ih f (i + 1) (by simp at hf; omega) (fun x hx => hs x (by simp [hx]))
      rw [absL_cons_some g k t w hw]
      rw [preText_succ] at iht
      simp only [textLoop, LEnum.hasMore, LEnum.next, List.isEmpty_cons, Bool.not_false, if_true, hw, iht,
        List.map_cons, preText]

theorem toText_eq {m : LMap K V} (h : Inv hash d m) (ek : EntryKind K V) (nl : Bool) :
    m.toText hash ek nl = renderText ((abs hash m).ents.map (ek.showLine nl)) := by
  unfold toText openEnum
  rw [textLoop_eq ek nl (m.get hash) m.order m.count 0 (by rw [h.count]; exact Nat.le_refl _) h.allSome]
  show _ = renderText ((absL (m.tab.get hash) m.order).map (ek.showLine nl))
  change [123] ++ preText 0 ((absL (m.tab.get hash) m.order).map (ek.showLine nl)) ++ [125] = _
  cases (absL (m.tab.get hash) m.order).map (ek.showLine nl) with
  | nil => rfl
  | cons x r => simp [preText, renderText, List.append_assoc]

/-! ### enumerators opened at an entry, value iterator, key list -/

theorem foldl_cons_rev {α : Type} (xs acc : List α) : xs.foldl (fun l k => k :: l) acc = xs.reverse ++ acc := by
  induction xs generalizing acc with
  | nil => rfl
  | cons x t ih => simp [ih]

theorem drain_order {m : LMap K V} (h : Inv hash d m) : LEnum.drain m.count m.openEnum = m.order :=
  LEnum.drain_eq _ _ (by show m.order.length ≤ m.count; rw [h.count]; exact Nat.le_refl _)

theorem drain_from {m : LMap K V} (h : Inv hash d m) (k : K) :
    LEnum.drain m.count ⟨m.order.dropWhile (· != k)⟩ = m.order.dropWhile (· != k) :=
  LEnum.drain_eq _ _ (by
    show (m.order.dropWhile (· != k)).length ≤ m.count
    rw [h.count]; exact (List.dropWhile_sublist _).length_le)

theorem not_mem_takeWhile_ne (l : List K) (k : K) : k ∉ l.takeWhile (· != k) := by
  induction l with
  | nil => simp
  | cons a t ih =>
    by_cases hak : a = k
    · subst hak; simp [List.takeWhile]
    · have : (a != k) = true := by simp [hak]
      simp only [List.takeWhile, this, List.mem_cons, not_or]
      exact ⟨fun h => hak h.symm, ih⟩

theorem head_dropWhile_ne (l : List K) (k : K) (hm : k ∈ l) : (l.dropWhile (· != k)).head? = some k := by
  induction l with
  | nil => simp at hm
  | cons a t ih =>
    by_cases hak : a = k
    · subst hak; simp [List.dropWhile]
    · have : (a != k) = true := by simp [hak]
      simp only [List.dropWhile, this]
      apply ih
      simp only [List.mem_cons] at hm
      rcases hm with h | h
      · exact absurd h.symm hak
      · exact h

/-! ### the step theorem for the extended API -/

local macro "triv" : tactic => `(tactic| first | rfl | trivial)

def XRefines (hash : K → Nat) (d : Desc K V) (r : LMap K V × XOut K V) (r' : S K V × XOut K V) : Prop :=
  Inv hash d r.1 ∧ r.2 = r'.2 ∧ abs hash r.1 = r'.1

theorem refine_xstep (thr : Nat → Nat) (ek : EntryKind K V) {m : LMap K V} (h : Inv hash d m) (op : XOp K V) :
    XRefines hash d (LMap.xstep hash thr d ek m op) (S.xstep d ek (abs hash m) op) := by
  unfold XRefines
  have hkeys : (abs hash m).ents.map (·.1) = m.order := abs_keys h
  cases op with
  | base op =>
    obtain ⟨a, b, c⟩ := refine_step thr h op
    simp only [xstep, S.xstep]; exact ⟨a, by rw [b], c⟩
  | entrySetValue k v =>
    obtain ⟨a, b, c⟩ := entrySetValue_refines h k v
    simp only [xstep, S.xstep]; exact ⟨a, by rw [b], c⟩
  | unipoint k v =>
    obtain ⟨a, _, c⟩ := put_refines (thr := thr) h .last k v
    simp only [xstep, S.xstep]; exact ⟨a, by triv, c⟩
  | enumFrom k =>
    simp only [xstep, S.xstep]
    refine ⟨h, ?_, by triv⟩
    rw [drain_from h k, hkeys]
  | valueIterator =>
    simp only [xstep, S.xstep]
    refine ⟨h, ?_, by triv⟩
    rw [drain_order h]
    show XOut.out (Out.vals (m.order.filterMap (m.tab.get hash))) = _
    rw [← map_snd_absL]; rfl
  | toString nl =>
    simp only [xstep, S.xstep]
    exact ⟨h, by rw [toText_eq h], by triv⟩
  | toKeySet =>
    simp only [xstep, S.xstep]
    refine ⟨h, ?_, by triv⟩
    rw [drain_order h, foldl_cons_rev, hkeys]; simp
  | entryEquals k₁ k₂ =>
    simp only [xstep, S.xstep]
    rw [abs_get h, abs_get h]
    unfold LMap.get
    cases m.tab.get hash k₁ <;> cases m.tab.get hash k₂ <;> exact ⟨h, by triv, by triv⟩

/-- every history over the extended API -/
theorem refine_xrun (thr : Nat → Nat) (ek : EntryKind K V) (ops : List (XOp K V)) {m : LMap K V} (h : Inv hash d m) :
    Inv hash d (LMap.xrun hash thr d ek m ops).1 ∧
    (LMap.xrun hash thr d ek m ops).2 = (S.xrun d ek (abs hash m) ops).2 ∧
    abs hash (LMap.xrun hash thr d ek m ops).1 = (S.xrun d ek (abs hash m) ops).1 := by
  induction ops generalizing m with
  | nil => exact ⟨h, rfl, rfl⟩
  | cons op ops ih =>
    obtain ⟨hi, ho, he⟩ := refine_xstep thr ek h op
    obtain ⟨i2, o2, e2⟩ := ih hi
    simp only [xrun, S.xrun]
    rw [← he]
    exact ⟨i2, by rw [ho, o2], e2⟩

end LMap
end HMap
