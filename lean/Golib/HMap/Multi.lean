/-
  Golib.HMap.Multi — several live containers.

  A pool is an array of container values; an operation addressed to slot `i` replaces slot `i` by the
  result of the single-object step and leaves every other slot untouched (`poolStep_frame`).  Containers
  are values in the model, so "no shared storage between two maps" is the specification; operations that
  take another container (`PutAll(other)`, `ToObject(other.ToBytes())`) are single-object operations whose
  argument is the *enumeration* of the source (`.putAll l`, a sequence of puts).  Tie B keeps 1–3 live
  instances per history and compares every one of them with its slot after each mutating operation.
-/

namespace HMap

def poolStep {σ O R : Type} (step : σ → O → σ × R) (dflt : σ) (pool : Array σ) (i : Nat) (op : O) : Array σ × R :=
  let r := step (pool.getD i dflt) op
  (pool.setIfInBounds i r.1, r.2)

theorem poolStep_frame {σ O R : Type} (step : σ → O → σ × R) (dflt : σ) (pool : Array σ) (i k : Nat) (op : O)
    (h : k ≠ i) : (poolStep step dflt pool i op).1.getD k dflt = pool.getD k dflt := by
  unfold poolStep
  simp only [Array.getD_eq_getD_getElem?]
  rw [Array.getElem?_setIfInBounds_ne (Ne.symm h)]

theorem poolStep_target {σ O R : Type} (step : σ → O → σ × R) (dflt : σ) (pool : Array σ) (i : Nat) (op : O)
    (h : i < pool.size) :
    (poolStep step dflt pool i op).1.getD i dflt = (step (pool.getD i dflt) op).1 ∧
    (poolStep step dflt pool i op).2 = (step (pool.getD i dflt) op).2 := by
  unfold poolStep
  simp [Array.getD_eq_getD_getElem?, Array.getElem?_setIfInBounds_self_of_lt h]

theorem poolStep_size {σ O R : Type} (step : σ → O → σ × R) (dflt : σ) (pool : Array σ) (i : Nat) (op : O) :
    (poolStep step dflt pool i op).1.size = pool.size := by
  unfold poolStep; simp

/-- a history over the pool: every operation names its slot -/
def poolRun {σ O R : Type} (step : σ → O → σ × R) (dflt : σ) : Array σ → List (Nat × O) → Array σ × List R
  | pool, [] => (pool, [])
  | pool, (i, op) :: rest =>
    let r := poolStep step dflt pool i op
    let rr := poolRun step dflt r.1 rest
    (rr.1, r.2 :: rr.2)

end HMap
