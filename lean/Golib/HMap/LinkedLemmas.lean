/-
  Golib.HMap.LinkedLemmas — invariant and abstraction of the linked CodeModel, and the refinement
  of its building blocks (remove, eviction loops, rehash, relink, insert, clear).
-/
import Golib.HMap.Linked
import Golib.HMap.TableLemmas
import Golib.HMap.AbsLemmas

set_option linter.unusedSectionVars false
set_option linter.unusedSimpArgs false

namespace HMap
namespace LMap
variable {K V : Type} [DecidableEq K] [DecidableEq V]
variable (hash : K → Nat) (thr : Nat → Nat)

/-- the representation invariant of a linked map -/
structure Inv (d : Desc K V) (m : LMap K V) : Prop where
  tab : m.tab.Inv hash
  nodup : m.order.Nodup
  mem : ∀ k, k ∈ m.order ↔ (m.tab.get hash k).isSome
  count : m.count = m.order.length
  ok : ∀ k ∈ m.order, d.refuse k = false

/-- abstraction: the association list the enumerators show, and the bound -/
def abs (m : LMap K V) : S K V := { ents := m.entries hash, max := m.max }

theorem entries_eq (m : LMap K V) : m.entries hash = absL (m.tab.get hash) m.order := rfl

variable {hash thr}
variable {d : Desc K V}

theorem Inv.allSome {m : LMap K V} (h : Inv hash d m) : ∀ k ∈ m.order, (m.tab.get hash k).isSome :=
  fun k hk => (h.mem k).mp hk

theorem abs_get {m : LMap K V} (h : Inv hash d m) (k : K) : AL.get (abs hash m).ents k = m.tab.get hash k := by
  simp only [abs, entries_eq, get_absL]
  by_cases hk : k ∈ m.order
  · simp [hk]
  · simp only [hk, if_false]
    have := (not_congr (h.mem k)).mp hk
    cases hg : m.tab.get hash k with
    | none => rfl
    | some v => simp [hg] at this

theorem abs_keys {m : LMap K V} (h : Inv hash d m) : AL.keys (abs hash m).ents = m.order := by
  simp only [abs, entries_eq]; exact keys_absL h.allSome

theorem abs_length {m : LMap K V} (h : Inv hash d m) : (abs hash m).ents.length = m.count := by
  simp only [abs, entries_eq]; rw [length_absL h.allSome, h.count]

theorem abs_WF {m : LMap K V} (h : Inv hash d m) : (abs hash m).WF := by
  unfold S.WF; rw [abs_keys h]; exact h.nodup

theorem mem_order_iff {m : LMap K V} (h : Inv hash d m) (k : K) : k ∈ m.order ↔ (AL.get (abs hash m).ents k).isSome := by
  rw [abs_get h]; exact h.mem k

/-! ### new / clear -/

theorem Inv.new (cap : Nat) : Inv hash d (LMap.new thr cap : LMap K V) := by
  unfold LMap.new
  refine ⟨?_, by simp, ?_, rfl, by simp⟩
  · apply Table.Inv.new; split <;> omega
  · intro k; simp

theorem abs_new (cap : Nat) : abs hash (LMap.new thr cap : LMap K V) = {} := by
  simp [abs, LMap.new, entries, S.mk.injEq]

theorem Inv.clear {m : LMap K V} (h : Inv hash d m) : Inv hash d m.clear := by
  unfold LMap.clear
  exact ⟨h.tab.clear hash, by simp, by intro k; simp, rfl, by simp⟩

theorem abs_clear (m : LMap K V) : abs hash m.clear = { ents := [], max := m.max } := by
  simp [abs, LMap.clear, entries]

/-! ### setMax -/

theorem Inv.setMax {m : LMap K V} (h : Inv hash d m) (n : Nat) : Inv hash d { m with max := n } :=
  ⟨h.tab, h.nodup, h.mem, h.count, h.ok⟩

/-! ### remove -/

theorem remove_refines {m : LMap K V} (h : Inv hash d m) (k : K) :
    Inv hash d (m.remove hash k).1 ∧
    (m.remove hash k).2 = AL.get (abs hash m).ents k ∧
    (abs hash (m.remove hash k).1).ents = AL.erase (abs hash m).ents k ∧
    (m.remove hash k).1.max = m.max ∧ (m.remove hash k).1.threshold = m.threshold := by
  unfold remove
  cases hg : m.tab.get hash k with
  | none =>
    simp only
    refine ⟨h, by rw [abs_get h, hg], ?_, by trivial, by trivial⟩
    rw [AL.erase_of_not_mem]
    rw [abs_keys h]
    intro hk; have := (h.mem k).mp hk; simp [hg] at this
  | some v =>
    simp only
    have hk : k ∈ m.order := (h.mem k).mpr (by simp [hg])
    refine ⟨⟨h.tab.del hash k, h.nodup.erase k, ?_, ?_, ?_⟩, by rw [abs_get h, hg], ?_, by trivial, by trivial⟩
    · intro x
      simp only
      rw [Table.get_del hash _ h.tab, List.Nodup.mem_erase_iff h.nodup]
      by_cases hx : k = x
      · subst hx; simp
      · have : x ≠ k := fun e => hx e.symm
        simp [hx, this, h.mem x]
    · simp only
      rw [h.count, List.length_erase_of_mem hk]
    · intro x hx
      exact h.ok x (List.mem_of_mem_erase hx)
    · simp only [abs, entries_eq]
      rw [erase_absL _ h.nodup]
      apply absL_congr
      intro x hx
      rw [Table.get_del hash _ h.tab]
      have : k ≠ x := by
        intro e; subst e; exact (List.Nodup.not_mem_erase h.nodup) hx
      simp [this]

/-! ### the eviction loops -/

theorem evictFront_refines {m : LMap K V} (h : Inv hash d m) (fuel : Nat) :
    Inv hash d (m.evictFront hash fuel) ∧
    (abs hash (m.evictFront hash fuel)).ents = AL.evictFrontLoop m.max (abs hash m).ents fuel ∧
    (m.evictFront hash fuel).max = m.max ∧ (m.evictFront hash fuel).threshold = m.threshold := by
  induction fuel generalizing m with
  | zero => exact ⟨h, by simp [evictFront, evictBack, AL.evictFrontLoop, AL.evictBackLoop], by simp [evictFront, evictBack], by simp [evictFront, evictBack]⟩
  | succ f ih =>
    unfold evictFront AL.evictFrontLoop
    rw [abs_length h]
    by_cases hle : m.max ≤ m.count
    · simp only [hle, if_true]
      cases ho : m.order with
      | nil =>
        have : (abs hash m).ents = [] := by simp [abs, entries_eq, ho]
        simp only [List.head?_nil, this]
        exact ⟨h, by simp [abs, entries_eq, ho], (by first | rfl | trivial), (by first | rfl | trivial)⟩
      | cons k t =>
        simp only [List.head?_cons]
        obtain ⟨hi, _, he, hmax, hthr⟩ := remove_refines h k
        obtain ⟨w, hw⟩ := Option.isSome_iff_exists.mp ((h.mem k).mp (by simp [ho]))
        have habs : (abs hash m).ents = (k, w) :: absL (m.tab.get hash) t := by
          simp only [abs, entries_eq, ho]; exact absL_cons_some _ k t w hw
        have hkt : k ∉ AL.keys (absL (m.tab.get hash) t) := by
          intro hh
          have hn := h.nodup; rw [ho, List.nodup_cons] at hn
          exact hn.1 ((keys_absL_sublist _ t).subset hh)
        have hev : AL.erase (abs hash m).ents k = absL (m.tab.get hash) t := by
          rw [habs]
          have := AL.erase_of_not_mem hkt
          unfold AL.erase at this ⊢
          simp [List.filter_cons, this]
        obtain ⟨i2, e2, m2, t2⟩ := ih hi
        refine ⟨i2, ?_, by rw [m2, hmax], by rw [t2, hthr]⟩
        rw [e2, he, hev, hmax, habs]
    · simp only [hle, if_false]
      exact ⟨h, (by first | rfl | trivial), (by first | rfl | trivial), (by first | rfl | trivial)⟩

theorem evictBack_refines {m : LMap K V} (h : Inv hash d m) (fuel : Nat) :
    Inv hash d (m.evictBack hash fuel) ∧
    (abs hash (m.evictBack hash fuel)).ents = AL.evictBackLoop m.max (abs hash m).ents fuel ∧
    (m.evictBack hash fuel).max = m.max ∧ (m.evictBack hash fuel).threshold = m.threshold := by
  induction fuel generalizing m with
  | zero => exact ⟨h, by simp [evictFront, evictBack, AL.evictFrontLoop, AL.evictBackLoop], by simp [evictFront, evictBack], by simp [evictFront, evictBack]⟩
  | succ f ih =>
    unfold evictBack AL.evictBackLoop
    rw [abs_length h]
    by_cases hle : m.max ≤ m.count
    · simp only [hle, if_true]
      cases ho : m.order.getLast? with
      | none =>
        have ho' : m.order = [] := List.getLast?_eq_none_iff.mp ho
        have : (abs hash m).ents = [] := by simp [abs, entries_eq, ho']
        simp only [this, if_true]
        exact ⟨h, by simp [abs, entries_eq, ho'], (by first | rfl | trivial), (by first | rfl | trivial)⟩
      | some k =>
        simp only
        obtain ⟨hi, _, he, hmax, hthr⟩ := remove_refines h k
        have hk : k ∈ m.order := List.mem_of_getLast? ho
        obtain ⟨w, hw⟩ := Option.isSome_iff_exists.mp ((h.mem k).mp hk)
        have hsplit : m.order = m.order.dropLast ++ [k] := eq_dropLast_append_of_getLast? ho
        have hn := h.nodup; rw [hsplit, nodup_concat_iff] at hn
        have habs : (abs hash m).ents = absL (m.tab.get hash) m.order.dropLast ++ [(k, w)] := by
          simp only [abs, entries_eq]
          conv => lhs; rw [hsplit]
          rw [absL_append, absL_single_some _ k w hw]
        have hne : (abs hash m).ents ≠ [] := by rw [habs]; simp
        simp only [hne, if_false]
        have hev : AL.erase (abs hash m).ents k = (abs hash m).ents.dropLast := by
          simp only [abs, entries_eq]
          rw [erase_absL _ h.nodup, dropLast_absL h.allSome]
          conv => lhs; rw [hsplit, erase_append_last hn.2]
        obtain ⟨i2, e2, m2, t2⟩ := ih hi
        refine ⟨i2, ?_, by rw [m2, hmax], by rw [t2, hthr]⟩
        rw [e2, he, hev, hmax]
    · simp only [hle, if_false]
      exact ⟨h, (by first | rfl | trivial), (by first | rfl | trivial), (by first | rfl | trivial)⟩

theorem evict_refines {m : LMap K V} (h : Inv hash d m) (mode : Mode) :
    Inv hash d (m.evict hash mode) ∧
    (abs hash (m.evict hash mode)).ents =
      (if mode.atFront then AL.evictBack (abs hash m).ents m.max else AL.evictFront (abs hash m).ents m.max) ∧
    (m.evict hash mode).max = m.max ∧ (m.evict hash mode).threshold = m.threshold := by
  unfold evict
  by_cases hm : 0 < m.max
  · simp only [hm, if_true]
    have hlen := abs_length h
    by_cases hf : mode.atFront
    · simp only [hf, if_true]
      obtain ⟨i, e, a, b⟩ := evictBack_refines h (m.count + 1)
      refine ⟨i, ?_, a, b⟩
      rw [e, AL.evictBackLoop_eq _ hm _ _ (by omega)]
    · simp only [hf, Bool.false_eq_true, if_false]
      obtain ⟨i, e, a, b⟩ := evictFront_refines h (m.count + 1)
      refine ⟨i, ?_, a, b⟩
      rw [e, AL.evictFrontLoop_eq _ hm _ _ (by omega)]
  · simp only [hm, if_false]
    refine ⟨h, ?_, (by first | rfl | trivial), (by first | rfl | trivial)⟩
    unfold AL.evictBack AL.evictFront
    simp [hm]

/-! ### growth -/

theorem grow_refines {m : LMap K V} (h : Inv hash d m) :
    Inv hash d (m.grow hash thr) ∧ abs hash (m.grow hash thr) = abs hash m ∧
    (∀ k, (m.grow hash thr).tab.get hash k = m.tab.get hash k) ∧
    (m.grow hash thr).order = m.order ∧ (m.grow hash thr).count = m.count ∧ (m.grow hash thr).max = m.max := by
  unfold grow
  split
  · unfold rehash
    simp only
    have hg : ∀ k, (m.tab.rehash hash).get hash k = m.tab.get hash k := fun k => Table.get_rehash hash h.tab k
    refine ⟨⟨h.tab.rehash hash, h.nodup, ?_, h.count, h.ok⟩, ?_, hg, (by first | rfl | trivial), (by first | rfl | trivial), (by first | rfl | trivial)⟩
    · intro k; simp only; rw [hg]; exact h.mem k
    · simp only [abs, entries_eq]
      congr 1
      exact absL_congr (fun k _ => hg k)
  · exact ⟨h, rfl, fun _ => rfl, rfl, rfl, rfl⟩

/-! ### relinking an existing key -/

theorem moveFirst_eq {o : List K} (hn : o.Nodup) {k : K} (hk : k ∈ o) : moveFirst o k = k :: o.erase k := by
  unfold moveFirst
  split
  · rename_i hh
    cases o with
    | nil => simp at hk
    | cons a t =>
      simp only [List.head?_cons, Option.some.injEq] at hh
      subst hh; simp
  · rfl

theorem moveLast_eq {o : List K} (hn : o.Nodup) {k : K} (hk : k ∈ o) : moveLast o k = o.erase k ++ [k] := by
  unfold moveLast
  split
  · rename_i hh
    have hsplit : o = o.dropLast ++ [k] := eq_dropLast_append_of_getLast? hh
    have hn' := hn; rw [hsplit, nodup_concat_iff] at hn'
    conv => rhs; rw [hsplit, erase_append_last hn'.2]
    exact hsplit
  · rfl

/-- a present key receives a new value and is relinked according to the mode -/
theorem touch_refines {m : LMap K V} (h : Inv hash d m) (mode : Mode) (k : K) (v : V)
    (hp : (m.tab.get hash k).isSome) :
    let m' : LMap K V := { m with tab := m.tab.setExisting hash k v, order := relink mode m.order k }
    Inv hash d m' ∧ (abs hash m').ents = AL.touch mode (abs hash m).ents k v := by
  intro m'
  have hk : k ∈ m.order := (h.mem k).mpr hp
  have hg : ∀ x, (m.tab.setExisting hash k v).get hash x = if k = x then some v else m.tab.get hash x :=
    fun x => Table.get_setExisting hash _ h.tab.pos k x v hp
  have hperm : ∀ x, x ∈ relink mode m.order k ↔ x ∈ m.order := by
    intro x
    cases mode <;> simp only [relink]
    · rw [moveLast_eq h.nodup hk]
      simp only [List.mem_append, List.mem_singleton, List.Nodup.mem_erase_iff h.nodup]
      constructor
      · rintro (⟨_, h2⟩ | rfl); exact h2; exact hk
      · intro hx; by_cases e : x = k; exact Or.inr e; exact Or.inl ⟨e, hx⟩
    · rw [moveFirst_eq h.nodup hk]
      simp only [List.mem_cons, List.Nodup.mem_erase_iff h.nodup]
      constructor
      · rintro (rfl | ⟨_, h2⟩); exact hk; exact h2
      · intro hx; by_cases e : x = k; exact Or.inl e; exact Or.inr ⟨e, hx⟩
  have hnd : (relink mode m.order k).Nodup := by
    cases mode <;> simp only [relink]
    · exact h.nodup
    · rw [moveLast_eq h.nodup hk, nodup_concat_iff]
      exact ⟨h.nodup.erase k, List.Nodup.not_mem_erase h.nodup⟩
    · rw [moveFirst_eq h.nodup hk, List.nodup_cons]
      exact ⟨List.Nodup.not_mem_erase h.nodup, h.nodup.erase k⟩
    · exact h.nodup
  have hlen : (relink mode m.order k).length = m.order.length := by
    cases mode <;> simp only [relink]
    · rw [moveLast_eq h.nodup hk]; simp [List.length_erase_of_mem hk]
      have : 0 < m.order.length := List.length_pos_of_mem hk
      omega
    · rw [moveFirst_eq h.nodup hk]; simp [List.length_erase_of_mem hk]
      have : 0 < m.order.length := List.length_pos_of_mem hk
      omega
  refine ⟨⟨h.tab.setExisting hash k v, hnd, ?_, ?_, ?_⟩, ?_⟩
  · intro x
    show x ∈ relink mode m.order k ↔ ((m.tab.setExisting hash k v).get hash x).isSome
    rw [hperm, hg]
    by_cases e : k = x
    · subst e; simp [hk]
    · simp [e, h.mem x]
  · show m.count = (relink mode m.order k).length
    rw [hlen, h.count]
  · intro x hx
    exact h.ok x ((hperm x).mp hx)
  · have hcongr : ∀ o : List K, k ∉ o → absL ((m.tab.setExisting hash k v).get hash) o = absL (m.tab.get hash) o := by
      intro o ho
      apply absL_congr
      intro x hx
      rw [hg]
      have : k ≠ x := fun e => ho (e ▸ hx)
      simp [this]
    have hkv : (m.tab.setExisting hash k v).get hash k = some v := by rw [hg]; simp
    show absL ((m.tab.setExisting hash k v).get hash) (relink mode m.order k) = AL.touch mode (absL (m.tab.get hash) m.order) k v
    cases mode <;> simp only [relink, AL.touch]
    · rw [set_absL k v h.allSome]
      apply absL_congr; intro x _; rw [hg]
      by_cases e : k = x
      · subst e; simp
      · have : ¬ x = k := fun e' => e e'.symm
        simp [e, this]
    · rw [moveLast_eq h.nodup hk, absL_append, absL_single_some _ k v hkv,
        hcongr _ (List.Nodup.not_mem_erase h.nodup), erase_absL _ h.nodup]
    · rw [moveFirst_eq h.nodup hk, absL_cons_some _ k _ v hkv,
        hcongr _ (List.Nodup.not_mem_erase h.nodup), erase_absL _ h.nodup]
    · rw [set_absL k v h.allSome]
      apply absL_congr; intro x _; rw [hg]
      by_cases e : k = x
      · subst e; simp
      · have : ¬ x = k := fun e' => e e'.symm
        simp [e, this]

/-! ### linking a new cell -/

theorem link_refines {m : LMap K V} (h : Inv hash d m) (front : Bool) (k : K) (v : V)
    (habs : m.tab.get hash k = none) (hok : d.refuse k = false) :
    let m' : LMap K V := { m with tab := m.tab.insertNew hash k v,
                                   order := if front then k :: m.order else m.order ++ [k],
                                   count := m.count + 1 }
    Inv hash d m' ∧
    (abs hash m').ents = (if front then (k, v) :: (abs hash m).ents else (abs hash m).ents ++ [(k, v)]) := by
  intro m'
  have hk : k ∉ m.order := by intro hk; have := (h.mem k).mp hk; simp [habs] at this
  have hg : ∀ x, (m.tab.insertNew hash k v).get hash x = if k = x then some v else m.tab.get hash x :=
    fun x => Table.get_insertNew hash _ h.tab.pos k x v
  have hcongr : absL ((m.tab.insertNew hash k v).get hash) m.order = absL (m.tab.get hash) m.order := by
    apply absL_congr
    intro x hx
    rw [hg]
    have : k ≠ x := fun e => hk (e ▸ hx)
    simp [this]
  have hkv : (m.tab.insertNew hash k v).get hash k = some v := by rw [hg]; simp
  refine ⟨⟨h.tab.insertNew hash k v habs, ?_, ?_, ?_, ?_⟩, ?_⟩
  · show (if front then k :: m.order else m.order ++ [k]).Nodup
    cases front
    · simp only [Bool.false_eq_true, if_false]; rw [nodup_concat_iff]; exact ⟨h.nodup, hk⟩
    · simp only [if_true, List.nodup_cons]; exact ⟨hk, h.nodup⟩
  · intro x
    show x ∈ (if front then k :: m.order else m.order ++ [k]) ↔ ((m.tab.insertNew hash k v).get hash x).isSome
    rw [hg]
    have hm : x ∈ (if front then k :: m.order else m.order ++ [k]) ↔ (x = k ∨ x ∈ m.order) := by
      cases front <;> simp [or_comm]
    rw [hm]
    by_cases e : k = x
    · subst e; simp
    · have : ¬ x = k := fun e' => e e'.symm
      simp [e, this, h.mem x]
  · show m.count + 1 = (if front then k :: m.order else m.order ++ [k]).length
    cases front <;> simp [h.count]
  · intro x hx
    have hx' : x = k ∨ x ∈ m.order := by
      revert hx; show x ∈ (if front then k :: m.order else m.order ++ [k]) → _
      cases front <;> simp [or_comm]
    rcases hx' with rfl | hx'
    · exact hok
    · exact h.ok x hx'
  · show absL ((m.tab.insertNew hash k v).get hash) (if front then k :: m.order else m.order ++ [k]) = _
    cases front
    · simp only [Bool.false_eq_true, if_false]
      rw [absL_append, absL_single_some _ k v hkv, hcongr]; rfl
    · simp only [if_true]
      rw [absL_cons_some _ k _ v hkv, hcongr]; rfl

end LMap
end HMap
