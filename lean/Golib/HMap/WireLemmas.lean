/-
  Golib.HMap.WireLemmas — the serialized form of the linked maps reads back to the same dictionary, in order.
-/
import Golib.HMap.Wire
import Golib.HMap.PlainStep
import Golib.HMap.LinkedStep

set_option linter.unusedSectionVars false

namespace HMap
open Prim

theorem run_decPairF (e : Int × Int) (r : Bytes) (h : inRange 8 e.1 ∧ 0 ≤ e.2 ∧ e.2 < 4294967296) :
    P.run decPairF (encPairF e ++ r) = some (e, r) := by
  unfold decPairF encPairF
  rw [List.append_assoc, P.run_bind_some _ _ _ _ _ (run_decDecimal e.1 _ h.1)]
  have hb : e.2.toNat < 256 ^ 4 := by
    have : e.2.toNat < 4294967296 := by omega
    simpa using this
  rw [P.run_bind_some _ _ _ _ _ (run_rdU 4 e.2.toNat r hb)]
  have : ((e.2.toNat : Nat) : Int) = e.2 := Int.toNat_of_nonneg h.2.1
  simp [P.run, this]

theorem run_pairsFromBytesF (es : List (Int × Int)) (r : Bytes)
    (hlen : inRange 8 (es.length : Int)) (h : ∀ e ∈ es, inRange 8 e.1 ∧ 0 ≤ e.2 ∧ e.2 < 4294967296) :
    P.run pairsFromBytesF (pairsToBytesF es ++ r) = some (es, r) := by
  unfold pairsFromBytesF pairsToBytesF
  rw [List.append_assoc, P.run_bind_some _ _ _ _ _ (run_decDecimal _ _ hlen)]
  have : ¬ ((es.length : Int) < 0) := by omega
  simp only [this, if_false, Int.toNat_natCast]
  exact run_decMany encPairF decPairF (fun e => inRange 8 e.1 ∧ 0 ≤ e.2 ∧ e.2 < 4294967296) run_decPairF es r h

/-- what the wire format can carry: decimals for keys (and integer values), a 32-bit pattern for float values -/
def wireOK (float : Bool) (e : Int × Int) : Prop :=
  inRange 8 e.1 ∧ (if float then 0 ≤ e.2 ∧ e.2 < 4294967296 else inRange 8 e.2)

namespace LMap
variable {hash : Int → Nat} {d : Desc Int Int}

/-- `ToObject(ToBytes(m))` into a fresh, unbounded map of any capacity: the same entries **in the same order** -/
theorem linked_wire (float : Bool) (thr : Nat → Nat) (cap : Nat) {m : LMap Int Int} (h : Inv hash d m)
    (hlen : inRange 8 ((m.entries hash).length : Int)) (hr : ∀ e ∈ m.entries hash, wireOK float e) :
    Inv hash d (toObject hash thr float d (LMap.new thr cap) (toBytes hash float m)) ∧
    (abs hash (toObject hash thr float d (LMap.new thr cap) (toBytes hash float m))).ents = (abs hash m).ents := by
  have hdec : P.run (if float then pairsFromBytesF else pairsFromBytes) (toBytes hash float m) = some (m.entries hash, []) := by
    unfold toBytes
    cases float with
    | true =>
      have := run_pairsFromBytesF (m.entries hash) [] hlen (fun e he => by
        have := hr e he; unfold wireOK at this; simpa using this)
      simpa using this
    | false =>
      have := run_pairsFromBytes (m.entries hash) [] hlen (fun e he => by
        have := hr e he; unfold wireOK at this; simpa using this)
      simpa using this
  unfold toObject
  rw [hdec]
  simp only
  obtain ⟨hi, he⟩ := foldl_put_refines (thr := thr) (m.entries hash) (Inv.new (hash := hash) (thr := thr) (d := d) cap)
  refine ⟨hi, ?_⟩
  rw [he, abs_new]
  have hk := S.foldl_put_keepLast d (m.entries hash) [] 0
    (by simpa [S.WF, abs] using abs_WF h)
    (by
      intro e hem
      have : e.1 ∈ AL.keys (abs hash m).ents := List.mem_map.mpr ⟨e, hem, rfl⟩
      rw [abs_keys h] at this
      exact h.ok _ this)
    (Or.inl rfl)
  have hk' : (m.entries hash).foldl (fun s e => (S.put d s .last e.1 e.2).1) ({} : S Int Int) =
      { ents := AL.keepLast 0 (m.entries hash), max := 0 } := by simpa using hk
  rw [hk']
  simp [AL.keepLast, abs]

end LMap
end HMap
