/-
  Golib.HMap.IR — interpreted tie A: a statement-level reading of the Go methods `put` / `add` / `_add` /
  `addNoOver` / `addIfExist` / `unipoint` / `remove` / `rehash` of util/hmap.

  `xlate/c09` transcribes the *statements* of each method, in order, into `List TSt` (top level) with
  `List FSt` for the body of `if e.key == key { … }` inside the chain loop (`Golib/Gen/C09IR.lean`,
  `C12IR.lean`).  This file gives every statement a meaning on the CodeModel state (`run`), builds the
  canonical program of a method from the type's descriptor (`canonPut`, `canonRemove`), and proves — for all
  states, keys, values, modes, hash functions and thresholds — that running the canonical program *is* the
  model step (`canonPut_correct`, `canonRemove_correct`, `canonAddIfExist_correct`, `rehash_correct`).
  `Props/C09Gen.lean` / `C12Gen.lean` then prove, per type and method,
      ∀ inputs,  run (generated program) inputs = model step inputs
  so a mutated method (a statement dropped, reordered, another end evicted, `=` for `+=`, another return) breaks a
  universally quantified obligation, not a table lookup.

  Reading of the statements (the order list and the bucket chains are lists, see Linked.lean):
    index / hashKey           `index := hash % len(tab)` — no state change (the model recomputes the index)
    scan found                the chain loop; `found` runs when a cell with the key exists
    saveOld / assign / accumulate     `old := e.value` / `e.value = value` / `e.value += value`
    switchRelink cs           `switch m { case …: if header.link_X != e { unchain(e); chain(…) } }`
    ifMaxSwitchEvict cs       `if this.max > 0 { switch m { case …: for this.count >= this.max { remove(header.link_X.key) } } }`
    noOverGuard r             `if this.max > 0 && this.count >= this.max { return r }`
    growIfFull                `if this.count >= this.threshold { this.rehash(); tab = this.table; index = … }`
    newCell                   `e := &Entry{key, value, next: tab[index]}; tab[index] = e`
    switchLink cs             `switch m { case …: this.chain(header, header.link_next, e) / chain(header.link_prev, header, e) }`
    scanUnlink found          the `prev`-tracking loop of remove: the found cell is unlinked from its chain, then `found`
-/
import Golib.HMap.Linked
import Golib.HMap.Plain
import Golib.HMap.Types
import Golib.HMap.TableLemmas
import Golib.HMap.Wire
import Golib.HMap.Enum

set_option linter.unusedSectionVars false
set_option linter.unusedSimpArgs false

namespace HMap.IR

/-- what a `return` statement returns (the abstract result — previous value or absent — is determined by where it stands) -/
inductive Ret | old | absent | emptyStr | key | cellKey | boolT | boolF | value | cur | zero | removeResult | nothing | unknown
  deriving DecidableEq, Repr

/-- statements inside `if e.key == key { … }` -/
inductive FSt
  | saveOld | assign | accumulate
  | switchRelink (cs : List (List Mode × End))
  | relink (e : End)          -- `if header.link_X != e { unchain(e); chain(…) }` outside a switch (GetLRU)
  | countDec | clearValue | unchain
  | ret (r : Ret)
  | unknown
  deriving DecidableEq, Repr

/-- top-level statements -/
inductive TSt
  | guardEmpty (r : Ret)
  | hashKey | index
  | scan (found : List FSt)
  | scanUnlink (found : List FSt)
  | ifMaxSwitchEvict (cs : List (List Mode × End))
  | noOverGuard (r : Ret)
  | growIfFull
  | newCell
  | switchLink (cs : List (List Mode × End))
  | countInc
  | retIfEmpty (r : Ret)      -- `if this.count == 0 { return r }`
  | retRemoveEnd (e : End)    -- `return this.remove(this.header.link_X.key)`
  | clearBuckets              -- `for index := len(tab)-1; index >= 0; index-- { tab[index] = nil }`
  | headerReset               -- `header.link_next = header; header.link_prev = header`
  | countZero                 -- `this.count = 0`
  | ret (r : Ret)
  | unknown
  deriving DecidableEq, Repr

variable {K V : Type} [DecidableEq K] [DecidableEq V]

structure Cx (K V : Type) where
  m : LMap K V
  cur : Option V := none
  old : Option V := none
  ret : Option Ret := none

def caseOf (cs : List (List Mode × End)) (mode : Mode) : Option End :=
  (cs.find? (fun c => c.1.contains mode)).map (·.2)

section
variable (d : Desc K V) (hash : K → Nat) (thr : Nat → Nat) (mode : Mode) (k : K) (v : V)

def stepF (cx : Cx K V) : FSt → Cx K V
  | .saveOld => { cx with old := cx.cur }
  | .assign => { cx with m := { cx.m with tab := cx.m.tab.setExisting hash k v } }
  | .accumulate =>
    match cx.cur with
    | some c => { cx with m := { cx.m with tab := cx.m.tab.setExisting hash k (d.comb c v) } }
    | none => cx
  | .switchRelink cs =>
    match caseOf cs mode with
    | some .front => { cx with m := { cx.m with order := LMap.moveFirst cx.m.order k } }
    | some .back => { cx with m := { cx.m with order := LMap.moveLast cx.m.order k } }
    | _ => cx
  | .relink .front => { cx with m := { cx.m with order := LMap.moveFirst cx.m.order k } }
  | .relink .back => { cx with m := { cx.m with order := LMap.moveLast cx.m.order k } }
  | .relink .unknown => { cx with ret := some .unknown }
  | .countDec => { cx with m := { cx.m with count := cx.m.count - 1 } }
  | .clearValue => cx
  | .unchain => { cx with m := { cx.m with order := cx.m.order.erase k } }
  | .ret r => { cx with ret := some r }
  | .unknown => { cx with ret := some .unknown }

def runF : List FSt → Cx K V → Cx K V
  | [], cx => cx
  | s :: rest, cx => if cx.ret.isSome then cx else runF rest (stepF d hash mode k v cx s)

def stepT (cx : Cx K V) : TSt → Cx K V
  | .guardEmpty r => if d.refuse k then { cx with ret := some r } else cx
  | .hashKey => cx
  | .index => cx
  | .scan found =>
    match cx.m.tab.get hash k with
    | some c => runF d hash mode k v found { cx with cur := some c }
    | none => cx
  | .scanUnlink found =>
    match cx.m.tab.get hash k with
    | some c => runF d hash mode k v found { cx with cur := some c, m := { cx.m with tab := cx.m.tab.del hash k } }
    | none => cx
  | .ifMaxSwitchEvict cs =>
    if 0 < cx.m.max then
      match caseOf cs mode with
      | some .front => { cx with m := cx.m.evictFront hash (cx.m.count + 1) }
      | some .back => { cx with m := cx.m.evictBack hash (cx.m.count + 1) }
      | _ => cx
    else cx
  | .noOverGuard r => if cx.m.isFull then { cx with ret := some r } else cx
  | .growIfFull => { cx with m := cx.m.grow hash thr }
  | .newCell => { cx with m := { cx.m with tab := cx.m.tab.insertNew hash k v } }
  | .switchLink cs =>
    match caseOf cs mode with
    | some .front => { cx with m := { cx.m with order := k :: cx.m.order } }
    | some .back => { cx with m := { cx.m with order := cx.m.order ++ [k] } }
    | _ => cx
  | .countInc => { cx with m := { cx.m with count := cx.m.count + 1 } }
  | .retIfEmpty r => if cx.m.count = 0 then { cx with ret := some r } else cx
  | .retRemoveEnd e =>
    match (match e with | .front => cx.m.order.head? | .back => cx.m.order.getLast? | .unknown => none) with
    | some k' => { cx with m := (cx.m.remove hash k').1, ret := some .removeResult }
    | none => { cx with ret := some .removeResult }
  | .clearBuckets => { cx with m := { cx.m with tab := cx.m.tab.clear } }
  | .headerReset => { cx with m := { cx.m with order := [] } }
  | .countZero => { cx with m := { cx.m with count := 0 } }
  | .ret r => { cx with ret := some r }
  | .unknown => { cx with ret := some .unknown }

def runT : List TSt → Cx K V → Cx K V
  | [], cx => cx
  | s :: rest, cx => if cx.ret.isSome then cx else runT rest (stepT d hash thr mode k v cx s)

theorem runT_done (prog : List TSt) (cx : Cx K V) (h : cx.ret.isSome) : runT d hash thr mode k v prog cx = cx := by
  cases prog with
  | nil => rfl
  | cons s t => simp [runT, h]

/-- run a method body on a map -/
def run (prog : List TSt) (m : LMap K V) : LMap K V × Option Ret :=
  let cx := runT d hash thr mode k v prog { m := m }
  (cx.m, cx.ret)

end

/-! ### canonical programs -/

inductive Upd | assign | accumulate | none
  deriving DecidableEq, Repr

/-- the shape of a put-like method: which statements it has and what it returns -/
structure PutShape where
  linked : Bool          -- has the order list (relink / evict / link statements)
  guard : Option Ret     -- `if key == "" { return r }`
  hashVar : Bool         -- `keyHash := this.hash(key)` as its own statement
  upd : Upd
  saveOld : Bool
  rFound : Ret
  noOver : Option Ret    -- addNoOver's `if full { return r }` instead of the eviction switch
  relink : Bool          -- the found branch has the relink switch
  rFresh : Ret
  deriving DecidableEq, Repr

def relinkCases : List (List Mode × End) := [([.forceFirst], .front), ([.forceLast], .back)]
def evictCases : List (List Mode × End) := [([.forceFirst, .first], .back), ([.forceLast, .last], .front)]
def linkCases : List (List Mode × End) := [([.forceFirst, .first], .front), ([.forceLast, .last], .back)]

def canonFound (p : PutShape) : List FSt :=
  (if p.saveOld then [FSt.saveOld] else []) ++
  (match p.upd with | .assign => [FSt.assign] | .accumulate => [FSt.accumulate] | .none => []) ++
  (if p.linked && p.relink then [FSt.switchRelink relinkCases] else []) ++
  [FSt.ret p.rFound]

def canonPut (p : PutShape) : List TSt :=
  (match p.guard with | some r => [TSt.guardEmpty r] | none => []) ++
  (if p.hashVar then [TSt.hashKey] else []) ++
  [TSt.index, TSt.scan (canonFound p)] ++
  (if p.linked then
    (match p.noOver with
     | some r => [TSt.noOverGuard r]
     | none => [TSt.ifMaxSwitchEvict evictCases])
   else []) ++
  [TSt.growIfFull, TSt.newCell] ++
  (if p.linked then [TSt.switchLink linkCases] else []) ++
  [TSt.countInc, TSt.ret p.rFresh]

/-- the value the model's `putWith` is called with for this shape -/
def PutShape.newv (p : PutShape) (d : Desc K V) (v : V) : Option V → V :=
  match p.upd with
  | .accumulate => S.addv d v
  | _ => fun _ => v

structure RemoveShape where
  linked : Bool
  guard : Option Ret
  saveOld : Bool
  clearValue : Bool
  rFound : Ret
  rAbsent : Ret
  deriving DecidableEq, Repr

def canonRemove (p : RemoveShape) : List TSt :=
  (match p.guard with | some r => [TSt.guardEmpty r] | none => []) ++
  [TSt.index,
   TSt.scanUnlink ([FSt.countDec] ++ (if p.saveOld then [FSt.saveOld] else []) ++
     (if p.clearValue then [FSt.clearValue] else []) ++ (if p.linked then [FSt.unchain] else []) ++ [FSt.ret p.rFound]),
   TSt.ret p.rAbsent]

def canonAddIfExist (rFound rAbsent : Ret) : List TSt :=
  [TSt.index, TSt.scan [FSt.accumulate, FSt.ret rFound], TSt.ret rAbsent]

/-! ### correctness of the canonical programs: they *are* the model steps -/

theorem caseOf_relink (mode : Mode) :
    caseOf relinkCases mode = match mode with | .forceFirst => some .front | .forceLast => some .back | _ => none := by
  cases mode <;> rfl

theorem caseOf_evict (mode : Mode) :
    caseOf evictCases mode = some (if mode.atFront then .back else .front) := by
  cases mode <;> rfl

theorem caseOf_link (mode : Mode) :
    caseOf linkCases mode = some (if mode.atFront then .front else .back) := by
  cases mode <;> rfl

variable (d : Desc K V) (hash : K → Nat) (thr : Nat → Nat)

/-- linked maps with a value update in the found branch (all ten linked *maps*): the statement list of
    put / add / _add is `putWith` (after the empty-key guard) -/
theorem canonPut_linked_correct (p : PutShape) (hl : p.linked = true) (hu : p.upd ≠ .none) (hs : p.saveOld = true)
    (hr : p.relink = true) (hn : p.noOver = none)
    (m : LMap K V) (mode : Mode) (k : K) (v : V) :
    run d hash thr mode k v (canonPut p) m =
      (match p.guard with
       | some r => if d.refuse k then (m, some r) else
           ((m.putWith hash thr mode k (p.newv d v)).1,
            some (if (m.tab.get hash k).isSome then p.rFound else p.rFresh))
       | none =>
           ((m.putWith hash thr mode k (p.newv d v)).1,
            some (if (m.tab.get hash k).isSome then p.rFound else p.rFresh))) := by
  obtain ⟨linked, guard, hashVar, upd, saveOld, rFound, noOver, relink, rFresh⟩ := p
  simp only at hl hu hs hr hn
  subst hl hs hr hn
  have core : ∀ (pre : List TSt), (∀ s ∈ pre, s = TSt.hashKey) →
      run d hash thr mode k v (pre ++ [TSt.index, TSt.scan (canonFound ⟨true, guard, hashVar, upd, true, rFound, none, true, rFresh⟩)] ++
        [TSt.ifMaxSwitchEvict evictCases] ++ [TSt.growIfFull, TSt.newCell] ++ [TSt.switchLink linkCases] ++ [TSt.countInc, TSt.ret rFresh]) m =
      ((m.putWith hash thr mode k (PutShape.newv ⟨true, guard, hashVar, upd, true, rFound, none, true, rFresh⟩ d v)).1,
        some (if (m.tab.get hash k).isSome then rFound else rFresh)) := by
    intro pre hpre
    have hskip : ∀ (pre : List TSt) (rest : List TSt) (cx : Cx K V), (∀ s ∈ pre, s = TSt.hashKey) → cx.ret = none →
        runT d hash thr mode k v (pre ++ rest) cx = runT d hash thr mode k v rest cx := by
      intro pre rest cx hp hc
      induction pre with
      | nil => rfl
      | cons s t ih =>
        have := hp s (by simp); subst this
        simp only [List.cons_append, runT, hc, Option.isSome_none, Bool.false_eq_true, if_false, stepT]
        exact ih (fun x hx => hp x (by simp [hx]))
    unfold run
    simp only [List.append_assoc]
    rw [hskip pre _ _ hpre rfl]
    unfold LMap.putWith
    cases hg : m.tab.get hash k with
    | some c =>
      cases upd with
      | none => exact absurd rfl hu
      | assign =>
        cases mode <;>
          simp [runT, stepT, runF, stepF, canonFound, hg, caseOf_relink, LMap.relink, PutShape.newv]
      | accumulate =>
        cases mode <;>
          simp [runT, stepT, runF, stepF, canonFound, hg, caseOf_relink, LMap.relink, PutShape.newv, S.addv]
    | none =>
      simp only [runT, stepT, hg, Option.isSome_none, Bool.false_eq_true, if_false, List.cons_append, List.nil_append]
      unfold LMap.insertNew LMap.evict
      by_cases hm : 0 < m.max
      · cases mode <;>
          simp [runT, stepT, caseOf_evict, caseOf_link, hm, Mode.atFront, PutShape.newv, S.addv] <;>
          (cases upd <;> simp [S.addv])
      · cases mode <;>
          simp [runT, stepT, caseOf_evict, caseOf_link, hm, Mode.atFront, PutShape.newv, S.addv] <;>
          (cases upd <;> simp [S.addv])
  cases guard with
  | none =>
    cases hashVar
    · have := core [] (by simp)
      simpa [canonPut] using this
    · have := core [TSt.hashKey] (by simp)
      simpa [canonPut] using this
  | some r =>
    cases hrf : d.refuse k with
    | true =>
      simp only [if_true]
      unfold run canonPut
      simp only [List.cons_append, List.nil_append, List.append_assoc, runT, Option.isSome_none, Bool.false_eq_true, if_false,
        stepT, hrf, if_true]
      rw [runT_done _ _ _ _ _ _ _ _ (by rfl)]
    | false =>
      simp only [Bool.false_eq_true, if_false]
      have hg : ∀ rest, run d hash thr mode k v (TSt.guardEmpty r :: rest) m = run d hash thr mode k v rest m := by
        intro rest
        unfold run
        simp [runT, stepT, hrf]
      cases hashVar
      · have := core [] (by simp)
        simp only [canonPut, List.cons_append, List.nil_append, hg] at this ⊢
        simpa using this
      · have := core [TSt.hashKey] (by simp)
        simp only [canonPut, List.cons_append, List.nil_append, hg] at this ⊢
        simpa using this

/-- remove of the linked types: the statement list is the model's `remove` -/
theorem canonRemove_linked_correct (p : RemoveShape) (hl : p.linked = true) (hg0 : p.guard = none)
    (m : LMap K V) (mode : Mode) (k : K) (v : V) :
    run d hash thr mode k v (canonRemove p) m =
      ((m.remove hash k).1, some (if (m.tab.get hash k).isSome then p.rFound else p.rAbsent)) := by
  obtain ⟨linked, guard, saveOld, clearValue, rFound, rAbsent⟩ := p
  simp only at hl hg0
  subst hl hg0
  unfold run canonRemove LMap.remove
  cases hg : m.tab.get hash k with
  | none => simp [runT, stepT, hg]
  | some c =>
    cases saveOld <;> cases clearValue <;> simp [runT, stepT, runF, stepF, hg]

/-! #### sets: no value update in the found branch -/

theorem chainSet_same (c : Chain K V) (k : K) (x : V) (h : chainGet c k = some x) : chainSet c k x = c := by
  induction c with
  | nil => rfl
  | cons e t ih =>
    obtain ⟨a, b⟩ := e
    simp only [chainGet, chainSet] at h ⊢
    by_cases hak : a = k
    · simp only [hak, if_true, Option.some.injEq] at h ⊢; rw [h]
    · simp only [hak, if_false] at h ⊢; rw [ih h]

theorem setBucket_self (t : Table K V) (i : Nat) : t.setBucket i (t.bucket i) = t := by
  obtain ⟨arr⟩ := t
  unfold Table.setBucket Table.bucket
  congr 1
  apply Array.ext_getElem?
  intro j
  rw [Array.getElem?_setIfInBounds]
  by_cases hij : i = j
  · subst hij
    by_cases hlt : i < arr.size
    · simp [hlt, Array.getD_eq_getD_getElem?]
    · simp [hlt]
  · simp [hij]

theorem setExisting_same (t : Table K V) (k : K) (x : V) (h : t.get hash k = some x) : t.setExisting hash k x = t := by
  unfold Table.setExisting
  simp only
  unfold Table.get at h
  rw [chainSet_same _ _ _ h, setBucket_self]

/-- linked *sets* (`put(key, m)` has no value to update): the statement list is `putWith` with the stored value -/
theorem canonPut_set_correct (p : PutShape) (hl : p.linked = true) (hu : p.upd = .none) (hs : p.saveOld = false)
    (hr : p.relink = true) (hn : p.noOver = none) (hg0 : p.guard = none)
    (m : LMap K V) (mode : Mode) (k : K) (v : V) (hv : ∀ c, m.tab.get hash k = some c → c = v) :
    run d hash thr mode k v (canonPut p) m =
      ((m.putWith hash thr mode k (fun _ => v)).1, some (if (m.tab.get hash k).isSome then p.rFound else p.rFresh)) := by
  obtain ⟨linked, guard, hashVar, upd, saveOld, rFound, noOver, relink, rFresh⟩ := p
  simp only at hl hu hs hr hn hg0
  subst hl hu hs hr hn hg0
  unfold run LMap.putWith
  cases hg : m.tab.get hash k with
  | some c =>
    have hc := hv c hg; subst hc
    have hse := setExisting_same hash m.tab k c hg
    cases hashVar <;> cases mode <;>
      simp [canonPut, runT, stepT, runF, stepF, canonFound, hg, caseOf_relink, LMap.relink, hse]
  | none =>
    unfold LMap.insertNew LMap.evict
    by_cases hm : 0 < m.max
    · cases hashVar <;> cases mode <;>
        simp [canonPut, runT, stepT, hg, caseOf_evict, caseOf_link, hm, Mode.atFront]
    · cases hashVar <;> cases mode <;>
        simp [canonPut, runT, stepT, hg, caseOf_evict, caseOf_link, hm, Mode.atFront]

/-- IntIntLinkedMap.addNoOver (mode PUT_LAST): `if full { return NONE }` instead of the eviction switch -/
theorem canonPut_noOver_correct (p : PutShape) (hl : p.linked = true) (hu : p.upd = .accumulate) (hs : p.saveOld = true)
    (hr : p.relink = true) (r0 : Ret) (hn : p.noOver = some r0) (hg0 : p.guard = none) (hh : p.hashVar = false)
    (m : LMap K V) (k : K) (v : V) (hnr : d.refuse k = false) :
    run d hash thr .last k v (canonPut p) m =
      ((m.addNoOver hash thr d k v).1,
       some (if (m.tab.get hash k).isSome then p.rFound else if m.isFull then r0 else p.rFresh)) := by
  obtain ⟨linked, guard, hashVar, upd, saveOld, rFound, noOver, relink, rFresh⟩ := p
  simp only at hl hu hs hr hn hg0 hh
  subst hl hu hs hr hn hg0 hh
  unfold run LMap.addNoOver
  simp only [hnr, Bool.false_eq_true, if_false]
  cases hg : m.tab.get hash k with
  | some c => simp [canonPut, runT, stepT, runF, stepF, canonFound, hg, caseOf_relink]
  | none =>
    cases hf : m.isFull with
    | true => simp [canonPut, runT, stepT, hg, hf]
    | false => simp [canonPut, runT, stepT, hg, hf, caseOf_link, Mode.atFront]

/-! #### plain maps and sets: the same statements without the order list -/

def toP (m : LMap K V) : PMap K V := { tab := m.tab, count := m.count, threshold := m.threshold, max := m.max }
def ofP (p : PMap K V) : LMap K V := { tab := p.tab, order := [], count := p.count, threshold := p.threshold, max := p.max }

theorem toP_grow (m : LMap K V) : toP (m.grow hash thr) = (toP m).grow hash thr := by
  unfold LMap.grow PMap.grow LMap.rehash toP
  simp only
  split <;> rfl

/-- IntIntMap.put/add, IntKeyMap.Put: the statement list is `PMap.putWith` -/
theorem canonPut_plain_correct (p : PutShape) (hl : p.linked = false) (hu : p.upd ≠ .none) (hs : p.saveOld = true)
    (hg0 : p.guard = none)
    (pm : PMap K V) (k : K) (v : V) :
    (fun r => (toP r.1, r.2)) (run d hash thr .last k v (canonPut p) (ofP pm)) =
      ((pm.putWith hash thr k (p.newv d v)).1, some (if (pm.tab.get hash k).isSome then p.rFound else p.rFresh)) := by
  obtain ⟨linked, guard, hashVar, upd, saveOld, rFound, noOver, relink, rFresh⟩ := p
  simp only at hl hu hs hg0
  subst hl hs hg0
  unfold run PMap.putWith
  cases hg : pm.tab.get hash k with
  | some c =>
    cases upd with
    | none => exact absurd rfl hu
    | assign => cases hashVar <;> simp [canonPut, runT, stepT, runF, stepF, canonFound, ofP, toP, hg, PutShape.newv]
    | accumulate => cases hashVar <;> simp [canonPut, runT, stepT, runF, stepF, canonFound, ofP, toP, hg, PutShape.newv, S.addv]
  | none =>
    have hgr := toP_grow hash thr (ofP pm)
    have hofp : toP (ofP pm) = pm := rfl
    rw [hofp] at hgr
    cases hashVar <;> cases upd <;>
      simp [canonPut, runT, stepT, ofP, hg, PutShape.newv, S.addv] <;>
      (rw [← hgr]; simp [toP, ofP])

/-- IntSet.put / StringSet.unipoint (after the guard): no value update -/
theorem canonPut_plainSet_correct (p : PutShape) (hl : p.linked = false) (hu : p.upd = .none) (hs : p.saveOld = false)
    (hg0 : p.guard = none)
    (pm : PMap K V) (k : K) (v : V) (hv : ∀ c, pm.tab.get hash k = some c → c = v) :
    (fun r => (toP r.1, r.2)) (run d hash thr .last k v (canonPut p) (ofP pm)) =
      ((pm.putWith hash thr k (fun _ => v)).1, some (if (pm.tab.get hash k).isSome then p.rFound else p.rFresh)) := by
  obtain ⟨linked, guard, hashVar, upd, saveOld, rFound, noOver, relink, rFresh⟩ := p
  simp only at hl hu hs hg0
  subst hl hu hs hg0
  unfold run PMap.putWith
  cases hg : pm.tab.get hash k with
  | some c =>
    have hc := hv c hg; subst hc
    have hse := setExisting_same hash pm.tab k c hg
    cases hashVar <;> simp [canonPut, runT, stepT, runF, stepF, canonFound, ofP, toP, hg, hse]
  | none =>
    have hgr := toP_grow hash thr (ofP pm)
    have hofp : toP (ofP pm) = pm := rfl
    rw [hofp] at hgr
    cases hashVar <;>
      simp [canonPut, runT, stepT, ofP, hg] <;>
      (rw [← hgr]; simp [toP, ofP])

theorem canonRemove_plain_correct (p : RemoveShape) (hl : p.linked = false) (hg0 : p.guard = none)
    (pm : PMap K V) (k : K) (v : V) :
    (fun r => (toP r.1, r.2)) (run d hash thr .last k v (canonRemove p) (ofP pm)) =
      ((pm.remove hash k).1, some (if (pm.tab.get hash k).isSome then p.rFound else p.rAbsent)) := by
  obtain ⟨linked, guard, saveOld, clearValue, rFound, rAbsent⟩ := p
  simp only at hl hg0
  subst hl hg0
  unfold run canonRemove PMap.remove
  cases hg : pm.tab.get hash k with
  | none => simp [runT, stepT, ofP, toP, hg]
  | some c => cases saveOld <;> cases clearValue <;> simp [runT, stepT, runF, stepF, ofP, toP, hg]

theorem canonAddIfExist_correct (rFound rAbsent : Ret) (pd : PDesc K V) (pm : PMap K V) (k : K) (v : V) :
    (fun r => (toP r.1, r.2)) (run pd.toDesc hash thr .last k v (canonAddIfExist rFound rAbsent) (ofP pm)) =
      ((pm.addIfExist hash pd k v).1, some (if (pm.tab.get hash k).isSome then rFound else rAbsent)) := by
  unfold run canonAddIfExist PMap.addIfExist
  cases hg : pm.tab.get hash k with
  | none => simp [runT, stepT, ofP, toP, hg]
  | some c => simp [runT, stepT, runF, stepF, ofP, toP, hg]

/-! ### rehash: the loop nest read as a function of its bounds -/

/-- facts of `rehash()`: `newCapacity := oldCapacity*mul + add`; `for i := oldCapacity; i > lo; i-- { walk oldMap[i-off] … }`;
    every cell is head-inserted into `newMap[hash % newCapacity]` (`byNew`), the new table is installed and the
    threshold recomputed -/
structure RehashFacts where
  mul : Nat
  add : Nat
  lo : Nat            -- loop condition `i > lo`
  off : Nat           -- bucket visited: `oldMap[i - off]`
  byNew : Bool        -- index computed modulo the NEW capacity
  headInsert : Bool   -- `e.next = newMap[index]; newMap[index] = e`
  installs : Bool     -- `this.table = newMap`
  threshold : Bool    -- `this.threshold = int(float32(newCapacity) * this.loadFactor)`
  deriving DecidableEq, Repr

def canonRehash : RehashFacts := ⟨2, 1, 0, 1, true, true, true, true⟩

/-- the buckets the loop visits, in order -/
def visited (f : RehashFacts) (cap : Nat) : List Nat :=
  ((List.range (cap + 1)).reverse.filter (fun i => decide (f.lo < i))).map (fun i => i - f.off)

def interpRehash (f : RehashFacts) (m : LMap K V) : LMap K V :=
  let n := f.mul * m.tab.cap + f.add
  let cells := (visited f m.tab.cap).flatMap m.tab.bucket
  let t := cells.foldl (fun acc e =>
      let i := hash e.1 % (if f.byNew then n else m.tab.cap)
      if f.headInsert then acc.setBucket i (e :: acc.bucket i) else acc.setBucket i [e]) (Table.new n)
  { m with tab := if f.installs then t else m.tab, threshold := if f.threshold then thr n else m.threshold }

theorem visited_canon (cap : Nat) : visited canonRehash cap = (List.range cap).reverse := by
  unfold visited canonRehash
  simp only
  induction cap with
  | zero => rfl
  | succ n ih =>
    rw [List.range_succ (n := n + 1), List.reverse_append]
    simp only [List.reverse_cons, List.reverse_nil, List.nil_append, List.singleton_append, List.filter_cons,
      Nat.zero_lt_succ, decide_true, if_true, List.map_cons, Nat.add_sub_cancel]
    rw [ih, List.range_succ, List.reverse_append]
    simp

theorem rehash_correct (m : LMap K V) : interpRehash hash thr canonRehash m = m.rehash hash thr := by
  unfold interpRehash LMap.rehash Table.rehash Table.entries
  rw [visited_canon]
  simp only [canonRehash, if_true, Table.cap_foldl_pushCell, Table.cap_new]
  have : ∀ (es : List (K × V)) (t0 : Table K V), t0.cap = 2 * m.tab.cap + 1 →
      es.foldl (fun acc e => acc.setBucket (hash e.1 % (2 * m.tab.cap + 1)) (e :: acc.bucket (hash e.1 % (2 * m.tab.cap + 1)))) t0 =
      es.foldl (Table.pushCell hash) t0 := by
    intro es
    induction es with
    | nil => intro _ _; rfl
    | cons e t ih =>
      intro t0 h0
      simp only [List.foldl_cons]
      have : Table.pushCell hash t0 e = t0.setBucket (hash e.1 % (2 * m.tab.cap + 1)) (e :: t0.bucket (hash e.1 % (2 * m.tab.cap + 1))) := by
        unfold Table.pushCell; rw [h0]
      rw [← this]
      exact ih _ (by simp [h0])
  rw [this _ _ (by simp)]

/-! ### guards, and the expected results in one place -/

theorem run_guardEmpty (r : Ret) (rest : List TSt) (m : LMap K V) (mode : Mode) (k : K) (v : V) :
    run d hash thr mode k v (TSt.guardEmpty r :: rest) m =
      if d.refuse k then (m, some r) else run d hash thr mode k v rest m := by
  unfold run
  cases hr : d.refuse k with
  | true =>
    simp only [runT, Option.isSome_none, Bool.false_eq_true, if_false, stepT, hr, if_true]
    rw [runT_done _ _ _ _ _ _ _ _ (by rfl)]
  | false => simp [runT, stepT, hr]

/-- what a put-like method of shape `p` must do, in terms of the CodeModel's `putWith` -/
def expectPut (p : PutShape) (m : LMap K V) (mode : Mode) (k : K) (v : V) : LMap K V × Option Ret :=
  let body := ((m.putWith hash thr mode k (p.newv d v)).1, some (if (m.tab.get hash k).isSome then p.rFound else p.rFresh))
  match p.guard with
  | some r => if d.refuse k then (m, some r) else body
  | none => body

def expectPutP (p : PutShape) (pm : PMap K V) (k : K) (v : V) : PMap K V × Option Ret :=
  let body := ((pm.putWith hash thr k (p.newv d v)).1, some (if (pm.tab.get hash k).isSome then p.rFound else p.rFresh))
  match p.guard with
  | some r => if d.refuse k then (pm, some r) else body
  | none => body

def expectRemove (p : RemoveShape) (m : LMap K V) (k : K) : LMap K V × Option Ret :=
  ((m.remove hash k).1, some (if (m.tab.get hash k).isSome then p.rFound else p.rAbsent))

def expectRemoveP (p : RemoveShape) (pm : PMap K V) (k : K) : PMap K V × Option Ret :=
  let body := ((pm.remove hash k).1, some (if (pm.tab.get hash k).isSome then p.rFound else p.rAbsent))
  match p.guard with
  | some r => if d.refuse k then (pm, some r) else body
  | none => body

/-- run a plain type's method: the statements never touch the order list -/
def runP (prog : List TSt) (pm : PMap K V) (k : K) (v : V) : PMap K V × Option Ret :=
  let r := run d hash thr .last k v prog (ofP pm)
  (toP r.1, r.2)

theorem put_linked_interp (p : PutShape) (hl : p.linked = true) (hu : p.upd ≠ .none) (hs : p.saveOld = true)
    (hr : p.relink = true) (hn : p.noOver = none) (prog : List TSt) (hp : prog = canonPut p)
    (m : LMap K V) (mode : Mode) (k : K) (v : V) :
    run d hash thr mode k v prog m = expectPut d hash thr p m mode k v := by
  subst hp
  rw [canonPut_linked_correct d hash thr p hl hu hs hr hn]
  unfold expectPut
  cases p.guard <;> rfl

theorem put_set_interp (p : PutShape) (hl : p.linked = true) (hu : p.upd = .none) (hs : p.saveOld = false)
    (hr : p.relink = true) (hn : p.noOver = none) (hg0 : p.guard = none) (prog : List TSt) (hp : prog = canonPut p)
    (m : LMap K V) (mode : Mode) (k : K) (v : V) (hv : ∀ c, m.tab.get hash k = some c → c = v) :
    run d hash thr mode k v prog m = expectPut d hash thr p m mode k v := by
  subst hp
  rw [canonPut_set_correct d hash thr p hl hu hs hr hn hg0 m mode k v hv]
  unfold expectPut PutShape.newv
  rw [hg0, hu]

theorem put_plain_interp (p : PutShape) (hl : p.linked = false) (hu : p.upd ≠ .none) (hs : p.saveOld = true)
    (hg0 : p.guard = none) (prog : List TSt) (hp : prog = canonPut p)
    (pm : PMap K V) (k : K) (v : V) :
    runP d hash thr prog pm k v = expectPutP d hash thr p pm k v := by
  subst hp
  unfold runP expectPutP
  rw [hg0]
  exact canonPut_plain_correct d hash thr p hl hu hs hg0 pm k v

theorem put_plainSet_interp (p : PutShape) (hl : p.linked = false) (hu : p.upd = .none) (hs : p.saveOld = false)
    (prog : List TSt) (hp : prog = canonPut p)
    (pm : PMap K V) (k : K) (v : V) (hv : ∀ c, pm.tab.get hash k = some c → c = v) :
    runP d hash thr prog pm k v = expectPutP d hash thr p pm k v := by
  subst hp
  unfold runP expectPutP
  cases hg : p.guard with
  | none =>
    simp only
    have := canonPut_plainSet_correct d hash thr p hl hu hs hg pm k v hv
    simp only [PutShape.newv, hu] at this ⊢
    exact this
  | some r =>
    simp only
    have hc : canonPut p = TSt.guardEmpty r :: canonPut { p with guard := none } := by
      unfold canonPut canonFound; simp [hg]
    rw [hc, run_guardEmpty]
    cases hr : d.refuse k with
    | true => simp [toP, ofP]
    | false =>
      simp only [Bool.false_eq_true, if_false]
      have := canonPut_plainSet_correct d hash thr { p with guard := none } hl hu hs rfl pm k v hv
      simp only [PutShape.newv, hu] at this ⊢
      exact this

theorem remove_linked_interp (p : RemoveShape) (hl : p.linked = true) (hg0 : p.guard = none)
    (prog : List TSt) (hp : prog = canonRemove p) (m : LMap K V) (mode : Mode) (k : K) (v : V) :
    run d hash thr mode k v prog m = expectRemove hash p m k := by
  subst hp; exact canonRemove_linked_correct d hash thr p hl hg0 m mode k v

theorem remove_plain_interp (p : RemoveShape) (hl : p.linked = false)
    (prog : List TSt) (hp : prog = canonRemove p) (pm : PMap K V) (k : K) (v : V) :
    runP d hash thr prog pm k v = expectRemoveP d hash p pm k := by
  subst hp
  unfold runP expectRemoveP
  cases hg : p.guard with
  | none => simp only; exact canonRemove_plain_correct d hash thr p hl hg pm k v
  | some r =>
    simp only
    have hc : canonRemove p = TSt.guardEmpty r :: canonRemove { p with guard := none } := by
      unfold canonRemove; simp [hg]
    rw [hc, run_guardEmpty]
    cases hr : d.refuse k with
    | true => simp [toP, ofP]
    | false =>
      simp only [Bool.false_eq_true, if_false]
      exact canonRemove_plain_correct d hash thr { p with guard := none } hl rfl pm k v

/-! ### read-only lookups, GetLRU, RemoveFirst / RemoveLast, clear -/

/-- `Get` / `ContainsKey` / `Contains`: `[index, scan [ret rF], ret rA]` (optionally behind the empty-key guard) leaves the
    map unchanged and answers by presence -/
def canonLookup (guard : Option Ret) (rF rA : Ret) : List TSt :=
  (match guard with | some r => [TSt.guardEmpty r] | none => []) ++ [TSt.index, TSt.scan [FSt.ret rF], TSt.ret rA]

theorem canonLookup_correct (guard : Option Ret) (rF rA : Ret) (m : LMap K V) (mode : Mode) (k : K) (v : V) :
    run d hash thr mode k v (canonLookup guard rF rA) m =
      (m, some (match guard with
                | some r => if d.refuse k then r else if (m.tab.get hash k).isSome then rF else rA
                | none => if (m.tab.get hash k).isSome then rF else rA)) := by
  have core : run d hash thr mode k v [TSt.index, TSt.scan [FSt.ret rF], TSt.ret rA] m =
      (m, some (if (m.tab.get hash k).isSome then rF else rA)) := by
    unfold run
    cases hg : m.tab.get hash k <;> simp [runT, stepT, runF, stepF, hg]
  cases guard with
  | none => simpa [canonLookup] using core
  | some r =>
    simp only [canonLookup, List.cons_append, List.nil_append]
    rw [run_guardEmpty, core]
    cases d.refuse k <;> simp

/-- `GetLRU`: the found cell is relinked to the back, its value returned -/
def canonGetLRU : List TSt := [TSt.index, TSt.scan [FSt.saveOld, FSt.relink .back, FSt.ret .old], TSt.ret .absent]

theorem canonGetLRU_correct (m : LMap K V) (mode : Mode) (k : K) (v : V) :
    run d hash thr mode k v canonGetLRU m =
      (match m.tab.get hash k with
       | some _ => ({ m with order := LMap.moveLast m.order k }, some Ret.old)
       | none => (m, some Ret.absent)) := by
  unfold run canonGetLRU
  cases hg : m.tab.get hash k <;> simp [runT, stepT, runF, stepF, hg]

/-- `RemoveFirst` / `RemoveLast`: `if count == 0 { return r }; return this.remove(header.link_X.key)` -/
def canonRemoveEnd (r : Ret) (e : End) : List TSt := [TSt.retIfEmpty r, TSt.retRemoveEnd e]

theorem canonRemoveEnd_correct (r : Ret) (m : LMap K V) (mode : Mode) (k : K) (v : V) :
    (run d hash thr mode k v (canonRemoveEnd r .front) m).1 = (LMap.step hash thr d m .removeFirst).1 ∧
    (run d hash thr mode k v (canonRemoveEnd r .back) m).1 = (LMap.step hash thr d m .removeLast).1 := by
  unfold run canonRemoveEnd
  constructor
  · by_cases hc : m.count = 0
    · simp [runT, stepT, hc, LMap.step]
    · cases ho : m.order.head? <;> simp [runT, stepT, hc, LMap.step, ho]
  · by_cases hc : m.count = 0
    · simp [runT, stepT, hc, LMap.step]
    · cases ho : m.order.getLast? <;> simp [runT, stepT, hc, LMap.step, ho]

/-- `clear()` of the linked types -/
def canonClear : List TSt := [TSt.clearBuckets, TSt.headerReset, TSt.countZero]

theorem canonClear_correct (m : LMap K V) (mode : Mode) (k : K) (v : V) :
    run d hash thr mode k v canonClear m = (m.clear, none) := by
  unfold run canonClear LMap.clear
  simp [runT, stepT]

/-- `clear()` of the plain types (IntIntMap returns at once when empty) -/
def canonClearP (early : Bool) : List TSt :=
  (if early then [TSt.retIfEmpty .nothing] else []) ++ [TSt.clearBuckets, TSt.countZero]

theorem canonClearP_correct (early : Bool) (pm : PMap K V) (k : K) (v : V) :
    toP (run d hash thr .last k v (canonClearP early) (ofP pm)).1 = (if early ∧ pm.count = 0 then pm else pm.clear) := by
  unfold run canonClearP PMap.clear
  cases early
  · simp [runT, stepT, toP, ofP]
  · by_cases hc : pm.count = 0
    · obtain ⟨tab, count, threshold, max⟩ := pm
      simp only at hc; subst hc
      simp [runT, stepT, toP, ofP]
    · simp [runT, stepT, toP, ofP, hc]

/-! ### ContainsValue and Sort: loop nests read as functions of their bounds -/

/-- `for i := <start>; i <cond> lo; i-- { for e := tab[i - off]; … if e.value == value { return true } } return false`
    (`fromLen`: start is `len(tab)`, else `len(tab) - 1`; `strict`: the condition is `i > lo`, else `i >= lo`) -/
structure CVFacts where
  fromLen : Bool
  strict : Bool
  lo : Nat
  off : Nat
  comparesValue : Bool
  deriving DecidableEq, Repr

def cvVisited (f : CVFacts) (cap : Nat) : List Nat :=
  let start := if f.fromLen then cap else cap - 1
  let is := (List.range (start + 1)).reverse.filter (fun i => if f.strict then decide (f.lo < i) else decide (f.lo ≤ i))
  -- with `len(tab) - 1` as start an empty table is never entered (the Go int would be -1)
  (if f.fromLen || 0 < cap then is else []).map (fun i => i - f.off)

def interpCV (f : CVFacts) (m : LMap K V) (v : V) : Bool :=
  f.comparesValue && ((cvVisited f m.tab.cap).flatMap m.tab.bucket).any (fun e => d.veq e.2 v)

def canonCVa : CVFacts := ⟨true, true, 0, 1, true⟩    -- i := len(tab); i > 0; tab[i-1]
def canonCVb : CVFacts := ⟨false, false, 0, 0, true⟩  -- i := len(tab)-1; i >= 0; tab[i]

theorem cvVisited_a (cap : Nat) : cvVisited canonCVa cap = (List.range cap).reverse := by
  have := visited_canon cap
  unfold visited canonRehash at this
  unfold cvVisited canonCVa
  simpa using this

theorem cvVisited_b (cap : Nat) : cvVisited canonCVb cap = (List.range cap).reverse := by
  unfold cvVisited canonCVb
  cases cap with
  | zero => simp
  | succ n => simp

theorem interpCV_correct (m : LMap K V) (v : V) :
    interpCV d canonCVa m v = (LMap.step hash thr d m (.containsValue v)).2.isTrue ∧
    interpCV d canonCVb m v = (LMap.step hash thr d m (.containsValue v)).2.isTrue := by
  unfold interpCV
  rw [cvVisited_a, cvVisited_b]
  simp [LMap.step, Table.entries, canonCVa, canonCVb, Out.isTrue]

/-- `Sort`: collect `count` entries with the entry enumerator, `sort.Sort` by key under the comparator, `clear()`, re-`put` each
    with the stated mode -/
structure SortFacts where
  collectsEntries : Bool   -- `list[i] = en.NextElement()` (or the order-list walk) for i < count
  sortsByKey : Bool        -- `sort.Sort(…{compare: c, data: list})` with `Less = compare(data[i].GetKey(), data[j].GetKey())`
  clears : Bool
  reput : Option Mode      -- `this.put(list[i].GetKey(), list[i].GetValue(), <mode>)`
  deriving DecidableEq, Repr

def canonSort : SortFacts := ⟨true, true, true, some .last⟩

def interpSort (f : SortFacts) (m : LMap K V) (lt : K → K → Bool) : LMap K V :=
  let es := if f.collectsEntries then m.entries hash else []
  let sorted := if f.sortsByKey then AL.sortEnts lt es else es
  let m0 := if f.clears then m.clear else m
  match f.reput with
  | some mode => sorted.foldl (fun acc e => (acc.put hash thr d mode e.1 e.2).1) m0
  | none => m0

theorem interpSort_correct (m : LMap K V) (lt : K → K → Bool) :
    interpSort d hash thr canonSort m lt = m.sort hash thr d lt := by
  unfold interpSort canonSort LMap.sort; rfl

/-- `IntIntMap.Sort` (a plain map: entries come from the table enumerator, `put` has no mode) -/
def interpSortP (pd : PDesc K V) (f : SortFacts) (pm : PMap K V) (lt : K → K → Bool) : PMap K V :=
  let es := if f.collectsEntries then pm.tab.entries else []
  let sorted := if f.sortsByKey then AL.sortEnts lt es else es
  let m0 := if f.clears then pm.clear else pm
  match f.reput with
  | some _ => sorted.foldl (fun acc e => (acc.put hash thr pd e.1 e.2).1) m0
  | none => m0

theorem interpSortP_correct (pd : PDesc K V) (pm : PMap K V) (lt : K → K → Bool) :
    interpSortP hash thr pd canonSort pm lt = pm.sort hash thr pd lt := by
  unfold interpSortP canonSort PMap.sort; rfl

theorem interpCV_plain_correct (pd : PDesc K V) (pm : PMap K V) (v : V) :
    interpCV pd.toDesc canonCVa (ofP pm) v = (PMap.step hash thr pd pm (.containsValue v)).2.isTrue ∧
    interpCV pd.toDesc canonCVb (ofP pm) v = (PMap.step hash thr pd pm (.containsValue v)).2.isTrue := by
  unfold interpCV
  rw [cvVisited_a, cvVisited_b]
  simp [PMap.step, Table.entries, canonCVa, canonCVb, Out.isTrue, ofP]

/-- which guard a transcribed lookup starts with -/
def guardHead : List TSt → Option Ret
  | TSt.guardEmpty r :: _ => some r
  | _ => none

/-! ### ToBytes / ToObject: the sequence of stream calls -/

/-- a stream call: which codec, on what -/
inductive WCall | decCount | decKey | decVal | floatVal | unknown
  deriving DecidableEq, Repr

/-- `ToBytes`: the calls before the entry loop and the calls per entry;  `ToObject`: the reads before the loop, the reads per
    entry, and whether each decoded pair is `Put` -/
structure WireFacts where
  head : List WCall
  perEntry : List WCall
  puts : Bool
  deriving DecidableEq, Repr

def canonWire (float : Bool) : WireFacts := ⟨[.decCount], [.decKey, if float then .floatVal else .decVal], true⟩

open Prim in
def encCall (n : Nat) (e : Int × Int) : WCall → Bytes
  | .decCount => encDecimal n
  | .decKey => encDecimal e.1
  | .decVal => encDecimal e.2
  | .floatVal => beN 4 e.2.toNat
  | .unknown => []

def interpToBytes (f : WireFacts) (es : List (Int × Int)) : Bytes :=
  f.head.flatMap (encCall es.length (0, 0)) ++ Prim.encMany (fun e => f.perEntry.flatMap (encCall es.length e)) es

theorem interpToBytes_correct (float : Bool) (es : List (Int × Int)) :
    interpToBytes (canonWire float) es = if float then pairsToBytesF es else pairsToBytes es := by
  unfold interpToBytes canonWire pairsToBytesF pairsToBytes
  cases float
  · have : (fun e : Int × Int => List.flatMap (encCall es.length e) [WCall.decKey, WCall.decVal]) = encPair := by
      funext e; simp [encCall, encPair]
    simp only [List.flatMap_cons, List.flatMap_nil, List.append_nil, encCall, Bool.false_eq_true, if_false]
    rfl
  · have : (fun e : Int × Int => List.flatMap (encCall es.length e) [WCall.decKey, WCall.floatVal]) = encPairF := by
      funext e; simp [encCall, encPairF]
    simp only [List.flatMap_cons, List.flatMap_nil, List.append_nil, encCall, if_true]
    rfl

/-- the reader a `ToObject` with these facts is: recognised forms only (anything else reads nothing) -/
def interpReader (f : WireFacts) : P (List (Int × Int)) :=
  if f = canonWire false then pairsFromBytes
  else if f = canonWire true then pairsFromBytesF
  else .fail

theorem interpReader_correct (float : Bool) :
    interpReader (canonWire float) = if float then pairsFromBytesF else pairsFromBytes := by
  cases float <;> simp [interpReader, canonWire]

/-! ### the shapes of the seventeen types (by reading; tied to the descriptors by `shapes_match_descriptors`) -/

def mapPut (hashVar : Bool) (guard : Option Ret) (upd : Upd) (rFresh : Ret) : PutShape :=
  ⟨true, guard, hashVar, upd, true, .old, none, true, rFresh⟩
def setPut : PutShape := ⟨true, none, true, .none, false, .key, none, true, .absent⟩
def plainPut (hashVar : Bool) (upd : Upd) (rFresh : Ret) : PutShape :=
  ⟨false, none, hashVar, upd, true, .old, none, false, rFresh⟩

def putShape : String → PutShape
  | "LinkedMap" | "LongKeyLinkedMap" | "StringKeyLinkedMap" => mapPut true none .assign .emptyStr
  | "IntKeyLinkedMap" => mapPut true none .assign .absent
  | "IntIntLinkedMap" | "IntFloatLinkedMap" | "LongFloatLinkedMap" | "LongLongLinkedMap" => mapPut false none .assign .absent
  | "StringIntLinkedMap" | "StringLongLinkedMap" => mapPut true (some .absent) .assign .absent
  | "LinkedSet" | "IntLinkedSet" | "StringLinkedSet" => setPut
  | "IntIntMap" => plainPut false .assign .absent
  | "IntKeyMap" => plainPut true .assign .absent
  | "IntSet" => ⟨false, none, false, .none, false, .boolF, none, false, .boolT⟩
  | "StringSet" => ⟨false, some .emptyStr, true, .none, false, .cellKey, none, false, .key⟩
  | _ => ⟨false, none, false, .none, false, .unknown, none, false, .unknown⟩

def addShape : String → PutShape
  | "IntIntLinkedMap" | "IntFloatLinkedMap" | "LongFloatLinkedMap" | "LongLongLinkedMap" => mapPut false none .accumulate .absent
  | "StringIntLinkedMap" | "StringLongLinkedMap" => mapPut true (some .absent) .accumulate .absent
  | "IntIntMap" => plainPut false .accumulate .value
  | _ => ⟨false, none, false, .none, false, .unknown, none, false, .unknown⟩

def addNoOverShape : PutShape := ⟨true, none, false, .accumulate, true, .old, some .absent, true, .absent⟩

def removeShape : String → RemoveShape
  | "LinkedSet" | "IntLinkedSet" | "StringLinkedSet" => ⟨true, none, false, false, .key, .absent⟩
  | "IntIntMap" | "IntKeyMap" => ⟨false, none, true, true, .old, .absent⟩
  | "IntSet" => ⟨false, none, false, false, .key, .zero⟩
  | "StringSet" => ⟨false, some .boolF, false, false, .boolT, .boolF⟩
  | _ => ⟨true, none, true, true, .old, .absent⟩

/-- the shapes agree with the descriptors: empty-key guard ↔ `refuseEmpty`, `+=` ↔ `accumulate`, a fresh `Add`
    returning the value ↔ `addFreshNew`, order-list statements ↔ the type is linked -/
theorem shapes_match_descriptors :
    (linkedTypes.all fun t => (putShape t.name).linked && ((putShape t.name).guard.isSome == t.refuseEmpty) &&
        (t.addOp != .accumulate || (addShape t.name).upd == .accumulate)) = true ∧
    (plainTypes.all fun t => !(putShape t.name).linked && ((putShape t.name).guard.isSome == t.refuseEmpty) &&
        (t.addOp != .accumulate || ((addShape t.name).upd == .accumulate && ((addShape t.name).rFresh == .value) == t.addFreshNew))) = true := by
  decide

/-! ### configuration setters (`SetMax`, `SetNullValue`): every statement of the method, nothing else allowed -/

/-- `this.max = max` | `this.NONE = none` | `return this`; anything else (a resize, a loop, …) is `.unknown` -/
inductive CSt
  | assignMax | assignNone | retThis | unknown
  deriving DecidableEq, Repr

/-- the setter's statements on the model: only `.assignMax` touches the container, and only its bound -/
def runC (n : Nat) : List CSt → LMap K V → Option (LMap K V)
  | [], _ => none
  | .assignMax :: r, m => runC n r { m with max := n }
  | .assignNone :: r, m => runC n r m
  | .retThis :: _, m => some m
  | .unknown :: _, _ => none

def canonSetMax : List CSt := [.assignMax, .retThis]
def canonSetNull : List CSt := [.assignNone, .retThis]

/-- `SetMax(n)` as written is the model's `setMax n`: the bound changes, table / order list / count / threshold do not -/
theorem canonSetMax_correct (m : LMap K V) (n : Nat) :
    runC n canonSetMax m = some (LMap.step hash thr d m (.setMax n)).1 ∧
    ∀ m', runC n canonSetMax m = some m' → m'.tab = m.tab ∧ m'.order = m.order ∧ m'.count = m.count ∧ m'.threshold = m.threshold ∧ m'.max = n := by
  refine ⟨rfl, fun m' h => ?_⟩
  simp only [canonSetMax, runC, Option.some.injEq] at h
  subst h; exact ⟨rfl, rfl, rfl, rfl, rfl⟩

/-- `SetNullValue(x)` as written does not touch the container at all (NONE only selects how "absent" is shown) -/
theorem canonSetNull_correct (m : LMap K V) (n : Nat) : runC n canonSetNull m = some m := rfl

/-- the plain maps' `SetMax` (IntIntMap) -/
theorem canonSetMaxP_correct (dp : PDesc K V) (pm : PMap K V) (n : Nat) :
    (runC n canonSetMax (ofP pm)).map toP = some (PMap.step hash thr dp pm (.setMax n)).1 := by
  simp [canonSetMax, runC, toP, ofP, PMap.step]

/-! ### one-line accessors (`Size`, `IsEmpty`, `IsFull`, `GetFirstKey` … `GetLastValue`): every statement of the method -/

/-- `return this.count` | `return this.count == 0` | `return this.max > 0 && this.max <= this.count` |
    `if this.count == 0 { return <absent sentinel> }` | `return this.header.link_X.key` | `return this.header.link_X.value` -/
inductive ASt
  | retCount | retCountZero | retIsFull
  | retAbsentIfEmpty
  | retEndKey (e : End) | retEndValue (e : End)
  | unknown
  deriving DecidableEq, Repr

/-- the accessor's statements on the model (the header cell of an empty order list shows "absent") -/
def runA : List ASt → LMap K V → Option (Out K V)
  | [], _ => none
  | .retCount :: _, m => some (.nat m.count)
  | .retCountZero :: _, m => some (.bool (m.count == 0))
  | .retIsFull :: _, m => some (.bool (decide (0 < m.max ∧ m.max ≤ m.count)))
  | .retAbsentIfEmpty :: r, m => if m.count = 0 then some .none else runA r m
  | .retEndKey .front :: _, m => some (.ofKey m.order.head?)
  | .retEndKey .back :: _, m => some (.ofKey m.order.getLast?)
  | .retEndValue .front :: _, m => some (.ofVal (m.order.head?.bind (m.get hash)))
  | .retEndValue .back :: _, m => some (.ofVal (m.order.getLast?.bind (m.get hash)))
  | .retEndKey .unknown :: _, _ => none
  | .retEndValue .unknown :: _, _ => none
  | .unknown :: _, _ => none

/-- the accepted forms of an end accessor: the bare return, or the return behind the empty-map guard -/
def canonEnd (guard : Bool) (a : ASt) : List ASt := (if guard then [ASt.retAbsentIfEmpty] else []) ++ [a]

theorem canonSize_correct (m : LMap K V) :
    runA hash [ASt.retCount] m = some (LMap.step hash thr d m .size).2 ∧
    runA hash [ASt.retCountZero] m = some (LMap.step hash thr d m .isEmpty).2 ∧
    runA hash [ASt.retIsFull] m = some (LMap.step hash thr d m .isFull).2 := ⟨rfl, rfl, rfl⟩

/-- first / last key / value, with or without the guard: the model's accessor.  The guard is redundant in every state
    in which `count` is the length of the order list (part of the invariant): an empty order list already shows "absent". -/
theorem canonEnd_correct (guard : Bool) (m : LMap K V) (hc : m.count = m.order.length) :
    runA hash (canonEnd guard (.retEndKey .front)) m = some (LMap.step hash thr d m .firstKey).2 ∧
    runA hash (canonEnd guard (.retEndKey .back)) m = some (LMap.step hash thr d m .lastKey).2 ∧
    runA hash (canonEnd guard (.retEndValue .front)) m = some (LMap.step hash thr d m .firstValue).2 ∧
    runA hash (canonEnd guard (.retEndValue .back)) m = some (LMap.step hash thr d m .lastValue).2 := by
  cases guard
  · exact ⟨rfl, rfl, rfl, rfl⟩
  · by_cases h0 : m.count = 0
    · have : m.order = [] := List.eq_nil_of_length_eq_zero (by rw [← hc]; exact h0)
      simp [canonEnd, runA, h0, LMap.step, this, Out.ofKey, Out.ofVal]
    · simp [canonEnd, runA, h0, LMap.step]

/-- the plain maps' `Size` / `IsEmpty` / `IsFull` -/
theorem canonSizeP_correct (dp : PDesc K V) (pm : PMap K V) :
    runA hash [ASt.retCount] (ofP pm) = some (PMap.step hash thr dp pm .size).2 ∧
    runA hash [ASt.retCountZero] (ofP pm) = some (PMap.step hash thr dp pm .isEmpty).2 ∧
    runA hash [ASt.retIsFull] (ofP pm) = some (PMap.step hash thr dp pm .isFull).2 := ⟨rfl, rfl, rfl⟩

/-! ### enumerator objects: `HasMoreElements` / `Next*`, statement by statement -/

/-- plain: `for this.entry == nil && this.index > 0 { this.index--; this.entry = this.table[this.index] }` |
    `return this.entry != nil` | `if this.entry != nil { e := this.entry; this.entry = e.next; return <e's key / value / e> }`;
    linked: `return this.entry != nil && this.parent.header != this.entry` |
    `if this.HasMoreElements() { e := this.entry; this.entry = e.link_next; return <e's key / value / e> }` | `return this.NextElement()`;
    both: the trailing `panic(…)` / `return <zero>` of an exhausted enumerator -/
inductive ESt
  | skipLoop | retHasEntry | ifEntryTake
  | retNotHeader | ifHasMoreTake | retNextElement
  | exhausted | unknown
  deriving DecidableEq, Repr

/-- what a call shows -/
inductive ERes (α : Type)
  | hasMore (b : Bool) | elem (a : α) | exhausted
  deriving DecidableEq, Repr

/-- the plain enumerator's statements on the model `(index, rest of the current chain)` over a table -/
def runEP (t : Table K V) : List ESt → PEnum K V → Option (PEnum K V × ERes (K × V))
  | [], _ => none
  | .skipLoop :: r, e => runEP t r (PEnum.advance t e)
  | .retHasEntry :: _, e => some (e, .hasMore (!e.entry.isEmpty))
  | .ifEntryTake :: r, e =>
    match e.entry with
    | c :: rest => some (⟨e.index, rest⟩, .elem c)
    | [] => runEP t r e
  | .exhausted :: _, e => some (e, .exhausted)
  | _ :: _, _ => none

def canonHasMoreP : List ESt := [.skipLoop, .retHasEntry]
def canonNextP : List ESt := [.skipLoop, .ifEntryTake, .exhausted]

/-- the transcribed `HasMoreElements` is `PEnum.hasMore` (and leaves the enumerator advanced past empty buckets) -/
theorem canonHasMoreP_correct (t : Table K V) (e : PEnum K V) :
    runEP t canonHasMoreP e = some (PEnum.advance t e, .hasMore (PEnum.hasMore t e)) := rfl

/-- the transcribed `Next*` is `PEnum.next`: the element under the cursor after the skip loop, cursor moved down the chain;
    exhausted exactly when `PEnum.next` is undefined -/
theorem canonNextP_correct (t : Table K V) (e : PEnum K V) :
    runEP t canonNextP e =
      match PEnum.next t e with
      | some (c, e') => some (e', .elem c)
      | none => some (PEnum.advance t e, .exhausted) := by
  simp only [canonNextP, runEP, PEnum.next]
  cases (PEnum.advance t e).entry <;> rfl

/-- the linked enumerator's statements on the model (the keys from the cursor to the header) -/
def runEL : List ESt → LEnum K → Option (LEnum K × ERes K)
  | [], _ => none
  | .retNotHeader :: _, e => some (e, .hasMore (!e.rest.isEmpty))
  | .ifHasMoreTake :: r, e =>
    match e.rest with
    | k :: rest => some (⟨rest⟩, .elem k)
    | [] => runEL r e
  | .retNextElement :: _, e =>
    match e.rest with
    | k :: rest => some (⟨rest⟩, .elem k)
    | [] => some (e, .exhausted)
  | .exhausted :: _, e => some (e, .exhausted)
  | _ :: _, _ => none

def canonHasMoreL : List ESt := [.retNotHeader]
def canonNextL : List ESt := [.ifHasMoreTake, .exhausted]

theorem canonHasMoreL_correct (e : LEnum K) : runEL canonHasMoreL e = some (e, .hasMore e.hasMore) := rfl

theorem canonNextL_correct (l : List ESt) (hl : l = canonNextL ∨ l = [ESt.retNextElement]) (e : LEnum K) :
    runEL l e =
      match e.next with
      | some (k, e') => some (e', .elem k)
      | none => some (e, .exhausted) := by
  obtain ⟨r⟩ := e
  rcases hl with rfl | rfl <;> cases r <;> rfl

end HMap.IR
