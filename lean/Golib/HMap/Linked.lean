/-
  Golib.HMap.Linked — CodeModel of the thirteen linked hash maps / sets of /repo/util/hmap.

  State as in the Go structs:  `tab` (bucket array of hash chains), the circular doubly linked list
  through `header` as the list `order` of keys from `header.link_next` to `header.link_prev`
  (`chain(header, header.link_next, e)` = cons, `chain(header.link_prev, header, e)` = append,
  `unchain(e)` = erase), `count`, `threshold`, `max`.

  Generic in K, V, in the hash function `hash : K → Nat` and in the growth threshold
  `thr : Nat → Nat` (capacity ↦ threshold; the Go code computes `int(float32(cap) * loadFactor)`,
  which no theorem depends on).  Each function follows the Go method of the same name.
-/
import Golib.HMap.Table
import Golib.HMap.Spec

namespace HMap

structure LMap (K V : Type) where
  tab : Table K V
  order : List K := []
  count : Nat := 0
  threshold : Nat
  max : Nat := 0

namespace LMap
variable {K V : Type} [DecidableEq K] [DecidableEq V]
variable (hash : K → Nat) (thr : Nat → Nat)

/-- constructor; the capacity guard `if initCapacity == 0 { initCapacity = 1 }` (fix D16) is part of it -/
def new (cap : Nat) : LMap K V :=
  let c := if cap = 0 then 1 else cap
  { tab := Table.new c, threshold := thr c }

def get (m : LMap K V) (k : K) : Option V := m.tab.get hash k

/-- `remove(key)`: unlink from the hash chain and from the order list -/
def remove (m : LMap K V) (k : K) : LMap K V × Option V :=
  match m.tab.get hash k with
  | some v => ({ m with tab := m.tab.del hash k, order := m.order.erase k, count := m.count - 1 }, some v)
  | none => (m, none)

/-- `for this.count >= this.max { k := this.header.link_next.key; this.remove(k) }`
    (fuel = an upper bound of the number of iterations) -/
def evictFront (m : LMap K V) : Nat → LMap K V
  | 0 => m
  | fuel + 1 =>
    if m.max ≤ m.count then
      match m.order.head? with
      | some k => evictFront (m.remove hash k).1 fuel
      | none => m
    else m

/-- `for this.count >= this.max { k := this.header.link_prev.key; this.remove(k) }` -/
def evictBack (m : LMap K V) : Nat → LMap K V
  | 0 => m
  | fuel + 1 =>
    if m.max ≤ m.count then
      match m.order.getLast? with
      | some k => evictBack (m.remove hash k).1 fuel
      | none => m
    else m

def evict (mode : Mode) (m : LMap K V) : LMap K V :=
  if 0 < m.max then
    (if mode.atFront then m.evictBack hash (m.count + 1) else m.evictFront hash (m.count + 1))
  else m

def rehash (m : LMap K V) : LMap K V :=
  let t := m.tab.rehash hash
  { m with tab := t, threshold := thr t.cap }

def grow (m : LMap K V) : LMap K V :=
  if m.threshold ≤ m.count then m.rehash hash thr else m

/-- `if this.header.link_next != e { unchain(e); chain(header, header.link_next, e) }` -/
def moveFirst (o : List K) (k : K) : List K := if o.head? = some k then o else k :: o.erase k
/-- `if this.header.link_prev != e { unchain(e); chain(header.link_prev, header, e) }` -/
def moveLast (o : List K) (k : K) : List K := if o.getLast? = some k then o else o.erase k ++ [k]

def relink (mode : Mode) (o : List K) (k : K) : List K :=
  match mode with
  | .forceFirst => moveFirst o k
  | .forceLast => moveLast o k
  | _ => o

/-- the tail of put/add for an absent key: evict, grow, link the new cell -/
def insertNew (mode : Mode) (m : LMap K V) (k : K) (v : V) : LMap K V :=
  let m1 := m.evict hash mode
  let m2 := m1.grow hash thr
  { m2 with tab := m2.tab.insertNew hash k v,
            order := if mode.atFront then k :: m2.order else m2.order ++ [k],
            count := m2.count + 1 }

def putWith (m : LMap K V) (mode : Mode) (k : K) (newv : Option V → V) : LMap K V × Option V :=
  match m.tab.get hash k with
  | some old =>
    ({ m with tab := m.tab.setExisting hash k (newv (some old)), order := relink mode m.order k }, some old)
  | none => (m.insertNew hash thr mode k (newv none), none)

def put (d : Desc K V) (m : LMap K V) (mode : Mode) (k : K) (v : V) : LMap K V × Option V :=
  if d.refuse k then (m, none) else m.putWith hash thr mode k (fun _ => v)

def add (d : Desc K V) (m : LMap K V) (mode : Mode) (k : K) (v : V) : LMap K V × Option V :=
  if d.refuse k then (m, none) else m.putWith hash thr mode k (S.addv d v)

def isFull (m : LMap K V) : Bool := decide (0 < m.max ∧ m.max ≤ m.count)

/-- IntIntLinkedMap.addNoOver (mode PUT_LAST) -/
def addNoOver (d : Desc K V) (m : LMap K V) (k : K) (v : V) : LMap K V × Option V :=
  if d.refuse k then (m, none) else
  match m.tab.get hash k with
  | some old => ({ m with tab := m.tab.setExisting hash k (d.comb old v) }, some old)
  | none =>
    if m.isFull then (m, none) else
    let m2 := m.grow hash thr
    ({ m2 with tab := m2.tab.insertNew hash k v, order := m2.order ++ [k], count := m2.count + 1 }, none)

def clear (m : LMap K V) : LMap K V := { m with tab := m.tab.clear, order := [], count := 0 }

/-- what the linked enumerators produce: follow `link_next` from the header -/
def entries (m : LMap K V) : List (K × V) := m.order.filterMap (fun k => (m.get hash k).map (fun v => (k, v)))

/-- `Sort`: collect the entries, sort.Sort by key, clear, re-put with PUT_LAST -/
def sort (d : Desc K V) (m : LMap K V) (lt : K → K → Bool) : LMap K V :=
  (AL.sortEnts lt (m.entries hash)).foldl (fun acc e => (acc.put hash thr d .last e.1 e.2).1) m.clear

def step (d : Desc K V) (m : LMap K V) : Op K V → LMap K V × Out K V
  | .put mode k v => let r := m.put hash thr d mode k v; (r.1, .ofVal r.2)
  | .add mode k v => let r := m.add hash thr d mode k v; (r.1, .ofVal r.2)
  | .addNoOver k v => let r := m.addNoOver hash thr d k v; (r.1, .ofVal r.2)
  | .get k => (m, .ofVal (m.get hash k))
  | .getLRU k =>
    match m.get hash k with
    | some v => ({ m with order := moveLast m.order k }, .val v)
    | none => (m, .none)
  | .containsKey k => (m, .bool (!d.blind k && (m.get hash k).isSome))
  | .containsValue v => (m, .bool (m.tab.entries.any (fun e => d.veq e.2 v)))
  | .firstKey => (m, .ofKey m.order.head?)
  | .lastKey => (m, .ofKey m.order.getLast?)
  | .firstValue => (m, .ofVal (m.order.head?.bind (m.get hash)))
  | .lastValue => (m, .ofVal (m.order.getLast?.bind (m.get hash)))
  | .remove k => let r := m.remove hash k; (r.1, .ofVal r.2)
  | .removeFirst =>
    if m.count = 0 then (m, .none) else
    match m.order.head? with
    | some k => let r := m.remove hash k; (r.1, .ofVal r.2)
    | none => (m, .none)
  | .removeLast =>
    if m.count = 0 then (m, .none) else
    match m.order.getLast? with
    | some k => let r := m.remove hash k; (r.1, .ofVal r.2)
    | none => (m, .none)
  | .clear => (m.clear, .unit)
  | .size => (m, .nat m.count)
  | .isEmpty => (m, .bool (m.count == 0))
  | .isFull => (m, .bool m.isFull)
  | .setMax n => ({ m with max := n }, .unit)
  | .sort lt => (m.sort hash thr d lt, .unit)
  | .keys => (m, .keys m.order)
  | .values => (m, .vals (m.order.filterMap (m.get hash)))
  | .entries => (m, .ents (m.entries hash))

def run (d : Desc K V) : LMap K V → List (Op K V) → LMap K V × List (Out K V)
  | m, [] => (m, [])
  | m, op :: ops =>
    let r := step hash thr d m op
    let rr := run d r.1 ops
    (rr.1, r.2 :: rr.2)

end LMap
end HMap
