/-
  Golib.HMap.LinkedRefine — every operation of the linked CodeModel refines the Spec dictionary:
  the invariant is preserved, the output is the Spec's output, and abstraction commutes.
-/
import Golib.HMap.LinkedLemmas

set_option linter.unusedSectionVars false
set_option linter.unusedSimpArgs false

namespace HMap
namespace LMap
variable {K V : Type} [DecidableEq K] [DecidableEq V]
variable {hash : K → Nat} {thr : Nat → Nat} {d : Desc K V}

theorem abs_mk {m : LMap K V} {e : List (K × V)} {n : Nat} (he : (abs hash m).ents = e) (hm : m.max = n) :
    abs hash m = { ents := e, max := n } := by
  have : abs hash m = { ents := (abs hash m).ents, max := m.max } := rfl
  rw [this, he, hm]

theorem abs_max (m : LMap K V) : (abs hash m).max = m.max := rfl

/-- the three facts proved for every operation -/
def Refines (hash : K → Nat) (d : Desc K V) (r : LMap K V × Out K V) (r' : S K V × Out K V) : Prop :=
  Inv hash d r.1 ∧ r.2 = r'.2 ∧ abs hash r.1 = r'.1

theorem putWith_refines {m : LMap K V} (h : Inv hash d m) (mode : Mode) (k : K) (f : Option V → V)
    (hok : d.refuse k = false) :
    Inv hash d (m.putWith hash thr mode k f).1 ∧
    (m.putWith hash thr mode k f).2 = ((abs hash m).putWith mode k f).2 ∧
    abs hash (m.putWith hash thr mode k f).1 = ((abs hash m).putWith mode k f).1 := by
  unfold putWith S.putWith
  rw [abs_get h]
  cases hg : m.tab.get hash k with
  | some old =>
    simp only
    obtain ⟨hi, he⟩ := touch_refines h mode k (f (some old)) (by simp [hg])
    exact ⟨hi, trivial, abs_mk he rfl⟩
  | none =>
    simp only
    unfold insertNew
    obtain ⟨i1, e1, m1, _⟩ := evict_refines h mode
    obtain ⟨i2, e2, g2, o2, c2, mx2⟩ := grow_refines (thr := thr) i1
    have hsub : (AL.keys (abs hash ((m.evict hash mode).grow hash thr)).ents).Sublist (AL.keys (abs hash m).ents) := by
      rw [e2, e1]
      split
      · exact (AL.evictBack_sublist _ _).map _
      · exact (AL.evictFront_sublist _ _).map _
    have hnone : ((m.evict hash mode).grow hash thr).tab.get hash k = none := by
      rw [← abs_get i2, AL.get_none_iff]
      intro hk
      have := hsub.subset hk
      rw [abs_keys h] at this
      have := (h.mem k).mp this
      simp [hg] at this
    obtain ⟨i3, e3⟩ := link_refines i2 mode.atFront k (f none) hnone hok
    refine ⟨i3, trivial, abs_mk ?_ (by simp only [mx2, m1, abs_max])⟩
    rw [e3, e2, e1]
    unfold AL.insertNew
    rw [abs_max]
    cases mode.atFront <;> simp

theorem put_refines {m : LMap K V} (h : Inv hash d m) (mode : Mode) (k : K) (v : V) :
    Inv hash d (m.put hash thr d mode k v).1 ∧
    (m.put hash thr d mode k v).2 = (S.put d (abs hash m) mode k v).2 ∧
    abs hash (m.put hash thr d mode k v).1 = (S.put d (abs hash m) mode k v).1 := by
  unfold put S.put
  cases hr : d.refuse k with
  | true => simp only [if_true]; exact ⟨h, (by first | rfl | trivial), (by first | rfl | trivial)⟩
  | false => simp only [Bool.false_eq_true, if_false]; exact putWith_refines h mode k _ hr

theorem add_refines {m : LMap K V} (h : Inv hash d m) (mode : Mode) (k : K) (v : V) :
    Inv hash d (m.add hash thr d mode k v).1 ∧
    (m.add hash thr d mode k v).2 = (S.add d (abs hash m) mode k v).2 ∧
    abs hash (m.add hash thr d mode k v).1 = (S.add d (abs hash m) mode k v).1 := by
  unfold add S.add
  cases hr : d.refuse k with
  | true => simp only [if_true]; exact ⟨h, (by first | rfl | trivial), (by first | rfl | trivial)⟩
  | false => simp only [Bool.false_eq_true, if_false]; exact putWith_refines h mode k _ hr

theorem isFull_refines {m : LMap K V} (h : Inv hash d m) : m.isFull = (abs hash m).isFull := by
  unfold isFull S.isFull
  rw [abs_length h, abs_max]

theorem addNoOver_refines {m : LMap K V} (h : Inv hash d m) (k : K) (v : V) :
    Inv hash d (m.addNoOver hash thr d k v).1 ∧
    (m.addNoOver hash thr d k v).2 = (S.addNoOver d (abs hash m) k v).2 ∧
    abs hash (m.addNoOver hash thr d k v).1 = (S.addNoOver d (abs hash m) k v).1 := by
  unfold addNoOver S.addNoOver
  cases hr : d.refuse k with
  | true => simp only [if_true]; exact ⟨h, (by first | rfl | trivial), (by first | rfl | trivial)⟩
  | false =>
    simp only [Bool.false_eq_true, if_false]
    rw [abs_get h, ← isFull_refines h]
    cases hg : m.tab.get hash k with
    | some old =>
      simp only
      obtain ⟨hi, he⟩ := touch_refines h .last k (d.comb old v) (by simp [hg])
      exact ⟨hi, trivial, abs_mk he rfl⟩
    | none =>
      simp only
      cases hf : m.isFull with
      | true => simp only [if_true]; exact ⟨h, (by first | rfl | trivial), (by first | rfl | trivial)⟩
      | false =>
        simp only [Bool.false_eq_true, if_false]
        obtain ⟨i2, e2, g2, o2, c2, mx2⟩ := grow_refines (thr := thr) h
        have hnone : (m.grow hash thr).tab.get hash k = none := by rw [g2, hg]
        obtain ⟨i3, e3⟩ := link_refines i2 false k v hnone hr
        simp only [Bool.false_eq_true, if_false] at i3 e3
        refine ⟨i3, trivial, abs_mk ?_ (by simp only [mx2, abs_max])⟩
        rw [e3, e2]

/-! ### sort -/

theorem foldl_put_refines (l : List (K × V)) {m : LMap K V} (h : Inv hash d m) :
    Inv hash d (l.foldl (fun acc e => (acc.put hash thr d .last e.1 e.2).1) m) ∧
    abs hash (l.foldl (fun acc e => (acc.put hash thr d .last e.1 e.2).1) m) =
      l.foldl (fun acc e => (S.put d acc .last e.1 e.2).1) (abs hash m) := by
  induction l generalizing m with
  | nil => exact ⟨h, rfl⟩
  | cons e t ih =>
    simp only [List.foldl_cons]
    obtain ⟨hi, _, he⟩ := put_refines (thr := thr) h .last e.1 e.2
    obtain ⟨i2, e2⟩ := ih hi
    exact ⟨i2, by rw [e2, he]⟩

end LMap

/-! #### Spec side of sort: re-inserting a key-distinct list under the bound keeps the last `max` -/
namespace S
variable {K V : Type} [DecidableEq K] [DecidableEq V]

theorem keepLast_drop_one (max : Nat) (L : List (K × V)) (hm : 0 < max) (hl : max < L.length) :
    AL.keepLast max (L.drop 1) = AL.keepLast max L := by
  unfold AL.keepLast
  simp only [List.length_drop]
  have h2 : (0 < max ∧ max < L.length) := ⟨hm, hl⟩
  rw [if_pos h2]
  by_cases h1 : max < L.length - 1
  · have : (0 < max ∧ max < L.length - 1) := ⟨hm, h1⟩
    rw [if_pos this, List.drop_drop]
    congr 1; omega
  · have : ¬ (0 < max ∧ max < L.length - 1) := fun h => h1 h.2
    rw [if_neg this]
    congr 1; omega

theorem keepLast_step (max : Nat) (acc t : List (K × V)) (e : K × V) (hb : max = 0 ∨ acc.length ≤ max) :
    AL.keepLast max (AL.evictFront acc max ++ [e] ++ t) = AL.keepLast max (acc ++ e :: t) := by
  have happ : acc ++ e :: t = acc ++ [e] ++ t := by simp
  by_cases hfull : 0 < max ∧ max ≤ acc.length
  · have hlen : acc.length = max := by omega
    have hev : AL.evictFront acc max = acc.drop 1 := by
      unfold AL.evictFront; simp only [hfull, and_self, if_true]; congr 1; omega
    have hd : acc.drop 1 ++ [e] ++ t = (acc ++ e :: t).drop 1 := by
      rw [happ, List.append_assoc, List.append_assoc, List.drop_append_of_le_length (by omega)]
    rw [hev, hd]
    exact keepLast_drop_one max _ hfull.1 (by simp; omega)
  · have hev : AL.evictFront acc max = acc := by
      unfold AL.evictFront; simp only [hfull, if_false]
    rw [hev, happ]

theorem foldl_put_keepLast (d : Desc K V) (l acc : List (K × V)) (max : Nat)
    (hn : (AL.keys (acc ++ l)).Nodup) (hok : ∀ e ∈ l, d.refuse e.1 = false)
    (hb : max = 0 ∨ acc.length ≤ max) :
    l.foldl (fun s e => (S.put d s .last e.1 e.2).1) { ents := acc, max := max } =
      { ents := AL.keepLast max (acc ++ l), max := max } := by
  induction l generalizing acc with
  | nil =>
    simp only [List.foldl_nil, List.append_nil]
    unfold AL.keepLast
    have : ¬ (0 < max ∧ max < acc.length) := by
      intro hh; rcases hb with hb | hb <;> omega
    simp [this]
  | cons e t ih =>
    obtain ⟨k, v⟩ := e
    simp only [List.foldl_cons]
    have hk : d.refuse k = false := hok (k, v) (by simp)
    have hnk : k ∉ AL.keys acc := by
      intro hh
      rw [S.keys_append, List.nodup_append] at hn
      exact hn.2.2 k hh k (by simp [AL.keys]) rfl
    have hput : (S.put d { ents := acc, max := max } .last k v).1 =
        { ents := AL.evictFront acc max ++ [(k, v)], max := max } := by
      unfold S.put S.putWith
      simp only [hk, Bool.false_eq_true, if_false, AL.get_none_iff.mpr hnk]
      simp [AL.insertNew, Mode.atFront]
    rw [hput]
    have hsub : (AL.keys (AL.evictFront acc max ++ [(k, v)] ++ t)).Sublist (AL.keys (acc ++ (k, v) :: t)) := by
      have : acc ++ (k, v) :: t = acc ++ [(k, v)] ++ t := by simp
      rw [this]
      exact (((AL.evictFront_sublist acc max).append_right _).append_right _).map _
    rw [ih (AL.evictFront acc max ++ [(k, v)]) (List.Nodup.sublist hsub hn)
      (fun e he => hok e (by simp [he]))
      (by
        rcases hb with hb | hb
        · exact Or.inl hb
        · by_cases h0 : max = 0
          · exact Or.inl h0
          · right
            rw [List.length_append, AL.length_evictFront]
            by_cases hc : 0 < max ∧ max ≤ acc.length
            · rw [if_pos hc]; simp only [List.length_cons, List.length_nil]; omega
            · rw [if_neg hc]; simp only [List.length_cons, List.length_nil]
              have : ¬ (max ≤ acc.length) := fun h1 => hc ⟨by omega, h1⟩
              omega)]
    rw [keepLast_step max acc t (k, v) hb]

end S
end HMap
