/-
  Golib.HMap.LinkedStep — `refine_step` for every operation of the public API, and `refine_run`
  for every history.
-/
import Golib.HMap.LinkedRefine

set_option linter.unusedSectionVars false
set_option linter.unusedSimpArgs false

namespace HMap
namespace LMap
variable {K V : Type} [DecidableEq K] [DecidableEq V]
variable {hash : K → Nat} {thr : Nat → Nat} {d : Desc K V}

/-! ### first / last entry -/

theorem abs_of_head {m : LMap K V} (h : Inv hash d m) {k : K} {t : List K} (ho : m.order = k :: t) :
    ∃ w, m.tab.get hash k = some w ∧ (abs hash m).ents = (k, w) :: absL (m.tab.get hash) t ∧
      AL.erase (abs hash m).ents k = absL (m.tab.get hash) t := by
  obtain ⟨w, hw⟩ := Option.isSome_iff_exists.mp ((h.mem k).mp (by simp [ho]))
  have habs : (abs hash m).ents = (k, w) :: absL (m.tab.get hash) t := by
    simp only [abs, entries_eq, ho]; exact absL_cons_some _ k t w hw
  have hkt : k ∉ AL.keys (absL (m.tab.get hash) t) := by
    intro hh
    have hn := h.nodup; rw [ho, List.nodup_cons] at hn
    exact hn.1 ((keys_absL_sublist _ t).subset hh)
  refine ⟨w, hw, habs, ?_⟩
  rw [habs]
  have := AL.erase_of_not_mem hkt
  unfold AL.erase at this ⊢
  simp [List.filter_cons, this]

theorem abs_of_last {m : LMap K V} (h : Inv hash d m) {k : K} (ho : m.order.getLast? = some k) :
    ∃ w, m.tab.get hash k = some w ∧ (abs hash m).ents.getLast? = some (k, w) ∧
      AL.erase (abs hash m).ents k = (abs hash m).ents.dropLast := by
  have hk : k ∈ m.order := List.mem_of_getLast? ho
  obtain ⟨w, hw⟩ := Option.isSome_iff_exists.mp ((h.mem k).mp hk)
  have hsplit : m.order = m.order.dropLast ++ [k] := eq_dropLast_append_of_getLast? ho
  have hn := h.nodup; rw [hsplit, nodup_concat_iff] at hn
  refine ⟨w, hw, ?_, ?_⟩
  · simp only [abs, entries_eq]
    rw [getLast?_absL h.allSome, ho]; simp [hw]
  · simp only [abs, entries_eq]
    rw [erase_absL _ h.nodup, dropLast_absL h.allSome]
    conv => lhs; rw [hsplit, erase_append_last hn.2]

/-! ### getLRU: relink without touching the cell -/

theorem moveLast_refines {m : LMap K V} (h : Inv hash d m) (k : K) (v : V) (hg : m.tab.get hash k = some v) :
    Inv hash d { m with order := moveLast m.order k } ∧
    (abs hash { m with order := moveLast m.order k }).ents = AL.erase (abs hash m).ents k ++ [(k, v)] := by
  have hk : k ∈ m.order := (h.mem k).mpr (by simp [hg])
  have hml := moveLast_eq h.nodup hk
  refine ⟨⟨h.tab, ?_, ?_, ?_, ?_⟩, ?_⟩
  · show (moveLast m.order k).Nodup
    rw [hml, nodup_concat_iff]
    exact ⟨h.nodup.erase k, List.Nodup.not_mem_erase h.nodup⟩
  · intro x
    show x ∈ moveLast m.order k ↔ _
    rw [hml, ← h.mem x]
    simp only [List.mem_append, List.mem_singleton, List.Nodup.mem_erase_iff h.nodup]
    constructor
    · rintro (⟨_, h2⟩ | rfl); exact h2; exact hk
    · intro hx; by_cases e : x = k; exact Or.inr e; exact Or.inl ⟨e, hx⟩
  · show m.count = (moveLast m.order k).length
    rw [hml, h.count]; simp [List.length_erase_of_mem hk]
    have : 0 < m.order.length := List.length_pos_of_mem hk
    omega
  · intro x hx
    have hx' : x ∈ moveLast m.order k := hx
    rw [hml] at hx'
    simp only [List.mem_append, List.mem_singleton] at hx'
    rcases hx' with hx' | rfl
    · exact h.ok x (List.mem_of_mem_erase hx')
    · exact h.ok x hk
  · show absL (m.tab.get hash) (moveLast m.order k) = AL.erase (absL (m.tab.get hash) m.order) k ++ [(k, v)]
    rw [hml, absL_append, absL_single_some _ k v hg, erase_absL _ h.nodup]

/-! ### sort -/

theorem sort_refines {m : LMap K V} (h : Inv hash d m) (lt : K → K → Bool) :
    Inv hash d (m.sort hash thr d lt) ∧
    abs hash (m.sort hash thr d lt) = { ents := AL.keepLast m.max (AL.sortEnts lt (abs hash m).ents), max := m.max } := by
  unfold sort
  obtain ⟨hi, he⟩ := foldl_put_refines (thr := thr) (AL.sortEnts lt (m.entries hash)) (Inv.clear h)
  refine ⟨hi, ?_⟩
  rw [he, abs_clear]
  have hperm : (AL.sortEnts lt (m.entries hash)).Perm (m.entries hash) := List.mergeSort_perm _ _
  have := S.foldl_put_keepLast d (AL.sortEnts lt (m.entries hash)) [] m.max
    (by
      simp only [List.nil_append]
      have := S.keys_sortEnts lt (m.entries hash)
      exact this.symm.nodup (abs_WF h))
    (by
      intro e he
      have he' : e ∈ (abs hash m).ents := hperm.subset he
      have : e.1 ∈ AL.keys (abs hash m).ents := List.mem_map.mpr ⟨e, he', rfl⟩
      rw [abs_keys h] at this
      exact h.ok _ this)
    (Or.inr (Nat.zero_le _))
  simp only [List.nil_append] at this
  exact this

/-! ### membership of cells (for ContainsValue, which walks the buckets) -/

theorem mem_entries_iff_abs {m : LMap K V} (h : Inv hash d m) (e : K × V) :
    e ∈ m.tab.entries ↔ e ∈ (abs hash m).ents := by
  obtain ⟨k, v⟩ := e
  rw [Table.mem_entries_iff hash h.tab]
  simp only [abs, entries_eq, mem_absL]
  constructor
  · intro hg; exact ⟨(h.mem k).mpr (by simp [hg]), hg⟩
  · intro hg; exact hg.2

theorem any_congr_mem {α : Type} (p : α → Bool) {l₁ l₂ : List α} (h : ∀ x, x ∈ l₁ ↔ x ∈ l₂) :
    l₁.any p = l₂.any p := by
  rw [Bool.eq_iff_iff]
  simp only [List.any_eq_true]
  constructor
  · rintro ⟨x, hx, hp⟩; exact ⟨x, (h x).mp hx, hp⟩
  · rintro ⟨x, hx, hp⟩; exact ⟨x, (h x).mpr hx, hp⟩

/-! ### the step theorem -/

local macro "triv" : tactic => `(tactic| first | rfl | trivial)

theorem refine_step (thr : Nat → Nat) {m : LMap K V} (h : Inv hash d m) (op : Op K V) :
    Refines hash d (LMap.step hash thr d m op) (S.step d (abs hash m) op) := by
  unfold Refines
  cases op with
  | put mode k v =>
    obtain ⟨a, b, c⟩ := put_refines (thr := thr) h mode k v
    simp only [step, S.step]; exact ⟨a, by rw [b], c⟩
  | add mode k v =>
    obtain ⟨a, b, c⟩ := add_refines (thr := thr) h mode k v
    simp only [step, S.step]; exact ⟨a, by rw [b], c⟩
  | addNoOver k v =>
    obtain ⟨a, b, c⟩ := addNoOver_refines (thr := thr) h k v
    simp only [step, S.step]; exact ⟨a, by rw [b], c⟩
  | get k =>
    simp only [step, S.step, get]; exact ⟨h, by rw [abs_get h], by triv⟩
  | getLRU k =>
    simp only [step, S.step, get]
    rw [abs_get h]
    cases hg : m.tab.get hash k with
    | none => exact ⟨h, by triv, by triv⟩
    | some v =>
      obtain ⟨hi, he⟩ := moveLast_refines h k v hg
      exact ⟨hi, by triv, abs_mk he rfl⟩
  | containsKey k =>
    simp only [step, S.step, get]; exact ⟨h, by rw [abs_get h], by triv⟩
  | containsValue v =>
    simp only [step, S.step]
    exact ⟨h, by rw [any_congr_mem _ (mem_entries_iff_abs h)], by triv⟩
  | firstKey =>
    simp only [step, S.step]
    refine ⟨h, ?_, by triv⟩
    have := abs_keys h
    simp only [AL.keys] at this
    rw [← this, List.head?_map]; try rfl
  | lastKey =>
    simp only [step, S.step]
    refine ⟨h, ?_, by triv⟩
    have := abs_keys h
    simp only [AL.keys] at this
    rw [← this, List.getLast?_map]; try rfl
  | firstValue =>
    simp only [step, S.step, get]
    refine ⟨h, ?_, by triv⟩
    have : (abs hash m).ents.head? = m.order.head?.bind (fun k => (m.tab.get hash k).map (fun v => (k, v))) := by
      simp only [abs, entries_eq]; exact head?_absL h.allSome
    rw [this]
    cases m.order.head? with
    | none => rfl
    | some k => simp only [Option.bind_some]; cases hg : m.tab.get hash k <;> simp [get, hg]
  | lastValue =>
    simp only [step, S.step, get]
    refine ⟨h, ?_, by triv⟩
    have : (abs hash m).ents.getLast? = m.order.getLast?.bind (fun k => (m.tab.get hash k).map (fun v => (k, v))) := by
      simp only [abs, entries_eq]; exact getLast?_absL h.allSome
    rw [this]
    cases m.order.getLast? with
    | none => rfl
    | some k => simp only [Option.bind_some]; cases hg : m.tab.get hash k <;> simp [get, hg]
  | remove k =>
    obtain ⟨hi, ho, he, hm, _⟩ := remove_refines h k
    simp only [step, S.step, S.remove]
    exact ⟨hi, by rw [ho], abs_mk he hm⟩
  | removeFirst =>
    simp only [step, S.step]
    cases ho : m.order with
    | nil =>
      have hc : m.count = 0 := by rw [h.count, ho]; rfl
      have he : (abs hash m).ents = [] := by simp [abs, entries_eq, ho]
      simp only [hc, if_true, he]
      exact ⟨h, by triv, by triv⟩
    | cons k t =>
      have hc : m.count ≠ 0 := by rw [h.count, ho]; simp
      obtain ⟨w, hw, habs, hev⟩ := abs_of_head h ho
      obtain ⟨hi, hout, he, hm, _⟩ := remove_refines h k
      simp only [hc, if_false, List.head?_cons, habs]
      refine ⟨hi, ?_, abs_mk (by rw [he, hev]) hm⟩
      rw [hout, abs_get h, hw]; try rfl
  | removeLast =>
    simp only [step, S.step]
    cases ho : m.order.getLast? with
    | none =>
      have ho' : m.order = [] := List.getLast?_eq_none_iff.mp ho
      have hc : m.count = 0 := by rw [h.count, ho']; rfl
      have he : (abs hash m).ents = [] := by simp [abs, entries_eq, ho']
      simp only [hc, if_true, he, List.getLast?_nil]
      exact ⟨h, by triv, by triv⟩
    | some k =>
      have hk : k ∈ m.order := List.mem_of_getLast? ho
      have hc : m.count ≠ 0 := by
        rw [h.count]; have := List.length_pos_of_mem hk; omega
      obtain ⟨w, hw, hlast, hev⟩ := abs_of_last h ho
      obtain ⟨hi, hout, he, hm, _⟩ := remove_refines h k
      simp only [hc, if_false, hlast]
      refine ⟨hi, ?_, abs_mk (by rw [he, hev]) hm⟩
      rw [hout, abs_get h, hw]; try rfl
  | clear =>
    simp only [step, S.step]
    exact ⟨Inv.clear h, by triv, by rw [abs_clear]; try rfl⟩
  | size =>
    simp only [step, S.step]; exact ⟨h, by rw [abs_length h], by triv⟩
  | isEmpty =>
    simp only [step, S.step]
    refine ⟨h, ?_, by triv⟩
    have := abs_length h
    cases he : (abs hash m).ents with
    | nil => rw [he] at this; simp at this; simp [← this]
    | cons a t =>
      rw [he] at this; simp at this
      have : m.count ≠ 0 := by omega
      simp [this]
  | isFull =>
    simp only [step, S.step]; exact ⟨h, by rw [isFull_refines h], by triv⟩
  | setMax n =>
    simp only [step, S.step]; exact ⟨Inv.setMax h n, by triv, by triv⟩
  | sort lt =>
    obtain ⟨hi, he⟩ := sort_refines (thr := thr) h lt
    simp only [step, S.step]; exact ⟨hi, by triv, by rw [he]; try rfl⟩
  | keys =>
    simp only [step, S.step]
    refine ⟨h, ?_, by triv⟩
    have := abs_keys h
    simp only [AL.keys] at this
    rw [← this]; try rfl
  | values =>
    simp only [step, S.step, get]
    refine ⟨h, ?_, by triv⟩
    have := map_snd_absL (m.tab.get hash) m.order
    simp only [abs, entries_eq]
    show Out.vals (List.filterMap (m.tab.get hash) m.order) = _
    rw [← this]; try rfl
  | entries =>
    simp only [step, S.step]; exact ⟨h, by triv, by triv⟩

/-- every history: the CodeModel's outputs are the Spec's outputs -/
theorem refine_run (thr : Nat → Nat) (ops : List (Op K V)) {m : LMap K V} (h : Inv hash d m) :
    Inv hash d (LMap.run hash thr d m ops).1 ∧
    (LMap.run hash thr d m ops).2 = (S.run d (abs hash m) ops).2 ∧
    abs hash (LMap.run hash thr d m ops).1 = (S.run d (abs hash m) ops).1 := by
  induction ops generalizing m with
  | nil => exact ⟨h, rfl, rfl⟩
  | cons op ops ih =>
    obtain ⟨hi, ho, he⟩ := refine_step thr h op
    obtain ⟨i2, o2, e2⟩ := ih hi
    simp only [run, S.run]
    rw [← he]
    exact ⟨i2, by rw [ho, o2], e2⟩

end LMap
end HMap
