/-
  Golib.HMap.Plain — C12: the unordered hash maps / sets IntIntMap, IntKeyMap, IntSet, StringSet.

  * `PS` / `PS.step` — the Spec: a finite map (association list with distinct keys; the list order is
    *not* observable: enumerations are compared as multisets, see `Golib.Props.C12`).
  * `PMap` / `PMap.step` — the CodeModel: the bucket table of `Golib.HMap.Table` + `count`,
    `threshold`, `max` (IntIntMap has `max`/`IsFull`, its `put` ignores it), following the Go methods.

  `PDesc.addFreshNew` is the recorded deviation D17 (IntIntMap.Add returns the *new* value for a
  fresh key and the *old* one for an existing key).
-/
import Golib.HMap.Table
import Golib.HMap.Spec

namespace HMap

structure PDesc (K V : Type) extends Desc K V where
  addFreshNew : Bool := false

inductive POp (K V : Type)
  | put (k : K) (v : V) | add (k : K) (v : V) | addIfExist (k : K) (v : V)
  | get (k : K) | containsKey (k : K) | containsValue (v : V)
  | remove (k : K) | clear | size | isEmpty | isFull | setMax (n : Nat)
  | putAll (l : List (K × V)) | sort (lt : K → K → Bool)
  | keys | values | entries

/-! ### Spec -/
structure PS (K V : Type) where
  ents : List (K × V) := []
  max : Nat := 0

namespace PS
variable {K V : Type} [DecidableEq K] [DecidableEq V]

def putWith (s : PS K V) (k : K) (newv : Option V → V) : PS K V × Option V :=
  match AL.get s.ents k with
  | some old => ({ s with ents := AL.set s.ents k (newv (some old)) }, some old)
  | none => ({ s with ents := s.ents ++ [(k, newv none)] }, none)

def put (d : PDesc K V) (s : PS K V) (k : K) (v : V) : PS K V × Option V :=
  if d.refuse k then (s, none) else s.putWith k (fun _ => v)

def add (d : PDesc K V) (s : PS K V) (k : K) (v : V) : PS K V × Option V :=
  if d.refuse k then (s, none) else
  let r := s.putWith k (S.addv d.toDesc v)
  (r.1, match r.2 with
        | some old => some old
        | none => if d.addFreshNew then some v else none)

def addIfExist (d : PDesc K V) (s : PS K V) (k : K) (v : V) : PS K V × Option V :=
  match AL.get s.ents k with
  | some old => ({ s with ents := AL.set s.ents k (d.comb old v) }, some (d.comb old v))
  | none => (s, none)

def step (d : PDesc K V) (s : PS K V) : POp K V → PS K V × Out K V
  | .put k v => let r := put d s k v; (r.1, .ofVal r.2)
  | .add k v => let r := add d s k v; (r.1, .ofVal r.2)
  | .addIfExist k v => let r := addIfExist d s k v; (r.1, .ofVal r.2)
  | .get k => (s, .ofVal (AL.get s.ents k))
  | .containsKey k => (s, .bool (!d.blind k && (AL.get s.ents k).isSome))
  | .containsValue v => (s, .bool (s.ents.any (fun e => d.veq e.2 v)))
  | .remove k => ({ s with ents := AL.erase s.ents k }, .ofVal (AL.get s.ents k))
  | .clear => ({ s with ents := [] }, .unit)
  | .size => (s, .nat s.ents.length)
  | .isEmpty => (s, .bool s.ents.isEmpty)
  | .isFull => (s, .bool (decide (0 < s.max ∧ s.max ≤ s.ents.length)))
  | .setMax n => ({ s with max := n }, .unit)
  | .putAll l => (l.foldl (fun acc e => (put d acc e.1 e.2).1) s, .unit)
  | .sort _ => (s, .unit)
  | .keys => (s, .keys (s.ents.map (·.1)))
  | .values => (s, .vals (s.ents.map (·.2)))
  | .entries => (s, .ents s.ents)

end PS

/-! ### CodeModel -/
structure PMap (K V : Type) where
  tab : Table K V
  count : Nat := 0
  threshold : Nat
  max : Nat := 0

namespace PMap
variable {K V : Type} [DecidableEq K] [DecidableEq V]
variable (hash : K → Nat) (thr : Nat → Nat)

def new (cap : Nat) : PMap K V :=
  let c := if cap = 0 then 1 else cap
  { tab := Table.new c, threshold := thr c }

def get (m : PMap K V) (k : K) : Option V := m.tab.get hash k

def grow (m : PMap K V) : PMap K V :=
  if m.threshold ≤ m.count then
    let t := m.tab.rehash hash
    { m with tab := t, threshold := thr t.cap }
  else m

def putWith (m : PMap K V) (k : K) (newv : Option V → V) : PMap K V × Option V :=
  match m.tab.get hash k with
  | some old => ({ m with tab := m.tab.setExisting hash k (newv (some old)) }, some old)
  | none =>
    let m2 := m.grow hash thr
    ({ m2 with tab := m2.tab.insertNew hash k (newv none), count := m2.count + 1 }, none)

def put (d : PDesc K V) (m : PMap K V) (k : K) (v : V) : PMap K V × Option V :=
  if d.refuse k then (m, none) else m.putWith hash thr k (fun _ => v)

def add (d : PDesc K V) (m : PMap K V) (k : K) (v : V) : PMap K V × Option V :=
  if d.refuse k then (m, none) else
  let r := m.putWith hash thr k (S.addv d.toDesc v)
  (r.1, match r.2 with
        | some old => some old
        | none => if d.addFreshNew then some v else none)

def addIfExist (d : PDesc K V) (m : PMap K V) (k : K) (v : V) : PMap K V × Option V :=
  match m.tab.get hash k with
  | some old => ({ m with tab := m.tab.setExisting hash k (d.comb old v) }, some (d.comb old v))
  | none => (m, none)

def remove (m : PMap K V) (k : K) : PMap K V × Option V :=
  match m.tab.get hash k with
  | some v => ({ m with tab := m.tab.del hash k, count := m.count - 1 }, some v)
  | none => (m, none)

def clear (m : PMap K V) : PMap K V := { m with tab := m.tab.clear, count := 0 }

/-- IntIntMap.Sort: collect the entries, sort, clear, re-put -/
def sort (d : PDesc K V) (m : PMap K V) (lt : K → K → Bool) : PMap K V :=
  (AL.sortEnts lt m.tab.entries).foldl (fun acc e => (acc.put hash thr d e.1 e.2).1) m.clear

def step (d : PDesc K V) (m : PMap K V) : POp K V → PMap K V × Out K V
  | .put k v => let r := m.put hash thr d k v; (r.1, .ofVal r.2)
  | .add k v => let r := m.add hash thr d k v; (r.1, .ofVal r.2)
  | .addIfExist k v => let r := m.addIfExist hash d k v; (r.1, .ofVal r.2)
  | .get k => (m, .ofVal (m.get hash k))
  | .containsKey k => (m, .bool (!d.blind k && (m.get hash k).isSome))
  | .containsValue v => (m, .bool (m.tab.entries.any (fun e => d.veq e.2 v)))
  | .remove k => let r := m.remove hash k; (r.1, .ofVal r.2)
  | .clear => (m.clear, .unit)
  | .size => (m, .nat m.count)
  | .isEmpty => (m, .bool (m.count == 0))
  | .isFull => (m, .bool (decide (0 < m.max ∧ m.max ≤ m.count)))
  | .setMax n => ({ m with max := n }, .unit)
  | .putAll l => (l.foldl (fun acc e => (acc.put hash thr d e.1 e.2).1) m, .unit)
  | .sort lt => (m.sort hash thr d lt, .unit)
  | .keys => (m, .keys (m.tab.entries.map (·.1)))
  | .values => (m, .vals (m.tab.entries.map (·.2)))
  | .entries => (m, .ents m.tab.entries)

end PMap
end HMap
