/-
  Golib.HMap.Chain — one hash chain (a bucket of /repo/util/hmap/*.go): a singly linked list of
  (key, value) cells, head first.  `chainGet` is the `for e := tab[index]; e != nil; e = e.next`
  lookup loop, `chainSet` the in-place value update of the found cell, `chainDel` the
  `prev.next = e.next` unlink of the first matching cell.

  Definitions only (the drivers import this file); lemmas are in Golib.HMap.ChainLemmas.
-/

namespace HMap

abbrev Chain (K V : Type) := List (K × V)

variable {K V : Type} [DecidableEq K]

def chainGet : Chain K V → K → Option V
  | [], _ => none
  | (a, b) :: t, k => if a = k then some b else chainGet t k

/-- replace the value of the first cell whose key is `k` (no change when absent) -/
def chainSet : Chain K V → K → V → Chain K V
  | [], _, _ => []
  | (a, b) :: t, k, v => if a = k then (a, v) :: t else (a, b) :: chainSet t k v

/-- unlink the first cell whose key is `k` -/
def chainDel : Chain K V → K → Chain K V
  | [], _ => []
  | (a, b) :: t, k => if a = k then t else (a, b) :: chainDel t k

end HMap
