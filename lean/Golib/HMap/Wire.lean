/-
  Golib.HMap.Wire — the serialized form of IntIntMap (`ToBytes` / `ToObject`):

      WriteDecimal(size);  for every entry in enumeration order: WriteDecimal(key) WriteDecimal(value)
      cnt := ReadDecimal(); cnt times: key := ReadDecimal(); value := ReadDecimal(); this.Put(key, value)

  built from the decimal codec of `Golib.Prim.Codec` (property C01).
-/
import Golib.Prim.Codec
import Golib.HMap.Plain
import Golib.HMap.Linked

namespace HMap
open Prim

def encPair (e : Int × Int) : Bytes := encDecimal e.1 ++ encDecimal e.2

def decPair : P (Int × Int) := P.bind decDecimal (fun k => P.bind decDecimal (fun v => .pure (k, v)))

def pairsToBytes (es : List (Int × Int)) : Bytes := encDecimal es.length ++ encMany encPair es

def pairsFromBytes : P (List (Int × Int)) :=
  P.bind decDecimal (fun n => if n < 0 then .pure [] else decMany decPair n.toNat)

/-- Int/LongFloatLinkedMap: `WriteDecimal(key); WriteFloat(value)` — the value is the 4-byte big-endian IEEE-754 pattern -/
def encPairF (e : Int × Int) : Bytes := encDecimal e.1 ++ beN 4 e.2.toNat

def decPairF : P (Int × Int) := P.bind decDecimal (fun k => P.bind (rdU 4) (fun b => .pure (k, (b : Int))))

def pairsToBytesF (es : List (Int × Int)) : Bytes := encDecimal es.length ++ encMany encPairF es

def pairsFromBytesF : P (List (Int × Int)) :=
  P.bind decDecimal (fun n => if n < 0 then .pure [] else decMany decPairF n.toNat)

namespace LMap
variable (hash : Int → Nat) (thr : Nat → Nat)

/-- `ToBytes` of IntIntLinkedMap / LongLongLinkedMap (`float := false`) and Int/LongFloatLinkedMap (`float := true`):
    the count, then every entry in iteration order -/
def toBytes (float : Bool) (m : LMap Int Int) : Bytes :=
  if float then pairsToBytesF (m.entries hash) else pairsToBytes (m.entries hash)

/-- `ToObject`: decode and `Put` (mode last) every pair into `m` -/
def toObject (float : Bool) (d : Desc Int Int) (m : LMap Int Int) (bs : Bytes) : LMap Int Int :=
  match P.run (if float then pairsFromBytesF else pairsFromBytes) bs with
  | some (l, _) => l.foldl (fun acc e => (acc.put hash thr d .last e.1 e.2).1) m
  | none => m

end LMap

namespace PMap
variable (hash : Int → Nat) (thr : Nat → Nat)

def toBytes (m : PMap Int Int) : Bytes := pairsToBytes m.tab.entries

/-- `ToObject`: decode and `Put` every pair into `m` (a failed decode leaves `m` unchanged in the
    model; the Go code panics — short input is C04's subject, not this property's) -/
def toObject (d : PDesc Int Int) (m : PMap Int Int) (bs : Bytes) : PMap Int Int :=
  match P.run pairsFromBytes bs with
  | some (l, _) => l.foldl (fun acc e => (acc.put hash thr d e.1 e.2).1) m
  | none => m

end PMap
end HMap
