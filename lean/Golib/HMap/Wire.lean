/-
  Golib.HMap.Wire — the serialized form of IntIntMap (`ToBytes` / `ToObject`):

      WriteDecimal(size);  for every entry in enumeration order: WriteDecimal(key) WriteDecimal(value)
      cnt := ReadDecimal(); cnt times: key := ReadDecimal(); value := ReadDecimal(); this.Put(key, value)

  built from the decimal codec of `Golib.Prim.Codec` (property C01).
-/
import Golib.Prim.Codec
import Golib.HMap.Plain

namespace HMap
open Prim

def encPair (e : Int × Int) : Bytes := encDecimal e.1 ++ encDecimal e.2

def decPair : P (Int × Int) := P.bind decDecimal (fun k => P.bind decDecimal (fun v => .pure (k, v)))

def pairsToBytes (es : List (Int × Int)) : Bytes := encDecimal es.length ++ encMany encPair es

def pairsFromBytes : P (List (Int × Int)) :=
  P.bind decDecimal (fun n => if n < 0 then .pure [] else decMany decPair n.toNat)

namespace PMap
variable (hash : Int → Nat) (thr : Nat → Nat)

def toBytes (m : PMap Int Int) : Bytes := pairsToBytes m.tab.entries

/-- `ToObject`: decode and `Put` every pair into `m` (a failed decode leaves `m` unchanged in the
    model; the Go code panics — short input is C04's subject, not this property's) -/
def toObject (d : PDesc Int Int) (m : PMap Int Int) (bs : Bytes) : PMap Int Int :=
  match P.run pairsFromBytes bs with
  | some (l, _) => l.foldl (fun acc e => (acc.put hash thr d e.1 e.2).1) m
  | none => m

end PMap
end HMap
