/-
  Golib.HMap.ChainLemmas — facts about one hash chain.
-/
import Golib.HMap.Chain

namespace HMap
variable {K V : Type} [DecidableEq K]

@[simp] theorem chainGet_nil (k : K) : chainGet ([] : Chain K V) k = none := rfl

theorem chainGet_cons (a : K) (b : V) (t : Chain K V) (k : K) :
    chainGet ((a, b) :: t) k = if a = k then some b else chainGet t k := rfl

theorem chainGet_some_mem {c : Chain K V} {k : K} {v : V} (h : chainGet c k = some v) : (k, v) ∈ c := by
  induction c with
  | nil => simp at h
  | cons e t ih =>
    obtain ⟨a, b⟩ := e
    rw [chainGet_cons] at h
    by_cases hak : a = k
    · subst hak; simp at h; subst h; simp
    · simp [hak] at h; exact List.mem_cons_of_mem _ (ih h)

theorem chainGet_none_iff {c : Chain K V} {k : K} : chainGet c k = none ↔ k ∉ c.map Prod.fst := by
  induction c with
  | nil => simp
  | cons e t ih =>
    obtain ⟨a, b⟩ := e
    rw [chainGet_cons]
    by_cases hak : a = k
    · subst hak; simp
    · simp only [hak, if_false, List.map_cons, List.mem_cons]
      rw [ih]
      constructor
      · intro h hh; rcases hh with hh | hh
        · exact hak hh.symm
        · exact h hh
      · intro h hh; exact h (Or.inr hh)

theorem chainGet_isSome_iff {c : Chain K V} {k : K} : (chainGet c k).isSome ↔ k ∈ c.map Prod.fst := by
  have := chainGet_none_iff (c := c) (k := k)
  cases h : chainGet c k with
  | none => simp [h] at this ⊢; exact this
  | some v =>
    simp only [Option.isSome_some, true_iff]
    have := chainGet_some_mem h
    exact List.mem_map.mpr ⟨(k, v), this, rfl⟩

/-- with distinct keys a chain is a finite map: lookup is membership -/
theorem chainGet_eq_some_iff {c : Chain K V} (hn : (c.map Prod.fst).Nodup) {k : K} {v : V} :
    chainGet c k = some v ↔ (k, v) ∈ c := by
  constructor
  · exact chainGet_some_mem
  · intro h
    induction c with
    | nil => simp at h
    | cons e t ih =>
      obtain ⟨a, b⟩ := e
      rw [chainGet_cons]
      simp only [List.map_cons, List.nodup_cons] at hn
      rcases List.mem_cons.mp h with h | h
      · cases h; simp
      · have : a ≠ k := by
          intro hak; subst hak
          exact hn.1 (List.mem_map.mpr ⟨(a, v), h, rfl⟩)
        simp [this, ih hn.2 h]

theorem chainSet_keys (c : Chain K V) (k : K) (v : V) : (chainSet c k v).map Prod.fst = c.map Prod.fst := by
  induction c with
  | nil => rfl
  | cons e t ih =>
    obtain ⟨a, b⟩ := e
    simp only [chainSet]
    split <;> simp [ih]

theorem chainGet_set (c : Chain K V) (k k' : K) (v : V) (h : (chainGet c k).isSome) :
    chainGet (chainSet c k v) k' = if k = k' then some v else chainGet c k' := by
  induction c with
  | nil => simp at h
  | cons e t ih =>
    obtain ⟨a, b⟩ := e
    simp only [chainSet]
    rw [chainGet_cons] at h
    by_cases hak : a = k
    · subst hak
      simp only [if_true, chainGet_cons]
      by_cases hk : a = k' <;> simp [hk]
    · simp only [hak, if_false] at h ⊢
      rw [chainGet_cons, chainGet_cons, ih h]
      by_cases hak' : a = k'
      · subst hak'
        have : ¬ k = a := fun e => hak e.symm
        simp [this]
      · simp [hak']

theorem chainDel_sublist (c : Chain K V) (k : K) : (chainDel c k).Sublist c := by
  induction c with
  | nil => exact List.Sublist.refl _
  | cons e t ih =>
    obtain ⟨a, b⟩ := e
    simp only [chainDel]
    split
    · exact List.sublist_cons_self _ _
    · exact List.Sublist.cons_cons _ ih

theorem chainDel_nodup {c : Chain K V} (k : K) (hn : (c.map Prod.fst).Nodup) :
    ((chainDel c k).map Prod.fst).Nodup :=
  List.Nodup.sublist ((chainDel_sublist c k).map _) hn

theorem chainGet_del (c : Chain K V) (k k' : K) (hn : (c.map Prod.fst).Nodup) :
    chainGet (chainDel c k) k' = if k = k' then none else chainGet c k' := by
  induction c with
  | nil => simp [chainDel]
  | cons e t ih =>
    obtain ⟨a, b⟩ := e
    simp only [List.map_cons, List.nodup_cons] at hn
    simp only [chainDel]
    by_cases hak : a = k
    · subst hak
      simp only [if_true, chainGet_cons]
      by_cases hk : a = k'
      · subst hk; simp; exact chainGet_none_iff.mpr hn.1
      · simp [hk]
    · simp only [hak, if_false, chainGet_cons]
      rw [ih hn.2]
      by_cases hak' : a = k'
      · subst hak'
        have : ¬ k = a := fun e => hak e.symm
        simp [this]
      · simp [hak']

theorem mem_chainDel {c : Chain K V} {e : K × V} {k : K} (h : e ∈ chainDel c k) : e ∈ c :=
  (chainDel_sublist c k).subset h

theorem mem_chainSet_fst {c : Chain K V} {e : K × V} {k : K} {v : V} (h : e ∈ chainSet c k v) :
    e.1 ∈ c.map Prod.fst := by
  have : e.1 ∈ (chainSet c k v).map Prod.fst := List.mem_map.mpr ⟨e, h, rfl⟩
  rwa [chainSet_keys] at this

end HMap
