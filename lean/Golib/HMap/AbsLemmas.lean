/-
  Golib.HMap.AbsLemmas — the abstraction "order list + lookup function ↦ association list".

  `absL g o` lists `(k, g k)` for the keys `k` of `o` (in that order) — what the linked enumerators
  produce when they follow `link_next` and read the cell of each key.
-/
import Golib.HMap.SpecLemmas

set_option linter.unusedSectionVars false
set_option linter.unusedSimpArgs false

namespace HMap
variable {K V : Type} [DecidableEq K]

def absL (g : K → Option V) (o : List K) : List (K × V) :=
  o.filterMap (fun k => (g k).map (fun v => (k, v)))

@[simp] theorem absL_nil (g : K → Option V) : absL g [] = [] := rfl

theorem absL_cons_some (g : K → Option V) (k : K) (o : List K) (v : V) (h : g k = some v) :
    absL g (k :: o) = (k, v) :: absL g o := by
  simp [absL, List.filterMap_cons, h]

theorem absL_cons_none (g : K → Option V) (k : K) (o : List K) (h : g k = none) :
    absL g (k :: o) = absL g o := by
  simp [absL, List.filterMap_cons, h]

theorem absL_append (g : K → Option V) (o₁ o₂ : List K) : absL g (o₁ ++ o₂) = absL g o₁ ++ absL g o₂ := by
  simp [absL, List.filterMap_append]

theorem absL_single_some (g : K → Option V) (k : K) (v : V) (h : g k = some v) : absL g [k] = [(k, v)] := by
  simp [absL, List.filterMap_cons, h]

theorem absL_congr {g g' : K → Option V} {o : List K} (h : ∀ k ∈ o, g k = g' k) : absL g o = absL g' o := by
  unfold absL
  induction o with
  | nil => rfl
  | cons a t ih =>
    simp only [List.filterMap_cons, h a (by simp)]
    rw [ih (fun k hk => h k (by simp [hk]))]

theorem mem_absL {g : K → Option V} {o : List K} {k : K} {v : V} : (k, v) ∈ absL g o ↔ k ∈ o ∧ g k = some v := by
  unfold absL
  simp only [List.mem_filterMap, Option.map_eq_some_iff, Prod.mk.injEq]
  constructor
  · rintro ⟨a, ha, w, hw, rfl, rfl⟩; exact ⟨ha, hw⟩
  · rintro ⟨h1, h2⟩; exact ⟨k, h1, v, h2, rfl, rfl⟩

theorem keys_absL {g : K → Option V} {o : List K} (h : ∀ k ∈ o, (g k).isSome) : AL.keys (absL g o) = o := by
  induction o with
  | nil => rfl
  | cons a t ih =>
    obtain ⟨v, hv⟩ := Option.isSome_iff_exists.mp (h a (by simp))
    rw [absL_cons_some g a t v hv]
    simp only [AL.keys, List.map_cons]
    have := ih (fun k hk => h k (by simp [hk]))
    simp only [AL.keys] at this
    rw [this]

theorem keys_absL_sublist (g : K → Option V) (o : List K) : (AL.keys (absL g o)).Sublist o := by
  induction o with
  | nil => exact List.Sublist.refl _
  | cons a t ih =>
    cases hv : g a with
    | none => rw [absL_cons_none g a t hv]; exact List.Sublist.cons _ ih
    | some v => rw [absL_cons_some g a t v hv]; simp only [AL.keys, List.map_cons]; exact List.Sublist.cons_cons _ ih

theorem length_absL {g : K → Option V} {o : List K} (h : ∀ k ∈ o, (g k).isSome) : (absL g o).length = o.length := by
  have := congrArg List.length (keys_absL h)
  simpa [AL.keys] using this

theorem get_absL {g : K → Option V} {o : List K} (k : K) :
    AL.get (absL g o) k = if k ∈ o then g k else none := by
  induction o with
  | nil => simp
  | cons a t ih =>
    cases hv : g a with
    | none =>
      rw [absL_cons_none g a t hv, ih]
      by_cases hak : a = k
      · subst hak; simp [hv]
      · have : ¬ k = a := fun e => hak e.symm
        simp [this]
    | some v =>
      rw [absL_cons_some g a t v hv, AL.get_cons, ih]
      by_cases hak : a = k
      · subst hak; simp [hv]
      · have : ¬ k = a := fun e => hak e.symm
        simp [hak, this]

theorem erase_absL (g : K → Option V) {o : List K} (hn : o.Nodup) (k : K) :
    AL.erase (absL g o) k = absL g (o.erase k) := by
  induction o with
  | nil => simp [AL.erase]
  | cons a t ih =>
    simp only [List.nodup_cons] at hn
    by_cases hak : a = k
    · subst hak
      rw [List.erase_cons_head]
      have hnot : a ∉ AL.keys (absL g t) := fun h => hn.1 ((keys_absL_sublist g t).subset h)
      cases hv : g a with
      | none => rw [absL_cons_none g a t hv]; exact AL.erase_of_not_mem hnot
      | some v =>
        rw [absL_cons_some g a t v hv]
        have := AL.erase_of_not_mem hnot
        unfold AL.erase at this ⊢
        simp [List.filter_cons, this]
    · have hne : (a == k) = false := by simp [hak]
      rw [List.erase_cons_tail (by simp [hak])]
      cases hv : g a with
      | none => rw [absL_cons_none g a t hv, absL_cons_none g a _ hv]; exact ih hn.2
      | some v =>
        rw [absL_cons_some g a t v hv, absL_cons_some g a _ v hv]
        have := ih hn.2
        unfold AL.erase at this ⊢
        simp [List.filter_cons, hak, this]

theorem set_absL {g : K → Option V} {o : List K} (k : K) (v : V) (h : ∀ x ∈ o, (g x).isSome) :
    AL.set (absL g o) k v = absL (fun x => if x = k then some v else g x) o := by
  induction o with
  | nil => simp [AL.set]
  | cons a t ih =>
    obtain ⟨w, hw⟩ := Option.isSome_iff_exists.mp (h a (by simp))
    rw [absL_cons_some g a t w hw]
    have iht := ih (fun x hx => h x (by simp [hx]))
    unfold AL.set at iht ⊢
    simp only [List.map_cons, iht]
    by_cases hak : a = k
    · subst hak
      rw [absL_cons_some _ a t v (by simp)]
      simp
    · rw [absL_cons_some _ a t w (by simp [hak, hw])]
      simp [hak]

theorem head?_absL {g : K → Option V} {o : List K} (h : ∀ k ∈ o, (g k).isSome) :
    (absL g o).head? = o.head?.bind (fun k => (g k).map (fun v => (k, v))) := by
  cases o with
  | nil => rfl
  | cons a t =>
    obtain ⟨w, hw⟩ := Option.isSome_iff_exists.mp (h a (by simp))
    rw [absL_cons_some g a t w hw]; simp [hw]

theorem getLast?_absL {g : K → Option V} {o : List K} (h : ∀ k ∈ o, (g k).isSome) :
    (absL g o).getLast? = o.getLast?.bind (fun k => (g k).map (fun v => (k, v))) := by
  rcases List.eq_nil_or_concat o with rfl | ⟨o', a, rfl⟩
  · rfl
  · obtain ⟨w, hw⟩ := Option.isSome_iff_exists.mp (h a (by simp))
    rw [List.concat_eq_append, absL_append, absL_single_some g a w hw]
    simp [hw]

theorem dropLast_absL {g : K → Option V} {o : List K} (h : ∀ k ∈ o, (g k).isSome) :
    (absL g o).dropLast = absL g o.dropLast := by
  rcases List.eq_nil_or_concat o with rfl | ⟨o', a, rfl⟩
  · rfl
  · obtain ⟨w, hw⟩ := Option.isSome_iff_exists.mp (h a (by simp))
    rw [List.concat_eq_append, absL_append, absL_single_some g a w hw]
    simp

theorem map_snd_absL (g : K → Option V) (o : List K) : (absL g o).map Prod.snd = o.filterMap g := by
  induction o with
  | nil => rfl
  | cons a t ih =>
    cases hv : g a with
    | none => rw [absL_cons_none g a t hv, ih]; simp [List.filterMap_cons, hv]
    | some v => rw [absL_cons_some g a t v hv]; simp [List.filterMap_cons, hv, ih]

/-! list facts used for the order list -/

theorem erase_append_last {o : List K} {k : K} (h : k ∉ o) : (o ++ [k]).erase k = o := by
  induction o with
  | nil => simp
  | cons a t ih =>
    have hak : a ≠ k := fun e => h (by simp [e])
    have ht : k ∉ t := fun e => h (by simp [e])
    rw [List.cons_append, List.erase_cons_tail (by simp [hak]), ih ht]

theorem eq_dropLast_append_of_getLast? {α : Type} {o : List α} {k : α} (h : o.getLast? = some k) :
    o = o.dropLast ++ [k] := by
  obtain ⟨ys, rfl⟩ := List.getLast?_eq_some_iff.mp h
  simp

theorem nodup_concat_iff {o : List K} {k : K} : (o ++ [k]).Nodup ↔ o.Nodup ∧ k ∉ o := by
  rw [List.nodup_append]
  constructor
  · rintro ⟨h1, _, h3⟩
    exact ⟨h1, fun hk => h3 k hk k (by simp) rfl⟩
  · rintro ⟨h1, h2⟩
    refine ⟨h1, by simp, ?_⟩
    intro a ha b hb
    simp at hb; subst hb
    intro e; subst e; exact h2 ha

end HMap
