/-
  Golib.HMap.PlainValue — C12: the plain maps treat a stored value as opaque.

  `Table.mapV f` / `PMap.mapV f` relabel every stored value by an arbitrary function `f : V → W` (injective or not; `V`
  and `W` are arbitrary types — no equality on values is assumed anywhere).  Every operation that does not take a
  value-comparison as a parameter (put, putAll, get, containsKey, remove, clear, size, growth) commutes with the
  relabelling: the map never inspects, compares or branches on a value (in Go: `interface{}` values of any dynamic
  type, comparable or not, are stored and handed back as they are).  Proof file only (not imported by the driver).
-/
import Golib.HMap.PlainLemmas

set_option linter.unusedSectionVars false

namespace HMap

variable {K V W : Type} [DecidableEq K]

def cellMap (f : V → W) (e : K × V) : K × W := (e.1, f e.2)

theorem chainGet_map (f : V → W) (c : Chain K V) (k : K) :
    chainGet (c.map (cellMap f)) k = (chainGet c k).map f := by
  induction c with
  | nil => rfl
  | cons e t ih =>
    obtain ⟨a, b⟩ := e
    simp only [List.map_cons, cellMap, chainGet]
    by_cases h : a = k
    · simp [h]
    · simpa [h, cellMap] using ih

theorem chainSet_map (f : V → W) (c : Chain K V) (k : K) (v : V) :
    chainSet (c.map (cellMap f)) k (f v) = (chainSet c k v).map (cellMap f) := by
  induction c with
  | nil => rfl
  | cons e t ih =>
    obtain ⟨a, b⟩ := e
    simp only [List.map_cons, cellMap, chainSet]
    by_cases h : a = k
    · simp [h, cellMap]
    · simpa [h, cellMap] using ih

theorem chainDel_map (f : V → W) (c : Chain K V) (k : K) :
    chainDel (c.map (cellMap f)) k = (chainDel c k).map (cellMap f) := by
  induction c with
  | nil => rfl
  | cons e t ih =>
    obtain ⟨a, b⟩ := e
    simp only [List.map_cons, cellMap, chainDel]
    by_cases h : a = k
    · simp [h, cellMap]
    · simpa [h, cellMap] using ih

namespace Table

def mapV (f : V → W) (t : Table K V) : Table K W := ⟨t.arr.map (fun c => c.map (cellMap f))⟩

@[simp] theorem cap_mapV (f : V → W) (t : Table K V) : (t.mapV f).cap = t.cap := by simp [mapV, cap]

theorem bucket_mapV (f : V → W) (t : Table K V) (i : Nat) : (t.mapV f).bucket i = (t.bucket i).map (cellMap f) := by
  unfold mapV bucket
  by_cases h : i < t.arr.size
  · simp [Array.getD, h]
  · simp [Array.getD, h]

theorem setBucket_mapV (f : V → W) (t : Table K V) (i : Nat) (c : Chain K V) :
    (t.setBucket i c).mapV f = (t.mapV f).setBucket i (c.map (cellMap f)) := by
  simp [mapV, setBucket, Array.map_setIfInBounds]

theorem new_mapV (f : V → W) (n : Nat) : (Table.new n : Table K V).mapV f = Table.new n := by
  simp [mapV, new, Array.map_replicate]

variable (hash : K → Nat)

@[simp] theorem idx_mapV (f : V → W) (t : Table K V) (k : K) : (t.mapV f).idx hash k = t.idx hash k := by simp [idx]

theorem get_mapV (f : V → W) (t : Table K V) (k : K) : (t.mapV f).get hash k = (t.get hash k).map f := by
  simp [get, bucket_mapV, chainGet_map]

theorem setExisting_mapV (f : V → W) (t : Table K V) (k : K) (v : V) :
    (t.mapV f).setExisting hash k (f v) = (t.setExisting hash k v).mapV f := by
  simp [setExisting, setBucket_mapV, bucket_mapV, chainSet_map]

theorem insertNew_mapV (f : V → W) (t : Table K V) (k : K) (v : V) :
    (t.mapV f).insertNew hash k (f v) = (t.insertNew hash k v).mapV f := by
  simp [insertNew, setBucket_mapV, bucket_mapV, cellMap]

theorem del_mapV (f : V → W) (t : Table K V) (k : K) : (t.mapV f).del hash k = (t.del hash k).mapV f := by
  simp [del, setBucket_mapV, bucket_mapV, chainDel_map]

theorem clear_mapV (f : V → W) (t : Table K V) : (t.mapV f).clear = (t.clear).mapV f := by
  simp [clear, new_mapV]

theorem entries_mapV (f : V → W) (t : Table K V) : (t.mapV f).entries = t.entries.map (cellMap f) := by
  simp only [entries, cap_mapV, List.map_flatMap]
  congr 1
  funext i
  exact bucket_mapV f t i

theorem pushCell_mapV (f : V → W) (t : Table K V) (e : K × V) :
    (t.mapV f).pushCell hash (cellMap f e) = (t.pushCell hash e).mapV f := by
  simp [pushCell, setBucket_mapV, bucket_mapV, cellMap]

theorem foldl_pushCell_mapV (f : V → W) (l : List (K × V)) (t : Table K V) :
    (l.map (cellMap f)).foldl (pushCell hash) (t.mapV f) = (l.foldl (pushCell hash) t).mapV f := by
  induction l generalizing t with
  | nil => rfl
  | cons e l ih => simp only [List.map_cons, List.foldl_cons, pushCell_mapV, ih]

theorem rehash_mapV (f : V → W) (t : Table K V) : (t.mapV f).rehash hash = (t.rehash hash).mapV f := by
  unfold rehash
  rw [entries_mapV, cap_mapV, ← new_mapV f, foldl_pushCell_mapV]

end Table

namespace PMap

def mapV (f : V → W) (m : PMap K V) : PMap K W :=
  { tab := m.tab.mapV f, count := m.count, threshold := m.threshold, max := m.max }

variable (hash : K → Nat) (thr : Nat → Nat)

theorem grow_mapV (f : V → W) (m : PMap K V) : (m.mapV f).grow hash thr = (m.grow hash thr).mapV f := by
  unfold grow
  by_cases h : m.threshold ≤ m.count
  · simp [mapV, h, Table.rehash_mapV]
  · simp [mapV, h]

theorem get_mapV (f : V → W) (m : PMap K V) (k : K) : (m.mapV f).get hash k = (m.get hash k).map f := by
  simp [get, mapV, Table.get_mapV]

/-- `put` of a present or an absent key commutes with relabelling the values (the refused keys of both descriptors agree) -/
theorem put_mapV (f : V → W) (d : PDesc K V) (d' : PDesc K W) (hr : ∀ k, d'.refuse k = d.refuse k)
    (m : PMap K V) (k : K) (v : V) :
    (m.mapV f).put hash thr d' k (f v) = ((m.put hash thr d k v).1.mapV f, (m.put hash thr d k v).2.map f) := by
  unfold put
  rw [hr k]
  by_cases hk : d.refuse k = true
  · simp [hk]
  · simp only [hk, Bool.false_eq_true, if_false]
    unfold putWith
    have hg : (m.mapV f).tab.get hash k = (m.tab.get hash k).map f := Table.get_mapV hash f m.tab k
    rw [hg]
    cases hq : m.tab.get hash k with
    | some old =>
      simp only [Option.map_some]
      refine Prod.ext ?_ rfl
      simp [mapV, Table.setExisting_mapV]
    | none =>
      simp only [Option.map_none]
      refine Prod.ext ?_ rfl
      rw [grow_mapV]
      simp [mapV, Table.insertNew_mapV]

theorem remove_mapV (f : V → W) (m : PMap K V) (k : K) :
    (m.mapV f).remove hash k = ((m.remove hash k).1.mapV f, (m.remove hash k).2.map f) := by
  unfold remove
  have hg : (m.mapV f).tab.get hash k = (m.tab.get hash k).map f := Table.get_mapV hash f m.tab k
  rw [hg]
  cases hq : m.tab.get hash k with
  | some old =>
    simp only [Option.map_some]
    refine Prod.ext ?_ rfl
    simp [mapV, Table.del_mapV]
  | none => simp

theorem clear_mapV (f : V → W) (m : PMap K V) : (m.mapV f).clear = (m.clear).mapV f := by
  simp [clear, mapV, Table.clear_mapV]

theorem putAll_mapV (f : V → W) (d : PDesc K V) (d' : PDesc K W) (hr : ∀ k, d'.refuse k = d.refuse k)
    (l : List (K × V)) (m : PMap K V) :
    (l.map (cellMap f)).foldl (fun acc e => (acc.put hash thr d' e.1 e.2).1) (m.mapV f) =
      (l.foldl (fun acc e => (acc.put hash thr d e.1 e.2).1) m).mapV f := by
  induction l generalizing m with
  | nil => rfl
  | cons e l ih =>
    simp only [List.map_cons, List.foldl_cons, cellMap]
    rw [put_mapV hash thr f d d' hr m e.1 e.2]
    exact ih _

end PMap
end HMap
