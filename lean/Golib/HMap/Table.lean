/-
  Golib.HMap.Table — the bucket array shared by all 17 hmap types.

  `arr[i]` is the hash chain of bucket `i`.  Everything is generic in the key type, the value type
  and in the hash function `hash : K → Nat` (an *arbitrary* function — only determinism of the Go
  `hash()` methods is used), so a change of hash function in the Go code cannot invalidate a theorem.

  Go correspondence (every <Type>.go):
    index := this.hash(key) % uint(len(tab))          ↦  idx
    for e := tab[index]; e != nil; e = e.next …       ↦  get  (chainGet)
    e.value = value                                    ↦  setExisting (chainSet)
    e := &Entry{…, next: tab[index]}; tab[index] = e   ↦  insertNew   (head insertion)
    prev.next = e.next / tab[index] = e.next           ↦  del   (chainDel)
    for index := len(tab)-1 …; tab[index] = nil        ↦  clear (capacity is retained)
    rehash(): newCapacity := oldCapacity*2+1; for i := oldCapacity; i > 0; i-- { walk chain i-1,
              head-insert every cell into newMap[hash % newCapacity] }   ↦  rehash
    enumerators of the plain maps (index from len(table) down, chain head→tail)  ↦  entries
-/
import Golib.HMap.Chain

namespace HMap

structure Table (K V : Type) where
  arr : Array (Chain K V)

namespace Table
variable {K V : Type} [DecidableEq K]

def cap (t : Table K V) : Nat := t.arr.size

def bucket (t : Table K V) (i : Nat) : Chain K V := t.arr.getD i []

def setBucket (t : Table K V) (i : Nat) (c : Chain K V) : Table K V := ⟨t.arr.setIfInBounds i c⟩

def new (cap : Nat) : Table K V := ⟨Array.replicate cap []⟩

variable (hash : K → Nat)

def idx (t : Table K V) (k : K) : Nat := hash k % t.cap

def get (t : Table K V) (k : K) : Option V := chainGet (t.bucket (t.idx hash k)) k

def setExisting (t : Table K V) (k : K) (v : V) : Table K V :=
  let i := t.idx hash k
  t.setBucket i (chainSet (t.bucket i) k v)

def insertNew (t : Table K V) (k : K) (v : V) : Table K V :=
  let i := t.idx hash k
  t.setBucket i ((k, v) :: t.bucket i)

def del (t : Table K V) (k : K) : Table K V :=
  let i := t.idx hash k
  t.setBucket i (chainDel (t.bucket i) k)

def clear (t : Table K V) : Table K V := new t.cap

/-- all cells in the order the Go enumerators and `rehash` visit them:
    buckets from the last to the first, each chain head → tail -/
def entries (t : Table K V) : List (K × V) := (List.range t.cap).reverse.flatMap t.bucket

/-- head-insert `e` into bucket `hash e.1 % cap` (the body of the rehash loop) -/
def pushCell (t : Table K V) (e : K × V) : Table K V :=
  let i := hash e.1 % t.cap
  t.setBucket i (e :: t.bucket i)

def rehash (t : Table K V) : Table K V :=
  t.entries.foldl (pushCell hash) (new (2 * t.cap + 1))

end Table
end HMap
