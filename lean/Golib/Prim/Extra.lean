/-
  Golib.Prim.Extra — the rest of io.DataOutputX / io.DataInputX:

    ReadUnsignedInt, ReadUnsignedShort          unsigned reads of signed writes
    ReadByte + ReadDecimalLen(b)                the two-step decimal read used by the pack header
    ReadIntBytesLimit(max)                      length-checked int-length bytes
    ReadDecimalArray / ReadDecimalArrayInt      decimal count, then decimals
    WriteHeader / WriteOneWayHeader / WriteSecureHeader   the buffer becomes the payload of a frame
-/
import Golib.Prim.Ops

namespace Prim

/-! ### unsigned reads of signed writes -/

theorem run_rdU_encI (w : Nat) (v : Int) (r : Bytes) :
    P.run (rdU w) (encI w v ++ r) = some (toU w v, r) := by
  unfold encI; exact run_rdU w (toU w v) r (toU_lt w v)

/-! ### ReadDecimalLen: the caller has already consumed the length byte -/

theorem decDecimal_two_step (bs : Bytes) :
    P.run decDecimal bs = P.run (P.bind (rdU 1) (fun b => decDecimalLen b)) bs := by
  unfold decDecimal rdU
  simp only [P.bind]
  cases bs with
  | nil => simp [P.run_read]
  | cons b r =>
    rw [P.run_read1, P.run_read1]
    simp [unbeN]

/-! ### ReadIntBytesLimit -/

def decBytes32Limit (max : Nat) : P Bytes :=
  P.bind (rdI 4) (fun n => if n < 0 ∨ (max : Int) < n then .fail else rdBytes n.toNat)

theorem run_decBytes32Limit (max : Nat) (bs r : Bytes) (h : bs.length ≤ max) (hm : max < 2147483648) :
    P.run (decBytes32Limit max) (encBytes32 bs ++ r) = some (bs, r) := by
  unfold decBytes32Limit encBytes32
  rw [List.append_assoc, P.run_bind_some _ _ _ _ _ (run_rdI 4 (bs.length : Int) (bs ++ r)
      ((inRange_4 _).mpr (by omega)))]
  have : ¬ ((bs.length : Int) < 0 ∨ (max : Int) < (bs.length : Int)) := by omega
  simp only [this, if_false, Int.toNat_natCast]
  exact run_rdBytes bs r

theorem decBytes32Limit_rejects (max : Nat) (bs r : Bytes) (h : max < bs.length)
    (hl : bs.length < 2147483648) :
    P.run (decBytes32Limit max) (encBytes32 bs ++ r) = none := by
  unfold decBytes32Limit encBytes32
  rw [List.append_assoc, P.run_bind_some _ _ _ _ _ (run_rdI 4 (bs.length : Int) (bs ++ r)
      ((inRange_4 _).mpr (by omega)))]
  split
  · rfl
  · rename_i hh; exact absurd (by omega) hh

/-! ### decimal arrays: decimal count, then decimals -/

def encDecArr (xs : List Int) : Bytes := encDecimal xs.length ++ encMany encDecimal xs
def decDecArr : P (List Int) :=
  P.bind decDecimal (fun n => if n < 0 then .fail else decMany decDecimal n.toNat)

theorem run_decDecArr (xs : List Int) (r : Bytes) (hl : xs.length < 2147483648)
    (h : ∀ x ∈ xs, inRange 8 x) :
    P.run decDecArr (encDecArr xs ++ r) = some (xs, r) := by
  unfold decDecArr encDecArr
  rw [List.append_assoc, P.run_bind_some _ _ _ _ _ (run_decDecimal (xs.length : Int) _
      ((inRange_8 _).mpr (by omega)))]
  have : ¬ ((xs.length : Int) < 0) := by omega
  simp only [this, if_false, Int.toNat_natCast]
  exact run_decMany encDecimal decDecimal (inRange 8) (fun x r hx => run_decDecimal x r hx) xs r h

/-- `ReadDecimalArrayInt` narrows every element to int32 -/
def narrow32 (v : Int) : Int := ofU 4 (toU 4 v)
def decDecArrInt : P (List Int) := P.map (List.map narrow32) decDecArr

theorem narrow32_id (v : Int) (h : inRange 4 v) : narrow32 v = v := ofU_toU 4 v h

theorem run_decDecArrInt (xs : List Int) (r : Bytes) (hl : xs.length < 2147483648)
    (h : ∀ x ∈ xs, inRange 4 x) :
    P.run decDecArrInt (encDecArr xs ++ r) = some (xs, r) := by
  unfold decDecArrInt
  have h8 : ∀ x ∈ xs, inRange 8 x := by
    intro x hx
    have := (inRange_4 x).mp (h x hx)
    exact (inRange_8 x).mpr (by omega)
  rw [run_map _ _ _ _ _ (run_decDecArr xs r hl h8)]
  congr 2
  induction xs with
  | nil => rfl
  | cons x xs ih =>
    simp only [List.map_cons]
    rw [narrow32_id x (h x (by simp)), ih (by simp at hl ⊢; omega)
      (fun y hy => h y (by simp [hy])) (fun y hy => h8 y (by simp [hy]))]

/-! ### Write(b, off, sz): a window of a slice -/

/-- `Write(b, off, sz)` appends `b[off : off+sz]` and counts `sz` -/
def Writer.window (w : Writer) (b : Bytes) (off sz : Nat) : Writer := w.put ((b.drop off).take sz)

theorem Writer.window_spec (w : Writer) (b : Bytes) (off sz : Nat) (h : off + sz ≤ b.length) :
    (w.window b off sz).buf = w.buf ++ (b.drop off).take sz ∧
    (w.window b off sz).written = w.written + sz := by
  unfold Writer.window
  refine ⟨Writer.put_buf w _, ?_⟩
  simp [Writer.put, List.length_take, List.length_drop]; omega

/-! ### frame headers -/

/-- `WriteHeader` / `WriteOneWayHeader`: source, version, project code, license hash, then the
    bytes written so far as int-length bytes; the byte counter restarts with the buffer -/
def Writer.header (w : Writer) (src ver : Nat) (pcode lic : Int) : Writer :=
  ((((Writer.empty.put [src]).put [ver]).put (encI 8 pcode)).put (encI 8 lic)).op (.intBytes w.buf)

/-- `WriteSecureHeader`: source, version, project code, object id, transfer key, payload -/
def Writer.secureHeader (w : Writer) (src ver : Nat) (pcode oid key : Int) : Writer :=
  (((((Writer.empty.put [src]).put [ver]).put (encI 8 pcode)).put (encI 4 oid)).put (encI 4 key)).op
    (.intBytes w.buf)

theorem Writer.header_spec (w : Writer) (src ver : Nat) (pcode lic : Int) :
    (w.header src ver pcode lic).buf =
      writeAll [.byte src, .byte ver, .long pcode, .long lic, .intBytes w.buf] ∧
    (w.header src ver pcode lic).written = (w.header src ver pcode lic).buf.length := by
  unfold Writer.header
  have h := Writer.op_spec ((((Writer.empty.put [src]).put [ver]).put (encI 8 pcode)).put (encI 8 lic))
    (.intBytes w.buf)
  constructor
  · rw [h.1]; simp [Writer.put, Writer.empty, Writer.buf, writeAll, writeOp]
  · rw [h.2, h.1]; simp [Writer.put, Writer.empty, Writer.buf]; omega

theorem Writer.secureHeader_spec (w : Writer) (src ver : Nat) (pcode oid key : Int) :
    (w.secureHeader src ver pcode oid key).buf =
      writeAll [.byte src, .byte ver, .long pcode, .int oid, .int key, .intBytes w.buf] ∧
    (w.secureHeader src ver pcode oid key).written = (w.secureHeader src ver pcode oid key).buf.length := by
  unfold Writer.secureHeader
  have h := Writer.op_spec (((((Writer.empty.put [src]).put [ver]).put (encI 8 pcode)).put (encI 4 oid)).put (encI 4 key))
    (.intBytes w.buf)
  constructor
  · rw [h.1]; simp [Writer.put, Writer.empty, Writer.buf, writeAll, writeOp]
  · rw [h.2, h.1]; simp [Writer.put, Writer.empty, Writer.buf]; omega

/-- a frame reads back as its five parts, consuming exactly the frame -/
theorem header_roundtrip (w : Writer) (src ver : Nat) (pcode lic : Int) (r : Bytes)
    (hs : src < 256) (hv : ver < 256) (hp : inRange 8 pcode) (hl : inRange 8 lic)
    (hb : w.buf.length < 2147483648) :
    P.run (readAll [.byte 0, .byte 0, .long 0, .long 0, .intBytes []])
      ((w.header src ver pcode lic).buf ++ r) =
      some ([.byte src, .byte ver, .long pcode, .long lic, .intBytes w.buf], r) := by
  rw [(Writer.header_spec w src ver pcode lic).1]
  have := program_roundtrip [.byte src, .byte ver, .long pcode, .long lic, .intBytes w.buf] r
    (by intro op h; simp only [List.mem_cons, List.mem_nil_iff, or_false] at h
        rcases h with rfl | rfl | rfl | rfl | rfl <;> simp [WFOp, *])
  simpa [readAll, readOp] using this

end Prim
