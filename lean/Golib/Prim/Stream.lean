/-
  Golib.Prim.Stream — the connection-backed input path of DataInputX (NewDataInputNet).

  On a connection `ReadBytes(sz)` is a loop:  `for left > 0 { n, err := conn.Read(buff[until:]) … }`.
  One `conn.Read` hands over *some* of the bytes to come — at most `len(buff[until:]) = left`, at
  least 0 (io.Reader allows a read of 0 bytes without error), an error at the end of the stream.
  A connection is therefore modelled as the list of fragments still to arrive (`List Bytes`; an
  empty fragment is a read that returns 0 bytes).  Every decoder written in `P` can be run over
  such a connection (`P.runC`); the theorems say that how the bytes are cut into fragments is
  invisible: the result is the result over the concatenation, the fragments left over concatenate
  to the rest, and the stream runs dry exactly when the flat decoder fails for want of bytes.

  (core Lean only)
-/
import Golib.Basic

namespace Prim.Stream

/-- one `conn.Read(buf)` with `len(buf) = k` (`k > 0`) on the pending fragments -/
def connRead (k : Nat) : List Bytes → Option (Bytes × List Bytes)
  | [] => none
  | f :: fs => if f.length ≤ k then some (f, fs) else some (f.take k, f.drop k :: fs)

/-- the loop of `DataInputX.ReadBytes` on a connection: read until `n` bytes are there -/
def readN : Nat → List Bytes → Option (Bytes × List Bytes)
  | 0, fs => some ([], fs)
  | _ + 1, [] => none
  | n + 1, f :: fs =>
    if f.length ≤ n + 1 then
      match readN (n + 1 - f.length) fs with
      | none => none
      | some (b, r) => some (f ++ b, r)
    else some (f.take (n + 1), f.drop (n + 1) :: fs)

@[simp] theorem readN_zero (fs : List Bytes) : readN 0 fs = some ([], fs) := by
  cases fs <;> rfl

/-- `readN` is the Go loop: one `conn.Read` of at most `left` bytes, then go on with what is
    still missing (`left -= n; until += n`) -/
theorem readN_is_loop (n : Nat) (fs : List Bytes) :
    readN (n + 1) fs =
      match connRead (n + 1) fs with
      | none => none
      | some (got, fs') =>
        match readN (n + 1 - got.length) fs' with
        | none => none
        | some (b, r) => some (got ++ b, r) := by
  cases fs with
  | nil => rfl
  | cons f fs =>
    simp only [readN, connRead]
    by_cases h : f.length ≤ n + 1
    · simp only [if_pos h]
    · simp only [if_neg h]
      have hl : (f.take (n + 1)).length = n + 1 := by
        rw [List.length_take]; omega
      simp [hl]

/-- enough bytes to come: the loop returns exactly the next `n` bytes of the stream, and what is
    left to arrive is the rest of the stream, however the stream is cut into fragments -/
theorem readN_some (n : Nat) (fs : List Bytes) (h : n ≤ fs.flatten.length) :
    ∃ r, readN n fs = some (fs.flatten.take n, r) ∧ r.flatten = fs.flatten.drop n := by
  induction fs generalizing n with
  | nil =>
    have : n = 0 := by simpa using h
    subst this
    exact ⟨[], by simp, by simp⟩
  | cons f fs ih =>
    cases n with
    | zero => exact ⟨f :: fs, by simp, by simp⟩
    | succ n =>
      simp only [readN]
      by_cases hf : f.length ≤ n + 1
      · rw [if_pos hf]
        have h' : n + 1 - f.length ≤ fs.flatten.length := by
          simp only [List.flatten_cons, List.length_append] at h; omega
        obtain ⟨r, hr, hrest⟩ := ih (n + 1 - f.length) h'
        refine ⟨r, ?_, ?_⟩
        · rw [hr]
          simp only [List.flatten_cons]
          rw [List.take_append]
          rw [List.take_of_length_le hf]
        · rw [hrest]
          simp only [List.flatten_cons]
          rw [List.drop_append]
          rw [List.drop_of_length_le hf]
          simp
      · rw [if_neg hf]
        have hf' : n + 1 < f.length := Nat.lt_of_not_le hf
        refine ⟨f.drop (n + 1) :: fs, ?_, ?_⟩
        · simp only [List.flatten_cons]
          rw [List.take_append_of_le_length (by omega)]
        · simp only [List.flatten_cons]
          rw [List.drop_append_of_le_length (by omega)]

/-- the stream ends first: the loop reports the read error (`WA003 Read Error`) -/
theorem readN_none (n : Nat) (fs : List Bytes) (h : fs.flatten.length < n) : readN n fs = none := by
  induction fs generalizing n with
  | nil =>
    cases n with
    | zero => simp at h
    | succ n => rfl
  | cons f fs ih =>
    cases n with
    | zero => simp at h
    | succ n =>
      simp only [List.flatten_cons, List.length_append] at h
      simp only [readN]
      have hf : f.length ≤ n + 1 := by omega
      rw [if_pos hf, ih (n + 1 - f.length) (by omega)]

theorem readN_length (n : Nat) (fs : List Bytes) (b : Bytes) (r : List Bytes)
    (h : readN n fs = some (b, r)) : b.length = n := by
  by_cases hn : n ≤ fs.flatten.length
  · obtain ⟨r', hr, _⟩ := readN_some n fs hn
    rw [hr] at h
    simp only [Option.some.injEq, Prod.mk.injEq] at h
    rw [← h.1, List.length_take]; omega
  · rw [readN_none n fs (by omega)] at h; simp at h

end Prim.Stream

namespace P
open Prim.Stream

/-- a decoder run over a connection: every `read n` is the `ReadBytes` loop -/
def runC : P α → List Bytes → Option (α × List Bytes)
  | .pure a, fs => some (a, fs)
  | .fail, _ => none
  | .read n k, fs =>
    match readN n fs with
    | none => none
    | some (b, r) => runC (k b) r

/-- fragmentation is invisible (success): whatever the flat decoder returns over the concatenation
    of the fragments, the connection-backed decoder returns, and the fragments left over are the
    flat rest -/
theorem runC_of_run (p : P α) (fs : List Bytes) (a : α) (rest : Bytes)
    (h : run p fs.flatten = some (a, rest)) :
    ∃ r, runC p fs = some (a, r) ∧ r.flatten = rest := by
  induction p generalizing fs with
  | pure x =>
    simp only [run, Option.some.injEq, Prod.mk.injEq] at h
    exact ⟨fs, by simp [runC, h.1], h.2⟩
  | fail => simp [run] at h
  | read n k ih =>
    rw [run_read] at h
    split at h
    · rename_i hn
      obtain ⟨r, hr, hrest⟩ := readN_some n fs hn
      rw [← hrest] at h
      obtain ⟨r', hr', hrest'⟩ := ih _ r h
      exact ⟨r', by simp only [runC, hr]; exact hr', hrest'⟩
    · simp at h

/-- fragmentation is invisible (failure): when the flat decoder fails, so does the
    connection-backed one -/
theorem runC_none_of_run (p : P α) (fs : List Bytes) (h : run p fs.flatten = none) :
    runC p fs = none := by
  induction p generalizing fs with
  | pure x => simp [run] at h
  | fail => rfl
  | read n k ih =>
    rw [run_read] at h
    by_cases hn : n ≤ fs.flatten.length
    · rw [if_pos hn] at h
      obtain ⟨r, hr, hrest⟩ := readN_some n fs hn
      rw [← hrest] at h
      simp only [runC, hr]
      exact ih _ r h
    · simp only [runC, readN_none n fs (by omega)]

/-- both directions at once: the connection-backed run is the flat run, up to how the rest is cut -/
theorem runC_iff (p : P α) (fs : List Bytes) :
    (runC p fs).map (fun x => (x.1, x.2.flatten)) = run p fs.flatten := by
  cases h : run p fs.flatten with
  | none => rw [runC_none_of_run p fs h]; rfl
  | some x =>
    obtain ⟨a, rest⟩ := x
    obtain ⟨r, hr, hrest⟩ := runC_of_run p fs a rest h
    rw [hr]; simp [hrest]

/-- two fragmentations of the same stream give the same values -/
theorem runC_fragmentation_independent (p : P α) (fs gs : List Bytes) (h : fs.flatten = gs.flatten) :
    (runC p fs).map (fun x => (x.1, x.2.flatten)) = (runC p gs).map (fun x => (x.1, x.2.flatten)) := by
  rw [runC_iff, runC_iff, h]

end P
