/-
  Golib.Prim.Ops — programs of typed write operations over DataOutputX and the
  matching reads over DataInputX.

  `Op` carries the value written; `readOp` looks only at the constructor (the
  type of the read call) and returns the value read, packaged in the same
  constructor.  Floats are carried as their IEEE-754 bit patterns.
-/
import Golib.Prim.Codec

namespace Prim

inductive Op where
  | bool (b : Bool)
  | byte (n : Nat)
  | short (v : Int)
  | ushort (n : Nat)
  | int3 (v : Int)
  | int (v : Int)
  | long5 (v : Int)
  | long (v : Int)
  | float (bits : Nat)
  | double (bits : Nat)
  | decimal (v : Int)
  | blob (bs : Bytes)
  | text (bs : Bytes)
  | shortBytes (bs : Bytes)
  | intBytes (bs : Bytes)
  | textShort (bs : Bytes)
  | shortArr (xs : List Int)
  | intArr (xs : List Int)
  | longArr (xs : List Int)
  | floatArr (xs : List Nat)
  | doubleArr (xs : List Nat)
  | textArr (xs : List Bytes)
deriving DecidableEq, Repr

/-- the chunks handed to the buffer, one per `WriteByte`/`WriteBytes` call of the Go code
    (only the chunking matters for the `written` counter; the bytes are `writeOp`) -/
def chunks : Op → List Bytes
  | .bool b => [encBool b]
  | .byte n => [[n]]
  | .short v => [encI 2 v]
  | .ushort n => [beN 2 n]
  | .int3 v => [encI 3 v]
  | .int v => [encI 4 v]
  | .long5 v => [encI 5 v]
  | .long v => [encI 8 v]
  | .float b => [beN 4 b]
  | .double b => [beN 8 b]
  | .decimal v => [encDecimal v]
  | .blob bs => [encBlob bs]
  | .text bs => [encBlob bs]
  | .shortBytes bs => [beN 2 bs.length, bs]
  | .intBytes bs => [encI 4 bs.length, bs]
  | .textShort bs => [beN 2 bs.length, bs]
  | .shortArr xs => encI 2 xs.length :: xs.map (encI 2)
  | .intArr xs => encI 2 xs.length :: xs.map (encI 4)
  | .longArr xs => encI 2 xs.length :: xs.map (encI 8)
  | .floatArr xs => encI 2 xs.length :: xs.map (beN 4)
  | .doubleArr xs => encI 2 xs.length :: xs.map (beN 8)
  | .textArr xs => encI 2 xs.length :: xs.map encBlob

def writeOp : Op → Bytes
  | .bool b => encBool b
  | .byte n => [n]
  | .short v => encI 2 v
  | .ushort n => beN 2 n
  | .int3 v => encI 3 v
  | .int v => encI 4 v
  | .long5 v => encI 5 v
  | .long v => encI 8 v
  | .float b => beN 4 b
  | .double b => beN 8 b
  | .decimal v => encDecimal v
  | .blob bs => encBlob bs
  | .text bs => encBlob bs
  | .shortBytes bs => encBytes16 bs
  | .intBytes bs => encBytes32 bs
  | .textShort bs => encBytes16 bs
  | .shortArr xs => encArr (encI 2) xs
  | .intArr xs => encArr (encI 4) xs
  | .longArr xs => encArr (encI 8) xs
  | .floatArr xs => encArr (beN 4) xs
  | .doubleArr xs => encArr (beN 8) xs
  | .textArr xs => encArr encBlob xs

def readOp : Op → P Op
  | .bool _ => P.map Op.bool rdBool
  | .byte _ => P.map Op.byte (rdU 1)
  | .short _ => P.map Op.short (rdI 2)
  | .ushort _ => P.map Op.ushort (rdU 2)
  | .int3 _ => P.map Op.int3 (rdI 3)
  | .int _ => P.map Op.int (rdI 4)
  | .long5 _ => P.map Op.long5 (rdI 5)
  | .long _ => P.map Op.long (rdI 8)
  | .float _ => P.map Op.float (rdU 4)
  | .double _ => P.map Op.double (rdU 8)
  | .decimal _ => P.map Op.decimal decDecimal
  | .blob _ => P.map Op.blob decBlob
  | .text _ => P.map Op.text decBlob
  | .shortBytes _ => P.map Op.shortBytes decBytes16
  | .intBytes _ => P.map Op.intBytes decBytes32
  | .textShort _ => P.map Op.textShort decBytes16
  | .shortArr _ => P.map Op.shortArr (decArr (rdI 2))
  | .intArr _ => P.map Op.intArr (decArr (rdI 4))
  | .longArr _ => P.map Op.longArr (decArr (rdI 8))
  | .floatArr _ => P.map Op.floatArr (decArr (rdU 4))
  | .doubleArr _ => P.map Op.doubleArr (decArr (rdU 8))
  | .textArr _ => P.map Op.textArr (decArr decBlob)

/-- what the Go API can be handed: values of the stated Go types, and lengths the
    length field of the format can represent -/
def WFOp : Op → Prop
  | .bool _ => True
  | .byte n => n < 256
  | .short v => inRange 2 v
  | .ushort n => n < 65536
  | .int3 v => inRange 3 v
  | .int v => inRange 4 v
  | .long5 v => inRange 5 v
  | .long v => inRange 8 v
  | .float b => b < 4294967296
  | .double b => b < 18446744073709551616
  | .decimal v => inRange 8 v
  | .blob bs => bs.length < 2147483648
  | .text bs => bs.length < 2147483648
  | .shortBytes bs => bs.length ≤ 65535
  | .intBytes bs => bs.length < 2147483648
  | .textShort bs => bs.length ≤ 65535
  | .shortArr xs => xs.length ≤ 32767 ∧ ∀ x ∈ xs, inRange 2 x
  | .intArr xs => xs.length ≤ 32767 ∧ ∀ x ∈ xs, inRange 4 x
  | .longArr xs => xs.length ≤ 32767 ∧ ∀ x ∈ xs, inRange 8 x
  | .floatArr xs => xs.length ≤ 32767 ∧ ∀ x ∈ xs, x < 4294967296
  | .doubleArr xs => xs.length ≤ 32767 ∧ ∀ x ∈ xs, x < 18446744073709551616
  | .textArr xs => xs.length ≤ 32767 ∧ ∀ x ∈ xs, x.length < 2147483648

theorem run_map (f : α → β) (p : P α) (bs r : Bytes) (a : α) (h : P.run p bs = some (a, r)) :
    P.run (P.map f p) bs = some (f a, r) := by
  unfold P.map; rw [P.run_bind_some _ _ _ _ _ h]; rfl

theorem op_roundtrip (op : Op) (r : Bytes) (h : WFOp op) :
    P.run (readOp op) (writeOp op ++ r) = some (op, r) := by
  cases op <;> simp only [readOp, writeOp, WFOp] at h ⊢ <;> apply run_map
  case bool b => exact run_rdBool b r
  case byte n => simp [rdU, P.run, unbeN]
  case short v => exact run_rdI 2 v r h
  case ushort n => exact run_rdU 2 n r (by simpa using h)
  case int3 v => exact run_rdI 3 v r h
  case int v => exact run_rdI 4 v r h
  case long5 v => exact run_rdI 5 v r h
  case long v => exact run_rdI 8 v r h
  case float b => exact run_rdU 4 b r (by simpa using h)
  case double b => exact run_rdU 8 b r (by simpa using h)
  case decimal v => exact run_decDecimal v r h
  case blob bs => exact run_decBlob bs r h
  case text bs => exact run_decBlob bs r h
  case shortBytes bs => exact run_decBytes16 bs r h
  case intBytes bs => exact run_decBytes32 bs r h
  case textShort bs => exact run_decBytes16 bs r h
  case shortArr xs => exact run_decArr _ _ _ (fun x r hx => run_rdI 2 x r hx) xs r h.1 h.2
  case intArr xs => exact run_decArr _ _ _ (fun x r hx => run_rdI 4 x r hx) xs r h.1 h.2
  case longArr xs => exact run_decArr _ _ _ (fun x r hx => run_rdI 8 x r hx) xs r h.1 h.2
  case floatArr xs =>
    exact run_decArr _ _ (fun x => x < 256 ^ 4) (fun x r hx => run_rdU 4 x r hx) xs r h.1
      (fun x hx => by simpa using h.2 x hx)
  case doubleArr xs =>
    exact run_decArr _ _ (fun x => x < 256 ^ 8) (fun x r hx => run_rdU 8 x r hx) xs r h.1
      (fun x hx => by simpa using h.2 x hx)
  case textArr xs => exact run_decArr _ _ _ (fun x r hx => run_decBlob x r hx) xs r h.1 h.2

/-! ### programs -/

def writeAll : List Op → Bytes
  | [] => []
  | op :: ops => writeOp op ++ writeAll ops

def readAll : List Op → P (List Op)
  | [] => .pure []
  | op :: ops => P.bind (readOp op) (fun v => P.bind (readAll ops) (fun vs => .pure (v :: vs)))

theorem program_roundtrip (ops : List Op) (r : Bytes) (h : ∀ op ∈ ops, WFOp op) :
    P.run (readAll ops) (writeAll ops ++ r) = some (ops, r) := by
  induction ops with
  | nil => simp [readAll, writeAll]
  | cons op ops ih =>
    simp only [readAll, writeAll, List.append_assoc]
    rw [P.run_bind_some _ _ _ _ _ (op_roundtrip op _ (h op (by simp)))]
    rw [P.run_bind_some _ _ _ _ _ (ih (fun y hy => h y (by simp [hy])))]
    rfl

/-! ### the writer object: buffer and `written` counter -/

/-- the buffer is kept as the list of chunks handed to it, newest first (so that a
    write is O(chunk), as in the Go buffer); `buf` is what `ToByteArray` returns -/
structure Writer where
  rev : List Bytes
  written : Nat
deriving Repr

def Writer.buf (w : Writer) : Bytes := w.rev.reverse.flatten
def Writer.empty : Writer := ⟨[], 0⟩
/-- `WriteBytes(b)`: `written += len(b)` and append -/
def Writer.put (w : Writer) (b : Bytes) : Writer := ⟨b :: w.rev, w.written + b.length⟩
def Writer.op (w : Writer) (op : Op) : Writer := (chunks op).foldl Writer.put w
def Writer.exec (ops : List Op) : Writer := ops.foldl Writer.op Writer.empty

theorem flatten_map_eq_encMany {α : Type} (enc : α → Bytes) (xs : List α) :
    (xs.map enc).flatten = encMany enc xs := by
  induction xs with
  | nil => rfl
  | cons x xs ih => simp [encMany, ih]

theorem chunks_flatten (op : Op) : (chunks op).flatten = writeOp op := by
  cases op <;>
    simp [chunks, writeOp, encBytes16, encBytes32, encArr, flatten_map_eq_encMany]

theorem Writer.put_buf (w : Writer) (b : Bytes) : (w.put b).buf = w.buf ++ b := by
  simp [Writer.put, Writer.buf]

theorem foldl_put (cs : List Bytes) (w : Writer) :
    (cs.foldl Writer.put w).buf = w.buf ++ cs.flatten ∧
    (cs.foldl Writer.put w).written = w.written + cs.flatten.length := by
  induction cs generalizing w with
  | nil => simp
  | cons c cs ih =>
    have := ih (w.put c)
    simp only [List.foldl_cons, List.flatten_cons, List.length_append]
    constructor
    · rw [this.1, Writer.put_buf]; simp
    · rw [this.2]; simp [Writer.put]; omega

theorem Writer.op_spec (w : Writer) (op : Op) :
    (w.op op).buf = w.buf ++ writeOp op ∧ (w.op op).written = w.written + (writeOp op).length := by
  unfold Writer.op
  have := foldl_put (chunks op) w
  rw [chunks_flatten] at this
  exact this

theorem Writer.foldl_spec (ops : List Op) (w : Writer) :
    (ops.foldl Writer.op w).buf = w.buf ++ writeAll ops ∧
    (ops.foldl Writer.op w).written = w.written + (writeAll ops).length := by
  induction ops generalizing w with
  | nil => simp [writeAll]
  | cons op ops ih =>
    have h1 := ih (w.op op)
    have h2 := Writer.op_spec w op
    simp only [List.foldl_cons, writeAll, List.length_append]
    constructor
    · rw [h1.1, h2.1]; simp
    · rw [h1.2, h2.2]; omega

/-! ### little-endian read helpers (ToShortLittle, ToUshortLittle, ToIntLittle, ToUintLittle,
    ToLongLittle, ToUlongLittle): signed and unsigned reads of 2/4/8 reversed bytes -/

def rdILittle (w : Nat) : P Int := .read w (fun bs => .pure (decILittle w bs))
def rdULittle (w : Nat) : P Nat := .read w (fun bs => .pure (unleN bs))

theorem run_rdILittle (w : Nat) (v : Int) (r : Bytes) (h : inRange w v) :
    P.run (rdILittle w) ((encI w v).reverse ++ r) = some (v, r) := by
  unfold rdILittle
  rw [P.run_read_append _ _ _ _ (by simp)]
  simp [decILittle_reverse_encI w v h]

theorem run_rdULittle (w n : Nat) (r : Bytes) (h : n < 256 ^ w) :
    P.run (rdULittle w) ((beN w n).reverse ++ r) = some (n, r) := by
  unfold rdULittle
  rw [P.run_read_append _ _ _ _ (by simp)]
  simp [unleN_reverse_beN w n h]

end Prim
