/-
  Golib.Prim.Codec — CodeModel of io.DataOutputX / io.DataInputX.

  Every `enc*` follows the corresponding `Write*` of DataOutputX.go, every
  `dec*` the corresponding `Read*` of DataInputX.go (including the reader's
  `default → 8 bytes` arm of ReadDecimal and the signed 16-bit array count).
  Decoders are programs of the decoder monad `P` (Golib.Basic), so locality
  and prefix-failure hold for them by construction.
-/
import Golib.Prim.Int

namespace Prim

/-! ### fixed width -/

def rdU (w : Nat) : P Nat := .read w (fun bs => .pure (unbeN bs))
def rdI (w : Nat) : P Int := .read w (fun bs => .pure (decI w bs))
/-- `ReadBool`: one byte, true iff it equals 1 -/
def rdBool : P Bool := .read 1 (fun bs => .pure (bs.headD 0 == 1))
def encBool (b : Bool) : Bytes := [if b then 1 else 0]

theorem run_rdU (w n : Nat) (r : Bytes) (h : n < 256 ^ w) :
    P.run (rdU w) (beN w n ++ r) = some (n, r) := by
  unfold rdU
  rw [P.run_read_append _ _ _ _ (beN_length w n)]
  simp [unbeN_beN_of_lt w n h]

theorem run_rdI (w : Nat) (v : Int) (r : Bytes) (h : inRange w v) :
    P.run (rdI w) (encI w v ++ r) = some (v, r) := by
  unfold rdI
  rw [P.run_read_append _ _ _ _ (encI_length w v)]
  simp [decI_encI w v h]

theorem run_rdBool (b : Bool) (r : Bytes) : P.run rdBool (encBool b ++ r) = some (b, r) := by
  cases b <;> simp [rdBool, encBool, P.run]

/-- reading `n` raw bytes -/
def rdBytes (n : Nat) : P Bytes := .read n (fun bs => .pure bs)

theorem run_rdBytes (bs r : Bytes) : P.run (rdBytes bs.length) (bs ++ r) = some (bs, r) := by
  unfold rdBytes
  rw [P.run_read_append _ _ _ _ rfl]; rfl

/-! ### variable-length decimal -/

def encDecimal (v : Int) : Bytes :=
  if v = 0 then [0]
  else if -128 ≤ v ∧ v ≤ 127 then 1 :: encI 1 v
  else if -32768 ≤ v ∧ v ≤ 32767 then 2 :: encI 2 v
  else if -8388608 ≤ v ∧ v ≤ 8388607 then 3 :: encI 3 v
  else if -2147483648 ≤ v ∧ v ≤ 2147483647 then 4 :: encI 4 v
  else if -549755813888 ≤ v ∧ v ≤ 549755813887 then 5 :: encI 5 v
  else 8 :: encI 8 v

def decDecimalLen (n : Nat) : P Int :=
  match n with
  | 0 => .pure 0
  | 1 => rdI 1
  | 2 => rdI 2
  | 3 => rdI 3
  | 4 => rdI 4
  | 5 => rdI 5
  | _ => rdI 8

def decDecimal : P Int := .read 1 (fun b => decDecimalLen (b.headD 0))

/-- width class of a value: the number of payload bytes of the shortest form holding it -/
def leastClass (v : Int) : Nat :=
  if v = 0 then 0
  else if inRange 1 v then 1
  else if inRange 2 v then 2
  else if inRange 3 v then 3
  else if inRange 4 v then 4
  else if inRange 5 v then 5
  else 8

/-- "a `c`-byte payload can hold `v`" for the seven classes of the format -/
def fits (c : Nat) (v : Int) : Prop := if c = 0 then v = 0 else inRange c v

theorem run_decDecimal (v : Int) (r : Bytes) (h : inRange 8 v) :
    P.run decDecimal (encDecimal v ++ r) = some (v, r) := by
  unfold decDecimal encDecimal
  split
  · rename_i h0; subst h0; simp [P.run, decDecimalLen]
  split
  · rename_i _ h1
    rw [List.cons_append, P.run_read1]
    exact run_rdI 1 v r ((inRange_1 v).mpr h1)
  split
  · rename_i _ _ h1
    rw [List.cons_append, P.run_read1]
    exact run_rdI 2 v r ((inRange_2 v).mpr h1)
  split
  · rename_i _ _ _ h1
    rw [List.cons_append, P.run_read1]
    exact run_rdI 3 v r ((inRange_3 v).mpr h1)
  split
  · rename_i _ _ _ _ h1
    rw [List.cons_append, P.run_read1]
    exact run_rdI 4 v r ((inRange_4 v).mpr h1)
  split
  · rename_i _ _ _ _ _ h1
    rw [List.cons_append, P.run_read1]
    exact run_rdI 5 v r ((inRange_5 v).mpr h1)
  · rw [List.cons_append, P.run_read1]
    exact run_rdI 8 v r h

theorem encDecimal_length (v : Int) : (encDecimal v).length = 1 + leastClass v := by
  unfold encDecimal leastClass
  simp only [inRange_1, inRange_2, inRange_3, inRange_4, inRange_5]
  repeat' split
  all_goals simp

theorem encDecimal_head (v : Int) : (encDecimal v).headD 0 = leastClass v := by
  unfold encDecimal leastClass
  simp only [inRange_1, inRange_2, inRange_3, inRange_4, inRange_5]
  repeat' split
  all_goals simp

theorem encDecimal_WFB (v : Int) : WFB (encDecimal v) := by
  unfold encDecimal
  repeat' split
  all_goals first
    | (intro b hb; simp at hb; omega)
    | exact WFB_cons.mpr ⟨by decide, encI_WFB _ _⟩

/-- no shorter class of the format holds the value -/
theorem leastClass_least (v : Int) (c : Nat) (hc : c ∈ [0, 1, 2, 3, 4, 5, 8])
    (hlt : c < leastClass v) : ¬ fits c v := by
  unfold leastClass at hlt
  unfold fits
  simp only [inRange_1, inRange_2, inRange_3, inRange_4, inRange_5] at hlt
  simp only [List.mem_cons, List.mem_nil_iff, or_false] at hc
  rcases hc with rfl | rfl | rfl | rfl | rfl | rfl | rfl <;>
    simp only [inRange_1, inRange_2, inRange_3, inRange_4, inRange_5, inRange_8] <;>
    (repeat' split at hlt) <;> simp at * <;> omega

theorem leastClass_fits (v : Int) (h : inRange 8 v) : fits (leastClass v) v := by
  unfold leastClass fits
  repeat' split
  all_goals simp_all

/-! ### blob / text -/

def encBlob (bs : Bytes) : Bytes :=
  let n := bs.length
  if n = 0 then [0]
  else if n ≤ 253 then n :: bs
  else if n ≤ 65535 then 255 :: (beN 2 n ++ bs)
  else 254 :: (encI 4 n ++ bs)

def decBlob : P Bytes :=
  .read 1 (fun b =>
    match b.headD 0 with
    | 255 => P.bind (rdU 2) (fun n => rdBytes n)
    | 254 => P.bind (rdI 4) (fun n => if n < 0 then .fail else rdBytes n.toNat)
    | 0 => .pure []
    | n => rdBytes n)

theorem run_decBlob (bs r : Bytes) (h : bs.length < 2147483648) :
    P.run decBlob (encBlob bs ++ r) = some (bs, r) := by
  unfold decBlob encBlob
  simp only []
  split
  · rename_i h0
    have : bs = [] := List.eq_nil_of_length_eq_zero h0
    subst this; simp [P.run]
  split
  · rename_i h0 h1
    rw [List.cons_append, P.run_read1]
    simp only [List.headD_cons]
    split
    · omega
    · omega
    · rename_i e; exact absurd e h0
    · exact run_rdBytes bs r
  split
  · rename_i h0 h1 h2
    rw [List.cons_append, P.run_read1]
    simp only [List.headD_cons, List.append_assoc]
    rw [P.run_bind_some _ _ _ _ _ (run_rdU 2 bs.length (bs ++ r) (by omega))]
    exact run_rdBytes bs r
  · rename_i h0 h1 h2
    rw [List.cons_append, P.run_read1]
    simp only [List.headD_cons, List.append_assoc]
    rw [P.run_bind_some _ _ _ _ _ (run_rdI 4 (bs.length : Int) (bs ++ r)
      ((inRange_4 _).mpr (by omega)))]
    have : ¬ ((bs.length : Int) < 0) := by omega
    simp only [this, if_false, Int.toNat_natCast]
    exact run_rdBytes bs r

/-- the header of a blob is 1, 3 or 5 bytes exactly at the thresholds of the format -/
theorem encBlob_length (bs : Bytes) :
    (encBlob bs).length =
      bs.length + (if bs.length ≤ 253 then 1 else if bs.length ≤ 65535 then 3 else 5) := by
  unfold encBlob
  simp only []
  split
  · rename_i h; simp [h]
  split
  · simp <;> omega
  split
  · simp <;> omega
  · simp <;> omega

theorem encBlob_WFB (bs : Bytes) (h : WFB bs) : WFB (encBlob bs) := by
  unfold encBlob
  simp only []
  split
  · intro b hb; simp at hb; omega
  split
  · rename_i h1; exact WFB_cons.mpr ⟨by omega, h⟩
  split
  · exact WFB_cons.mpr ⟨by decide, WFB_append.mpr ⟨beN_WFB _ _, h⟩⟩
  · exact WFB_cons.mpr ⟨by decide, WFB_append.mpr ⟨encI_WFB _ _, h⟩⟩

/-! ### short-length / int-length prefixed bytes and text -/

/-- `WriteShortBytes` / `WriteTextShortLength`: 16-bit length (written as int16, read unsigned) -/
def encBytes16 (bs : Bytes) : Bytes := beN 2 bs.length ++ bs
def decBytes16 : P Bytes := P.bind (rdU 2) (fun n => rdBytes n)

theorem run_decBytes16 (bs r : Bytes) (h : bs.length ≤ 65535) :
    P.run decBytes16 (encBytes16 bs ++ r) = some (bs, r) := by
  unfold decBytes16 encBytes16
  rw [List.append_assoc, P.run_bind_some _ _ _ _ _ (run_rdU 2 bs.length (bs ++ r) (by omega))]
  exact run_rdBytes bs r

/-- `WriteIntBytes` / `ReadIntBytes`: signed 32-bit length -/
def encBytes32 (bs : Bytes) : Bytes := encI 4 bs.length ++ bs
def decBytes32 : P Bytes := P.bind (rdI 4) (fun n => if n < 0 then .fail else rdBytes n.toNat)

theorem run_decBytes32 (bs r : Bytes) (h : bs.length < 2147483648) :
    P.run decBytes32 (encBytes32 bs ++ r) = some (bs, r) := by
  unfold decBytes32 encBytes32
  rw [List.append_assoc, P.run_bind_some _ _ _ _ _ (run_rdI 4 (bs.length : Int) (bs ++ r)
      ((inRange_4 _).mpr (by omega)))]
  have : ¬ ((bs.length : Int) < 0) := by omega
  simp only [this, if_false, Int.toNat_natCast]
  exact run_rdBytes bs r

/-! ### arrays: signed 16-bit count, then the elements -/

def encMany (enc : α → Bytes) : List α → Bytes
  | [] => []
  | x :: xs => enc x ++ encMany enc xs

/-- read `n` elements (right-nested, accumulator: linear time in the driver) -/
def decManyAcc (dec : P α) : Nat → List α → P (List α)
  | 0, acc => .pure acc.reverse
  | n+1, acc => P.bind dec (fun x => decManyAcc dec n (x :: acc))

def decMany (dec : P α) (n : Nat) : P (List α) := decManyAcc dec n []

theorem run_decManyAcc (enc : α → Bytes) (dec : P α) (wf : α → Prop)
    (rt : ∀ x r, wf x → P.run dec (enc x ++ r) = some (x, r))
    (xs acc : List α) (r : Bytes) (h : ∀ x ∈ xs, wf x) :
    P.run (decManyAcc dec xs.length acc) (encMany enc xs ++ r) = some (acc.reverse ++ xs, r) := by
  induction xs generalizing acc with
  | nil => simp [decManyAcc, encMany]
  | cons x xs ih =>
    simp only [List.length_cons, decManyAcc, encMany, List.append_assoc]
    rw [P.run_bind_some _ _ _ _ _ (rt x _ (h x (by simp)))]
    rw [ih (x :: acc) (fun y hy => h y (by simp [hy]))]
    simp

theorem run_decMany (enc : α → Bytes) (dec : P α) (wf : α → Prop)
    (rt : ∀ x r, wf x → P.run dec (enc x ++ r) = some (x, r))
    (xs : List α) (r : Bytes) (h : ∀ x ∈ xs, wf x) :
    P.run (decMany dec xs.length) (encMany enc xs ++ r) = some (xs, r) := by
  unfold decMany
  rw [run_decManyAcc enc dec wf rt xs [] r h]; simp

def encArr (enc : α → Bytes) (xs : List α) : Bytes := encI 2 xs.length ++ encMany enc xs
def decArr (dec : P α) : P (List α) :=
  P.bind (rdI 2) (fun n => if n < 0 then .fail else decMany dec n.toNat)

theorem run_decArr (enc : α → Bytes) (dec : P α) (wf : α → Prop)
    (rt : ∀ x r, wf x → P.run dec (enc x ++ r) = some (x, r))
    (xs : List α) (r : Bytes) (hl : xs.length ≤ 32767) (h : ∀ x ∈ xs, wf x) :
    P.run (decArr dec) (encArr enc xs ++ r) = some (xs, r) := by
  unfold decArr encArr
  rw [List.append_assoc, P.run_bind_some _ _ _ _ _ (run_rdI 2 (xs.length : Int) _
      ((inRange_2 _).mpr (by omega)))]
  have : ¬ ((xs.length : Int) < 0) := by omega
  simp only [this, if_false, Int.toNat_natCast]
  exact run_decMany enc dec wf rt xs r h

/-- an array longer than 32767 elements is rejected by the reader (the count goes negative) -/
theorem decArr_too_long (enc : α → Bytes) (dec : P α) (xs : List α) (r : Bytes)
    (h1 : 32767 < xs.length) (h2 : xs.length ≤ 65535) :
    P.run (decArr dec) (encArr enc xs ++ r) = none := by
  unfold decArr encArr
  have hr : inRange 2 ((xs.length : Int) - 65536) := (inRange_2 _).mpr (by omega)
  have he : encI 2 (xs.length : Int) = encI 2 ((xs.length : Int) - 65536) := by
    unfold encI toU; rw [modulus_2]; congr 2
    exact (Int.sub_emod_right _ _).symm
  rw [he, List.append_assoc, P.run_bind_some _ _ _ _ _ (run_rdI 2 _ _ hr)]
  have : ((xs.length : Int) - 65536 < 0) := by omega
  simp [this]

end Prim
