/-
  Golib.Prim.Int — fixed-width big-endian two's-complement integers.

  CodeModel of io.ToBytesShort/Int3/Int/Long5/Long, io.ToShort/…/ToLong and the
  little-endian helpers, in arithmetic form (no bit vectors):

    beN w n      the w bytes of n mod 256^w, most significant first
    unbeN bs     the number those bytes denote
    toU w v      two's complement of v in w bytes (as a natural)
    ofU w n      the signed value of an unsigned w-byte number
-/
import Golib.Basic

namespace Prim

/-- big-endian `w`-byte representation of `n mod 256^w` -/
def beN : Nat → Nat → Bytes
  | 0, _ => []
  | w+1, n => (n / 256^w % 256) :: beN w n

def unbeN : Bytes → Nat
  | [] => 0
  | b :: bs => b * 256 ^ bs.length + unbeN bs

@[simp] theorem beN_length (w n : Nat) : (beN w n).length = w := by
  induction w with
  | zero => rfl
  | succ w ih => simp [beN, ih]

theorem beN_WFB (w n : Nat) : WFB (beN w n) := by
  induction w with
  | zero => exact WFB_nil
  | succ w ih =>
    simp only [beN]
    exact WFB_cons.mpr ⟨Nat.mod_lt _ (by decide), ih⟩

theorem unbeN_beN (w n : Nat) : unbeN (beN w n) = n % 256^w := by
  induction w with
  | zero => simp [beN, unbeN, Nat.mod_one]
  | succ w ih =>
    simp only [beN, unbeN, beN_length, ih]
    rw [Nat.mod_pow_succ, Nat.mul_comm, Nat.add_comm]

theorem unbeN_lt (bs : Bytes) (h : WFB bs) : unbeN bs < 256 ^ bs.length := by
  induction bs with
  | nil => simp [unbeN]
  | cons b bs ih =>
    have ⟨hb, hbs⟩ := WFB_cons.mp h
    have := ih hbs
    simp only [unbeN, List.length_cons, Nat.pow_succ]
    have h1 : b * 256 ^ bs.length ≤ 255 * 256 ^ bs.length := Nat.mul_le_mul_right _ (by omega)
    omega

/-- every byte string is the big-endian form of the number it denotes (canonical form) -/
theorem beN_unbeN (bs : Bytes) (h : WFB bs) : beN bs.length (unbeN bs) = bs := by
  induction bs with
  | nil => rfl
  | cons b bs ih =>
    have ⟨hb, hbs⟩ := WFB_cons.mp h
    have hlt := unbeN_lt bs hbs
    have hpos : 0 < 256 ^ bs.length := Nat.pow_pos (by decide)
    simp only [List.length_cons, beN, unbeN]
    congr 1
    · rw [Nat.add_comm, Nat.add_mul_div_right _ _ hpos, Nat.div_eq_of_lt hlt]
      simp [Nat.mod_eq_of_lt hb]
    · have : beN bs.length (b * 256 ^ bs.length + unbeN bs) = beN bs.length (unbeN bs) := by
        have gen : ∀ w a c, beN w (a * 256 ^ w + c) = beN w c := by
          intro w
          induction w with
          | zero => intros; rfl
          | succ w ihw =>
            intro a c
            have e : a * 256 ^ (w + 1) = (a * 256) * 256 ^ w := by
              rw [Nat.pow_succ, Nat.mul_assoc, Nat.mul_comm (256 ^ w) 256]
            simp only [beN]
            congr 1
            · have hp : 0 < 256 ^ w := Nat.pow_pos (by decide)
              rw [e, Nat.add_comm, Nat.add_mul_div_right _ _ hp, Nat.add_mul_mod_self_right]
            · rw [e]; exact ihw _ _
        exact gen _ _ _
      rw [this]; exact ih hbs

/-- the modulus 256^w as an integer -/
def modulus (w : Nat) : Int := ((256 ^ w : Nat) : Int)

theorem modulus_pos (w : Nat) : 0 < modulus w := by
  unfold modulus
  exact Int.natCast_pos.mpr (Nat.pow_pos (by decide))

/-- two's complement of `v` in `w` bytes -/
def toU (w : Nat) (v : Int) : Nat := (v % modulus w).toNat

/-- signed reading of an unsigned `w`-byte number -/
def ofU (w : Nat) (n : Nat) : Int :=
  if 2 * (n : Int) < modulus w then (n : Int) else (n : Int) - modulus w

/-- signed range of `w` bytes -/
def inRange (w : Nat) (v : Int) : Prop := -(modulus w) ≤ 2 * v ∧ 2 * v < modulus w

instance (w : Nat) (v : Int) : Decidable (inRange w v) := by unfold inRange; infer_instance

theorem toU_lt (w : Nat) (v : Int) : toU w v < 256 ^ w := by
  have hp := modulus_pos w
  have h1 : v % modulus w < modulus w := Int.emod_lt_of_pos _ hp
  have h0 : 0 ≤ v % modulus w := Int.emod_nonneg _ (Int.ne_of_gt hp)
  unfold toU
  have : ((v % modulus w).toNat : Int) < ((256 ^ w : Nat) : Int) := by
    rw [Int.toNat_of_nonneg h0]; exact h1
  exact Int.ofNat_lt.mp this

theorem wrap_roundtrip (M v : Int) (hM : 0 < M) (h : -M ≤ 2 * v ∧ 2 * v < M) :
    (if 2 * (v % M) < M then v % M else v % M - M) = v := by
  by_cases hv : 0 ≤ v
  · have : v % M = v := Int.emod_eq_of_lt hv (by omega)
    rw [this]; split <;> omega
  · have h2 : (v + M) % M = v + M := Int.emod_eq_of_lt (by omega) (by omega)
    have h3 : (v + M) % M = v % M := Int.add_emod_right _ _
    rw [← h3, h2]; split <;> omega

theorem ofU_toU (w : Nat) (v : Int) (h : inRange w v) : ofU w (toU w v) = v := by
  have hp := modulus_pos w
  have h0 : 0 ≤ v % modulus w := Int.emod_nonneg _ (Int.ne_of_gt hp)
  unfold ofU toU
  rw [Int.toNat_of_nonneg h0]
  exact wrap_roundtrip _ _ hp h

theorem ofU_inRange (w : Nat) (n : Nat) (h : n < 256 ^ w) : inRange w (ofU w n) := by
  have hp := modulus_pos w
  have hn : (n : Int) < modulus w := by unfold modulus; exact Int.ofNat_lt.mpr h
  unfold ofU inRange
  split <;> constructor <;> omega

theorem toU_ofU (w : Nat) (n : Nat) (h : n < 256 ^ w) : toU w (ofU w n) = n := by
  have hp := modulus_pos w
  have hn : (n : Int) < modulus w := by unfold modulus; exact Int.ofNat_lt.mpr h
  unfold toU ofU
  split
  · rw [Int.emod_eq_of_lt (by omega) hn]; simp
  · have : ((n : Int) - modulus w) % modulus w = (n : Int) := by
      rw [Int.sub_emod_right]; exact Int.emod_eq_of_lt (by omega) hn
    rw [this]; simp

/-- signed `w`-byte big-endian encoding -/
def encI (w : Nat) (v : Int) : Bytes := beN w (toU w v)
/-- signed `w`-byte big-endian decoding -/
def decI (w : Nat) (bs : Bytes) : Int := ofU w (unbeN bs)

@[simp] theorem encI_length (w : Nat) (v : Int) : (encI w v).length = w := by simp [encI]
theorem encI_WFB (w : Nat) (v : Int) : WFB (encI w v) := beN_WFB _ _

theorem decI_encI (w : Nat) (v : Int) (h : inRange w v) : decI w (encI w v) = v := by
  unfold decI encI
  rw [unbeN_beN, Nat.mod_eq_of_lt (toU_lt w v)]
  exact ofU_toU w v h

/-- canonical: any `w` bytes are the encoding of the signed value they decode to -/
theorem encI_decI (bs : Bytes) (h : WFB bs) : encI bs.length (decI bs.length bs) = bs := by
  unfold decI encI
  rw [toU_ofU _ _ (unbeN_lt bs h)]
  exact beN_unbeN bs h

/-- unsigned `w`-byte encoding / decoding -/
theorem unbeN_beN_of_lt (w n : Nat) (h : n < 256 ^ w) : unbeN (beN w n) = n := by
  rw [unbeN_beN, Nat.mod_eq_of_lt h]

/-- little-endian reading = big-endian reading of the reversed bytes -/
def unleN (bs : Bytes) : Nat := unbeN bs.reverse
def decILittle (w : Nat) (bs : Bytes) : Int := ofU w (unleN bs)

theorem unleN_reverse_beN (w n : Nat) (h : n < 256 ^ w) : unleN (beN w n).reverse = n := by
  unfold unleN; rw [List.reverse_reverse]; exact unbeN_beN_of_lt w n h

theorem decILittle_reverse_encI (w : Nat) (v : Int) (h : inRange w v) :
    decILittle w (encI w v).reverse = v := by
  unfold decILittle unleN; rw [List.reverse_reverse]; exact decI_encI w v h

/-! concrete ranges, so that callers can discharge `inRange` with `omega` -/

theorem modulus_1 : modulus 1 = 256 := by decide
theorem modulus_2 : modulus 2 = 65536 := by decide
theorem modulus_3 : modulus 3 = 16777216 := by decide
theorem modulus_4 : modulus 4 = 4294967296 := by decide
theorem modulus_5 : modulus 5 = 1099511627776 := by decide
theorem modulus_8 : modulus 8 = 18446744073709551616 := by decide

theorem inRange_1 (v : Int) : inRange 1 v ↔ -128 ≤ v ∧ v ≤ 127 := by
  unfold inRange; rw [modulus_1]; omega
theorem inRange_2 (v : Int) : inRange 2 v ↔ -32768 ≤ v ∧ v ≤ 32767 := by
  unfold inRange; rw [modulus_2]; omega
theorem inRange_3 (v : Int) : inRange 3 v ↔ -8388608 ≤ v ∧ v ≤ 8388607 := by
  unfold inRange; rw [modulus_3]; omega
theorem inRange_4 (v : Int) : inRange 4 v ↔ -2147483648 ≤ v ∧ v ≤ 2147483647 := by
  unfold inRange; rw [modulus_4]; omega
theorem inRange_5 (v : Int) : inRange 5 v ↔ -549755813888 ≤ v ∧ v ≤ 549755813887 := by
  unfold inRange; rw [modulus_5]; omega
theorem inRange_8 (v : Int) : inRange 8 v ↔ -9223372036854775808 ≤ v ∧ v ≤ 9223372036854775807 := by
  unfold inRange; rw [modulus_8]; omega

end Prim
