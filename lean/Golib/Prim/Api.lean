/-
  Golib.Prim.Api — the parts of io.DataOutputX / io.DataInputX that are not a typed write or its
  matching read (fourth deepening round: API coverage):

    ReadBytes(sz)                     raw read with a *signed* size           rdBytesI
    CheckCount(count, minBytes)       the guard in front of every array read   checkCount, runArrGuarded
    ToX(buf, pos) / Get(buf,pos,sz)   a field embedded at an offset            getAt, convAt
    SetBytesX(buf, off, v) / SetBytes a field packed into a caller's buffer    setAt
    histories of one DataOutputX      typed writes, WriteBytes, Write(b,off,sz) and the three frame
                                      headers in any order (a header wraps what was written so far)
                                                                               WStep, Writer.step, specBytes
  (core Lean only)
-/
import Golib.Prim.Extra

namespace Prim

/-! ### ReadBytes(sz): the size is an int32 -/

/-- `ReadBytes(sz)`: a negative size fails (the guard on a byte slice, `make` on a connection) -/
def rdBytesI (sz : Int) : P Bytes := if sz < 0 then .fail else rdBytes sz.toNat

/-- exactly when it succeeds, and with what: iff -/
theorem run_rdBytesI_iff (sz : Int) (bs out r : Bytes) :
    P.run (rdBytesI sz) bs = some (out, r) ↔
      0 ≤ sz ∧ sz ≤ (bs.length : Int) ∧ out = bs.take sz.toNat ∧ r = bs.drop sz.toNat := by
  unfold rdBytesI
  by_cases h : sz < 0
  · simp only [h, if_true, P.run_fail]
    constructor
    · intro h'; cases h'
    · intro ⟨h0, _⟩; omega
  · simp only [h, if_false]
    unfold rdBytes
    rw [P.run_read]
    by_cases hn : sz.toNat ≤ bs.length
    · rw [if_pos hn]
      simp only [P.run_pure, Option.some.injEq, Prod.mk.injEq]
      constructor
      · intro ⟨h1, h2⟩; exact ⟨by omega, by omega, h1.symm, h2.symm⟩
      · intro ⟨_, _, h1, h2⟩; exact ⟨h1.symm, h2.symm⟩
    · rw [if_neg hn]
      constructor
      · intro h'; cases h'
      · intro ⟨_, h1, _⟩; omega

/-! ### CheckCount -/

/-- `CheckCount(count, minBytes)` on a byte slice with `avail` bytes left: passes iff
    `0 ≤ count ≤ avail / max(minBytes, 1)` -/
def checkCount (count minBytes : Int) (avail : Nat) : Bool :=
  let mb : Int := if minBytes < 1 then 1 else minBytes
  !(decide (count < 0) || decide ((avail : Int) / mb < count))

theorem checkCount_iff (count : Int) (mb avail : Nat) (hmb : 1 ≤ mb) :
    checkCount count mb avail = true ↔ 0 ≤ count ∧ count.toNat * mb ≤ avail := by
  unfold checkCount
  have h1 : ¬ ((mb : Int) < 1) := by omega
  simp only [h1, if_false, Bool.not_eq_true', Bool.or_eq_false_iff, decide_eq_false_iff_not]
  constructor
  · intro ⟨h0, h2⟩
    have h0' : 0 ≤ count := by omega
    refine ⟨h0', ?_⟩
    obtain ⟨k, rfl⟩ := Int.eq_ofNat_of_zero_le h0'
    simp only [Int.toNat_natCast]
    have h3 : k ≤ avail / mb := by
      have : (k : Int) ≤ ((avail / mb : Nat) : Int) := by
        rw [Int.natCast_ediv]; omega
      exact Int.ofNat_le.mp this
    exact (Nat.le_div_iff_mul_le (by omega)).mp h3
  · intro ⟨h0, h2⟩
    refine ⟨by omega, ?_⟩
    obtain ⟨k, rfl⟩ := Int.eq_ofNat_of_zero_le h0
    simp only [Int.toNat_natCast] at h2
    have h3 : k ≤ avail / mb := (Nat.le_div_iff_mul_le (by omega)).mpr h2
    have : (k : Int) ≤ ((avail / mb : Nat) : Int) := Int.ofNat_le.mpr h3
    rw [Int.natCast_ediv] at this
    omega

/-- an array read as the Go code performs it on a byte slice: 16-bit count, `if sz == 0` shortcut,
    `CheckCount(sz, minBytes)`, then the elements -/
def runArrGuarded (dec : P α) (mb : Nat) (bs : Bytes) : Option (List α × Bytes) :=
  match P.run (rdI 2) bs with
  | none => none
  | some (n, r) =>
    if n = 0 then some ([], r)
    else if checkCount n mb r.length then P.run (decMany dec n.toNat) r else none

/-- the decimal-count arrays (`ReadDecimalArray`): decimal count, `CheckCount(sz, 1)`, the elements -/
def runDecArrGuarded (bs : Bytes) : Option (List Int × Bytes) :=
  match P.run decDecimal bs with
  | none => none
  | some (n, r) => if checkCount n 1 r.length then P.run (decMany decDecimal n.toNat) r else none

/-- "every successful element read consumes at least `mb` bytes" -/
def ConsumesAtLeast (dec : P α) (mb : Nat) : Prop :=
  ∀ bs x r, P.run dec bs = some (x, r) → r.length + mb ≤ bs.length

theorem decManyAcc_consumes (dec : P α) (mb : Nat) (hc : ConsumesAtLeast dec mb)
    (k : Nat) (acc : List α) (bs : Bytes) (xs : List α) (r : Bytes)
    (h : P.run (decManyAcc dec k acc) bs = some (xs, r)) : r.length + k * mb ≤ bs.length := by
  induction k generalizing acc bs with
  | zero =>
    simp only [decManyAcc, P.run_pure, Option.some.injEq, Prod.mk.injEq] at h
    rw [← h.2]; omega
  | succ k ih =>
    simp only [decManyAcc] at h
    rw [P.run_bind] at h
    cases hd : P.run dec bs with
    | none => rw [hd] at h; cases h
    | some p =>
      obtain ⟨x, r1⟩ := p
      rw [hd] at h
      have h1 := hc bs x r1 hd
      have h2 := ih (x :: acc) r1 h
      rw [Nat.succ_mul]; omega

/-- when the guard rejects a count, the element reads would have run out of bytes anyway -/
theorem decMany_none_of_guard (dec : P α) (mb : Nat) (hmb : 1 ≤ mb) (hc : ConsumesAtLeast dec mb)
    (n : Int) (hn : 0 ≤ n) (r : Bytes) (hg : checkCount n mb r.length = false) :
    P.run (decMany dec n.toNat) r = none := by
  cases hd : P.run (decMany dec n.toNat) r with
  | none => rfl
  | some p =>
    obtain ⟨xs, r'⟩ := p
    have h1 := decManyAcc_consumes dec mb hc n.toNat [] r xs r' hd
    have h2 : checkCount n mb r.length = true :=
      (checkCount_iff n mb r.length hmb).mpr ⟨hn, by omega⟩
    rw [hg] at h2; cases h2

/-- **CheckCount is invisible**: on every input, well formed or not, the guarded array read is
    the model's unguarded `decArr` — the guard only rejects what the element reads would reject -/
theorem runArrGuarded_eq (dec : P α) (mb : Nat) (hmb : 1 ≤ mb) (hc : ConsumesAtLeast dec mb)
    (bs : Bytes) : runArrGuarded dec mb bs = P.run (decArr dec) bs := by
  unfold runArrGuarded decArr
  rw [P.run_bind]
  cases hd : P.run (rdI 2) bs with
  | none => rfl
  | some p =>
    obtain ⟨n, r⟩ := p
    simp only []
    by_cases h0 : n = 0
    · subst h0; simp [decMany, decManyAcc]
    · rw [if_neg h0]
      by_cases hneg : n < 0
      · rw [if_pos hneg]
        have : checkCount n mb r.length = false := by
          cases hcc : checkCount n mb r.length with
          | false => rfl
          | true => have := (checkCount_iff n mb r.length hmb).mp hcc; omega
        rw [this]; simp
      · rw [if_neg hneg]
        cases hcc : checkCount n mb r.length with
        | true => simp
        | false =>
          simp only [Bool.false_eq_true, if_false]
          exact (decMany_none_of_guard dec mb hmb hc n (by omega) r hcc).symm

theorem runDecArrGuarded_eq (hc : ConsumesAtLeast decDecimal 1) (bs : Bytes) :
    runDecArrGuarded bs = P.run decDecArr bs := by
  unfold runDecArrGuarded decDecArr
  rw [P.run_bind]
  cases hd : P.run decDecimal bs with
  | none => rfl
  | some p =>
    obtain ⟨n, r⟩ := p
    simp only []
    by_cases hneg : n < 0
    · rw [if_pos hneg]
      have : checkCount n (1 : Nat) r.length = false := by
        cases hcc : checkCount n (1 : Nat) r.length with
        | false => rfl
        | true => have := (checkCount_iff n 1 r.length (by omega)).mp hcc; omega
      have e : checkCount n 1 r.length = checkCount n (1 : Nat) r.length := rfl
      rw [e, this]; simp
    · rw [if_neg hneg]
      have e : checkCount n 1 r.length = checkCount n (1 : Nat) r.length := rfl
      rw [e]
      cases hcc : checkCount n (1 : Nat) r.length with
      | true => simp
      | false =>
        simp only [Bool.false_eq_true, if_false]
        exact (decMany_none_of_guard decDecimal 1 (by omega) hc n (by omega) r hcc).symm

/-! the element readers of the six typed arrays and of the decimal arrays consume what the guard counts -/

theorem consumes_read (w : Nat) (f : Bytes → α) : ConsumesAtLeast (.read w (fun bs => .pure (f bs))) w := by
  intro bs x r h
  rw [P.run_read] at h
  by_cases hw : w ≤ bs.length
  · rw [if_pos hw] at h
    simp only [P.run_pure, Option.some.injEq, Prod.mk.injEq] at h
    rw [← h.2, List.length_drop]; omega
  · rw [if_neg hw] at h; cases h

theorem consumes_rdI (w : Nat) : ConsumesAtLeast (rdI w) w := consumes_read w _
theorem consumes_rdU (w : Nat) : ConsumesAtLeast (rdU w) w := consumes_read w _

/-- a decoder that starts by reading one byte consumes at least one byte -/
theorem consumes_read1 (k : Bytes → P α) : ConsumesAtLeast (.read 1 k) 1 := by
  intro bs x r h
  rw [P.run_read] at h
  by_cases hw : 1 ≤ bs.length
  · rw [if_pos hw] at h
    have := P.run_length_le _ _ _ _ h
    rw [List.length_drop] at this; omega
  · rw [if_neg hw] at h; cases h

theorem consumes_decBlob : ConsumesAtLeast decBlob 1 := consumes_read1 _
theorem consumes_decDecimal : ConsumesAtLeast decDecimal 1 := consumes_read1 _

/-! ### an array read as the regenerated structure describes it (tie A: `Gen.C01.arrayReaders`)

  count reader, optional `if sz == 0` shortcut, optional `CheckCount(sz, mb)` (`mb = 0`: none),
  `make([]T, sz)` (panics for a negative size), then `sz` element reads. -/

/-- the model's array decoders, with the count decoder as a parameter:
    `decArr dec = decArrG (rdI 2) dec`, `decDecArr = decArrG decDecimal decDecimal` -/
def decArrG (cnt : P Int) (dec : P α) : P (List α) :=
  P.bind cnt (fun n => if n < 0 then .fail else decMany dec n.toNat)

theorem decArr_eq_decArrG (dec : P α) : decArr dec = decArrG (rdI 2) dec := rfl
theorem decDecArr_eq_decArrG : decDecArr = decArrG decDecimal decDecimal := rfl

def arrSemG (cnt : P Int) (zero : Bool) (mb : Nat) (dec : P α) (bs : Bytes) : Option (List α × Bytes) :=
  match P.run cnt bs with
  | none => none
  | some (n, r) =>
    if (zero && n == 0) = true then some ([], r)
    else if (mb != 0 && !(checkCount n mb r.length)) = true then none
    else if n < 0 then none
    else P.run (decMany dec n.toNat) r

theorem consumes_mono (dec : P α) (w mb : Nat) (h : mb ≤ w) (hc : ConsumesAtLeast dec w) :
    ConsumesAtLeast dec mb := fun bs x r hr => by have := hc bs x r hr; omega

/-- whatever the shortcut and whatever guard constant `mb ≤ w` the code uses (or none), the array
    read of the code is the model's array decoder, on every input -/
theorem arrSemG_eq (cnt : P Int) (dec : P α) (w : Nat) (hc : ConsumesAtLeast dec w) (zero : Bool)
    (mb : Nat) (hmb : mb ≤ w) (bs : Bytes) :
    arrSemG cnt zero mb dec bs = P.run (decArrG cnt dec) bs := by
  unfold arrSemG decArrG
  rw [P.run_bind]
  cases hd : P.run cnt bs with
  | none => rfl
  | some p =>
    obtain ⟨n, r⟩ := p
    simp only []
    by_cases hA : (zero && n == 0) = true
    · rw [if_pos hA]
      have h0 : n = 0 := by
        simp only [Bool.and_eq_true, beq_iff_eq] at hA; exact hA.2
      subst h0; simp [decMany, decManyAcc]
    · rw [if_neg hA]
      by_cases hB : (mb != 0 && !(checkCount n mb r.length)) = true
      · rw [if_pos hB]
        simp only [Bool.and_eq_true, bne_iff_ne, ne_eq, Bool.not_eq_true'] at hB
        by_cases hneg : n < 0
        · simp [hneg]
        · rw [if_neg hneg]
          exact (decMany_none_of_guard dec mb (by omega) (consumes_mono dec w mb hmb hc) n (by omega) r hB.2).symm
      · rw [if_neg hB]
        by_cases hneg : n < 0
        · simp [hneg]
        · simp [hneg]

theorem run_map_eq (f : α → β) (p : P α) (bs : Bytes) :
    P.run (P.map f p) bs = (P.run p bs).map (fun x => (f x.1, x.2)) := by
  unfold P.map
  rw [P.run_bind]
  cases P.run p bs with
  | none => rfl
  | some x => rfl

/-! ### ToX(buf, pos), Get(buf, pos, sz): a field at an offset -/

/-- the `w` bytes at `pos` (an index out of range panics) -/
def getAt (buf : Bytes) (pos w : Nat) : Option Bytes :=
  if pos + w ≤ buf.length then some ((buf.drop pos).take w) else none

theorem getAt_embedded (pre f suf : Bytes) :
    getAt (pre ++ f ++ suf) pre.length f.length = some f := by
  unfold getAt
  have : pre.length + f.length ≤ (pre ++ f ++ suf).length := by simp
  rw [if_pos this, List.append_assoc, List.drop_left, List.take_left]

/-- `ToBool`: any non-zero byte is true (`ReadBool` on a stream is `== 1`; the writers only emit 0 and 1) -/
def toBool (bs : Bytes) : Bool := bs.headD 0 != 0

/-- the typed readers at an offset: `ToShort/ToInt3/ToInt/ToLong5/ToLong(buf, pos)` (signed),
    `ToUShort/ToUint/ToLong6` (unsigned), the little-endian ones, `ToBool` -/
def fieldI (w : Nat) (buf : Bytes) (pos : Nat) : Option Int := (getAt buf pos w).map (decI w)
def fieldU (w : Nat) (buf : Bytes) (pos : Nat) : Option Nat := (getAt buf pos w).map unbeN
def fieldILittle (w : Nat) (buf : Bytes) (pos : Nat) : Option Int := (getAt buf pos w).map (decILittle w)
def fieldULittle (w : Nat) (buf : Bytes) (pos : Nat) : Option Nat := (getAt buf pos w).map unleN
def fieldBool (buf : Bytes) (pos : Nat) : Option Bool := (getAt buf pos 1).map toBool

/-- `SetBytesX(buf, off, v)` / `SetBytes(dest, pos, src)`: overwrite `bs.length` bytes at `off` -/
def setAt (buf : Bytes) (off : Nat) (bs : Bytes) : Option Bytes :=
  if off + bs.length ≤ buf.length then some (buf.take off ++ bs ++ buf.drop (off + bs.length)) else none

theorem setAt_spec (buf : Bytes) (off : Nat) (bs out : Bytes) (h : setAt buf off bs = some out) :
    out.length = buf.length ∧ getAt out off bs.length = some bs ∧
    out.take off = buf.take off ∧ out.drop (off + bs.length) = buf.drop (off + bs.length) := by
  unfold setAt at h
  by_cases hl : off + bs.length ≤ buf.length
  · rw [if_pos hl] at h
    simp only [Option.some.injEq] at h
    subst h
    have ht : (buf.take off).length = off := by rw [List.length_take]; omega
    refine ⟨?_, ?_, ?_, ?_⟩
    · simp only [List.length_append, List.length_take, List.length_drop]; omega
    · have := getAt_embedded (buf.take off) bs (buf.drop (off + bs.length))
      rw [ht] at this; exact this
    · rw [List.append_assoc, List.take_append_of_le_length (by omega), List.take_of_length_le (by omega)]
    · have e : (buf.take off ++ bs).length = off + bs.length := by simp [ht]
      exact List.drop_left' e
  · rw [if_neg hl] at h; cases h

/-! ### histories of one DataOutputX -/

inductive WStep where
  | op (o : Op)
  | bytes (b : Bytes)                                     -- WriteBytes(b)
  | window (b : Bytes) (off sz : Nat)                     -- Write(b, off, sz)
  | header (src ver : Nat) (pcode lic : Int)              -- WriteHeader / WriteOneWayHeader
  | secureHeader (src ver : Nat) (pcode oid key : Int)    -- WriteSecureHeader

def Writer.step (w : Writer) : WStep → Writer
  | .op o => w.op o
  | .bytes b => w.put b
  | .window b off sz => w.window b off sz
  | .header s v p l => w.header s v p l
  | .secureHeader s v p o k => w.secureHeader s v p o k

/-- the abstract specification: what the stream holds after a history, as a function of the
    bytes it held before — a header makes those bytes the int-length payload of a frame -/
def specStep (acc : Bytes) : WStep → Bytes
  | .op o => acc ++ writeOp o
  | .bytes b => acc ++ b
  | .window b off sz => acc ++ (b.drop off).take sz
  | .header s v p l => writeAll [.byte s, .byte v, .long p, .long l, .intBytes acc]
  | .secureHeader s v p o k => writeAll [.byte s, .byte v, .long p, .int o, .int k, .intBytes acc]

/-- what the Go API accepts without panicking: a window inside its slice -/
def WStep.ok : WStep → Prop
  | .window b off sz => off + sz ≤ b.length
  | _ => True

theorem Writer.step_spec (w : Writer) (s : WStep) (hs : s.ok) (hw : w.written = w.buf.length) :
    (w.step s).buf = specStep w.buf s ∧ (w.step s).written = (w.step s).buf.length := by
  cases s with
  | op o =>
    have := Writer.op_spec w o
    simp only [Writer.step, specStep]
    exact ⟨this.1, by rw [this.2, this.1, hw]; simp⟩
  | bytes b =>
    simp only [Writer.step, specStep]
    exact ⟨Writer.put_buf w b, by rw [Writer.put_buf]; simp [Writer.put, hw]⟩
  | window b off sz =>
    have := Writer.window_spec w b off sz hs
    simp only [Writer.step, specStep]
    refine ⟨this.1, ?_⟩
    rw [this.2, this.1, hw]
    simp only [List.length_append, List.length_take, List.length_drop]
    have : off + sz ≤ b.length := hs
    omega
  | header s v p l => exact Writer.header_spec w s v p l
  | secureHeader s v p o k => exact Writer.secureHeader_spec w s v p o k

theorem Writer.history_spec (h : List WStep) (w : Writer) (hs : ∀ s ∈ h, s.ok)
    (hw : w.written = w.buf.length) :
    (h.foldl Writer.step w).buf = h.foldl specStep w.buf ∧
    (h.foldl Writer.step w).written = (h.foldl Writer.step w).buf.length := by
  induction h generalizing w with
  | nil => exact ⟨rfl, hw⟩
  | cons s t ih =>
    have h1 := Writer.step_spec w s (hs s (by simp)) hw
    have h2 := ih (w.step s) (fun x hx => hs x (by simp [hx])) h1.2
    simp only [List.foldl_cons]
    rw [← h1.1]
    exact h2

end Prim
