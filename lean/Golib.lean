import Golib.Basic
