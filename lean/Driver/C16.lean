/-
  Driver.C16 — runs the ZipSender CodeModel on whole histories (one per line).

    R <variant> <w>,<q>,<b>,<z>                → settings chosen by GetInstance for that option struct
    C <q|-> <w|-> <b|-> <z|->                  → settings after ApplyConfig (`-` = key absent)
    H <variant> <w>,<q>,<b>,<z> <op>;<op>;…    → <pack>;<pack>;… | <final state>

  variant  fixed | found
  op       a:<rec>  Add            s  one loop iteration      x  stop
           p:<rec>  Append         d:<rec>|<rec>|…  SendDirect (d:- for none)
           c:<q|->,<w|->,<b|->,<z|->  ApplyConfig
  rec      <id>:<time>:<hex of the encoded record>   or   <id>:<time>:#<n>  (n zero bytes stand for a long encoding)
  pack     <S|D>:<count>:<zipped 0|1>:<o|s|d<k>>:<payload length>:<hash>:<ids>
           (gzip is the identity here: length and hash are those of the uncompressed payload)
  state    buf=<ids> count=<n> len=<n> first=<t> queue=<ids> set=<w>,<q>,<b>,<z> stopped=<0|1>
-/
import Golib.ZipSender.Model
import Driver.Common

open ZipSender Drv

structure DRec where
  id : Nat
  time : Int
  bytes : Bytes

def dcodec : Codec DRec := ⟨(·.bytes), (·.time)⟩
def dzip : Zip := ⟨id⟩

def parseVariant : String → Option Variant
  | "fixed" => some Variant.fixed
  | "found" => some Variant.asFound
  | _ => none

def parseSettings (s : String) : Option Settings :=
  match s.splitOn "," with
  | [w, q, b, z] => do
    let w ← parseInt w; let q ← parseInt q; let b ← parseInt b; let z ← parseInt z
    pure ⟨w, q, b, z⟩
  | _ => none

def parseOptInt (s : String) : Option (Option Int) :=
  if s == "-" then some none else (parseInt s).map some

def parseConf (q w b z : String) : Option Conf := do
  let q ← parseOptInt q; let w ← parseOptInt w; let b ← parseOptInt b; let z ← parseOptInt z
  pure ⟨q, w, b, z⟩

def parseRec (s : String) : Option DRec :=
  match s.splitOn ":" with
  | [i, t, h] => do
    let i ← parseNat i; let t ← parseInt t
    let h ← (if h.startsWith "#" then (parseNat (h.drop 1).toString).map (List.replicate · 0) else ofHex h)
    pure ⟨i, t, h⟩
  | _ => none

def parseOp (s : String) : Option (In DRec) :=
  if s == "s" then some .step
  else if s == "x" then some .stop
  else if s.startsWith "a:" then (parseRec (s.drop 2).toString).map .add
  else if s.startsWith "p:" then (parseRec (s.drop 2).toString).map .append
  else if s.startsWith "d:" then
    let body := (s.drop 2).toString
    if body == "-" then some (.sendDirect []) else ((body.splitOn "|").mapM parseRec).map .sendDirect
  else if s.startsWith "c:" then
    match ((s.drop 2).toString).splitOn "," with
    | [q, w, b, z] => (parseConf q w b z).map .applyConfig
    | _ => none
  else none

def showSettings (s : Settings) : String := s!"{s.maxWait},{s.queueCap},{s.maxBuf},{s.zipMin}"

def hashBytes (bs : Bytes) : Nat := bs.foldl (fun h b => (h * 31 + b + 1) % 4294967296) 7

def showRef : Ref → String
  | .owned => "o"
  | .sharedBuf => "s"
  | .directBuf k => s!"d{k}"

def ids (rs : List DRec) : String := listOf (fun r => toString r.id) rs

def showPack (p : Pack DRec) : String :=
  let src := match p.src with | .shared => "S" | .direct => "D"
  s!"{src}:{p.count}:{if p.zipped then 1 else 0}:{showRef p.ref}:{p.payload.length}:{hashBytes p.payload}:{ids p.recs}"

def showState (s : State DRec) : String :=
  s!"buf={ids s.buf.reverse} count={s.count} len={s.bufLen} first={s.firstTime} queue={ids s.queue} set={showSettings s.settings} stopped={if s.stopped then 1 else 0}"

def answer (line : String) : String :=
  match line.splitOn " " with
  | ["R", v, o] =>
    match parseVariant v, parseSettings o with
    | some v, some o => showSettings (resolve v o)
    | _, _ => "bad-op"
  | ["C", q, w, b, z] =>
    match parseConf q w b z with
    | some c => showSettings c.resolve
    | none => "bad-op"
  | ["H", v, st, ops] =>
    match parseVariant v, parseSettings st, (if ops == "-" then some [] else (ops.splitOn ";").mapM parseOp) with
    | some v, some st, some ops =>
      let (s, out) := run v dzip dcodec (init st) ops
      let ps := if out.isEmpty then "-" else ";".intercalate (out.map (fun x => showPack x.2))
      s!"{ps} | {showState s}"
    | _, _, _ => "bad-op"
  | _ => "bad-op"

def main : IO Unit := statelessLoop answer
