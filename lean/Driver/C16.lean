/-
  Driver.C16 — runs the ZipSender CodeModel on whole histories (one per line).

    R <variant> <w>,<q>,<b>,<z>                → settings chosen by GetInstance for that option struct
    C <q|-> <w|-> <b|-> <z|->                  → settings after ApplyConfig (`-` = key absent)
    H <variant> <w>,<q>,<b>,<z> <op>;<op>;… [<fault>]   → <pack>;<pack>;… | <final state>
    L <variant> <w>,<q>,<b>,<z> <act>;<act>;… [<fault>] → the same for the loop machine (Golib.ZipSender.Loop),
                                                           followed by  pc=<top|poll@<deadline>|exited> cancelled=<0|1>

  fault    which hand-overs the client answers with an error: first | all | every:<k> | random:<pct>:<salt>
  act      a:<rec>  d:<rec>|…  c:…  as below;  k  cancel;  t<now>  the loop's select (GetTimeout reads the clock: now);
           p<now>  one round of GetTimeout (GetNoWait; empty-handed: sleep, clock reading now, deadline test)

  variant  fixed | found
  op       a:<rec>  Add            s  one loop iteration      x  stop
           p:<rec>  Append         d:<rec>|<rec>|…  SendDirect (d:- for none)
           c:<q|->,<w|->,<b|->,<z|->  ApplyConfig
  rec      <id>:<time>:!   a record whose serialisation fails (Append drops it)   or
           <id>:<time>:<hex of the encoded record>   or   <id>:<time>:#<n>  (n zero bytes stand for a long encoding)
  pack     <S|D>:<count>:<zipped 0|1>:<o|s|d<k>>:<payload length>:<hash>:<ids>
           (gzip is the identity here: length and hash are those of the uncompressed payload)
  state    buf=<ids> count=<n> len=<n> first=<t> queue=<ids> set=<w>,<q>,<b>,<z> stopped=<0|1>

  H histories may contain  k:<n>  SetTcpClient(client n)  (Golib.ZipSender.Client); every pack of an H answer
  ends in  @<n>  = the client whose SendFlush received it (0 = the client given at construction).

    W <pcode>,<oid>,<okind>,<onode>,<time> <status> <count> <hex|->   → hex of pack.WritePack of that ZipPack
    U <hex>   → pack.ReadPack of the bytes: <pcode>,<oid>,<okind>,<onode>,<time> <status> <count> <hex|-> rest=<n> | none
                (Golib.ZipSender.Wire: regenerated ZipPack layouts)
-/
import Golib.ZipSender.Model
import Golib.ZipSender.Loop
import Golib.ZipSender.Client
import Golib.ZipSender.Wire
import Driver.Common

open ZipSender Drv

structure DRec where
  id : Nat
  time : Int
  bytes : Bytes
  bad : Bool := false   -- the record cannot be serialised (`<id>:<time>:!`)

def dcodec : Codec DRec := ⟨(·.bytes), (·.time), (·.bad)⟩
def dzip : Zip := ⟨id⟩

def parseVariant : String → Option Variant
  | "fixed" => some Variant.fixed
  | "found" => some Variant.asFound
  | "noreset" => some Variant.returnOnError
  | "countfirst" => some Variant.countFirst
  | _ => none

def parseSettings (s : String) : Option Settings :=
  match s.splitOn "," with
  | [w, q, b, z] => do
    let w ← parseInt w; let q ← parseInt q; let b ← parseInt b; let z ← parseInt z
    pure ⟨w, q, b, z⟩
  | _ => none

def parseOptInt (s : String) : Option (Option Int) :=
  if s == "-" then some none else (parseInt s).map some

def parseConf (q w b z : String) : Option Conf := do
  let q ← parseOptInt q; let w ← parseOptInt w; let b ← parseOptInt b; let z ← parseOptInt z
  pure ⟨q, w, b, z⟩

def parseRec (s : String) : Option DRec :=
  match s.splitOn ":" with
  | [i, t, h] => do
    let i ← parseNat i; let t ← parseInt t
    if h == "!" then return ⟨i, t, [], true⟩
    let h ← (if h.startsWith "#" then (parseNat (h.drop 1).toString).map (List.replicate · 0) else ofHex h)
    pure ⟨i, t, h, false⟩
  | _ => none

def parseOp (s : String) : Option (In DRec) :=
  if s == "s" then some .step
  else if s == "x" then some .stop
  else if s.startsWith "a:" then (parseRec (s.drop 2).toString).map .add
  else if s.startsWith "p:" then (parseRec (s.drop 2).toString).map .append
  else if s.startsWith "d:" then
    let body := (s.drop 2).toString
    if body == "-" then some (.sendDirect []) else ((body.splitOn "|").mapM parseRec).map .sendDirect
  else if s.startsWith "c:" then
    match ((s.drop 2).toString).splitOn "," with
    | [q, w, b, z] => (parseConf q w b z).map .applyConfig
    | _ => none
  else none

def showSettings (s : Settings) : String := s!"{s.maxWait},{s.queueCap},{s.maxBuf},{s.zipMin}"

def hashBytes (bs : Bytes) : Nat := bs.foldl (fun h b => (h * 31 + b + 1) % 4294967296) 7

def showRef : Ref → String
  | .owned => "o"
  | .sharedBuf => "s"
  | .directBuf k => s!"d{k}"

def ids (rs : List DRec) : String := listOf (fun r => toString r.id) rs

def showPack (p : Pack DRec) : String :=
  let src := match p.src with | .shared => "S" | .direct => "D"
  s!"{src}:{p.count}:{if p.zipped then 1 else 0}:{showRef p.ref}:{p.payload.length}:{hashBytes p.payload}:{ids p.recs}"

def showState (s : State DRec) : String :=
  s!"buf={ids s.buf.reverse} count={s.count} len={s.bufLen} first={s.firstTime} queue={ids s.queue} set={showSettings s.settings} stopped={if s.stopped then 1 else 0}"

/-- the harness's `faultAt` (harness/c16/spec.go), on 64-bit words -/
def faultAt (spec : String) (n : Nat) : Bool :=
  match spec.splitOn ":" with
  | ["first"] => n == 0
  | ["all"] => true
  | ["every", k] => match parseNat k with | some k => k > 0 && (n + 1) % k == 0 | none => false
  | ["random", pct, salt] =>
    match parseNat pct, parseNat salt with
    | some pct, some salt =>
      let m := 18446744073709551616
      let x := (((n + 1) * 0x9E3779B97F4A7C15) % m) ^^^ ((salt * 0xBF58476D1CE4E5B9) % m)
      let x := x ^^^ (x >>> 29)
      let x := (x * 0x94D049BB133111EB) % m
      let x := x ^^^ (x >>> 32)
      x % 100 < pct
    | _, _ => false
  | _ => false

/-- the client's answers (true = no error) for the first `n` hand-overs -/
def answersOf (spec : String) (n : Nat) : List Bool :=
  if spec == "" then [] else (List.range n).map (fun i => !faultAt spec i)

def opWeight : In DRec → Nat
  | .add _ => 2 | .append _ => 2 | .sendDirect rs => rs.length + 2 | _ => 2

def parseAct (s : String) : Option (Act DRec) :=
  if s == "k" then some .cancel
  else if s.startsWith "p" then (parseInt (s.drop 1).toString).map .poll
  else if s.startsWith "t" then (parseInt (s.drop 1).toString).map .select
  else match parseOp s with
    | some (.add r) => some (.add r)
    | some (.sendDirect rs) => some (.sendDirect rs)
    | some (.applyConfig c) => some (.applyConfig c)
    | _ => none

def actWeight : Act DRec → Nat
  | .sendDirect rs => rs.length + 2 | _ => 2

def showPC : PC → String
  | .top => "top" | .polling n => s!"poll@{n}" | .exited => "exited"

def parseCOp (s : String) : Option (CIn DRec) :=
  if s.startsWith "k:" then (parseNat (s.drop 2).toString).map .setClient
  else (parseOp s).map .op

def copWeight : CIn DRec → Nat
  | .op i => opWeight i
  | .setClient _ => 0

def answerH (v st ops fault : String) : String :=
  match parseVariant v, parseSettings st, (if ops == "-" then some [] else (ops.splitOn ";").mapM parseCOp) with
  | some v, some st, some ops =>
    let n := ops.foldl (fun a o => a + copWeight o) 2
    let ((s, _), out) := crun v dzip dcodec (init st (answersOf fault n)) 0 ops
    let ps := if out.isEmpty then "-" else ";".intercalate (out.map (fun x => s!"{showPack x.pack}@{x.dest}"))
    s!"{ps} | {showState s}"
  | _, _, _ => "bad-op"

def parseHdr (s : String) : Option Layout.Hdr :=
  match s.splitOn "," with
  | [a, b, c, d, e] => do
    let a ← parseInt a; let b ← parseInt b; let c ← parseInt c; let d ← parseInt d; let e ← parseInt e
    pure ⟨a, b, c, d, e⟩
  | _ => none

def hexOrDash (bs : Bytes) : String := if bs.isEmpty then "-" else hexOf bs

def answerW (h st c recs : String) : String :=
  match parseHdr h, parseInt st, parseInt c, (if recs == "-" then some [] else ofHex recs) with
  | some h, some st, some c, some recs => hexOf (ZipSender.Wire.wire h st c recs)
  | _, _, _, _ => "bad-op"

def answerU (bytes : String) : String :=
  match ofHex bytes with
  | none => "bad-op"
  | some bs =>
    match ZipSender.Wire.unwire ZipSender.Wire.facZ bs with
    | none => "none"
    | some (rc, rest) =>
      s!"{rc.hdr.pcode},{rc.hdr.oid},{rc.hdr.okind},{rc.hdr.onode},{rc.hdr.time} {rc.status} {rc.count} {hexOrDash rc.records} rest={rest.length}"

def answerL (v st acts fault : String) : String :=
  match parseVariant v, parseSettings st, (if acts == "-" then some [] else (acts.splitOn ";").mapM parseAct) with
  | some v, some st, some acts =>
    let n := acts.foldl (fun a o => a + actWeight o) 2
    let (l, out) := lrun v dzip dcodec (linit st (answersOf fault n)) acts
    let ps := if out.isEmpty then "-" else ";".intercalate (out.map showPack)
    s!"{ps} | {showState l.core} pc={showPC l.pc} cancelled={if l.cancelled then 1 else 0}"
  | _, _, _ => "bad-op"

def answer (line : String) : String :=
  match line.splitOn " " with
  | ["R", v, o] =>
    match parseVariant v, parseSettings o with
    | some v, some o => showSettings (resolve v o)
    | _, _ => "bad-op"
  | ["C", q, w, b, z] =>
    match parseConf q w b z with
    | some c => showSettings c.resolve
    | none => "bad-op"
  | ["H", v, st, ops] => answerH v st ops ""
  | ["H", v, st, ops, fault] => answerH v st ops fault
  | ["W", h, st, c, recs] => answerW h st c recs
  | ["U", bytes] => answerU bytes
  | ["L", v, st, acts] => answerL v st acts ""
  | ["L", v, st, acts, fault] => answerL v st acts fault
  | _ => "bad-op"

def main : IO Unit := statelessLoop answer
