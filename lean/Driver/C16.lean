-- stub: replaced by the C16 driver
def main : IO Unit := pure ()
