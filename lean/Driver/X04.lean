/-
  Driver.X04 — runs the X04 CodeModels (Golib.Ext.Topo, Golib.Ext.SafeLoop) on request lines.
  Strings travel as hex (`-` = empty).

    P4 <hex>                      parseV4 (net.LookupIP of a dotted quad)       → none | <hex of 4 bytes>
    I <iphex>                     IPO{IP}.IsIPv6, IsLocal127                    → <0|1><0|1>
    N <ext> <attr> <ops>          one NODE history from NewNODE()
         ext : `-` or `,`-separated  <hex>=e | <hex>=o | <hex>=v<hex>   what net.LookupIP says for the strings that
               are not dotted quads (the resolver parameter of the model); a string not listed is an error
         attr: hex of WriteValue(Attr) (type byte 80 + map)
         ops `;`-separated:  L:<local+local+…|->:<addr>[:<the same locals in the StringSet's enumeration order>]   AddListen → .
                             O:<local>:<remote>           AddOutter          → .
                             A:<iphex>:<port>             IsAttachable       → 0 | 1
                             B                            ToBytes            → hex
    D <hex>                       NewNODE().ToObject(bytes) then ToBytes        → fail | ok <hex>
    S <ops>                       one panicutil history from the state of a fresh process (`;`-separated)
         m:nil | m:nilmap | m:<hex>=<0|1>+…  | m:-       SetLoopOffMap       → . | panic
         o:<hex>:<0|1>  SetOnOff → . | panic      a:<0|1>  AllOff = b → .
         s:<hex>:<r|p|a>          Safe(name, cb)  cb returns / panics / sets AllOff       → s<ran><escaped>
         f:<hex>:<p|a><k>:<fuel>[:s]  SafeFor(name, cb) cb returns k times, then panics / sets AllOff → f<runs><r|e|s|f>
         r  ResetPerfMap → k<sorted hex keys `,`>      c:<id>  Cycle → . | panic      q:<id>  cyclecounts[id] → n<count>
    K next <bits> <seed> <pos> | K int <i> | K long <i> | K add <ty,ty,…|->     keygen logic (the PRNG values come with the request)
    Y <ops>                       DateSyncTime life cycle: st:<now>  sp  is  t:<t>:<now>   → . | panic | 0 | 1, then `|sync,last`
-/
import Golib.Ext.Topo
import Golib.Ext.SafeLoop
import Driver.Common

open Drv Ext.Keys

namespace T
open Ext.Topo

def parseExt (s : String) : Option (List (Bytes × Look)) :=
  if s == "-" then some [] else
  (s.splitOn ",").mapM (fun e =>
    match e.splitOn "=" with
    | [k, v] => do
      let kb ← ofHex k
      if v == "e" then pure (kb, Look.err)
      else if v == "o" then pure (kb, Look.other)
      else if v.startsWith "v" then do
        let ip ← ofHex (String.ofList (v.toList.drop 1))
        pure (kb, Look.v4 ip)
      else none
    | _ => none)

def extOf (tab : List (Bytes × Look)) : Ext := fun s =>
  match tab.find? (fun p => p.1 == s) with
  | some p => p.2
  | none => .err

def parseLocals (s : String) : Option (List Bytes) :=
  if s == "-" then some [] else (s.splitOn "+").mapM ofHex

def nodeOp (ext : Ext) (n : NODE) (op : String) : NODE × String :=
  match op.splitOn ":" with
  | ["L", ls, a] =>
    match parseLocals ls, ofHex a with
    | some ls, some a => (addListen ext n ls a, ".")
    | _, _ => (n, "bad")
  | ["L", _inserted, a, enumerated] =>
    match parseLocals enumerated, ofHex a with
    | some ls, some a => (addListen ext n ls a, ".")
    | _, _ => (n, "bad")
  | ["O", l, r] =>
    match ofHex l, ofHex r with
    | some l, some r => (addOutter ext n l r, ".")
    | _, _ => (n, "bad")
  | ["A", ip, p] =>
    match ofHex ip, parseInt p with
    | some ip, some p => (n, if isAttachable n ⟨ip, p⟩ then "1" else "0")
    | _, _ => (n, "bad")
  | ["B"] => (n, hexOf (toBytes n))
  | _ => (n, "bad")

def nodeLine (ext attr ops : String) : String :=
  match parseExt ext, ofHex attr with
  | some tab, some ab =>
    match Value.decode ab with
    | some (.map kvs, []) =>
      let rec go (n : NODE) (ops : List String) (acc : List String) : List String :=
        match ops with
        | [] => acc.reverse
        | op :: rest => let (n', o) := nodeOp (extOf tab) n op; go n' rest (o :: acc)
      ";".intercalate (go ⟨kvs, [], []⟩ (ops.splitOn ";") [])
    | _ => "badattr"
  | _, _ => "bad"

def decLine (hex : String) : String :=
  match ofHex hex with
  | none => "bad"
  | some bs =>
    match toObject bs with
    | none => "fail"
    | some (n, _) => s!"ok {hexOf (toBytes n)}"

end T

namespace S
open Ext.Safe

def parseMap (s : String) : Option (List (Name × Bool)) :=
  if s == "-" then some [] else
  (s.splitOn "+").mapM (fun e =>
    match e.splitOn "=" with
    | [k, v] => (ofHex k).map (fun kb => (kb, v == "1"))
    | _ => none)

def cbOf (kind : Char) (k : Nat) : Cb := fun i =>
  if i < k then .ret else if kind == 'p' then .panic else .allOff

def endCh : End → String
  | .returned => "r" | .escaped => "e" | .spins => "s" | .fuel => "f"

def b (x : Bool) : String := if x then "1" else "0"

def insertSorted (x : String) : List String → List String
  | [] => [x]
  | y :: r => if x < y then x :: y :: r else y :: insertSorted x r

def showOut : Out → String
  | .unit => "."
  | .panic => "panic"
  | .safe r e => s!"s{b r}{b e}"
  | .safeFor n e => s!"f{n}{endCh e}"
  | .keys ks => "k" ++ ",".intercalate ((ks.map hexOf).foldl (fun acc x => insertSorted x acc) [])

def parseOp (op : String) : Option (Sum Op Int) :=
  match op.splitOn ":" with
  | ["m", "nil"] => some (.inl (.setMap none))
  | ["m", "nilmap"] => some (.inl (.setMap (some none)))
  | ["m", m] => (parseMap m).map (fun m => .inl (.setMap (some (some m))))
  | ["o", n, v] => (ofHex n).map (fun n => .inl (.setOnOff n (v == "1")))
  | ["a", v] => some (.inl (.setAllOff (v == "1")))
  | ["s", n, c] =>
    (ofHex n).map (fun n => .inl (.safe n (match c with | "r" => fun _ => .ret | "p" => fun _ => .panic | _ => fun _ => .allOff)))
  | "f" :: n :: c :: fuel :: _hint =>
    match ofHex n, c.toList, parseNat fuel with
    | some n, kind :: ks, some fuel => (parseNat (String.ofList ks)).map (fun k => .inl (.safeFor n (cbOf kind k) fuel))
    | _, _, _ => none
  | ["r"] => some (.inl .resetPerf)
  | ["c", id] => (parseInt id).map (fun id => .inl (.cycle id))
  | ["q", id] => (parseInt id).map .inr
  | _ => none

def line (ops : String) : String :=
  let rec go (st : State) (ops : List String) (acc : List String) : List String :=
    match ops with
    | [] => acc.reverse
    | op :: rest =>
      match parseOp op with
      | none => go st rest ("bad" :: acc)
      | some (.inr id) => go st rest (s!"n{st.counts id}" :: acc)
      | some (.inl o) => let r := step st o; go r.1 rest (showOut r.2 :: acc)
  ";".intercalate (go State.init (ops.splitOn ";") [])

end S

namespace K
open Ext.Key

def tyOf : String → ArgTy
  | "int8" => .int8 | "int16" => .int16 | "int32" => .int32 | "int64" => .int64
  | "uint8" => .uint8 | "uint16" => .uint16 | "uint32" => .uint32 | "uint64" => .uint64
  | "float32" => .float32 | "float64" => .float64 | _ => .other

/-- the generator instance of one request: constant answers -/
def constPrng (bits : Nat) : Prng Unit := ⟨fun _ => (), fun _ => (bits, ()), fun _ _ => (0, ()), fun _ _ => (0, ())⟩

def showOut : Out → String
  | .unit => "ok" | .val v => toString v | .panic => "panic"

def line : List String → String
  | "next" :: bits :: _seedAndPosition => match parseNat bits with
    | some b => showOut (step (constPrng b) () .next).2
    | none => "bad"
  | ["int", i] => match parseInt i with
    | some i => (match (step (constPrng 0) () (.randInt i)).2 with | .panic => "panic" | _ => "ok")
    | none => "bad"
  | ["long", i] => match parseInt i with
    | some i => (match (step (constPrng 0) () (.randLong i)).2 with | .panic => "panic" | _ => "ok")
    | none => "bad"
  | ["add", tys] =>
    let args := if tys == "-" then [] else (tys.splitOn ",").map tyOf
    showOut (step (constPrng 0) () (.addSeed 0 args)).2
  | _ => "bad"

end K

namespace Y
open Ext.Sync

def showOut : Out → String
  | .unit => "." | .bool x => if x then "1" else "0" | .panic => "panic"

def parseOp (op : String) : Option Op :=
  match op.splitOn ":" with
  | ["st", now] => (parseInt now).map .start
  | ["sp"] => some .stop
  | ["is"] => some .isSync
  | ["t", t, now] => match parseInt t, parseInt now with
    | some t, some now => some (.tick t now)
    | _, _ => none
  | _ => none

def line (ops : String) : String :=
  match (ops.splitOn ";").mapM parseOp with
  | none => "bad"
  | some os =>
    let r := run State.init os
    ";".intercalate (r.2.map showOut) ++ s!"|{r.1.sync},{r.1.last}"

end Y

def answer (l : String) : String :=
  match l.splitOn " " with
  | ["P4", h] => match ofHex h with
    | some bs => (match Ext.Topo.parseV4 bs with | some ip => hexOf ip | none => "none")
    | none => "bad"
  | ["I", h] => match ofHex h with
    | some ip =>
      let o : Ext.Topo.IPO := ⟨ip, []⟩
      S.b o.isIPv6 ++ S.b o.isLocal127
    | none => "bad"
  | ["N", ext, attr, ops] => T.nodeLine ext attr ops
  | ["D", h] => T.decLine h
  | ["S", ops] => S.line ops
  | "K" :: rest => K.line rest
  | ["Y", ops] => Y.line ops
  | _ => "bad"

def main : IO Unit := Drv.statelessLoop answer
