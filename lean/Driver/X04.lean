import Driver.Common
/-! Driver of the extension check X04 (placeholder until the model exists). -/
def main : IO Unit := pure ()
