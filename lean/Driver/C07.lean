/-
  Driver.C07 — runs the C07 CodeModel (Golib.Udp.*) on operation lines.

    W <type> <ver> <rec>            →  <hex of the writer's bytes>
    R <type> <ver> <rec> <hex>      →  ok <rec of all struct fields after Read> <bytes left>  |  fail
                                        (<rec> is the receiving pack before Read)
    X <type> <ver>                  →  <carried field names, wire order>
    G <type>                        →  <version constants of the layout>
    K <type>                        →  <rec after Clear()> <rec after the constructor>
    Q <type> <ver> <rec>            →  ok <rec of all struct fields after Process()>  |  panic
    D <ver> <hex>                   →  <hex of Dbc after Process()>
    M <sep byte> <key hex> <val hex> <hex>  →  <hex of NewParamKVSeperate(s, sep, "=").ToStringStr(key, val)>
    N <4|8> <hex>                   →  ParseInt32 / ParseInt64 of the text
    Z <int>                         →  <hex of ParseStringZeroToEmpty>
    T <n> <hex>                     →  <hex of stringutil.Truncate(s, n)>
    V <sep byte> <key hex> <hex>    →  <0|1 ExistsKey(key)> <hex of GetValue(key)>  of NewParamKVSeperate(s, sep, "=")
    I <int>                         →  <hex of fmt.Sprintf("%d", v)>  (McallerUrl after SetMcallerUrlHash(v))
    H <int> <ver>                   →  McallerUrlHash that Process() of UdpTxEndPack recomputes from the text alone after
                                        SetMcallerUrlHash(v) (the hash field reset to 0 first, as after a Read)  |  panic
    C <0|1>                         →  <IsStatic> <hex of IsStaticContents> after SetStaticContents(b)
    WS <type>|<ver>|<rec> …         →  <hex of the packs written one after the other>
    RS <hex> <type>|<ver>|<rec> …   →  ok <bytes left> <type-rec after Read> …  |  fail   (rec = receiving pack)

  rec syntax   name=val;name=val   ("-" = empty)   val: i<int> s<hex> l<int,int> b0|b1 n t<hex,hex>
-/
import Golib.Udp.Packs
import Golib.Udp.ParamKV
import Golib.Udp.Process
import Golib.Udp.Api
import Driver.Common

open Udp Drv

def showVal : Val → String
  | .int v => s!"i{v}"
  | .str b => s!"s{hexOf b}"
  | .ints xs => s!"l{listOf toString xs}"
  | .bool b => if b then "b1" else "b0"
  | .strs xs => s!"t{listOf hexOf xs}"
  | .null => "n"

def parseVal (s : String) : Option Val :=
  match s.toList with
  | 'i' :: r => (parseInt (String.ofList r)).map .int
  | 's' :: r => (ofHex (String.ofList r)).map .str
  | 'l' :: r => (parseList parseInt (String.ofList r)).map .ints
  | ['b', '0'] => some (.bool false)
  | ['b', '1'] => some (.bool true)
  | ['n'] => some .null
  | 't' :: r => (parseList ofHex (String.ofList r)).map .strs
  | _ => none

def parseRec (s : String) : Option Rec :=
  if s == "-" then some (fun _ => .null) else
  (s.splitOn ";").foldlM (fun (r : Rec) kv =>
    match kv.splitOn "=" with
    | [k, v] => (parseVal v).map (fun v => r.set k v)
    | _ => none) (fun _ => .null)

def showRec (names : List String) (r : Rec) : String :=
  if names.isEmpty then "-" else ";".intercalate (names.map fun n => s!"{n}={showVal (r n)}")

def parseItem (s : String) : Option (PackT × Int × Rec) :=
  match s.splitOn "|" with
  | [t, ver, rec] =>
    match findPack t, parseInt ver, parseRec rec with
    | some t, some ver, some x => some (t, ver, x)
    | _, _, _ => none
  | _ => none

def answer (line : String) : String :=
  match line.splitOn " " with
  | "WS" :: items =>
    match items.mapM parseItem with
    | some its => hexOf (writeStream its)
    | none => "bad-op"
  | "RS" :: hex :: items =>
    match ofHex hex, items.mapM parseItem with
    | some bs, some its =>
      match P.run (readStream its) bs with
      | some (recs, rest) =>
        s!"ok {rest.length} " ++ " ".intercalate ((its.zip recs).map fun (it, r) => showRec it.1.fieldNames r)
      | none => "fail"
    | _, _ => "bad-op"
  | ["V", c, k, hex] =>
    match parseNat c, ofHex k, ofHex hex with
    | some c, some k, some bs => s!"{if existsKey c k bs then 1 else 0} {hexOf (getValue c k bs)}"
    | _, _, _ => "bad-op"
  | ["I", v] =>
    match parseInt v with
    | some v => hexOf (((setMcallerUrlHash v (fun _ => .null)) "McallerUrl").asStr)
    | none => "bad-op"
  | ["H", v, ver] =>
    match parseInt v, parseInt ver with
    | some v, some ver =>
      match UdpTxEndPack.process ver ((setMcallerUrlHash v UdpTxEndPack.freshRec).set "McallerUrlHash" (.int 0)) with
      | some st => showVal (st "McallerUrlHash")
      | none => "panic"
    | _, _ => "bad-op"
  | ["C", b] =>
    let st := setStaticContents (b == "1") (fun _ => .null)
    s!"{showVal (st "IsStatic")} {hexOf (st "IsStaticContents").asStr}"
  | ["W", t, ver, rec] =>
    match findPack t, parseInt ver, parseRec rec with
    | some t, some ver, some x => hexOf (t.layout.write ver x)
    | _, _, _ => "bad-op"
  | ["R", t, ver, rec, hex] =>
    match findPack t, parseInt ver, parseRec rec, ofHex hex with
    | some t, some ver, some st, some bs =>
      match P.run (t.layout.read ver st) bs with
      | some (st', rest) => s!"ok {showRec t.fieldNames st'} {rest.length}"
      | none => "fail"
    | _, _, _, _ => "bad-op"
  | ["Q", t, ver, rec] =>
    match findPack t, parseInt ver, parseRec rec with
    | some t, some ver, some st =>
      match t.process ver st with
      | some st' => s!"ok {showRec t.fieldNames st'}"
      | none => "panic"
    | _, _, _ => "bad-op"
  | ["X", t, ver] =>
    match findPack t, parseInt ver with
    | some t, some ver => listOf id (t.layout.carried ver)
    | _, _ => "bad-op"
  | ["G", t] =>
    match findPack t with
    | some t => listOf toString t.layout.gates.eraseDups
    | none => "bad-op"
  | ["K", t] =>
    match findPack t with
    | some t => s!"{showRec t.fieldNames t.clearedRec} {showRec t.fieldNames t.freshRec}"
    | none => "bad-op"
  | ["D", ver, hex] =>
    match parseInt ver, ofHex hex with
    | some ver, some bs => hexOf (processDbc ver bs)
    | _, _ => "bad-op"
  | ["M", c, k, v, hex] =>
    match parseNat c, ofHex k, ofHex v, ofHex hex with
    | some c, some k, some v, some bs => hexOf (maskPass c k v bs)
    | _, _, _, _ => "bad-op"
  | ["N", w, hex] =>
    match parseNat w, ofHex hex with
    | some w, some bs => toString (parseIntW w bs)
    | _, _ => "bad-op"
  | ["Z", v] =>
    match parseInt v with
    | some v => hexOf (zeroToEmpty v)
    | none => "bad-op"
  | ["T", n, hex] =>
    match parseNat n, ofHex hex with
    | some n, some bs => hexOf (bs.take n)
    | _, _ => "bad-op"
  | _ => "bad-op"

def main : IO Unit := statelessLoop answer
