-- stub: replaced by the C07 driver
def main : IO Unit := pure ()
