/-
  Driver.C04 — runs the C04 CodeModel (Golib.FailClosed.*) on byte strings.

    V  <hex>          value.ReadValue, repaired code    →  ok <rest length> <alloc units> | fail <alloc units>
    VF <hex>          value.ReadValue, code as found    →  same   (zero padding on short reads, make-before-check)
    R  <kinds> <hex>  program of primitive reads, repaired  →  same
    RF <kinds> <hex>  program of primitive reads, as found  →  same

  <kinds> = comma separated read kinds (bool,byte,short,…,textArr) or `-`.
  `VF`/`RF` must only be given inputs whose length fields are honest (prefixes of valid
  encodings): the as-found model materialises the zero padding of a short read.
-/
import Golib.FailClosed.ValueA
import Driver.Common

open FailClosed Prim Drv

def kindOp (k : String) : Option Op :=
  match k with
  | "bool" => some (.bool false)
  | "byte" => some (.byte 0)
  | "short" => some (.short 0)
  | "ushort" => some (.ushort 0)
  | "int3" => some (.int3 0)
  | "int" => some (.int 0)
  | "long5" => some (.long5 0)
  | "long" => some (.long 0)
  | "float" => some (.float 0)
  | "double" => some (.double 0)
  | "decimal" => some (.decimal 0)
  | "blob" => some (.blob [])
  | "text" => some (.text [])
  | "shortBytes" => some (.shortBytes [])
  | "intBytes" => some (.intBytes [])
  | "textShort" => some (.textShort [])
  | "shortArr" => some (.shortArr [])
  | "intArr" => some (.intArr [])
  | "longArr" => some (.longArr [])
  | "floatArr" => some (.floatArr [])
  | "doubleArr" => some (.doubleArr [])
  | "textArr" => some (.textArr [])
  | _ => none

def showRes (r : Option (α × Bytes)) (c : Nat) : String :=
  match r with
  | some (_, rest) => s!"ok {rest.length} {c}"
  | none => s!"fail {c}"

def answer (line : String) : String :=
  match line.splitOn " " with
  | ["V", hex] =>
    match ofHex hex with
    | some bs => let a := decodeA true bs; showRes (A.run a bs) (A.cost a bs)
    | none => "bad-op"
  | ["VF", hex] =>
    match ofHex hex with
    | some bs => let a := decodeA false bs; showRes (A.runF a bs false) (A.costF a bs false)
    | none => "bad-op"
  | ["R", kinds, hex] =>
    match parseList kindOp kinds, ofHex hex with
    | some ops, some bs => let a := readAllA true ops; showRes (A.run a bs) (A.cost a bs)
    | _, _ => "bad-op"
  | ["RF", kinds, hex] =>
    match parseList kindOp kinds, ofHex hex with
    | some ops, some bs => let a := readAllA false ops; showRes (A.runF a bs false) (A.costF a bs false)
    | _, _ => "bad-op"
  | _ => "bad-op"

def main : IO Unit := statelessLoop answer
