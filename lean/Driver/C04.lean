/-
  Driver.C04 — runs the C04 CodeModel (Golib.FailClosed.*) on byte strings.

    V  <hex>          value.ReadValue, repaired code    →  ok <rest length> <alloc units> | fail <alloc units>
    VF <hex>          value.ReadValue, code as found    →  same   (zero padding on short reads, make-before-check)
    R  <kinds> <hex>  program of primitive reads, repaired  →  same
    RF <kinds> <hex>  program of primitive reads, as found  →  same

    C  <f1,f2,…> <kinds> <hex>   program of primitive reads over a connection that delivers <hex> in
                      fragments of the given sizes (cyclically), then ends  →  ok <bytes left> | fail
    LP <hex>          pack.ReadPack: type code, then the transcribed reader layout of that type
                      (Gen.Packs, instrumented: FailClosed.toA)  →  ok <rest> <units> | fail <units> | skip
                      (skip: type not registered, or its layout has an untranscribed part)

    RH <sql|httpc> <hex>  three GetRecords() on a Stat{Sql,Httpc}Pack whose Records are <hex>
                      (FailClosed.Lazy.runOps, non-caching spec over Gen.Packs.{Sql,Httpc}Rec)  →  <ok|fail>,<ok|fail>,<ok|fail>
    TH <hex>          lazy decode of a StatGeneralPack table (`dataBytes` = <hex>, FailClosed.Lazy.unpack
                      over the table layout Packs.Irregular.StatGeneralTable): three accesses, then Write
                      →  <ok|fail>,<ok|fail>,<ok|fail> <raw|table>   (raw: Write emits the undecoded bytes)

    RX <xkinds> <hex> program of the fixed-width readers no writer reaches (FailClosed.Extra.rdAll; xkinds from
                      shortLE,ushortLE,intLE,uintLE,uint,ushort,decLen<sz>)  →  ok <rest> <v1;v2;…> | fail
    PH <kinds> <hex,hex,…>   a HISTORY of decodes of a program of primitive reads through one kept reader that is
                      re-pointed by replacing its buffer (FailClosed.Pooled.runHist replace, failed decodes
                      leave everything they were given in the reader)  →  <ok|fail>,<ok|fail>,…
    PHV <hex,hex,…>   the same for value.ReadValue

  <kinds> = comma separated read kinds (bool,byte,short,…,textArr) or `-`.
  `VF`/`RF` must only be given inputs whose length fields are honest (prefixes of valid
  encodings): the as-found model materialises the zero padding of a short read.
-/
import Golib.FailClosed.ValueA
import Golib.FailClosed.Stream
import Golib.FailClosed.LayoutA
import Golib.Gen.PackLayouts
import Golib.Packs.Irregular
import Golib.FailClosed.Lazy
import Golib.FailClosed.Pooled
import Golib.FailClosed.ExtraReads
import Golib.FailClosed.ValueStream
import Driver.Common

open FailClosed Prim Drv

def kindOp (k : String) : Option Op :=
  match k with
  | "bool" => some (.bool false)
  | "byte" => some (.byte 0)
  | "short" => some (.short 0)
  | "ushort" => some (.ushort 0)
  | "int3" => some (.int3 0)
  | "int" => some (.int 0)
  | "long5" => some (.long5 0)
  | "long" => some (.long 0)
  | "float" => some (.float 0)
  | "double" => some (.double 0)
  | "decimal" => some (.decimal 0)
  | "blob" => some (.blob [])
  | "text" => some (.text [])
  | "shortBytes" => some (.shortBytes [])
  | "intBytes" => some (.intBytes [])
  | "textShort" => some (.textShort [])
  | "shortArr" => some (.shortArr [])
  | "intArr" => some (.intArr [])
  | "longArr" => some (.longArr [])
  | "floatArr" => some (.floatArr [])
  | "doubleArr" => some (.doubleArr [])
  | "textArr" => some (.textArr [])
  | _ => none

def xkind (k : String) : Option Extra.K :=
  match k with
  | "shortLE" => some .shortLE
  | "ushortLE" => some .ushortLE
  | "intLE" => some .intLE
  | "uintLE" => some .uintLE
  | "uint" => some .uint
  | "ushort" => some .ushort
  | _ => if k.startsWith "decLen" then (parseNat (k.drop 6).toString).map Extra.K.decLen else none

def showRes (r : Option (α × Bytes)) (c : Nat) : String :=
  match r with
  | some (_, rest) => s!"ok {rest.length} {c}"
  | none => s!"fail {c}"

/-- split `bs` into fragments of the given sizes, cyclically -/
partial def fragment (sizes : List Nat) (bs : Bytes) : Conn :=
  let rec go (ss : List Nat) (bs : Bytes) (fuel : Nat) : Conn :=
    if bs.isEmpty then [] else
    match fuel, ss with
    | 0, _ => [bs]
    | _, [] => go sizes bs fuel
    | f+1, k :: ss' => (bs.take (max k 0)) :: go ss' (bs.drop k) f
  go sizes bs (bs.length + sizes.length + 2)

def hasUnknown : Layout.L → Bool
  | .nil => false
  | .fld _ _ _ r => hasUnknown r
  | .lit _ _ r => hasUnknown r
  | .skip _ r => hasUnknown r
  | .var _ _ r => hasUnknown r
  | .ite _ t e r => hasUnknown t || hasUnknown e || hasUnknown r
  | .guard _ r => hasUnknown r
  | .opt _ b r => hasUnknown b || hasUnknown r
  | .rep _ _ b r => hasUnknown b || hasUnknown r
  | .wrap b r => hasUnknown b || hasUnknown r
  | .hdr r => hasUnknown r
  | .times _ _ b r => hasUnknown b || hasUnknown r
  | .sub _ b r => hasUnknown b || hasUnknown r
  | .kfld _ _ _ r => hasUnknown r
  | .key _ _ _ r => hasUnknown r
  | .mopt _ _ b r => hasUnknown b || hasUnknown r
  | .vopt _ _ b r => hasUnknown b || hasUnknown r
  | .mrep _ _ b r => hasUnknown b || hasUnknown r
  | .vrep _ _ b r => hasUnknown b || hasUnknown r
  | .srep _ b r => hasUnknown b || hasUnknown r
  | .avail b => hasUnknown b
  | .unknown _ => true

def packReader (bs : Bytes) : Option (Layout.L × Bytes) :=
  match P.run (rdI 2) bs with
  | none => none
  | some (code, rest) =>
    match Gen.Packs.registry.lookup code with
    | none => none
    | some name =>
      match Gen.Packs.all.lookup name with
      | none => none
      | some (_, r) => if hasUnknown r || !costOK r then none else some (r, rest)

/-- the column decoder of the table model: the fields `readTable` delivers, and whether it got through -/
def tableParse (bs : Bytes) : List (String × Layout.Val) × Bool :=
  match Packs.Irregular.StatGeneralTable.l.read "" (fun _ => 0) bs with
  | some (o, _, _) => (o, true)
  | none => ([], false)

def tableHistory (bs : Bytes) : String :=
  let put := fun (t : List (String × Layout.Val)) (c : String × Layout.Val) => t ++ [c]
  let s0 : FailClosed.Lazy.Obj (List (String × Layout.Val)) := ⟨bs, []⟩
  let r1 := FailClosed.Lazy.unpack tableParse put s0
  let r2 := FailClosed.Lazy.unpack tableParse put r1.obj
  let r3 := FailClosed.Lazy.unpack tableParse put r2.obj
  let sh := fun (r : FailClosed.Lazy.Res (List (String × Layout.Val))) => if r.failed then "fail" else "ok"
  let w := if r3.obj.raw.isEmpty then "table" else "raw"
  s!"{sh r1},{sh r2},{sh r3} {w}"

/-- `Stat{Sql,Httpc}Pack.GetRecords`: 16-bit count (`& 0xffff`), then the records; a non-caching
    two-phase decoder (FailClosed.Lazy.Spec with cache = false) -/
def recordsHistory (rec : Layout.L) (bs : Bytes) : String :=
  let tbl : Layout.L := .rep .u16 "recs" rec .nil
  let S : FailClosed.Lazy.Spec (List (String × Layout.Val)) (String × Layout.Val) :=
    { parse := fun b => match tbl.read "" (fun _ => 0) b with
        | some (o, _, _) => (o, true)
        | none => ([], false),
      put := fun t c => t ++ [c], enc := fun _ => [], empty := fun t => t.isEmpty, cache := false }
  let obs := FailClosed.Lazy.runOps S ⟨bs, []⟩ [.access, .access, .access]
  ",".intercalate (obs.map (fun o => match o with | .failed => "fail" | _ => "ok"))

def answer (line : String) : String :=
  match line.splitOn " " with
  | ["V", hex] =>
    match ofHex hex with
    | some bs => let a := decodeA true bs; showRes (A.run a bs) (A.cost a bs)
    | none => "bad-op"
  | ["VF", hex] =>
    match ofHex hex with
    | some bs => let a := decodeA false bs; showRes (A.runF a bs false) (A.costF a bs false)
    | none => "bad-op"
  | ["R", kinds, hex] =>
    match parseList kindOp kinds, ofHex hex with
    | some ops, some bs => let a := readAllA true ops; showRes (A.run a bs) (A.cost a bs)
    | _, _ => "bad-op"
  | ["RF", kinds, hex] =>
    match parseList kindOp kinds, ofHex hex with
    | some ops, some bs => let a := readAllA false ops; showRes (A.runF a bs false) (A.costF a bs false)
    | _, _ => "bad-op"
  | ["C", frags, kinds, hex] =>
    match parseList parseNat frags, parseList kindOp kinds, ofHex hex with
    | some fs, some ops, some bs =>
      match runC (readAll ops) (fragment (fs.filter (· > 0)) bs) with
      | some (_, c') => s!"ok {c'.bytes.length}"
      | none => "fail"
    | _, _, _ => "bad-op"
  | ["RH", kind, hex] =>
    match ofHex hex with
    | some bs =>
      if kind == "sql" then recordsHistory Gen.Packs.SqlRec.r bs
      else if kind == "httpc" then recordsHistory Gen.Packs.HttpcRec.r bs
      else "bad-op"
    | none => "bad-op"
  | ["TH", hex] =>
    match ofHex hex with
    | some bs => tableHistory bs
    | none => "bad-op"
  | ["RX", kinds, hex] =>
    match parseList xkind kinds, ofHex hex with
    | some ks, some bs =>
      match P.run (Extra.rdAll ks) bs with
      | some (vs, rest) => s!"ok {rest.length} {";".intercalate (vs.map toString)}"
      | none => "fail"
    | _, _ => "bad-op"
  | ["PH", kinds, hexes] =>
    match parseList kindOp kinds, parseList ofHex hexes with
    | some ops, some inputs =>
      ",".intercalate ((Pooled.runHist Pooled.replace (readAll ops) id [] inputs).map
        (fun o => if o.isSome then "ok" else "fail"))
    | _, _ => "bad-op"
  | ["PHV", hexes] =>
    match parseList ofHex hexes with
    | some inputs =>
      let fuel := inputs.foldl (fun m i => max m i.length) 0 + 2
      ",".intercalate ((Pooled.runHist Pooled.replace (valueP fuel) id [] inputs).map
        (fun o => if o.isSome then "ok" else "fail"))
    | none => "bad-op"
  | ["LP", hex] =>
    match ofHex hex with
    | some bs =>
      match packReader bs with
      | none => "skip"
      | some (r, body) =>
        let a := toA (bs.length + 2) r "" (fun _ => 0)
        showRes (A.run a body) (A.cost a body)
    | none => "bad-op"
  | _ => "bad-op"

def main : IO Unit := statelessLoop answer
