-- stub: replaced by the C04 driver
def main : IO Unit := pure ()
