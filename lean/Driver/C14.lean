-- stub: replaced by the C14 driver
def main : IO Unit := pure ()
