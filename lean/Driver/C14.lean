/-
  Driver.C14 — runs the HyperLogLog CodeModel (Golib.HLL.Model) on request lines.

    OFF p h1,h2,…         offer the hashed values to a fresh counter of precision p
                           → <hex GetBytes> <booleans of Offer, as 0/1 string or -> <cardinality> <branch L|R> <zeros> <regSum>
                             <branch of the exact rational specification L|R> <its rounded raw estimate>
    PACK p r0,r1,…        bytesOfRegs p (registers as a list) → <hex>
    MH data               MurmurHashLong(data) of the model → <hash>
    HIST op;op;…          a history over several counters (Golib.HLL.Heap):
                           n:P new counter, o:I:H offerHashed, a:I:J AddAll, m:I:J1,J2,… Merge (m:I:- no args),
                           b:I Build(GetBytes), g:I GetBytes   → <hex bytes of every counter, comma separated>
    MRG p L1|L2|…         counters built from the lists L1, L2, …; L1.Merge(L2, …)
                           → <hex GetBytes of the merge> <cardinality>
    BLD <hex>             BuildHyperLogLog → ok <p> <hex GetBytes of the rebuilt counter> <cardinality> | fail
    IR p h                → <idx> <rank>
    CLZ x                 → clz32 x
    SZ count              → getSizeForCount(count)
    WG w i / WS w i v / WU w i v / WM a b     word-level Get / Set / UpdateIfGreater / merge
    RS count op;op;…      ops on NewRegisterSet(count): s:pos:val  u:pos:val  g:pos
                           → <results, comma separated (u → 0/1, g → value, s → ->)> <hex words>
    LIN m V               linear counting value uint64(Round(m·log(m/V)))   (V > 0)
    RAW p S               → <small 0/1> <uint64(Round(estimate))> for register sum S/2^31

  The floating-point formulas (the `Est` parameter of the model) are instantiated with Lean's
  `Float` (IEEE-754 binary64, the C library's `log`).
-/
import Golib.HLL.Model
import Golib.HLL.EstSpec
import Golib.HLL.Abstract
import Golib.HLL.Heap
import Golib.HLL.Murmur
import Driver.Common

open HLL Drv Prim

def decF (c : Nat × Nat) : Float := Float.ofScientific c.1 true c.2

def alphaMM (p : Nat) : Float :=
  let m := (2 ^ p).toFloat
  if p == 4 then decF consts.alpha4 * m * m
  else if p == 5 then decF consts.alpha5 * m * m
  else if p == 6 then decF consts.alpha6 * m * m
  else (decF consts.alphaInf / (1 + decF consts.alphaCorr / m)) * m * m

def roundU (x : Float) : Nat := (x + 0.5).toUInt64.toNat

def estF : Est Float :=
  { raw := fun p S => alphaMM p * (1.0 / (S.toFloat / 2147483648.0))
    small := fun e m => e <= (decF consts.thresholdNum / decF consts.thresholdDen) * m.toFloat
    linear := fun m V => roundU (m.toFloat * Float.log (m.toFloat / V.toFloat))
    round := roundU }

def natList (s : String) : Option (List Nat) := parseList parseNat s

def boolStr (bs : List Bool) : String :=
  if bs.isEmpty then "-" else String.ofList (bs.map (fun b => if b then '1' else '0'))

def cardLine (p : Nat) (ws : Array Nat) : String :=
  let rs := regs p ws
  let br := match cardBranch estF p rs with
    | .linear _ _ => "L"
    | .raw _ => "R"
  let spec := specEst (fun _ => 0)
  let brq := match cardBranch spec p rs with
    | .linear _ _ => "L"
    | .raw _ => "R"
  s!"{cardinality estF p ws} {br} {zeros rs} {regSum rs} {brq} {roundQ (rawQ p (regSum rs))}"

def okP (p : Nat) : Bool := 1 ≤ p && p ≤ 24

def rsOps (ws : Array Nat) : List String → List String → Option (Array Nat × List String)
  | [], acc => some (ws, acc.reverse)
  | o :: rest, acc =>
    match o.splitOn ":" with
    | ["s", a, b] =>
      match parseNat a, parseNat b with
      | some r, some v => rsOps (regSet ws r v) rest ("-" :: acc)
      | _, _ => none
    | ["u", a, b] =>
      match parseNat a, parseNat b with
      | some r, some v =>
        let u := regUpd ws r v
        rsOps u.1 rest ((if u.2 then "1" else "0") :: acc)
      | _, _ => none
    | ["g", a] =>
      match parseNat a with
      | some r => rsOps ws rest (toString (regGet ws r) :: acc)
      | none => none
    | _ => none

def parseHOp (s : String) : Option HOp :=
  match s.splitOn ":" with
  | ["n", p] => (parseNat p).map .new
  | ["o", i, h] => match parseNat i, parseNat h with
    | some i, some h => some (.offer i h)
    | _, _ => none
  | ["a", i, j] => match parseNat i, parseNat j with
    | some i, some j => some (.addAll i j)
    | _, _ => none
  | ["m", i, js] => match parseNat i, natList js with
    | some i, some js => some (.merge i js)
    | _, _ => none
  | ["b", i] => (parseNat i).map .build
  | ["g", i] => (parseNat i).map .getBytes
  | _ => none

def wordsHex (ws : Array Nat) : String := hexOf (encMany (beN 4) ws.toList)

def answer (line : String) : String :=
  match line.splitOn " " with
  | ["OFF", p, hs] =>
    match parseNat p, natList hs with
    | some p, some hs =>
      if !okP p then "bad-op" else
      let r := offerAllB p (fresh p) hs
      s!"{hexOf (getBytes p r.1)} {boolStr r.2} {cardLine p r.1}"
    | _, _ => "bad-op"
  | ["MRG", p, parts] =>
    match parseNat p, (parts.splitOn "|").mapM natList with
    | some p, some (l :: ls) =>
      if !okP p then "bad-op" else
      let m := mergeAll p (stateOf p l) (ls.map (stateOf p))
      s!"{hexOf (getBytes p m)} {cardinality estF p m}"
    | _, _ => "bad-op"
  | ["BLD", hex] =>
    match ofHex hex with
    | some bs =>
      match P.run build bs with
      | some ((p, ws), _) =>
        if okP p && 2 ^ p ≤ 6 * ws.size then s!"ok {p} {hexOf (getBytes p ws)} {cardinality estF p ws}"
        else s!"ok {p} {hexOf (getBytes p ws)} -"
      | none => "fail"
    | none => "bad-op"
  | ["PACK", p, rs] =>
    match parseNat p, natList rs with
    | some p, some rs =>
      if !okP p then "bad-op" else
      let arr := rs.toArray
      hexOf (bytesOfRegs p (fun r => arr.getD r 0))
    | _, _ => "bad-op"
  | ["MH", d] =>
    match parseNat d with
    | some d => s!"{murmurLong d}"
    | none => "bad-op"
  | ["HIST", ops] =>
    match (if ops == "-" then some [] else (ops.splitOn ";").mapM parseHOp) with
    | some ops =>
      if ops.any (fun o => match o with | .new p => !okP p | _ => false) then "bad-op" else
      listOf (fun c => hexOf (getBytes c.p c.ws)) (HLL.run ops)
    | none => "bad-op"
  | ["IR", p, h] =>
    match parseNat p, parseNat h with
    | some p, some h => s!"{idx p h} {rank p h}"
    | _, _ => "bad-op"
  | ["CLZ", x] =>
    match parseNat x with
    | some x => s!"{clz32 x}"
    | none => "bad-op"
  | ["SZ", c] =>
    match parseNat c with
    | some c => s!"{wordCount c}"
    | none => "bad-op"
  | ["WG", w, i] =>
    match parseNat w, parseNat i with
    | some w, some i => s!"{wordGet w i}"
    | _, _ => "bad-op"
  | ["WS", w, i, v] =>
    match parseNat w, parseNat i, parseNat v with
    | some w, some i, some v => s!"{wordSet w i v}"
    | _, _, _ => "bad-op"
  | ["WU", w, i, v] =>
    match parseNat w, parseNat i, parseNat v with
    | some w, some i, some v =>
      let u := wordUpd w i v
      s!"{u.1} {if u.2 then 1 else 0}"
    | _, _, _ => "bad-op"
  | ["WM", a, b] =>
    match parseNat a, parseNat b with
    | some a, some b => s!"{mergeWord a b}"
    | _, _ => "bad-op"
  | ["RS", c, ops] =>
    match parseNat c with
    | some c =>
      let ws := Array.replicate (wordCount c) 0
      match rsOps ws (if ops == "-" then [] else ops.splitOn ";") [] with
      | some (ws, res) => s!"{listOf id res} {wordsHex ws}"
      | none => "bad-op"
    | none => "bad-op"
  | ["LIN", m, v] =>
    match parseNat m, parseNat v with
    | some m, some v => if v == 0 then "inf" else s!"{estF.linear m v}"
    | _, _ => "bad-op"
  | ["RAW", p, s] =>
    match parseNat p, parseNat s with
    | some p, some s =>
      let e := estF.raw p s
      s!"{if estF.small e (2 ^ p) then 1 else 0} {estF.round e}"
    | _, _ => "bad-op"
  | _ => "bad-op"

def main : IO Unit := statelessLoop answer
