-- stub: replaced by the C10 driver
def main : IO Unit := pure ()
