/-
  Driver.C10 — sequential specs of the shared collections and the mutex-object machine, on lines.

    M  <op>;<op>;…            dictionary history        → <fact>;<fact>;… | <final state>
    D  <op>;…                 deque history             → …
    Q  <cap> <op>;…           request queue history     → …
    DQ <cap1> <cap2> <op>;…   double queue history      → …
    XM | XD | XQ <cap> | XDQ <c1> <c2>  <act>;<act>;…
                              a schedule of the mutex-object machine (Golib/Conc/Mutex.lean) over that
                              object: i<t>:<op> a<t> l<t> s<t> u<t> t<t>  (inv, acq, load, store, rel, ret)
                              → ok <fact of each ret, in order>   |   stuck@<index>

    XL <act>;…  /  XLL <act>;…   the same schedules over the *CodeModels* of C09 (bucket array + order list,
                              identity hash, capacity 3 so that the table grows) and C13 (pointer heap):
                              facts printed as by XM / XD, except that removeFirst/removeLast print `*:<v>`
                              (the code model returns the value only)

  dictionary ops  p<k>,<v> g<k> c<k> r<k> rf rl s e x
  deque ops       af<x> al<x> rf rl s x
  queue ops       p<x> f<x> n s x c<cap> g          (put, putForce, getNoWait, size, clear, setCapacity, getCapacity)
  double queue    p1_<x> p2_<x> f1_<x> f2_<x> n s s1 s2 x c<c1>_<c2>
-/
import Golib.Conc.SeqSpec
import Golib.Conc.Mutex
import Golib.HMap.Linked
import Golib.Lists.Linked
import Driver.Common

open Drv SeqSpec

def factStr : Fact → String
  | .val n => toString n
  | .kv k v => s!"{k}:{v}"
  | .unit => "-"

def qretStr : Queue.Ret → String
  | .bool b => if b then "t" else "f"
  | .val x => toString x
  | .int n => toString n
  | .unit => "-"
  | .blocked => "blocked"

def dropPrefix (s : String) (n : Nat) : String := String.ofList (s.toList.drop n)

def parseMOp (s : String) : Option MOp :=
  match s with
  | "rf" => some .remFirst
  | "rl" => some .remLast
  | "s" => some .size
  | "e" => some .empty
  | "x" => some .clear
  | _ =>
    match s.toList with
    | 'p' :: rest =>
      match (String.ofList rest).splitOn "," with
      | [k, v] => do some (.put (← parseNat k) (← parseNat v))
      | _ => none
    | 'g' :: rest => (parseNat (String.ofList rest)).map .get
    | 'c' :: rest => (parseNat (String.ofList rest)).map .has
    | 'r' :: rest => (parseNat (String.ofList rest)).map .rem
    | _ => none

def parseDOp (s : String) : Option DOp :=
  match s with
  | "rf" => some .remFirst
  | "rl" => some .remLast
  | "s" => some .size
  | "x" => some .clear
  | _ =>
    match s.toList with
    | 'a' :: 'f' :: rest => (parseNat (String.ofList rest)).map .addFirst
    | 'a' :: 'l' :: rest => (parseNat (String.ofList rest)).map .addLast
    | _ => none

def parseQOp (s : String) : Option Queue.Op :=
  match s with
  | "n" => some .getNoWait
  | "s" => some .size
  | "x" => some .clear
  | "g" => some .getCapacity
  | _ =>
    match s.toList with
    | 'p' :: rest => (parseNat (String.ofList rest)).map .put
    | 'f' :: rest => (parseNat (String.ofList rest)).map .putForce
    | 'c' :: rest => (parseInt (String.ofList rest)).map .setCapacity
    | _ => none

def parseDQOp (s : String) : Option Queue.DOp :=
  match s with
  | "n" => some .getNoWait
  | "s" => some .size
  | "s1" => some .size1
  | "s2" => some .size2
  | "x" => some .clear
  | _ =>
    match s.toList with
    | 'p' :: '1' :: '_' :: rest => (parseNat (String.ofList rest)).map .put1
    | 'p' :: '2' :: '_' :: rest => (parseNat (String.ofList rest)).map .put2
    | 'f' :: '1' :: '_' :: rest => (parseNat (String.ofList rest)).map .putForce1
    | 'f' :: '2' :: '_' :: rest => (parseNat (String.ofList rest)).map .putForce2
    | 'c' :: rest =>
      match (String.ofList rest).splitOn "_" with
      | [a, b] => do some (.setCapacity (← parseInt a) (← parseInt b))
      | _ => none
    | _ => none

def mstateStr (m : MSt) : String := listOf (fun e => s!"{e.1}:{e.2}") m
def natsStr (l : List Nat) : String := listOf toString l

/-- a sequential history -/
def seqLine {σ Op Ret : Type} (step : σ → Op → σ × Ret) (init : σ) (parse : String → Option Op)
    (showR : Ret → String) (showS : σ → String) (ops : String) : String :=
  match (if ops == "-" || ops == "" then some [] else (ops.splitOn ";").mapM parse) with
  | none => "bad-op"
  | some os =>
    let r := runSeq step init os
    ";".intercalate (r.2.map showR) ++ " | " ++ showS r.1

/-- a schedule of the mutex-object machine -/
def parseAct {Op : Type} (parse : String → Option Op) (s : String) : Option (Conc.Act Op) :=
  match s.toList with
  | 'i' :: rest =>
    match (String.ofList rest).splitOn ":" with
    | [t, op] => do some (.inv (← parseNat t) (← parse op))
    | _ => none
  | 'a' :: rest => (parseNat (String.ofList rest)).map .acq
  | 'l' :: rest => (parseNat (String.ofList rest)).map .load
  | 's' :: rest => (parseNat (String.ofList rest)).map .store
  | 'u' :: rest => (parseNat (String.ofList rest)).map .rel
  | 't' :: rest => (parseNat (String.ofList rest)).map .ret
  | _ => none

def runIdx {σ Op Ret : Type} (step : σ → Op → σ × Ret) :
    Conc.St σ Op Ret → List (Conc.Act Op) → Nat → Except Nat (Conc.St σ Op Ret)
  | s, [], _ => .ok s
  | s, a :: as, i =>
    match Conc.next step s a with
    | some s' => runIdx step s' as (i + 1)
    | none => .error i

def retsOf {Op Ret : Type} (showR : Ret → String) : List (Conc.Ev Op Ret) → List String → List String
  | [], acc => acc
  | .ret _ _ r :: rest, acc => retsOf showR rest (showR r :: acc)     -- log is newest first
  | _ :: rest, acc => retsOf showR rest acc

def machineLine {σ Op Ret : Type} (step : σ → Op → σ × Ret) (init : σ) (parse : String → Option Op)
    (showR : Ret → String) (acts : String) : String :=
  match (if acts == "-" || acts == "" then some [] else (acts.splitOn ";").mapM (parseAct parse)) with
  | none => "bad-op"
  | some as =>
    match runIdx step (Conc.initSt init) as 0 with
    | .error i => s!"stuck@{i}"
    | .ok s => "ok " ++ ";".intercalate (retsOf showR s.log [])

def qShow (q : Queue.Q) : String := natsStr q.items ++ "/" ++ toString q.cap
def dqShow (d : Queue.DQ) : String := qShow d.q1 ++ " " ++ qShow d.q2

/-! the C09 / C13 CodeModels under the machine -/

def lmDesc : HMap.Desc Nat Nat := { comb := (· + ·), veq := (· == ·) }
def lmThr (n : Nat) : Nat := n * 3 / 4
abbrev LM := HMap.LMap Nat Nat

/-- a dictionary point operation of the spec, as an operation of the C09 code model; the Bool says
    whether the fact is an entry (`k:v`) of which the code model returns only the value -/
def toLOp : MOp → HMap.Op Nat Nat
  | .put k v => .put .last k v
  | .get k => .get k
  | .has k => .containsKey k
  | .rem k => .remove k
  | .remFirst => .removeFirst
  | .remLast => .removeLast
  | .size => .size
  | .empty => .isEmpty
  | .clear => .clear

def lmStep (m : LM) (op : MOp) : LM × (MOp × HMap.Out Nat Nat) :=
  let r := HMap.LMap.step (fun k => k) lmThr lmDesc m (toLOp op)
  (r.1, (op, r.2))

def lmFact : MOp × HMap.Out Nat Nat → String
  | (.remFirst, .val v) => s!"*:{v}"
  | (.remLast, .val v) => s!"*:{v}"
  | (.remFirst, _) => "0:0"
  | (.remLast, _) => "0:0"
  | (_, .val v) => toString v
  | (_, .none) => "0"
  | (_, .bool b) => if b then "1" else "0"
  | (_, .nat n) => toString n
  | (_, .unit) => "-"
  | _ => "?"

def toLLOp : DOp → Lists.Linked.Op
  | .addFirst x => .addFirst x
  | .addLast x => .addLast x
  | .remFirst => .removeFirst
  | .remLast => .removeLast
  | .size => .size
  | .clear => .clear

def llStep (o : Lists.Linked.LL) (op : DOp) : Lists.Linked.LL × Lists.Linked.Out :=
  let r := Lists.Linked.LL.step (toLLOp op) o
  (r.2, r.1)

def llFact : Lists.Linked.Out → String
  | .unit => "-"
  | .val v => toString v
  | .none_ => "0"
  | .size n => toString n
  | _ => "?"

def answer (line : String) : String :=
  match line.splitOn " " with
  | ["M", ops] => seqLine mstep [] parseMOp factStr mstateStr ops
  | ["D", ops] => seqLine dstep [] parseDOp factStr natsStr ops
  | ["Q", cap, ops] =>
    match parseInt cap with
    | some c => seqLine qstep ⟨[], c⟩ parseQOp qretStr qShow ops
    | none => "bad-op"
  | ["DQ", c1, c2, ops] =>
    match parseInt c1, parseInt c2 with
    | some a, some b => seqLine dqstep ⟨⟨[], a⟩, ⟨[], b⟩⟩ parseDQOp qretStr dqShow ops
    | _, _ => "bad-op"
  | ["XM", acts] => machineLine mstep [] parseMOp factStr acts
  | ["XD", acts] => machineLine dstep [] parseDOp factStr acts
  | ["XL", acts] => machineLine lmStep (HMap.LMap.new lmThr 3) parseMOp lmFact acts
  | ["XLL", acts] => machineLine llStep Lists.Linked.LL.empty parseDOp llFact acts
  | ["XQ", cap, acts] =>
    match parseInt cap with
    | some c => machineLine qstep ⟨[], c⟩ parseQOp qretStr acts
    | none => "bad-op"
  | ["XDQ", c1, c2, acts] =>
    match parseInt c1, parseInt c2 with
    | some a, some b => machineLine dqstep ⟨⟨[], a⟩, ⟨[], b⟩⟩ parseDQOp qretStr acts
    | _, _ => "bad-op"
  | _ => "bad-op"

def main : IO Unit := statelessLoop answer
