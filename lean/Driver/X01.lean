import Driver.Common
/-! Driver of the extension check X01 (placeholder until the model exists). -/
def main : IO Unit := pure ()
