/-
  Driver.X01 — runs the X01 CodeModels (Golib.Ext.Keys, Golib.Ext.PathTree) on request lines.

  key types  T = I2 | I3 | L2 | L3 | POID | PKOID | LINK      (PKIND is the POID code with another field name)
  a key is written as its fields in struct order, decimal; LINK as <ip hex or -> <port>

    H T <key>            Hash()                     → decimal uint
    E T <key> <key>      Equals                     → 0 | 1
    EN LINK <key>        Equals(nil)                → panic
    C T <key> <key>      CompareTo                  → -1 | 0 | 1        (not LINK)
    N LINK <key> <key>   Include                    → 0 | 1
    B T <key>            ToBytes                    → hex               (I2 I3 L2 L3 LINK)
    O T <hex>            ToObject                   → ok <key> <rest length> | fail
    T <ops>              history on one PathTree; ops `;`-separated
         i:<segs>:<val>   InsertArray      segs: `-` (empty slice) or comma separated segments each prefixed `s`
         I:<str>:<val>    Insert           str: the path text, `~` for the empty string;  val: decimal or `nil`
         f:<segs>  F:<str>  FindArray / Find
         n  Size()        e  Paths().HasMoreElements()
       answer `;`-separated:  nil | v<val> | n<k> | m0 | m1
-/
import Golib.Ext.Keys
import Golib.Ext.PathTree
import Driver.Common

open Drv Ext.Keys

def ints (ts : List String) : Option (List Int) := ts.mapM parseInt

def showInts (xs : List Int) : String := " ".intercalate (xs.map toString)

def parseLink : List String → Option LINK
  | [ip, p] => do
    let b ← ofHex ip
    let q ← parseInt p
    pure ⟨b, q⟩
  | _ => none

def b2s (b : Bool) : String := if b then "1" else "0"

def answerO {α : Type} (p : P α) (sh : α → String) (hex : String) : String :=
  match ofHex hex with
  | none => "bad"
  | some bs =>
    match P.run p bs with
    | some (k, r) => s!"ok {sh k} {r.length}"
    | none => "fail"

def keyLine (ts : List String) : String :=
  match ts with
  | "EN" :: "LINK" :: rest =>
    match parseLink rest with
    | some a => match LINK.equalsOpt a none with | none => "panic" | some b => b2s b
    | none => "bad"
  | "N" :: "LINK" :: a1 :: a2 :: b1 :: b2 :: [] =>
    match parseLink [a1, a2], parseLink [b1, b2] with
    | some a, some b => b2s (LINK.includes a b)
    | _, _ => "bad"
  | "H" :: "LINK" :: rest => match parseLink rest with | some a => toString (LINK.hash a) | none => "bad"
  | "E" :: "LINK" :: a1 :: a2 :: b1 :: b2 :: [] =>
    match parseLink [a1, a2], parseLink [b1, b2] with
    | some a, some b => b2s (LINK.equals a b)
    | _, _ => "bad"
  | "B" :: "LINK" :: rest => match parseLink rest with | some a => hexOf (LINK.toBytes a) | none => "bad"
  | "O" :: "LINK" :: [hex] => answerO LINK.toObject (fun k => s!"{hexOf k.ip} {k.port}") hex
  | "O" :: "I2" :: [hex] => answerO I2.toObject (fun k => showInts [k.v1, k.v2]) hex
  | "O" :: "I3" :: [hex] => answerO I3.toObject (fun k => showInts [k.v1, k.v2, k.v3]) hex
  | "O" :: "L2" :: [hex] => answerO L2.toObject (fun k => showInts [k.v1, k.v2]) hex
  | "O" :: "L3" :: [hex] => answerO L3.toObject (fun k => showInts [k.v1, k.v2, k.v3]) hex
  | op :: ty :: rest =>
    match ints rest with
    | none => "bad"
    | some xs =>
      match op, ty, xs with
      | "H", "I2", [a, b] => toString (I2.hash ⟨a, b⟩)
      | "H", "I3", [a, b, c] => toString (I3.hash ⟨a, b, c⟩)
      | "H", "L2", [a, b] => toString (L2.hash ⟨a, b⟩)
      | "H", "L3", [a, b, c] => toString (L3.hash ⟨a, b, c⟩)
      | "H", "POID", [a, b] => toString (POID.hash ⟨a, b⟩)
      | "H", "PKOID", [a, b, c] => toString (PKOID.hash ⟨a, b, c⟩)
      | "E", "I2", [a, b, c, d] => b2s (I2.equals ⟨a, b⟩ ⟨c, d⟩)
      | "E", "I3", [a, b, c, d, e, f] => b2s (I3.equals ⟨a, b, c⟩ ⟨d, e, f⟩)
      | "E", "L2", [a, b, c, d] => b2s (L2.equals ⟨a, b⟩ ⟨c, d⟩)
      | "E", "L3", [a, b, c, d, e, f] => b2s (L3.equals ⟨a, b, c⟩ ⟨d, e, f⟩)
      | "E", "POID", [a, b, c, d] => b2s (POID.equals ⟨a, b⟩ ⟨c, d⟩)
      | "E", "PKOID", [a, b, c, d, e, f] => b2s (PKOID.equals ⟨a, b, c⟩ ⟨d, e, f⟩)
      | "C", "I2", [a, b, c, d] => toString (I2.compareTo ⟨a, b⟩ ⟨c, d⟩)
      | "C", "I3", [a, b, c, d, e, f] => toString (I3.compareTo ⟨a, b, c⟩ ⟨d, e, f⟩)
      | "C", "L2", [a, b, c, d] => toString (L2.compareTo ⟨a, b⟩ ⟨c, d⟩)
      | "C", "L3", [a, b, c, d, e, f] => toString (L3.compareTo ⟨a, b, c⟩ ⟨d, e, f⟩)
      | "C", "POID", [a, b, c, d] => toString (POID.compareTo ⟨a, b⟩ ⟨c, d⟩)
      | "C", "PKOID", [a, b, c, d, e, f] => toString (PKOID.compareTo ⟨a, b, c⟩ ⟨d, e, f⟩)
      | "B", "I2", [a, b] => hexOf (I2.toBytes ⟨a, b⟩)
      | "B", "I3", [a, b, c] => hexOf (I3.toBytes ⟨a, b, c⟩)
      | "B", "L2", [a, b] => hexOf (L2.toBytes ⟨a, b⟩)
      | "B", "L3", [a, b, c] => hexOf (L3.toBytes ⟨a, b, c⟩)
      | _, _, _ => "bad"
  | _ => "bad"

/-! ### PathTree histories -/

open Ext.PathTree in
def parseSegs (s : String) : Option Path :=
  if s == "-" then some []
  else (s.splitOn ",").mapM (fun t => if t.startsWith "s" then some (String.ofList (t.toList.drop 1)) else none)

def parseStr (s : String) : String := if s == "~" then "" else s

def parseVal (s : String) : Option (Option Nat) :=
  if s == "nil" then some none else (parseNat s).map some

def showVal : Option Nat → String
  | none => "nil"
  | some v => s!"v{v}"

open Ext.PathTree in
def treeOp (t : PT Nat) (op : String) : PT Nat × String :=
  match op.splitOn ":" with
  | ["i", segs, v] =>
    match parseSegs segs, parseVal v with
    | some p, some v => let (t', o) := insertArray t p v; (t', showVal o)
    | _, _ => (t, "bad")
  | ["I", s, v] =>
    match parseVal v with
    | some v => let (t', o) := insert t (parseStr s) v; (t', showVal o)
    | none => (t, "bad")
  | ["f", segs] =>
    match parseSegs segs with
    | some p => (t, showVal (findArray t p))
    | none => (t, "bad")
  | ["F", s] => (t, showVal (find t (parseStr s)))
  | ["n"] => (t, s!"n{size t}")
  | ["e"] => (t, if (enumerOf t).hasMore then "m1" else "m0")
  | _ => (t, "bad")

open Ext.PathTree in
def treeLine (ops : String) : String :=
  let rec go (t : PT Nat) (ops : List String) (acc : List String) : List String :=
    match ops with
    | [] => acc.reverse
    | op :: rest => let (t', o) := treeOp t op; go t' rest (o :: acc)
  ";".intercalate (go {} (ops.splitOn ";") [])

def answer (l : String) : String :=
  match l.splitOn " " with
  | ["T", ops] => treeLine ops
  | ts => keyLine ts

def main : IO Unit := Drv.statelessLoop answer
