-- stub: replaced by the C20 driver
def main : IO Unit := pure ()
