/-
  Driver.C20 — runs the C20 CodeModel (Golib.Value.Cmp) on request lines.

    Q <a> <b>   →  <eqV a b as 0|1> <sign of cmpV a b as -1|0|1>

  <a>, <b> are one-line values of Golib.Value.Line.
-/
import Golib.Value.Line
import Golib.Value.Cmp
import Driver.Common

open Value Drv

def answer (line : String) : String :=
  match line.splitOn " " with
  | ["Q", a, b] =>
    match Line.readV a, Line.readV b with
    | some a, some b => s!"{if eqV a b then 1 else 0} {sgn (cmpV a b)}"
    | _, _ => "bad-op"
  | _ => "bad-op"

def main : IO Unit := statelessLoop answer
