/-
  Driver.C17 — runs the C17 CodeModel (Golib.Logger.Model) on operation lines.

    NEW t0 level onameHex logIDHex homeHex dirspec   → ok <curHex>
        dirspec: `-` or  nameHex:contentHex,…        (regular files directly under <home>/logs)
    LOG t meth idHex msgHex                          → gate | rate | w
    PROC t                                           → del <nameHex,…|-> <curHex|none>
    CLR t                                            → del <nameHex,…|->
    LVL n                                            → ok
    CFG rot keep interval levelHex                   → ok
    READ t fileHex endpos length snap                → nil | nilopen | nilread | data before next textHex
        snap: `-` or  relpathHex:f:contentHex / relpathHex:d:size , …
    FILES listing                                    → panic | files nameHex:size,…      (GetLogFiles)
        listing: `-` or  nameHex:f:size / nameHex:d:size , …   (entries of <home>/logs in ReadDir order)
    PATH                                             → none | path <hex of the '/'-joined segments>   (GetLogFilePath)
    DUMP                                             → nameHex=initHex|chunk|chunk;…   (chunk: l.hex n.hex x.hex)
    RESOLVE homeHex fileHex                          → none | seg/seg/…(hex, joined)   (stateless)
    YMD unit / UNITOF hex                            → calendar functions (stateless)
-/
import Golib.Logger.Model
import Golib.Logger.CalReal
import Golib.Logger.Files
import Driver.Common

open Logger Drv

def parseMeth : String → Option Meth
  | "errorf" => some .errorf | "error" => some .error | "warnf" => some .warnf | "warn" => some .warn
  | "infof" => some .infof | "info" => some .info | "infoln" => some .infoln
  | "debugf" => some .debugf | "debug" => some .debug
  | "printf" => some .printf | "println" => some .println | "printlnstd" => some .printlnStd
  | _ => none

def parseDirEntry (s : String) : Option (Bytes × File) :=
  match s.splitOn ":" with
  | [n, c] => do
    let n ← ofHex n
    let c ← ofHex c
    pure (n, ⟨c, []⟩)
  | _ => none

def parseSnapEntry (s : String) : Option (Bytes × Entry) :=
  match s.splitOn ":" with
  | [p, "f", c] => do
    let p ← ofHex p
    let c ← ofHex c
    pure (p, .file c)
  | [p, "d", sz] => do
    let p ← ofHex p
    let sz ← parseInt sz
    pure (p, .dir sz)
  | _ => none

def parseDirEnt (s : String) : Option DirEnt :=
  match s.splitOn ":" with
  | [n, k, sz] => do
    let n ← ofHex n
    let sz ← parseInt sz
    pure ⟨n, k == "d", sz⟩
  | _ => none

def showFiles : Option (List (Bytes × Int)) → String
  | none => "panic"
  | some out => "files " ++ listOf (fun p => hexOf p.1 ++ ":" ++ toString p.2) out

def showChunk : Chunk → String
  | .line t => "l." ++ hexOf t
  | .toNl p => "n." ++ hexOf p
  | .toReset p => "x." ++ hexOf p

def showFile (e : Bytes × File) : String :=
  hexOf e.1 ++ "=" ++ "|".intercalate (hexOf e.2.init :: e.2.chunks.map showChunk)

def showDir (d : Dir) : String :=
  if d.isEmpty then "-" else ";".intercalate (d.map showFile)

def showCur : Option Bytes → String
  | none => "none"
  | some n => hexOf n

def showRead : ReadRes → String
  | .nilQuiet => "nil"
  | .nilOpenErr => "nilopen"
  | .nilReadErr => "nilread"
  | .data d => s!"data {d.before} {d.next} {hexOf d.text}"

def showDec : Dec → String
  | .gate => "gate" | .rate => "rate" | .written => "w"

/-- the calendar of C19's CodeModel (proved Gregorian for 2000–2099) -/
def cal : Cal := Cal.c19

def withSt (st : Option St) (f : St → St × String) : Option St × String :=
  match st with
  | none => (none, "no-logger")
  | some s => let (s', o) := f s; (some s', o)

def answer (st : Option St) (line : String) : Option St × String :=
  match line.splitOn " " with
  | ["NEW", t0, level, oname, logID, home, dirspec] =>
    match parseInt t0, parseInt level, ofHex oname, ofHex logID, ofHex home, parseList parseDirEntry dirspec with
    | some t0, some level, some oname, some logID, some home, some dir =>
      let s := St.new cal t0 (Conf.default level oname logID) home dir
      (some s, "ok " ++ showCur s.cur)
    | _, _, _, _, _, _ => (st, "bad-op")
  | ["LOG", t, m, id, msg] =>
    match parseInt t, parseMeth m, ofHex id, ofHex msg with
    | some t, some m, some id, some msg =>
      withSt st fun s => let (s', d) := logCall t m id msg s; (s', showDec d)
    | _, _, _, _ => (st, "bad-op")
  | ["PROC", t] =>
    match parseInt t with
    | some t => withSt st fun s =>
        let (s', d) := process cal t s
        (s', "del " ++ listOf hexOf d ++ " " ++ showCur s'.cur)
    | none => (st, "bad-op")
  | ["CLR", t] =>
    match parseInt t with
    | some t => withSt st fun s =>
        let (s', d) := clearOld cal t s
        (s', "del " ++ listOf hexOf d)
    | none => (st, "bad-op")
  | ["LVL", n] =>
    match parseInt n with
    | some n => withSt st fun s => ((step cal s (.setLevel n)).1, "ok")
    | none => (st, "bad-op")
  | ["CFG", rot, keep, interval, level] =>
    match parseInt keep, parseInt interval, ofHex level with
    | some keep, some interval, some level =>
      withSt st fun s => ((step cal s (.applyConfig (rot == "1") keep interval level)).1, "ok")
    | _, _, _ => (st, "bad-op")
  | ["READ", t, file, endpos, length, snap] =>
    match parseInt t, ofHex file, parseInt endpos, parseInt length, parseList parseSnapEntry snap with
    | some t, some file, some endpos, some length, some snap =>
      withSt st fun s =>
        match step cal s (.read t file endpos length snap) with
        | (s', .read r) => (s', showRead r)
        | (s', _) => (s', "bad-op")
    | _, _, _, _, _ => (st, "bad-op")
  | ["FILES", listing] =>
    match parseList parseDirEnt listing with
    | some ents => withSt st fun s => (s, showFiles (logFiles s.conf.logID s.conf.oname ents))
    | none => (st, "bad-op")
  | ["PATH"] => withSt st fun s =>
      (s, match s.cur with
          | none => "none"
          | some n => "path " ++ hexOf (joinSlash (logFilePath s.home n)))
  | ["DUMP"] => withSt st fun s => (s, showDir s.dir)
  | ["RESOLVE", home, file] =>
    match ofHex home, ofHex file with
    | some home, some file =>
      match resolve home file with
      | none => (st, "none")
      | some rel => (st, "in " ++ hexOf (joinSlash rel))
    | _, _ => (st, "bad-op")
  | ["YMD", u] =>
    match parseInt u with
    | some u => (st, hexOf (cal.ymd u))
    | none => (st, "bad-op")
  | ["UNITOF", d] =>
    match ofHex d with
    | some d => (st, match cal.unitOf d with | none => "panic" | some u => toString u)
    | none => (st, "bad-op")
  | _ => (st, "bad-op")

def main : IO Unit := mainLoop (none : Option St) answer
