-- stub: replaced by the C17 driver
def main : IO Unit := pure ()
