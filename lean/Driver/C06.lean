/-
  Driver.C06 — replays observed scenarios of the one-way TCP client on the CodeModel
  Golib.Tcp.Model (trace inclusion).

  One line per scenario:

      S <useQueue 0|1> <cap> <locked 0|1> <ev>;<ev>;…

  `cap` is the queue capacity the client was built with (the run starts with `setCapacity cap`;
  0 = unbounded); `locked` = 1: the repaired client (process() connects and sends under the send
  lock, ApplyConfig re-dials under it, send()'s recover() reports), 0: the client as found.

  events (sends are numbered 1,2,3,… in the order of their d/q events; `len` is the length of
  the send's frame — the harness scales real lengths down, the structure is what is compared):

      d,<t>,<len>,<ok|connect|write|flush>     direct Send by thread t with that outcome
      q,<t>,<len>,<ok|fail>                    SendFlush in queue mode (Put true / "Enqueue Failed")
      p,<ok|fail>                              process() takes the queue head, sends, flushes
      b,<ok|fail>                              Connect at the top of process()'s loop / initial Connect
      x,<c>,<n>                                the peer closes connection c having received n bytes
      c,<n>                                    Queue.SetCapacity(n)
      r,<t>,<ok|fail>                          ApplyConfig by thread t with a changed server list: Close, Connect
      k,<d>                                    d time units pass

  Every event is expanded (Golib.Tcp.Exec.expand) into the atomic actions of the model's program
  and executed with `Tcp.run`; a failing guard rejects the scenario.

  answer:   ok <c0>|<c1>|…  r=<results>
              ci      = what connection i carried according to the model, run-length encoded
                        `sid*count,sid*count,…`  (`-` if nothing)
              results = `1`/`0` per send id (Send returned nil / an error), `-` if still unknown
            reject <event index> <event text>

  A second kind of line asks what `Connect()` does with a server list (Golib.Tcp.Dial.connectList):

      L <Timeout> <srv>,<srv>,…        srv = u<d> (accepts after d time units) | r (refuses) | g (never answers)

  answer:   ok <index of the server connected | -> <failed dials before it> <time units the call takes>
-/
import Golib.Tcp.Exec
import Golib.Tcp.Dial
import Driver.Common

open Tcp Drv

def parseOutcome : String → Option Outcome
  | "ok" => some .ok
  | "connect" => some .connect
  | "write" => some .write
  | "flush" => some .flush
  | _ => none

def parseOk : String → Option Bool
  | "ok" => some true
  | "fail" => some false
  | _ => none

/-- event and, for sends, the frame length -/
def parseEv (s : String) : Option (Ev × Option Nat) :=
  match s.splitOn "," with
  | ["d", t, len, o] => do
    let t ← parseNat t; let len ← parseNat len; let o ← parseOutcome o
    pure (.direct t o, some len)
  | ["q", t, len, o] => do
    let t ← parseNat t; let len ← parseNat len; let o ← parseOk o
    pure (.enq t o, some len)
  | ["p", o] => do let o ← parseOk o; pure (.proc o, none)
  | ["b", o] => do let o ← parseOk o; pure (.bg o, none)
  | ["x", c, n] => do let c ← parseNat c; let n ← parseNat n; pure (.peerClose c n, none)
  | ["c", n] => do let n ← parseInt n; pure (.setCap n, none)
  | ["r", t, o] => do let t ← parseNat t; let o ← parseOk o; pure (.reconf t o, none)
  | ["k", d] => do let d ← parseNat d; pure (.tick d, none)
  | _ => none

/-- run-length encoding of a byte list given newest-first -/
def rleRev (revBytes : Bytes) : List (Nat × Nat) :=
  revBytes.foldl (fun acc b =>
    match acc with
    | (b', n) :: r => if b' = b then (b', n + 1) :: r else (b, 1) :: acc
    | [] => [(b, 1)]) []

def showConn (s : St) (c : Nat) : String :=
  let runs := rleRev (s.sentRev.get c)
  if runs.isEmpty then "-" else ",".intercalate (runs.map (fun (b, n) => s!"{b}*{n}"))

def showResults (s : St) (n : Nat) : String :=
  if n = 0 then "-" else
  let arr := s.results.foldl (fun (a : Array Char) (sid, ok) =>
      if 0 < sid ∧ sid - 1 < a.size then a.set! (sid - 1) (if ok then '1' else '0') else a)
    (Array.replicate n '-')
  String.ofList arr.toList

def replay (cfg : Cfg) (cap : Nat) (evs : Array (Ev × Option Nat)) (texts : Array String) : String := Id.run do
  let lens : Array Nat := evs.foldl (fun a (_, l) => match l with | some l => a.push l | none => a) #[]
  let lenOf := fun sid => lens.getD (sid - 1) 1
  let bytesOf := fun sid => List.replicate (lenOf sid) sid
  let mut s : St := (run cfg bytesOf [.setCapacity (cap : Int)] init).getD init
  let mut i := 0
  for (ev, _) in evs do
    match run cfg bytesOf (expand cfg lenOf s ev) s with
    | some s' => s := s'
    | none => return s!"reject {i} {texts.getD i "?"}"
    i := i + 1
  let conns := (List.range s.next).map (showConn s)
  return s!"ok {if conns.isEmpty then "-" else "|".intercalate conns} r={showResults s lens.size}"

def parseSrv (s : String) : Option Srv :=
  if s == "r" then some .refused
  else if s == "g" then some .gone
  else if s.startsWith "u" then (parseNat (String.ofList (s.toList.drop 1))).map Srv.up
  else none

def answerList (T : Nat) (l : List Srv) : String :=
  let r := connectList T l 0 0
  match r.1 with
  | some i => s!"ok {i} {i} {r.2}"
  | none => s!"ok - {l.length} {r.2}"

def answer (line : String) : String :=
  match line.splitOn " " with
  | ["L", t, srvs] =>
    match parseNat t, (srvs.splitOn ",").mapM parseSrv with
    | some t, some l => answerList t l
    | _, _ => "bad-line"
  | ["S", q, cap, bgl, evs] =>
    match parseNat cap with
    | some cap =>
      let lk := bgl == "1"
      let cfg : Cfg := { useQueue := q == "1", sendLocked := true, bgLocked := lk, procLocked := lk, acLocked := lk,
                         rearm := true, recoverReports := lk }
      let texts := if evs == "-" then #[] else (evs.splitOn ";").toArray
      match texts.mapM parseEv with
      | some es => replay cfg cap es texts
      | none => "bad-event"
    | none => "bad-line"
  | _ => "bad-line"

def main : IO Unit := statelessLoop answer
