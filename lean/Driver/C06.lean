-- stub: replaced by the C06 driver
def main : IO Unit := pure ()
