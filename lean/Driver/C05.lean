-- stub: replaced by the C05 driver
def main : IO Unit := pure ()
