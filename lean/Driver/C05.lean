/-
  Driver.C05 — runs the reference encoder / decoder of the collector protocol (Golib.Wire) on pack lines.

  request   <type> key=value key=value …          (no spaces inside values)
     type ∈ tagcount logsink text param event zip hitmap counter
     common keys: pcode oid okind onode time   lic=<hex of the license text>
                  go=<hex of the bytes the implementation produced for the payload>   (optional)
     strings are hex of their UTF-8 bytes ("-" = empty), floats are bit patterns,
     values use the syntax of `parseValue` below, absent optional sections = absent key.
  answer    <hex of the reference frame> <decode status>
     decode status: the reference *collector* (Wire.collect) is run on the frame around the `go` payload and
     its result compared with pcode, license hash, type and fields of the request:  ok | nogo | decfail | diff | badtype
  secure <src> <ver> <pcode> <oid> <key> <payload hex>  →  the secure-header frame
  ecb <n> <hex>  →  the payload padded to a multiple of n
  stream <hex of a connection's bytes>  →  <whole frames> <bytes left over> <payload lengths>
  collect <hex of a frame>  →  <pcode> <license hash> <pack type>   |  fail
  an unknown key is answered  badkey:<key>

  hash <hex>   →  the 64-bit hash (signed decimal)
-/
import Golib.Wire.Collector
import Driver.Common

open Prim Drv Wire

abbrev KV := List (String × String)

def lookup (kv : KV) (k : String) : Option String := (kv.find? (fun p => p.1 == k)).map (·.2)
def getI (kv : KV) (k : String) : Int := ((lookup kv k).bind parseInt).getD 0
def getN (kv : KV) (k : String) : Nat := ((lookup kv k).bind parseNat).getD 0
def getHex (kv : KV) (k : String) : Bytes := ((lookup kv k).bind ofHex).getD []
def intsOf (sep : String) (s : String) : List Int :=
  if s == "-" then [] else (s.splitOn sep).map (fun x => (parseInt x).getD 0)
def getInts (kv : KV) (k : String) : List Int := ((lookup kv k).map (intsOf ",")).getD []

/-- records separated by `/`, fields by `:`; `-` is the empty list -/
def recsOf (s : String) : List (List String) :=
  if s == "-" then [] else (s.splitOn "/").map (fun r => r.splitOn ":")
def fI (r : List String) (i : Nat) : Int := ((r[i]?).bind parseInt).getD 0
def fN (r : List String) (i : Nat) : Nat := ((r[i]?).bind parseNat).getD 0
def fH (r : List String) (i : Nat) : Bytes := ((r[i]?).bind ofHex).getD []

def getHdr (kv : KV) : Hdr :=
  ⟨getI kv "pcode", getI kv "oid", getI kv "okind", getI kv "onode", getI kv "time"⟩

/-! value syntax:
     n | b:0 | d:<int> | i:<int> | l:<int> | f:<bits> | g:<bits> | ds:<bits>:<int>:<bits>:<bits>
     | ls:<int>:<int>:<int>:<int> | t:<hex> | h:<int> | x:<hex> | p:<hex>
     | ai:<ints,> | af:<nats,> | at:<hexes,> (an empty element is `_`) | al:<ints,>
     | L(v;v;…) | M(<hexkey>=v;…) | IM(<int>=v;…) -/

def atomOf (s : String) : Option Value :=
  match s.splitOn ":" with
  | ["n"] => some .null
  | ["b", x] => some (.bool (x == "1"))
  | ["d", x] => (parseInt x).map .dec
  | ["i", x] => (parseInt x).map .int
  | ["l", x] => (parseInt x).map .long
  | ["f", x] => (parseNat x).map .f32
  | ["g", x] => (parseNat x).map .f64
  | ["ds", a, b, c, d] => do some (.dsum (← parseNat a) (← parseInt b) (← parseNat c) (← parseNat d))
  | ["ls", a, b, c, d] => do some (.lsum (← parseInt a) (← parseInt b) (← parseInt c) (← parseInt d))
  | ["t", x] => (ofHex x).map .text
  | ["h", x] => (parseInt x).map .hash
  | ["x", x] => (ofHex x).map .blob
  | ["p", x] => (ofHex x).map .ip4
  | ["ai", x] => (parseList parseInt x).map .ai
  | ["af", x] => (parseList parseNat x).map .af
  | ["at", x] => (parseList (fun e => if e == "_" then some [] else ofHex e) x).map .at
  | ["al", x] => (parseList parseInt x).map .al
  | _ => none

def splitAtom (cs : List Char) : List Char × List Char :=
  cs.span (fun c => c != ';' && c != ')' && c != '=')

mutual
partial def parseValue (cs : List Char) : Option (Value × List Char) :=
  match cs with
  | 'L' :: '(' :: r => (parseItems r []).map (fun (xs, r) => (.list xs, r))
  | 'M' :: '(' :: r => (parseEntries r []).map (fun (xs, r) => (.map xs, r))
  | 'I' :: 'M' :: '(' :: r => (parseIEntries r []).map (fun (xs, r) => (.imap xs, r))
  | _ =>
    let (a, r) := splitAtom cs
    (atomOf (String.ofList a)).map (fun v => (v, r))
partial def parseItems (cs : List Char) (acc : List Value) : Option (List Value × List Char) :=
  match cs with
  | ')' :: r => some (acc.reverse, r)
  | _ =>
    match parseValue cs with
    | none => none
    | some (v, ';' :: r) => parseItems r (v :: acc)
    | some (v, ')' :: r) => some ((v :: acc).reverse, r)
    | _ => none
partial def parseEntries (cs : List Char) (acc : List (Bytes × Value)) : Option (List (Bytes × Value) × List Char) :=
  match cs with
  | ')' :: r => some (acc.reverse, r)
  | _ =>
    let (k, r) := splitAtom cs
    match ofHex (String.ofList k), r with
    | some key, '=' :: r' =>
      match parseValue r' with
      | none => none
      | some (v, ';' :: r'') => parseEntries r'' ((key, v) :: acc)
      | some (v, ')' :: r'') => some (((key, v) :: acc).reverse, r'')
      | _ => none
    | _, _ => none
partial def parseIEntries (cs : List Char) (acc : List (Int × Value)) : Option (List (Int × Value) × List Char) :=
  match cs with
  | ')' :: r => some (acc.reverse, r)
  | _ =>
    let (k, r) := splitAtom cs
    match parseInt (String.ofList k), r with
    | some key, '=' :: r' =>
      match parseValue r' with
      | none => none
      | some (v, ';' :: r'') => parseIEntries r'' ((key, v) :: acc)
      | some (v, ')' :: r'') => some (((key, v) :: acc).reverse, r'')
      | _ => none
    | _, _ => none
end

def valueOf (s : String) : Option Value :=
  match parseValue s.toList with
  | some (v, []) => some v
  | _ => none

def getMap (kv : KV) (k : String) : List (Bytes × Value) :=
  match (lookup kv k).bind valueOf with
  | some (.map kvs) => kvs
  | _ => []

/-! counter sections -/

def pairsOf (s : String) : List (Int × Int) := (recsOf s).map (fun r => (fI r 0, fI r 1))
def getDbPool (kv : KV) : Option DbPool :=
  match lookup kv "dbActive", lookup kv "dbIdle" with
  | some a, some i => some ⟨pairsOf a, pairsOf i⟩
  | _, _ => none
def getNetStat (kv : KV) : Option NetStat :=
  (lookup kv "netstat").map (fun s => let r := s.splitOn ":"; ⟨fI r 0, fI r 1, fI r 2, fI r 3⟩)
def getWebSocket (kv : KV) : Option WebSocket :=
  (lookup kv "websocket").map (fun s => let r := s.splitOn ":"; ⟨fI r 0, fI r 1, fI r 2⟩)
def getExtra (kv : KV) : Option (List (Int × Value)) :=
  match (lookup kv "extra").bind valueOf with
  | some (.imap kvs) => some kvs
  | _ => none
def getOidMeter (kv : KV) (k : String) : Option (List OidEntry) :=
  (lookup kv k).map (fun s => (recsOf s).map (fun r => ⟨fI r 0, fI r 1, fI r 2, fI r 3, fI r 4⟩))
def getSqlMeter (kv : KV) (k : String) : Option (List SqlEntry) :=
  (lookup kv k).map (fun s => (recsOf s).map (fun r => ⟨fI r 0, fI r 1, fI r 2, fI r 3, fI r 4, fI r 5, fI r 6⟩))
def getGroupMeter (kv : KV) (k : String) : Option (List GroupEntry) :=
  (lookup kv k).map (fun s => (recsOf s).map (fun r => ⟨fI r 0, fI r 1, fI r 2, fI r 3, fI r 4, fI r 5⟩))
def getUnknown (kv : KV) : Option Unknown :=
  (lookup kv "unknown").map (fun s => let r := s.splitOn ":"; ⟨fI r 0, fI r 1, fI r 2, fI r 3⟩)
def getPoidMeter (kv : KV) : List PoidEntry :=
  ((lookup kv "poidMeter").map (fun s => (recsOf s).map (fun r =>
    (⟨fI r 0, fI r 1, fI r 2, fI r 3, fI r 4, intsOf "." (r[5]?.getD "-"), fI r 6⟩ : PoidEntry)))).getD []

def parseCounter (kv : KV) : Counter :=
  { hdr := getHdr kv,
    duration := getI kv "duration",
    cputime := getI kv "cputime",
    heapTot := getI kv "heapTot",
    heapUse := getI kv "heapUse",
    heapPerm := getI kv "heapPerm",
    heapPendingFinalization := getI kv "heapPendingFinalization",
    gcCount := getI kv "gcCount",
    gcTime := getI kv "gcTime",
    serviceCount := getI kv "serviceCount",
    serviceError := getI kv "serviceError",
    serviceTime := getI kv "serviceTime",
    sqlCount := getI kv "sqlCount",
    sqlError := getI kv "sqlError",
    sqlTime := getI kv "sqlTime",
    sqlFetchCount := getI kv "sqlFetchCount",
    sqlFetchTime := getI kv "sqlFetchTime",
    httpcCount := getI kv "httpcCount",
    httpcError := getI kv "httpcError",
    httpcTime := getI kv "httpcTime",
    actSvcCount := getI kv "actSvcCount",
    actSvcSlice := getInts kv "actSvcSlice",
    cpu := getN kv "cpu",
    cpuSys := getN kv "cpuSys",
    cpuUsr := getN kv "cpuUsr",
    cpuWait := getN kv "cpuWait",
    cpuSteal := getN kv "cpuSteal",
    cpuIrq := getN kv "cpuIrq",
    cpuProc := getN kv "cpuProc",
    cpuCores := getI kv "cpuCores",
    mem := getN kv "mem",
    swap := getN kv "swap",
    disk := getN kv "disk",
    threadTotalStarted := getI kv "threadTotalStarted",
    threadCount := getI kv "threadCount",
    threadDaemon := getI kv "threadDaemon",
    threadPeakCount := getI kv "threadPeakCount",
    dbPool := getDbPool kv,
    netstat := getNetStat kv,
    procFd := getI kv "procFd",
    tps := getN kv "tps",
    respTime := getI kv "respTime",
    apType := getI kv "apType",
    websocket := getWebSocket kv,
    starttime := getI kv "starttime",
    packDropped := getI kv "packDropped",
    hostIp := getI kv "hostIp",
    macHash := getI kv "macHash",
    extra := getExtra kv,
    pid := getI kv "pid",
    activeStat := getInts kv "activeStat",
    threadPoolActiveCount := getI kv "threadPoolActiveCount",
    threadPoolQueueSize := getI kv "threadPoolQueueSize",
    oidMeter := getOidMeter kv "oidMeter",
    sqlMeter := getSqlMeter kv "sqlMeter",
    httpcMeter := getOidMeter kv "httpcMeter",
    groupMeter := getGroupMeter kv "groupMeter",
    unknown := getUnknown kv,
    containerKey := getI kv "containerKey",
    txDbcTime := getN kv "txDbcTime",
    txSqlTime := getN kv "txSqlTime",
    txHttpcTime := getN kv "txHttpcTime",
    apdexSatisfied := getI kv "apdexSatisfied",
    apdexTolerated := getI kv "apdexTolerated",
    arrivalRate := getN kv "arrivalRate",
    gcOldgenCount := getI kv "gcOldgenCount",
    version := getN kv "version",
    heapMax := getI kv "heapMax",
    procFdMax := getI kv "procFdMax",
    metering := getN kv "metering",
    apdexTotal := getI kv "apdexTotal",
    poidMeter := getPoidMeter kv,
    resp90 := getI kv "resp90",
    resp95 := getI kv "resp95",
    timeSqrSum := getI kv "timeSqrSum" }

def counterKeys : List String := ["duration", "cputime", "heapTot", "heapUse", "heapPerm", "heapPendingFinalization", "gcCount", "gcTime", "serviceCount", "serviceError", "serviceTime", "sqlCount", "sqlError", "sqlTime", "sqlFetchCount", "sqlFetchTime", "httpcCount", "httpcError", "httpcTime", "actSvcCount", "actSvcSlice", "cpu", "cpuSys", "cpuUsr", "cpuWait", "cpuSteal", "cpuIrq", "cpuProc", "cpuCores", "mem", "swap", "disk", "threadTotalStarted", "threadCount", "threadDaemon", "threadPeakCount", "dbActive", "dbIdle", "netstat", "procFd", "tps", "respTime", "apType", "websocket", "starttime", "packDropped", "hostIp", "macHash", "extra", "pid", "activeStat", "threadPoolActiveCount", "threadPoolQueueSize", "oidMeter", "sqlMeter", "httpcMeter", "groupMeter", "unknown", "containerKey", "txDbcTime", "txSqlTime", "txHttpcTime", "apdexSatisfied", "apdexTolerated", "arrivalRate", "gcOldgenCount", "version", "heapMax", "procFdMax", "metering", "apdexTotal", "poidMeter", "resp90", "resp95", "timeSqrSum"]

def commonKeys : List String := ["pcode", "oid", "okind", "onode", "time", "lic", "go"]

def keysOf (ty : String) : Option (List String) :=
  match ty with
  | "tagcount" => some ["category", "tagHash", "tags", "data"]
  | "logsink" => some ["category", "tagHash", "tags", "line", "content", "fields"]
  | "text" => some ["recs"]
  | "param" => some ["id", "request", "response", "table"]
  | "event" => some ["uuid", "esc", "level", "title", "message", "status", "otype", "attr"]
  | "zip" => some ["status", "recordCount", "records"]
  | "hitmap" => some ["hit", "error"]
  | "counter" => some counterKeys
  | _ => none

/-- the reference *collector* (`Wire.collect`: frame → pack type → body, consumed exactly) applied to the
    frame built around the implementation's payload; its result is compared (through `Repr`) with the
    expected project code, license hash, pack type and fields -/
def decCheck (pcode : Int) (lic : Bytes) (ty : Nat) (expected : Option AnyPack) (go : Option Bytes) : String :=
  match go, expected with
  | none, _ => "nogo"
  | _, none => "decfail"
  | some bs, some ex =>
    match collect (frame pcode lic bs) with
    | some (rc, []) =>
      if rc.packType != ty then "badtype"
      else if reprStr rc == reprStr (⟨pcode, hash64 lic, ty, ex⟩ : Received) then "ok" else "diff"
    | _ => "decfail"

def anyV : Value → Prop := fun _ => True

def answerPack (ty : String) (kv : KV) : String :=
  let hdr := getHdr kv
  let lic := getHex kv "lic"
  let go := (lookup kv "go").bind ofHex
  let out (t : Nat) (body : Bytes) (st : String) : String :=
    s!"{hexOf (frame hdr.pcode lic (payload t body))} {st}"
  match ty with
  | "tagcount" =>
    let p : TagCount := ⟨hdr, getHex kv "category", getI kv "tagHash", getMap kv "tags", getMap kv "data"⟩
    out typeTagCount (encTagCount p) (decCheck hdr.pcode lic typeTagCount (some (.tagcount p.norm)) go)
  | "logsink" =>
    let p : LogSink := ⟨hdr, getHex kv "category", getI kv "tagHash", getMap kv "tags", getI kv "line",
      getHex kv "content", getMap kv "fields"⟩
    out typeLogSink (encLogSink p) (decCheck hdr.pcode lic typeLogSink (some (.logsink p.norm)) go)
  | "text" =>
    let p : TextP := ⟨hdr, (recsOf ((lookup kv "recs").getD "-")).map (fun r => ⟨fN r 0, fI r 1, fH r 2⟩)⟩
    out typeText (encTextP p) (decCheck hdr.pcode lic typeText (some (.text p)) go)
  | "param" =>
    let p : Param := ⟨hdr, getI kv "id", getI kv "request", getI kv "response", getMap kv "table"⟩
    out typeParameter (encParam p) (decCheck hdr.pcode lic typeParameter (some (.param p)) go)
  | "event" =>
    let e : Event := ⟨hdr, getHex kv "uuid", getN kv "esc" == 1, getN kv "level", getHex kv "title",
      getHex kv "message", getI kv "status", getI kv "otype",
      (recsOf ((lookup kv "attr").getD "-")).map (fun r => (fH r 0, fH r 1))⟩
    out typeEvent (encEvent e) (decCheck hdr.pcode lic typeEvent ((Event.ofWire e.toWire).map .event) go)
  | "zip" =>
    let p : Zip := ⟨hdr, getN kv "status", getI kv "recordCount", getHex kv "records"⟩
    out typeZip (encZip p) (decCheck hdr.pcode lic typeZip (some (.zip p)) go)
  | "hitmap" =>
    let p : HitMap := ⟨hdr, getInts kv "hit", getInts kv "error"⟩
    let carried : HitMap := ⟨hdr, p.hit.map (fun v => v % 65536), p.error.map (fun v => v % 65536)⟩
    out typeHitMap1 (encHitMap p) (decCheck hdr.pcode lic typeHitMap1 (some (.hitmap carried)) go)
  | "counter" =>
    let p := parseCounter kv
    out typeCounter1 (encCounter p) (decCheck hdr.pcode lic typeCounter1 (some (.counter p)) go)
  | _ => "bad-op"

def answer (line : String) : String :=
  match line.splitOn " " with
  | ["hash", hex] =>
    match ofHex hex with
    | some bs => s!"{hash64 bs}"
    | none => "bad-op"
  | ["secure", src, ver, pc, oid, key, hex] =>
    match parseNat src, parseNat ver, parseInt pc, parseInt oid, parseInt key, ofHex hex with
    | some a, some b, some c, some d, some e, some pl => hexOf (secureFrame a b c d e pl)
    | _, _, _, _, _, _ => "bad-op"
  | ["ecb", n, hex] =>
    match parseNat n, ofHex hex with
    | some n, some bs => hexOf (padECB n bs)
    | _, _ => "bad-op"
  | ["stream", hex] =>
    -- a connection's byte stream: <number of whole frames> <bytes left over> <payload length of each frame,…>
    match ofHex hex with
    | some bs =>
      let (frs, rest) := parseStream bs.length bs
      s!"{frs.length} {rest.length} {listOf (fun (f : FrameParts) => toString f.payload.length) frs}"
    | none => "bad-op"
  | ["collect", hex] =>
    match (ofHex hex).bind collect with
    | some (rc, []) => s!"{rc.pcode} {rc.licHash} {rc.packType}"
    | _ => "fail"
  | ty :: rest =>
    match keysOf ty with
    | none => "bad-op"
    | some keys =>
      let kv : KV := rest.filterMap (fun tok =>
        match tok.splitOn "=" with
        | k :: v :: more => some (k, "=".intercalate (v :: more))
        | _ => none)
      match kv.find? (fun p => !(keys.contains p.1 || commonKeys.contains p.1)) with
      | some (k, _) => s!"badkey:{k}"
      | none => answerPack ty kv
  | _ => "bad-op"

def main : IO Unit := statelessLoop answer
