/-
  Driver.C15 — runs the C15 CodeModels (Golib.Hash.*) on operation lines.

    H <hex>            → <Hash> <Hash64> <Hash64v2> <Hash64V2> <HashAddr> <HashCode>
    h <hex>            → <Hash> only (bulk stream of the thorough tier)
    HN                 → <Hash64v2 nil> <Hash64V2 nil>
    HS <hex>           → <HashStr> <GetLongHash>
    HT <hex>           → <hash.ToInt | panic> <hash.ToLong | panic>
    C <hex>            → bit-by-bit CRC-32 (the Spec), unsigned
    M <seed> <hex>     → <murmur32 seed> <murmur64 seed> <MurmurHash2 reference> <MurmurHash64A reference>
    ML <u64>           → <MurmurHashLong> <MurmurHash(uint32(u64))>
    MP <len> <hex>     → MurmurHashLongByte(data, len)
    X <int64>          → <ToString32 as hex> <ToLong32 of that text>
    XL <hex text>      → ToLong32(text)
    B64|B32|B16 <h> <l> <src> → <Composite h l> <GetHigh src> <GetLow src> [<SetHigh src h> <SetLow src l>]
    IS <hex>           → ToString(bytes) as hex text | panic
    IB <hex text>      → ToBytes(text) as hex
    II <int32>         → <ToBytesFrInt hex> <ToStringFrInt hex text>
    IT <hex>           → ToInt(bytes) | panic
    IO <hex>           → <IsOK(bytes)> <IsNotLocal(bytes)>   (true|false)
  Text travels as the hex of its bytes.
-/
import Golib.Hash.Crc
import Golib.Hash.Murmur
import Golib.Hash.Hexa32
import Golib.Hash.BitIp
import Driver.Common

open Drv

def textOf (bs : Bytes) : List Char := bs.map Char.ofNat
def bytesOfText (cs : List Char) : Bytes := cs.map Char.toNat

def answer (line : String) : String :=
  match line.splitOn " " with
  | ["H", hex] =>
    match ofHex hex with
    | some bs =>
      s!"{Hash.hash bs} {Hash.hash64 bs} {Hash.hash64v2 (some bs)} {Hash.hash64V2 (some bs)} {Hash.hashAddr bs} {StrHash.hashCode bs}"
    | none => "bad-op"
  | ["h", hex] =>
    match ofHex hex with
    | some bs => s!"{Hash.hash bs}"
    | none => "bad-op"
  | ["HN"] => s!"{Hash.hash64v2 none} {Hash.hash64V2 none}"
  | ["HS", hex] =>
    match ofHex hex with
    | some bs => s!"{Hash.hashStr bs} {Hash.getLongHash bs}"
    | none => "bad-op"
  | ["C", hex] =>
    match ofHex hex with
    | some bs => s!"{Hash.crc32 bs}"
    | none => "bad-op"
  | ["M", seed, hex] =>
    match parseNat seed, ofHex hex with
    | some sd, some bs =>
      s!"{Murmur.murmur32 bs sd} {Murmur.murmur64 bs sd} {Murmur.Ref.murmurHash2 bs sd} {Murmur.Ref.murmurHash64A bs sd}"
    | _, _ => "bad-op"
  | ["ML", d] =>
    match parseNat d with
    | some d => s!"{Murmur.murmurLong d} {Murmur.murmurU32 d}"
    | none => "bad-op"
  | ["MP", n, hex] =>
    match parseNat n, ofHex hex with
    | some n, some bs => s!"{Murmur.murmurLongByte bs n}"
    | _, _ => "bad-op"
  | ["X", v] =>
    match parseInt v with
    | some v =>
      let t := Hexa32.toString32 v
      s!"{hexOf (bytesOfText t)} {Hexa32.toLong32 t}"
    | none => "bad-op"
  | ["XL", hex] =>
    match ofHex hex with
    | some bs => s!"{Hexa32.toLong32 (textOf bs)}"
    | none => "bad-op"
  | ["B64", h, l, src] =>
    match parseInt h, parseInt l, parseInt src with
    | some h, some l, some s =>
      s!"{BitUtil.composite64 h l} {BitUtil.getHigh64 s} {BitUtil.getLow64 s} {BitUtil.setHigh64 s h} {BitUtil.setLow64 s l}"
    | _, _, _ => "bad-op"
  | ["B32", h, l, src] =>
    match parseInt h, parseInt l, parseInt src with
    | some h, some l, some s => s!"{BitUtil.composite32 h l} {BitUtil.getHigh32 s} {BitUtil.getLow32 s}"
    | _, _, _ => "bad-op"
  | ["B16", h, l, src] =>
    match parseInt h, parseInt l, parseInt src with
    | some h, some l, some s => s!"{BitUtil.composite16 h l} {BitUtil.getHigh16 s} {BitUtil.getLow16 s}"
    | _, _, _ => "bad-op"
  | ["IS", hex] =>
    match ofHex hex with
    | some bs => match IpUtil.toString bs with
      | some t => hexOf (bytesOfText t)
      | none => "panic"
    | none => "bad-op"
  | ["IB", hex] =>
    match ofHex hex with
    | some bs => hexOf (IpUtil.toBytes (textOf bs))
    | none => "bad-op"
  | ["II", v] =>
    match parseInt v with
    | some v =>
      let t := match IpUtil.toStringFrInt v with | some t => hexOf (bytesOfText t) | none => "panic"
      s!"{hexOf (IpUtil.toBytesFrInt v)} {t}"
    | none => "bad-op"
  | ["IT", hex] =>
    match ofHex hex with
    | some bs => match IpUtil.toInt bs with
      | some v => s!"{v}"
      | none => "panic"
    | none => "bad-op"
  | ["HT", hex] =>
    match ofHex hex with
    | some bs =>
      let a := match Hash.toInt bs with | some v => s!"{v}" | none => "panic"
      let b := match Hash.toLong bs with | some v => s!"{v}" | none => "panic"
      s!"{a} {b}"
    | none => "bad-op"
  | ["IO", hex] =>
    match ofHex hex with
    | some bs => s!"{IpUtil.isOK bs} {IpUtil.isNotLocal bs}"
    | none => "bad-op"
  | _ => "bad-op"

def main : IO Unit := statelessLoop answer
