-- stub: replaced by the C15 driver
def main : IO Unit := pure ()
