import Driver.Common
/-! Driver of the extension check X03 (placeholder until the model exists). -/
def main : IO Unit := pure ()
