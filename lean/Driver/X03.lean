/-
  Driver.X03 — runs the CodeModel of the UDP client's batching machine (Golib.Ext.UdpClient).

    N ucp|old                      → ok            fresh client with the constants of net/udp/UcpClient.go | net/UdpClient.go
    S <typ> <ver> <0|1> <body>     → <summary>     sendByBuffer(&UdpData{typ, ver, body, flush})
                                                   body: x<hex> | g<len>:<seed> (byte i = (seed + 31 i + i/251) mod 256) | -
    Z                              → <summary>     sendByBuffer(nil)
    T                              → <summary>     processRemain's timer branch (sendBuffer)
    P                              → <summary>     one process() iteration
    PA                             → <summary>     process() until the channel is empty
    D                              → <summary>     Shutdown
    R                              → <summary>     ApplyConfig's UdpShutdown + open on an already shut client (reopen)
    W                              → the datagrams written to the socket, oldest first, as len:fnv1a,… | -
    WX                             → the same in full hex
    F <hex>                        → parseDatagram: typ:ver:hexbody;… | fail
  summary = b=<buffer len> c=<channel len> o=<handed to channel> w=<written> l=<lost> pc= cc= sc= ec= open=<0|1>
-/
import Golib.Ext.UdpClient
import Driver.Common

open Drv Ext.Udp

def fnv (bs : Bytes) : Nat :=
  bs.foldl (fun h b => ((h ^^^ b) * 16777619) % 4294967296) 2166136261

def genBody (len seed : Nat) : Bytes :=
  (List.range len).map (fun i => (seed + 31 * i + i / 251) % 256)

def parseBody (s : String) : Option Bytes :=
  if s == "-" then some []
  else match s.toList with
    | 'x' :: rest => ofHexAux rest []
    | 'g' :: rest =>
      match (String.ofList rest).splitOn ":" with
      | [l, sd] => match l.toNat?, sd.toNat? with
        | some l, some sd => some (genBody l sd)
        | _, _ => none
      | _ => none
    | _ => none

def b01 (b : Bool) : String := if b then "1" else "0"

def summary (s : St) : String :=
  s!"b={s.buf.length} c={s.chan.length} o={s.offered.length} w={s.wire.length} l={s.lost.length} pc={s.packCount} cc={s.chanCount} sc={s.sendCount} ec={s.errCount} open={b01 s.isOpen}"

partial def procAll (cfg : Cfg) (s : St) : St :=
  if s.chan.isEmpty then s else procAll cfg (proc cfg s)

def showFrame (f : Frame) : String := s!"{f.typ}:{f.ver}:{hexOf f.body}"

def answer (st : Cfg × St) (line : String) : (Cfg × St) × String :=
  let (cfg, s) := st
  let upd (t : St) : (Cfg × St) × String := ((cfg, t), summary t)
  match line.splitOn " " with
  | ["N", "ucp"] => ((cfgUcp, {}), "ok")
  | ["N", "old"] => ((cfgOld, {}), "ok")
  | ["S", t, v, fl, body] =>
    match t.toNat?, v.toInt?, parseBody body with
    | some t, some v, some b => upd (step cfg s (.send ⟨t, v, b⟩ (fl == "1")))
    | _, _, _ => (st, "bad-op")
  | ["Z"] => upd (step cfg s .sendNil)
  | ["T"] => upd (step cfg s .tick)
  | ["P"] => upd (step cfg s .proc)
  | ["PA"] => upd (procAll cfg s)
  | ["D"] => upd (step cfg s .shutdown)
  | ["R"] => upd (step cfg s .reopen)
  | ["W"] => (st, listOf (fun d => s!"{d.length}:{fnv d}") s.wire.reverse)
  | ["WX"] => (st, listOf hexOf s.wire.reverse)
  | ["F", hex] =>
    match ofHex hex with
    | some bs =>
      match parseDatagram bs with
      | some fs => (st, if fs.isEmpty then "-" else ";".intercalate (fs.map showFrame))
      | none => (st, "fail")
    | none => (st, "bad-op")
  | _ => (st, "bad-op")

def main : IO Unit := mainLoop ((cfgUcp, ({} : St))) answer
