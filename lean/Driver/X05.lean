/-
  Driver.X05 — runs the X05 models (Golib.Ext.StrUtil) on operation lines.  Text travels as the hex of its bytes
  (`-` = empty); lists of texts are `<n>:<h1>,<h2>,…` (`0:` = empty list, `1:-` = one empty text).

    PAD <s> <n>            → <LPad> <RPad>
    LPI <v> <size>         → <LPadInt>
    CUT <s> <delim>        → <CutLastString> | panic
    TP <s> <sep>           → <k> <v> | panic
    SUB <s> <from> <to>    → <Substring>
    SUBN <s> <from> <to> <n> → <list>
    TOK <s> <delim>        → <Tokenizer list> <FirstWord> <LastWord>
    SPL <s> <sep>          → <list>
    TRM <s>                → <TrimEmpty> <TrimAllSpace>
    TRN <s> <sz>           → <TruncateRune>
    INS <s> <list>         → <StringInSlice> <Contains> <InArray> <InArrayCaseSensitive> <IsNotEmpty>
    NUL <b>                → <list> | panic
    ESC <s>                → <EscapeSpace>
    CAT <items>            → <Concat>      items: s:<hex> | int:|i32:|i64:|u:|u32:|u64:<n>, comma separated, `-` = none
    SAS <k> <v0|!> <maxCount> <ksz> <vsz> → <ParseMapSASToString> of the one-entry map
    UL <s>                 → uuidutil.ToLong
    TF <srcbits> <topbits> → float32 bits of TopFloat (the comparison is the machine's; not part of any theorem)
    EX <t> <msg> <stack> <esc> → Error()
    AN <colour> <s>        → ansi.<Colour>(s)
-/
import Golib.Ext.StrUtil
import Driver.Common

open Drv Ext.StrUtil

def hx (s : String) : Option Bytes := ofHex s

def showL (l : List Bytes) : String := s!"{l.length}:" ++ ",".intercalate (l.map hexOf)

def parseL (s : String) : Option (List Bytes) :=
  match s.splitOn ":" with
  | [n, rest] => if n == "0" then some [] else (rest.splitOn ",").mapM hx
  | _ => none

def bit (b : Bool) : String := if b then "1" else "0"

def parseItem (s : String) : Option Item :=
  match s.splitOn ":" with
  | ["s", h] => (hx h).map .str
  | [_, n] => (parseInt n).map .int
  | _ => none

def parseColour : String → Option Colour
  | "red" => some .red | "yellow" => some .yellow | "green" => some .green
  | "cyan" => some .cyan | "blue" => some .blue | _ => none

def f32gt (a b : Float32) : Bool := a > b

def answer (line : String) : String :=
  match line.splitOn " " with
  | ["PAD", s, n] =>
    match hx s, parseInt n with
    | some s, some n => s!"{hexOf (lpad s n)} {hexOf (rpad s n)}"
    | _, _ => "bad-op"
  | ["LPI", v, n] =>
    match parseInt v, parseInt n with
    | some v, some n => hexOf (lpadInt v n)
    | _, _ => "bad-op"
  | ["CUT", s, d] =>
    match hx s, hx d with
    | some s, some d => match cutLast s d with | some r => hexOf r | none => "panic"
    | _, _ => "bad-op"
  | ["TP", s, d] =>
    match hx s, hx d with
    | some s, some d => match toPair s d with | some (k, v) => s!"{hexOf k} {hexOf v}" | none => "panic"
    | _, _ => "bad-op"
  | ["SUB", s, f, t] =>
    match hx s, hx f, hx t with
    | some s, some f, some t => hexOf (substring s f t)
    | _, _, _ => "bad-op"
  | ["SUBN", s, f, t, n] =>
    match hx s, hx f, hx t, parseInt n with
    | some s, some f, some t, some n => showL (substringN s f t n)
    | _, _, _, _ => "bad-op"
  | ["TOK", s, d] =>
    match hx s, hx d with
    | some s, some d => s!"{showL (tokenizer s d)} {hexOf (firstWord s d)} {hexOf (lastWord s d)}"
    | _, _ => "bad-op"
  | ["SPL", s, d] =>
    match hx s, hx d with
    | some s, some d => showL (Ext.Str.split s d)
    | _, _ => "bad-op"
  | ["TRM", s] =>
    match hx s with
    | some s => s!"{hexOf (trimEmpty s)} {hexOf (trimAllSpace s)}"
    | none => "bad-op"
  | ["TRN", s, n] =>
    match hx s, parseInt n with
    | some s, some n => hexOf (truncateRune s n)
    | _, _ => "bad-op"
  | ["INS", s, l] =>
    match hx s, parseL l with
    | some s, some l =>
      s!"{bit (stringInSlice s l)} {bit (contains l s)} {bit (inArray s l)} {bit (inArrayCS s l)} {bit (isNotEmpty s)}"
    | _, _ => "bad-op"
  | ["NUL", b] =>
    match hx b with
    | some b => match nullTerm b with | some l => showL l | none => "panic"
    | none => "bad-op"
  | ["ESC", s] =>
    match hx s with
    | some s => hexOf (escapeSpace s)
    | none => "bad-op"
  | ["CAT", items] =>
    match parseList parseItem items with
    | some l => hexOf (concat l)
    | none => "bad-op"
  | ["SAS", k, v, mc, ksz, vsz] =>
    match hx k, (if v == "!" then some none else (hx v).map some), parseInt mc, parseNat ksz, parseNat vsz with
    | some k, some v, some mc, some ksz, some vsz => hexOf (mapSAS [(k, v)] mc ksz vsz)
    | _, _, _, _, _ => "bad-op"
  | ["UL", s] =>
    match hx s with
    | some s => s!"{toLong s}"
    | none => "bad-op"
  | ["TF", a, b] =>
    match parseNat a, parseNat b with
    | some a, some b =>
      let r := topBy (fun (x y : Nat) => f32gt (Float32.ofBits (UInt32.ofNat x)) (Float32.ofBits (UInt32.ofNat y))) a b
      s!"{r}"
    | _, _ => "bad-op"
  | ["EX", t, m, st, e] =>
    match hx t, hx m, hx st, hx e with
    | some t, some m, some st, some e => hexOf (errorText t m st e)
    | _, _, _, _ => "bad-op"
  | ["AN", c, s] =>
    match parseColour c, hx s with
    | some c, some s => hexOf (colour c s)
    | _, _ => "bad-op"
  | _ => "bad-op"

def main : IO Unit := statelessLoop answer
