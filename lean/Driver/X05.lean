import Driver.Common
/-! Driver of the extension check X05 (placeholder until the model exists). -/
def main : IO Unit := pure ()
