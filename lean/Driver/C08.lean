-- stub: replaced by the C08 driver
def main : IO Unit := pure ()
