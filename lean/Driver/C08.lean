/-
  Driver.C08 — runs the C08 CodeModel (Golib.Step.*) on request lines.

    E1 <layout> <rec>                 →  <hex>                       (write one record of a named single layout)
    EA <layout> <choices> <rec>       →  <hex>                       (… as an older writer would: choices = name=flag,…  or  -;
                                                                      name = condition field of a presence section, or $ver)
    D1 <layout> <hex>                 →  ok <rec> <rest length> | fail
    RI <layout> <rec> <hex>           →  ok <rec> <rest length> | fail     (obj.Read(in) on an existing object <rec>;
                                                                            ProfilePack: the transaction is built afresh)
    OPS <type> <rec> <op> <op> …      →  ok <hex of the final encoding> <final rec> | fail
                                          a history on one object:  P!<Type.Method>!<items>  SetProfile(steps)
                                          K!<Type.Method>!<a…>  SetStack(ints)   O!<Type.Method>!<k>  SetCtr/SetTrue(k)
                                          A!<name>=<val>  field assignment       R!<hex>  Read (ProfilePack: fresh transaction)
    ES <item>|<item>|…                →  <hex>                       (ToBytesStep / service.ToBytes; item = <code>:<type>:<rec>)
    DS <step|svc> <hex>               →  ok <code>:<rec>@<consumed>|… | fail <k>   (ReadStep until the input is used up)
    AC <ctor> <arg> <rec> <calls>     →  ok <returned,…|-> <hex> <AbstractStep.Drop> <AbstractStep.Opt> | fail
                                          the object made by the constructor, the fields of <rec> assigned, then the
                                          accessor calls  Method!arg,Method!arg,…  (or -); hex = its Write afterwards
    FR <ctor> <arg>                   →  ok <Type> <rec> | fail                (what the constructor returns)
    TB <rec>                          →  <hex>                                 (TxRecord.ToBytes)
    TO <rec> <hex>                    →  ok <rec> | fail                       (TxRecord.ToObject on the existing record <rec>)
    V0W <rec>                         →  <hex>                                 (MessageStepX.WriteVer0)
    V0R <rec> <hex>                   →  ok <rec> | fail                       (MessageStepX.ReadVer0 on an existing object)
    CJ <rec>                          →  <key,…|->                             (MessageStepX.CtrToJson: the keys)
    EM <elem>|<elem>|…                →  <hex>       (one output: elem = S:<item> WriteStep | V:<item> service.ToBytes | P:<item> x.Write)
    DM <S|V|P:Type,…> <hex>           →  ok <code>:<rec>@<consumed>|… <rest length> | fail <k>   (one input, each by its reader)

  rec  = name=val;name=val;…  ("-" when empty)
  val  = i<int> | x<hex> | a<int,int,…> | n (nil map) | m<key hex>~<value>&…
  value (inside maps) = N | B0 | B1 | D<int> | I<int> | L<int> | F<bits> | G<bits> | T<hex> | H<int> | X<hex>
                      | V<hex of the wire form>   (any other value)
                      | Z                         (a nil value: only inside TxRecord.Fields, written as empty text)
-/
import Golib.Step.Layouts
import Golib.Step.Alt
import Golib.Step.Reuse
import Golib.Step.Setters
import Golib.Step.Api
import Driver.Common

open Step Drv

def tailS (s : String) : String := String.ofList (s.toList.drop 1)
def head? (s : String) : Option Char := s.toList.head?

def parseValue (s : String) : Option Value :=
  let p := tailS s
  match head? s with
  | some 'N' => some .null
  | some 'B' => some (.bool (p == "1"))
  | some 'D' => (parseInt p).map .dec
  | some 'I' => (parseInt p).map .int
  | some 'L' => (parseInt p).map .long
  | some 'F' => (parseNat p).map .f32
  | some 'G' => (parseNat p).map .f64
  | some 'T' => (ofHex p).map .text
  | some 'H' => (parseInt p).map .hash
  | some 'X' => (ofHex p).map .blob
  | some 'V' => (ofHex p).bind (fun bs => (Value.decode bs).map (·.1))
  | _ => none

def showValue : Value → String
  | .null => "N"
  | .bool b => if b then "B1" else "B0"
  | .dec v => s!"D{v}"
  | .int v => s!"I{v}"
  | .long v => s!"L{v}"
  | .f32 b => s!"F{b}"
  | .f64 b => s!"G{b}"
  | .text bs => s!"T{hexOf bs}"
  | .hash v => s!"H{v}"
  | .blob bs => s!"X{hexOf bs}"
  | v => s!"V{hexOf (Value.encV v)}"

def parseEntry (s : String) : Option (Bytes × Option Value) :=
  match s.splitOn "~" with
  | [k, v] => do
    let k ← ofHex k
    if v == "Z" then pure (k, none) else
    let v ← parseValue v
    pure (k, some v)
  | _ => none

def entriesVal (kvs : List (Bytes × Option Value)) : Val :=
  if kvs.all (fun p => p.2.isSome) then .m (some (kvs.filterMap (fun p => p.2.map (fun v => (p.1, v)))))
  else .mn (some kvs)

def parseVal (s : String) : Option Val :=
  let p := tailS s
  match head? s with
  | some 'i' => (parseInt p).map .i
  | some 'x' => (ofHex p).map .b
  | some 'a' => (parseList parseInt p).map .is
  | some 'n' => some (.m none)
  | some 'm' => if p == "-" then some (.m (some [])) else ((p.splitOn "&").mapM parseEntry).map entriesVal
  | _ => none

def showVal : Val → String
  | .i v => s!"i{v}"
  | .b bs => s!"x{hexOf bs}"
  | .is xs => s!"a{listOf toString xs}"
  | .m none => "n"
  | .m (some kvs) =>
    if kvs.isEmpty then "m-" else "m" ++ "&".intercalate (kvs.map (fun (k, v) => s!"{hexOf k}~{showValue v}"))
  | .mn none => "n"
  | .mn (some kvs) =>
    if kvs.isEmpty then "m-" else "m" ++ "&".intercalate (kvs.map (fun (k, v) =>
      s!"{hexOf k}~{match v with | some v => showValue v | none => "Z"}"))

def parseField (s : String) : Option (String × Val) :=
  match s.splitOn "=" with
  | [nm, v] => (parseVal v).map (fun v => (nm, v))
  | _ => none

def parseRec (s : String) : Option Rec :=
  if s == "-" then some (fun _ => .i 0) else
  ((s.splitOn ";").mapM parseField).map (fun (e : Env) => fun nm => e.get nm)

def showRec (l : L) (e : Env) : String :=
  let fs := l.fieldShapes
  if fs.isEmpty then "-" else ";".intercalate (fs.map (fun (nm, s) => s!"{nm}={showVal (e.val nm s)}"))

def parseChoice (s : String) : Option Choice :=
  if s == "-" then some (fun _ => none) else
  ((s.splitOn ",").mapM (fun (kv : String) => match kv.splitOn "=" with
    | [k, v] => (parseNat v).map (fun n => (k, n))
    | _ => none)).map (fun (tbl : List (String × Nat)) => fun nm => tbl.lookup nm)

def parseOpArg (kind : String) (payload : String) : Option SArg :=
  match kind with
  | "P" => (if payload == "-" then some [] else (payload.splitOn "|").mapM (fun (it : String) =>
      match it.splitOn ":" with
      | [c, t, r] => do
        let c ← parseNat c
        let l ← ((stepTable ++ unregisteredSteps ++ serviceTable).find? (fun (_, n, _) => n == t)).map (fun (_, _, l) => l)
        let x ← parseRec r
        pure (⟨c, l, x⟩ : Item)
      | _ => none)).map SArg.steps
  | "K" => (parseVal payload).map (fun v => SArg.ints v.toInts)
  | "O" => (parseInt payload).map SArg.int
  | _ => none

def parseOpC08 (s : String) : Option Op :=
  match s.splitOn "!" with
  | ["R", hex] => (ofHex hex).map Op.read
  | ["A", fv] => (parseField fv).map (fun (f, v) => Op.assign f v)
  | [k, m, payload] =>
    match setterTable.lookup m, parseOpArg k payload with
    | some st, some a => some (Op.set st a)
    | _, _ => none
  | _ => none

def allTagged : List (Nat × String × L) := stepTable ++ unregisteredSteps ++ serviceTable

def layoutByName (nm : String) : Option L :=
  match singles.lookup nm with
  | some l => some l
  | none => (allTagged.find? (fun (_, n, _) => n == nm)).map (fun (_, _, l) => l)

def parseItem (s : String) : Option Item :=
  match s.splitOn ":" with
  | [c, t, r] => do
    let c ← parseNat c
    let l ← layoutByName t
    let x ← parseRec r
    pure ⟨c, l, x⟩
  | _ => none

/-- ReadStep until the input is used up; reports how many bytes each step consumed -/
def decodeAll (tbl : List (Nat × String × L)) : Nat → Nat → List String → Bytes → String
  | _, _, acc, [] => "ok " ++ (if acc.isEmpty then "-" else "|".intercalate acc.reverse)
  | 0, _, acc, _ :: _ => s!"fail {acc.length}"
  | f+1, len, acc, b :: bs =>
    match readOne tbl (b :: bs) with
    | none => s!"fail {acc.length}"
    | some ((c, e), r) =>
      let rl := r.length
      let l := (lookupLayout tbl c).getD .nil
      decodeAll tbl f rl (s!"{c}:{showRec l e}@{len - rl}" :: acc) r

def parseEnv (s : String) : Option Env :=
  if s == "-" then some [] else (s.splitOn ";").mapM parseField

def showObj (l : L) (p : Rec) : String :=
  let fs := l.fieldShapes
  if fs.isEmpty then "-" else ";".intercalate (fs.map (fun (f, _) => s!"{f}={showVal (p f)}"))

def parseCalls (s : String) : Option (List (String × Int)) :=
  if s == "-" then some [] else (s.splitOn ",").mapM (fun (c : String) => match c.splitOn "!" with
    | [m, a] => (parseInt a).map (fun a => (m, a))
    | _ => none)

def parseElem (s : String) : Option Elem :=
  match s.splitOn ":" with
  | [k, c, t, r] => do
    let c ← parseNat c
    let l ← layoutByName t
    let x ← parseRec r
    let sch ← (match k with | "S" => some Schema.step | "V" => some Schema.svc | "P" => some (Schema.plain l) | _ => none)
    pure ⟨sch, ⟨c, l, x⟩⟩
  | _ => none

def parseSchema (s : String) : Option Schema :=
  match s.splitOn ":" with
  | ["S"] => some .step
  | ["V"] => some .svc
  | ["P", t] => (layoutByName t).map Schema.plain
  | _ => none

def Step.Schema.layoutOf (s : Schema) (c : Nat) : L :=
  match s with
  | .step => (lookupLayout stepTable c).getD .nil
  | .svc => (lookupLayout serviceTable c).getD .nil
  | .plain l => l

def decodeMixed : List Schema → Nat → List String → Bytes → String
  | [], _, acc, bs => "ok " ++ (if acc.isEmpty then "-" else "|".intercalate acc.reverse) ++ s!" {bs.length}"
  | s :: ss, len, acc, bs =>
    match s.read bs with
    | none => s!"fail {acc.length}"
    | some ((c, e), r) =>
      let rl := r.length
      decodeMixed ss rl (s!"{c}:{showRec (s.layoutOf c) e}@{len - rl}" :: acc) r

def answer (line : String) : String :=
  match line.splitOn " " with
  | ["E1", nm, r] =>
    match layoutByName nm, parseRec r with
    | some l, some x => hexOf (l.write x)
    | _, _ => "bad-op"
  | ["EA", nm, chs, r] =>
    match layoutByName nm, parseChoice chs, parseRec r with
    | some l, some ch, some x => hexOf (l.writeAlt ch x)
    | _, _, _ => "bad-op"
  | ["D1", nm, hex] =>
    match layoutByName nm, ofHex hex with
    | some l, some bs =>
      match l.read [] bs with
      | some (e, rest) => s!"ok {showRec l e} {rest.length}"
      | none => "fail"
    | _, _ => "bad-op"
  | "OPS" :: nm :: r0 :: ops =>
    match layoutByName nm, parseRec r0, ops.mapM parseOpC08 with
    | some l, some o, some ops =>
      let rd : Rec → D Rec := if nm == "ProfilePack" then profilePackReadInto else l.readInto
      match applyOps rd ops o with
      | some p =>
        let fs := l.fieldShapes
        let body := if fs.isEmpty then "-" else ";".intercalate (fs.map (fun (f, _) => s!"{f}={showVal (p f)}"))
        s!"ok {hexOf (l.write p)} {body}"
      | none => "fail"
    | _, _, _ => "bad-op"
  | ["RI", nm, prior, hex] =>
    match layoutByName nm, parseRec prior, ofHex hex with
    | some l, some o, some bs =>
      match (if nm == "ProfilePack" then profilePackReadInto o bs else l.readInto o bs) with
      | some (p, rest) =>
        let fs := l.fieldShapes
        let body := if fs.isEmpty then "-" else ";".intercalate (fs.map (fun (f, _) => s!"{f}={showVal (p f)}"))
        s!"ok {body} {rest.length}"
      | none => "fail"
    | _, _, _ => "bad-op"
  | ["ES", items] =>
    match (if items == "-" then some [] else (items.splitOn "|").mapM parseItem) with
    | some ss => hexOf (toBytesStep ss)
    | none => "bad-op"
  | ["DS", fam, hex] =>
    match ofHex hex with
    | some bs =>
      let tbl := if fam == "svc" then serviceTable else stepTable
      decodeAll tbl bs.length bs.length [] bs
    | none => "bad-op"
  | ["AC", ctor, arg, r, calls] =>
    match parseInt arg, parseEnv r, parseCalls calls with
    | some a, some e, some cs =>
      match fresh ctor a with
      | some (t, o0) =>
        match layoutOfType t, runCalls t cs (e.over o0) [] with
        | some l, some (p, rets) =>
          let rs := if rets.isEmpty then "-" else ",".intercalate (rets.map toString)
          s!"ok {rs} {hexOf (l.write p)} {showVal (p "AbstractStep.Drop")} {showVal (p "AbstractStep.Opt")}"
        | _, _ => "fail"
      | none => "fail"
    | _, _, _ => "bad-op"
  | ["FR", ctor, arg] =>
    match parseInt arg with
    | some a =>
      match fresh ctor a with
      | some (t, o) => s!"ok {t} {showObj ((layoutOfType t).getD .nil) o}"
      | none => "fail"
    | none => "bad-op"
  | ["TB", r] =>
    match parseRec r with
    | some x => hexOf (txToBytes x)
    | none => "bad-op"
  | ["TO", prior, hex] =>
    match parseRec prior, ofHex hex with
    | some o, some bs =>
      match txToObject o bs with
      | some p => s!"ok {showObj txRecord p}"
      | none => "fail"
    | _, _ => "bad-op"
  | ["V0W", r] =>
    match parseRec r with
    | some x => hexOf (writeVer0 x)
    | none => "bad-op"
  | ["V0R", prior, hex] =>
    match parseRec prior, ofHex hex with
    | some o, some bs =>
      match readVer0 o bs with
      | some p => s!"ok {showObj messageStepX p}"
      | none => "fail"
    | _, _ => "bad-op"
  | ["CJ", r] =>
    match parseRec r with
    | some x => let ks := ctrToJson x; if ks.isEmpty then "-" else ",".intercalate ks
    | none => "bad-op"
  | ["EM", elems] =>
    match (if elems == "-" then some [] else (elems.splitOn "|").mapM parseElem) with
    | some es => hexOf (writeMixed es)
    | none => "bad-op"
  | ["DM", sch, hex] =>
    match (if sch == "-" then some [] else (sch.splitOn ",").mapM parseSchema), ofHex hex with
    | some ss, some bs => decodeMixed ss bs.length [] bs
    | _, _ => "bad-op"
  | _ => "bad-op"

def main : IO Unit := statelessLoop answer
