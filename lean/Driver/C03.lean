/-
  Driver.C03 — runs the C03 CodeModel (layout IR semantics over the regenerated and the
  hand-written pack layouts) on request lines.

    EF <record>            →  EventPack.Write's attribute folding (Packs.Event.fold): the table as on the wire
    EU <record>            →  EventPack.Read's unfolding (Packs.Event.unfold) of a wire table
    CE <hex>               →  pack tree: decode (as C), re-encode by the writer layouts (encodeTree): same | differs <hex> | n/a
    R                      →  the factory as regenerated: code:Type,…  (Gen.Packs.registry)
    K                      →  the bounded tables: Type:field:limit,…  (Packs.expectedCaps: the model's statement; C03Gen.caps_as_recorded ties the constructors to it)
    DK <Type> <hex>        →  like D, then the bounded table keeps its last `limit` rows (Packs.capRows)
    C <hex>                →  a type-tagged pack tree (CompositePack to any depth, Packs.Tree.readPT) decoded
    E <Type> <record>      →  <hex of T.w written for the record>
    D <Type> <hex>         →  ok <record read by T.r> <bytes left>   |  fail
    H <hex>                →  header decode: ok Pcode=…;… <bytes left> | fail
    HW <p> <o> <k> <n> <t> →  the header setters applied to a fresh object, then the TRANSCRIBED statements of AbstractPack.Write (Gen.Packs.AbstractPack.wProg, interpreted): hex
    HR <p> <o> <k> <n> <t> <hex> → the TRANSCRIBED statements of AbstractPack.Read (rProg, interpreted) run on an object holding those five values: ok Pcode=…;… <bytes left> | fail
    ECB <n> <hex>          →  ToBytesPackECB's padding (Layout.ecbPad): hex
    T                      →  the known type names, comma separated

  record syntax:  path=val;path=val;…   ("-" for the empty record)
  val syntax:     i:<int>  b:<hex|->  is:<ints|->  ss:<hex|_,…|->  v:<value tokens, comma separated>
  value tokens (prefix notation): null | bool,b | dec,n | int,n | long,n | f32,bits | f64,bits |
    dsum,sumbits,count,minbits,maxbits | lsum,s,c,mn,mx | text,hex | hash,n | blob,hex | ip4,hex |
    list,n,… | ai,n,… | af,n,… | at,n,… | al,n,… | map,n,(hexkey,value)… | imap,n,(key,value)…
-/
import Golib.Layout.IR
import Golib.Layout.Reencode
import Golib.Layout.HeaderProg
import Golib.Packs.Hand
import Golib.Packs.Irregular
import Golib.Packs.Event
import Golib.Packs.Tree
import Golib.Packs.Caps
import Golib.Gen.PackLayouts
import Driver.Common
import Std.Data.HashMap

open Layout Drv

namespace DrvC03

/-! ### values -/

def hexTok (bs : Bytes) : String := hexOf bs
def unhexTok (s : String) : Option Bytes := if s == "_" then some [] else ofHex s

partial def showValue : Value → List String
  | .null => ["null"]
  | .bool b => ["bool", if b then "1" else "0"]
  | .dec v => ["dec", toString v]
  | .int v => ["int", toString v]
  | .long v => ["long", toString v]
  | .f32 b => ["f32", toString b]
  | .f64 b => ["f64", toString b]
  | .dsum s c mn mx => ["dsum", toString s, toString c, toString mn, toString mx]
  | .lsum s c mn mx => ["lsum", toString s, toString c, toString mn, toString mx]
  | .text bs => ["text", hexTok bs]
  | .hash v => ["hash", toString v]
  | .blob bs => ["blob", hexTok bs]
  | .ip4 bs => ["ip4", hexTok bs]
  | .list xs => ["list", toString xs.length] ++ (xs.map showValue).flatten
  | .ai xs => ["ai", toString xs.length] ++ xs.map toString
  | .af xs => ["af", toString xs.length] ++ xs.map toString
  | .at xs => ["at", toString xs.length] ++ xs.map hexTok
  | .al xs => ["al", toString xs.length] ++ xs.map toString
  | .map kvs => ["map", toString kvs.length] ++ (kvs.map (fun (k, v) => hexTok k :: showValue v)).flatten
  | .imap kvs => ["imap", toString kvs.length] ++ (kvs.map (fun (k, v) => toString k :: showValue v)).flatten

def takeN (f : List String → Option (α × List String)) : Nat → List String → Option (List α × List String)
  | 0, ts => some ([], ts)
  | n+1, ts => do
    let (a, ts) ← f ts
    let (as, ts) ← takeN f n ts
    pure (a :: as, ts)

def tokInt : List String → Option (Int × List String)
  | t :: ts => t.toInt?.map (·, ts)
  | [] => none
def tokNat : List String → Option (Nat × List String)
  | t :: ts => t.toNat?.map (·, ts)
  | [] => none
def tokHex : List String → Option (Bytes × List String)
  | t :: ts => (unhexTok t).map (·, ts)
  | [] => none

partial def parseValue : List String → Option (Value × List String)
  | [] => none
  | t :: ts =>
    match t with
    | "null" => some (.null, ts)
    | "bool" => do let (v, ts) ← tokInt ts; pure (.bool (v == 1), ts)
    | "dec" => do let (v, ts) ← tokInt ts; pure (.dec v, ts)
    | "int" => do let (v, ts) ← tokInt ts; pure (.int v, ts)
    | "long" => do let (v, ts) ← tokInt ts; pure (.long v, ts)
    | "f32" => do let (v, ts) ← tokNat ts; pure (.f32 v, ts)
    | "f64" => do let (v, ts) ← tokNat ts; pure (.f64 v, ts)
    | "dsum" => do
      let (s, ts) ← tokNat ts; let (c, ts) ← tokInt ts; let (mn, ts) ← tokNat ts; let (mx, ts) ← tokNat ts
      pure (.dsum s c mn mx, ts)
    | "lsum" => do
      let (s, ts) ← tokInt ts; let (c, ts) ← tokInt ts; let (mn, ts) ← tokInt ts; let (mx, ts) ← tokInt ts
      pure (.lsum s c mn mx, ts)
    | "text" => do let (v, ts) ← tokHex ts; pure (.text v, ts)
    | "hash" => do let (v, ts) ← tokInt ts; pure (.hash v, ts)
    | "blob" => do let (v, ts) ← tokHex ts; pure (.blob v, ts)
    | "ip4" => do let (v, ts) ← tokHex ts; pure (.ip4 v, ts)
    | "list" => do let (n, ts) ← tokNat ts; let (xs, ts) ← takeN parseValue n ts; pure (.list xs, ts)
    | "ai" => do let (n, ts) ← tokNat ts; let (xs, ts) ← takeN tokInt n ts; pure (.ai xs, ts)
    | "af" => do let (n, ts) ← tokNat ts; let (xs, ts) ← takeN tokNat n ts; pure (.af xs, ts)
    | "at" => do let (n, ts) ← tokNat ts; let (xs, ts) ← takeN tokHex n ts; pure (.at xs, ts)
    | "al" => do let (n, ts) ← tokNat ts; let (xs, ts) ← takeN tokInt n ts; pure (.al xs, ts)
    | "map" => do
      let (n, ts) ← tokNat ts
      let (kvs, ts) ← takeN (fun ts => do let (k, ts) ← tokHex ts; let (v, ts) ← parseValue ts; pure ((k, v), ts)) n ts
      pure (.map kvs, ts)
    | "imap" => do
      let (n, ts) ← tokNat ts
      let (kvs, ts) ← takeN (fun ts => do let (k, ts) ← tokInt ts; let (v, ts) ← parseValue ts; pure ((k, v), ts)) n ts
      pure (.imap kvs, ts)
    | _ => none

/-! ### record fields -/

def showVal : Val → String
  | .int v => s!"i:{v}"
  | .bytes bs => s!"b:{hexOf bs}"
  | .ints xs => s!"is:{listOf toString xs}"
  | .strs xs => "ss:" ++ (if xs.isEmpty then "-" else ",".intercalate (xs.map (fun b => if b.isEmpty then "_" else hexOf b)))
  | .value v => "v:" ++ ",".intercalate (showValue v)

def dropS (s : String) (n : Nat) : String := String.ofList (s.toList.drop n)

def parseVal (s : String) : Option Val :=
  if s.startsWith "i:" then (dropS s 2).toInt?.map .int
  else if s.startsWith "b:" then (ofHex (dropS s 2)).map .bytes
  else if s.startsWith "is:" then (parseList parseInt (dropS s 3)).map .ints
  else if s.startsWith "ss:" then (parseList unhexTok (dropS s 3)).map .strs
  else if s.startsWith "v:" then
    match parseValue ((dropS s 2).splitOn ",") with
    | some (v, []) => some (.value v)
    | _ => none
  else none

def parseRecord (s : String) : Option (Std.HashMap String Val) :=
  if s == "-" then some {} else
  (s.splitOn ";").foldlM (fun m kv =>
    match kv.splitOn "=" with
    | [k, v] => (parseVal v).map (fun v => m.insert k v)
    | _ => none) {}

def showOut (o : Out) : String :=
  if o.isEmpty then "-" else ";".intercalate (o.map (fun (k, v) => k ++ "=" ++ showVal v))

/-! ### the layouts by type name -/

def smBaseR : L := Gen.Packs.SMBasePack.r

/-- `SMBasePack.Write` dispatches on the dynamic type of Cpu/Memory: the transcribed writer instantiated
    with the layouts of the record's OS class -/
def smBaseW (os : Int) : L :=
  if os = 2 then Gen.Packs.SMBasePack.w Gen.Packs.CpuWindow.w Gen.Packs.MemoryWindow.w
  else Gen.Packs.SMBasePack.w Gen.Packs.CpuLinux.w Gen.Packs.MemoryLinux.w

def hand : List (String × L × L) := [
  ("TagCountPack", Packs.Hand.TagCountPack.w, Gen.Packs.TagCountPack.r),
  ("TagLogPack", Packs.Hand.TagLogPack.w, Gen.Packs.TagLogPack.r),
  ("LogSinkPack", Packs.Hand.LogSinkPack.w, Gen.Packs.LogSinkPack.r),
  ("ParamPack", Packs.Hand.ParamPack.w, Packs.Hand.ParamPack.r),
  ("ExtensionPack", Packs.Hand.ExtensionPack.w, Packs.Hand.ExtensionPack.r),
  ("EventPack", Packs.Hand.EventPack.w, Packs.Hand.EventPack.r),
  ("CounterPack1", Packs.Irregular.CounterPack1.w, Packs.Irregular.CounterPack1.r),
  ("StatGeneralPack", Packs.Irregular.StatGeneralPack.l, Packs.Irregular.StatGeneralPack.l),
  ("StatGeneralPack1", Packs.Irregular.StatGeneralPack1.l, Packs.Irregular.StatGeneralPack1.l),
  ("StatGeneralTable", Packs.Irregular.StatGeneralTable.l, Packs.Irregular.StatGeneralTable.l),
  ("LogSinkContent", Packs.Hand.LogSinkContent.w, Packs.Hand.LogSinkContent.r),
  ("SMBasePack", .unknown "per OS", smBaseR)
]

def isUnknown : L → Bool
  | .unknown _ => true
  | _ => false

def table : Std.HashMap String (L × L) :=
  let m : Std.HashMap String (L × L) :=
    Gen.Packs.all.foldl (fun m (n, w, r) => if isUnknown w && isUnknown r then m else m.insert n (w, r)) {}
  hand.foldl (fun m (n, w, r) => m.insert n (w, r)) m

def recOf (m : Std.HashMap String Val) : Rec := fun k => (m.get? k).getD (.int 0)

/-- writer parameters travel in the record as `$name` -/
def envOf (m : Std.HashMap String Val) : Env := fun k => ((m.get? ("$" ++ k)).getD (.int 0)).toInt

/-! ### EventPack folding and the pack tree -/

def bytesOf (v : Val) : Bytes := match v with | .bytes b => b | _ => []

def attrsOf (x : Rec) : Packs.Event.Attrs :=
  (List.range (x "Attr#").toInt.toNat).map (fun i =>
    (bytesOf (x s!"Attr[{i}].key"), bytesOf (x s!"Attr[{i}].val")))

def attrsOut (a : Packs.Event.Attrs) : Out :=
  ("Attr#", Val.int a.length) ::
    ((List.range a.length).zip a).flatMap (fun (i, kv) =>
      [(s!"Attr[{i}].key", Val.bytes kv.1), (s!"Attr[{i}].val", Val.bytes kv.2)])

def evOf (x : Rec) : Packs.Event.Ev :=
  ⟨bytesOf (x "Uuid"), (x "Escalation").toInt != 0, (x "Status").toInt, (x "Otype").toInt, attrsOf x⟩

def evOut (e : Packs.Event.Ev) : Out :=
  [("Uuid", .bytes e.uuid), ("Escalation", .int (if e.esc then 1 else 0)), ("Status", .int e.status),
   ("Otype", .int e.otype)] ++ attrsOut e.attrs

/-- the factory of the model: `Gen.Packs.registry` (type code ↦ type) through the layout table -/
def factory : Packs.Factory := fun code =>
  match Gen.Packs.registry.lookup code with
  | some ty => (table.get? ty).map (·.2)
  | none => none

/-- the writer layout of a registered type code -/
def writerOf (code : Int) : Option L :=
  match Gen.Packs.registry.lookup code with
  | some ty => (table.get? ty).map (·.1)
  | none => none

/-- the model's ENCODING of a decoded pack tree: every leaf re-encoded from its carried fields by the
    WRITER layout of its type (`L.encodeOut`, the function of `C03.pack_reencode`), a composite node as
    tag, header, 16-bit count, children (`Packs.writePT`).  `none`: a leaf whose writer is not `known`. -/
partial def encodeTree : Packs.CT → Option Bytes
  | .leaf code o => do
    let w ← writerOf code
    if !w.known then none
    let (bs, rest) ← w.encodeOut (fun _ => 0) o
    if rest.isEmpty then pure (Prim.encI 2 code ++ bs) else none
  | .comp h kids => do
    let ks ← kids.mapM encodeTree
    pure (Prim.encI 2 Packs.compositeCode ++ encHeader h ++ Prim.encI 2 kids.length ++ ks.flatten)

partial def showTree (pfx : String) : Packs.CT → Out
  | .leaf code o => (pfx ++ "!", Val.int code) :: o.map (fun (k, v) => (pfx ++ "." ++ k, v))
  | .comp h kids =>
    let p := if pfx == "" then "" else pfx ++ "."
    ((if pfx == "" then [] else [(pfx ++ "!", Val.int Packs.compositeCode)]) ++ hdrOut p h ++
      [(p ++ "pack#", Val.int kids.length)]) ++
      ((List.range kids.length).zip kids).flatMap (fun (i, k) => showTree s!"{p}pack[{i}]" k)

/-- index of a row path `F[i].x` of table `F` -/
def rowIndex (f : String) (k : String) : Option (Nat × String) :=
  if k.startsWith (f ++ "[") then
    let rest := dropS k (f.length + 1)
    match rest.splitOn "]" with
    | i :: tl => i.toNat?.map (fun n => (n, "]".intercalate tl))
    | _ => none
  else none

/-- what the bounded table `f` (limit `m`) keeps of the rows the reader delivered: the last `m` (Packs.capRows) -/
def capOut (f : String) (m : Nat) (o : Out) : Out :=
  let n := ((o.lookup (f ++ "#")).getD (.int 0)).toInt.toNat
  let from_ := n - (Packs.capRows m (List.range n)).length
  o.filterMap (fun (k, v) =>
    if k == f ++ "#" then some (k, Val.int (n - from_))
    else match rowIndex f k with
      | some (i, tl) => if i < from_ then none else some (s!"{f}[{i - from_}]{tl}", v)
      | none => some (k, v))

def answer (line : String) : String :=
  match line.splitOn " " with
  | ["E", ty, rec] =>
    match table.get? ty, parseRecord rec with
    | some (w, _), some m =>
      let w := if ty == "SMBasePack" then smBaseW (recOf m "OS").toInt else w
      hexOf (w.write (envOf m) "" (recOf m))
    | none, _ => "no-layout"
    | _, none => "bad-record"
  | ["D", ty, hex] =>
    match table.get? ty, ofHex hex with
    | some (_, r), some bs =>
      match r.read "" (fun _ => 0) bs with
      | some (o, _, rest) => s!"ok {showOut o} {rest.length}"
      | none => "fail"
    | none, _ => "no-layout"
    | _, none => "bad-hex"
  | ["H", hex] =>
    match ofHex hex with
    | some bs =>
      match P.run decHeader bs with
      | some (h, rest) => s!"ok {showOut (hdrOut "" h)} {rest.length}"
      | none => "fail"
    | none => "bad-hex"
  | ["HW", p, o, k, n, t] =>
    match p.toInt?, o.toInt?, k.toInt?, n.toInt?, t.toInt? with
    | some p, some o, some k, some n, some t =>
      hexOf (Gen.Packs.AbstractPack.wProg.write (((((hdr0.setPCODE p).setOID o).setOKIND k).setONODE n).setTime t))
    | _, _, _, _, _ => "bad-int"
  | ["HR", p, o, k, n, t, hex] =>
    match p.toInt?, o.toInt?, k.toInt?, n.toInt?, t.toInt?, ofHex hex with
    | some p, some o, some k, some n, some t, some bs =>
      match P.run (Gen.Packs.AbstractPack.rProg.toP nenv0 ⟨p, o, k, n, t⟩) bs with
      | some (h, rest) => s!"ok {showOut (hdrOut "" h)} {rest.length}"
      | none => "fail"
    | _, _, _, _, _, _ => "bad-arg"
  | ["ECB", n, hex] =>
    match n.toNat?, ofHex hex with
    | some n, some bs => hexOf (ecbPad n bs)
    | _, _ => "bad-arg"
  | ["EF", rec] =>
    match parseRecord rec with
    | some m => showOut (attrsOut (Packs.Event.fold (evOf (recOf m))))
    | none => "bad-record"
  | ["EU", rec] =>
    match parseRecord rec with
    | some m => showOut (evOut (Packs.Event.unfold (attrsOf (recOf m))))
    | none => "bad-record"
  | ["C", hex] =>
    match ofHex hex with
    | some bs =>
      match Packs.readPT factory 8 bs with
      | some (t, rest) => s!"ok {showOut (showTree "" t)} {rest.length}"
      | none => "fail"
    | none => "bad-hex"
  | ["CE", hex] =>
    match ofHex hex with
    | some bs =>
      match Packs.readPT factory 8 bs with
      | some (t, _) =>
        match encodeTree t with
        | some out => if out == bs then "same" else s!"differs {hexOf out}"
        | none => "n/a"
      | none => "fail"
    | none => "bad-hex"
  | ["R"] => ",".intercalate (Gen.Packs.registry.map (fun (c, t) => s!"{c}:{t}"))
  | ["K"] => ",".intercalate (Packs.expectedCaps.map (fun (t, f, m) => s!"{t}:{f}:{m}"))
  | ["DK", ty, hex] =>
    match table.get? ty, ofHex hex with
    | some (_, r), some bs =>
      match r.read "" (fun _ => 0) bs with
      | some (o, _, rest) =>
        let o := (Packs.expectedCaps.filter (·.1 == ty)).foldl (fun o (_, f, m) => capOut f m.toNat o) o
        s!"ok {showOut o} {rest.length}"
      | none => "fail"
    | none, _ => "no-layout"
    | _, none => "bad-hex"
  | ["T"] => ",".intercalate (table.toList.map (·.1))
  | _ => "bad-op"

end DrvC03

def main : IO Unit := Drv.statelessLoop DrvC03.answer
