-- stub: replaced by the C03 driver
def main : IO Unit := pure ()
