/-
  Driver.C12 — runs the C12 Spec (`HMap.PS.step`, a finite map) and the CodeModel (`HMap.PMap.step`,
  bucket table) side by side; one request line → one answer line.

    N <TypeName> <hash> <cap> <thr> [R]  new session, configured from `HMap.plainTypes`     → ok
    @i <line>   address slot i of the pool (default 0);   @i PAF j   slot i .PutAll(slot j);   @i TOF j   ToObject(ToBytes) copy
    P k v   A k v   AE k v   G k   CK k   CV v   R k   C   SZ IE IF   SM n   PA k=v,k=v,…|[]   SO asc|desc
    KS VS ES      enumerations, *sorted by key* (the order of a plain hash map is not observable)
    TB            hex of ToBytes (integer sessions)        TO <hex>   ToObject(hex) into the current map

  Answer: the Spec's output; `MISMATCH …` if the CodeModel disagrees (cannot happen: C12.plain_refine).
-/
import Golib.HMap.Plain
import Golib.HMap.Wire
import Golib.HMap.Types
import Golib.HMap.Multi
import Golib.HMap.Enum
import Golib.HMap.Proto
import Driver.Common

open HMap Drv HMap.Proto

structure Sess (K : Type) [DecidableEq K] where
  d : PDesc K Int
  hash : K → Nat
  thr : Nat → Nat
  spec : PS K Int
  conc : PMap K Int
  sv : Int → String

inductive St
  | none
  | ints (s : Sess Int)
  | strs (s : Sess BKey)

def showList (f : α → String) (xs : List α) : String :=
  if xs.isEmpty then "[]" else ",".intercalate (xs.map f)

def sortEnts [LT K] [DecidableRel (α := K) (· < ·)] (es : List (K × Int)) : List (K × Int) :=
  es.mergeSort (fun a b => !decide (b.1 < a.1))

/-- canonical form of an output: enumerations sorted by key (values: by the key they belong to) -/
def showOut [LT K] [DecidableRel (α := K) (· < ·)] (sk : K → String) (sv : Int → String) (ents : List (K × Int)) : Out K Int → String
  | .unit => "u"
  | .none => "-"
  | .val v => sv v
  | .key k => sk k
  | .bool b => if b then "T" else "F"
  | .nat n => toString n
  | .keys _ => showList sk ((sortEnts ents).map (·.1))
  | .vals _ => showList sv ((sortEnts ents).map (·.2))
  | .ents _ => showList (fun e => sk e.1 ++ "=" ++ sv e.2) (sortEnts ents)


def parsePair (pk : String → Option K) (s : String) : Option (K × Int) :=
  match s.splitOn "=" with
  | [k, v] => do some ((← pk k), (← parseVal v))
  | _ => none

def parseOp [LT K] [DecidableRel (α := K) (· < ·)] (pk : String → Option K) (ws : List String) : Option (POp K Int) :=
  match ws with
  | ["P", k, v] => do some (.put (← pk k) (← parseVal v))
  | ["A", k, v] => do some (.add (← pk k) (← parseVal v))
  | ["AE", k, v] => do some (.addIfExist (← pk k) (← parseVal v))
  | ["G", k] => do some (.get (← pk k))
  | ["CK", k] => do some (.containsKey (← pk k))
  | ["CV", v] => do some (.containsValue (← parseVal v))
  | ["R", k] => do some (.remove (← pk k))
  | ["C"] => some .clear
  | ["SZ"] => some .size
  | ["IE"] => some .isEmpty
  | ["IF"] => some .isFull
  | ["SM", n] => do some (.setMax (← parseNat n))
  | ["PA", l] => do some (.putAll (← if l == "[]" then some [] else (l.splitOn ",").mapM (parsePair pk)))
  | ["SO", "asc"] => some (.sort (fun a b => decide (a < b)))
  | ["SO", "desc"] => some (.sort (fun a b => decide (b < a)))
  | ["KS"] => some .keys
  | ["VS"] => some .values
  | ["ES"] => some .entries
  | _ => none

def isEnum : POp K V → Bool
  | .keys | .values | .entries => true
  | _ => false

def stepSess [DecidableEq K] [LT K] [DecidableRel (α := K) (· < ·)]
    (pk : String → Option K) (sk : K → String) (s : Sess K) (ws : List String) : Sess K × String :=
  match parseOp pk ws with
  | none => (s, "bad-op")
  | some op =>
    let (sp, o1) := PS.step s.d s.spec op
    let (cm, o2) := PMap.step s.hash s.thr s.d s.conc op
    -- the CodeModel's enumerations are produced by the enumerator *object* (HasMoreElements / Next until exhausted)
    let t1 := showOut sk s.sv sp.ents o1
    let t2 := showOut sk s.sv (PEnum.drain cm.tab cm.count cm.tab.openEnum) o2
    -- … and driven the other way (`Size()` bare calls of Next, no HasMoreElements) it must yield the same sequence
    let ok := t1 == t2 && (!isEnum op || (decide (cm.count = sp.ents.length) && decide (cm.max = sp.max) &&
      decide (PEnum.takeN cm.tab cm.count cm.tab.openEnum = PEnum.drain cm.tab cm.count cm.tab.openEnum)))
    ({ s with spec := sp, conc := cm }, if ok then t1 else "MISMATCH spec=" ++ t1 ++ " model=" ++ t2)

def parseThr (s : String) : Option (List (Nat × Nat)) :=
  parseList (fun p => match p.splitOn ":" with
    | [a, b] => do some ((← parseNat a), (← parseNat b))
    | _ => none) s

def thrOf (tbl : List (Nat × Nat)) (cap : Nat) : Nat :=
  match tbl.lookup cap with
  | some t => t
  | none => cap

def intHash : String → Option (Int → Nat)
  | "id" => some (fun k => (k % 18446744073709551616).toNat)
  | "mod3" => some (fun k => (k % 3).toNat)
  | "const" => some (fun _ => 7)
  | "poly" => some (fun k => ((k * 31 + 17) % 4294967296).toNat)
  | _ => none

def strHash : String → Option (BKey → Nat)
  | "id" | "poly" => some bytesHash
  | "mod3" => some (fun s => bytesHash s % 3)
  | "const" => some (fun _ => 7)
  | _ => none

def newSess [DecidableEq K] (t : TypeDesc) (isEmpty : K → Bool)
    (hash : K → Nat) (cap : Nat) (tbl : List (Nat × Nat)) : Sess K :=
  let d : PDesc K Int := { t.descOf isEmpty with addFreshNew := t.addFreshNew }
  { d := d, hash := hash, thr := thrOf tbl, spec := {}, conc := PMap.new (thrOf tbl) cap, sv := showVal t }

def answer1 (st : St) (ws : List String) : St × String :=
  match ws with
  | "N" :: tn :: hk :: cap :: thr :: rest =>
    -- a trailing `R` selects the repaired descriptor (the harness sends it once a known finding no longer reproduces)
    match (findType plainTypes tn).map (fun t => if rest == ["R"] then t.repaired else t), parseNat cap, parseThr thr with
    | some t, some cap, some tbl =>
      if t.key != .str then
        match intHash hk with
        | some h => (.ints (newSess t (fun _ => false) h cap tbl), "ok")
        | none => (st, "bad-new")
      else
        match strHash hk with
        | some h => (.strs (newSess t (fun (s : BKey) => s.isEmpty) h cap tbl), "ok")
        | none => (st, "bad-new")
    | _, _, _ => (st, "bad-new")
  | ["TB"] =>
    match st with
    | .ints s => (st, hexOf (PMap.toBytes s.conc))
    | _ => (st, "bad-op")
  | ["TO", hex] =>
    match st, ofHex hex with
    | .ints s, some bs =>
      let cm := PMap.toObject s.hash s.thr s.d s.conc bs
      let sp := match P.run pairsFromBytes bs with
        | some (l, _) => l.foldl (fun acc e => (PS.put s.d acc e.1 e.2).1) s.spec
        | none => s.spec
      (.ints { s with spec := sp, conc := cm }, "u")
    | _, _ => (st, "bad-op")
  | _ =>
    match st with
    | .none => (st, "no-session")
    | .ints s => let (s', o) := stepSess parseInt toString s ws; (.ints s', o)
    | .strs s => let (s', o) := stepSess parseKey showKey s ws; (.strs s', o)

/-- `dst.PutAll(src)`: every entry of the source, in the order its enumerator yields them, is put into the target -/
def putAllFrom (src : St) (dst : St) (_ : Unit) : St × String :=
  match dst, src with
  | .ints d, .ints s =>
    let l := s.conc.tab.entries
    ({ d with spec := (PS.step d.d d.spec (.putAll l)).1, conc := (PMap.step d.hash d.thr d.d d.conc (.putAll l)).1 } |> St.ints, "u")
  | .strs d, .strs s =>
    let l := s.conc.tab.entries
    ({ d with spec := (PS.step d.d d.spec (.putAll l)).1, conc := (PMap.step d.hash d.thr d.d d.conc (.putAll l)).1 } |> St.strs, "u")
  | _, _ => (dst, "bad-op")

/-- a pool of live containers: `@i <line>` addresses slot `i` (default 0); every other slot is untouched
    (`HMap.poolStep_frame`).  `@i PAF j` = slot i .PutAll(slot j);  `@i TOF j` = slot i .ToObject(slot j .ToBytes()). -/
def answer (pool : Array St) (line : String) : Array St × String :=
  let ws := (line.splitOn " ").filter (fun w => !w.isEmpty)
  let (i, ws) := match ws with
    | w :: rest => if w.startsWith "@" then (((w.drop 1).toNat?).getD 0, rest) else (0, ws)
    | [] => (0, [])
  match ws with
  | ["PAF", j] =>
    match parseNat j with
    | some j => poolStep (putAllFrom (pool.getD j St.none)) St.none pool i ()
    | none => (pool, "bad-op")
  | ["TOF", j] =>
    match parseNat j, pool.getD ((parseNat j).getD 0) St.none with
    | some _, .ints s => poolStep answer1 St.none pool i ["TO", hexOf (PMap.toBytes s.conc)]
    | _, _ => (pool, "bad-op")
  | _ => poolStep answer1 St.none pool i ws

def main : IO Unit := mainLoop (Array.replicate 4 St.none) answer
