-- stub: replaced by the C12 driver
def main : IO Unit := pure ()
