-- stub: replaced by the C19 driver
def main : IO Unit := pure ()
