/-
  Driver.C19 — runs the C19 CodeModel (Golib.Cal.*) and Spec (Golib.Cal.Civil) on request lines.

    C <z>                 →  y m d wd            Spec: civil date and weekday index (0 = Mon) of day z since 1970-01-01
    H <t>                 →  yyyymmdd|datetime|timestamp|ymdhms|hhmmss|hhmm|wdIdx|wdLabel|dateUnit|minUnit|fiveMinUnit|logtime
                             (a helper that would panic answers `panic` in its slot)
    Y <cps>               →  getYmdTime of the string            | panic
    F <cps pat> <t>       →  code points of format(pat, t)
    P <cps pat> <now> <cps input> → parsed millisecond instant   | err | range (year argument of time.Date outside 1970..2200: UnixNano overflow not modelled)
                             (fresh object; signed field texts as strconv.Atoi reads them)
    Q <cps pat> <now1> <cps input1> <now2> <cps input2> …  → r1;r2;…  the same for successive Parse calls on ONE object
    R <cps pat> <now1> <cps input1> …  → the same history if Parse cleared its map on entry (parseHistoryReset)
    N <clock> <delta> now|ts|ymd|du|sst:<srv>  → one step of the package state machine (Golib.Cal.Pkg) at that clock and delta
    FZ <cps pat> <t> <off>            → code points of format in a zone of constant offset off (ms)
    PZ <cps pat> <now> <cps input> <off> → Parse with time.Local at constant offset off
    T <cps pat> <t>       →  Spec: t truncated to the fields of pat
    L <v> <size>          →  code points of the exported LPadInt(v, size)   (any ints)
    I <size> <cps input>  →  the exported ToInt on a reader holding input: `<value> <characters left>` | err

  strings travel as comma separated code points, the empty string as `-`.
-/
import Golib.Cal.Helper
import Golib.Cal.DateFormat
import Golib.Cal.DateFormatObj
import Golib.Cal.ObjHistory
import Golib.Cal.Pkg
import Driver.Common

open Cal Drv

def cpsOf (cs : List Char) : String := listOf (fun c => toString c.toNat) cs
def parseCps (s : String) : Option (List Char) := (parseList parseNat s).map (·.map Char.ofNat)

def optS (o : Option (List Char)) : String :=
  match o with
  | some cs => String.ofList cs
  | none => "panic"

/-- result of one Parse call; `range` when the normalised year leaves 1970..2200 -/
def showRes (r : PStateZ × Option Int) : String :=
  match r.2 with
  | none => "err"
  | some v =>
    let f := r.1.fields
    let y := f.y + (f.m - 1) / 12
    if y < 1970 ∨ y > 2200 then "range" else toString v

def answer (line : String) : String :=
  match line.splitOn " " with
  | ["C", z] =>
    match parseNat z with
    | some z => let c := civil z; s!"{c.y} {c.m} {c.d} {weekdayMon z}"
    | none => "bad-op"
  | ["H", t] =>
    match parseInt t with
    | some t =>
      let wi := match weekdayIdx t with | some i => toString i | none => "panic"
      let wl := match weekday t with | some l => l | none => "panic"
      "|".intercalate [optS (yyyymmdd t), optS (datetime t), optS (timestamp t), optS (ymdhms t),
        String.ofList (hhmmss t), String.ofList (hhmm t), wi, wl,
        toString (getDateUnit t), toString (getMinUnit t), toString (getFiveMinUnit t),
        String.ofList (logtime t)]
    | none => "bad-op"
  | ["Y", s] =>
    match parseCps s with
    | some cs => match getYmdTime cs with | some v => toString v | none => "panic"
    | none => "bad-op"
  | ["F", pat, t] =>
    match parseCps pat, parseNat t with
    | some pat, some t => cpsOf (format pat (fieldsOf t))
    | _, _ => "bad-op"
  | ["P", pat, now, inp] =>
    match parseCps pat, parseNat now, parseCps inp with
    | some pat, some now, some inp =>
      showRes (parseObj {} pat (fieldsOf now) inp)
    | _, _, _ => "bad-op"
  | "Q" :: pat :: calls =>
    match parseCps pat with
    | some pat =>
      let rec go (st : PStateZ) (cs : List String) (acc : List String) : List String :=
        match cs with
        | now :: inp :: rest =>
          match parseNat now, parseCps inp with
          | some now, some inp =>
            let r := parseObj st pat (fieldsOf now) inp
            go r.1 rest (showRes r :: acc)
          | _, _ => ("bad-op" :: acc).reverse
        | _ => acc.reverse
      ";".intercalate (go {} calls [])
    | none => "bad-op"
  | "R" :: pat :: calls =>
    match parseCps pat with
    | some pat =>
      let rec goR (cs : List String) (acc : List String) : List String :=
        match cs with
        | now :: inp :: rest =>
          match parseNat now, parseCps inp with
          | some now, some inp => goR rest (showRes (parseObjReset {} pat (fieldsOf now) inp) :: acc)
          | _, _ => ("bad-op" :: acc).reverse
        | _ => acc.reverse
      ";".intercalate (goR calls [])
    | none => "bad-op"
  | ["N", clock, delta, what] =>
    match parseInt clock, parseInt delta with
    | some clock, some delta =>
      let call : Option Call :=
        if what == "now" then some .now else if what == "ts" then some .timeStampNow
        else if what == "ymd" then some .ymdNow else if what == "du" then some .dateUnitNow
        else match what.splitOn ":" with
          | ["sst", srv] => (parseInt srv).map .setServerTime
          | _ => none
      match call with
      | some c =>
        match (step clock ⟨delta⟩ c).2 with
        | .str o => optS o
        | .label o => o.getD "panic"
        | .int (some v) => toString v
        | .int none => "panic"
        | .unit => "unit"
      | none => "bad-op"
    | _, _ => "bad-op"
  | ["FZ", pat, t, off] =>
    match parseCps pat, parseNat t, parseInt off with
    | some pat, some t, some off => cpsOf (formatIn off pat t)
    | _, _, _ => "bad-op"
  | ["PZ", pat, now, inp, off] =>
    match parseCps pat, parseNat now, parseCps inp, parseInt off with
    | some pat, some now, some inp, some off =>
      let r := parseObj {} pat (fieldsOfIn off now) inp
      match showRes r with
      | "err" => "err"
      | "range" => "range"
      | _ => match (parseObjIn off {} pat now inp).2 with | some v => toString v | none => "err"
    | _, _, _, _ => "bad-op"
  | ["L", v, size] =>
    match parseInt v, parseInt size with
    | some v, some size => cpsOf (lpadInt v size)
    | _, _ => "bad-op"
  | ["I", size, inp] =>
    match parseNat size, parseCps inp with
    | some size, some inp =>
      match toIntZ inp size with
      | some (v, rest) => s!"{v} {rest.length}"
      | none => "err"
    | _, _ => "bad-op"
  | ["T", pat, t] =>
    match parseCps pat, parseNat t with
    | some pat, some t => toString (truncTo pat t)
    | _, _ => "bad-op"
  | _ => "bad-op"

def main : IO Unit := statelessLoop answer
