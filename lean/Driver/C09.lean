/-
  Driver.C09 — runs the C09 Spec (`HMap.S.step`) and the C09 CodeModel (`HMap.LMap.step`) side by
  side on one history of operations; one request line → one answer line.

    N <TypeName> <hash> <cap> <thr> [R]  new session, configured from `HMap.linkedTypes`        → ok
        hash: id | mod3 | const | poly    (any function: the theorems hold for every hash)
        thr : cap:threshold,cap:threshold,…  (thresholds of the successive capacities; computed by the
              harness with Go's float32 arithmetic — the theorems hold for every threshold function)
    @i <line>   address slot i of the pool of live containers (default slot 0);   @i TOF j   copy slot j into slot i
    P <L|FL|FF|F> k v   A <mode> k v   AN k v   G k   GL k   CK k   CV v   FK LK FV LV   R k   RF RL
    C   SZ IE IF   SM n   SO asc|desc   KS VS ES
    extended API (`Golib.HMap.Entry`, theorem `C09.refine_xstep`):
    ESV k v  (SetValue on the live entry of k)   UP k  (Unipoint)   ENF k  (enumerator opened at the entry of k)
    VI  (ValueIterator)   TS / TF  (ToString / ToFormatString: hex text, `|f<bits>|` = a float32 printed with %f)
    TKS  (ToKeySet)   EQ k1 k2  (entry Equals : HashCode)

  Answer: the Spec's output;  `MISMATCH …` if the CodeModel's output or abstraction differs
  (cannot happen: `C09.refine_step`).  Keys: integers, or strings over [A-Za-z0-9_] with `~` = "".
-/
import Golib.HMap.Linked
import Golib.HMap.Types
import Golib.HMap.Multi
import Golib.HMap.Enum
import Golib.HMap.Proto
import Golib.HMap.Wire
import Golib.HMap.EntryTypes
import Driver.Common

open HMap Drv HMap.Proto

structure Sess (K : Type) [DecidableEq K] where
  d : Desc K Int
  hash : K → Nat
  thr : Nat → Nat
  spec : S K Int
  conc : LMap K Int
  sv : Int → String          -- how a value of this type is printed
  ek : EntryKind K Int       -- the entry objects of this type
  float : Bool := false      -- values travel as 4-byte float patterns in ToBytes / ToObject

inductive St
  | none
  | ints (s : Sess Int)
  | strs (s : Sess BKey)

def showList (f : α → String) (xs : List α) : String :=
  if xs.isEmpty then "[]" else ",".intercalate (xs.map f)

def showOut (sk : K → String) (sv : Int → String) : Out K Int → String
  | .unit => "u"
  | .none => "-"
  | .val v => sv v
  | .key k => sk k
  | .bool b => if b then "T" else "F"
  | .nat n => toString n
  | .keys ks => showList sk ks
  | .vals vs => showList sv vs
  | .ents es => showList (fun e => sk e.1 ++ "=" ++ sv e.2) es


def parseMode : String → Option Mode
  | "L" => some .last | "FL" => some .forceLast | "FF" => some .forceFirst | "F" => some .first
  | _ => none

def parseOp [LT K] [DecidableRel (α := K) (· < ·)] (pk : String → Option K) (ws : List String) : Option (Op K Int) :=
  match ws with
  | ["P", m, k, v] => do some (.put (← parseMode m) (← pk k) (← parseVal v))
  | ["A", m, k, v] => do some (.add (← parseMode m) (← pk k) (← parseVal v))
  | ["AN", k, v] => do some (.addNoOver (← pk k) (← parseVal v))
  | ["G", k] => do some (.get (← pk k))
  | ["GL", k] => do some (.getLRU (← pk k))
  | ["CK", k] => do some (.containsKey (← pk k))
  | ["CV", v] => do some (.containsValue (← parseVal v))
  | ["FK"] => some .firstKey
  | ["LK"] => some .lastKey
  | ["FV"] => some .firstValue
  | ["LV"] => some .lastValue
  | ["R", k] => do some (.remove (← pk k))
  | ["RF"] => some .removeFirst
  | ["RL"] => some .removeLast
  | ["C"] => some .clear
  | ["SZ"] => some .size
  | ["IE"] => some .isEmpty
  | ["IF"] => some .isFull
  | ["SM", n] => do some (.setMax (← parseNat n))
  | ["SO", "asc"] => some (.sort (fun a b => decide (a < b)))
  | ["SO", "desc"] => some (.sort (fun a b => decide (b < a)))
  | ["KS"] => some .keys
  | ["VS"] => some .values
  | ["ES"] => some .entries
  | _ => none

def parseXOp (pk : String → Option K) (ws : List String) : Option (XOp K Int) :=
  match ws with
  | ["ESV", k, v] => do some (.entrySetValue (← pk k) (← parseVal v))
  | ["UP", k] => do some (.unipoint (← pk k) 0)
  | ["ENF", k] => do some (.enumFrom (← pk k))
  | ["VI"] => some .valueIterator
  | ["TS"] => some (.toString false)
  | ["TF"] => some (.toString true)
  | ["TKS"] => some .toKeySet
  | ["EQ", a, b] => do some (.entryEquals (← pk a) (← pk b))
  | _ => none

def showText (bs : List Nat) : String :=
  String.join (bs.map (fun b =>
    if b < 256 then String.ofList [Proto.hexDigit (b / 16), Proto.hexDigit (b % 16)] else "|f" ++ toString (b - 256) ++ "|"))

def showXOut (sk : K → String) (sv : Int → String) : XOut K Int → String
  | .out o => showOut sk sv o
  | .text bs => "x" ++ showText bs
  | .eq b h => (if b then "T" else "F") ++ ":" ++ toString h

def stepSess [DecidableEq K] [LT K] [DecidableRel (α := K) (· < ·)]
    (pk : String → Option K) (sk : K → String) (s : Sess K) (ws : List String) : Sess K × String :=
  match parseXOp pk ws with
  | some xop =>
    -- the dictionary's answer, and the CodeModel's (table cell / enumerator objects / text loop): equal by `C09.refine_xstep`
    let (sp, o1) := S.xstep s.d s.ek s.spec xop
    let (cm, o2) := LMap.xstep s.hash s.thr s.d s.ek s.conc xop
    let txt := showXOut sk s.sv o1
    let txt := if o1 = o2 then txt else "MISMATCH spec=" ++ txt ++ " model=" ++ showXOut sk s.sv o2
    ({ s with spec := sp, conc := cm }, txt)
  | none =>
  match parseOp pk ws with
  | none => (s, "bad-op")
  | some op =>
    let (sp, o1) := S.step s.d s.spec op
    let (cm, o2) := LMap.step s.hash s.thr s.d s.conc op
    -- enumerations are produced by the enumerator *objects* (HasMoreElements / Next until exhausted)
    let ks := fun (_ : Unit) => LEnum.drain cm.count cm.openEnum
    let absOk := match op with
      | .entries => decide (cm.enumEntries s.hash (ks ()) = sp.ents) && decide (cm.count = sp.ents.length) && decide (cm.max = sp.max)
      | .keys => decide (Out.keys (ks ()) = o1) && decide (LEnum.takeN cm.count cm.openEnum = ks ())
      | .values => decide (Out.vals (cm.enumValues s.hash (ks ())) = o1)
      | _ => true
    let txt := showOut sk s.sv o1
    let txt := if o1 = o2 && absOk then txt else "MISMATCH spec=" ++ txt ++ " model=" ++ showOut sk s.sv o2
    ({ s with spec := sp, conc := cm }, txt)

def parseThr (s : String) : Option (List (Nat × Nat)) :=
  parseList (fun p => match p.splitOn ":" with
    | [a, b] => do some ((← parseNat a), (← parseNat b))
    | _ => none) s

def thrOf (tbl : List (Nat × Nat)) (cap : Nat) : Nat :=
  match tbl.lookup cap with
  | some t => t
  | none => cap

def intHash : String → Option (Int → Nat)
  | "id" => some (fun k => (k % 18446744073709551616).toNat)
  | "mod3" => some (fun k => (k % 3).toNat)
  | "const" => some (fun _ => 7)
  | "poly" => some (fun k => ((k * 31 + 17) % 4294967296).toNat)
  | _ => none

def strHash : String → Option (BKey → Nat)
  | "id" | "poly" => some bytesHash
  | "mod3" => some (fun s => bytesHash s % 3)
  | "const" => some (fun _ => 7)
  | _ => none

def newSess [DecidableEq K] (t : TypeDesc) (isEmpty : K → Bool)
    (hash : K → Nat) (cap : Nat) (tbl : List (Nat × Nat)) (showK : K → List Nat) (hashK : EntryDesc → K → Int → Nat) : Sess K :=
  let e := (findEntryDesc t.name).getD ⟨t.name, "", "", "", "", [], ""⟩
  { d := t.descOf isEmpty, hash := hash, thr := thrOf tbl, spec := {}, conc := LMap.new (thrOf tbl) cap, sv := showVal t, float := t.val == .float32,
    ek := entryKindOf t e showK (hashK e) }

def answer1 (st : St) (ws : List String) : St × String :=
  match ws with
  | "N" :: tn :: hk :: cap :: thr :: rest =>
    -- a trailing `R` selects the repaired descriptor (the harness sends it once a known finding no longer reproduces)
    match (findType linkedTypes tn).map (fun t => if rest == ["R"] then t.repaired else t), parseNat cap, parseThr thr with
    | some t, some cap, some tbl =>
      if t.key != .str then
        match intHash hk with
        | some h => (.ints (newSess t (fun _ => false) h cap tbl decBytes (entryHash t)), "ok")
        | none => (st, "bad-new")
      else
        match strHash hk with
        | some h => (.strs (newSess t (fun (s : BKey) => s.isEmpty) h cap tbl id (fun _ _ _ => 0)), "ok")
        | none => (st, "bad-new")
    | _, _, _ => (st, "bad-new")
  | _ =>
    match st with
    | .none => (st, "no-session")
    | .ints s => let (s', o) := stepSess parseInt toString s ws; (.ints s', o)
    | .strs s => let (s', o) := stepSess parseKey showKey s ws; (.strs s', o)

/-- `ToObject(src.ToBytes())`: every entry of the source, in its order, is put (mode last) into the target -/
def copyInto (src : St) (dst : St) (_ : Unit) : St × String :=
  match dst, src with
  | .ints d, .ints s =>
    -- Spec: every entry of the source, in order, is put (mode last); CodeModel: through the serialized form
    let sp := s.spec.ents.foldl (fun acc e => (S.step d.d acc (.put .last e.1 e.2)).1) d.spec
    let cm := LMap.toObject d.hash d.thr d.float d.d d.conc (LMap.toBytes s.hash s.float s.conc)
    (.ints { d with spec := sp, conc := cm }, "u")
  | .strs d, .strs s =>
    let sp := s.spec.ents.foldl (fun acc e => (S.step d.d acc (.put .last e.1 e.2)).1) d.spec
    let cm := (s.conc.entries s.hash).foldl (fun acc e => (LMap.step d.hash d.thr d.d acc (.put .last e.1 e.2)).1) d.conc
    (.strs { d with spec := sp, conc := cm }, "u")
  | _, _ => (dst, "bad-op")

/-- a pool of live containers: `@i <line>` addresses slot `i` (default 0); every other slot is untouched
    (`HMap.poolStep_frame`).  `@i TOF j` copies slot `j` into slot `i` through the serialized form. -/
def answer (pool : Array St) (line : String) : Array St × String :=
  let ws := (line.splitOn " ").filter (fun w => !w.isEmpty)
  let (i, ws) := match ws with
    | w :: rest => if w.startsWith "@" then (((w.drop 1).toNat?).getD 0, rest) else (0, ws)
    | [] => (0, [])
  match ws with
  | ["TOF", j] =>
    match parseNat j with
    | some j => poolStep (copyInto (pool.getD j St.none)) St.none pool i ()
    | none => (pool, "bad-op")
  | _ => poolStep answer1 St.none pool i ws

def main : IO Unit := mainLoop (Array.replicate 4 St.none) answer
