-- stub: replaced by the C09 driver
def main : IO Unit := pure ()
