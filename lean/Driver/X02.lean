import Driver.Common
/-! Driver of the extension check X02 (placeholder until the model exists). -/
def main : IO Unit := pure ()
