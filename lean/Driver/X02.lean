/-
  Driver.X02 — runs the X02 models (Golib.Ext.*) on operation lines.  Text travels as the hex of its
  bytes (`-` = empty); lists are comma separated (`-` = empty list); pairs are `k:v`.

    PT <text> <sb> <eb> <nil|pairs> <p>   → <keys> <ToStringMap(nil)> <ToStringMap(map)> <ToStringStr(p)> | diverges
    SA <args> <key> <defStr> <defInt> <defLong> <defBool>
                                          → <tags pairs> <param pairs> <param2: k:v|k:! per key> <HasKey> <Get> <GetInt> <GetLong> <GetBoolean> <Get2|panic>
    URL <text>                            → <Protocol> <Host> <RawPath> <Path> <RawPort> <Port> <RawQuery> <Query> <File> <String> <HostPort> <Domain> <DomainPath>
    C <dyn>                               → <CInt> <CLong> <CDouble> <CFloat> <CBool> <CString>
                                            dyn = nil | s:<hex> | i64:<n> | int:<n> | i32:<n> | f64:<bits> | f32:<bits> | b:0|1 | bv:0|1 | bvnil
    SC <n>                                → Scale(n)
    RS <float64 bits> <scale>             → bits of RoundScale (Lean Float = IEEE double; `skip` when value*Scale is not within int64)
    RI <v> <scale>                        → roundScaleInt
    HC <v>                                → INT.HashCode
    TS <text>                             → strings.TrimSpace
    AT <text>                             → <Atoi value> <ok 0|1>
    SB <ops>                              → <per op 1 (returned) | 0 (panic)> <ToString>
                                            op = a:<hex> Append | l: AppendLine | i: AppendLineIndent | c: AppendLineClose | k: AppendClose | m: AppendComment | x:- Clear
-/
import Golib.Ext.ParamText
import Golib.Ext.ShellArg
import Golib.Ext.UrlUtil
import Golib.Ext.CastMath
import Golib.Ext.StrBuf
import Driver.Common

open Drv

def hx (s : String) : Option Bytes := ofHex s

def pairOf (s : String) : Option (Bytes × Bytes) :=
  match s.splitOn ":" with
  | [a, b] => do let x ← hx a; let y ← hx b; pure (x, y)
  | _ => none

def showPairs (l : List (Bytes × Bytes)) : String :=
  listOf (fun (e : Bytes × Bytes) => hexOf e.1 ++ ":" ++ hexOf e.2) l

def bit (b : Bool) : String := if b then "1" else "0"

def parseDyn (s : String) : Option Ext.Cast.Dyn :=
  match s.splitOn ":" with
  | ["nil"] => some .nil
  | ["bvnil"] => some .boolValNil
  | ["s", h] => (hx h).map .str
  | ["i64", n] => (parseInt n).map .i64
  | ["int", n] => (parseInt n).map .int
  | ["i32", n] => (parseInt n).map .i32
  | ["f64", n] => (parseNat n).map .f64
  | ["f32", n] => (parseNat n).map .f32
  | ["b", n] => some (.bool (n == "1"))
  | ["bv", n] => some (.boolVal (n == "1"))
  | _ => none

def showF : Ext.Cast.FRes → String
  | .bits b => s!"bits:{b}"
  | .parse _ => "parse"
  | .narrow _ => "narrow"

def showS : Ext.Cast.SRes → String
  | .text s => "t:" ++ hexOf s
  | .fmtFloat _ => "fmt"

/-- RoundScale with the machine's IEEE double arithmetic (not part of any theorem) -/
def roundScaleF (bits : UInt64) (sc : Int) : String :=
  let v := Float.ofBits bits
  let r : Float := Float.ofInt (Ext.Cast.scale sc)
  let x := if sc == 0 then v else v * r
  if x.isNaN || x ≥ 9223372036854775807.0 || x ≤ -9223372036854775808.0 then "skip" else
  let t : Float := (x.toInt64).toFloat
  let res := if sc == 0 then t else t / r
  toString res.toBits

def sbOp (s : String) : Option Ext.StrBuf.Op :=
  match s.splitOn ":" with
  | ["a", h] => (hx h).map .append
  | ["l", h] => (hx h).map .appendLine
  | ["i", h] => (hx h).map .appendLineIndent
  | ["c", h] => (hx h).map .appendLineClose
  | ["k", h] => (hx h).map .appendClose
  | ["m", h] => (hx h).map .appendComment
  | ["x", _] => some .clear
  | _ => none

def answer (line : String) : String :=
  match line.splitOn " " with
  | ["PT", text, sb, eb, mp, p] =>
    match hx text, hx sb, hx eb, hx p with
    | some text, some sb, some eb, some p =>
      let m : Option (Option (List (Bytes × Bytes))) :=
        if mp == "nil" then some none else (parseList pairOf mp).map some
      match m with
      | none => "bad-op"
      | some m =>
        match Ext.ParamText.parse sb eb text with
        | none => "diverges"
        | some ts =>
          let ks := listOf hexOf (Ext.ParamText.keys ts)
          s!"{ks} {hexOf (Ext.ParamText.toStringMap sb eb none ts)} {hexOf (Ext.ParamText.toStringMap sb eb m ts)} {hexOf (Ext.ParamText.toStringStr p ts)}"
    | _, _, _, _ => "bad-op"
  | ["SA", args, key, ds, di, dl, db] =>
    match parseList hx args, hx key, hx ds, parseInt di, parseInt dl with
    | some args, some key, some ds, some di, some dl =>
      let s := Ext.ShellArg.parse args
      let p2 := listOf (fun (k : Bytes) =>
        hexOf k ++ ":" ++ (match Ext.ShellArg.get2 s k with | some v => hexOf v | none => "!")) (Ext.ShellArg.keysOf s)
      let g2 := match Ext.ShellArg.get2 s key with | some v => hexOf v | none => "panic"
      s!"{showPairs s.tags} {showPairs s.param} {p2} {bit (Ext.ShellArg.hasKey s key)} {hexOf (Ext.ShellArg.getStr s key ds)} {Ext.ShellArg.getInt s key di} {Ext.ShellArg.getLong s key dl} {bit (Ext.ShellArg.getBool s key (db == "1"))} {g2}"
    | _, _, _, _, _ => "bad-op"
  | ["URL", u] =>
    match hx u with
    | some u =>
      let x := Ext.Url.process u
      s!"{hexOf x.proto} {hexOf x.host} {hexOf x.rawPath} {hexOf x.path} {hexOf x.rawPort} {x.port} {hexOf x.rawQuery} {hexOf x.query} {hexOf x.file} {hexOf (Ext.Url.toString x)} {hexOf (Ext.Url.hostPort x)} {hexOf (Ext.Url.domain x)} {hexOf (Ext.Url.domainPath x)}"
    | none => "bad-op"
  | ["C", d] =>
    match parseDyn d with
    | some d =>
      s!"{Ext.Cast.cInt d} {Ext.Cast.cLong d} {showF (Ext.Cast.cDouble d)} {showF (Ext.Cast.cFloat d)} {bit (Ext.Cast.cBool d)} {showS (Ext.Cast.cString d)}"
    | none => "bad-op"
  | ["SC", n] =>
    match parseInt n with
    | some n => s!"{Ext.Cast.scale n}"
    | none => "bad-op"
  | ["RS", b, sc] =>
    match parseNat b, parseInt sc with
    | some b, some sc => roundScaleF (UInt64.ofNat b) sc
    | _, _ => "bad-op"
  | ["RI", v, sc] =>
    match parseInt v, parseInt sc with
    | some v, some sc => s!"{Ext.Cast.roundScaleInt v sc}"
    | _, _ => "bad-op"
  | ["HC", v] =>
    match parseInt v with
    | some v => s!"{Ext.Cast.intHashCode v}"
    | none => "bad-op"
  | ["TS", t] =>
    match hx t with
    | some t => hexOf (Ext.Str.trimSpace t)
    | none => "bad-op"
  | ["AT", t] =>
    match hx t with
    | some t => let r := Ext.Str.atoi t; s!"{r.1} {bit r.2}"
    | none => "bad-op"
  | ["SB", ops] =>
    match parseList sbOp ops with
    | some ops =>
      let r := Ext.StrBuf.run {} ops
      let flags := if r.2.isEmpty then "-" else String.ofList (r.2.map (fun b => if b then '1' else '0'))
      s!"{flags} {hexOf r.1.buf}"
    | none => "bad-op"
  | _ => "bad-op"

def main : IO Unit := statelessLoop answer
