/-
  Driver.C18 — runs the C18 CodeModel (Golib.Conf.*) on operation lines.

  Strings travel as the hexadecimal code points of their characters separated by '.'
  ("6b.3d.31" = "k=1"); the empty string is "-".  Lists of strings are separated by ','
  and the empty list is "[]".  Pairs are written key:value.

  Stateful ops (one FileConfig + one file + an environment):
    N                         new FileConfig state (empty map, nothing loaded), file absent, env kept,
                              observer registry emptied
    O <name> <id>             observer.Add(name, target <id>) on the registry handed to WithConfigObserver
    OC                        → <id>:<calls>,… for every target ever registered (or "[]")
    V <key> <val>             the process environment has key=val
    E <mtimeNs> <text>        the file now holds <text>, modification time <mtimeNs>
    D                         the file is removed
    M notifyreset <0|1>       does the implementation under test run the observers after a reset to the defaults?
                              (0 = the code as it is; 1 = with proposed fix-D46) — selects `reloadN`
    R                         one reload (full-version comparison: mtime in ns + size)
    RP <id,id,…|[]>           one reload during whose notification round an observer panicked after these targets
                              (the panicking one included) had been called
    RR <mtimeNs> <text>       one reload during which the file becomes <text> right after it was read
    RS                        one reload with the whole-second comparison of the unchanged code
    SV <keep> <now> <pre> <suf> <excl list> <pairs>
                              FileConfig.SetValues at clock time <now> on the present file (Sys.setValues; keep = 1: the
                              variant that carries the old modification time over) → ok <mtimeNs> <size> <text> | nofile | unreadable
       → (nofile | reset | same | loaded | parseerr | expansion) <notified so far>
    G v <key>                 GetValue            → <str>
    G d <key> <def>           GetValueDef         → <str>
    G b <key> <0|1>           GetBoolean          → 0|1
    G i <key> <def>           GetInt              → int32
    G l <key> <def>           GetLong             → int64
    G f <key>                 GetFloat            → def | parse <str>   (float parsing itself: tie B only)
    G a <key> <def> <deli>    GetStringArray      → list
    G s <key> <def> <deli>    GetIntSet           → ints separated by ',' or "[]"
    G S <key> <def> <deli>    GetIntSet, unchanged code (inverted err test)
    G h <key> <def> <deli>    the trimmed tokens GetStringHashSet / GetStringHashCodeSet hash → list
    K                         GetKeys             → list (map order of the model)
    OX <name> <id> <d>        a callback registered (name, id) during the last round; it got d ∈ {0,1} calls in it
    AD                        ApplyDefault()
    AC <pairs>                ApplyConfig(map)  (every entry stored, empty values included)
    ST                        String() / ToString() → the lines key=value (map order of the model)
  Stateless ops:
    PF <homeOpt> <WHATAP_HOME> <WHATAP_CONFIG_HOME> <WHATAP_CONFIG>   → <GetWhatapHome> <directory> <file name>
    IA <str> <list>           InArray → 0|1
    F <pairs>                 canonical full rendering of the pairs (renderFileFull) → <text>
    WP <checked> <create> <writeFailsAfter|-> <sync> <close> <rename> <old> <new>
                              store part of Write with failing calls → content=old|new|other err=… temp=…
    CD <trunc|atomic|nosync> <old> <new>  contents the configuration path can hold after a power loss → list
    P <text>                  parse + Read        → ok <pairs> | malformed | expansion
    W <fixC> <text> <pairs>   DefaultFileParser.Write → ok <body lines> <appended lines> | malformed
    S <fixC> <pre> <suf> <excl list> <text> <pairs>   SetValues → same answer as W
    C <trunc|atomic> <old> <new>  contents of the configuration file over all stop points → list
-/
import Golib.Conf.Getters
import Golib.Conf.Reload
import Golib.Conf.FS
import Golib.Conf.ObsHist
import Golib.Conf.FSDur
import Golib.Conf.FullGrammar
import Golib.Conf.FSFault
import Golib.Conf.Tracks
import Golib.Conf.SysHist
import Golib.Conf.OwnWrite
import Golib.Conf.Api
import Driver.Common

open Conf Drv

def hexNat (n : Nat) : String := String.ofList (Nat.toDigits 16 n)

def encStr (s : Str) : String :=
  if s.isEmpty then "-" else ".".intercalate (s.map (fun c => hexNat c.toNat))

def parseHexNat (s : String) : Option Nat :=
  if s.isEmpty then none else
  s.toList.foldl (fun acc c => match acc, Conf.hexVal c with
    | some a, some d => some (a * 16 + d)
    | _, _ => none) (some 0)

def decStr (s : String) : Option Str :=
  if s == "-" then some [] else
  (s.splitOn ".").mapM (fun h => (parseHexNat h).map Char.ofNat)

def encList (xs : List Str) : String :=
  if xs.isEmpty then "[]" else ",".intercalate (xs.map encStr)

def decList (s : String) : Option (List Str) :=
  if s == "[]" then some [] else (s.splitOn ",").mapM decStr

def encPairs (xs : KV) : String :=
  if xs.isEmpty then "[]" else ",".intercalate (xs.map (fun p => encStr p.1 ++ ":" ++ encStr p.2))

def decPairs (s : String) : Option KV :=
  if s == "[]" then some [] else
  (s.splitOn ",").mapM (fun p => match p.splitOn ":" with
    | [k, v] => do let k ← decStr k; let v ← decStr v; pure (k, v)
    | _ => none)

def encInts (xs : List Int) : String :=
  if xs.isEmpty then "[]" else ",".intercalate (xs.map toString)

structure DrvSt where
  cfg : Cfg := Cfg.init
  file : Option FileSt := none
  env : KV := []
  obs : Obs := Obs.empty
  notifyReset : Bool := false

def showRes (c : Cfg) : ReloadRes → String
  | .nofile => s!"nofile {c.notified}"
  | .reset => s!"reset {c.notified}"
  | .same => s!"same {c.notified}"
  | .loaded => s!"loaded {c.notified}"
  | .parseErr => s!"parseerr {c.notified}"
  | .expansion => s!"expansion {c.notified}"

def showWrite : Option WriteOut → String
  | none => "malformed"
  | some w => s!"ok {encList w.body} {encList w.appended}"

def getter (st : DrvSt) (args : List String) : String :=
  let m := st.cfg.m
  let env := st.env
  match args with
  | ["v", k] => match decStr k with
    | some k => encStr (getValue m env k) | none => "bad-op"
  | ["d", k, d] => match decStr k, decStr d with
    | some k, some d => encStr (getValueDef m env k d) | _, _ => "bad-op"
  | ["b", k, d] => match decStr k with
    | some k => if getBoolean m env k (d == "1") then "1" else "0" | none => "bad-op"
  | ["i", k, d] => match decStr k, parseInt d with
    | some k, some d => toString (getInt m env k d) | _, _ => "bad-op"
  | ["l", k, d] => match decStr k, parseInt d with
    | some k, some d => toString (getLong m env k d) | _, _ => "bad-op"
  | ["f", k] => match decStr k with
    | some k =>
      let v := getValue m env k
      if v.isEmpty then "def" else "parse " ++ encStr v
    | none => "bad-op"
  | ["a", k, d, deli] => match decStr k, decStr d, decStr deli with
    | some k, some d, some deli => encList (getStringArray m env k d deli) | _, _, _ => "bad-op"
  | ["s", k, d, deli] => match decStr k, decStr d, decStr deli with
    | some k, some d, some deli => encInts (getIntSet m env k d deli) | _, _, _ => "bad-op"
  | ["S", k, d, deli] => match decStr k, decStr d, decStr deli with
    | some k, some d, some deli => encInts (getIntSetD38 m env k d deli) | _, _, _ => "bad-op"
  | ["h", k, d, deli] => match decStr k, decStr d, decStr deli with
    | some k, some d, some deli => encList (hashTokens m env k d deli) | _, _, _ => "bad-op"
  | _ => "bad-op"

def answer (st : DrvSt) (line : String) : DrvSt × String :=
  match line.splitOn " " with
  | ["N"] => ({ st with cfg := Cfg.init, file := none, obs := Obs.empty }, "ok")
  | ["O", name, id] => match decStr name, parseNat id with
    | some name, some id => ({ st with obs := st.obs.add name id }, "ok")
    | _, _ => (st, "bad-op")
  | ["OX", name, id, d] => match decStr name, parseNat id, parseNat d with
    | some name, some id, some d =>
      -- a callback registered (name, id) during the last round and the new target got d ∈ {0,1} calls in it
      if d ≤ 1 then
        let o1 := st.obs.add name id
        ({ st with obs := if d == 1 then o1.bumpOne id else o1 }, "ok")
      else (st, "impossible")
    | _, _, _ => (st, "bad-op")
  | ["F", pairs] => match decPairs pairs with
    | some pairs => (st, encStr (renderFileFull pairs))
    | none => (st, "bad-op")
  | ["WP", chk, cr, wa, sy, cl, rn, old, new] => match decStr old, decStr new with
    | some old, some new =>
      let ft : Faults := ⟨cr == "1", if wa == "-" then none else parseNat wa, sy == "1", cl == "1", rn == "1"⟩
      let r := storeProtocol (chk == "1") ft old new
      let tgt := match r.1.target with | some c => (if c == old then "old" else if c == new then "new" else "other") | none => "missing"
      (st, s!"content={tgt} err={r.2} temp={r.1.temp.isSome}")
    | _, _ => (st, "bad-op")
  | ["CD", which, old, new] => match decStr old, decStr new with
    | some old, some new =>
      let seq := if which == "trunc" then truncSeq else if which == "nosync" then noSyncSeq else atomicSeq
      let outs := (dstates new seq (DFS.init old)).flatMap outcomes
      (st, encList outs.eraseDups)
    | _, _ => (st, "bad-op")
  | ["OC"] =>
    (st, if st.obs.counts.isEmpty then "[]" else ",".intercalate (st.obs.counts.map (fun p => s!"{p.1}:{p.2}")))
  | ["V", k, v] => match decStr k, decStr v with
    | some k, some v => ({ st with env := put st.env k v }, "ok")
    | _, _ => (st, "bad-op")
  | ["E", t, text] => match parseInt t, decStr text with
    | some t, some text => ({ st with file := some ⟨t, text⟩ }, "ok")
    | _, _ => (st, "bad-op")
  | ["D"] => ({ st with file := none }, "ok")
  | ["M", "notifyreset", v] => ({ st with notifyReset := v == "1" }, "ok")
  | ["R"] =>
    let (c, r) := reloadN st.notifyReset verFull st.cfg st.file
    ({ st with cfg := c, obs := if notifies st.notifyReset r then st.obs.run else st.obs }, showRes c r)
  | ["RP", ids] =>
    -- a reload during whose notification round an observer panicked: only the targets `ids` were visited
    let idl : List Nat := if ids == "[]" then [] else (ids.splitOn ",").filterMap parseNat
    let (c, r) := reloadN st.notifyReset verFull st.cfg st.file
    ({ st with cfg := c, obs := if notifies st.notifyReset r then st.obs.runPartial idl else st.obs }, showRes c r)
  | ["RR", t, text] => match parseInt t, decStr text, st.file with
    | some t, some text, some f1 =>
      -- a reload during which the file changes from its present state to ⟨t, text⟩ right after the read
      let r := reload verFull st.cfg (some f1)
      let c := reloadRacing false st.cfg f1 ⟨t, text⟩
      ({ st with cfg := c, file := some ⟨t, text⟩, obs := if r.2 == .loaded then st.obs.run else st.obs }, showRes c r.2)
    | _, _, _ => (st, "bad-op")
  | ["SV", keep, now, pre, suf, excl, pairs] =>
    match parseInt now, decStr pre, decStr suf, decList excl, decPairs pairs with
    | some now, some pre, some suf, some excl, some pairs =>
      let s : Sys := ⟨st.cfg, st.file, st.obs⟩
      let s' := s.setValues (keep == "1") pre suf excl now pairs
      match st.file, s'.file with
      | none, _ => (st, "nofile")
      | some f0, some f =>
        if (setValuesModel true pre suf excl f0.text pairs).isNone then (st, "unreadable")
        else ({ st with file := s'.file }, s!"ok {f.mtimeNs} {utf8Len f.text} {encStr f.text}")
      | _, none => (st, "nofile")
    | _, _, _, _, _ => (st, "bad-op")
  | ["AD"] => ({ st with cfg := applyDefault st.cfg }, "ok")
  | ["AC", pairs] => match decPairs pairs with
    | some pairs => ({ st with cfg := applyConfig st.cfg pairs }, "ok")
    | none => (st, "bad-op")
  | ["ST"] => (st, encList (showLines st.cfg.m))
  | ["PF", a, b, c, d] => match decStr a, decStr b, decStr c, decStr d with
    | some a, some b, some c, some d =>
      let p := confFileParts a b c d
      (st, s!"{encStr (whatapHome a b)} {encStr p.1} {encStr p.2}")
    | _, _, _, _ => (st, "bad-op")
  | ["IA", x, l] => match decStr x, decList l with
    | some x, some l => (st, if inArray x l then "1" else "0")
    | _, _ => (st, "bad-op")
  | ["RS"] =>
    let (c, r) := reload verSec st.cfg st.file
    ({ st with cfg := c, obs := if r == .loaded then st.obs.run else st.obs }, showRes c r)
  | "G" :: args => (st, getter st args)
  | ["K"] => (st, encList (st.cfg.m.map (·.1)))
  | ["P", text] => match decStr text with
    | some text =>
      (st, match parseProps text with
        | .ok props => "ok " ++ encPairs (readMap props)
        | .malformed => "malformed"
        | .expansion => "expansion")
    | none => (st, "bad-op")
  | ["W", fx, text, pairs] => match decStr text, decPairs pairs with
    | some text, some pairs => (st, showWrite (writeModel (fx == "1") text pairs))
    | _, _ => (st, "bad-op")
  | ["S", fx, pre, suf, excl, text, pairs] =>
    match decStr pre, decStr suf, decList excl, decStr text, decPairs pairs with
    | some pre, some suf, some excl, some text, some pairs =>
      (st, showWrite (setValuesModel (fx == "1") pre suf excl text pairs))
    | _, _, _, _, _ => (st, "bad-op")
  | ["C", which, old, new] => match decStr old, decStr new with
    | some old, some new =>
      let seq := if which == "trunc" then truncSeq else atomicSeq
      let states := crashStates new seq ⟨some old, none⟩
      let contents := states.map (fun fs => match fs.target with | some c => c | none => "\x00missing".toList)
      (st, encList contents.eraseDups)
    | _, _ => (st, "bad-op")
  | _ => (st, "bad-op")

def main : IO Unit := mainLoop ({} : DrvSt) answer
