-- stub: replaced by the C18 driver
def main : IO Unit := pure ()
