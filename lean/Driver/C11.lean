-- stub: replaced by the C11 driver
def main : IO Unit := pure ()
