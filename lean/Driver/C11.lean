/-
  Driver.C11 — the sequential request-queue model (Golib/Queue/Seq.lean) on lines.

    Q  <cap> <op>;<op>;…            → <ret>[<ev>,<ev>…];…  | <items>/<cap>      (QF / DQF: the same with the repaired timed get;
                                                                                   QL: QF on the pointer-level linked list)
    DQ <cap1> <cap2> <op>;…         → <ret>[<i>:<ev>,…];…  | <items1>/<cap1> <items2>/<cap2>
    T  <timeto> <polled>@<now>;…    → got <x> | timeout <now> | running      (timed get over a clock)

    TQ <timeto> <cap> <round>|<round>|…   the polling loop with the queue: round = <op>,<op>,…@<now>
                                    (operations of other threads before this poll; `-` = none)
                                    → got <x> | timeout <now> | running, then [events] | queue

    TM <cap> <d0>,<d1>,… <ev>|<ev>|…      several timed gets on one queue (Queue/TimedMany.lean): consumer i has
                                    deadline d_i; ev = o<op> (operation of another thread) or <i>@<now> (a turn of
                                    consumer i: poll, and if empty-handed the clock reads <now> after the sleep)
                                    → <res0>;<res1>;… [events] | queue      res = got <x> | timeout <now> | running

  queue ops   p<x> put   f<x> putForce   g get (blocking; `blocked` when empty)   n getNoWait
              t<k> getTimeout with k extra polls   x clear   c<cap> setCapacity   s size   k getCapacity
  double      p1_<x> p2_<x> f1_<x> f2_<x> g n t<k> x c<c1>_<c2> s s1 s2 k1 k2
  element 0 = nil.   events: a accepted, F failed, O overflowed, d delivered, c cleared, w swallowed
-/
import Golib.Queue.Seq
import Golib.Queue.Timed
import Golib.Queue.Fixed
import Golib.Queue.TimedMany
import Golib.Queue.OverLinked
import Driver.Common

open Drv Queue

def retStr : Ret → String
  | .bool b => if b then "t" else "f"
  | .val x => toString x
  | .int n => toString n
  | .unit => "-"
  | .blocked => "blocked"

def evStr : Ev → String
  | .accepted x => s!"a{x}"
  | .failed x => s!"F{x}"
  | .overflowed x => s!"O{x}"
  | .delivered x => s!"d{x}"
  | .cleared x => s!"c{x}"
  | .swallowed x => s!"w{x}"

def parseOp (s : String) : Option Op :=
  match s with
  | "g" => some .get
  | "n" => some .getNoWait
  | "x" => some .clear
  | "s" => some .size
  | "k" => some .getCapacity
  | _ =>
    match s.toList with
    | 'p' :: rest => (parseNat (String.ofList rest)).map .put
    | 'f' :: rest => (parseNat (String.ofList rest)).map .putForce
    | 't' :: rest => (parseNat (String.ofList rest)).map .getTimeout
    | 'c' :: rest => (parseInt (String.ofList rest)).map .setCapacity
    | _ => none

def parseDOp (s : String) : Option DOp :=
  match s with
  | "g" => some .get
  | "n" => some .getNoWait
  | "x" => some .clear
  | "s" => some .size
  | "s1" => some .size1
  | "s2" => some .size2
  | "k1" => some .getCapacity1
  | "k2" => some .getCapacity2
  | _ =>
    match s.toList with
    | 'p' :: '1' :: '_' :: rest => (parseNat (String.ofList rest)).map .put1
    | 'p' :: '2' :: '_' :: rest => (parseNat (String.ofList rest)).map .put2
    | 'f' :: '1' :: '_' :: rest => (parseNat (String.ofList rest)).map .putForce1
    | 'f' :: '2' :: '_' :: rest => (parseNat (String.ofList rest)).map .putForce2
    | 't' :: rest => (parseNat (String.ofList rest)).map .getTimeout
    | 'c' :: rest =>
      match (String.ofList rest).splitOn "_" with
      | [a, b] => do some (.setCapacity (← parseInt a) (← parseInt b))
      | _ => none
    | _ => none

def qShow (q : Q) : String := listOf toString q.items ++ "/" ++ toString q.cap

/-- per-op output, accumulated in reverse (histories are short; no quadratic append) -/
def runQ (q : Q) : List Op → List String → Q × List String
  | [], acc => (q, acc.reverse)
  | op :: ops, acc =>
    let s := step q op
    runQ s.1 ops ((retStr s.2.1 ++ "[" ++ ",".intercalate (s.2.2.map evStr) ++ "]") :: acc)

def runDQ (d : DQ) : List DOp → List String → DQ × List String
  | [], acc => (d, acc.reverse)
  | op :: ops, acc =>
    let s := dstep d op
    runDQ s.1 ops ((retStr s.2.1 ++ "[" ++ ",".intercalate (s.2.2.map (fun e => s!"{e.1}:{evStr e.2}")) ++ "]") :: acc)

/-- the same with the repaired timed get (proposed/C11/fix-KF-nil-element-swallowed.diff) -/
def runQF (q : Q) : List Op → List String → Q × List String
  | [], acc => (q, acc.reverse)
  | op :: ops, acc =>
    let s := stepF q op
    runQF s.1 ops ((retStr s.2.1 ++ "[" ++ ",".intercalate (s.2.2.map evStr) ++ "]") :: acc)

def runDQF (d : DQ) : List DOp → List String → DQ × List String
  | [], acc => (d, acc.reverse)
  | op :: ops, acc =>
    let s := dstepF d op
    runDQF s.1 ops ((retStr s.2.1 ++ "[" ++ ",".intercalate (s.2.2.map (fun e => s!"{e.1}:{evStr e.2}")) ++ "]") :: acc)

/-- the queue over the pointer-level linked list (Queue/OverLinked.lean) -/
def runQL (q : QL) : List Op → List String → QL × List String
  | [], acc => (q, acc.reverse)
  | op :: ops, acc =>
    let s := stepL q op
    runQL s.1 ops ((retStr s.2.1 ++ "[" ++ ",".intercalate (s.2.2.map evStr) ++ "]") :: acc)

def qlShow (q : QL) : String :=
  listOf toString (decArr (Lists.Linked.LL.step .toArray q.list).1) ++ "/" ++ toString q.cap

def parseOps {α : Type} (f : String → Option α) (s : String) : Option (List α) :=
  if s == "-" || s == "" then some [] else (s.splitOn ";").mapM f

def parseTick (s : String) : Option Tick :=
  match s.splitOn "@" with
  | [p, n] => do some ⟨← parseNat p, ← parseInt n⟩
  | _ => none

def parseRound (s : String) : Option Round :=
  match s.splitOn "@" with
  | [ops, n] => do
    let os ← if ops == "-" || ops == "" then some [] else (ops.splitOn ",").mapM parseOp
    some ⟨os, ← parseInt n⟩
  | _ => none

def parseMEv (s : String) : Option MEv :=
  match s.toList with
  | 'o' :: rest => (parseOp (String.ofList rest)).map .other
  | _ =>
    match s.splitOn "@" with
    | [i, n] => do some (.poll (← parseNat i) (← parseInt n))
    | _ => none

def resStr : Option TimedRes → String
  | some (.got x) => s!"got {x}"
  | some (.timedOut t) => s!"timeout {t}"
  | none => "running"

def answer (line : String) : String :=
  match line.splitOn " " with
  | ["TM", cap, deadlines, evs] =>
    match parseInt cap, (deadlines.splitOn ",").mapM parseInt, (evs.splitOn "|").mapM parseMEv with
    | some c, some ds, some es =>
      let r := mrunTR (MSt.start ⟨[], c⟩ ds) es []
      ";".intercalate (r.1.cs.map (fun c => resStr c.res)) ++ " [" ++ ",".intercalate (r.2.map evStr) ++ "] | " ++ qShow r.1.q
    | _, _, _ => "bad-op"
  | ["Q", cap, ops] =>
    match parseInt cap, parseOps parseOp ops with
    | some c, some os =>
      let r := runQ ⟨[], c⟩ os []
      ";".intercalate r.2 ++ " | " ++ qShow r.1
    | _, _ => "bad-op"
  | ["QL", cap, ops] =>
    match parseInt cap, parseOps parseOp ops with
    | some c, some os =>
      let r := runQL (QL.new c) os []
      ";".intercalate r.2 ++ " | " ++ qlShow r.1
    | _, _ => "bad-op"
  | ["QF", cap, ops] =>
    match parseInt cap, parseOps parseOp ops with
    | some c, some os =>
      let r := runQF ⟨[], c⟩ os []
      ";".intercalate r.2 ++ " | " ++ qShow r.1
    | _, _ => "bad-op"
  | ["DQF", c1, c2, ops] =>
    match parseInt c1, parseInt c2, parseOps parseDOp ops with
    | some a, some b, some os =>
      let r := runDQF ⟨⟨[], a⟩, ⟨[], b⟩⟩ os []
      ";".intercalate r.2 ++ " | " ++ qShow r.1.q1 ++ " " ++ qShow r.1.q2
    | _, _, _ => "bad-op"
  | ["DQ", c1, c2, ops] =>
    match parseInt c1, parseInt c2, parseOps parseDOp ops with
    | some a, some b, some os =>
      let r := runDQ ⟨⟨[], a⟩, ⟨[], b⟩⟩ os []
      ";".intercalate r.2 ++ " | " ++ qShow r.1.q1 ++ " " ++ qShow r.1.q2
    | _, _, _ => "bad-op"
  | ["TQ", timeto, cap, rounds] =>
    match parseInt timeto, parseInt cap, (rounds.splitOn "|").mapM parseRound with
    | some tt, some c, some rs =>
      let r := timedGetQ tt ⟨[], c⟩ rs
      let res := match r.2.1 with
        | some (.got x) => s!"got {x}"
        | some (.timedOut t) => s!"timeout {t}"
        | none => "running"
      res ++ " [" ++ ",".intercalate (r.2.2.map evStr) ++ "] | " ++ qShow r.1
    | _, _, _ => "bad-op"
  | ["T", timeto, ticks] =>
    match parseInt timeto, parseOps parseTick ticks with
    | some tt, some tks =>
      match timedGet tt tks with
      | some (.got x) => s!"got {x}"
      | some (.timedOut t) => s!"timeout {t}"
      | none => "running"
    | _, _ => "bad-op"
  | _ => "bad-op"

def main : IO Unit := statelessLoop answer
