/-
  Driver.C13 — runs the C13 CodeModel (Golib.Lists.*) on request lines.

  element types  i (IntList)  l (LongList)  f (FloatList, bit pattern)  d (DoubleList, bit pattern)
                 s (StringList, `x` followed by the hex of the bytes; the empty string is `x`)
  lists are comma separated, the empty list is `-`.

    L <t> <init> <ops>          history on one typed list.  init: nil | cap:<n>
         ops (`;` separated):   a:<v>  A:<list>  B:<pad>:<list>  S  s:<i>:<v>  g:<i>  n  t
         answer (`;` separated): u | p | v<val> | n<k> | t<list>
    W <t> <list>                wire form of the list holding these elements        → hex
    R <t> <hex>                 Read into NewXListDefault()                          → ok <list> <rest length> | fail
    F <t> <list> <idx list>     Filtering                                            → t<list> | p
    O <pt> <asc> <ct> <casc> <vals> <cvals> <perm>
                                is <perm> a permutation of the indices that is sorted w.r.t. the
                                model's comparator closure?  ct = `-`: Sorting(asc) (no child);
                                ct = I: int child compared through float64 (the code before fix-D43)
                                                                                     → ok | bad-perm | bad-order
    M <pt> <asc> <ct> <casc> <vals> <cvals>
                                the model's own Sorting/SortingAnyList (sort := merge sort)  → <perm>
    X <t> <ops>                 history over a pool of 4 lists and 3 caller-held slices (aliasing check)
         ops: N:<j>:<init>  a:<j>:<v>  A:<j>:<k> (AddAllArray(slice k))  B:<j>:<k> (AddAll(list k))
              s:<j>:<i>:<v>  g:<j>:<i>  T:<j>:<k> (slice k = ToArray())  R:<k>:<list> (slice k = literal)
              w:<k>:<i>:<v> (slice k[i] = v)  F:<dst>:<src>:<idx list>
              b:<j>:<v> / e:<j>:<i>:<v>  add / set through an alias method (AddLong on an IntList, …)
              Z:<j>:<asc>  Sorting(asc): answer z<values along the returned permutation>  (-0 printed as 0)
              Y:<j>:<asc>:<k>:<casc>  SortingAnyList(asc, list k, casc): answer y<value/child,…>
              D:<j>:<k>  list j .Read( bytes of list k .Write() )   (decode into a receiver in any state)
         answer per op: <u|p|v..>#<list0>|<list1>|<list2>|<list3>|<slice0>|<slice1>|<slice2>
    C <t> <init> <ops>          cross-type (integer <-> decimal text) methods, t = i | l | s
         ops: aI:<int> aS:<str> sI:<i>:<int> sS:<i>:<str> gI:<i> gS:<i> t     answer: u | p | v<int> | v<str> | t<list>
         … and the views  P (ToString: the whole table)  gV:<i> (GetValue)  gO:<i> (GetObject)
    N <t> <init> <ops>          numeric cross-type methods, t = i | l | f | d
         ops: aI:<int> aF:<bits32> aD:<bits64>  sI/sF/sD:<i>:<x>  gI/gF/gD:<i>  gV:<i>  gO:<i>  t
         answer: u | p | excluded | v<int> | vf<bits> | vd<bits> | V<tag>:<x> | nil | t<list>
    TP <cols>                   table after Put of the columns in order    cols: <keyhex>:<t>=<list>|…
    TW <cols>                   writeTable of that table                                      → hex
    TR <hex>                    readTable into an empty table      → ok <cols> <rest length> | fail
    TS <keyhex> <asc> <cols>    Sort(table, key, asc)               → <cols> | p      (sort.Sort := goSort)
    TA <keyhex> <asc> <key2hex> <asc2> <cols>    SortAnyList                          → <cols> | p
    H <ops>                     history on ONE StatGeneralPack (lazy table: wire bytes + in-memory edits); ops `;`-separated, fields `/`-separated
         put/<keyhex>/<t>=<list>   read/<cols>   readself   readzero   get/<keyhex>   getadd/<keyhex>/<v>   getset/<keyhex>/<i>/<v>
         table   sort/<keyhex>/<asc>   sortany/<keyhex>/<asc>/<key2hex>/<asc2>   write   empty
         iter (Iterate: keys handed over # number of calls)   str (ToString: data.Size(), dataBytesSize, len(dataBytes))
         answer: u | p | c<t>=<list> | T<cols> | w<size>:<hex> | b0 | b1 | I<keys>#<n> | I- | S<a>,<b>,<c>
    G <t> <init> <ops>          float <-> text cross-type methods (ParseFloat / FormatFloat 'f' 6), t = f | d | s
                                (D: a DoubleList whose SetString parses with bitSize 64 — the code after fix-D46)
         ops: aS:<str> aF:<bits32> aD:<bits64>  sS/sF/sD:<i>:<x>  gS:<i> gF:<i> gD:<i>  t
         answer: u | p | excluded | v<str> | vf<bits> | vd<bits> | t<list>
    K <ops>                     history on a LinkedList
         ops: af:<v> al:<v> ad:<v> rf rl rm:<k> pb:<k>:<v> cl t n gf gl   ts (ToString)  es:<k> (ToString of entity k)
         answer: u | p | v<val> | nil | n<k> | t<list> | s<str>
-/
import Golib.Lists.Run
import Golib.Lists.Wire
import Golib.Lists.Sort
import Golib.Lists.Linked
import Golib.Lists.Multi
import Golib.Lists.Cross
import Golib.Lists.TableWire
import Golib.Lists.CrossNum
import Golib.Lists.PackTable
import Golib.Lists.FloatText
import Golib.Lists.LinkedText
import Driver.Common

open Drv Lists

def zeroOf (t : String) : V :=
  match t with
  | "i" | "l" => .i 0
  | "f" | "d" => .b 0
  | _ => .s []

def parseV (t : String) (s : String) : Option V :=
  match t with
  | "i" | "l" => (parseInt s).map .i
  | "f" | "d" => (parseNat s).map .b
  | _ => if s.startsWith "x" then (ofHexAux (s.toList.drop 1) []).map .s else none

def showV : V → String
  | .i v => toString v
  | .b n => toString n
  | .s bs => "x" ++ (if bs.isEmpty then "" else hexOf bs)

def parseVs (t : String) (s : String) : Option (List V) := parseList (parseV t) s

def isType (t : String) : Bool := t == "i" || t == "l" || t == "f" || t == "d" || t == "s"

/-- element codec of list type `t`, lifted to `V` -/
def codecOf (t : String) : V → Bytes := fun v =>
  match t, v with
  | "i", .i x | "l", .i x => decimalCodec.enc x
  | "f", .b x => floatCodec.enc x
  | "d", .b x => doubleCodec.enc x
  | _, .s x => textCodec.enc x
  | _, _ => []

def decOf (t : String) : P V :=
  match t with
  | "i" | "l" => P.map V.i decimalCodec.dec
  | "f" => P.map V.b floatCodec.dec
  | "d" => P.map V.b doubleCodec.dec
  | _ => P.map V.s textCodec.dec

/-- the wire functions take a `Codec`; the driver only needs `enc`/`dec`, so the proof fields are
    filled for the trivially-false well-formedness predicate (nothing is claimed through it) -/
def vCodec (t : String) : Codec V :=
  { enc := codecOf t, dec := decOf t, wf := fun _ => False, rt := fun _ _ h => h.elim }

def leOf (t : String) : V → V → Bool :=
  if t == "I" then fun a b =>
    match a, b with
    | .i x, .i y => Sort.intLeViaDouble x y
    | _, _ => true
  else if t == "f" then Table.vLe 31 else Table.vLe 63

/-! ### typed-list histories -/

def parseOp (t : String) (s : String) : Option (Op V) :=
  match s.splitOn ":" with
  | ["a", v] => (parseV t v).map .add
  | ["A", vs] => (parseVs t vs).map .addAllArray
  | ["B", pad, vs] => match parseNat pad, parseVs t vs with
    | some p, some xs => some (.addAll xs p)
    | _, _ => none
  | ["S"] => some .addAllSelf
  | ["s", i, v] => match parseInt i, parseV t v with
    | some i, some v => some (.set i v)
    | _, _ => none
  | ["g", i] => (parseInt i).map .get
  | ["n"] => some .size
  | ["t"] => some .toArray
  | _ => none

def showOut : Out V → String
  | .unit => "u"
  | .panic => "p"
  | .val v => "v" ++ showV v
  | .size n => "n" ++ toString n
  | .arr xs => "t" ++ listOf showV xs

def parseInit (t : String) (s : String) : Option (TL V) :=
  if s == "nil" then some TL.zeroValue
  else match s.splitOn ":" with
    | ["cap", n] => (parseNat n).map (TL.mk' (zeroOf t))
    | _ => none

def semi (xs : List String) : String := if xs.isEmpty then "-" else ";".intercalate xs

def doL (t init ops : String) : String :=
  match parseInit t init, (if ops == "-" then some [] else (ops.splitOn ";").mapM (parseOp t)) with
  | some l, some ops =>
    let r := Code.runTR Growth.go (zeroOf t) ops l []
    semi (r.1.map showOut)
  | _, _ => "bad-op"

def listOfVals (t : String) (vs : List V) : TL V :=
  match TL.addAllArray Growth.go (zeroOf t) vs (TL.mk' (zeroOf t) 0) with
  | some l => l
  | none => TL.mk' (zeroOf t) 0

/-! ### multi-object histories -/

def parseX (t : String) (s : String) : Option (Multi.MOp V) :=
  match s.splitOn ":" with
  | ["N", j, "nil"] => (parseNat j).map (fun j => .newList j none)
  | ["N", j, "cap", n] => match parseNat j, parseNat n with
    | some j, some n => some (.newList j (some n))
    | _, _ => none
  | ["a", j, v] => match parseNat j, parseV t v with
    | some j, some v => some (.add j v)
    | _, _ => none
  | ["A", j, k] => match parseNat j, parseNat k with
    | some j, some k => some (.addAllArray j k)
    | _, _ => none
  | ["B", j, k] => match parseNat j, parseNat k with
    | some j, some k => some (.addAll j k)
    | _, _ => none
  | ["s", j, i, v] => match parseNat j, parseInt i, parseV t v with
    | some j, some i, some v => some (.set j i v)
    | _, _, _ => none
  | ["g", j, i] => match parseNat j, parseInt i with
    | some j, some i => some (.get j i)
    | _, _ => none
  | ["T", j, k] => match parseNat j, parseNat k with
    | some j, some k => some (.toArray j k)
    | _, _ => none
  | ["R", k, vs] => match parseNat k, parseVs t vs with
    | some k, some vs => some (.arr k vs)
    | _, _ => none
  | ["w", k, i, v] => match parseNat k, parseNat i, parseV t v with
    | some k, some i, some v => some (.arrSet k i v)
    | _, _, _ => none
  | ["F", d, sr, idx] => match parseNat d, parseNat sr, parseList parseInt idx with
    | some d, some sr, some idx => some (.filtering d sr idx)
    | _, _, _ => none
  | ["Z", j] => (parseNat j).map .sortScribble
  | _ => none

def snapshot (st : Multi.MState V) : String :=
  "|".intercalate (((List.range 4).map (fun i => listOf showV (TL.toArray (st.lists i)))) ++
    ((List.range 3).map (fun k => listOf showV (st.arrs k))))

def runX (t : String) : List (Multi.MOp V) → Multi.MState V → List String → List String
  | [], _, acc => acc.reverse
  | op :: ops, st, acc =>
    let r := Multi.step Growth.go (zeroOf t) op st
    runX t ops r.2 ((showOut r.1 ++ "#" ++ snapshot r.2) :: acc)

/-! ### cross-type methods -/

def parseStr (s : String) : Option Bytes :=
  if s.startsWith "x" then ofHexAux (s.toList.drop 1) [] else none

def showStr (bs : Bytes) : String := "x" ++ (if bs.isEmpty then "" else hexOf bs)

def parseCI (s : String) : Option Cross.IOp :=
  match s.splitOn ":" with
  | ["aI", v] => (parseInt v).map .addInt
  | ["aS", v] => (parseStr v).map .addString
  | ["sI", i, v] => match parseInt i, parseInt v with
    | some i, some v => some (.setInt i v)
    | _, _ => none
  | ["sS", i, v] => match parseInt i, parseStr v with
    | some i, some v => some (.setString i v)
    | _, _ => none
  | ["gI", i] => (parseInt i).map .getInt
  | ["gS", i] => (parseInt i).map .getString
  | ["t"] => some .toArray
  | _ => none

def parseCS (s : String) : Option Cross.SOp :=
  match s.splitOn ":" with
  | ["aI", v] => (parseInt v).map .addInt
  | ["aS", v] => (parseStr v).map .addString
  | ["sI", i, v] => match parseInt i, parseInt v with
    | some i, some v => some (.setInt i v)
    | _, _ => none
  | ["sS", i, v] => match parseInt i, parseStr v with
    | some i, some v => some (.setString i v)
    | _, _ => none
  | ["gI", i] => (parseInt i).map .getInt
  | ["gS", i] => (parseInt i).map .getString
  | ["t"] => some .toArray
  | _ => none

def showX : Cross.XOut → String
  | .unit => "u"
  | .panic => "p"
  | .int v => "v" ++ toString v
  | .str s => "v" ++ showStr s
  | .ints xs => "t" ++ listOf toString xs
  | .strs xs => "t" ++ listOf showStr xs

def initOf {α : Type} (z : α) (s : String) : Option (TL α) :=
  if s == "nil" then some TL.zeroValue
  else match s.splitOn ":" with
    | ["cap", n] => (parseNat n).map (TL.mk' z)
    | _ => none

/-- ops of a C line: a cross-type method of the model, or one of the views P (ToString),
    gV (GetValue), gO (GetObject) evaluated on the current model state -/
inductive CView where
  | toStr | getValue (i : Int) | getObject

def parseView (s : String) : Option CView :=
  match s.splitOn ":" with
  | ["P"] => some .toStr
  | ["gV", i] => (parseInt i).map .getValue
  | ["gO", _] => some .getObject
  | _ => none

def runCI : List String → TL Int → List String → Option (List String)
  | [], _, acc => some acc.reverse
  | o :: os, l, acc =>
    match parseView o with
    | some .toStr => runCI os l (("v" ++ showStr (CrossNum.toStringInts l)) :: acc)
    | some (.getValue i) => runCI os l ((match TL.get l i with
        | some v => "Vdecimal:" ++ toString v
        | none => "p") :: acc)
    | some .getObject => runCI os l ("nil" :: acc)
    | none => match parseCI o with
      | some op => let r := Cross.stepI Growth.go op l; runCI os r.2 (showX r.1 :: acc)
      | none => none

def runCS : List String → TL Bytes → List String → Option (List String)
  | [], _, acc => some acc.reverse
  | o :: os, l, acc =>
    match parseView o with
    | some .toStr => runCS os l (("v" ++ showStr (CrossNum.toStringStrs l)) :: acc)
    | some (.getValue i) => runCS os l ((match TL.get l i with
        | some v => "Vtext:" ++ showStr v
        | none => "p") :: acc)
    | some .getObject => runCS os l ("nil" :: acc)
    | none => match parseCS o with
      | some op => let r := Cross.stepS Growth.go op l; runCS os r.2 (showX r.1 :: acc)
      | none => none

def doC (t init ops : String) : String :=
  let opl := if ops == "-" then [] else ops.splitOn ";"
  if t == "s" then
    match initOf ([] : Bytes) init with
    | some l => match runCS opl l [] with
      | some outs => semi outs
      | none => "bad-op"
    | none => "bad-op"
  else
    match initOf (0 : Int) init with
    | some l => match runCI opl l [] with
      | some outs => semi outs
      | none => "bad-op"
    | none => "bad-op"

/-! ### numeric cross-type methods -/

open CrossNum in
def kindOf (t : String) : Kind :=
  match t with
  | "f" => .f32 | "d" => .f64 | _ => .int

open CrossNum in
def showNum : Num → String
  | .int v => toString v
  | .f32 b => "f" ++ toString b
  | .f64 b => "d" ++ toString b

open CrossNum in
def parseN (s : String) : Option NOp :=
  match s.splitOn ":" with
  | ["aI", v] => (parseInt v).map (fun v => .add (.int v))
  | ["aF", b] => (parseNat b).map (fun b => .add (.f32 b))
  | ["aD", b] => (parseNat b).map (fun b => .add (.f64 b))
  | ["sI", i, v] => match parseInt i, parseInt v with
    | some i, some v => some (.set i (.int v))
    | _, _ => none
  | ["sF", i, b] => match parseInt i, parseNat b with
    | some i, some b => some (.set i (.f32 b))
    | _, _ => none
  | ["sD", i, b] => match parseInt i, parseNat b with
    | some i, some b => some (.set i (.f64 b))
    | _, _ => none
  | ["gI", i] => (parseInt i).map (fun i => .get i .int)
  | ["gF", i] => (parseInt i).map (fun i => .get i .f32)
  | ["gD", i] => (parseInt i).map (fun i => .get i .f64)
  | ["gV", i] => (parseInt i).map .getValue
  | ["gO", i] => (parseInt i).map .getObject
  | ["t"] => some .toArray
  | _ => none

open CrossNum in
def showN : NOut → String
  | .unit => "u"
  | .panic => "p"
  | .excluded => "excluded"
  | .num x => "v" ++ showNum x
  | .value tag x => "V" ++ tag ++ ":" ++ showNum x
  | .nil => "nil"
  | .nums xs => "t" ++ listOf showNum xs

def doN (t init ops : String) : String :=
  let opl := if ops == "-" then [] else ops.splitOn ";"
  let k := kindOf t
  match initOf k.zero init, opl.mapM parseN with
  | some l, some ops => semi ((CrossNum.run Growth.go k ops l []).map showN)
  | _, _ => "bad-op"

/-! ### float <-> text cross-type methods -/

open FloatText in
def parseTV (c : String) (s : String) : Option TV :=
  match c with
  | "S" => (parseStr s).map .text
  | "F" => (parseNat s).map .f32
  | "D" => (parseNat s).map .f64
  | _ => none

open FloatText in
def parseG (s : String) : Option VOp :=
  match s.splitOn ":" with
  | ["t"] => some .toArray
  | ["aS", a] => (parseTV "S" a).map .add
  | ["aF", a] => (parseTV "F" a).map .add
  | ["aD", a] => (parseTV "D" a).map .add
  | ["gS", i] => (parseInt i).map (fun i => .get i .text)
  | ["gF", i] => (parseInt i).map (fun i => .get i .f32)
  | ["gD", i] => (parseInt i).map (fun i => .get i .f64)
  | [o, i, a] =>
    match (if o == "sS" then some "S" else if o == "sF" then some "F" else if o == "sD" then some "D" else none) with
    | some c => match parseInt i, parseTV c a with
      | some i, some x => some (.set i x)
      | _, _ => none
    | none => none
  | _ => none

open FloatText in
def showTV : TV → String
  | .text s => showStr s
  | .f32 b => "f" ++ toString b
  | .f64 b => "d" ++ toString b

open FloatText in
def showG {α : Type} (sh : α → String) : VOut α → String
  | .unit => "u"
  | .panic => "p"
  | .excluded => "excluded"
  | .val o => "v" ++ showTV o
  | .arr xs => "t" ++ listOf sh xs

def doG (t init ops : String) : String :=
  let opl := if ops == "-" then [] else ops.splitOn ";"
  match opl.mapM parseG with
  | none => "bad-op"
  | some ops =>
    if t == "s" then
      match initOf ([] : Bytes) init with
      | some l => semi ((FloatText.runV Growth.go FloatText.stringView ops l []).map (showG showStr))
      | none => "bad-op"
    else
      match initOf (0 : Nat) init with
      | some l => semi ((FloatText.runV Growth.go (FloatText.floatView (t != "f") (t != "D")) ops l []).map
          (showG (fun b => (if t != "f" then "d" else "f") ++ toString b)))
      | none => "bad-op"

/-! ### tables -/

def tyOf (t : String) : Nat :=
  match t with
  | "i" => 1 | "l" => 2 | "f" => 3 | "d" => 4 | _ => 5

def charOfTy (ty : Nat) : String :=
  match ty with
  | 1 => "i" | 2 => "l" | 3 => "f" | 4 => "d" | _ => "s"

def parseCol (s : String) : Option (Bytes × Table.Col) :=
  match s.splitOn ":" with
  | [k, rest] =>
    match rest.splitOn "=" with
    | [t, vs] =>
      match isType t, ofHex k, parseVs t vs with
      | true, some k, some vs => some (k, { ty := tyOf t, l := listOfVals t vs })
      | _, _, _ => none
    | _ => none
  | _ => none

def parseTable (s : String) : Option Table.T :=
  if s == "-" then some []
  else ((s.splitOn "|").mapM parseCol).map (fun cs => cs.foldl (fun t e => Table.put t e.1 e.2) [])

def showTable (t : Table.T) : String :=
  if t.isEmpty then "-" else
  "|".intercalate (t.map (fun e => hexOf e.1 ++ ":" ++ charOfTy e.2.ty ++ "=" ++ listOf showV (TL.toArray e.2.l)))

def theSort : Sort.SortFn := Sort.goSort (fun less xs => xs.mergeSort less)

/-! ### multi-object histories, with queries and decode-into-receiver -/

def parseBool (s : String) : Option Bool :=
  if s == "1" then some true else if s == "0" then some false else none


inductive XOp where
  | base (op : Multi.MOp V)
  | readWire (j k : Nat)
  | sorting (j : Nat) (asc : Bool)
  | sortingAny (j : Nat) (asc : Bool) (k : Nat) (casc : Bool)

def parseXOp (t : String) (s : String) : Option XOp :=
  match s.splitOn ":" with
  | ["b", j, v] => match parseNat j, parseV t v with
    | some j, some v => some (.base (.add j v))
    | _, _ => none
  | ["e", j, i, v] => match parseNat j, parseInt i, parseV t v with
    | some j, some i, some v => some (.base (.set j i v))
    | _, _, _ => none
  | ["D", j, k] => match parseNat j, parseNat k with
    | some j, some k => some (.readWire j k)
    | _, _ => none
  | ["Z", j, asc] => match parseNat j, parseBool asc with
    | some j, some asc => some (.sorting j asc)
    | _, _ => none
  | ["Y", j, asc, k, casc] => match parseNat j, parseBool asc, parseNat k, parseBool casc with
    | some j, some asc, some k, some casc => some (.sortingAny j asc k casc)
    | _, _, _, _ => none
  | _ => (parseX t s).map .base

/-- representative of a value's order class: -0 is printed as +0 -/
def canonV (t : String) (v : V) : V :=
  match t, v with
  | "f", .b 2147483648 => .b 0
  | "d", .b 9223372036854775808 => .b 0
  | _, v => v

def runXO (t : String) : List XOp → Multi.MState V → List String → List String
  | [], _, acc => acc.reverse
  | op :: ops, st, acc =>
    let z := zeroOf t
    match op with
    | .base op =>
      let r := Multi.step Growth.go z op st
      runXO t ops r.2 ((showOut r.1 ++ "#" ++ snapshot r.2) :: acc)
    | .readWire j k =>
      -- the model's own Write and Read: decode list k's bytes into receiver j, whatever it holds
      match P.run (read Growth.go (vCodec t) z (st.lists j)) (write (vCodec t) (st.lists k)) with
      | some (l', _) =>
        let st' : Multi.MState V := { st with lists := Multi.upd st.lists j l' }
        runXO t ops st' (("u#" ++ snapshot st') :: acc)
      | none => runXO t ops st (("p#" ++ snapshot st) :: acc)
    | .sorting j asc =>
      let l := st.lists j
      let cell := fun i => l.table.getD i z
      let perm := Sort.sorting theSort (leOf t) asc cell l.size
      runXO t ops st (("z" ++ listOf (fun i => showV (canonV t (cell i))) perm ++ "#" ++ snapshot st) :: acc)
    | .sortingAny j asc k casc =>
      let l := st.lists j
      let c := st.lists k
      let cell := fun i => l.table.getD i z
      let ccell := fun i => c.table.getD i z
      let perm := Sort.sortingAnyList theSort (leOf t) asc cell (leOf t) ccell casc l.size
      runXO t ops st (("y" ++ listOf (fun i => showV (canonV t (cell i)) ++ "/" ++ showV (canonV t (ccell i))) perm
        ++ "#" ++ snapshot st) :: acc)

/-! ### pack histories -/

def colOfSpec (s : String) : Option Table.Col :=
  match s.splitOn "=" with
  | [t, vs] => match isType t, parseVs t vs with
    | true, some vs => some { ty := tyOf t, l := listOfVals t vs }
    | _, _ => none
  | _ => none

def showCol (c : Table.Col) : String := charOfTy c.ty ++ "=" ++ listOf showV (TL.toArray c.l)

def runH : List String → PackTable.St → Bytes → List String → List String
  | [], _, _, acc => acc.reverse
  | o :: os, st, lastW, acc =>
    let g := Growth.go
    match o.splitOn "/" with
    | ["put", k, spec] => match ofHex k, colOfSpec spec with
      | some k, some c => runH os (PackTable.put st k c) lastW ("u" :: acc)
      | _, _ => runH os st lastW ("bad-op" :: acc)
    | ["read", cols] => match parseTable cols with
      | some t =>
        let bytes := if t.isEmpty then [] else Table.writeTable t
        runH os (PackTable.read st bytes) lastW ("u" :: acc)
      | none => runH os st lastW ("bad-op" :: acc)
    | ["readself"] => runH os (PackTable.read st lastW) lastW ("u" :: acc)
    | ["readzero"] => runH os (PackTable.read st [0, 0]) lastW ("u" :: acc)   -- a table of zero columns
    | ["get", k] => match ofHex k with
      | some k => match PackTable.get g st k with
        | some (st', c) => runH os st' lastW (("c" ++ showCol c) :: acc)
        | none => runH os ((PackTable.unpack g st).getD st) lastW ("p" :: acc)
      | none => runH os st lastW ("bad-op" :: acc)
    | ["getadd", k, v] => match ofHex k with
      | some k =>
        match PackTable.getEdit g st k (fun c => match parseV (charOfTy c.ty) v with
            | some x => (TL.add g (Table.zeroOfTy c.ty) x c.l).map (fun l => { c with l := l })
            | none => none) with
        | some st' => runH os st' lastW ("u" :: acc)
        | none => runH os ((PackTable.unpack g st).getD st) lastW ("p" :: acc)
      | none => runH os st lastW ("bad-op" :: acc)
    | ["getset", k, i, v] => match ofHex k, parseInt i with
      | some k, some i =>
        match PackTable.getEdit g st k (fun c => match parseV (charOfTy c.ty) v with
            | some x => (TL.set c.l i x).map (fun l => { c with l := l })
            | none => none) with
        | some st' => runH os st' lastW ("u" :: acc)
        | none => runH os ((PackTable.unpack g st).getD st) lastW ("p" :: acc)
      | _, _ => runH os st lastW ("bad-op" :: acc)
    | ["table"] => match PackTable.unpack g st with
      | some st' => runH os st' lastW (("T" ++ showTable st'.table) :: acc)
      | none => runH os st lastW ("p" :: acc)
    | ["sort", k, asc] => match ofHex k, parseBool asc with
      | some k, some asc => match PackTable.sort theSort g st k asc with
        | some st' => runH os st' lastW ("u" :: acc)
        | none => runH os st lastW ("p" :: acc)
      | _, _ => runH os st lastW ("bad-op" :: acc)
    | ["sortany", k, asc, k2, asc2] => match ofHex k, parseBool asc, ofHex k2, parseBool asc2 with
      | some k, some asc, some k2, some asc2 => match PackTable.sortAny theSort g st k asc k2 asc2 with
        | some st' => runH os st' lastW ("u" :: acc)
        | none => runH os st lastW ("p" :: acc)
      | _, _, _, _ => runH os st lastW ("bad-op" :: acc)
    | ["write"] =>
      let r := PackTable.write st
      runH os r.1 r.2.2 (("w" ++ toString r.2.1 ++ ":" ++ hexOf r.2.2) :: acc)
    | ["empty"] => runH os st lastW ((if PackTable.isEmpty st then "b1" else "b0") :: acc)
    | ["iter"] => match PackTable.iterate g st with
      | some (st', none) => runH os st' lastW ("I-" :: acc)
      | some (st', some (_, 0)) => runH os st' lastW ("I-" :: acc)     -- no call: nothing to observe
      | some (st', some (keys, n)) =>
        runH os st' lastW (("I" ++ ",".intercalate (keys.map showStr) ++ "#" ++ toString n) :: acc)
      | none => runH os st lastW ("p" :: acc)
    | ["str"] =>
      let z := PackTable.sizes st
      runH os st lastW (s!"S{z.1},{z.2.1},{z.2.2}" :: acc)
    | _ => runH os st lastW ("bad-op" :: acc)

/-! ### sorting -/

def lessOf (pt : String) (asc : Bool) (ct : String) (casc : Bool) (vals cvals : Array V) : Nat → Nat → Bool :=
  let v := fun i => vals.getD i default
  let c := fun i => cvals.getD i default
  if ct == "-" then Sort.lessIdx1 (leOf pt) asc v
  else Sort.lessIdx2 (leOf pt) asc v (leOf ct) c casc

def isPermOfRange (perm : List Nat) (n : Nat) : Bool :=
  perm.mergeSort (fun a b => decide (a ≤ b)) == List.range n

/-! ### linked list -/

def parseK (s : String) : Option Linked.Op :=
  match s.splitOn ":" with
  | ["af", v] => (parseInt v).map .addFirst
  | ["al", v] => (parseInt v).map .addLast
  | ["ad", v] => (parseInt v).map .add
  | ["rf"] => some .removeFirst
  | ["rl"] => some .removeLast
  | ["rm", k] => (parseNat k).map .removeAt
  | ["pb", k, v] => match parseNat k, parseInt v with
    | some k, some v => some (.putBefore k v)
    | _, _ => none
  | ["cl"] => some .clear
  | ["t"] => some .toArray
  | ["n"] => some .size
  | ["gf"] => some .first
  | ["gl"] => some .last
  | _ => none

def showK : Linked.Out → String
  | .unit => "u"
  | .panic => "p"
  | .val v => "v" ++ toString v
  | .none_ => "nil"
  | .size n => "n" ++ toString n
  | .arr xs => "t" ++ listOf toString xs

/-- K histories: the ops of the model, plus the text views evaluated on the current model state -/
def runK : List String → Linked.LL → List String → Option (List String)
  | [], _, acc => some acc.reverse
  | o :: os, st, acc =>
    match o.splitOn ":" with
    | ["ts"] => runK os st ((match st.toStringL with
        | some s => "s" ++ showStr s
        | none => "p") :: acc)
    | ["es", k] => match parseNat k with
      | some k => runK os st ((match st.entityToString k with
          | some s => "s" ++ showStr s
          | none => "p") :: acc)
      | none => none
    | _ => match parseK o with
      | some op => let r := Linked.LL.step op st; runK os r.2 (showK r.1 :: acc)
      | none => none

def answer (line : String) : String :=
  match line.splitOn " " with
  | ["L", t, init, ops] => if isType t then doL t init ops else "bad-op"
  | ["W", t, vs] =>
    match isType t, parseVs t vs with
    | true, some vs => hexOf (write (vCodec t) (listOfVals t vs))
    | _, _ => "bad-op"
  | ["R", t, hex] =>
    match isType t, ofHex hex with
    | true, some bs =>
      match P.run (read Growth.go (vCodec t) (zeroOf t) (TL.mk' (zeroOf t) 0)) bs with
      | some (l, rest) => s!"ok {listOf showV (TL.toArray l)} {rest.length}"
      | none => "fail"
    | _, _ => "bad-op"
  | ["F", t, vs, idx] =>
    match isType t, parseVs t vs, parseList parseInt idx with
    | true, some vs, some idx =>
      match TL.filtering Growth.go (zeroOf t) (listOfVals t vs) idx with
      | some out => "t" ++ listOf showV (TL.toArray out)
      | none => "p"
    | _, _, _ => "bad-op"
  | ["O", pt, asc, ct, casc, vs, cvs, perm] =>
    match parseBool asc, parseBool casc, parseVs pt vs,
          (if ct == "-" then some [] else parseVs (if ct == "I" then "i" else ct) cvs),
          parseList parseNat perm with
    | some asc, some casc, some vs, some cvs, some perm =>
      if !isPermOfRange perm vs.length then "bad-perm"
      else if Sort.chainB (lessOf pt asc ct casc vs.toArray cvs.toArray) perm then "ok"
      else "bad-order"
    | _, _, _, _, _ => "bad-op"
  | ["M", pt, asc, ct, casc, vs, cvs] =>
    match parseBool asc, parseBool casc, parseVs pt vs,
          (if ct == "-" then some [] else parseVs (if ct == "I" then "i" else ct) cvs) with
    | some asc, some casc, some vs, some cvs =>
      let va := vs.toArray
      let ca := cvs.toArray
      let v := fun i => va.getD i default
      let c := fun i => ca.getD i default
      let msort : Sort.SortFn := Sort.goSort (fun less xs => xs.mergeSort less)
      listOf toString
        (if ct == "-" then Sort.sorting msort (leOf pt) asc v vs.length
         else Sort.sortingAnyList msort (leOf pt) asc v (leOf ct) c casc vs.length)
    | _, _, _, _ => "bad-op"
  | ["X", t, ops] =>
    match isType t, (if ops == "-" then some [] else (ops.splitOn ";").mapM (parseXOp t)) with
    | true, some ops => semi (runXO t ops Multi.MState.init [])
    | _, _ => "bad-op"
  | ["G", t, init, ops] => if t == "f" || t == "d" || t == "D" || t == "s" then doG t init ops else "bad-op"
  | ["N", t, init, ops] => if t == "i" || t == "l" || t == "f" || t == "d" then doN t init ops else "bad-op"
  | ["C", t, init, ops] => if t == "i" || t == "l" || t == "s" then doC t init ops else "bad-op"
  | ["TP", cols] => match parseTable cols with
    | some t => showTable t
    | none => "bad-op"
  | ["TW", cols] => match parseTable cols with
    | some t => hexOf (Table.writeTable t)
    | none => "bad-op"
  | ["TR", hex] => match ofHex hex with
    | some bs => match P.run (Table.readTable Growth.go []) bs with
      | some (t, rest) => s!"ok {showTable t} {rest.length}"
      | none => "fail"
    | none => "bad-op"
  | ["TS", k, asc, cols] => match ofHex k, parseBool asc, parseTable cols with
    | some k, some asc, some t => match Table.sortTable theSort Growth.go t k asc with
      | some t' => showTable t'
      | none => "p"
    | _, _, _ => "bad-op"
  | ["TA", k, asc, k2, asc2, cols] => match ofHex k, parseBool asc, ofHex k2, parseBool asc2, parseTable cols with
    | some k, some asc, some k2, some asc2, some t =>
      match Table.sortAnyTable theSort Growth.go t k asc k2 asc2 with
      | some t' => showTable t'
      | none => "p"
    | _, _, _, _, _ => "bad-op"
  | ["H", ops] => semi (runH (if ops == "-" then [] else ops.splitOn ";") PackTable.empty [] [])
  | ["K", ops] =>
    match runK (if ops == "-" then [] else ops.splitOn ";") Linked.LL.empty [] with
    | some outs => semi outs
    | none => "bad-op"
  | _ => "bad-op"

def main : IO Unit := statelessLoop answer
