-- stub: replaced by the C13 driver
def main : IO Unit := pure ()
