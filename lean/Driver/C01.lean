/-
  Driver.C01 — runs the C01 CodeModel (Golib.Prim.Ops) on operation lines.

    W <op>;<op>;…            →  <hex of writeAll> <written>
    R <op>;<op>;… <hex>      →  ok <op>;<op>;… <rest length>   |  fail
    RS <op>;<op>;… <hex>,<hex>,…  →  the same read over a connection that delivers these fragments
                                 (`z` = a read of 0 bytes); rest length = bytes still to arrive
                                 (payloads of the ops on an R line are ignored: kinds only)
    LS <w> <hex> / LU <w> <hex>  →  signed / unsigned little-endian read of w bytes
    RB <sz> <hex>                →  ReadBytes(sz), sz signed
    CK <count> <minBytes> <avail>→  CheckCount on a slice with avail bytes left: ok | fail
    RG <kind> <hex>              →  one array read *with* its CheckCount guard (kind = an array op kind, or decArr)
    G <conv> <pos> <hex>         →  ToX(buf, pos) / Get: conv = bool | s<w> | u<w> | ls<w> | lu<w> | raw<n>
    SB <w> <off> <v> <hex>       →  SetBytesX(buf, off, v) for a w-byte signed field;  SR <off> <src> <hex> → SetBytes
    HIST <step>|<step>|…         →  a history of one DataOutputX: o=<op> b=<hex> w=<hex>/<off>/<sz>
                                    h=<src>/<ver>/<pcode>/<lic> s=<src>/<ver>/<pcode>/<oid>/<key>

  op syntax  kind:payload   (ints decimal, bytes hex, lists comma separated, empty = "-")
-/
import Golib.Prim.Extra
import Golib.Prim.Stream
import Golib.Prim.Api
import Driver.Common

open Prim Drv

/-- inside a list the empty byte string is written `z` (a lone `-` is the empty *list*) -/
def hexOfElem (bs : Bytes) : String := if bs.isEmpty then "z" else hexOf bs
def ofHexElem (s : String) : Option Bytes := if s == "z" then some [] else ofHex s

def showOp : Op → String
  | .bool b => s!"bool:{if b then 1 else 0}"
  | .byte n => s!"byte:{n}"
  | .short v => s!"short:{v}"
  | .ushort n => s!"ushort:{n}"
  | .int3 v => s!"int3:{v}"
  | .int v => s!"int:{v}"
  | .long5 v => s!"long5:{v}"
  | .long v => s!"long:{v}"
  | .float b => s!"float:{b}"
  | .double b => s!"double:{b}"
  | .decimal v => s!"decimal:{v}"
  | .blob bs => s!"blob:{hexOf bs}"
  | .text bs => s!"text:{hexOf bs}"
  | .shortBytes bs => s!"shortBytes:{hexOf bs}"
  | .intBytes bs => s!"intBytes:{hexOf bs}"
  | .textShort bs => s!"textShort:{hexOf bs}"
  | .shortArr xs => s!"shortArr:{listOf toString xs}"
  | .intArr xs => s!"intArr:{listOf toString xs}"
  | .longArr xs => s!"longArr:{listOf toString xs}"
  | .floatArr xs => s!"floatArr:{listOf toString xs}"
  | .doubleArr xs => s!"doubleArr:{listOf toString xs}"
  | .textArr xs => s!"textArr:{listOf hexOfElem xs}"

def parseOp (s : String) : Option Op :=
  match s.splitOn ":" with
  | [k, p] =>
    match k with
    | "bool" => some (.bool (p == "1"))
    | "byte" => (parseNat p).map .byte
    | "short" => (parseInt p).map .short
    | "ushort" => (parseNat p).map .ushort
    | "int3" => (parseInt p).map .int3
    | "int" => (parseInt p).map .int
    | "long5" => (parseInt p).map .long5
    | "long" => (parseInt p).map .long
    | "float" => (parseNat p).map .float
    | "double" => (parseNat p).map .double
    | "decimal" => (parseInt p).map .decimal
    | "blob" => (ofHex p).map .blob
    | "text" => (ofHex p).map .text
    | "shortBytes" => (ofHex p).map .shortBytes
    | "intBytes" => (ofHex p).map .intBytes
    | "textShort" => (ofHex p).map .textShort
    | "shortArr" => (parseList parseInt p).map .shortArr
    | "intArr" => (parseList parseInt p).map .intArr
    | "longArr" => (parseList parseInt p).map .longArr
    | "floatArr" => (parseList parseNat p).map .floatArr
    | "doubleArr" => (parseList parseNat p).map .doubleArr
    | "textArr" => (parseList ofHexElem p).map .textArr
    | _ => none
  | _ => none

def parseOps (s : String) : Option (List Op) :=
  if s == "-" then some [] else (s.splitOn ";").mapM parseOp

def dropS (s : String) (n : Nat) : String := String.ofList (s.toList.drop n)

def parseStep (s : String) : Option WStep :=
  if s.startsWith "o=" then (parseOp (dropS s 2)).map .op
  else if s.startsWith "b=" then (ofHex (dropS s 2)).map .bytes
  else if s.startsWith "w=" then
    match (dropS s 2).splitOn "/" with
    | [b, off, sz] =>
      match ofHex b, parseNat off, parseNat sz with
      | some b, some off, some sz => some (.window b off sz)
      | _, _, _ => none
    | _ => none
  else if s.startsWith "h=" then
    match (dropS s 2).splitOn "/" with
    | [a, b, c, d] =>
      match parseNat a, parseNat b, parseInt c, parseInt d with
      | some a, some b, some c, some d => some (.header a b c d)
      | _, _, _, _ => none
    | _ => none
  else if s.startsWith "s=" then
    match (dropS s 2).splitOn "/" with
    | [a, b, c, d, e] =>
      match parseNat a, parseNat b, parseInt c, parseInt d, parseInt e with
      | some a, some b, some c, some d, some e => some (.secureHeader a b c d e)
      | _, _, _, _, _ => none
    | _ => none
  else none

def showOpt {α : Type} (f : α → String) : Option α → String
  | some a => f a
  | none => "fail"

/-- `G` line: the conversion helpers at an offset -/
def convAt (conv : String) (buf : Bytes) (pos : Nat) : String :=
  if conv == "bool" then showOpt (fun b => if b then "true" else "false") (fieldBool buf pos)
  else if conv.startsWith "raw" then
    match parseNat (dropS conv 3) with
    | some n => showOpt hexOf (getAt buf pos n)
    | none => "bad-op"
  else if conv.startsWith "ls" then
    match parseNat (dropS conv 2) with
    | some w => showOpt toString (fieldILittle w buf pos)
    | none => "bad-op"
  else if conv.startsWith "lu" then
    match parseNat (dropS conv 2) with
    | some w => showOpt toString (fieldULittle w buf pos)
    | none => "bad-op"
  else if conv.startsWith "s" then
    match parseNat (dropS conv 1) with
    | some w => showOpt toString (fieldI w buf pos)
    | none => "bad-op"
  else if conv.startsWith "u" then
    match parseNat (dropS conv 1) with
    | some w => showOpt toString (fieldU w buf pos)
    | none => "bad-op"
  else "bad-op"

def showArr {α : Type} (f : List α → Op) (r : Option (List α × Bytes)) : String :=
  match r with
  | some (xs, rest) => s!"ok {showOp (f xs)} {rest.length}"
  | none => "fail"

def guardedArr (kind : String) (bs : Bytes) : String :=
  match kind with
  | "shortArr" => showArr Op.shortArr (runArrGuarded (rdI 2) 2 bs)
  | "intArr" => showArr Op.intArr (runArrGuarded (rdI 4) 4 bs)
  | "longArr" => showArr Op.longArr (runArrGuarded (rdI 8) 8 bs)
  | "floatArr" => showArr Op.floatArr (runArrGuarded (rdU 4) 4 bs)
  | "doubleArr" => showArr Op.doubleArr (runArrGuarded (rdU 8) 8 bs)
  | "textArr" => showArr Op.textArr (runArrGuarded decBlob 1 bs)
  | "decArr" =>
    match runDecArrGuarded bs with
    | some (v, rest) => s!"{listOf toString v} {rest.length}"
    | none => "fail"
  | _ => "bad-op"

def answer (line : String) : String :=
  match line.splitOn " " with
  | ["W", ops] =>
    match parseOps ops with
    | some ops =>
      let w := Writer.exec ops
      s!"{hexOf w.buf} {w.written}"
    | none => "bad-op"
  | ["R", ops, hex] =>
    match parseOps ops, ofHex hex with
    | some ops, some bs =>
      match P.run (readAll ops) bs with
      | some (vs, rest) => s!"ok {listOfOps vs} {rest.length}"
      | none => "fail"
    | _, _ => "bad-op"
  | ["RS", ops, frags] =>
    match parseOps ops, parseList ofHexElem frags with
    | some ops, some fs =>
      match P.runC (readAll ops) fs with
      | some (vs, rest) => s!"ok {listOfOps vs} {rest.flatten.length}"
      | none => "fail"
    | _, _ => "bad-op"
  | ["LS", w, hex] =>
    match parseNat w, ofHex hex with
    | some w, some bs =>
      match P.run (rdILittle w) bs with
      | some (v, _) => s!"{v}"
      | none => "fail"
    | _, _ => "bad-op"
  | ["LU", w, hex] =>
    match parseNat w, ofHex hex with
    | some w, some bs =>
      match P.run (rdULittle w) bs with
      | some (v, _) => s!"{v}"
      | none => "fail"
    | _, _ => "bad-op"
  | ["U", w, hex] =>            -- ReadUnsignedShort / ReadUnsignedInt: unsigned read of w bytes
    match parseNat w, ofHex hex with
    | some w, some bs =>
      match P.run (rdU w) bs with
      | some (v, rest) => s!"{v} {rest.length}"
      | none => "fail"
    | _, _ => "bad-op"
  | ["DL", hex] =>              -- ReadByte, then ReadDecimalLen(that byte)
    match ofHex hex with
    | some bs =>
      match P.run (P.bind (rdU 1) (fun b => decDecimalLen b)) bs with
      | some (v, rest) => s!"{v} {rest.length}"
      | none => "fail"
    | none => "bad-op"
  | ["BL", mx, hex] =>          -- ReadIntBytesLimit(max)
    match parseNat mx, ofHex hex with
    | some mx, some bs =>
      match P.run (decBytes32Limit mx) bs with
      | some (v, rest) => s!"{hexOf v} {rest.length}"
      | none => "fail"
    | _, _ => "bad-op"
  | ["DA", hex] =>              -- ReadDecimalArray
    match ofHex hex with
    | some bs =>
      match P.run decDecArr bs with
      | some (v, rest) => s!"{listOf toString v} {rest.length}"
      | none => "fail"
    | none => "bad-op"
  | ["DI", hex] =>              -- ReadDecimalArrayInt
    match ofHex hex with
    | some bs =>
      match P.run decDecArrInt bs with
      | some (v, rest) => s!"{listOf toString v} {rest.length}"
      | none => "fail"
    | none => "bad-op"
  | ["WDA", xs] =>              -- decimal count, then decimals
    match parseList parseInt xs with
    | some xs => hexOf (encDecArr xs)
    | none => "bad-op"
  | ["WW", ops, hex, off, sz] =>           -- program, then Write(b, off, sz)
    match parseOps ops, ofHex hex, parseNat off, parseNat sz with
    | some ops, some b, some off, some sz =>
      let w := (Writer.exec ops).window b off sz
      s!"{hexOf w.buf} {w.written}"
    | _, _, _, _ => "bad-op"
  | ["H", src, ver, pcode, lic, ops] =>     -- program, then WriteHeader
    match parseNat src, parseNat ver, parseInt pcode, parseInt lic, parseOps ops with
    | some src, some ver, some pcode, some lic, some ops =>
      let w := (Writer.exec ops).header src ver pcode lic
      s!"{hexOf w.buf} {w.written}"
    | _, _, _, _, _ => "bad-op"
  | ["HS", src, ver, pcode, oid, key, ops] => -- program, then WriteSecureHeader
    match parseNat src, parseNat ver, parseInt pcode, parseInt oid, parseInt key, parseOps ops with
    | some src, some ver, some pcode, some oid, some key, some ops =>
      let w := (Writer.exec ops).secureHeader src ver pcode oid key
      s!"{hexOf w.buf} {w.written}"
    | _, _, _, _, _, _ => "bad-op"
  | ["RB", sz, hex] =>
    match parseInt sz, ofHex hex with
    | some sz, some bs =>
      match P.run (rdBytesI sz) bs with
      | some (v, rest) => s!"{hexOf v} {rest.length}"
      | none => "fail"
    | _, _ => "bad-op"
  | ["CK", count, mb, avail] =>
    match parseInt count, parseInt mb, parseNat avail with
    | some count, some mb, some avail => if checkCount count mb avail then "ok" else "fail"
    | _, _, _ => "bad-op"
  | ["RG", kind, hex] =>
    match ofHex hex with
    | some bs => guardedArr kind bs
    | none => "bad-op"
  | ["G", conv, pos, hex] =>
    match parseNat pos, ofHex hex with
    | some pos, some buf => convAt conv buf pos
    | _, _ => "bad-op"
  | ["SB", w, off, v, hex] =>
    match parseNat w, parseNat off, parseInt v, ofHex hex with
    | some w, some off, some v, some buf => showOpt hexOf (setAt buf off (encI w v))
    | _, _, _, _ => "bad-op"
  | ["SR", off, src, hex] =>
    match parseNat off, ofHex src, ofHex hex with
    | some off, some src, some buf => showOpt hexOf (setAt buf off src)
    | _, _, _ => "bad-op"
  | ["HIST", steps] =>
    match (steps.splitOn "|").mapM parseStep with
    | some h =>
      let w := h.foldl Writer.step Writer.empty
      s!"{hexOf w.buf} {w.written}"
    | none => "bad-op"
  | _ => "bad-op"
where
  listOfOps (vs : List Op) : String :=
    if vs.isEmpty then "-" else ";".intercalate (vs.map showOp)

def main : IO Unit := statelessLoop answer
