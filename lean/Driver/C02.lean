-- stub: replaced by the C02 driver
def main : IO Unit := pure ()
