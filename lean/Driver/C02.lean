/-
  Driver.C02 — runs the C02 CodeModel (Golib.Value.Model) on request lines.

    E <value>        →  <hex of encV value>
    D <hex>          →  ok <value> <rest length>   |  fail        (Value.decode)
    W <value>        →  1 | 0                                      (wfV: in the scope of the theorems)
    A m|im|l <script> →  ok <hex of the final object's encoding> <final object> <out₁;out₂;…>
                         (Golib.Value.Api: a history of exported calls on ONE MapValue / IntMapValue /
                          ListValue; the script is itself a value, see Api.lean; an output is a value or ~)
    R <hex>          →  ok <map> <rest length> | nil <rest length> | fail     (decMapValue = ReadMapValue)

  <value> is the one-line form of Golib.Value.Line.
-/
import Golib.Value.Line
import Golib.Value.WF
import Golib.Value.Api
import Driver.Common

open Value Drv

def showOut : Option Value → String
  | none => "~"
  | some v => Line.showV v

def showRes (v : Value) (outs : List (Option Value)) : String :=
  s!"ok {hexOf (encV v)} {Line.showV v} {";".intercalate (outs.map showOut)}"

def runScript (kind : String) (sv : Value) : String :=
  match kind with
  | "m" =>
    match readScript (readMOp keyB entB) sv with
    | some ops => let res := MOp.run [] ops []; showRes (.map res.1) res.2
    | none => "bad-op"
  | "im" =>
    match readScript (readMOp keyI entI) sv with
    | some ops => let res := MOp.run [] ops []; showRes (.imap res.1) res.2
    | none => "bad-op"
  | "l" =>
    match readScript readLOp sv with
    | some ops => let res := LOp.run [] ops []; showRes (.list res.1) res.2
    | none => "bad-op"
  | _ => "bad-op"

def answer (line : String) : String :=
  match line.splitOn " " with
  | ["E", v] =>
    match Line.readV v with
    | some v => hexOf (encV v)
    | none => "bad-op"
  | ["D", hex] =>
    match ofHex hex with
    | some bs =>
      match Value.decode bs with
      | some (v, rest) => s!"ok {Line.showV v} {rest.length}"
      | none => "fail"
    | none => "bad-op"
  | ["W", v] =>
    match Line.readV v with
    | some v => if wfV v then "1" else "0"
    | none => "bad-op"
  | ["A", kind, script] =>
    match Line.readV script with
    | some sv => runScript kind sv
    | none => "bad-op"
  | ["R", hex] =>
    match ofHex hex with
    | some bs =>
      match decMapValue bs with
      | some (some kvs, rest) => s!"ok {Line.showV (.map kvs)} {rest.length}"
      | some (none, rest) => s!"nil {rest.length}"
      | none => "fail"
    | none => "bad-op"
  | _ => "bad-op"

def main : IO Unit := statelessLoop answer
