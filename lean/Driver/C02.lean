/-
  Driver.C02 — runs the C02 CodeModel (Golib.Value.Model) on request lines.

    E <value>        →  <hex of encV value>
    D <hex>          →  ok <value> <rest length>   |  fail        (Value.decode)
    W <value>        →  1 | 0                                      (wfV: in the scope of the theorems)

  <value> is the one-line form of Golib.Value.Line.
-/
import Golib.Value.Line
import Golib.Value.WF
import Driver.Common

open Value Drv

def answer (line : String) : String :=
  match line.splitOn " " with
  | ["E", v] =>
    match Line.readV v with
    | some v => hexOf (encV v)
    | none => "bad-op"
  | ["D", hex] =>
    match ofHex hex with
    | some bs =>
      match Value.decode bs with
      | some (v, rest) => s!"ok {Line.showV v} {rest.length}"
      | none => "fail"
    | none => "bad-op"
  | ["W", v] =>
    match Line.readV v with
    | some v => if wfV v then "1" else "0"
    | none => "bad-op"
  | _ => "bad-op"

def main : IO Unit := statelessLoop answer
