/-
  Driver.Common — line protocol helpers shared by the per-property drivers.
  Core Lean only (the drivers are compiled to native executables).
-/
import Golib.Basic

namespace Drv

def hexDigit (n : Nat) : Char :=
  if n < 10 then Char.ofNat (48 + n) else Char.ofNat (87 + n)

/-- bytes → lowercase hex; the empty byte string is written `-` -/
def hexOf (bs : Bytes) : String :=
  if bs.isEmpty then "-" else
  String.ofList (bs.foldr (fun b acc => hexDigit (b / 16 % 16) :: hexDigit (b % 16) :: acc) [])

def hexVal (c : Char) : Option Nat :=
  if '0' ≤ c ∧ c ≤ '9' then some (c.toNat - 48)
  else if 'a' ≤ c ∧ c ≤ 'f' then some (c.toNat - 87)
  else if 'A' ≤ c ∧ c ≤ 'F' then some (c.toNat - 55)
  else none

def ofHexAux : List Char → Bytes → Option Bytes
  | [], acc => some acc.reverse
  | [_], _ => none
  | a :: b :: rest, acc =>
    match hexVal a, hexVal b with
    | some x, some y => ofHexAux rest ((x * 16 + y) :: acc)
    | _, _ => none

def ofHex (s : String) : Option Bytes :=
  if s == "-" then some [] else ofHexAux s.toList []

/-- comma separated list; the empty list is written `-` -/
def listOf (f : α → String) (xs : List α) : String :=
  if xs.isEmpty then "-" else ",".intercalate (xs.map f)

def parseList (f : String → Option α) (s : String) : Option (List α) :=
  if s == "-" then some [] else (s.splitOn ",").mapM f

def parseInt (s : String) : Option Int := s.toInt?
def parseNat (s : String) : Option Nat := s.toNat?

/-- read stdin line by line, answer each line with `f`; state threaded through -/
partial def loop (h : IO.FS.Stream) (out : IO.FS.Stream) (st : σ) (f : σ → String → σ × String) : IO Unit := do
  let line ← h.getLine
  if line.isEmpty then
    out.flush
    return ()
  let l := String.ofList (line.toList.filter (fun c => c != '\n' && c != '\r'))
  let (st', o) := f st l
  out.putStrLn o
  loop h out st' f

def mainLoop (st : σ) (f : σ → String → σ × String) : IO Unit := do
  let i ← IO.getStdin
  let o ← IO.getStdout
  loop i o st f

def statelessLoop (f : String → String) : IO Unit :=
  mainLoop () (fun _ l => ((), f l))

end Drv
