package main

// H cases: histories on ONE StatGeneralPack object, mixing its wire state (dataBytes, kept after
// Read and cached by Write) with in-memory edits of the table of lists:
//
//   put/<keyhex>/<t>=<list>   read/<cols>   readself   readzero   get/<keyhex>   getadd/<keyhex>/<v>   getset/<keyhex>/<i>/<v>
//   table   sort/<keyhex>/<asc>   sortany/<keyhex>/<asc>/<key2hex>/<asc2>   write   empty
//   iter (Iterate: an unpacking access; the keys handed to the callback # the number of calls)
//   str  (ToString: data.Size(), dataBytesSize, len(dataBytes) — the lazy state as the pack shows it)
//
// compared with the Lean model of the lazy table (Golib.Lists.PackTable: unpack merges the wire
// columns into the in-memory table, Put/Sort do not unpack, Write caches) and with a mirror of the
// same state machine on plain slices (mirror below; it also steers the generator).  Tables stay at
// ≤ 12 rows so that sort.Sort is the modelled insertion sort and results are compared exactly.

import (
	"encoding/binary"
	"regexp"
	"strconv"
	"strings"

	"github.com/whatap/golib/util/list"

	gio "github.com/whatap/golib/io"
	"github.com/whatap/golib/lang/pack"
	"verif/harness/vh"
)

var packHdrLen = -1

var rePackStr = regexp.MustCompile(`packType=\s*(-?\d+)\s*,data=\s*(\d+)\s*,length=\s*(\d+)\s*,bytes=\s*(\d+)`)

func hdrLen() int {
	if packHdrLen < 0 {
		packHdrLen = len(packBytes(newPackOf(nil))) - 3
	}
	return packHdrLen
}

func fullOf(tb []byte) []byte {
	hdr := packBytes(newPackOf(nil))[:hdrLen()]
	var l [4]byte
	binary.BigEndian.PutUint32(l[:], uint32(len(tb)))
	out := append(append([]byte{}, hdr...), l[1:]...)
	return append(out, tb...)
}

func tableBytesOf(cols []tcol) []byte {
	if len(cols) == 0 {
		return nil
	}
	return packBytes(newPackOf(cols))[hdrLen()+3:]
}

func execH(ops []string) []string {
	p := pack.NewStatGeneralPack()
	p.Id = "verif"
	p.Pcode, p.Oid, p.Time = 12345, 7, 1700000000000
	var lastFull []byte
	outs := make([]string, 0, len(ops))
	for _, op := range ops {
		f := strings.Split(op, "/")
		res := "u"
		o := vh.Guard(func() {
			switch f[0] {
			case "put":
				t := f[2][0]
				p.Put(unhexKey(f[1]), listOf(t, parseVals(t, f[2][2:])).any())
			case "read":
				p.Read(gio.NewDataInputX(fullOf(tableBytesOf(parseTCols(f[1])))))
			case "readzero":
				p.Read(gio.NewDataInputX(fullOf([]byte{0, 0}))) // a well-formed table of zero columns
			case "readself":
				if lastFull == nil {
					p.Read(gio.NewDataInputX(fullOf(nil)))
				} else {
					p.Read(gio.NewDataInputX(lastFull))
				}
			case "get":
				w, t := wrapAny(p.Get(unhexKey(f[1])))
				res = "c" + string(t) + "=" + valsStr(t, w.toArr())
			case "getadd":
				w, t := wrapAny(p.Get(unhexKey(f[1])))
				w.add(parseVal(t, f[2]))
			case "getset":
				w, t := wrapAny(p.Get(unhexKey(f[1])))
				w.set(atoi(f[2]), parseVal(t, f[3]))
			case "table":
				p.GetDataTable()
				res = "T" + renderTable(p)
			case "sort":
				p.Sort(unhexKey(f[1]), parseBool(f[2]))
			case "sortany":
				p.SortAnyList(unhexKey(f[1]), parseBool(f[2]), unhexKey(f[3]), parseBool(f[4]))
			case "write":
				full := packBytes(p)
				lastFull = full
				h := hdrLen()
				size := int(full[h])<<16 | int(full[h+1])<<8 | int(full[h+2])
				res = "w" + strconv.Itoa(size) + ":" + vh.Hex(full[h+3:])
			case "empty":
				if p.IsEmpty() {
					res = "b1"
				} else {
					res = "b0"
				}
			case "iter":
				var keys []string
				calls, bad := 0, ""
				p.Iterate(func(a []string, b []list.AnyList, i int) {
					if i != calls || len(a) != len(b) {
						bad = "callback arguments out of step"
					}
					if calls == 0 {
						for _, k := range a {
							keys = append(keys, val{s: k}.str('s'))
						}
					}
					calls++
				})
				switch {
				case bad != "":
					res = "I!" + bad
				case calls == 0:
					res = "I-"
				default:
					res = "I" + strings.Join(keys, ",") + "#" + strconv.Itoa(calls)
				}
			case "str":
				m := rePackStr.FindStringSubmatch(p.ToString())
				switch {
				case m == nil:
					res = "S?" + vh.Clip(p.ToString(), 60)
				case m[1] != strconv.Itoa(int(p.GetPackType())):
					res = "S!packType " + m[1]
				default:
					res = "S" + m[2] + "," + m[3] + "," + m[4]
				}
			default:
				panic("bad op " + op)
			}
		})
		if !o.OK() {
			res = "p"
		}
		outs = append(outs, res)
	}
	return outs
}

// ---------------------------------------------------------------- mirror of the lazy table on plain slices

type mirror struct {
	raw        []tcol // the decoded content of dataBytes
	rawPresent bool
	table      []tcol
	lastRaw    []tcol // what the last Write emitted
	lastSome   bool
	wrote      bool
}

func cpCols(cs []tcol) []tcol {
	out := make([]tcol, len(cs))
	for i, c := range cs {
		out[i] = tcol{c.key, c.t, append([]val{}, c.vs...)}
	}
	return out
}

func putCol(t []tcol, c tcol) []tcol {
	for i := range t {
		if t[i].key == c.key {
			t[i] = c
			return t
		}
	}
	return append(t, c)
}

func (m *mirror) find(k string) int {
	for i := range m.table {
		if m.table[i].key == k {
			return i
		}
	}
	return -1
}

func (m *mirror) unpack() {
	if m.rawPresent {
		for _, c := range cpCols(m.raw) {
			m.table = putCol(m.table, c)
		}
		m.raw, m.rawPresent = nil, false
	}
}

// insertion sort with a `<=`-like less, as sort.Sort does up to 12 elements
func insPerm(n int, less func(a, b int) bool) []int {
	p := make([]int, n)
	for i := range p {
		p[i] = i
	}
	for i := 1; i < n; i++ {
		for j := i; j > 0 && less(p[j], p[j-1]); j-- {
			p[j], p[j-1] = p[j-1], p[j]
		}
	}
	return p
}

func (m *mirror) applyPerm(perm []int) bool {
	out := cpCols(m.table)
	for i := range out {
		vs := make([]val, 0, len(perm))
		for _, x := range perm {
			if x >= len(m.table[i].vs) {
				return false
			}
			vs = append(vs, m.table[i].vs[x])
		}
		out[i].vs = vs
	}
	m.table = out
	return true
}

func colStr(c tcol) string { return string(c.t) + "=" + valsStr(c.t, c.vs) }

func (m *mirror) render() string {
	if len(m.table) == 0 {
		return "-"
	}
	parts := make([]string, len(m.table))
	for i, c := range m.table {
		parts[i] = hexKey(c.key) + ":" + colStr(c)
	}
	return strings.Join(parts, "|")
}

func (m *mirror) step(op string) string {
	f := strings.Split(op, "/")
	switch f[0] {
	case "put":
		t := f[2][0]
		m.table = putCol(m.table, tcol{unhexKey(f[1]), t, parseVals(t, f[2][2:])})
	case "read":
		var cols []tcol
		for _, c := range parseTCols(f[1]) {
			cols = putCol(cols, c)
		}
		m.raw, m.rawPresent = cols, len(cols) > 0
	case "readzero":
		m.raw, m.rawPresent = nil, true
	case "readself":
		if m.wrote {
			m.raw, m.rawPresent = cpCols(m.lastRaw), m.lastSome
		} else {
			m.raw, m.rawPresent = nil, false
		}
	case "get", "getadd", "getset":
		m.unpack()
		i := m.find(unhexKey(f[1]))
		if i < 0 {
			return "p"
		}
		c := &m.table[i]
		switch f[0] {
		case "get":
			return "c" + colStr(*c)
		case "getadd":
			c.vs = append(c.vs, parseVal(c.t, f[2]))
		default:
			j := atoi(f[2])
			if j < 0 || j >= len(c.vs) {
				return "p"
			}
			c.vs[j] = parseVal(c.t, f[3])
		}
	case "table":
		m.unpack()
		return "T" + m.render()
	case "sort", "sortany":
		i := m.find(unhexKey(f[1]))
		if i < 0 {
			return "p"
		}
		asc := parseBool(f[2])
		pc := m.table[i]
		var perm []int
		if f[0] == "sort" {
			perm = insPerm(len(pc.vs), func(a, b int) bool {
				c := cmpVal(pc.t, pc.vs[a], pc.vs[b], false)
				if !asc {
					c = -c
				}
				return c <= 0
			})
		} else {
			k := m.find(unhexKey(f[3]))
			if k < 0 {
				return "p"
			}
			cc, casc := m.table[k], parseBool(f[4])
			if len(cc.vs) < len(pc.vs) {
				return "?" // a tie may reach a missing child row: not generated
			}
			perm = insPerm(len(pc.vs), func(a, b int) bool {
				c := cmpVal(pc.t, pc.vs[a], pc.vs[b], false)
				if !asc {
					c = -c
				}
				if c != 0 {
					return c < 0
				}
				d := cmpVal(cc.t, cc.vs[a], cc.vs[b], false)
				if !casc {
					d = -d
				}
				return d <= 0
			})
		}
		if !m.applyPerm(perm) {
			return "p"
		}
	case "write":
		if len(m.table) > 0 && !m.rawPresent {
			m.raw, m.rawPresent = cpCols(m.table), true
		}
		m.lastRaw, m.lastSome, m.wrote = cpCols(m.raw), m.rawPresent, true
		return "?" // the bytes are compared with the model
	case "empty":
		if !m.rawPresent && len(m.table) == 0 {
			return "b1"
		}
		return "b0"
	case "iter":
		m.unpack()
		if len(m.table) == 0 || len(m.table[0].vs) == 0 {
			return "I-" // no call
		}
		keys := make([]string, len(m.table))
		for i, c := range m.table {
			keys[i] = val{s: c.key}.str('s')
		}
		return "I" + strings.Join(keys, ",") + "#" + strconv.Itoa(len(m.table[0].vs))
	case "str":
		return "?" // the byte counts are compared with the model
	}
	return "u"
}

func specH(ops []string) []string {
	m := &mirror{}
	outs := make([]string, 0, len(ops))
	for _, op := range ops {
		outs = append(outs, m.step(op))
	}
	return outs
}

// ---------------------------------------------------------------- generator (steered by the mirror)

func genH(r *vh.Rng) string {
	m := &mirror{}
	var ops []string
	keys := []string{"c0", "c1", "c2", "c3", "열", ""}
	n := 8 + r.Intn(30)
	rows := r.PickInt([]int{0, 1, 2, 3, 5, 8, 12})
	col := func(k string) string {
		t := types[r.Intn(len(types))]
		nr := rows
		if r.Chance(10) {
			nr = r.Intn(13)
		}
		return hexKey(k) + ":" + string(t) + "=" + valsStr(t, genVals(r, t, nr, r.PickInt([]int{1, 2, 3, nr + 1})))
	}
	anyKey := func() string {
		if len(m.table) > 0 && r.Chance(85) {
			return m.table[r.Intn(len(m.table))].key
		}
		if len(m.raw) > 0 && r.Chance(70) {
			return m.raw[r.Intn(len(m.raw))].key // a column that is still only on the wire
		}
		return r.PickStr(keys)
	}
	for len(ops) < n {
		var op string
		switch x := r.Intn(100); {
		case x < 16:
			c := col(r.PickStr(keys))
			i := strings.Index(c, ":")
			op = "put/" + c[:i] + "/" + c[i+1:]
		case x < 26:
			var cs []string
			for i := 0; i < r.Intn(4); i++ {
				cs = append(cs, col(r.PickStr(keys)))
			}
			if len(cs) == 0 {
				op = "read/-"
			} else {
				op = "read/" + strings.Join(cs, "|")
			}
		case x < 29:
			op = "readzero"
		case x < 32:
			op = "readself"
		case x < 42:
			op = "get/" + hexKey(anyKey())
		case x < 56:
			// Get, then append to the returned list: needs the column's type after the merge
			k := anyKey()
			t := byte('i')
			probe := *m
			probe.table, probe.raw = cpCols(m.table), cpCols(m.raw)
			probe.unpack()
			if i := probe.find(k); i >= 0 {
				t = probe.table[i].t
				if len(probe.table[i].vs) >= 12 {
					continue
				}
			}
			op = "getadd/" + hexKey(k) + "/" + genVal(r, t).str(t)
		case x < 64:
			k := anyKey()
			t, sz := byte('i'), 0
			probe := *m
			probe.table, probe.raw = cpCols(m.table), cpCols(m.raw)
			probe.unpack()
			if i := probe.find(k); i >= 0 {
				t, sz = probe.table[i].t, len(probe.table[i].vs)
			}
			op = "getset/" + hexKey(k) + "/" + strconv.Itoa(idxNear(r, sz)) + "/" + genVal(r, t).str(t)
		case x < 72:
			op = "table"
		case x < 80:
			op = "sort/" + hexKey(anyKey()) + "/" + b2s(r.Bool())
		case x < 84:
			k1, k2 := anyKey(), anyKey()
			i, j := m.find(k1), m.find(k2)
			if i >= 0 && j >= 0 && len(m.table[j].vs) < len(m.table[i].vs) {
				continue
			}
			op = "sortany/" + hexKey(k1) + "/" + b2s(r.Bool()) + "/" + hexKey(k2) + "/" + b2s(r.Bool())
		case x < 93:
			op = "write"
		case x < 96:
			op = "empty"
		case x < 98:
			op = "iter"
		default:
			op = "str"
		}
		m.step(op)
		ops = append(ops, op)
	}
	ops = append(ops, "write", "str", "table", "write", "readself", "str", "iter", "str", "table")
	return "H " + strings.Join(ops, ";")
}
