package main

// N cases: the numeric cross-type methods of AnyList on IntList / LongList / FloatList / DoubleList
// (AddInt/AddLong/AddFloat/AddDouble, Set…, GetInt/GetLong/GetFloat/GetDouble) and GetValue /
// GetObject, against the Lean model of Go's conversions (Golib.Lists.FloatConv) and an oracle that
// converts with math/big instead of Go's conversion expressions.
//
//   N <t> <init> <ops>    ops: aI:<int> aF:<bits32> aD:<bits64> sI/sF/sD:<i>:<x> gI/gF/gD:<i> gV:<i> gO:<i> t
//
// Never generated (Go leaves the result of the conversion open, or NaN): float → int of NaN, ±Inf
// or a value whose truncation is outside int64; NaN operands.

import (
	"fmt"
	"math"
	"math/big"
	"strconv"
	"strings"

	"github.com/whatap/golib/lang/value"
	"github.com/whatap/golib/util/list"
	"verif/harness/vh"
)

type num struct {
	k byte // 'i', 'f', 'd'
	i int64
	u uint64
}

func (n num) str() string {
	switch n.k {
	case 'i':
		return strconv.FormatInt(n.i, 10)
	case 'f':
		return "f" + strconv.FormatUint(n.u, 10)
	}
	return "d" + strconv.FormatUint(n.u, 10)
}

func kindOfT(t byte) byte {
	switch t {
	case 'f':
		return 'f'
	case 'd':
		return 'd'
	}
	return 'i'
}

// convBig: the conversion of x to kind k computed with math/big (round to nearest even, truncation
// toward zero); ok=false for the excluded inputs.
func convBig(k byte, x num) (num, bool) {
	var v *big.Float
	switch x.k {
	case 'i':
		if k == 'i' {
			return x, true
		}
		v = new(big.Float).SetPrec(64).SetInt64(x.i)
	case 'f':
		if k == 'f' {
			return x, true
		}
		f := math.Float32frombits(uint32(x.u))
		if f != f {
			return num{}, false
		}
		if math.IsInf(float64(f), 0) {
			if k == 'i' {
				return num{}, false
			}
			return num{k: 'd', u: math.Float64bits(float64(f))}, true
		}
		v = new(big.Float).SetPrec(64).SetFloat64(float64(f))
	default:
		if k == 'd' {
			return x, true
		}
		f := math.Float64frombits(x.u)
		if f != f {
			return num{}, false
		}
		if math.IsInf(f, 0) {
			if k == 'i' {
				return num{}, false
			}
			sg := 1
			if f < 0 {
				sg = -1
			}
			return num{k: 'f', u: uint64(math.Float32bits(float32(math.Inf(sg))))}, true
		}
		v = new(big.Float).SetPrec(64).SetFloat64(f)
	}
	switch k {
	case 'i':
		z, _ := v.Int(nil) // truncates toward zero
		if !z.IsInt64() {
			return num{}, false
		}
		return num{k: 'i', i: z.Int64()}, true
	case 'f':
		f, _ := v.Float32()
		return num{k: 'f', u: uint64(math.Float32bits(f))}, true
	}
	f, _ := v.Float64()
	return num{k: 'd', u: math.Float64bits(f)}, true
}

func parseNum(op string, s string) num {
	switch op[1] {
	case 'I':
		v, _ := strconv.ParseInt(s, 10, 64)
		return num{k: 'i', i: v}
	case 'F':
		u, _ := strconv.ParseUint(s, 10, 64)
		return num{k: 'f', u: u}
	}
	u, _ := strconv.ParseUint(s, 10, 64)
	return num{k: 'd', u: u}
}

func elemOf(t byte, l list.AnyList, i int) num {
	switch kindOfT(t) {
	case 'f':
		return num{k: 'f', u: uint64(math.Float32bits(l.GetFloat(i)))}
	case 'd':
		return num{k: 'd', u: math.Float64bits(l.GetDouble(i))}
	}
	return num{k: 'i', i: l.GetLong(i)}
}

func execN(t byte, init string, ops []string) []string {
	var l list.AnyList
	if o := vh.Guard(func() { l = mkAny(t, init) }); !o.OK() {
		return []string{"p"}
	}
	outs := make([]string, 0, len(ops))
	for k, op := range ops {
		f := strings.Split(op, ":")
		res := "u"
		long := k%2 == 1 // alternate the Int and the Long flavour of the integer methods
		o := vh.Guard(func() {
			switch f[0] {
			case "aI", "aF", "aD":
				x := parseNum(f[0], f[1])
				switch x.k {
				case 'i':
					if long {
						l.AddLong(x.i)
					} else {
						l.AddInt(int(x.i))
					}
				case 'f':
					l.AddFloat(math.Float32frombits(uint32(x.u)))
				default:
					l.AddDouble(math.Float64frombits(x.u))
				}
			case "sI", "sF", "sD":
				i := atoi(f[1])
				x := parseNum(f[0], f[2])
				switch x.k {
				case 'i':
					if long {
						l.SetLong(i, x.i)
					} else {
						l.SetInt(i, int(x.i))
					}
				case 'f':
					l.SetFloat(i, math.Float32frombits(uint32(x.u)))
				default:
					l.SetDouble(i, math.Float64frombits(x.u))
				}
			case "gI":
				if long {
					res = "v" + strconv.FormatInt(l.GetLong(atoi(f[1])), 10)
				} else {
					res = "v" + strconv.Itoa(l.GetInt(atoi(f[1])))
				}
			case "gF":
				res = "vf" + strconv.FormatUint(uint64(math.Float32bits(l.GetFloat(atoi(f[1])))), 10)
			case "gD":
				res = "vd" + strconv.FormatUint(math.Float64bits(l.GetDouble(atoi(f[1]))), 10)
			case "gV":
				res = valueStr(l.GetValue(atoi(f[1])))
			case "gO":
				if l.GetObject(atoi(f[1])) == nil {
					res = "nil"
				} else {
					res = "not-nil"
				}
			case "t":
				parts := make([]string, l.Size())
				for i := range parts {
					parts[i] = elemOf(t, l, i).str()
				}
				res = "t" + vh.List(parts)
			default:
				panic("bad op " + op)
			}
		})
		if !o.OK() {
			res = "p"
		}
		outs = append(outs, res)
	}
	return outs
}

// valueStr renders what GetValue returned: the value type and its content.
func valueStr(v value.Value) string {
	switch x := v.(type) {
	case *value.DecimalValue:
		return "Vdecimal:" + strconv.FormatInt(x.Val, 10)
	case *value.FloatValue:
		return "Vfloat:f" + strconv.FormatUint(uint64(math.Float32bits(x.Val)), 10)
	case *value.DoubleValue:
		return "Vdouble:d" + strconv.FormatUint(math.Float64bits(x.Val), 10)
	case *value.TextValue:
		return "Vtext:" + val{s: x.Val}.str('s')
	case nil:
		return "Vnil"
	}
	return fmt.Sprintf("V?%T", v)
}

func specN(t byte, ops []string) []string {
	k := kindOfT(t)
	var s []num
	outs := make([]string, 0, len(ops))
	tag := map[byte]string{'i': "decimal", 'f': "float", 'd': "double"}[k]
	for _, op := range ops {
		f := strings.Split(op, ":")
		res := "u"
		switch f[0] {
		case "aI", "aF", "aD":
			if y, ok := convBig(k, parseNum(f[0], f[1])); ok {
				s = append(s, y)
			} else {
				res = "excluded"
			}
		case "sI", "sF", "sD":
			i := atoi(f[1])
			if y, ok := convBig(k, parseNum(f[0], f[2])); !ok {
				res = "excluded"
			} else if i < 0 || i >= len(s) {
				res = "p"
			} else {
				s[i] = y
			}
		case "gI", "gF", "gD":
			i := atoi(f[1])
			if i < 0 || i >= len(s) {
				res = "p"
			} else if y, ok := convBig(map[byte]byte{'I': 'i', 'F': 'f', 'D': 'd'}[f[0][1]], s[i]); ok {
				res = "v" + y.str()
			} else {
				res = "excluded"
			}
		case "gV":
			i := atoi(f[1])
			if i < 0 || i >= len(s) {
				res = "p"
			} else {
				res = "V" + tag + ":" + s[i].str()
			}
		case "gO":
			res = "nil"
		case "t":
			parts := make([]string, len(s))
			for i := range parts {
				parts[i] = s[i].str()
			}
			res = "t" + vh.List(parts)
		}
		outs = append(outs, res)
	}
	return outs
}

var intsForFloat = []int64{0, 1, -1, 2, 16777215, 16777216, 16777217, 16777219, -16777217, 33554433, 1 << 53, 1<<53 + 1, 1<<53 + 3, -(1 << 53) - 1,
	1<<62 + 1, math.MaxInt64, math.MaxInt64 - 511, math.MaxInt64 - 512, math.MinInt64, math.MinInt64 + 1, 1 << 31, 1<<31 - 1, 123456789, -987654321012345}
var f64ForConv = []float64{0, math.Copysign(0, -1), 0.5, -0.5, 0.999999, 1, -1, 1.5, -1.5, 2.5, 1e9, -1e9, 1 << 53, 1<<53 + 2, 9.223372036854775e18, -9.223372036854775808e18,
	9.223372036854774784e18, 16777216.5, 16777217, 1.0000000596046448, 1.0000001788139343, 3.4028235677973366e38, 3.4028234663852886e38, 3.402823669209385e38, 1e300, -1e300,
	1.401298464324817e-45, 7.006492321624085e-46, 7.006492321624087e-46, 1.1754943508222875e-38, 1.1754942106924411e-38, 5e-324, math.Inf(1), math.Inf(-1), math.Pi, -math.E}
var f32ForConv = []float32{0, float32(math.Copysign(0, -1)), 0.5, 1, -1, 1.5, -2.5, 16777216, 2147483648, -2147483648, 9.223372e18, -9.223372e18, 3.4028235e38, 1e-45, 1.17549435e-38, float32(math.Inf(1)), float32(math.Inf(-1)), 3.1415927}

// genNum draws an operand of kind x for a list of kind k, inside the modelled domain.
func genNum(r *vh.Rng, k byte) (code string, text string) {
	for {
		var x num
		switch r.Intn(3) {
		case 0:
			x = num{k: 'i', i: r.Pick64(intsForFloat)}
			if r.Chance(30) {
				x.i = genVal(r, 'l').i
			}
		case 1:
			f := f32ForConv[r.Intn(len(f32ForConv))]
			if r.Chance(30) {
				f = math.Float32frombits(uint32(genVal(r, 'f').u))
			}
			x = num{k: 'f', u: uint64(math.Float32bits(f))}
		default:
			f := f64ForConv[r.Intn(len(f64ForConv))]
			if r.Chance(30) {
				f = math.Float64frombits(genVal(r, 'd').u)
			}
			x = num{k: 'd', u: math.Float64bits(f)}
		}
		if _, ok := convBig(k, x); !ok {
			continue
		}
		c := map[byte]string{'i': "I", 'f': "F", 'd': "D"}[x.k]
		if x.k == 'i' {
			return c, strconv.FormatInt(x.i, 10)
		}
		return c, strconv.FormatUint(x.u, 10)
	}
}

func genN(r *vh.Rng) string {
	t := []byte{'i', 'l', 'f', 'd'}[r.Intn(4)]
	k := kindOfT(t)
	// the elements, tracked to keep the getters inside the modelled domain
	var elems []num
	var ops []string
	n := 6 + r.Intn(25)
	for len(ops) < n {
		switch x := r.Intn(100); {
		case x < 35 || len(elems) == 0:
			c, txt := genNum(r, k)
			ops = append(ops, "a"+c+":"+txt)
			y, _ := convBig(k, parseNum("a"+c, txt))
			elems = append(elems, y)
		case x < 50:
			i := r.Intn(len(elems))
			c, txt := genNum(r, k)
			ops = append(ops, "s"+c+":"+strconv.Itoa(i)+":"+txt)
			y, _ := convBig(k, parseNum("s"+c, txt))
			elems[i] = y
		case x < 85:
			i := r.Intn(len(elems))
			c := r.PickStr([]string{"I", "F", "D"})
			if _, ok := convBig(map[string]byte{"I": 'i', "F": 'f', "D": 'd'}[c], elems[i]); !ok {
				continue // Go leaves this conversion open
			}
			ops = append(ops, "g"+c+":"+strconv.Itoa(i))
		case x < 90:
			ops = append(ops, "gV:"+strconv.Itoa(idxNear(r, len(elems))))
		case x < 93:
			ops = append(ops, "gO:"+strconv.Itoa(idxNear(r, len(elems))))
		case x < 96:
			ops = append(ops, "g"+r.PickStr([]string{"I", "F", "D"})+":"+strconv.Itoa(len(elems)+r.Intn(3))) // out of range: panics before converting
		default:
			ops = append(ops, "t")
		}
	}
	ops = append(ops, "t")
	return "N " + string(t) + " " + genInit(r) + " " + strings.Join(ops, ";")
}
