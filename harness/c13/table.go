package main

// T cases: StatGeneralPack's table operations against the Lean model Golib.Lists.Table /
// TableWire (pure model correspondence; the property-level checks of the same operations are the
// P cases).  The case line is the driver line:
//
//   TP <cols>                         table after Put of the columns in order (duplicate keys replace in place)
//   TW <cols>                         the table bytes inside pack.Write (+ derived TR line: read back)
//   TS <keyhex> <asc> <cols>          pack.Sort
//   TA <keyhex> <asc> <key2hex> <asc2> <cols>   pack.SortAnyList
//   cols: <keyhex>:<t>=<list>|…

import (
	"encoding/hex"
	"strings"

	gio "github.com/whatap/golib/io"
	"github.com/whatap/golib/lang/pack"
	"verif/harness/vh"
)

type tcol struct {
	key string
	t   byte
	vs  []val
}

func hexKey(k string) string {
	if k == "" {
		return "-"
	}
	return hex.EncodeToString([]byte(k))
}

func parseTCols(s string) []tcol {
	if s == "-" {
		return nil
	}
	var out []tcol
	for _, p := range strings.Split(s, "|") {
		i := strings.Index(p, ":")
		k := p[:i]
		if k == "-" {
			k = ""
		}
		kb, err := hex.DecodeString(k)
		if err != nil {
			panic("bad key " + k)
		}
		rest := p[i+1:]
		out = append(out, tcol{string(kb), rest[0], parseVals(rest[0], rest[2:])})
	}
	return out
}

func renderTable(p *pack.StatGeneralPack) string {
	keys, cols, err := tableOf(p)
	if err != "" {
		return "error:" + err
	}
	if len(keys) == 0 {
		return "-"
	}
	parts := make([]string, len(keys))
	for i := range keys {
		parts[i] = hexKey(keys[i]) + ":" + string(cols[i].t) + "=" + valsStr(cols[i].t, cols[i].vs)
	}
	return strings.Join(parts, "|")
}

func newPackOf(cols []tcol) *pack.StatGeneralPack {
	p := pack.NewStatGeneralPack()
	p.Id = "verif"
	p.Pcode, p.Oid, p.Time = 12345, 7, 1700000000000
	for _, c := range cols {
		p.Put(c.key, listOf(c.t, c.vs).any())
	}
	return p
}

func packBytes(p *pack.StatGeneralPack) []byte {
	out := gio.NewDataOutputX()
	p.Write(out)
	return out.ToByteArray()
}

func unhexKey(s string) string {
	if s == "-" {
		return ""
	}
	b, _ := hex.DecodeString(s)
	return string(b)
}

func runTable(c *kase) {
	f := strings.Split(c.line, " ")
	res := ""
	c.dl = []string{c.line}
	o := vh.Guard(func() {
		switch f[0] {
		case "TP":
			res = renderTable(newPackOf(parseTCols(f[1])))
		case "TW":
			p := newPackOf(parseTCols(f[1]))
			all := packBytes(p)
			hdr := len(packBytes(newPackOf(nil))) - 3 // an empty table writes only the 24-bit length 0
			tb := all[hdr+3:]
			res = vh.Hex(tb)
			// read the pack back: the table the implementation reads from these bytes
			p2 := pack.NewStatGeneralPack()
			p2.Read(gio.NewDataInputX(all))
			c.impl = []string{res, "ok " + renderTable(p2) + " 0"}
			c.dl = append(c.dl, "TR "+vh.Hex(tb))
		case "TS":
			p := newPackOf(parseTCols(f[3]))
			p.Sort(unhexKey(f[1]), parseBool(f[2]))
			res = renderTable(p)
		case "TA":
			p := newPackOf(parseTCols(f[5]))
			p.SortAnyList(unhexKey(f[1]), parseBool(f[2]), unhexKey(f[3]), parseBool(f[4]))
			res = renderTable(p)
		}
	})
	if !o.OK() {
		res = "p"
	}
	if c.impl == nil || !o.OK() {
		c.impl = []string{res}
		c.dl = c.dl[:1]
	}
}

// structure of a rendered table: keys, types and lengths (what must agree even when ties may be
// ordered differently by sort.Sort on more than 12 rows)
func tableShape(s string) string {
	if s == "-" || s == "p" {
		return s
	}
	var parts []string
	for _, p := range strings.Split(s, "|") {
		i := strings.Index(p, "=")
		n := 0
		if p[i+1:] != "-" {
			n = strings.Count(p[i+1:], ",") + 1
		}
		parts = append(parts, p[:i]+"#"+string(rune('0'+n%10))+string(rune('0'+(n/10)%10)))
	}
	return strings.Join(parts, "|")
}

func sortRows(f []string) int {
	var cols []tcol
	key := ""
	if f[0] == "TS" {
		cols, key = parseTCols(f[3]), unhexKey(f[1])
	} else {
		cols, key = parseTCols(f[5]), unhexKey(f[1])
	}
	n := 0
	for _, c := range cols { // the last Put under that key wins
		if c.key == key {
			n = len(c.vs)
		}
	}
	return n
}

func judgeTable(c *kase, rep *vh.Report) {
	f := strings.Split(c.line, " ")
	rep.Case(c.line, true)
	rep.Count("T." + f[0])
	if c.impl[0] == "p" {
		rep.Count("T." + f[0] + ".panics")
	}
	for i := range c.impl {
		if i >= len(c.dout) || c.impl[i] == c.dout[i] {
			continue
		}
		if (f[0] == "TS" || f[0] == "TA") && sortRows(f) > 12 && tableShape(c.impl[i]) == tableShape(c.dout[i]) {
			rep.Count("T." + f[0] + ".ties-ordered-differently(n>12)") // sort.Sort beyond insertion sort: not modelled
			continue
		}
		what := f[0]
		if i == 1 {
			what = "TR"
		}
		rep.Fail("correspondence", "StatGeneralPack."+what+":model-disagrees",
			"implementation "+vh.Clip(c.impl[i], 150)+", model "+vh.Clip(c.dout[i], 150), replayOf(c, nil))
		return
	}
}

func genTCols(r *vh.Rng, equalLen bool) string {
	ncol := 1 + r.Intn(4)
	n := r.PickInt([]int{0, 1, 2, 3, 5, 8, 12, 13, 30})
	var parts []string
	for i := 0; i < ncol; i++ {
		t := types[r.Intn(len(types))]
		key := r.PickStr([]string{"c0", "c1", "c2", "c3", "", "k\x00", "열"})
		if r.Chance(70) {
			key = "c" + string(rune('0'+i))
		}
		m := n
		if !equalLen && r.Chance(40) {
			m = r.PickInt([]int{0, 1, n + 1, n + 3, n / 2})
		}
		k := r.PickInt([]int{1, 2, 3, m + 1})
		parts = append(parts, hexKey(key)+":"+string(t)+"="+valsStr(t, genVals(r, t, m, k)))
	}
	return strings.Join(parts, "|")
}

func genT(r *vh.Rng) string {
	pickKey := func(cols string) string {
		var keys []string
		for _, p := range strings.Split(cols, "|") {
			keys = append(keys, p[:strings.Index(p, ":")])
		}
		if r.Chance(88) {
			return keys[r.Intn(len(keys))]
		}
		return hexKey(r.PickStr([]string{"zz", "", "c9"}))
	}
	switch x := r.Intn(100); {
	case x < 15:
		return "TP " + genTCols(r, false)
	case x < 40:
		return "TW " + genTCols(r, false)
	case x < 70:
		cols := genTCols(r, r.Chance(85))
		return "TS " + pickKey(cols) + " " + b2s(r.Bool()) + " " + cols
	}
	cols := genTCols(r, r.Chance(85))
	return "TA " + pickKey(cols) + " " + b2s(r.Bool()) + " " + pickKey(cols) + " " + b2s(r.Bool()) + " " + cols
}
