// Correspondence harness for C13: util/list typed lists, LinkedList, Sorting*/Filtering and the
// lists' wire form (also through pack.StatGeneralPack) against the Lean CodeModel Golib.Lists.*
// (driver drv_c13) and against plain-slice oracles.
//
// Every case is a request line (driver syntax).  Three executors answer it:
//   impl   the real code                      (impl.go)
//   spec   plain Go slices / direct ordering  (oracle.go)  — the property evaluated directly
//   model  the Lean CodeModel                 (driver)
// impl ≠ spec            → the property fails on the implementation   (kind "property")
// impl = spec ≠ model    → the model misdescribes the code            (kind "correspondence")
package main

import (
	"encoding/json"
	"fmt"
	"os"
	"sort"
	"strings"
	"sync"
	"time"

	gio "github.com/whatap/golib/io"
	"github.com/whatap/golib/util/list"
	"verif/harness/vh"
)

type kase struct {
	line  string   // request line identifying the case (replayable)
	kind  byte     // L W R F M K P
	impl  []string // answers of the implementation (per op for L/K, one element otherwise)
	spec  []string // answers of the oracle
	perm  []int    // M: permutation returned by the implementation
	pout  vh.Outcome
	dl    []string // driver request lines derived from the case
	dout  []string // driver answers
	notes []string
}

var typeNames = map[byte]string{'i': "IntList", 'l': "LongList", 'f': "FloatList", 'd': "DoubleList", 's': "StringList"}

func main() {
	env, rep := vh.Parse("C13")
	rng := vh.NewRng(env.Seed)
	rep.Rule = "one case = one request line: a typed-list op history (L), a wire write/read (W/R), a Filtering call (F), " +
		"a multi-object history over a pool of 4 lists and 3 caller-held slices with every live object compared after every op (X), a Sorting/SortingAnyList call (M), a LinkedList history (K) or a StatGeneralPack table round trip/sort (P); " +
		"non-trivial: the history changes state at least once / the sorted list has ≥ 2 elements / the list written or filtered is non-empty; " +
		"distinct = distinct request lines"

	probeSetString32(rep) // before any G case runs: the oracle and the model line follow the tree
	var cases []*kase
	if env.Replay != "" {
		cases = loadReplay(env.Replay)
	} else {
		cases = generate(rng, env.Thorough, rep)
	}

	t0 := time.Now()
	// ---- implementation + oracle, in parallel
	var wg sync.WaitGroup
	sem := make(chan struct{}, 12)
	for _, c := range cases {
		if c.kind == 'Q' {
			continue
		}
		wg.Add(1)
		sem <- struct{}{}
		go func(c *kase) {
			defer wg.Done()
			defer func() { <-sem }()
			runCase(c)
		}(c)
	}
	wg.Wait()
	// the concurrent stage on its own, one scenario at a time, so that its goroutines really run side by side
	for _, c := range cases {
		if c.kind == 'Q' {
			runCase(c)
		}
	}

	t1 := time.Now()
	// ---- model
	var lines []string
	for _, c := range cases {
		lines = append(lines, c.dl...)
	}
	if d := os.Getenv("VERIF_DUMP"); d != "" {
		os.WriteFile(d, []byte(strings.Join(lines, "\n")+"\n"), 0o644)
	}
	outs, err := runDriverParallel(env.Driver, lines, 8)
	if err != nil {
		vh.Die("%v", err)
	}
	rep.Note("implementation+oracle %.1fs, model (driver, %d lines) %.1fs", t1.Sub(t0).Seconds(), len(lines), time.Since(t1).Seconds())
	k := 0
	for _, c := range cases {
		c.dout = outs[k : k+len(c.dl)]
		k += len(c.dl)
	}

	if env.Thorough && env.Replay == "" {
		wireBoundary(rep)
	}

	// ---- the three defects this property met on the unrepaired tree, replayed every run
	// (first, so that a replay file leads with the minimal witness)
	replayDefects(rep)

	// ---- verdicts
	for _, c := range cases {
		judge(c, rep)
	}

	rep.Write(env.Out)
}

// runDriverParallel spreads the (stateless) request lines over n driver processes,
// balancing by line length, and reassembles the answers in order.
func runDriverParallel(driver string, lines []string, n int) ([]string, error) {
	if len(lines) < 4*n {
		return vh.RunDriver(driver, lines)
	}
	idx := make([][]int, n)
	load := make([]int, n)
	order := make([]int, len(lines))
	for i := range order {
		order[i] = i
	}
	sort.Slice(order, func(a, b int) bool { return len(lines[order[a]]) > len(lines[order[b]]) })
	for _, i := range order {
		m := 0
		for j := 1; j < n; j++ {
			if load[j] < load[m] {
				m = j
			}
		}
		idx[m] = append(idx[m], i)
		load[m] += len(lines[i]) + 50
	}
	outs := make([]string, len(lines))
	errs := make([]error, n)
	var wg sync.WaitGroup
	for j := 0; j < n; j++ {
		wg.Add(1)
		go func(j int) {
			defer wg.Done()
			part := make([]string, len(idx[j]))
			for k, i := range idx[j] {
				part[k] = lines[i]
			}
			res, err := vh.RunDriver(driver, part)
			if err != nil {
				errs[j] = err
				return
			}
			for k, i := range idx[j] {
				outs[i] = res[k]
			}
		}(j)
	}
	wg.Wait()
	for _, e := range errs {
		if e != nil {
			return nil, e
		}
	}
	return outs, nil
}

// wireBoundary (thorough tier): the 24-bit count.  2^23-1 elements round-trip; with 2^23 the count
// reads back negative and nothing is read (theorem C13.wire_count_wraps — a stated limit, not a finding).
func wireBoundary(rep *vh.Report) {
	for _, n := range []int{1<<23 - 1, 1 << 23} {
		var got, rest int
		o := vh.Guard(func() {
			l := list.NewIntList(n)
			l.AddAllArray(make([]int, n))
			out := gio.NewDataOutputX()
			l.Write(out)
			in := gio.NewDataInputX(out.ToByteArray())
			l2 := list.NewIntListDefault()
			l2.Read(in)
			got, rest = l2.Size(), int(in.Available())
		})
		switch {
		case !o.OK():
			rep.Fail("property", "IntList.Write/Read:panics-at-count-boundary", fmt.Sprintf("n=%d: %s", n, vh.Clip(o.Panic, 80)), map[string]interface{}{"n": n})
		case n < 1<<23 && (got != n || rest != 0):
			rep.Fail("property", "IntList.Write/Read:round-trip", fmt.Sprintf("n=%d elements written, %d read back, %d bytes left", n, got, rest), map[string]interface{}{"n": n})
		case n >= 1<<23 && (got != 0 || rest != n):
			rep.Fail("correspondence", "IntList.Read:model-disagrees-at-count-wrap", fmt.Sprintf("n=%d: implementation read %d elements and left %d bytes; the model reads 0 and leaves %d", n, got, rest, n), map[string]interface{}{"n": n})
		default:
			rep.Count(fmt.Sprintf("wire.boundary.n=%d.as-modelled", n))
		}
		rep.Case(fmt.Sprintf("wire-boundary %d", n), true)
	}
}

func loadReplay(path string) []*kase {
	b, err := os.ReadFile(path)
	if err != nil {
		vh.Die("replay: %v", err)
	}
	var r struct {
		Cases []map[string]interface{} `json:"cases"`
	}
	if err := json.Unmarshal(b, &r); err != nil {
		vh.Die("replay: %v", err)
	}
	var out []*kase
	for _, c := range r.Cases {
		if l, ok := c["line"].(string); ok && l != "" {
			out = append(out, &kase{line: l, kind: l[0]})
		}
	}
	return out
}

func parseBool(s string) bool { return s == "1" }
func b2s(b bool) string {
	if b {
		return "1"
	}
	return "0"
}

func splitOps(s string) []string {
	if s == "-" {
		return nil
	}
	return strings.Split(s, ";")
}

func runCase(c *kase) {
	f := strings.Split(c.line, " ")
	switch c.kind {
	case 'L':
		t, init, ops := f[1][0], f[2], splitOps(f[3])
		c.impl = execL(t, init, ops)
		c.spec = specL(t, ops)
		dinit := init
		if init == "def" {
			dinit = "cap:0"
		}
		c.dl = []string{"L " + f[1] + " " + dinit + " " + f[3]}
	case 'W':
		t := f[1][0]
		c.impl = []string{execW(t, parseVals(t, f[2]))}
		// the spec of the wire form is the round trip (checked in judge through an R line)
		c.dl = []string{c.line}
		if c.impl[0] != "p" {
			// read back, with 0..3 foreign bytes behind the list (they must be left alone)
			bs := append(vh.UnHex(c.impl[0]), []byte{0xab, 0x01, 0xff}[:len(f[2])%4]...)
			c.dl = append(c.dl, "R "+f[1]+" "+vh.Hex(bs))
			c.spec = []string{execR(t, bs)}
		}
	case 'R':
		t := f[1][0]
		c.impl = []string{execR(t, vh.UnHex(f[2]))}
		c.dl = []string{c.line}
	case 'F':
		t := f[1][0]
		vs, idx := parseVals(t, f[2]), parseInts(f[3])
		c.impl = []string{execF(t, vs, idx)}
		c.spec = []string{specF(t, vs, idx)}
		c.dl = []string{c.line}
	case 'M':
		pt, asc, ct, casc := f[1][0], parseBool(f[2]), f[3][0], parseBool(f[4])
		vals := parseVals(pt, f[5])
		var cvals []val
		if ct != '-' {
			cvals = parseVals(ct, f[6])
		}
		c.perm, c.pout = execSort(pt, asc, ct, casc, vals, cvals)
		c.dl = []string{c.line}
		if c.pout.OK() {
			c.dl = append(c.dl, fmt.Sprintf("O %s %s %s %s %s %s %s", f[1], f[2], f[3], f[4], f[5], f[6], intsStr(c.perm)))
		}
	case 'C':
		t, init, ops := f[1][0], f[2], splitOps(f[3])
		c.impl = execC(t, init, ops)
		c.spec = specC(t, ops)
		for i := range c.spec {
			if c.spec[i] == "?" && i < len(c.impl) {
				c.spec[i] = c.impl[i]
			}
		}
		dinit := init
		if init == "def" {
			dinit = "cap:0"
		}
		c.dl = []string{"C " + f[1] + " " + dinit + " " + f[3]}
	case 'N':
		t, init, ops := f[1][0], f[2], splitOps(f[3])
		c.impl = execN(t, init, ops)
		c.spec = specN(t, ops)
		dinit := init
		if init == "def" {
			dinit = "cap:0"
		}
		c.dl = []string{"N " + f[1] + " " + dinit + " " + f[3]}
	case 'G':
		t, init, ops := f[1][0], f[2], splitOps(f[3])
		c.impl = execG(t, init, ops)
		c.spec = specG(t, ops)
		dinit := init
		if init == "def" {
			dinit = "cap:0"
		}
		dt := f[1]
		if t == 'd' && !quirkSetString32 {
			dt = "D" // the model of the repaired DoubleList.SetString
		}
		c.dl = []string{"G " + dt + " " + dinit + " " + f[3]}
	case 'H':
		ops := splitOps(f[1])
		c.impl = execH(ops)
		c.spec = specH(ops)
		for i := range c.spec {
			if c.spec[i] == "?" && i < len(c.impl) {
				c.spec[i] = c.impl[i]
			}
		}
		c.dl = []string{c.line}
	case 'T':
		runTable(c)
	case 'Q':
		runConcCase(c)
	case 'S':
		runSortContract(c)
	case 'X':
		t, ops := f[1][0], splitOps(f[2])
		c.impl = execX(t, ops)
		c.spec = specX(t, ops)
		c.dl = []string{strings.ReplaceAll(c.line, ":def", ":cap:0")}
	case 'K':
		ops := splitOps(f[1])
		c.impl = execK(ops)
		c.spec = specK(ops)
		c.dl = []string{c.line}
	case 'P':
		runPack(c)
	default:
		vh.Die("bad case line %q", vh.Clip(c.line, 80))
	}
}

func firstDiff(a, b []string) int {
	n := len(a)
	if len(b) < n {
		n = len(b)
	}
	for i := 0; i < n; i++ {
		if a[i] != b[i] {
			return i
		}
	}
	if len(a) != len(b) {
		return n
	}
	return -1
}

func opName(op string) string {
	switch strings.Split(op, ":")[0] {
	case "a":
		return "Add"
	case "A":
		return "AddAllArray"
	case "B":
		return "AddAll"
	case "S":
		return "AddAll(self)"
	case "s":
		return "Set"
	case "g":
		return "Get"
	case "n":
		return "Size"
	case "t":
		return "ToArray"
	}
	return op
}

func classify(implAns, specAns string) string {
	switch {
	case implAns == "p" && specAns != "p":
		return "panics"
	case implAns != "p" && specAns == "p":
		return "out-of-range-not-reported"
	}
	return "wrong-result"
}

func replayOf(c *kase, extra map[string]interface{}) map[string]interface{} {
	m := map[string]interface{}{"line": c.line}
	for k, v := range extra {
		m[k] = v
	}
	return m
}

func at(xs []string, i int) string {
	if i < len(xs) {
		return xs[i]
	}
	return "(none)"
}

func judge(c *kase, rep *vh.Report) {
	f := strings.Split(c.line, " ")
	switch c.kind {
	case 'L':
		t, init, ops := f[1][0], f[2], splitOps(f[3])
		nontrivial := false
		for _, op := range ops {
			if strings.ContainsAny(op[:1], "aABSs") {
				nontrivial = true
			}
			rep.Count("L.op." + opName(op))
		}
		rep.Case(c.line, nontrivial)
		rep.Count("L.type." + typeNames[t])
		rep.Count("L.init." + strings.Split(init, ":")[0])
		rep.Count("L.ops." + bucket(len(ops)))
		if n := len(c.spec); n >= 2 && strings.HasPrefix(c.spec[n-2], "n") {
			sz := 0
			fmt.Sscanf(c.spec[n-2], "n%d", &sz)
			rep.Count("L.finalsize." + bucketBig(sz))
		}
		for i, a := range c.impl {
			if a == "p" {
				rep.Count("L.panic." + opName(ops[i]))
			}
		}
		model := splitOps(c.dout[0])
		if d := firstDiff(c.impl, c.spec); d >= 0 {
			key := typeNames[t] + "." + opName(ops[d]) + ":" + classify(at(c.impl, d), at(c.spec, d))
			// the two defects of the unrepaired tree, under one key each (all five files share them)
			if strings.HasPrefix(ops[d], "S") && at(c.impl, d) == "p" {
				key = "TypedList.AddAll(self):panics"
			} else if init == "nil" && (ops[d][0] == 'A' || ops[d][0] == 'B') && at(c.impl, d) == "p" {
				key = "TypedList.AddAll@zero-value:panics"
			}
			rep.Fail("property", key,
				fmt.Sprintf("%s init=%s: op #%d %s answers %s, a sequence answers %s", typeNames[t], init, d, vh.Clip(ops[d], 60), vh.Clip(at(c.impl, d), 60), vh.Clip(at(c.spec, d), 60)),
				replayOf(c, map[string]interface{}{"op_index": d}))
			return
		}
		if d := firstDiff(c.impl, model); d >= 0 {
			rep.Fail("correspondence", typeNames[t]+"."+opName(at(ops, d))+":model-disagrees",
				fmt.Sprintf("op #%d %s: implementation %s, model %s", d, vh.Clip(at(ops, d), 60), vh.Clip(at(c.impl, d), 60), vh.Clip(at(model, d), 60)),
				replayOf(c, map[string]interface{}{"op_index": d}))
		}
	case 'W':
		t := f[1][0]
		vs := parseVals(t, f[2])
		rep.Case(c.line, len(vs) > 0)
		rep.Count("W.type." + typeNames[t])
		rep.Count("W.len." + bucket(len(vs)))
		want := fmt.Sprintf("ok %s %d", f[2], len(f[2])%4)
		if c.impl[0] == "p" {
			rep.Fail("property", typeNames[t]+".Write:panics", "Write panics", replayOf(c, nil))
			return
		}
		if c.spec[0] != want {
			rep.Fail("property", typeNames[t]+".Write/Read:round-trip",
				fmt.Sprintf("read back %s, written %s", vh.Clip(c.spec[0], 80), vh.Clip(want, 80)), replayOf(c, nil))
			return
		}
		if c.dout[0] != c.impl[0] {
			rep.Fail("correspondence", typeNames[t]+".Write:model-disagrees",
				fmt.Sprintf("bytes differ: implementation %s, model %s", vh.Clip(c.impl[0], 80), vh.Clip(c.dout[0], 80)), replayOf(c, nil))
			return
		}
		if c.dout[1] != want {
			rep.Fail("correspondence", typeNames[t]+".Read:model-disagrees",
				fmt.Sprintf("model reads %s", vh.Clip(c.dout[1], 80)), replayOf(c, nil))
		}
	case 'R':
		t := f[1][0]
		rep.Case(c.line, len(f[2]) > 6)
		rep.Count("R.type." + typeNames[t])
		if c.impl[0] == "fail" {
			rep.Count("R.fail")
		}
		if c.dout[0] != c.impl[0] {
			rep.Fail("correspondence", typeNames[t]+".Read:model-disagrees",
				fmt.Sprintf("implementation %s, model %s", vh.Clip(c.impl[0], 80), vh.Clip(c.dout[0], 80)), replayOf(c, nil))
		}
	case 'F':
		t := f[1][0]
		rep.Case(c.line, f[2] != "-" && f[3] != "-")
		rep.Count("F.type." + typeNames[t])
		if c.spec[0] == "p" {
			rep.Count("F.out-of-range")
		} else {
			rep.Count("F.in-range")
		}
		if c.impl[0] != c.spec[0] {
			rep.Fail("property", typeNames[t]+".Filtering:"+classify(c.impl[0], c.spec[0]),
				fmt.Sprintf("Filtering answers %s, selection is %s", vh.Clip(c.impl[0], 80), vh.Clip(c.spec[0], 80)), replayOf(c, nil))
			return
		}
		if c.dout[0] != c.impl[0] {
			rep.Fail("correspondence", typeNames[t]+".Filtering:model-disagrees",
				fmt.Sprintf("implementation %s, model %s", vh.Clip(c.impl[0], 80), vh.Clip(c.dout[0], 80)), replayOf(c, nil))
		}
	case 'N':
		t, ops := f[1][0], splitOps(f[3])
		rep.Case(c.line, len(ops) > 0)
		rep.Count("N.type." + typeNames[t])
		for _, op := range ops {
			rep.Count("N.op." + strings.Split(op, ":")[0])
		}
		numName := map[string]string{"aI": "AddInt/AddLong", "aF": "AddFloat", "aD": "AddDouble", "sI": "SetInt/SetLong", "sF": "SetFloat", "sD": "SetDouble",
			"gI": "GetInt/GetLong", "gF": "GetFloat", "gD": "GetDouble", "gV": "GetValue", "gO": "GetObject", "t": "elements"}
		model := splitOps(c.dout[0])
		if d := firstDiff(c.impl, c.spec); d >= 0 {
			rep.Fail("property", typeNames[t]+"."+numName[strings.Split(at(ops, d), ":")[0]]+":"+classify(at(c.impl, d), at(c.spec, d)),
				fmt.Sprintf("%s: op #%d %s answers %s, the conversion computed with math/big gives %s", typeNames[t], d, vh.Clip(at(ops, d), 60), vh.Clip(at(c.impl, d), 60), vh.Clip(at(c.spec, d), 60)),
				replayOf(c, map[string]interface{}{"op_index": d}))
			return
		}
		if d := firstDiff(c.impl, model); d >= 0 {
			rep.Fail("correspondence", typeNames[t]+"."+numName[strings.Split(at(ops, d), ":")[0]]+":model-disagrees",
				fmt.Sprintf("op #%d %s: implementation %s, model %s", d, vh.Clip(at(ops, d), 60), vh.Clip(at(c.impl, d), 60), vh.Clip(at(model, d), 60)),
				replayOf(c, map[string]interface{}{"op_index": d}))
		}
	case 'G':
		t, ops := f[1][0], splitOps(f[3])
		rep.Case(c.line, len(ops) > 0)
		rep.Count("G.type." + typeNames[t])
		gName := map[string]string{"aS": "AddString", "aF": "AddFloat", "aD": "AddDouble", "sS": "SetString", "sF": "SetFloat", "sD": "SetDouble",
			"gS": "GetString", "gF": "GetFloat", "gD": "GetDouble", "t": "elements"}
		for i, op := range ops {
			n := strings.Split(op, ":")[0]
			rep.Count("G.op." + gName[n])
			switch a := at(c.impl, i); {
			case a == "p":
				rep.Count("G.panic." + gName[n])
			case t == 'd' && n == "sS" && a == "u" && quirkSetString32:
				rep.Count("G.DoubleList.SetString@32")
			}
			if at(c.spec, i) == "excluded" {
				rep.Count("G.excluded")
			}
		}
		model := splitOps(c.dout[0])
		if d := firstDiff(c.impl, c.spec); d >= 0 {
			cls := classify(at(c.impl, d), at(c.spec, d))
			if cls == "out-of-range-not-reported" {
				cls = "error-not-reported" // bad index or text that is not a number
			}
			rep.Fail("property", typeNames[t]+"."+gName[strings.Split(at(ops, d), ":")[0]]+":"+cls,
				fmt.Sprintf("%s: op #%d %s answers %s, correct rounding (text <-> float, computed with math/big) gives %s", typeNames[t], d, vh.Clip(at(ops, d), 60), vh.Clip(at(c.impl, d), 60), vh.Clip(at(c.spec, d), 60)),
				replayOf(c, map[string]interface{}{"op_index": d}))
			return
		}
		if d := firstDiff(c.impl, model); d >= 0 {
			rep.Fail("correspondence", typeNames[t]+"."+gName[strings.Split(at(ops, d), ":")[0]]+":model-disagrees",
				fmt.Sprintf("op #%d %s: implementation %s, model %s", d, vh.Clip(at(ops, d), 60), vh.Clip(at(c.impl, d), 60), vh.Clip(at(model, d), 60)),
				replayOf(c, map[string]interface{}{"op_index": d}))
		}
	case 'H':
		ops := splitOps(f[1])
		rep.Case(c.line, len(ops) > 0)
		for i, op := range ops {
			n := strings.Split(op, "/")[0]
			rep.Count("H.op." + n)
			if at(c.impl, i) == "p" {
				rep.Count("H.panic." + n)
			}
		}
		model := splitOps(c.dout[0])
		if d := firstDiff(c.impl, c.spec); d >= 0 {
			rep.Fail("property", "StatGeneralPack."+strings.Split(at(ops, d), "/")[0]+"@history:"+classify(at(c.impl, d), at(c.spec, d)),
				fmt.Sprintf("pack history: op #%d %s answers %s, the table of lists (wire columns merged with the in-memory ones) gives %s", d, vh.Clip(at(ops, d), 60), vh.Clip(at(c.impl, d), 100), vh.Clip(at(c.spec, d), 100)),
				replayOf(c, map[string]interface{}{"op_index": d}))
			return
		}
		if d := firstDiff(c.impl, model); d >= 0 {
			rep.Fail("correspondence", "StatGeneralPack."+strings.Split(at(ops, d), "/")[0]+"@history:model-disagrees",
				fmt.Sprintf("op #%d %s: implementation %s, model %s", d, vh.Clip(at(ops, d), 60), vh.Clip(at(c.impl, d), 100), vh.Clip(at(model, d), 100)),
				replayOf(c, map[string]interface{}{"op_index": d}))
		}
	case 'T':
		judgeTable(c, rep)
	case 'Q':
		judgeConc(c, rep)
	case 'S':
		judgeSortContract(c, rep)
	case 'C':
		t, ops := f[1][0], splitOps(f[3])
		rep.Case(c.line, len(ops) > 0)
		rep.Count("C.type." + typeNames[t])
		for i, op := range ops {
			rep.Count("C.op." + strings.Split(op, ":")[0])
			if at(c.impl, i) == "p" {
				rep.Count("C.panic." + strings.Split(op, ":")[0])
			}
		}
		crossName := map[string]string{"aI": "AddInt", "aS": "AddString", "sI": "SetInt", "sS": "SetString", "gI": "GetInt", "gS": "GetString", "t": "ToArray",
			"P": "ToString", "gV": "GetValue", "gO": "GetObject"}
		model := splitOps(c.dout[0])
		if d := firstDiff(c.impl, c.spec); d >= 0 {
			cls := classify(at(c.impl, d), at(c.spec, d))
			if cls == "out-of-range-not-reported" {
				cls = "error-not-reported" // bad index or text that is not a number
			}
			rep.Fail("property", typeNames[t]+"."+crossName[strings.Split(at(ops, d), ":")[0]]+":"+cls,
				fmt.Sprintf("%s: op #%d %s answers %s, integers-as-decimal-text answer %s", typeNames[t], d, vh.Clip(at(ops, d), 60), vh.Clip(at(c.impl, d), 60), vh.Clip(at(c.spec, d), 60)),
				replayOf(c, map[string]interface{}{"op_index": d}))
			return
		}
		if d := firstDiff(c.impl, model); d >= 0 {
			rep.Fail("correspondence", typeNames[t]+"."+crossName[strings.Split(at(ops, d), ":")[0]]+":model-disagrees",
				fmt.Sprintf("op #%d %s: implementation %s, model %s", d, vh.Clip(at(ops, d), 60), vh.Clip(at(c.impl, d), 60), vh.Clip(at(model, d), 60)),
				replayOf(c, map[string]interface{}{"op_index": d}))
		}
	case 'X':
		t, ops := f[1][0], splitOps(f[2])
		rep.Case(c.line, len(ops) > 0)
		rep.Count("X.type." + typeNames[t])
		for _, op := range ops {
			rep.Count("X.op." + xOpNames[strings.Split(op, ":")[0]])
		}
		model := splitOps(c.dout[0])
		if d := firstDiff(c.impl, c.spec); d >= 0 {
			cls := xClass(at(ops, d), at(c.impl, d), at(c.spec, d))
			rep.Fail("property", typeNames[t]+"."+xOpNames[strings.Split(at(ops, d), ":")[0]]+":"+cls,
				fmt.Sprintf("%s pool: after op #%d %s the live objects are %s, independent sequences are %s", typeNames[t], d, vh.Clip(at(ops, d), 40), vh.Clip(at(c.impl, d), 120), vh.Clip(at(c.spec, d), 120)),
				replayOf(c, map[string]interface{}{"op_index": d}))
			return
		}
		if d := firstDiff(c.impl, model); d >= 0 {
			rep.Fail("correspondence", typeNames[t]+"."+xOpNames[strings.Split(at(ops, d), ":")[0]]+":model-disagrees",
				fmt.Sprintf("op #%d %s: implementation %s, model %s", d, vh.Clip(at(ops, d), 40), vh.Clip(at(c.impl, d), 120), vh.Clip(at(model, d), 120)),
				replayOf(c, map[string]interface{}{"op_index": d}))
		}
	case 'M':
		judgeSort(c, f, rep)
	case 'K':
		ops := splitOps(f[1])
		nontrivial := false
		for _, op := range ops {
			n := strings.Split(op, ":")[0]
			rep.Count("K.op." + n)
			if n != "t" && n != "n" && n != "gf" && n != "gl" && n != "ts" && n != "es" {
				nontrivial = true
			}
		}
		rep.Case(c.line, nontrivial)
		rep.Count("K.len." + bucket(len(ops)))
		model := splitOps(c.dout[0])
		if d := firstDiff(c.impl, c.spec); d >= 0 {
			rep.Fail("property", "LinkedList."+strings.Split(at(ops, d), ":")[0]+":"+classify(at(c.impl, d), at(c.spec, d)),
				fmt.Sprintf("op #%d %s answers %s, a deque answers %s", d, at(ops, d), vh.Clip(at(c.impl, d), 60), vh.Clip(at(c.spec, d), 60)),
				replayOf(c, map[string]interface{}{"op_index": d}))
			return
		}
		if d := firstDiff(c.impl, model); d >= 0 {
			rep.Fail("correspondence", "LinkedList."+strings.Split(at(ops, d), ":")[0]+":model-disagrees",
				fmt.Sprintf("op #%d %s: implementation %s, model %s", d, at(ops, d), vh.Clip(at(c.impl, d), 60), vh.Clip(at(model, d), 60)),
				replayOf(c, map[string]interface{}{"op_index": d}))
		}
	case 'P':
		judgePack(c, rep)
	}
}

func judgeSort(c *kase, f []string, rep *vh.Report) {
	pt, asc, ct, casc := f[1][0], parseBool(f[2]), f[3][0], parseBool(f[4])
	vals := parseVals(pt, f[5])
	var cvals []val
	if ct != '-' {
		cvals = parseVals(ct, f[6])
	}
	n := len(vals)
	rep.Case(c.line, n >= 2)
	name := "Sorting"
	if ct != '-' {
		name = "SortingAnyList"
		rep.Count("M.child." + typeNames[ct] + "." + dirName(casc))
	}
	rep.Count("M." + name + "." + typeNames[pt] + "." + dirName(asc))
	rep.Count("M.n." + bucket(n))
	who := typeNames[pt] + "." + name
	if !c.pout.OK() {
		rep.Fail("property", who+":panics", "panic: "+vh.Clip(c.pout.Panic, 100), replayOf(c, nil))
		return
	}
	if !isPerm(c.perm, n) {
		rep.Fail("property", who+":not-a-permutation", fmt.Sprintf("result %s is not a permutation of 0..%d", vh.Clip(intsStr(c.perm), 80), n-1), replayOf(c, nil))
		return
	}
	bad := ordered(c.perm, pt, asc, ct, casc, vals, cvals, false)
	if bad >= 0 {
		key := who + ":not-ordered"
		if (ct == 'i' || ct == 'l') && ordered(c.perm, pt, asc, ct, casc, vals, cvals, true) < 0 {
			// ordered if the integer child is compared after conversion to float64: D43
			key = "SortingAnyList:int-child-compared-as-float64"
		}
		a, b := c.perm[bad], c.perm[bad+1]
		sum := fmt.Sprintf("positions %d,%d hold indices %d,%d with values %s,%s", bad, bad+1, a, b, vals[a].str(pt), vals[b].str(pt))
		if ct != '-' {
			sum += fmt.Sprintf(" child %s,%s", cvals[a].str(ct), cvals[b].str(ct))
		}
		rep.Fail("property", key, sum+" — out of the requested order", replayOf(c, map[string]interface{}{"result": intsStr(c.perm)}))
		return
	}
	// the values met along the result are those met along any ordering permutation
	ref := refSort(pt, asc, ct, casc, vals, cvals)
	if keySeq(c.perm, pt, ct, vals, cvals) != keySeq(ref, pt, ct, vals, cvals) {
		rep.Fail("property", who+":wrong-value-sequence", "value sequence along the result differs from the sorted sequence", replayOf(c, nil))
		return
	}
	// model: its own sort gives the same value sequence, and it accepts the implementation's result
	mperm := parseInts(c.dout[0])
	if !isPerm(mperm, n) || keySeq(mperm, pt, ct, vals, cvals) != keySeq(ref, pt, ct, vals, cvals) {
		rep.Fail("correspondence", who+":model-sorts-differently",
			fmt.Sprintf("model permutation %s does not give the sorted value sequence", vh.Clip(c.dout[0], 80)), replayOf(c, nil))
		return
	}
	// up to 12 elements sort.Sort is the insertion sort the model transcribes: the very same permutation
	if n <= 12 && intsStr(c.perm) != c.dout[0] {
		rep.Fail("correspondence", who+":small-input-permutation-differs",
			fmt.Sprintf("n=%d ≤ 12: implementation returns %s, the model of sort.Sort's insertion sort %s", n, intsStr(c.perm), c.dout[0]), replayOf(c, nil))
		return
	}
	if n <= 12 {
		rep.Count("M.exact-permutation(n≤12)")
	}
	if c.dout[1] != "ok" {
		rep.Fail("correspondence", who+":model-rejects-result",
			fmt.Sprintf("model comparator says %s for the implementation's result %s", c.dout[1], vh.Clip(intsStr(c.perm), 80)), replayOf(c, nil))
	}
}

func dirName(asc bool) string {
	if asc {
		return "asc"
	}
	return "desc"
}

func bucketBig(n int) string {
	switch {
	case n <= 10:
		return "0-10"
	case n <= 100:
		return "11-100"
	case n <= 1000:
		return "101-1000"
	case n <= 3000:
		return "1001-3000"
	case n <= 6000:
		return "3001-6000"
	}
	return ">6000"
}

func bucket(n int) string {
	switch {
	case n == 0:
		return "0"
	case n == 1:
		return "1"
	case n <= 12:
		return "2-12"
	case n <= 100:
		return "13-100"
	case n <= 1000:
		return "101-1000"
	}
	return ">1000"
}

// replayDefects replays, on every run, the concrete inputs on which the unrepaired tree
// violates the property (proposed/C13/fix-D43.diff, fix-D44.diff, fix-D45.diff).  They are
// reported as failures under their keys while they reproduce.
func replayDefects(rep *vh.Report) {
	type d struct{ key, line, what string }
	ds := []d{
		{"SortingAnyList:int-child-compared-as-float64", "M i 1 l 1 7,7 9007199254740992,9007199254740993",
			"D43 IntList{7,7}.SortingAnyList(asc, LongList{2^53, 2^53+1}, asc): ties are not ordered by the child"},
		{"SortingAnyList:int-child-compared-as-float64", "M i 1 l 1 7,7 9007199254740993,9007199254740992",
			"D43 (mirror input)"},
		{"TypedList.AddAll@zero-value:panics", "L i nil A:0,1,2,3,4,5,6,7,8,9,10;n;t",
			"D44 new(IntList).AddAllArray(11 elements) panics: ensure takes min(10, n) on a nil table"},
		{"TypedList.AddAll(self):panics", "L i def a:1;a:2;S;n;t",
			"D45 l.AddAll(l) panics: the loop bound other.size grows with every element added"},
	}
	for _, x := range ds {
		c := &kase{line: x.line, kind: x.line[0]}
		runCase(c)
		still := false
		switch c.kind {
		case 'L':
			still = firstDiff(c.impl, c.spec) >= 0
		case 'M':
			f := strings.Split(c.line, " ")
			vals, cvals := parseVals('i', f[5]), parseVals('l', f[6])
			still = !c.pout.OK() || !isPerm(c.perm, len(vals)) || ordered(c.perm, 'i', true, 'l', true, vals, cvals, false) >= 0
		}
		rep.Count("defect-replay." + x.key + "." + map[bool]string{true: "reproduces", false: "repaired"}[still])
		if still {
			rep.Fail("property", x.key, x.what, map[string]interface{}{"line": x.line})
		}
	}
}
