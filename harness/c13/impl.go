package main

// Execution of request lines on the real code (github.com/whatap/golib/util/list,
// lang/pack.StatGeneralPack).  The answers use the driver's syntax, so the three
// executors (implementation, plain-slice oracle, Lean model) can be compared as text.

import (
	"encoding/hex"
	"fmt"
	"math"
	"strconv"
	"strings"

	gio "github.com/whatap/golib/io"
	"github.com/whatap/golib/util/list"
	"verif/harness/vh"
)

// ---------------------------------------------------------------- values

type val struct {
	i int64
	u uint64
	s string
}

func parseVal(t byte, s string) val {
	switch t {
	case 'i', 'l':
		n, err := strconv.ParseInt(s, 10, 64)
		if err != nil {
			panic("bad int " + s)
		}
		return val{i: n}
	case 'f', 'd':
		n, err := strconv.ParseUint(s, 10, 64)
		if err != nil {
			panic("bad bits " + s)
		}
		return val{u: n}
	default:
		if !strings.HasPrefix(s, "x") {
			panic("bad string " + s)
		}
		b, err := hex.DecodeString(s[1:])
		if err != nil {
			panic("bad hex " + s)
		}
		return val{s: string(b)}
	}
}

func (v val) str(t byte) string {
	switch t {
	case 'i', 'l':
		return strconv.FormatInt(v.i, 10)
	case 'f', 'd':
		return strconv.FormatUint(v.u, 10)
	default:
		return "x" + hex.EncodeToString([]byte(v.s))
	}
}

func parseVals(t byte, s string) []val {
	if s == "-" {
		return []val{}
	}
	parts := strings.Split(s, ",")
	out := make([]val, len(parts))
	for i, p := range parts {
		out[i] = parseVal(t, p)
	}
	return out
}

func valsStr(t byte, vs []val) string {
	if len(vs) == 0 {
		return "-"
	}
	var sb strings.Builder
	for i, v := range vs {
		if i > 0 {
			sb.WriteByte(',')
		}
		sb.WriteString(v.str(t))
	}
	return sb.String()
}

func intsStr(xs []int) string {
	if len(xs) == 0 {
		return "-"
	}
	var sb strings.Builder
	for i, v := range xs {
		if i > 0 {
			sb.WriteByte(',')
		}
		sb.WriteString(strconv.Itoa(v))
	}
	return sb.String()
}

func parseInts(s string) []int {
	if s == "-" {
		return []int{}
	}
	parts := strings.Split(s, ",")
	out := make([]int, len(parts))
	for i, p := range parts {
		n, err := strconv.Atoi(p)
		if err != nil {
			panic("bad int " + p)
		}
		out[i] = n
	}
	return out
}

// ---------------------------------------------------------------- adapters over the five list types

type tl interface {
	add(v val)
	addArr(vs []val)
	addAllFrom(o tl)
	set(i int, v val)
	get(i int) val
	size() int
	toArr() []val
	any() list.AnyList
}

type lst[T any, L any] interface {
	AddAll(L)
	AddAllArray([]T)
	ToArray() []T
	list.AnyList
}

type ad[T any, L lst[T, L]] struct {
	l    L
	to   func(val) T
	from func(T) val
	addf func(L, T)
	setf func(L, int, T)
	getf func(L, int) T
}

func (a *ad[T, L]) add(v val) { a.addf(a.l, a.to(v)) }
func (a *ad[T, L]) addArr(vs []val) {
	xs := make([]T, len(vs))
	for i, v := range vs {
		xs[i] = a.to(v)
	}
	a.l.AddAllArray(xs)
}
func (a *ad[T, L]) addAllFrom(o tl)  { a.l.AddAll(o.(*ad[T, L]).l) }
func (a *ad[T, L]) set(i int, v val) { a.setf(a.l, i, a.to(v)) }
func (a *ad[T, L]) get(i int) val    { return a.from(a.getf(a.l, i)) }
func (a *ad[T, L]) size() int        { return a.l.Size() }
func (a *ad[T, L]) toArr() []val {
	// Sort() of the Long/Float/Double/String lists has an empty body: it must leave the list alone
	if s, ok := any(a.l).(interface{ Sort() }); ok {
		s.Sort()
	}
	xs := a.l.ToArray()
	out := make([]val, len(xs))
	for i, x := range xs {
		out[i] = a.from(x)
	}
	return out
}
func (a *ad[T, L]) any() list.AnyList { return a.l }

func wrapInt(l *list.IntList) tl {
	return &ad[int, *list.IntList]{l: l,
		to: func(v val) int { return int(v.i) }, from: func(x int) val { return val{i: int64(x)} },
		addf: func(l *list.IntList, x int) { l.AddInt(x) }, setf: func(l *list.IntList, i int, x int) { l.SetInt(i, x) },
		getf: func(l *list.IntList, i int) int { return l.GetInt(i) }}
}
func wrapLong(l *list.LongList) tl {
	return &ad[int64, *list.LongList]{l: l,
		to: func(v val) int64 { return v.i }, from: func(x int64) val { return val{i: x} },
		addf: func(l *list.LongList, x int64) { l.AddLong(x) }, setf: func(l *list.LongList, i int, x int64) { l.SetLong(i, x) },
		getf: func(l *list.LongList, i int) int64 { return l.GetLong(i) }}
}
func wrapFloat(l *list.FloatList) tl {
	return &ad[float32, *list.FloatList]{l: l,
		to:   func(v val) float32 { return math.Float32frombits(uint32(v.u)) },
		from: func(x float32) val { return val{u: uint64(math.Float32bits(x))} },
		addf: func(l *list.FloatList, x float32) { l.AddFloat(x) }, setf: func(l *list.FloatList, i int, x float32) { l.SetFloat(i, x) },
		getf: func(l *list.FloatList, i int) float32 { return l.GetFloat(i) }}
}
func wrapDouble(l *list.DoubleList) tl {
	return &ad[float64, *list.DoubleList]{l: l,
		to:   func(v val) float64 { return math.Float64frombits(v.u) },
		from: func(x float64) val { return val{u: math.Float64bits(x)} },
		addf: func(l *list.DoubleList, x float64) { l.AddDouble(x) }, setf: func(l *list.DoubleList, i int, x float64) { l.SetDouble(i, x) },
		getf: func(l *list.DoubleList, i int) float64 { return l.GetDouble(i) }}
}
func wrapString(l *list.StringList) tl {
	return &ad[string, *list.StringList]{l: l,
		to: func(v val) string { return v.s }, from: func(x string) val { return val{s: x} },
		addf: func(l *list.StringList, x string) { l.AddString(x) }, setf: func(l *list.StringList, i int, x string) { l.SetString(i, x) },
		getf: func(l *list.StringList, i int) string { return l.GetString(i) }}
}

// newTL builds a list of type t.  init: "nil" (zero value of the struct), "def"
// (NewXListDefault) or "cap:<n>" (NewXList(n)).
func newTL(t byte, init string) tl {
	capa := -1
	if strings.HasPrefix(init, "cap:") {
		n, err := strconv.Atoi(init[4:])
		if err != nil {
			panic("bad init " + init)
		}
		capa = n
	} else if init != "nil" && init != "def" {
		panic("bad init " + init)
	}
	switch t {
	case 'i':
		switch {
		case init == "nil":
			return wrapInt(new(list.IntList))
		case init == "def":
			return wrapInt(list.NewIntListDefault())
		}
		return wrapInt(list.NewIntList(capa))
	case 'l':
		switch {
		case init == "nil":
			return wrapLong(new(list.LongList))
		case init == "def":
			return wrapLong(list.NewLongListDefault())
		}
		return wrapLong(list.NewLongList(capa))
	case 'f':
		switch {
		case init == "nil":
			return wrapFloat(new(list.FloatList))
		case init == "def":
			return wrapFloat(list.NewFloatListDefault())
		}
		return wrapFloat(list.NewFloatList(capa))
	case 'd':
		switch {
		case init == "nil":
			return wrapDouble(new(list.DoubleList))
		case init == "def":
			return wrapDouble(list.NewDoubleListDefault())
		}
		return wrapDouble(list.NewDoubleList(capa))
	case 's':
		switch {
		case init == "nil":
			return wrapString(new(list.StringList))
		case init == "def":
			return wrapString(list.NewStringListDefault())
		}
		return wrapString(list.NewStringList(capa))
	}
	panic("bad type")
}

// wrapAny wraps a list that came out of the implementation (Filtering, StatGeneralPack).
func wrapAny(a list.AnyList) (tl, byte) {
	switch l := a.(type) {
	case *list.IntList:
		return wrapInt(l), 'i'
	case *list.LongList:
		return wrapLong(l), 'l'
	case *list.FloatList:
		return wrapFloat(l), 'f'
	case *list.DoubleList:
		return wrapDouble(l), 'd'
	case *list.StringList:
		return wrapString(l), 's'
	}
	return nil, '?'
}

func listOf(t byte, vs []val) tl {
	l := newTL(t, "def")
	for _, v := range vs {
		l.add(v)
	}
	return l
}

// ---------------------------------------------------------------- L lines

// execL runs a typed-list history on the implementation; one answer per op.
func execL(t byte, init string, ops []string) []string {
	var l tl
	if o := vh.Guard(func() { l = newTL(t, init) }); !o.OK() {
		return []string{"p"}
	}
	outs := make([]string, 0, len(ops))
	for _, op := range ops {
		f := strings.Split(op, ":")
		res := "u"
		o := vh.Guard(func() {
			switch f[0] {
			case "a":
				l.add(parseVal(t, f[1]))
			case "A":
				l.addArr(parseVals(t, f[1]))
			case "B":
				pad, _ := strconv.Atoi(f[1])
				vs := parseVals(t, f[2])
				other := newTL(t, "cap:"+strconv.Itoa(len(vs)+pad))
				other.addArr(vs)
				l.addAllFrom(other)
			case "S":
				l.addAllFrom(l)
			case "s":
				i, _ := strconv.Atoi(f[1])
				l.set(i, parseVal(t, f[2]))
			case "g":
				i, _ := strconv.Atoi(f[1])
				res = "v" + l.get(i).str(t)
			case "n":
				res = "n" + strconv.Itoa(l.size())
			case "t":
				res = "t" + valsStr(t, l.toArr())
			default:
				panic("bad op " + op)
			}
		})
		if !o.OK() {
			res = "p"
		}
		outs = append(outs, res)
	}
	return outs
}

// ---------------------------------------------------------------- W / R / F lines

func execW(t byte, vs []val) string {
	res := ""
	o := vh.Guard(func() {
		l := listOf(t, vs)
		out := gio.NewDataOutputX()
		l.any().Write(out)
		res = vh.Hex(out.ToByteArray())
	})
	if !o.OK() {
		return "p"
	}
	return res
}

func execR(t byte, bs []byte) string {
	res := ""
	o := vh.Guard(func() {
		l := newTL(t, "def")
		in := gio.NewDataInputX(bs)
		l.any().Read(in)
		res = fmt.Sprintf("ok %s %d", valsStr(t, l.toArr()), in.Available())
	})
	if !o.OK() {
		return "fail"
	}
	return res
}

func execF(t byte, vs []val, idx []int) string {
	res := ""
	o := vh.Guard(func() {
		l := listOf(t, vs)
		out := l.any().Filtering(idx)
		w, wt := wrapAny(out)
		if w == nil || wt != t {
			res = "wrong-type"
			return
		}
		res = "t" + valsStr(t, w.toArr())
	})
	if !o.OK() {
		return "p"
	}
	return res
}

// ---------------------------------------------------------------- sorting

// execSort calls Sorting (ct == '-') or SortingAnyList on lists holding vals / cvals.
func execSort(pt byte, asc bool, ct byte, casc bool, vals, cvals []val) (perm []int, o vh.Outcome) {
	o = vh.Guard(func() {
		p := listOf(pt, vals)
		if ct == '-' {
			perm = p.any().Sorting(asc)
		} else {
			c := listOf(ct, cvals)
			perm = p.any().SortingAnyList(asc, c.any(), casc)
		}
	})
	return
}

// ---------------------------------------------------------------- K lines (LinkedList)

func execK(ops []string) []string {
	l := list.NewLinkedList()
	outs := make([]string, 0, len(ops))
	valStr := func(v interface{}) string {
		if v == nil {
			return "nil"
		}
		return "v" + strconv.FormatInt(v.(int64), 10)
	}
	nth := func(k int) *list.LinkedListEntity {
		e := l.GetFirst()
		for i := 0; i < k; i++ {
			e = l.GetNext(e)
		}
		return e
	}
	for _, op := range ops {
		f := strings.Split(op, ":")
		res := "u"
		o := vh.Guard(func() {
			switch f[0] {
			case "af":
				v, _ := strconv.ParseInt(f[1], 10, 64)
				l.AddFirst(v)
			case "al":
				v, _ := strconv.ParseInt(f[1], 10, 64)
				l.AddLast(v)
			case "ad":
				v, _ := strconv.ParseInt(f[1], 10, 64)
				if !l.Add(v) {
					res = "false"
				}
			case "rf":
				res = valStr(l.RemoveFirst())
			case "rl":
				res = valStr(l.RemoveLast())
			case "rm":
				k, _ := strconv.Atoi(f[1])
				e := nth(k)
				res = valStr(l.Remove(e))
			case "pb":
				k, _ := strconv.Atoi(f[1])
				v, _ := strconv.ParseInt(f[2], 10, 64)
				e := nth(k)
				ne := l.PutBefore(v, e)
				if ne == nil || ne.Value != interface{}(v) {
					res = "bad-entity"
				}
			case "cl":
				l.Clear()
			case "t":
				arr := l.ToArray()
				xs := make([]string, len(arr))
				for i, v := range arr {
					if v == nil {
						xs[i] = "nil"
					} else {
						xs[i] = strconv.FormatInt(v.(int64), 10)
					}
				}
				res = "t" + vh.List(xs)
			case "n":
				res = "n" + strconv.Itoa(l.Size())
			case "gf":
				e := l.GetFirst()
				if e == nil {
					res = "nil"
				} else {
					res = valStr(e.Value)
				}
			case "gl":
				e := l.GetLast()
				if e == nil {
					res = "nil"
				} else {
					res = valStr(e.Value)
				}
			case "ts":
				res = "s" + val{s: l.ToString()}.str('s')
			case "es":
				k, _ := strconv.Atoi(f[1])
				res = "s" + val{s: nth(k).ToString()}.str('s')
			default:
				panic("bad op " + op)
			}
		})
		if !o.OK() {
			res = "p"
		}
		outs = append(outs, res)
	}
	return outs
}
