package main

// The property evaluated directly, without the Lean model: typed lists and the linked list
// against plain Go slices, sort results against an independently written ordering check.

import (
	"math"
	"sort"
	"strconv"
	"strings"
)

// specL: a typed-list history on a plain slice.
func specL(t byte, ops []string) []string {
	s := []val{}
	outs := make([]string, 0, len(ops))
	for _, op := range ops {
		f := strings.Split(op, ":")
		res := "u"
		switch f[0] {
		case "a":
			s = append(s, parseVal(t, f[1]))
		case "A":
			s = append(s, parseVals(t, f[1])...)
		case "B":
			s = append(s, parseVals(t, f[2])...)
		case "S":
			s = append(s, append([]val{}, s...)...)
		case "s":
			i, _ := strconv.Atoi(f[1])
			if i < 0 || i >= len(s) {
				res = "p"
			} else {
				s[i] = parseVal(t, f[2])
			}
		case "g":
			i, _ := strconv.Atoi(f[1])
			if i < 0 || i >= len(s) {
				res = "p"
			} else {
				res = "v" + s[i].str(t)
			}
		case "n":
			res = "n" + strconv.Itoa(len(s))
		case "t":
			res = "t" + valsStr(t, s)
		}
		outs = append(outs, res)
	}
	return outs
}

func specF(t byte, vs []val, idx []int) string {
	out := make([]val, 0, len(idx))
	for _, i := range idx {
		if i < 0 || i >= len(vs) {
			return "p"
		}
		out = append(out, vs[i])
	}
	return "t" + valsStr(t, out)
}

// specK: the linked list as a deque on a slice.
func specK(ops []string) []string {
	s := []int64{}
	outs := make([]string, 0, len(ops))
	for _, op := range ops {
		f := strings.Split(op, ":")
		res := "u"
		switch f[0] {
		case "af":
			v, _ := strconv.ParseInt(f[1], 10, 64)
			s = append([]int64{v}, s...)
		case "al", "ad":
			v, _ := strconv.ParseInt(f[1], 10, 64)
			s = append(s, v)
		case "rf":
			if len(s) == 0 {
				res = "nil"
			} else {
				res = "v" + strconv.FormatInt(s[0], 10)
				s = s[1:]
			}
		case "rl":
			if len(s) == 0 {
				res = "nil"
			} else {
				res = "v" + strconv.FormatInt(s[len(s)-1], 10)
				s = s[:len(s)-1]
			}
		case "rm":
			k, _ := strconv.Atoi(f[1])
			if k >= len(s) {
				res = "p"
			} else {
				res = "v" + strconv.FormatInt(s[k], 10)
				s = append(append([]int64{}, s[:k]...), s[k+1:]...)
			}
		case "pb":
			k, _ := strconv.Atoi(f[1])
			v, _ := strconv.ParseInt(f[2], 10, 64)
			if k >= len(s) {
				res = "p"
			} else {
				n := append(append([]int64{}, s[:k]...), v)
				s = append(n, s[k:]...)
			}
		case "cl":
			s = []int64{}
		case "t":
			xs := make([]string, len(s))
			for i, v := range s {
				xs[i] = strconv.FormatInt(v, 10)
			}
			if len(xs) == 0 {
				res = "t-"
			} else {
				res = "t" + strings.Join(xs, ",")
			}
		case "n":
			res = "n" + strconv.Itoa(len(s))
		case "gf":
			if len(s) == 0 {
				res = "nil"
			} else {
				res = "v" + strconv.FormatInt(s[0], 10)
			}
		case "gl":
			if len(s) == 0 {
				res = "nil"
			} else {
				res = "v" + strconv.FormatInt(s[len(s)-1], 10)
			}
		case "ts": // the elements in decimal, comma separated
			var b strings.Builder
			for i, v := range s {
				if i > 0 {
					b.WriteByte(',')
				}
				b.WriteString(fmtDec(v))
			}
			res = "s" + val{s: b.String()}.str('s')
		case "es":
			k, _ := strconv.Atoi(f[1])
			if k >= len(s) {
				res = "p" // ToString of a nil entity
			} else {
				res = "s" + val{s: fmtDec(s[k])}.str('s')
			}
		}
		outs = append(outs, res)
	}
	return outs
}

// ---------------------------------------------------------------- ordering

// cmpVal: three-way comparison of two values of element type t, written independently of
// the repository's compare package: integers exactly, floats as IEEE values, strings bytewise.
// viaDouble makes integer values compare after conversion to float64 (the behaviour of
// CompareChild before fix-D43) — used only to classify a failure.
func cmpVal(t byte, a, b val, viaDouble bool) int {
	switch t {
	case 'i', 'l':
		if viaDouble {
			x, y := float64(a.i), float64(b.i)
			switch {
			case x < y:
				return -1
			case x > y:
				return 1
			}
			return 0
		}
		switch {
		case a.i < b.i:
			return -1
		case a.i > b.i:
			return 1
		}
		return 0
	case 'f':
		x, y := math.Float32frombits(uint32(a.u)), math.Float32frombits(uint32(b.u))
		switch {
		case x < y:
			return -1
		case x > y:
			return 1
		}
		return 0
	case 'd':
		x, y := math.Float64frombits(a.u), math.Float64frombits(b.u)
		switch {
		case x < y:
			return -1
		case x > y:
			return 1
		}
		return 0
	default:
		return strings.Compare(a.s, b.s)
	}
}

func isPerm(perm []int, n int) bool {
	if len(perm) != n {
		return false
	}
	seen := make([]bool, n)
	for _, p := range perm {
		if p < 0 || p >= n || seen[p] {
			return false
		}
		seen[p] = true
	}
	return true
}

// ordered: along perm the primary values are non-decreasing (asc) / non-increasing (desc)
// and, inside every run of equal primary values, the child values are ordered as requested.
// Returns the first offending position or -1.
func ordered(perm []int, pt byte, asc bool, ct byte, casc bool, vals, cvals []val, viaDouble bool) int {
	for k := 0; k+1 < len(perm); k++ {
		a, b := perm[k], perm[k+1]
		c := cmpVal(pt, vals[a], vals[b], false)
		if !asc {
			c = -c
		}
		if c > 0 {
			return k
		}
		if c == 0 && ct != '-' {
			cc := cmpVal(ct, cvals[a], cvals[b], viaDouble)
			if !casc {
				cc = -cc
			}
			if cc > 0 {
				return k
			}
		}
	}
	return -1
}

// canon: representative of a value's order-equivalence class (-0 and +0 coincide).
func canon(t byte, v val) string {
	switch t {
	case 'f':
		if v.u == 0x80000000 {
			return "0"
		}
	case 'd':
		if v.u == 0x8000000000000000 {
			return "0"
		}
	}
	return v.str(t)
}

// keySeq: the sequence of (primary, child) classes along perm — the same for every
// permutation that orders the values.
func keySeq(perm []int, pt byte, ct byte, vals, cvals []val) string {
	var sb strings.Builder
	for _, p := range perm {
		if p < 0 || p >= len(vals) {
			sb.WriteString("?;")
			continue
		}
		sb.WriteString(canon(pt, vals[p]))
		if ct != '-' {
			sb.WriteByte('/')
			sb.WriteString(canon(ct, cvals[p]))
		}
		sb.WriteByte(';')
	}
	return sb.String()
}

// refSort: an ordering permutation computed with the standard library (stable sort, strict less).
func refSort(pt byte, asc bool, ct byte, casc bool, vals, cvals []val) []int {
	perm := make([]int, len(vals))
	for i := range perm {
		perm[i] = i
	}
	sort.SliceStable(perm, func(x, y int) bool {
		a, b := perm[x], perm[y]
		c := cmpVal(pt, vals[a], vals[b], false)
		if !asc {
			c = -c
		}
		if c != 0 {
			return c < 0
		}
		if ct == '-' {
			return false
		}
		cc := cmpVal(ct, cvals[a], cvals[b], false)
		if !casc {
			cc = -cc
		}
		return cc < 0
	})
	return perm
}
