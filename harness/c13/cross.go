package main

// C cases: the cross-type convenience methods between integers and decimal text.
//
//   C <t> <init> <ops>   t = i | l | s
//   ops: aI:<int> aS:<str> sI:<i>:<int> sS:<i>:<str> gI:<i> gS:<i> t
//   IntList : AddInt AddString SetInt SetString GetInt GetString     LongList: the …Long methods
//   StringList : AddInt (or AddLong) AddString SetInt SetString GetInt (or GetLong) GetString

import (
	"strconv"
	"strings"

	"github.com/whatap/golib/util/list"
	"verif/harness/vh"
)

func mkAny(t byte, init string) list.AnyList { return newTL(t, init).any() }

func execC(t byte, init string, ops []string) []string {
	var l list.AnyList
	if o := vh.Guard(func() { l = mkAny(t, init) }); !o.OK() {
		return []string{"p"}
	}
	outs := make([]string, 0, len(ops))
	for k, op := range ops {
		f := strings.Split(op, ":")
		res := "u"
		long := t == 'l' || (t == 's' && k%2 == 1) // StringList: alternate the Int and Long flavours
		o := vh.Guard(func() {
			switch f[0] {
			case "aI":
				v, _ := strconv.ParseInt(f[1], 10, 64)
				if long {
					l.AddLong(v)
				} else {
					l.AddInt(int(v))
				}
			case "aS":
				l.AddString(parseVal('s', f[1]).s)
			case "sI":
				v, _ := strconv.ParseInt(f[2], 10, 64)
				if long {
					l.SetLong(atoi(f[1]), v)
				} else {
					l.SetInt(atoi(f[1]), int(v))
				}
			case "sS":
				l.SetString(atoi(f[1]), parseVal('s', f[2]).s)
			case "gI":
				if long {
					res = "v" + strconv.FormatInt(l.GetLong(atoi(f[1])), 10)
				} else {
					res = "v" + strconv.Itoa(l.GetInt(atoi(f[1])))
				}
			case "gS":
				res = "v" + val{s: l.GetString(atoi(f[1]))}.str('s')
			case "t":
				w, wt := wrapAny(l)
				res = "t" + valsStr(wt, w.toArr())
			case "P":
				res = "v" + val{s: l.(interface{ ToString() string }).ToString()}.str('s')
			case "gV":
				res = valueStr(l.GetValue(atoi(f[1])))
			case "gO":
				if l.GetObject(atoi(f[1])) == nil {
					res = "nil"
				} else {
					res = "not-nil"
				}
			default:
				panic("bad op " + op)
			}
		})
		if !o.OK() {
			res = "p"
		}
		outs = append(outs, res)
	}
	return outs
}

// parseDec: decimal text of an int64, written without strconv: optional sign, digits only,
// at least one digit, value within int64.
func parseDec(s string) (int64, bool) {
	neg := false
	if len(s) > 0 && (s[0] == '-' || s[0] == '+') {
		neg = s[0] == '-'
		s = s[1:]
	}
	if len(s) == 0 {
		return 0, false
	}
	var n uint64
	for i := 0; i < len(s); i++ {
		d := s[i]
		if d < '0' || d > '9' {
			return 0, false
		}
		if n > (1<<63)/10+1 {
			return 0, false
		}
		n = n*10 + uint64(d-'0')
		if n > 1<<63 {
			return 0, false
		}
	}
	if neg {
		return -int64(n), true // n ≤ 2^63: -2^63 representable
	}
	if n > 1<<63-1 {
		return 0, false
	}
	return int64(n), true
}

func fmtDec(v int64) string {
	if v == 0 {
		return "0"
	}
	neg := v < 0
	u := uint64(v)
	if neg {
		u = -u
	}
	var b []byte
	for u > 0 {
		b = append([]byte{byte('0' + u%10)}, b...)
		u /= 10
	}
	if neg {
		b = append([]byte{'-'}, b...)
	}
	return string(b)
}

func specC(t byte, ops []string) []string {
	var ints []int64
	var strs []string
	isS := t == 's'
	n := func() int {
		if isS {
			return len(strs)
		}
		return len(ints)
	}
	outs := make([]string, 0, len(ops))
	for _, op := range ops {
		f := strings.Split(op, ":")
		res := "u"
		switch f[0] {
		case "aI":
			v, _ := strconv.ParseInt(f[1], 10, 64)
			if isS {
				strs = append(strs, fmtDec(v))
			} else {
				ints = append(ints, v)
			}
		case "aS":
			s := parseVal('s', f[1]).s
			if isS {
				strs = append(strs, s)
			} else if v, ok := parseDec(s); ok {
				ints = append(ints, v)
			} else {
				res = "p"
			}
		case "sI":
			i := atoi(f[1])
			v, _ := strconv.ParseInt(f[2], 10, 64)
			if i < 0 || i >= n() {
				res = "p"
			} else if isS {
				strs[i] = fmtDec(v)
			} else {
				ints[i] = v
			}
		case "sS":
			i := atoi(f[1])
			s := parseVal('s', f[2]).s
			if isS {
				if i < 0 || i >= n() {
					res = "p"
				} else {
					strs[i] = s
				}
			} else if v, ok := parseDec(s); !ok || i < 0 || i >= n() {
				res = "p"
			} else {
				ints[i] = v
			}
		case "gI":
			i := atoi(f[1])
			if i < 0 || i >= n() {
				res = "p"
			} else if isS {
				if v, ok := parseDec(strs[i]); ok {
					res = "v" + fmtDec(v)
				} else {
					res = "p"
				}
			} else {
				res = "v" + fmtDec(ints[i])
			}
		case "gS":
			i := atoi(f[1])
			if i < 0 || i >= n() {
				res = "p"
			} else if isS {
				res = "v" + val{s: strs[i]}.str('s')
			} else {
				res = "v" + val{s: fmtDec(ints[i])}.str('s')
			}
		case "P":
			res = "?" // the table with its unused capacity: compared with the model only
		case "gO":
			res = "nil"
		case "gV":
			i := atoi(f[1])
			if i < 0 || i >= n() {
				res = "p"
			} else if isS {
				res = "Vtext:" + val{s: strs[i]}.str('s')
			} else {
				res = "Vdecimal:" + fmtDec(ints[i])
			}
		case "t":
			if isS {
				vs := make([]val, len(strs))
				for i, s := range strs {
					vs[i] = val{s: s}
				}
				res = "t" + valsStr('s', vs)
			} else {
				vs := make([]val, len(ints))
				for i, v := range ints {
					vs[i] = val{i: v}
				}
				res = "t" + valsStr('i', vs)
			}
		}
		outs = append(outs, res)
	}
	return outs
}

var numTexts = []string{"", "+", "-", "0", "-0", "+0", "+5", "007", "-007", "12a", "1_0", " 1", "1 ", "1e3", "0x10", "٣",
	"9223372036854775807", "9223372036854775808", "-9223372036854775808", "-9223372036854775809",
	"99999999999999999999", "18446744073709551616", "--1", "+-1", "1.0", "\x001", "１"}

func genC(r *vh.Rng) string {
	t := []byte{'i', 'l', 's'}[r.Intn(3)]
	var ops []string
	size := 0
	n := 6 + r.Intn(30)
	txt := func() string {
		if r.Chance(45) {
			return val{s: r.PickStr(numTexts)}.str('s')
		}
		return val{s: strconv.FormatInt(genVal(r, 'l').i, 10)}.str('s')
	}
	for len(ops) < n {
		switch x := r.Intn(100); {
		case x < 20:
			ops = append(ops, "aI:"+strconv.FormatInt(genVal(r, 'l').i, 10))
			size++
		case x < 45:
			ops = append(ops, "aS:"+txt())
			size++ // may not grow (parse error) — only used to aim indices
		case x < 55:
			ops = append(ops, "sI:"+strconv.Itoa(idxNear(r, size))+":"+strconv.FormatInt(genVal(r, 'l').i, 10))
		case x < 67:
			ops = append(ops, "sS:"+strconv.Itoa(idxNear(r, size))+":"+txt())
		case x < 70:
			ops = append(ops, "P")
		case x < 73:
			ops = append(ops, "gV:"+strconv.Itoa(idxNear(r, size)))
		case x < 74:
			ops = append(ops, "gO:"+strconv.Itoa(idxNear(r, size)))
		case x < 80:
			ops = append(ops, "gI:"+strconv.Itoa(idxNear(r, size)))
		case x < 95:
			ops = append(ops, "gS:"+strconv.Itoa(idxNear(r, size)))
		default:
			ops = append(ops, "t")
		}
	}
	ops = append(ops, "t")
	return "C " + string(t) + " " + genInit(r) + " " + strings.Join(ops, ";")
}
