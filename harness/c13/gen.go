package main

// Generators.  Every random choice derives from the one seeded Rng.

import (
	"fmt"
	"math"
	"strconv"
	"strings"

	"verif/harness/vh"
)

var types = []byte{'i', 'l', 'f', 'd', 's'}

var intPool = append([]int64{
	1 << 53, 1<<53 + 1, 1<<53 + 2, 1<<53 - 1, -(1 << 53), -(1 << 53) - 1, -(1 << 53) - 2,
	math.MaxInt64, math.MaxInt64 - 1, math.MinInt64, math.MinInt64 + 1, 1 << 62, 1<<62 + 1,
}, vh.SignedBoundaries()...)

var f32Pool = []uint64{0, 0x80000000, 0x3f800000, 0xbf800000, 0x7f800000, 0xff800000, 1, 0x80000001,
	0x7f7fffff, 0xff7fffff, 0x00800000, 0x3f800001, 0x40490fdb, 0x4b800000, 0x5f000000}
var f64Pool = []uint64{0, 0x8000000000000000, 0x3ff0000000000000, 0xbff0000000000000, 0x7ff0000000000000,
	0xfff0000000000000, 1, 0x8000000000000001, 0x7fefffffffffffff, 0xffefffffffffffff, 0x0010000000000000,
	0x3ff0000000000001, 0x400921fb54442d18, 0x4340000000000000, 0x4340000000000001, 0x43e0000000000000}
var strPool = []string{"", "a", "ab", "abc", "b", "A", "a\x00", "\x00", "\xff", "\xfe\xff", "z", "aa", "é", "한글", " ", "10", "9", "-1"}

func genVal(r *vh.Rng, t byte) val {
	switch t {
	case 'i', 'l':
		switch {
		case r.Chance(35):
			return val{i: r.Pick64(intPool)}
		case r.Chance(50):
			return val{i: r.Range(-5, 5)}
		}
		return val{i: r.I64()}
	case 'f':
		if r.Chance(50) {
			return val{u: f32Pool[r.Intn(len(f32Pool))]}
		}
		b := r.U64() & 0xffffffff
		if b&0x7f800000 == 0x7f800000 { // no NaN (the property's quantifier excludes them)
			b &^= 0x007fffff
		}
		return val{u: b}
	case 'd':
		if r.Chance(50) {
			return val{u: f64Pool[r.Intn(len(f64Pool))]}
		}
		b := r.U64()
		if b&0x7ff0000000000000 == 0x7ff0000000000000 {
			b &^= 0x000fffffffffffff
		}
		return val{u: b}
	default:
		switch {
		case r.Chance(70):
			return val{s: r.PickStr(strPool)}
		case r.Chance(10):
			return val{s: strings.Repeat("k", r.PickInt([]int{252, 253, 254, 255, 256, 300}))}
		}
		return val{s: string(r.Bytes(r.Intn(6)))}
	}
}

// genVals draws n values from a pool of k distinct ones (duplicates are the point for sorting).
func genVals(r *vh.Rng, t byte, n, k int) []val {
	if k < 1 {
		k = 1
	}
	pool := make([]val, k)
	for i := range pool {
		pool[i] = genVal(r, t)
	}
	out := make([]val, n)
	for i := range out {
		out[i] = pool[r.Intn(k)]
	}
	return out
}

var caps = []int{0, 0, 1, 2, 3, 9, 10, 11, 15, 100, 1000}

func genInit(r *vh.Rng) string {
	switch {
	case r.Chance(20):
		return "nil"
	case r.Chance(30):
		return "def"
	case r.Chance(10):
		return "cap:" + strconv.Itoa(r.Intn(6000))
	}
	return "cap:" + strconv.Itoa(r.PickInt(caps))
}

func idxNear(r *vh.Rng, size int) int {
	switch {
	case size > 0 && r.Chance(70):
		return r.Intn(size)
	case r.Chance(25):
		return size
	case r.Chance(25):
		return size + 1 + r.Intn(4)
	case r.Chance(25):
		return -1 - r.Intn(3)
	case r.Chance(50):
		return size*2 + 7
	}
	if size > 0 {
		return size - 1
	}
	return 0
}

// genL: one typed-list history whose list grows to about `target` elements (and not beyond
// 2*target+50: past the target the growing ops give way to get/set/size).
func genL(r *vh.Rng, target int) string {
	t := types[r.Intn(len(types))]
	init := genInit(r)
	var ops []string
	size := 0
	budget := target + 20 + r.Intn(30)
	if budget > 900 {
		budget = 900 + r.Intn(300)
	}
	short := target > 300 // long histories: no 300-byte strings
	gv := func() val {
		v := genVal(r, t)
		if short && len(v.s) > 8 {
			v.s = v.s[:2]
		}
		return v
	}
	gvs := func(n int) []val {
		out := genVals(r, t, n, n+1)
		if short {
			for i := range out {
				if len(out[i].s) > 8 {
					out[i].s = out[i].s[:2]
				}
			}
		}
		return out
	}
	for len(ops) < budget {
		var op string
		x := r.Intn(100)
		if size >= 2*target+10 && x < 80 {
			x = 80 + r.Intn(20)
		}
		switch {
		case x < 45:
			op = "a:" + gv().str(t)
			size++
		case x < 74:
			n := r.PickInt([]int{0, 1, 2, 3, 9, 10, 11, 12, 25})
			if target > 200 && r.Chance(40) {
				n = 20 + r.Intn(target/12+1)
			}
			op = "A:" + valsStr(t, gvs(n))
			size += n
		case x < 78:
			n := r.PickInt([]int{0, 1, 5, 10, 11, 12, 40})
			op = "B:" + strconv.Itoa(r.Intn(5)) + ":" + valsStr(t, gvs(n))
			size += n
		case x < 80:
			if size > 2600 {
				continue
			}
			op = "S"
			size *= 2
		case x < 87:
			op = "s:" + strconv.Itoa(idxNear(r, size)) + ":" + gv().str(t)
		case x < 96:
			op = "g:" + strconv.Itoa(idxNear(r, size))
		case x < 98:
			op = "n"
		default:
			if size > 300 && !r.Chance(3) {
				op = "n"
			} else {
				op = "t"
			}
		}
		ops = append(ops, op)
	}
	ops = append(ops, "n", "t")
	return fmt.Sprintf("L %c %s %s", t, init, strings.Join(ops, ";"))
}

func genW(r *vh.Rng, n int) string {
	t := types[r.Intn(len(types))]
	return fmt.Sprintf("W %c %s", t, valsStr(t, genVals(r, t, n, n+1)))
}

func genF(r *vh.Rng) string {
	t := types[r.Intn(len(types))]
	n := r.PickInt([]int{0, 1, 2, 5, 20, 200})
	vs := genVals(r, t, n, n+1)
	m := r.PickInt([]int{0, 1, 2, 3, 10, 50, 400})
	idx := make([]int, m)
	bad := r.Chance(35)
	for i := range idx {
		if n > 0 {
			idx[i] = r.Intn(n)
		}
		if (bad && r.Chance(20)) || n == 0 {
			idx[i] = r.PickInt([]int{-1, n, n + 1, n + 100, -7})
		}
	}
	return fmt.Sprintf("F %c %s %s", t, valsStr(t, vs), intsStr(idx))
}

func sortN(r *vh.Rng, big int) int {
	x := r.Intn(100)
	switch {
	case x < 15:
		return r.Intn(4)
	case x < 45:
		return 2 + r.Intn(11) // insertion-sort range of pdqsort
	case x < 70:
		return 13 + r.Intn(40)
	case x < 92:
		return 50 + r.Intn(300)
	}
	return 300 + r.Intn(big)
}

func genM(r *vh.Rng, big int) string {
	pt := types[r.Intn(len(types))]
	n := sortN(r, big)
	k := r.PickInt([]int{1, 2, 3, 5, n/2 + 1, n + 1})
	vals := genVals(r, pt, n, k)
	asc := r.Bool()
	if r.Chance(30) {
		return fmt.Sprintf("M %c %s - 1 %s -", pt, b2s(asc), valsStr(pt, vals))
	}
	ct := types[r.Intn(len(types))]
	kc := r.PickInt([]int{1, 2, 3, n/2 + 1, n + 1})
	cvals := genVals(r, ct, n, kc)
	if (ct == 'i' || ct == 'l') && r.Chance(40) { // neighbours above 2^53 (D43)
		base := r.Pick64([]int64{1 << 53, 1 << 60, -(1 << 53) - 8, math.MaxInt64 - 8})
		for i := range cvals {
			cvals[i] = val{i: base + int64(r.Intn(4))}
		}
	}
	return fmt.Sprintf("M %c %s %c %s %s %s", pt, b2s(asc), ct, b2s(r.Bool()), valsStr(pt, vals), valsStr(ct, cvals))
}

func genK(r *vh.Rng, length int, textViews bool) string {
	var ops []string
	size := 0
	for len(ops) < length {
		x := r.Intn(100)
		var op string
		v := strconv.FormatInt(r.Range(-3, 40), 10)
		switch {
		case x < 18:
			op = "af:" + v
			size++
		case x < 36:
			op = "al:" + v
			size++
		case x < 44:
			op = "ad:" + v
			size++
		case x < 54:
			op = "rf"
			if size > 0 {
				size--
			}
		case x < 64:
			op = "rl"
			if size > 0 {
				size--
			}
		case x < 74:
			if size == 0 {
				continue
			}
			op = "rm:" + strconv.Itoa(r.PickInt([]int{0, size - 1, r.Intn(size)}))
			size--
		case x < 82:
			if size == 0 {
				continue
			}
			op = "pb:" + strconv.Itoa(r.PickInt([]int{0, size - 1, r.Intn(size)})) + ":" + v
			size++
		case x < 84:
			op = "cl"
			size = 0
		case x < 90:
			if size > 200 && !r.Chance(10) {
				op = "n"
			} else {
				op = "t"
			}
		case x < 94:
			op = "n"
		case x < 97:
			op = "gf"
		default:
			op = "gl"
		}
		ops = append(ops, op)
	}
	ops = append(ops, "n", "t")
	if textViews {
		// the text views: ToString of the list, ToString of an entity (also the one past the end: nil)
		if size <= 300 {
			ops = append(ops, "ts")
		}
		k := r.PickInt([]int{0, size / 2, size - 1, size})
		if k < 0 {
			k = 0
		}
		ops = append(ops, "es:"+strconv.Itoa(k))
		if size > 0 {
			ops = append(ops, "rf", "ts")
		}
	}
	return "K " + strings.Join(ops, ";")
}

func genP(r *vh.Rng) string {
	ncol := 1 + r.Intn(4)
	n := r.PickInt([]int{0, 1, 2, 3, 8, 13, 40, 200})
	var cols []string
	ts := make([]byte, ncol)
	for i := 0; i < ncol; i++ {
		t := types[r.Intn(len(types))]
		ts[i] = t
		k := r.PickInt([]int{1, 2, 3, n + 1})
		cols = append(cols, string(t)+"="+valsStr(t, genVals(r, t, n, k)))
	}
	spec := "-"
	switch {
	case r.Chance(35):
		spec = fmt.Sprintf("%d,%s", r.Intn(ncol), b2s(r.Bool()))
	case r.Chance(50):
		spec = fmt.Sprintf("%d,%s,%d,%s", r.Intn(ncol), b2s(r.Bool()), r.Intn(ncol), b2s(r.Bool()))
	}
	return "P " + spec + " " + strings.Join(cols, "|")
}

func generate(r *vh.Rng, thorough bool, rep *vh.Report) []*kase {
	mult := 1
	if thorough {
		mult = 30
	}
	var lines []string
	// typed-list histories: many short ones, some across every growth step up to 5000 elements
	for i := 0; i < 1200*mult; i++ {
		lines = append(lines, genL(r, r.PickInt([]int{0, 1, 3, 10, 12, 30})))
	}
	for i := 0; i < 300*mult; i++ {
		lines = append(lines, genL(r, 40+r.Intn(400)))
	}
	for i := 0; i < 60*mult; i++ {
		lines = append(lines, genL(r, 1000+r.Intn(4200)))
	}
	for i := 0; i < 3000*mult; i++ {
		lines = append(lines, genX(r))
	}
	for i := 0; i < 1500*mult; i++ {
		lines = append(lines, genC(r))
	}
	for i := 0; i < 1500*mult; i++ {
		lines = append(lines, genT(r))
	}
	for i := 0; i < 1500*mult; i++ {
		lines = append(lines, genN(r))
	}
	for i := 0; i < 2000*mult; i++ {
		lines = append(lines, genH(r))
	}
	for i := 0; i < 500*mult; i++ {
		lines = append(lines, genW(r, r.PickInt([]int{0, 1, 2, 3, 10, 50})))
	}
	for i := 0; i < 12*mult; i++ {
		lines = append(lines, genW(r, 1000+r.Intn(4200)))
	}
	for i := 0; i < 600*mult; i++ {
		lines = append(lines, genF(r))
	}
	for i := 0; i < 2000*mult; i++ {
		lines = append(lines, genM(r, 700))
	}
	for i := 0; i < 30*mult; i++ {
		lines = append(lines, genM(r, 4700))
	}
	for i := 0; i < 800*mult; i++ {
		lines = append(lines, genK(r, r.PickInt([]int{0, 2, 5, 20, 60}), false))
	}
	for i := 0; i < 40*mult; i++ {
		lines = append(lines, genK(r, 500+r.Intn(3000), false))
	}
	for i := 0; i < 400*mult; i++ {
		lines = append(lines, genP(r))
	}
	for i := 0; i < 1500*mult; i++ {
		lines = append(lines, genS(r))
	}
	// round 7 (API coverage): float <-> text methods, text views of the linked list; appended so that the
	// cases above stay what they were for a given seed
	for i := 0; i < 1500*mult; i++ {
		lines = append(lines, genG(r))
	}
	for i := 0; i < 300*mult; i++ {
		lines = append(lines, genK(r, r.PickInt([]int{0, 1, 2, 5, 20, 60, 400}), true))
	}
	lines = append(lines, genQ(thorough)...)
	cases := make([]*kase, len(lines))
	sampled := map[byte]int{}
	for i, l := range lines {
		cases[i] = &kase{line: l, kind: l[0]}
		if sampled[l[0]] < 1 || (l[0] == 'M' && sampled['M'] < 2 && strings.Count(l, ",") > 6) {
			sampled[l[0]]++
			rep.Sample(vh.Clip(l, 300))
		}
	}
	return cases
}
