package main

// X cases: histories over SEVERAL live objects — a pool of 4 lists of one type and 3 Go slices
// that are handed in (AddAllArray) and out (ToArray) — to see shared storage.  After every
// operation ALL live objects are rendered and compared with the model and the oracle, in both of
// which lists and slices are values (no aliasing is the specification; C13.no_aliasing_*).
//
//   X <t> <ops>   ops: N:<j>:<init>  a:<j>:<v>  A:<j>:<k>  B:<j>:<k>  s:<j>:<i>:<v>  g:<j>:<i>
//                      T:<j>:<k>  R:<k>:<list>  w:<k>:<i>:<v>  F:<dst>:<src>:<idx>
//                      b:<j>:<v> / e:<j>:<i>:<v>   add / set through an ALIAS method of the AnyList interface
//                                                  (AddLong/SetLong on an IntList, SetInt or SetString(decimal) on a
//                                                  LongList, SetDouble on a FloatList, SetFloat on a DoubleList when exact)
//                      Z:<j>:<asc>                 Sorting(asc)  → z<values along the result>; the result is then overwritten
//                      Y:<j>:<asc>:<k>:<casc>      SortingAnyList(asc, list k, casc) → y<value/child …>
//                      D:<j>:<k>                   list j .Read(bytes of list k .Write())  — decode into a receiver in any state
// Every query (Z, Y, F, T, g) is a function of the CURRENT contents: the generator repeats the same
// query with the same arguments around in-place Sets (memoised results must not survive a mutation).
//   answer per op: <u|p|v..>#<list0>|…|<list3>|<slice0>|<slice1>|<slice2>

import (
	"math"
	"strconv"
	"strings"

	gio "github.com/whatap/golib/io"
	"github.com/whatap/golib/util/list"
	"verif/harness/vh"
)

const nLists, nArrs = 4, 3

type xpool interface {
	exec(f []string) string // result token; panics propagate
	snapshot() string
}

type pool[T any, L lst[T, L]] struct {
	t     byte
	lists [nLists]*ad[T, L]
	arrs  [nArrs][]T // the very slices handed to / received from the implementation
}

func newPool[T any, L lst[T, L]](t byte) *pool[T, L] {
	p := &pool[T, L]{t: t}
	for j := range p.lists {
		p.lists[j] = newTL(t, "nil").(*ad[T, L])
	}
	return p
}

func poolOf(t byte) xpool {
	switch t {
	case 'i':
		return newPool[int, *list.IntList](t)
	case 'l':
		return newPool[int64, *list.LongList](t)
	case 'f':
		return newPool[float32, *list.FloatList](t)
	case 'd':
		return newPool[float64, *list.DoubleList](t)
	}
	return newPool[string, *list.StringList](t)
}

func atoi(s string) int { n, _ := strconv.Atoi(s); return n }

func (p *pool[T, L]) exec(f []string) string {
	switch f[0] {
	case "N":
		p.lists[atoi(f[1])] = newTL(p.t, strings.Join(f[2:], ":")).(*ad[T, L])
	case "a":
		p.lists[atoi(f[1])].add(parseVal(p.t, f[2]))
	case "A":
		p.lists[atoi(f[1])].l.AddAllArray(p.arrs[atoi(f[2])]) // the caller's slice itself
	case "B":
		p.lists[atoi(f[1])].l.AddAll(p.lists[atoi(f[2])].l)
	case "s":
		p.lists[atoi(f[1])].set(atoi(f[2]), parseVal(p.t, f[3]))
	case "g":
		return "v" + p.lists[atoi(f[1])].get(atoi(f[2])).str(p.t)
	case "T":
		p.arrs[atoi(f[2])] = p.lists[atoi(f[1])].l.ToArray() // keep the returned slice
	case "R":
		vs := parseVals(p.t, f[2])
		a := make([]T, len(vs))
		for i, v := range vs {
			a[i] = p.lists[0].to(v)
		}
		p.arrs[atoi(f[1])] = a
	case "w":
		k, i := atoi(f[1]), atoi(f[2])
		if i >= len(p.arrs[k]) {
			return "p"
		}
		p.arrs[k][i] = p.lists[0].to(parseVal(p.t, f[3]))
	case "F":
		out := p.lists[atoi(f[2])].l.Filtering(parseInts(f[3]))
		l, ok := any(out).(L)
		if !ok {
			return "wrong-type"
		}
		w := *p.lists[0]
		w.l = l
		p.lists[atoi(f[1])] = &w
	case "b", "e":
		p.alias(f)
	case "D":
		out := gio.NewDataOutputX()
		p.lists[atoi(f[2])].l.Write(out)
		p.lists[atoi(f[1])].l.Read(gio.NewDataInputX(out.ToByteArray()))
	case "Z":
		asc := len(f) < 3 || parseBool(f[2])
		l := p.lists[atoi(f[1])]
		perm := l.l.Sorting(asc)
		vs := l.toArr()
		res := "bad-perm"
		if isPerm(perm, len(vs)) {
			parts := make([]string, len(perm))
			for i, x := range perm {
				parts[i] = canon(p.t, vs[x])
			}
			res = "z" + vh.List(parts)
		}
		for i := range perm {
			perm[i] = 77 // the caller owns the result
		}
		if len(f) < 3 {
			return "u"
		}
		return res
	case "Y":
		l, c := p.lists[atoi(f[1])], p.lists[atoi(f[3])]
		perm := l.l.SortingAnyList(parseBool(f[2]), c.l, parseBool(f[4]))
		vs, cs := l.toArr(), c.toArr()
		res := "bad-perm"
		if isPerm(perm, len(vs)) {
			parts := make([]string, len(perm))
			for i, x := range perm {
				cv := "?"
				if x < len(cs) {
					cv = canon(p.t, cs[x])
				}
				parts[i] = canon(p.t, vs[x]) + "/" + cv
			}
			res = "y" + vh.List(parts)
		}
		for i := range perm {
			perm[i] = 77
		}
		return res
	default:
		panic("bad op " + f[0])
	}
	return "u"
}

// alias: the same element operation through another method of the AnyList interface.
func (p *pool[T, L]) alias(f []string) {
	var a list.AnyList = p.lists[atoi(f[1])].l
	add := f[0] == "b"
	var v val
	i := 0
	if add {
		v = parseVal(p.t, f[2])
	} else {
		i = atoi(f[2])
		v = parseVal(p.t, f[3])
	}
	switch p.t {
	case 'i':
		switch {
		case add:
			a.AddLong(v.i)
		case (i+len(f[3]))%2 == 0:
			a.SetLong(i, v.i)
		default:
			a.SetString(i, strconv.FormatInt(v.i, 10))
		}
	case 'l':
		switch {
		case add:
			a.AddInt(int(v.i))
		case (i+len(f[3]))%2 == 0:
			a.SetInt(i, int(v.i))
		default:
			a.SetString(i, strconv.FormatInt(v.i, 10))
		}
	case 'f':
		x := float64(math.Float32frombits(uint32(v.u)))
		if add {
			a.AddDouble(x)
		} else {
			a.SetDouble(i, x)
		}
	case 'd':
		x := math.Float64frombits(v.u)
		y := float32(x)
		exact := float64(y) == x && math.Signbit(float64(y)) == math.Signbit(x)
		switch {
		case add && exact:
			a.AddFloat(y)
		case add:
			a.AddDouble(x)
		case exact:
			a.SetFloat(i, y)
		default:
			a.SetDouble(i, x)
		}
	default:
		if add {
			a.AddString(v.s)
		} else {
			a.SetString(i, v.s)
		}
	}
}

func (p *pool[T, L]) snapshot() string {
	parts := make([]string, 0, nLists+nArrs)
	for _, l := range p.lists {
		parts = append(parts, valsStr(p.t, l.toArr()))
	}
	for _, a := range p.arrs {
		vs := make([]val, len(a))
		for i, x := range a {
			vs[i] = p.lists[0].from(x)
		}
		parts = append(parts, valsStr(p.t, vs))
	}
	return strings.Join(parts, "|")
}

func execX(t byte, ops []string) []string {
	p := poolOf(t)
	outs := make([]string, 0, len(ops))
	for _, op := range ops {
		res := "u"
		o := vh.Guard(func() { res = p.exec(strings.Split(op, ":")) })
		if !o.OK() {
			res = "p"
		}
		snap := "?"
		if o2 := vh.Guard(func() { snap = p.snapshot() }); !o2.OK() {
			snap = "snapshot-panics"
		}
		outs = append(outs, res+"#"+snap)
	}
	return outs
}

// specX: every object a plain slice of its own; every transfer copies.
func specX(t byte, ops []string) []string {
	var lists [nLists][]val
	var arrs [nArrs][]val
	cp := func(x []val) []val { return append([]val{}, x...) }
	outs := make([]string, 0, len(ops))
	for _, op := range ops {
		f := strings.Split(op, ":")
		res := "u"
		switch f[0] {
		case "N":
			lists[atoi(f[1])] = nil
		case "a":
			j := atoi(f[1])
			lists[j] = append(cp(lists[j]), parseVal(t, f[2]))
		case "A":
			j := atoi(f[1])
			lists[j] = append(cp(lists[j]), arrs[atoi(f[2])]...)
		case "B":
			j := atoi(f[1])
			lists[j] = append(cp(lists[j]), cp(lists[atoi(f[2])])...)
		case "s":
			j, i := atoi(f[1]), atoi(f[2])
			if i < 0 || i >= len(lists[j]) {
				res = "p"
			} else {
				lists[j] = cp(lists[j])
				lists[j][i] = parseVal(t, f[3])
			}
		case "g":
			j, i := atoi(f[1]), atoi(f[2])
			if i < 0 || i >= len(lists[j]) {
				res = "p"
			} else {
				res = "v" + lists[j][i].str(t)
			}
		case "T":
			arrs[atoi(f[2])] = cp(lists[atoi(f[1])])
		case "R":
			arrs[atoi(f[1])] = parseVals(t, f[2])
		case "w":
			k, i := atoi(f[1]), atoi(f[2])
			if i >= len(arrs[k]) {
				res = "p"
			} else {
				arrs[k] = cp(arrs[k])
				arrs[k][i] = parseVal(t, f[3])
			}
		case "F":
			src := lists[atoi(f[2])]
			out := []val{}
			ok := true
			for _, i := range parseInts(f[3]) {
				if i < 0 || i >= len(src) {
					ok = false
					break
				}
				out = append(out, src[i])
			}
			if ok {
				lists[atoi(f[1])] = out
			} else {
				res = "p"
			}
		case "b":
			j := atoi(f[1])
			lists[j] = append(cp(lists[j]), parseVal(t, f[2]))
		case "e":
			j, i := atoi(f[1]), atoi(f[2])
			if i < 0 || i >= len(lists[j]) {
				res = "p"
			} else {
				lists[j] = cp(lists[j])
				lists[j][i] = parseVal(t, f[3])
			}
		case "D":
			j := atoi(f[1])
			lists[j] = append(cp(lists[j]), cp(lists[atoi(f[2])])...)
		case "Z":
			if len(f) >= 3 {
				vs := lists[atoi(f[1])]
				perm := refSort(t, parseBool(f[2]), '-', true, vs, nil)
				parts := make([]string, len(perm))
				for i, x := range perm {
					parts[i] = canon(t, vs[x])
				}
				res = "z" + vh.List(parts)
			}
		case "Y":
			vs, cs := lists[atoi(f[1])], lists[atoi(f[3])]
			if len(cs) < len(vs) {
				res = "child-too-short" // the generator never asks for it
				break
			}
			perm := refSort(t, parseBool(f[2]), t, parseBool(f[4]), vs, cs)
			parts := make([]string, len(perm))
			for i, x := range perm {
				parts[i] = canon(t, vs[x]) + "/" + canon(t, cs[x])
			}
			res = "y" + vh.List(parts)
		}
		parts := make([]string, 0, nLists+nArrs)
		for _, l := range lists {
			parts = append(parts, valsStr(t, l))
		}
		for _, a := range arrs {
			parts = append(parts, valsStr(t, a))
		}
		outs = append(outs, res+"#"+strings.Join(parts, "|"))
	}
	return outs
}

var xOpNames = map[string]string{"N": "New", "a": "Add", "A": "AddAllArray", "B": "AddAll", "s": "Set", "g": "Get",
	"T": "ToArray", "R": "slice-literal", "w": "slice-write", "F": "Filtering", "Z": "Sorting", "Y": "SortingAnyList",
	"b": "Add(alias)", "e": "Set(alias)", "D": "Read"}

// xTarget: index (0..6 in snapshot order) of the object an op may change, or -1.
func xTarget(f []string) int {
	switch f[0] {
	case "N", "a", "A", "B", "s", "F", "b", "e", "D":
		return atoi(f[1])
	case "T":
		return nLists + atoi(f[2])
	case "R", "w":
		return nLists + atoi(f[1])
	}
	return -1
}

// xClass says how impl and spec differ on one op: in the result token, in the op's own target,
// or in ANOTHER object (shared storage).
func xClass(op, impl, spec string) string {
	a, b := strings.SplitN(impl, "#", 2), strings.SplitN(spec, "#", 2)
	if a[0] != b[0] {
		return classify(a[0], b[0])
	}
	if len(a) < 2 || len(b) < 2 {
		return "wrong-result"
	}
	x, y := strings.Split(a[1], "|"), strings.Split(b[1], "|")
	tg := xTarget(strings.Split(op, ":"))
	for i := range x {
		if i < len(y) && x[i] != y[i] && i != tg {
			return "shared-storage"
		}
	}
	return "wrong-result"
}

// genX: a history that moves elements between objects and then writes on both sides.
func genX(r *vh.Rng) string {
	t := types[r.Intn(len(types))]
	var ops []string
	sizes := [nLists]int{}
	alen := [nArrs]int{}
	n := 8 + r.Intn(40)
	v := func() string { return genVal(r, t).str(t) }
	vals := func(k int) string { return valsStr(t, genVals(r, t, k, k+1)) }
	for len(ops) < n {
		j, j2, k := r.Intn(nLists), r.Intn(nLists), r.Intn(nArrs)
		x := r.Intn(100)
		switch {
		case x < 8:
			init := r.PickStr([]string{"nil", "def", "cap:0", "cap:1", "cap:2", "cap:3", "cap:5", "cap:10", "cap:16"})
			ops = append(ops, "N:"+strconv.Itoa(j)+":"+init)
			sizes[j] = 0
		case x < 22:
			ops = append(ops, "a:"+strconv.Itoa(j)+":"+v())
			sizes[j]++
		case x < 30:
			m := r.PickInt([]int{0, 1, 2, 3, 5, 11, 12})
			ops = append(ops, "R:"+strconv.Itoa(k)+":"+vals(m))
			alen[k] = m
		case x < 40:
			if sizes[j]+alen[k] > 200 {
				continue
			}
			ops = append(ops, "A:"+strconv.Itoa(j)+":"+strconv.Itoa(k))
			sizes[j] += alen[k]
		case x < 52:
			if sizes[j]+sizes[j2] > 200 {
				continue
			}
			ops = append(ops, "B:"+strconv.Itoa(j)+":"+strconv.Itoa(j2))
			sizes[j] += sizes[j2]
		case x < 60:
			ops = append(ops, "T:"+strconv.Itoa(j)+":"+strconv.Itoa(k))
			alen[k] = sizes[j]
		case x < 74:
			ops = append(ops, "s:"+strconv.Itoa(j)+":"+strconv.Itoa(idxNear(r, sizes[j]))+":"+v())
		case x < 84:
			i := 0
			if alen[k] > 0 && r.Chance(85) {
				i = r.Intn(alen[k])
			} else {
				i = alen[k] + r.Intn(2)
			}
			ops = append(ops, "w:"+strconv.Itoa(k)+":"+strconv.Itoa(i)+":"+v())
		case x < 90:
			m := r.Intn(5)
			idx := make([]int, m)
			ok := true
			for q := range idx {
				if sizes[j2] > 0 {
					idx[q] = r.Intn(sizes[j2])
				} else {
					idx[q] = 0
					ok = false
				}
				if r.Chance(5) {
					idx[q] = sizes[j2] + 1
					ok = false
				}
			}
			ops = append(ops, "F:"+strconv.Itoa(j)+":"+strconv.Itoa(j2)+":"+intsStr(idx))
			if ok {
				sizes[j] = m
			}
		case x < 92:
			ops = append(ops, "Z:"+strconv.Itoa(j)+":"+b2s(r.Bool()))
		case x < 94:
			if sizes[j2] < sizes[j] {
				continue
			}
			ops = append(ops, "Y:"+strconv.Itoa(j)+":"+b2s(r.Bool())+":"+strconv.Itoa(j2)+":"+b2s(r.Bool()))
		default:
			ops = append(ops, "g:"+strconv.Itoa(j)+":"+strconv.Itoa(idxNear(r, sizes[j])))
		}
		// the same query before and after an in-place Set at an existing index (and after a decode
		// into the receiver): a result remembered from before must not come back
		if sizes[j] > 0 && r.Chance(22) {
			q := ""
			switch r.Intn(5) {
			case 0, 1:
				q = "Z:" + strconv.Itoa(j) + ":" + b2s(r.Bool())
			case 2:
				if sizes[j2] >= sizes[j] {
					q = "Y:" + strconv.Itoa(j) + ":" + b2s(r.Bool()) + ":" + strconv.Itoa(j2) + ":" + b2s(r.Bool())
				} else {
					q = "T:" + strconv.Itoa(j) + ":" + strconv.Itoa(k)
					alen[k] = sizes[j]
				}
			case 3:
				idx := make([]int, 1+r.Intn(4))
				for q2 := range idx {
					idx[q2] = r.Intn(sizes[j])
				}
				dst := (j + 1) % nLists
				q = "F:" + strconv.Itoa(dst) + ":" + strconv.Itoa(j) + ":" + intsStr(idx)
				sizes[dst] = len(idx)
			default:
				q = "g:" + strconv.Itoa(j) + ":" + strconv.Itoa(r.Intn(sizes[j]))
			}
			setOp := r.PickStr([]string{"s", "s", "e", "e"})
			nSets := 1 + r.Intn(2)
			ops = append(ops, q)
			for q2 := 0; q2 < nSets; q2++ {
				ops = append(ops, setOp+":"+strconv.Itoa(j)+":"+strconv.Itoa(r.Intn(sizes[j]))+":"+v())
			}
			ops = append(ops, q)
			if strings.HasPrefix(q, "Y:") && r.Chance(50) { // … and after a Set on the child
				ops = append(ops, "s:"+strconv.Itoa(j2)+":"+strconv.Itoa(r.Intn(sizes[j2]))+":"+v(), q)
			}
		}
		// decode into a receiver in whatever state it is in, twice in a row now and then
		if r.Chance(10) && sizes[j]+2*sizes[j2] <= 200 {
			ops = append(ops, "D:"+strconv.Itoa(j)+":"+strconv.Itoa(j2))
			if j == j2 {
				sizes[j] *= 2
			} else {
				sizes[j] += sizes[j2]
			}
			if r.Chance(40) && sizes[j]+sizes[j2] <= 200 {
				ops = append(ops, "D:"+strconv.Itoa(j)+":"+strconv.Itoa(j2))
				if j == j2 {
					sizes[j] *= 2
				} else {
					sizes[j] += sizes[j2]
				}
			}
		}
		if r.Chance(8) {
			ops = append(ops, "b:"+strconv.Itoa(j)+":"+v())
			sizes[j]++
		}
	}
	return "X " + string(t) + " " + strings.Join(ops, ";")
}
