package main

// G cases: the cross-type methods between floats and text.
//
//   G <t> <init> <ops>   t = f (FloatList) | d (DoubleList) | s (StringList)
//   ops: aS:<str> aF:<bits32> aD:<bits64>  sS/sF/sD:<i>:<x>  gS:<i> gF:<i> gD:<i>  t
//   FloatList/DoubleList: AddString/SetString = strconv.ParseFloat (error → panic), GetString =
//   FormatFloat('f', 6); StringList: AddFloat/AddDouble/SetFloat/SetDouble = FormatFloat('f', 6),
//   GetFloat/GetDouble = ParseFloat.
//
// Three executors: the lists, the Lean model (Golib.Lists.FloatText) and an oracle that never calls
// strconv: the text of a float is computed from the bit pattern with math/big integers (scale by 10^6,
// round half to even), a text is read by a regular expression and rounded through big.Rat.
//
// Never generated (the model answers `excluded`): texts with '_', hexadecimal texts, "nan".

import (
	"fmt"
	"math"
	"math/big"
	"regexp"
	"strconv"
	"strings"

	"github.com/whatap/golib/util/list"
	"verif/harness/vh"
)

// quirkSetString32: DoubleList.SetString parses with bitSize 32 in the tree under test (established
// once per run on the witness "0.1"); the oracle and the model line follow the tree, the quirk itself is
// reported as a known finding.
var quirkSetString32 = false

const keySetString32 = "DoubleList.SetString:parsed-as-float32"

func probeSetString32(rep *vh.Report) {
	var got uint64
	o := vh.Guard(func() {
		l := list.NewDoubleListDefault()
		l.AddDouble(0)
		l.SetString(0, "0.1")
		got = math.Float64bits(l.GetDouble(0))
	})
	quirkSetString32 = o.OK() && got != 0x3fb999999999999a
	what := "DoubleList.SetString(0, \"0.1\") stores float64(float32(0.1)) = 0.10000000149011612 (ParseFloat(v, 32), copied from FloatList), AddString(\"0.1\") stores 0.1; SetString(i, \"1e39\") panics, AddString(\"1e39\") does not"
	rep.KnownReplay(keySetString32, quirkSetString32, what)
	if quirkSetString32 {
		// repaired in /repo (D46); a fixed entry suppresses nothing: the defect is a property failure when it returns
		rep.Fail("property", keySetString32, what, map[string]interface{}{"ops": []string{"NewDoubleListDefault()", "AddDouble(0)", "SetString(0, \"0.1\")", "GetDouble(0)"}, "got_bits": fmt.Sprintf("%016x", got), "want_bits": "3fb999999999999a"})
	}
	rep.Count("known." + keySetString32 + "." + map[bool]string{true: "reproduces", false: "repaired"}[quirkSetString32])
}

// ---- oracle: FormatFloat(x, 'f', 6, ·) from the bit pattern

func decodeBits(dbl bool, bits uint64) (neg bool, m *big.Int, e int, special string) {
	ebits, mbits := uint(8), uint(23)
	if dbl {
		ebits, mbits = 11, 52
	}
	neg = bits>>(ebits+mbits)&1 == 1
	ex := int(bits >> mbits & (1<<ebits - 1))
	man := bits & (1<<mbits - 1)
	bias := 1<<(ebits-1) - 1
	switch {
	case ex == 1<<ebits-1 && man != 0:
		return neg, nil, 0, "NaN"
	case ex == 1<<ebits-1 && neg:
		return neg, nil, 0, "-Inf"
	case ex == 1<<ebits-1:
		return neg, nil, 0, "+Inf"
	case ex == 0:
		return neg, new(big.Int).SetUint64(man), 1 - bias - int(mbits), ""
	}
	return neg, new(big.Int).SetUint64(man | 1<<mbits), ex - bias - int(mbits), ""
}

func fmt6Oracle(dbl bool, bits uint64) string {
	neg, m, e, sp := decodeBits(dbl, bits)
	if sp != "" {
		return sp
	}
	n := new(big.Int).Mul(m, big.NewInt(1000000))
	if e >= 0 {
		n.Lsh(n, uint(e))
	} else {
		k := uint(-e)
		q := new(big.Int).Rsh(n, k)
		r := new(big.Int).Sub(n, new(big.Int).Lsh(q, k))
		half := new(big.Int).Lsh(big.NewInt(1), k-1)
		if c := r.Cmp(half); c > 0 || (c == 0 && q.Bit(0) == 1) {
			q.Add(q, big.NewInt(1))
		}
		n = q
	}
	ip, fp := new(big.Int).QuoRem(n, big.NewInt(1000000), new(big.Int))
	fs := fp.String()
	s := ip.String() + "." + strings.Repeat("0", 6-len(fs)) + fs
	if neg {
		s = "-" + s
	}
	return s
}

// ---- oracle: ParseFloat

var reDec = regexp.MustCompile(`^([+-]?)([0-9]*)(\.?)([0-9]*)(?:[eE]([+-]?[0-9]+))?$`)
var reInf = regexp.MustCompile(`^([+-]?)(?i:inf|infinity)$`)

// parseOracle: status "ok" | "err" | "excluded"
func parseOracle(dbl bool, s string) (uint64, string) {
	infBits, signBit := uint64(0x7f800000), uint64(1)<<31
	if dbl {
		infBits, signBit = 0x7ff0000000000000, 1<<63
	}
	if m := reInf.FindStringSubmatch(s); m != nil {
		if m[1] == "-" {
			return signBit | infBits, "ok"
		}
		return infBits, "ok"
	}
	if strings.EqualFold(s, "nan") || strings.Contains(s, "_") {
		return 0, "excluded"
	}
	body := strings.TrimLeft(s, "+-")
	if len(s)-len(body) <= 1 && len(body) >= 3 && body[0] == '0' && (body[1] == 'x' || body[1] == 'X') {
		return 0, "excluded"
	}
	m := reDec.FindStringSubmatch(s)
	if m == nil || len(m[2])+len(m[4]) == 0 {
		return 0, "err"
	}
	neg := m[1] == "-"
	sg := uint64(0)
	if neg {
		sg = signBit
	}
	mant, _ := new(big.Int).SetString("0"+m[2]+m[4], 10)
	if mant.Sign() == 0 {
		return sg, "ok"
	}
	exp := 0
	if m[5] != "" {
		es := strings.TrimLeft(m[5], "+-")
		es = strings.TrimLeft(es, "0")
		if len(es) > 5 { // beyond every representable magnitude for the mantissas generated (< 800 digits)
			exp = 1000000
		} else if es != "" {
			exp, _ = strconv.Atoi(es)
		}
		if m[5][0] == '-' {
			exp = -exp
		}
	}
	exp -= len(m[4])
	if exp > 6000 {
		return 0, "err"
	}
	if exp < -6000-len(m[2])-len(m[4]) {
		return sg, "ok"
	}
	r := new(big.Rat).SetInt(mant)
	p := new(big.Int).Exp(big.NewInt(10), big.NewInt(int64(abs(exp))), nil)
	if exp >= 0 {
		r.Mul(r, new(big.Rat).SetInt(p))
	} else {
		r.Quo(r, new(big.Rat).SetInt(p))
	}
	var bits uint64
	if dbl {
		f, _ := r.Float64()
		bits = math.Float64bits(f)
	} else {
		f, _ := r.Float32()
		bits = uint64(math.Float32bits(f))
	}
	if bits == infBits {
		return 0, "err" // out of range
	}
	return sg | bits, "ok"
}

func abs(x int) int {
	if x < 0 {
		return -x
	}
	return x
}

// ---- implementation

func execG(t byte, init string, ops []string) []string {
	var l list.AnyList
	if o := vh.Guard(func() { l = mkAny(t, init) }); !o.OK() {
		return []string{"p"}
	}
	outs := make([]string, 0, len(ops))
	for _, op := range ops {
		f := strings.Split(op, ":")
		res := "u"
		o := vh.Guard(func() {
			switch f[0] {
			case "aS":
				l.AddString(parseVal('s', f[1]).s)
			case "aF":
				u, _ := strconv.ParseUint(f[1], 10, 64)
				l.AddFloat(math.Float32frombits(uint32(u)))
			case "aD":
				u, _ := strconv.ParseUint(f[1], 10, 64)
				l.AddDouble(math.Float64frombits(u))
			case "sS":
				l.SetString(atoi(f[1]), parseVal('s', f[2]).s)
			case "sF":
				u, _ := strconv.ParseUint(f[2], 10, 64)
				l.SetFloat(atoi(f[1]), math.Float32frombits(uint32(u)))
			case "sD":
				u, _ := strconv.ParseUint(f[2], 10, 64)
				l.SetDouble(atoi(f[1]), math.Float64frombits(u))
			case "gS":
				res = "v" + val{s: l.GetString(atoi(f[1]))}.str('s')
			case "gF":
				res = "vf" + strconv.FormatUint(uint64(math.Float32bits(l.GetFloat(atoi(f[1])))), 10)
			case "gD":
				res = "vd" + strconv.FormatUint(math.Float64bits(l.GetDouble(atoi(f[1]))), 10)
			case "t":
				parts := make([]string, l.Size())
				for i := range parts {
					switch t {
					case 'f':
						parts[i] = "f" + strconv.FormatUint(uint64(math.Float32bits(l.GetFloat(i))), 10)
					case 'd':
						parts[i] = "d" + strconv.FormatUint(math.Float64bits(l.GetDouble(i)), 10)
					default:
						parts[i] = val{s: l.GetString(i)}.str('s')
					}
				}
				res = "t" + vh.List(parts)
			default:
				panic("bad op " + op)
			}
		})
		if !o.OK() {
			res = "p"
		}
		outs = append(outs, res)
	}
	return outs
}

// ---- oracle: sequences of bit patterns / of strings

type gElem struct {
	u uint64
	s string
}

// inG: what a value handed to Add…/Set… becomes in a list of type t ("ok" | "p" | "excluded")
func inG(t byte, isSet bool, code byte, arg string) (gElem, string) {
	switch code {
	case 'S':
		s := parseVal('s', arg).s
		if t == 's' {
			return gElem{s: s}, "ok"
		}
		dbl := t == 'd'
		if dbl && isSet && quirkSetString32 {
			b, st := parseOracle(false, s)
			if st != "ok" {
				return gElem{}, map[string]string{"err": "p", "excluded": "excluded"}[st]
			}
			y, _ := convBig('d', num{k: 'f', u: b})
			return gElem{u: y.u}, "ok"
		}
		b, st := parseOracle(dbl, s)
		if st != "ok" {
			return gElem{}, map[string]string{"err": "p", "excluded": "excluded"}[st]
		}
		return gElem{u: b}, "ok"
	default:
		u, _ := strconv.ParseUint(arg, 10, 64)
		src := byte('f')
		if code == 'D' {
			src = 'd'
		}
		if t == 's' {
			return gElem{s: fmt6Oracle(src == 'd', u)}, "ok"
		}
		y, ok := convBig(t, num{k: src, u: u})
		if !ok {
			return gElem{}, "excluded"
		}
		return gElem{u: y.u}, "ok"
	}
}

func outG(t byte, code byte, e gElem) string {
	switch code {
	case 'S':
		if t == 's' {
			return "v" + val{s: e.s}.str('s')
		}
		return "v" + val{s: fmt6Oracle(t == 'd', e.u)}.str('s')
	default:
		dst := byte('f')
		if code == 'D' {
			dst = 'd'
		}
		if t == 's' {
			b, st := parseOracle(dst == 'd', e.s)
			if st != "ok" {
				return map[string]string{"err": "p", "excluded": "excluded"}[st]
			}
			return "v" + string(dst) + strconv.FormatUint(b, 10)
		}
		y, ok := convBig(dst, num{k: t, u: e.u})
		if !ok {
			return "excluded"
		}
		return "v" + string(dst) + strconv.FormatUint(y.u, 10)
	}
}

func specG(t byte, ops []string) []string {
	var s []gElem
	outs := make([]string, 0, len(ops))
	for _, op := range ops {
		f := strings.Split(op, ":")
		res := "u"
		switch f[0][0] {
		case 'a':
			e, st := inG(t, false, f[0][1], f[1])
			if st == "ok" {
				s = append(s, e)
			} else {
				res = st
			}
		case 's':
			i := atoi(f[1])
			e, st := inG(t, true, f[0][1], f[2])
			switch {
			case st != "ok":
				res = st
			case i < 0 || i >= len(s):
				res = "p"
			default:
				s[i] = e
			}
		case 'g':
			i := atoi(f[1])
			if i < 0 || i >= len(s) {
				res = "p"
			} else {
				res = outG(t, f[0][1], s[i])
			}
		case 't':
			parts := make([]string, len(s))
			for i, e := range s {
				switch t {
				case 'f':
					parts[i] = "f" + strconv.FormatUint(e.u, 10)
				case 'd':
					parts[i] = "d" + strconv.FormatUint(e.u, 10)
				default:
					parts[i] = val{s: e.s}.str('s')
				}
			}
			res = "t" + vh.List(parts)
		}
		outs = append(outs, res)
	}
	return outs
}

// ---- generator

var floatTexts = []string{"0", "-0", "+0", "0.0", "-0.0e5", "1", "-1", "+1.5", "5.", ".5", "+.5e-3", "1E5", "1e05", "1e+05", "00001", "0.1", "0.2", "0.3",
	"3.14159265358979323846264338327950288", "2.5e-6", "0.0000005", "0.0078125", "0.0234375", "123456789.123456789", "1e22", "1e23", "9007199254740993", "16777217",
	"1e-400", "1e400", "-1e400", "1e39", "-1e39", "1e38", "3.4028235677973366e38", "3.4028235677973367e38", "3.4028234e38", "1.7976931348623157e308", "1.7976931348623158e308",
	"1.797693134862315807e308", "1.7976931348623159e308", "4.9e-324", "2.4703282292062327e-324", "2.4703282292062328e-324", "1.401298464324817e-45", "7.006492321624085e-46",
	"7.0064923216240853546186479164495806564013097093825788587853414194489554134293030074331909418106079101562e-46", "7.0064923216240853546186479164495806564013097093825788587853414194489554134293030074331909418106079101563e-46",
	"1.00000000000000011102230246251565404236316680908203125", "1.00000000000000011102230246251565404236316680908203126", "1.00000000000000011102230246251565404236316680908203124",
	"1.00000005960464477539062", "1.000000059604644775390625", "1.0000000596046447753906251", "1.00000017881393432617187", "1.000000178813934326171875",
	"0e99999999999", "1e99999", "1e-99999", "1e100000", "1e-100000", "0.00000000000000000000000000000000000000000000000000000000000000000001e70",
	"1000000000000000000000000000000000000000000000000000000000000000000000e-69",
	"Inf", "-inf", "+Infinity", "INFINITY", "-InFiNiTy", "infinit", "INFINITYx", "inf ", "nanx", "+nan", "-nan", "in", "i", "n",
	"", ".", "+", "-", "+.", "1e", "1e+", "1e-", "e5", ".e5", "1ee5", "1e5.", "1e5e5", "--1", "+-1", "1.2.3", "1..", " 1", "1 ", "1,5", "0x", "x", "1x", "abc", "1f", "１", "٣", "1\x00"}

func genFloatText(r *vh.Rng) string {
	switch x := r.Intn(100); {
	case x < 45:
		return r.PickStr(floatTexts)
	case x < 60: // what the lists themselves print
		if r.Bool() {
			return fmt6Oracle(true, genVal(r, 'd').u)
		}
		return fmt6Oracle(false, genVal(r, 'f').u)
	case x < 70: // a value written out exactly (hits ties and neighbours of representable values)
		dbl := r.Bool()
		_, m, e, sp := decodeBits(dbl, genFloatBits(r, dbl))
		if sp != "" || e < -200 || e > 200 {
			return "1e" + strconv.Itoa(int(r.Range(-50, 50)))
		}
		// m·2^e (+ half an ulp of float32 / float64 half of the time) as a decimal fraction, a third of
		// the time with a last digit that lifts it just above (rounding twice, 64 then 32 bits, shows here)
		n := new(big.Int).Lsh(m, 1)
		if r.Bool() {
			n.Add(n, big.NewInt(1))
		}
		e--
		k := 0
		if e >= 0 {
			n.Lsh(n, uint(e))
		} else {
			k = -e
			n.Mul(n, new(big.Int).Exp(big.NewInt(5), big.NewInt(int64(k)), nil))
		}
		txt := n.String()
		if r.Chance(33) {
			z := r.PickInt([]int{0, 1, 8, 25})
			txt += strings.Repeat("0", z) + "1"
			k += z + 1
		}
		if k == 0 {
			return txt
		}
		return txt + "e-" + strconv.Itoa(k)
	}
	var b strings.Builder
	b.WriteString(r.PickStr([]string{"", "", "-", "+"}))
	digits := func(n int) {
		for i := 0; i < n; i++ {
			b.WriteByte(byte('0' + r.Intn(10)))
		}
	}
	digits(r.PickInt([]int{0, 1, 1, 2, 5, 17, 19, 20, 25}))
	if r.Chance(60) {
		b.WriteByte('.')
		digits(r.PickInt([]int{0, 1, 2, 6, 7, 19, 30}))
	}
	if r.Chance(40) {
		b.WriteString(r.PickStr([]string{"e", "E"}) + r.PickStr([]string{"", "+", "-"}) + strconv.Itoa(int(r.Range(0, r.Pick64([]int64{5, 40, 330, 1200})))))
	}
	return b.String()
}

// sixthDecimalTies: j/128 (odd j) times 10^6 ends in .5 — exact ties of the 'f', 6 rounding
func genFloatBits(r *vh.Rng, dbl bool) uint64 {
	if r.Chance(25) {
		x := float64(2*r.Intn(4000)+1) / 128
		if r.Chance(30) {
			x = -x
		}
		if r.Chance(30) {
			x /= float64(int(1) << uint(r.Intn(8))) // no longer ties, but next to them
		}
		if dbl {
			return math.Float64bits(x)
		}
		return uint64(math.Float32bits(float32(x)))
	}
	if dbl {
		return genVal(r, 'd').u
	}
	return genVal(r, 'f').u
}

func genG(r *vh.Rng) string {
	t := []byte{'f', 'd', 's'}[r.Intn(3)]
	var ops []string
	size := 0
	n := 6 + r.Intn(25)
	operand := func() (string, string) {
		switch x := r.Intn(100); {
		case x < 50:
			return "S", val{s: genFloatText(r)}.str('s')
		case x < 75:
			return "F", strconv.FormatUint(genFloatBits(r, false), 10)
		}
		return "D", strconv.FormatUint(genFloatBits(r, true), 10)
	}
	for len(ops) < n {
		switch x := r.Intn(100); {
		case x < 35 || size == 0:
			c, a := operand()
			ops = append(ops, "a"+c+":"+a)
			size++ // may not grow (parse error) — only used to aim indices
		case x < 55:
			c, a := operand()
			ops = append(ops, "s"+c+":"+strconv.Itoa(idxNear(r, size))+":"+a)
		case x < 95:
			ops = append(ops, "g"+r.PickStr([]string{"S", "S", "F", "D"})+":"+strconv.Itoa(idxNear(r, size)))
		default:
			ops = append(ops, "t")
		}
	}
	ops = append(ops, "t")
	return "G " + string(t) + " " + genInit(r) + " " + strings.Join(ops, ";")
}
