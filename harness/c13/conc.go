package main

// Q cases: the concurrent stage.  LinkedList's public mutators take the list's mutex, so calls from
// several goroutines must take effect one at a time; whatever the interleaving, the elements left
// in the list together with the elements handed out by Remove* are the elements added
// (C13.linkedlist_atomic_conservation), Size() = adds − removes, and the chain first→…→last has
// exactly Size() nodes.  EVERY public mutator alias is driven on its own and in a mix:
// Add, AddFirst, AddLast, PutBefore, Remove(entity), RemoveFirst, RemoveLast, Clear.
//
//   Q <scenario> <goroutines> <ops per goroutine>

import (
	"fmt"
	"sort"
	"strconv"
	"strings"
	"sync"
	"time"

	"github.com/whatap/golib/util/list"
	"verif/harness/vh"
)

var concScenarios = []string{"Add", "AddFirst", "AddLast", "PutBefore", "RemoveFirst", "RemoveLast", "Remove", "Mixed", "Clear"}

// chainOf walks first→next…; it stops after limit nodes (a cycle or a chain longer than expected).
func chainOf(l *list.LinkedList, limit int) (vals []int64, ok bool) {
	e := l.GetFirst()
	for e != nil {
		if len(vals) > limit {
			return vals, false
		}
		v, isInt := e.Value.(int64)
		if !isInt {
			return vals, false
		}
		vals = append(vals, v)
		e = l.GetNext(e)
	}
	return vals, true
}

func sortedCopy(xs []int64) []int64 {
	out := append([]int64{}, xs...)
	sort.Slice(out, func(a, b int) bool { return out[a] < out[b] })
	return out
}

func sameMultiset(a, b []int64) bool {
	if len(a) != len(b) {
		return false
	}
	x, y := sortedCopy(a), sortedCopy(b)
	for i := range x {
		if x[i] != y[i] {
			return false
		}
	}
	return true
}

// runConc returns "" when the atomic-list model is met, else what is wrong.
func runConc(scn string, G, N int) string {
	l := list.NewLinkedList()
	var added, removed [][]int64 = make([][]int64, G), make([][]int64, G)
	var initial []int64
	var sentinel *list.LinkedListEntity
	var own [][]*list.LinkedListEntity
	uniq := func(g, i, k int) int64 { return int64((g*N+i)*8 + k + 1) }
	switch scn {
	case "PutBefore", "Mixed":
		l.AddLast(int64(-1))
		sentinel = l.GetLast()
		initial = []int64{-1}
	case "RemoveFirst", "RemoveLast":
		for i := 0; i < G*N; i++ {
			l.AddLast(int64(i + 1))
			initial = append(initial, int64(i+1))
		}
	case "Remove":
		l.AddLast(int64(-1))
		sentinel = l.GetLast()
		initial = []int64{-1}
		own = make([][]*list.LinkedListEntity, G)
		for g := 0; g < G; g++ {
			for i := 0; i < N; i++ {
				v := uniq(g, i, 0)
				own[g] = append(own[g], l.PutBefore(v, sentinel))
				initial = append(initial, v)
			}
		}
	}
	panics := make([]string, G)
	var wg sync.WaitGroup
	body := func(g int) {
		defer wg.Done()
		o := vh.Guard(func() {
			for i := 0; i < N; i++ {
				switch scn {
				case "Add":
					l.Add(uniq(g, i, 0))
					added[g] = append(added[g], uniq(g, i, 0))
				case "AddFirst":
					l.AddFirst(uniq(g, i, 0))
					added[g] = append(added[g], uniq(g, i, 0))
				case "AddLast":
					l.AddLast(uniq(g, i, 0))
					added[g] = append(added[g], uniq(g, i, 0))
				case "PutBefore":
					l.PutBefore(uniq(g, i, 0), sentinel)
					added[g] = append(added[g], uniq(g, i, 0))
				case "RemoveFirst":
					if v := l.RemoveFirst(); v != nil {
						removed[g] = append(removed[g], v.(int64))
					}
				case "RemoveLast":
					if v := l.RemoveLast(); v != nil {
						removed[g] = append(removed[g], v.(int64))
					}
				case "Remove":
					if v := l.Remove(own[g][i]); v != nil {
						removed[g] = append(removed[g], v.(int64))
					}
				case "Mixed":
					l.Add(uniq(g, i, 0))
					l.AddFirst(uniq(g, i, 1))
					l.AddLast(uniq(g, i, 2))
					e := l.PutBefore(uniq(g, i, 3), sentinel)
					added[g] = append(added[g], uniq(g, i, 0), uniq(g, i, 1), uniq(g, i, 2), uniq(g, i, 3))
					if i%2 == 0 {
						if v := l.Remove(e); v != nil {
							removed[g] = append(removed[g], v.(int64))
						}
					}
					if i%3 == 0 {
						// never the sentinel: it is not first while anything was added first
						if v := l.RemoveFirst(); v != nil {
							removed[g] = append(removed[g], v.(int64))
						}
					}
				case "Clear":
					l.Add(uniq(g, i, 0))
					added[g] = append(added[g], uniq(g, i, 0))
					if g == 0 && i%97 == 0 {
						l.Clear()
					}
				}
			}
		})
		if !o.OK() {
			panics[g] = o.Panic
		}
	}
	done := make(chan struct{})
	go func() {
		for g := 0; g < G; g++ {
			wg.Add(1)
			go body(g)
		}
		wg.Wait()
		close(done)
	}()
	select {
	case <-done:
	case <-time.After(10 * time.Minute): // bounds a hang only: the run is ~0.1 s of work, far from this under any load
		return "deadlock: the goroutines did not finish within 10 minutes"
	}
	for g, p := range panics {
		if p != "" {
			return fmt.Sprintf("panic in goroutine %d: %s", g, vh.Clip(p, 100))
		}
	}
	var allAdded, allRemoved []int64
	for g := 0; g < G; g++ {
		allAdded = append(allAdded, added[g]...)
		allRemoved = append(allRemoved, removed[g]...)
	}
	want := len(initial) + len(allAdded) - len(allRemoved)
	chain, ok := chainOf(l, len(initial)+len(allAdded)+8)
	if scn == "Clear" {
		// Clear drops elements; what must hold is the structure: Size() nodes on the chain, all of them added ones
		if !ok || len(chain) != l.Size() {
			return fmt.Sprintf("structure: Size()=%d but %d nodes on the chain", l.Size(), len(chain))
		}
		seen := map[int64]bool{}
		for _, v := range allAdded {
			seen[v] = true
		}
		for _, v := range chain {
			if !seen[v] {
				return fmt.Sprintf("structure: element %d on the chain was never added", v)
			}
			seen[v] = false
		}
		return ""
	}
	if l.Size() != want {
		return fmt.Sprintf("Size()=%d, the atomic list has %d (initial %d + added %d − handed out %d)", l.Size(), want, len(initial), len(allAdded), len(allRemoved))
	}
	if !ok || len(chain) != want {
		return fmt.Sprintf("%d nodes on the chain first→last, the atomic list has %d", len(chain), want)
	}
	var arr []int64
	if o := vh.Guard(func() {
		for _, v := range l.ToArray() {
			arr = append(arr, v.(int64))
		}
	}); !o.OK() {
		return "ToArray panics after the run: " + vh.Clip(o.Panic, 80)
	}
	if !sameMultiset(append(append([]int64{}, arr...), allRemoved...), append(append([]int64{}, initial...), allAdded...)) {
		return "elements left + elements handed out are not the elements initially there + the elements added (lost or duplicated)"
	}
	if scn == "RemoveFirst" || scn == "RemoveLast" || scn == "Remove" {
		if len(allRemoved) != G*N {
			return fmt.Sprintf("%d of %d Remove calls handed out an element", len(allRemoved), G*N)
		}
	}
	return ""
}

func runConcCase(c *kase) {
	f := strings.Split(c.line, " ")
	G, _ := strconv.Atoi(f[2])
	N, _ := strconv.Atoi(f[3])
	c.impl = []string{runConc(f[1], G, N)}
	c.dl = nil
}

func judgeConc(c *kase, rep *vh.Report) {
	f := strings.Split(c.line, " ")
	rep.Case(c.line, true)
	rep.Count("Q." + f[1])
	if c.impl[0] == "" {
		return
	}
	cls := "lost-or-duplicated-elements"
	switch {
	case strings.HasPrefix(c.impl[0], "deadlock"):
		cls = "deadlock"
	case strings.HasPrefix(c.impl[0], "panic"), strings.HasPrefix(c.impl[0], "ToArray panics"):
		cls = "panics"
	}
	rep.Fail("property", "LinkedList."+f[1]+"@concurrent:"+cls,
		fmt.Sprintf("%s goroutines × %s %s calls: %s", f[2], f[3], f[1], c.impl[0]), replayOf(c, nil))
}

func genQ(thorough bool) []string {
	var out []string
	reps, n := 2, 20000
	if thorough {
		reps, n = 6, 50000
	}
	for r := 0; r < reps; r++ {
		for _, s := range concScenarios {
			m := n
			if s == "Mixed" || s == "Remove" || s == "RemoveFirst" || s == "RemoveLast" {
				m = n / 4
			}
			out = append(out, fmt.Sprintf("Q %s %d %d", s, 8, m))
		}
	}
	return out
}
