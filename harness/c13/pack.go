package main

// P cases: the typed lists inside pack.StatGeneralPack — table round trip through the pack's
// wire form and the pack-level Sort / SortAnyList (Sorting* + Filtering on every column).
//
//   P <sort> <col>|<col>|…      col  = <t>=<vals>      keys are c0, c1, …
//                               sort = -  |  k,asc  |  k,asc,k2,asc2

import (
	"fmt"
	"sort"
	"strconv"
	"strings"

	gio "github.com/whatap/golib/io"
	"github.com/whatap/golib/lang/pack"
	"github.com/whatap/golib/util/hmap"
	"github.com/whatap/golib/util/list"
	"verif/harness/vh"
)

type col struct {
	t  byte
	vs []val
}

func parseCols(s string) []col {
	var out []col
	for _, p := range strings.Split(s, "|") {
		out = append(out, col{p[0], parseVals(p[0], p[2:])})
	}
	return out
}

func tableOf(p *pack.StatGeneralPack) (keys []string, cols []col, err string) {
	tbl := p.GetDataTable()
	en := tbl.Entries()
	for en.HasMoreElements() {
		ent := en.NextElement().(*hmap.StringKeyLinkedEntry)
		a, ok := ent.GetValue().(list.AnyList)
		if !ok {
			return nil, nil, "entry is not a list"
		}
		w, t := wrapAny(a)
		if w == nil {
			return nil, nil, "unknown list type"
		}
		if t != map[byte]byte{1: 'i', 2: 'l', 3: 'f', 4: 'd', 5: 's'}[a.GetType()] {
			return nil, nil, "GetType disagrees with the list's type"
		}
		keys = append(keys, ent.GetKey())
		cols = append(cols, col{t, w.toArr()})
	}
	return
}

// heldLists: the list objects currently in the pack's table, as the caller would hold them.
func heldLists(p *pack.StatGeneralPack) []tl {
	var out []tl
	en := p.GetDataTable().Entries()
	for en.HasMoreElements() {
		ent := en.NextElement().(*hmap.StringKeyLinkedEntry)
		w, _ := wrapAny(ent.GetValue().(list.AnyList))
		out = append(out, w)
	}
	return out
}

func renderLists(ls []tl) string {
	var sb strings.Builder
	for _, l := range ls {
		for _, v := range l.toArr() {
			sb.WriteString(fmt.Sprintf("%d/%d/%q,", v.i, v.u, v.s))
		}
		sb.WriteByte('|')
	}
	return sb.String()
}

func scribble(t byte) val {
	switch t {
	case 'i', 'l':
		return val{i: -424242}
	case 'f', 'd':
		return val{u: 0x40490fd0}
	}
	return val{s: "scribble"}
}

func colsStr(keys []string, cols []col) string {
	var parts []string
	for i, c := range cols {
		parts = append(parts, keys[i]+":"+string(c.t)+"="+valsStr(c.t, c.vs))
	}
	return strings.Join(parts, "|")
}

func rowsOf(cols []col) []string {
	if len(cols) == 0 {
		return nil
	}
	n := len(cols[0].vs)
	rows := make([]string, n)
	for r := 0; r < n; r++ {
		var sb strings.Builder
		for _, c := range cols {
			if r < len(c.vs) {
				sb.WriteString(c.vs[r].str(c.t))
			}
			sb.WriteByte('|')
		}
		rows[r] = sb.String()
	}
	return rows
}

func runPack(c *kase) {
	f := strings.Split(c.line, " ")
	spec, cols := f[1], parseCols(f[2])
	keys := make([]string, len(cols))
	for i := range cols {
		keys[i] = "c" + strconv.Itoa(i)
	}
	res := "ok"
	o := vh.Guard(func() {
		// half of the cases on a pack of another pack type (NewStatGeneralPackType): such a pack also
		// carries DataStartTime behind the table
		typed := len(c.line)%2 == 1
		mk := func() *pack.StatGeneralPack {
			if typed {
				return pack.NewStatGeneralPackType(0x1234)
			}
			return pack.NewStatGeneralPack()
		}
		p := mk()
		p.Id = "verif"
		p.Pcode, p.Oid, p.Time = 12345, 7, 1700000000000
		if typed {
			p.DataStartTime = 1700000123456
		}
		for i, cl := range cols {
			p.Put(keys[i], listOf(cl.t, cl.vs).any())
		}
		out := gio.NewDataOutputX()
		p.Write(out)
		p2 := mk()
		in := gio.NewDataInputX(out.ToByteArray())
		p2.Read(in)
		switch {
		case typed && (p2.GetPackType() != 0x1234 || p2.DataStartTime != 1700000123456):
			res = fmt.Sprintf("round-trip: pack of type 0x1234 reads back with type %#x, DataStartTime %d", p2.GetPackType(), p2.DataStartTime)
			return
		case !typed && p2.GetPackType() != pack.PACK_STAT_GENERAL:
			res = fmt.Sprintf("round-trip: NewStatGeneralPack().GetPackType() = %#x", p2.GetPackType())
			return
		case in.Available() != 0:
			res = fmt.Sprintf("round-trip: %d bytes of the pack left unread", in.Available())
			return
		}
		k2, c2, err := tableOf(p2)
		if err != "" {
			res = "round-trip: " + err
			return
		}
		if colsStr(k2, c2) != colsStr(keys, cols) {
			res = "round-trip: table read back differs: " + vh.Clip(colsStr(k2, c2), 120)
			return
		}
		if spec == "-" {
			return
		}
		// lists the caller took from the table before sorting must not be reachable from the sorted table
		held := heldLists(p2)
		heldBefore := renderLists(held)
		sp := strings.Split(spec, ",")
		k, _ := strconv.Atoi(sp[0])
		asc := parseBool(sp[1])
		ct, casc, kc := byte('-'), true, 0
		if len(sp) == 4 {
			kc, _ = strconv.Atoi(sp[2])
			casc = parseBool(sp[3])
			ct = cols[kc].t
			p2.SortAnyList(keys[k], asc, keys[kc], casc)
		} else {
			p2.Sort(keys[k], asc)
		}
		k3, c3, err := tableOf(p2)
		if err != "" {
			res = "sort: " + err
			return
		}
		if strings.Join(k3, ",") != strings.Join(keys, ",") {
			res = "sort: keys changed: " + strings.Join(k3, ",")
			return
		}
		for i := range c3 {
			if c3[i].t != cols[i].t || len(c3[i].vs) != len(cols[i].vs) {
				res = fmt.Sprintf("sort: column %d changed type or length", i)
				return
			}
		}
		// no shared storage between the lists held from before and the sorted table's lists
		fresh := heldLists(p2)
		for i, l := range fresh {
			if l.size() > 0 {
				l.set(0, scribble(cols[i].t))
			}
		}
		if renderLists(held) != heldBefore {
			res = "alias: writing into the sorted table's lists changed the lists taken from the table before the sort"
			return
		}
		freshAfter := renderLists(fresh)
		for i, l := range held {
			if l.size() > 0 {
				l.set(l.size()-1, scribble(cols[i].t))
			}
		}
		if renderLists(fresh) != freshAfter {
			res = "alias: writing into lists taken before the sort changed the sorted table"
			return
		}
		// (c3 was rendered before the scribbling)
		// rows stay rows
		r0, r1 := rowsOf(cols), rowsOf(c3)
		s0, s1 := append([]string{}, r0...), append([]string{}, r1...)
		sort.Strings(s0)
		sort.Strings(s1)
		if strings.Join(s0, "\n") != strings.Join(s1, "\n") {
			res = "sort: the rows of the sorted table are not the rows of the table"
			return
		}
		// the sort column is ordered (ties by the child column)
		id := make([]int, len(c3[k].vs))
		for i := range id {
			id[i] = i
		}
		var cv []val
		if ct != '-' {
			cv = c3[kc].vs
		}
		if bad := ordered(id, cols[k].t, asc, ct, casc, c3[k].vs, cv, false); bad >= 0 {
			if (ct == 'i' || ct == 'l') && ordered(id, cols[k].t, asc, ct, casc, c3[k].vs, cv, true) < 0 {
				res = "sort: D43"
			} else {
				res = fmt.Sprintf("sort: rows %d,%d out of order", bad, bad+1)
			}
		}
	})
	if !o.OK() {
		res = "panic: " + vh.Clip(o.Panic, 100)
	}
	c.impl = []string{res}
	c.dl = nil
}

func judgePack(c *kase, rep *vh.Report) {
	f := strings.Split(c.line, " ")
	cols := parseCols(f[2])
	rep.Case(c.line, len(cols) > 0 && len(cols[0].vs) > 0)
	rep.Count("P.cols." + strconv.Itoa(len(cols)))
	switch strings.Count(f[1], ",") {
	case 0:
		rep.Count("P.roundtrip-only")
	case 1:
		rep.Count("P.Sort")
	default:
		rep.Count("P.SortAnyList")
	}
	res := c.impl[0]
	switch {
	case res == "ok":
	case res == "sort: D43":
		rep.Fail("property", "SortingAnyList:int-child-compared-as-float64",
			"StatGeneralPack.SortAnyList: ties on the sort column are not ordered by an integer child column beyond 2^53", replayOf(c, nil))
	case strings.HasPrefix(res, "alias"):
		rep.Fail("property", "StatGeneralPack.Sort:shared-storage", res, replayOf(c, nil))
	case strings.HasPrefix(res, "round-trip"):
		rep.Fail("property", "StatGeneralPack.table:round-trip", res, replayOf(c, nil))
	case strings.HasPrefix(res, "sort"):
		rep.Fail("property", "StatGeneralPack.Sort:not-ordered", res, replayOf(c, nil))
	default:
		rep.Fail("property", "StatGeneralPack:panics", res, replayOf(c, nil))
	}
}
