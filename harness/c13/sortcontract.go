package main

// S cases: the residual assumption about sort.Sort (Sort.BigContract), checked on the Go runtime
// itself, without the lists in between: for inputs longer than 12 elements and a Less that is a
// total preorder — reflexive, `<=`-like, as the closures of util/list are — the result is a
// permutation and sorted.  Duplicate-heavy inputs (pools of 1, 2, 3, … distinct keys) reach
// partitionEqual, the bad-pivot counter and the heap-sort fallback.
//
//   S <seed> <n> <pool> <mode>     mode 0: a <= b   1: a >= b   2: (a.p, a.c) <= (b.p, b.c) lexicographic

import (
	"fmt"
	"sort"
	"strconv"
	"strings"

	"verif/harness/vh"
)

type kv struct{ idx, p, c int }

type leSorter struct {
	d    []kv
	less func(a, b kv) bool
}

func (s leSorter) Len() int           { return len(s.d) }
func (s leSorter) Less(i, j int) bool { return s.less(s.d[i], s.d[j]) }
func (s leSorter) Swap(i, j int)      { s.d[i], s.d[j] = s.d[j], s.d[i] }

func runSortContract(c *kase) {
	f := strings.Split(c.line, " ")
	seed, _ := strconv.ParseUint(f[1], 10, 64)
	n, _ := strconv.Atoi(f[2])
	pool, _ := strconv.Atoi(f[3])
	mode := f[4]
	r := vh.NewRng(seed)
	d := make([]kv, n)
	for i := range d {
		d[i] = kv{i, r.Intn(pool), r.Intn(3)}
	}
	switch r.Intn(4) { // some structure: sorted, reversed, organ pipe
	case 0:
		sort.SliceStable(d, func(a, b int) bool { return d[a].p < d[b].p })
	case 1:
		sort.SliceStable(d, func(a, b int) bool { return d[a].p > d[b].p })
	}
	for i := range d {
		d[i].idx = i
	}
	var less func(a, b kv) bool
	switch mode {
	case "0":
		less = func(a, b kv) bool { return a.p <= b.p }
	case "1":
		less = func(a, b kv) bool { return a.p >= b.p }
	default:
		less = func(a, b kv) bool { return a.p < b.p || (a.p == b.p && a.c <= b.c) }
	}
	res := ""
	o := vh.Guard(func() { sort.Sort(leSorter{d, less}) })
	switch {
	case !o.OK():
		res = "panics: " + vh.Clip(o.Panic, 80)
	default:
		seen := make([]bool, n)
		for _, x := range d {
			if x.idx < 0 || x.idx >= n || seen[x.idx] {
				res = "not a permutation"
				break
			}
			seen[x.idx] = true
		}
		for i := 0; res == "" && i+1 < n; i++ {
			if !less(d[i], d[i+1]) {
				res = fmt.Sprintf("positions %d,%d not in Less order: (%d,%d) before (%d,%d)", i, i+1, d[i].p, d[i].c, d[i+1].p, d[i+1].c)
			}
		}
	}
	c.impl = []string{res}
	c.dl = nil
}

func judgeSortContract(c *kase, rep *vh.Report) {
	f := strings.Split(c.line, " ")
	n, _ := strconv.Atoi(f[2])
	rep.Case(c.line, n > 12)
	rep.Count("S.n." + bucket(n) + ".mode" + f[4])
	if c.impl[0] != "" {
		rep.Fail("property", "sort.Sort@n>12:contract-not-met",
			"sort.Sort with a reflexive total-preorder Less: "+c.impl[0], replayOf(c, nil))
	}
}

func genS(r *vh.Rng) string {
	n := 13 + r.Intn(60)
	switch {
	case r.Chance(30):
		n = 50 + r.Intn(500)
	case r.Chance(10):
		n = 1000 + r.Intn(4000)
	}
	pool := r.PickInt([]int{1, 2, 3, 5, n / 4, n, 4 * n})
	if pool < 1 {
		pool = 1
	}
	return fmt.Sprintf("S %d %d %d %d", r.U64()>>1, n, pool, r.Intn(3))
}
