package main

// Two more stages.
//
// readers: several goroutines call Read at once (different files, offsets, lengths), also while
// other goroutines log and while the current log file is read; every result must be a contiguous
// slice of the named file's content at the offset it reports, of at most the requested length.
// Before that, the sequential twin: an earlier result must not change when Read is called again.
//
// fault at the rotation cycle: the new day's file cannot be opened when the cycle runs (a directory
// has that name); after the fault is removed, the first cycle must put the logger on the file of
// the then current day and the following lines must be in that file.

import (
	"fmt"
	"os"
	"path/filepath"
	"strings"
	"sync"
	"time"

	"github.com/whatap/golib/logger/logfile"
	"verif/harness/vh"
)

func patternFile(idx, size int) []byte {
	b := make([]byte, size)
	for i := range b {
		b[i] = byte((i*7+idx*31)%251) + 1
	}
	return b
}

func readersOnce(iter, readers, per int, out *concOut) {
	clockInit()
	home := newHome()
	defer os.RemoveAll(home)
	logs := filepath.Join(home, "logs")
	sizes := []int{1, 100, 4096, 20000, 65536, 150000}
	contents := map[string][]byte{}
	var names []string
	for i, sz := range sizes {
		n := fmt.Sprintf("r%d.log", i)
		contents[n] = patternFile(i+iter, sz)
		names = append(names, n)
		os.WriteFile(filepath.Join(logs, n), contents[n], 0o644)
	}
	t0 := baseTime + int64(7000+iter%20000)*dayMs + 43200000
	setClock(t0)
	l := logfile.NewFileLogger(logfile.WithHomePath(home), logfile.WithOnameLogID("rd", "whatap"), logfile.WithLevel(0))
	created++
	waitParked()
	l.ProcessOnceForVerif()
	cur := curName(l)
	out.Iters++
	fail := func(key, f string, a ...interface{}) {
		if len(out.Findings) < 6 {
			out.Findings = append(out.Findings, concFinding{key, fmt.Sprintf(f, a...), iter, readers, per})
		}
	}
	// sequential twin: an earlier result stays what it was
	r1 := l.Read(names[4], 30000, 20000)
	if r1 != nil {
		keepText, keepB, keepN := strings.Clone(r1.Text), r1.Before, r1.Next
		_ = l.Read(names[5], 90000, 20000)
		_ = l.Read(names[3], -1, 20000)
		if r1.Text != keepText || r1.Before != keepB || r1.Next != keepN {
			fail("FileLogger.Read:earlier-result-changed", "iteration %d: the result of Read(%q,30000,20000) changed after two further Read calls", iter, names[4])
		}
	}
	type res struct {
		file   string
		before int64
		text   string
		length int64
	}
	var mu sync.Mutex
	var onLog []res
	var wg sync.WaitGroup
	stop := make(chan struct{})
	for w := 0; w < 2; w++ { // writers
		wg.Add(1)
		go func(w int) {
			defer wg.Done()
			for k := 0; ; k++ {
				select {
				case <-stop:
					return
				default:
				}
				_, msg := concMsg(90+w, k)
				l.Errorf("%s", msg)
			}
		}(w)
	}
	var rg sync.WaitGroup
	for g := 0; g < readers; g++ {
		rg.Add(1)
		go func(g int) {
			defer rg.Done()
			r := vh.NewRng(uint64(iter*1000 + g + 1))
			for k := 0; k < per; k++ {
				name := names[r.Intn(len(names))]
				if r.Chance(15) {
					name = cur
				}
				sz := int64(len(contents[name]))
				if name == cur {
					sz = 4000
				}
				end := r.Pick64([]int64{-1, sz, sz / 2, int64(r.Intn(int(sz) + 1)), 0})
				length := r.Pick64([]int64{1, 7, 4096, 20000, 70000, int64(r.Intn(60000) + 1)})
				d := l.Read(name, end, length)
				if d == nil {
					continue
				}
				if name == cur {
					mu.Lock()
					onLog = append(onLog, res{name, d.Before, d.Text, length})
					mu.Unlock()
					continue
				}
				c := contents[name]
				ok := d.Before >= 0 && d.Before+int64(len(d.Text)) <= int64(len(c)) && int64(len(d.Text)) <= length &&
					string(c[d.Before:d.Before+int64(len(d.Text))]) == d.Text
				if !ok {
					fail("FileLogger.Read:concurrent-readers", "iteration %d: %d goroutines reading at once: Read(%q,%d,%d) returned Before=%d and %d bytes that are not the content of that file at that offset",
						iter, readers, name, end, length, d.Before, len(d.Text))
					return
				}
				mu.Lock()
				out.Lines++
				mu.Unlock()
			}
		}(g)
	}
	rg.Wait()
	close(stop)
	wg.Wait()
	l.CloseForVerif()
	final, _ := os.ReadFile(filepath.Join(logs, cur))
	for _, x := range onLog { // the log file only grows: a slice read earlier is still there
		if x.before < 0 || x.before+int64(len(x.text)) > int64(len(final)) || int64(len(x.text)) > x.length ||
			string(final[x.before:x.before+int64(len(x.text))]) != x.text {
			fail("FileLogger.Read:concurrent-readers", "iteration %d: Read of the log file being written returned Before=%d and %d bytes that are not in the file at that offset", iter, x.before, len(x.text))
			break
		}
	}
}

// ---------------------------------------------------------------- fault at the rotation cycle

func faultStage(env *vh.Env, rep *vh.Report, rng *vh.Rng) {
	clockInit()
	n := 16
	if env.Thorough {
		n = 80
	}
	root := os.Geteuid() == 0
	for it := 0; it < n; it++ {
		home := newHome()
		logs := filepath.Join(home, "logs")
		day := int64(3000 + rng.Intn(30000))
		t := baseTime + day*dayMs + 43200000
		setClock(t)
		name := func(d int64) string { return "whatap-flt-" + dayStr(d) + ".log" }
		// the second kind of fault: removing an expired file fails (the logs directory is read-only
		// during one cycle on the same day); without effect for the super-user, then not run
		removeFault := it%4 == 3 && !root && os.Getenv("C17_REMOVE_FAULT") == "1" // not rehearsed as a non-super-user yet: opt-in
		expired := []string{name(day - 30), name(day - 9)}
		if removeFault {
			for _, x := range expired {
				os.WriteFile(filepath.Join(logs, x), []byte("old\n"), 0o644)
			}
		}
		var l *logfile.FileLogger
		steps := []string{fmt.Sprintf("logger created on %s", dayStr(day))}
		replay := func() map[string]interface{} {
			return map[string]interface{}{"stage": "fault", "day": day, "remove_fault": removeFault, "steps": append([]string{}, steps...)}
		}
		// call: every call into the logger under the watchdog; a call that does not return ends the stage
		hungAt := ""
		call := func(what string, f func()) bool {
			if hungAt != "" {
				return false
			}
			g := guarded(f)
			if g.Timeout {
				hungAt = what
				wd := watchdog()
				hangs++
				lostRuns++
				key := "FileLogger.process:hang-after-fault"
				if !strings.HasPrefix(what, "cycle") {
					key = "FileLogger.call:hang-after-fault"
				}
				rep.Fail("property", key, fmt.Sprintf("%s did not return within %v; steps so far: %s — after a fault inside the periodic cycle the cycle must complete and later cycles must rotate and prune again, and log calls must still append",
					what, wd, strings.Join(steps, "; ")), replay())
				return false
			}
			if !g.OK() {
				rep.Fail("property", "FileLogger.process:panic", what+" panicked: "+g.Panic, replay())
			}
			return true
		}
		call("NewFileLogger", func() {
			l = logfile.NewFileLogger(logfile.WithHomePath(home), logfile.WithOnameLogID("flt", "whatap"), logfile.WithLevel(0))
		})
		created++
		if l == nil {
			break
		}
		waitParked()
		call("the log call before the fault", func() { l.Errorf("%s", "before the fault #1#") })
		faultDays := 1 + rng.Intn(2) // the fault lasts over one or two midnights
		cyclesInFault := 1 + rng.Intn(3)
		if removeFault {
			faultDays = 0
			t += 61000
			for k := 0; k < cyclesInFault; k++ {
				os.Chmod(logs, 0o555)
				setClock(t)
				steps = append(steps, fmt.Sprintf("cycle at +%d s on the same day while <home>/logs is read-only (removing %v fails)", (t-baseTime-day*dayMs-43200000)/1000, expired))
				call(fmt.Sprintf("cycle %d with the failing remove", k), func() { l.ProcessOnceForVerif() })
				os.Chmod(logs, 0o755)
				call(fmt.Sprintf("the log call after cycle %d with the failing remove", k), func() { l.Errorf("during the fault %d", k) })
				t += 61000
			}
		} else {
			// the fault: a directory has the name of the next day's file
			os.Mkdir(filepath.Join(logs, name(day+1)), 0o755)
			if faultDays == 2 {
				os.Mkdir(filepath.Join(logs, name(day+2)), 0o755)
			}
			t = baseTime + (day+int64(faultDays))*dayMs + int64(rng.Intn(3600000))
			for k := 0; k < cyclesInFault; k++ {
				setClock(t)
				steps = append(steps, fmt.Sprintf("cycle at %s with a directory named %s", dayStr(day+int64(faultDays)), name(day+int64(faultDays))))
				call(fmt.Sprintf("cycle %d with the failing open", k), func() { l.ProcessOnceForVerif() })
				call(fmt.Sprintf("the log call after cycle %d with the failing open", k), func() { l.Errorf("during the fault %d", k) })
				t += 61000
			}
		}
		// heal
		os.Chmod(logs, 0o755)
		os.Remove(filepath.Join(logs, name(day+1)))
		os.Remove(filepath.Join(logs, name(day+2)))
		setClock(t)
		steps = append(steps, "fault removed; cycle 61 s later")
		call("cycle after the fault was removed", func() { l.ProcessOnceForVerif() })
		tok := fmt.Sprintf("after the fault healed #77%05d#", it)
		call("the log call after the fault was removed", func() { l.Errorf("%s", tok) })
		if hungAt != "" {
			// established once: the logger's lock is taken for good; no further iteration (each would
			// block for the whole watchdog again)
			rep.Case(fmt.Sprintf("fault/%d/%d/%d/%d", day, faultDays, cyclesInFault, it), true)
			rep.Count("fault:hang-established")
			os.RemoveAll(home)
			return
		}
		want := name(day + int64(faultDays))
		got := curName(l)
		b, _ := os.ReadFile(filepath.Join(logs, want))
		inNew := strings.Count(string(b), tok)
		rep.Case(fmt.Sprintf("fault/%d/%d/%d/%d", day, faultDays, cyclesInFault, it), true)
		if removeFault {
			rep.Count("fault:retention-cycles-with-failing-remove")
			var left []string
			for _, x := range expired {
				if _, err := os.Stat(filepath.Join(logs, x)); err == nil {
					left = append(left, x)
				}
			}
			if len(left) > 0 || got != want || inNew != 1 {
				rep.Fail("property", "FileLogger.process:retention-after-remove-fault",
					fmt.Sprintf("removing the expired files failed at %d cycle(s) (read-only directory); after the directory was writable again and a cycle ran 61 s later, still present: %v; open file %q (expected %q); the next line is %d time(s) in it",
						cyclesInFault, left, got, want, inNew), replay())
			}
		} else {
			rep.Count("fault:rotation-cycles-with-unopenable-file")
			if got != want || inNew != 1 {
				rep.Fail("property", "FileLogger.process:rotation-after-open-fault",
					fmt.Sprintf("the new day's file could not be opened at %d cycle(s) (a directory had its name); after the directory was removed and a cycle ran on %s, the open file is %q (expected %q) and the next line is %d time(s) in %q",
						cyclesInFault, dayStr(day+int64(faultDays)), got, want, inNew, want),
					map[string]interface{}{"stage": "fault", "day": day, "fault_days": faultDays, "cycles_in_fault": cyclesInFault, "steps": steps})
			}
		}
		guarded(func() { l.CloseForVerif() })
		os.RemoveAll(home)
	}
	if root {
		rep.Count("fault:failing-remove-not-run(super-user)")
	}
	_ = time.Now
}
