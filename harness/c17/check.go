package main

// Comparing an observed run with the Lean driver's answers, and evaluating the property
// directly on what the implementation did (independently of the model).

import (
	"bytes"
	"fmt"
	"os"
	"path/filepath"
	"regexp"
	"sort"
	"strconv"
	"strings"
	"time"

	"verif/harness/vh"
)

type mismatch struct {
	Key    string
	Op     int
	Detail string
}

var stampRe = regexp.MustCompile(`^\d{4}/\d{2}/\d{2} \d{2}:\d{2}:\d{2} $`)

var ansiResetNl = []byte("\x1b[0m\n")

func sortCSV(s string) string {
	if s == "-" || s == "" {
		return "-"
	}
	p := strings.Split(s, ",")
	sort.Strings(p)
	return strings.Join(p, ",")
}

// matchFile checks that content = init ++ stamped chunks, exactly.
func matchFile(content []byte, spec string) error {
	parts := strings.Split(spec, "|")
	init := vh.UnHex(parts[0])
	if !bytes.HasPrefix(content, init) {
		return fmt.Errorf("initial content (%d bytes) is not a prefix of the file", len(init))
	}
	rest := content[len(init):]
	for k, ch := range parts[1:] {
		if len(ch) < 2 || ch[1] != '.' {
			return fmt.Errorf("bad chunk %q", ch)
		}
		body := vh.UnHex(ch[2:])
		if len(rest) < 20 || !stampRe.Match(rest[:20]) {
			return fmt.Errorf("chunk %d: no time stamp at offset %d (remaining %q)", k, len(content)-len(rest), vh.Clip(string(rest), 60))
		}
		rest = rest[20:]
		if !bytes.HasPrefix(rest, body) {
			return fmt.Errorf("chunk %d: expected %q, file has %q", k, vh.Clip(string(body), 80), vh.Clip(string(rest), 80))
		}
		rest = rest[len(body):]
		switch ch[0] {
		case 'l':
		case 'n':
			j := bytes.IndexByte(rest, '\n')
			if j < 0 {
				return fmt.Errorf("chunk %d: unterminated line", k)
			}
			rest = rest[j+1:]
		case 'x':
			j := bytes.Index(rest, ansiResetNl)
			if j < 0 {
				return fmt.Errorf("chunk %d: unterminated error line", k)
			}
			rest = rest[j+len(ansiResetNl):]
		default:
			return fmt.Errorf("bad chunk kind %q", ch)
		}
	}
	if len(rest) != 0 {
		return fmt.Errorf("%d unexpected trailing bytes: %q", len(rest), vh.Clip(string(rest), 80))
	}
	return nil
}

// compare returns the disagreements between the implementation's observations and the
// driver's answers for one history.
func compare(c *hcase, ob *obs, ans []string) []mismatch {
	var mm []mismatch
	if len(ans) != len(c.Ops)+2 {
		return []mismatch{{"model:protocol", -1, fmt.Sprintf("%d answers for %d ops", len(ans), len(c.Ops))}}
	}
	if len(ob.panics) > 0 && ob.newCur == "" {
		return []mismatch{{"model:new", -1, "NewFileLogger failed: " + ob.panics[0]}}
	}
	if want := "ok " + vh.Hex([]byte(ob.newCur)); ans[0] != want {
		mm = append(mm, mismatch{"model:new", -1, fmt.Sprintf("open file after NewFileLogger: impl %q, model %q", want, ans[0])})
	}
	for i := range c.Ops {
		a := ans[i+1]
		o := &c.Ops[i]
		var canon string
		switch o.Kind {
		case "log":
			if a == "w" {
				canon = "w"
			} else if a == "gate" || a == "rate" {
				canon = "s"
			} else {
				canon = a
			}
		case "proc":
			f := strings.Fields(a)
			if len(f) == 3 {
				canon = "del " + sortCSV(f[1]) + " " + f[2]
			} else {
				canon = a
			}
		case "clr":
			f := strings.Fields(a)
			if len(f) == 2 {
				canon = "del " + sortCSV(f[1])
			} else {
				canon = a
			}
		case "read":
			if strings.HasPrefix(a, "nil") {
				canon = "nil"
			} else {
				canon = a
			}
		case "files":
			f := strings.Fields(a)
			if len(f) == 2 && f[0] == "files" {
				canon = "files " + sortCSV(f[1])
			} else {
				canon = a
			}
		case "path":
			if a == "none" {
				canon = "panic" // no open file: nil dereference in GetLogFilePath
			} else {
				canon = a
			}
		default:
			canon = a
		}
		if canon != ob.outs[i] {
			mm = append(mm, mismatch{"model:" + o.Kind, i, fmt.Sprintf("op %d %s: impl %q, model %q", i, o.Kind, vh.Clip(ob.outs[i], 200), vh.Clip(canon, 200))})
		}
	}
	// final directory
	dump := ans[len(ans)-1]
	model := map[string]string{}
	if dump != "-" {
		for _, fe := range strings.Split(dump, ";") {
			kv := strings.SplitN(fe, "=", 2)
			if len(kv) != 2 {
				return append(mm, mismatch{"model:protocol", -1, "bad dump entry " + vh.Clip(fe, 80)})
			}
			model[string(vh.UnHex(kv[0]))] = kv[1]
		}
	}
	var names []string
	for n := range ob.files {
		names = append(names, n)
	}
	sort.Strings(names)
	for _, n := range names {
		spec, ok := model[n]
		if !ok {
			mm = append(mm, mismatch{"model:dir", -1, fmt.Sprintf("file %q exists, the model has no such file", n)})
			continue
		}
		if err := matchFile(ob.files[n], spec); err != nil {
			mm = append(mm, mismatch{"model:content", -1, fmt.Sprintf("file %q: %v", n, err)})
		}
	}
	for n := range model {
		if _, ok := ob.files[n]; !ok {
			mm = append(mm, mismatch{"model:dir", -1, fmt.Sprintf("the model has file %q, the directory does not", n)})
		}
	}
	return mm
}

// ---------------------------------------------------------------- the property, directly

type pfail struct {
	Key     string
	Summary string
}

func methThreshold(m string) int { // written iff level <= threshold
	switch m {
	case "warnf", "warn":
		return 2
	case "infof", "info", "infoln":
		return 1
	case "debugf", "debug":
		return 0
	}
	return 1 << 30
}

func methLn(m string) bool {
	switch m {
	case "error", "warn", "info", "infoln", "debug", "println":
		return true
	}
	return false
}

func methRated(m string) bool {
	switch m {
	case "debugf", "debug", "printlnstd":
		return false
	}
	return true
}

func levelOf(s string) int {
	switch strings.ToLower(s) {
	case "error":
		return 3
	case "warn":
		return 2
	case "info":
		return 1
	case "debug":
		return 0
	}
	return 2
}

func specDay(t int64) string { return time.UnixMilli(t).UTC().Format("20060102") }

func specName(c *hcase, rot bool, t int64) string {
	if rot {
		return c.LogID + "-" + c.Oname + "-" + specDay(t) + ".log"
	}
	return c.LogID + "-" + c.Oname + ".log"
}

// datedAge: the name carries the prefix and an 8-digit calendar date between its last '-'
// and last '.'; returns the age in days at time t.
func datedAge(logID, name string, t int64) (prefix, dated bool, age int64) {
	prefix = strings.HasPrefix(name, logID+"-")
	x := strings.LastIndex(name, ".")
	s := strings.LastIndex(name, "-")
	if x < 0 || s < 0 || s+1 >= x {
		return prefix, false, 0
	}
	d := name[s+1 : x]
	if len(d) != 8 {
		return prefix, false, 0
	}
	for _, ch := range []byte(d) {
		if ch < '0' || ch > '9' {
			return prefix, false, 0
		}
	}
	tm, err := time.Parse("20060102", d)
	if err != nil {
		return prefix, false, 0
	}
	fileDay := tm.Unix() / 86400
	nowDay := t / 1000 / 86400
	return prefix, true, nowDay - fileDay
}

func escapes(home, file string) (bool, string) {
	logs := filepath.Join(home, "logs")
	target := filepath.Join(logs, file)
	rel, err := filepath.Rel(logs, target)
	if err != nil || rel == ".." || strings.HasPrefix(rel, "../") {
		return true, rel
	}
	if rel == "." {
		rel = ""
	}
	return false, rel
}

// direct evaluates the statement of C17 on the observed behaviour of the implementation.
func direct(c *hcase, ob *obs) []pfail {
	var fs []pfail
	add := func(k, f string, a ...interface{}) { fs = append(fs, pfail{k, fmt.Sprintf(f, a...)}) }
	for _, p := range ob.panics {
		switch {
		case strings.Contains(p, "did not return") && (strings.Contains(p, "background cycle") || strings.Contains(p, "retention pass")):
			add("FileLogger.process:hang", "%s — the periodic cycle never completes: no rotation to a new day's file, no retention, and the logger's lock stays taken (history up to that operation in the replay)", p)
		case strings.Contains(p, "did not return"):
			add("FileLogger.call:hang", "%s", p)
		case strings.Contains(p, " read: "):
			add("FileLogger.Read:panic", "%s", p)
		case strings.HasPrefix(p, "NewFileLogger"):
			add("FileLogger.New:panic", "%s", p)
		default:
			add("FileLogger.call:panic", "%s", p)
		}
	}
	if ob.newCur == "" {
		return fs
	}
	level, interval, keep, rot := c.Level, 10, 7, true
	last := c.T0
	specRot := true
	specCur := specName(c, true, c.T0)
	specUnit := unitOf(c.T0)
	lastAny := map[string]int64{}
	lastPut := map[string]int64{} // what the id cache must hold as long as nothing was evicted
	everPut := map[string]bool{}  // ids that may ever have entered the cache
	// the bounded table as specified (C09: insertion-ordered dictionary, a new key at capacity
	// forgets the eldest, a known key keeps its place); capacity read from the source
	capN := idCacheCap
	var fifoKeys []string
	fifo := map[string]int64{}
	fifoExact := true // false once a line of the logger's own (unobserved id) may have entered
	fifoPut := func(id string, t int64) {
		if _, ok := fifo[id]; ok {
			fifo[id] = t
			return
		}
		for capN > 0 && len(fifoKeys) >= capN {
			delete(fifo, fifoKeys[0])
			fifoKeys = fifoKeys[1:]
		}
		fifoKeys = append(fifoKeys, id)
		fifo[id] = t
	}
	type placed struct {
		tok  string
		file string
		op   int
	}
	var expect []placed
	removed := map[string]int{} // file -> op index of the last removal
	if ob.newCur != specCur {
		add("FileLogger.openFile:name", "after NewFileLogger at %s the open file is %q, expected %q", specDay(c.T0), ob.newCur, specCur)
	}
	for i := range c.Ops {
		o := &c.Ops[i]
		if ob.outs[i] == "timeout" || ob.outs[i] == "" {
			break // the history stopped here
		}
		if ob.outs[i] == "panic" {
			continue
		}
		switch o.Kind {
		case "lvl":
			level = o.Lv
		case "cfg":
			rot, keep, interval, level = o.Rot, o.Keep, o.Interval, levelOf(o.LevelStr)
		case "log":
			msg := string(vh.UnHex(o.Msg))
			s := msg
			if methLn(o.Meth) {
				s += "\n"
			}
			id := s
			if len(id) > 10 {
				id = id[:10]
			}
			if o.Meth == "printf" || o.Meth == "println" {
				id = string(vh.UnHex(o.ID))
			}
			levelOK := level <= methThreshold(o.Meth)
			within := false
			if methRated(o.Meth) && interval > 0 && id != "" {
				if t, ok := lastAny[id]; ok && o.T < t+int64(interval)*1000 {
					within = true
				}
			}
			w := ob.wrote[i]
			if w && levelOK && methRated(o.Meth) && interval > 0 && id != "" && len(everPut) < capN {
				if t, ok := lastPut[id]; ok && o.T < t+int64(interval)*1000 {
					add("FileLogger.log:repeat-not-suppressed", "op %d: %s with id %q was written %d ms after a line with the same id (interval %d s, %d distinct ids so far: below the capacity of the id cache)",
						i, o.Meth, id, o.T-t, interval, len(everPut))
				}
			}
			// the table is (or has been) full: follow the specified eviction exactly
			if fifoExact && levelOK && methRated(o.Meth) && interval > 0 && id != "" && len(everPut) >= capN {
				t, resident := fifo[id]
				mustSuppress := resident && o.T < t+int64(interval)*1000
				switch {
				case w && mustSuppress:
					add("FileLogger.log:repeat-suppression:full-table", "op %d: %s with id %q was written %d ms after a line with the same id (interval %d s) although the id table (capacity %d, %d distinct ids so far, eldest forgotten first) still holds that id — its entry is number %d of %d counted from the eldest",
						i, o.Meth, id, o.T-t, interval, capN, len(everPut), indexOf(fifoKeys, id)+1, len(fifoKeys))
				case !w && !mustSuppress && ob.curAt[i] != "none":
					why := "its last line is older than the interval"
					if !resident {
						why = "the table (eldest forgotten first) no longer holds it"
					}
					add("FileLogger.log:repeat-suppression:full-table", "op %d: %s with id %q was suppressed although %s (capacity %d, %d distinct ids so far, interval %d s)",
						i, o.Meth, id, why, capN, len(everPut), interval)
				}
			}
			if w && !levelOK {
				add("FileLogger.log:below-level-written", "op %d: %s at level %d was written", i, o.Meth, level)
			}
			if !w && levelOK && !within && ob.curAt[i] != "none" {
				add("FileLogger.log:line-suppressed", "op %d: %s(%q) at level %d, interval %d s, was not written although no message with id %q was written in the previous interval",
					i, o.Meth, vh.Clip(msg, 40), level, interval, id)
			}
			if w {
				if methRated(o.Meth) {
					if t, ok := lastAny[id]; !ok || o.T > t {
						lastAny[id] = o.T
					}
					if interval > 0 && id != "" {
						lastPut[id] = o.T
						everPut[id] = true
						fifoPut(id, o.T)
					}
				}
				if tok := tokenOf(msg); tok != "" {
					expect = append(expect, placed{tok, specCur, i})
				}
			}
		case "proc", "clr":
			ran := o.Kind == "clr"
			if o.Kind == "proc" && o.T > last+60000 {
				last = o.T
				ran = true
			}
			// "and nothing else": retention removes files of <home>/logs only — never a directory, never
			// anything of another directory
			for _, n := range ob.dirDels[i] {
				add("FileLogger.clearOldLog:directory-removed", "op %d: the DIRECTORY %q under <home>/logs was removed by the retention pass (retention removes the logger's own dated log files and nothing else)", i, n)
			}
			for _, n := range ob.outDels[i] {
				add("FileLogger.clearOldLog:file-outside-logs-dir-removed", "op %d: home is <base>/%s; the file %q of the OTHER home directory <base>/%s/logs was removed by this logger's retention pass", i, c.Home, n, c.Twin)
			}
			for _, n := range ob.dels[i] {
				removed[n] = i
				prefix, dated, age := datedAge(c.LogID, n, o.T)
				switch {
				case !prefix:
					add("FileLogger.clearOldLog:foreign-file-deleted", "op %d: %q does not carry the prefix %q and was removed", i, n, c.LogID+"-")
				case !dated:
					add("FileLogger.clearOldLog:undated-file-deleted", "op %d: %q has no 8-digit calendar date between its last '-' and last '.' and was removed", i, n)
				case !(rot && keep > 0):
					add("FileLogger.clearOldLog:retention-off-deleted", "op %d: %q removed with rotation=%v keep=%d", i, n, rot, keep)
				case age <= int64(keep):
					add("FileLogger.clearOldLog:young-file-deleted", "op %d: %q is %d days old, keep=%d, and was removed", i, n, age, keep)
				}
			}
			if ran && rot && keep > 0 {
				delset := map[string]bool{}
				for _, n := range ob.dels[i] {
					delset[n] = true
				}
				for _, n := range ob.before[i] {
					prefix, dated, age := datedAge(c.LogID, n, o.T)
					if prefix && dated && age > int64(keep) && !delset[n] {
						add("FileLogger.clearOldLog:old-own-file-kept", "op %d: %q is %d days old, keep=%d, and was not removed", i, n, age, keep)
					}
				}
			}
			if o.Kind == "proc" {
				if specRot != rot || specUnit != unitOf(o.T) {
					specRot, specUnit = rot, unitOf(o.T)
					specCur = specName(c, rot, o.T)
				}
				if ob.curAt[i] != specCur {
					add("FileLogger.process:rotation-target", "op %d: after the cycle at %s (rotation=%v) the open file is %q, expected %q", i, specDay(o.T), rot, ob.curAt[i], specCur)
				}
			}
		case "read":
			d := ob.readRes[i]
			if ob.wrote[i] {
				// the logger wrote an error line of its own; it takes part in the rate limit
				for _, id := range []string{"Read log f", "WA1000901 "} {
					if t, ok := lastAny[id]; !ok || o.T > t {
						lastAny[id] = o.T
					}
					delete(lastPut, id) // which of the two was written is not observed
					everPut[id] = true
				}
				fifoExact = false
			}
			if d == nil {
				continue
			}
			esc, rel := escapes(ob.home, ob.readFile[i])
			if esc {
				add("FileLogger.Read:escapes-logs-dir", "op %d: Read(%q) returned %d bytes of a path outside <home>/logs (%s): %q", i,
					strings.ReplaceAll(ob.readFile[i], ob.home, "@home"), len(d.Text), rel, vh.Clip(d.Text, 40))
				continue
			}
			content, ok := ob.snapMap[i][rel]
			if !ok {
				add("FileLogger.Read:window", "op %d: Read(%q) returned data for a path that does not exist", i, ob.readFile[i])
				continue
			}
			okWin := d.Before >= 0 && d.Before <= int64(len(content)) && int64(len(d.Text)) <= o.Length &&
				d.Before+int64(len(d.Text)) <= int64(len(content)) && string(content[d.Before:d.Before+int64(len(d.Text))]) == d.Text
			if !okWin {
				add("FileLogger.Read:window", "op %d: Read(%q,%d,%d) on %d bytes returned Before=%d len(Text)=%d which is not a slice of the content at that offset of at most the requested length",
					i, rel, o.Endpos, o.Length, len(content), d.Before, len(d.Text))
			}
		}
	}
	// placement and order of the marked lines
	lastPos := map[string]int{}
	lastOp := map[string]int{}
	want := map[[2]string]int{} // a marked message logged several times is due as often as it was written
	for _, e := range expect {
		want[[2]string{e.file, e.tok}]++
	}
	for _, e := range expect {
		content, ok := ob.files[e.file]
		if _, was := removed[e.file]; was {
			continue // the file was pruned at some point (before: written to an unlinked handle; after: gone with the file)
		}
		if !ok {
			add("FileLogger.log:line-missing", "op %d: line %s was written to %q, which does not exist at the end", e.op, e.tok, e.file)
			continue
		}
		k := bytes.Count(content, []byte(e.tok))
		if n := want[[2]string{e.file, e.tok}]; k != n {
			add("FileLogger.log:line-missing", "op %d: line %s occurs %d times in %q (expected %d)", e.op, e.tok, k, e.file, n)
			continue
		} else if n > 1 {
			continue // repeated marker: order is checked on the single ones
		}
		pos := bytes.Index(content, []byte(e.tok))
		if p, ok := lastPos[e.file]; ok && pos < p {
			add("FileLogger.log:order", "line %s (op %d) lies before the line of op %d in %q", e.tok, e.op, lastOp[e.file], e.file)
		}
		lastPos[e.file], lastOp[e.file] = pos, e.op
	}
	return fs
}

var tokRe = regexp.MustCompile(`#[0-9]+#`)

func tokenOf(msg string) string { return tokRe.FindString(msg) }


func indexOf(xs []string, x string) int {
	for i, y := range xs {
		if y == x {
			return i
		}
	}
	return -1
}

// idCacheCap is the capacity of the logger's id table, read from the source
// (`hmap.NewStringLongLinkedMap().SetMax(N)` in NewFileLogger); 1000 when it cannot be read.
var idCacheCap = 1000

var setMaxRe = regexp.MustCompile(`NewStringLongLinkedMap\(\)\.SetMax\((\d+)\)`)

func readIDCacheCap(repo string) {
	b, err := os.ReadFile(filepath.Join(repo, "logger/logfile/FileLogger.go"))
	if err != nil {
		return
	}
	if m := setMaxRe.FindSubmatch(b); m != nil {
		if n, err := strconv.Atoi(string(m[1])); err == nil && n > 0 {
			idCacheCap = n
		}
	}
}
