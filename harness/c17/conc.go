package main

// Concurrent stage: several goroutines log while one background cycle rotates the file.
// Every line must end up whole, exactly once, in the old or the new file, and each
// goroutine's lines must keep their order (old file first).  The stage runs in a child
// process that lives less than the 10 s timer of the loggers it creates, so that under
// -race (thorough tier) every clock change is ordered before the goroutines that read it.

import (
	"bytes"
	"context"
	"encoding/json"
	"fmt"
	"os"
	"os/exec"
	"path/filepath"
	"regexp"
	"strconv"
	"strings"
	"sync"
	"sync/atomic"
	"time"

	"github.com/whatap/golib/logger/logfile"
	"verif/harness/vh"
)

type concFinding struct {
	Key     string `json:"key"`
	Summary string `json:"summary"`
	Iter    int    `json:"iter"`
	Writers int    `json:"writers"`
	Per     int    `json:"per"`
}

type concOut struct {
	Iters    int           `json:"iters"`
	Lines    int           `json:"lines"`
	InOld    int           `json:"in_old"`
	InNew    int           `json:"in_new"`
	Findings []concFinding `json:"findings"`
	Settle   int           `json:"settle_timeouts"`
}

var concMeths = []string{"errorf", "warnf", "infof", "debugf", "printf"}

func concMsg(g, k int) (string, string) {
	tok := fmt.Sprintf("g%02d-%06d", g, k)
	return tok, tok + " " + strings.Repeat("x", (g*7+k*13)%180)
}

func concPayload(g, k int) string {
	tok, msg := concMsg(g, k)
	switch concMeths[(g+k)%len(concMeths)] {
	case "errorf":
		return "\x1b[31m[Error] " + msg + "\x1b[0m\n"
	case "warnf":
		return "[Warn]  " + msg + "\n"
	case "infof":
		return "[Info]  " + msg + "\n"
	case "debugf":
		return "[Debug]  " + msg + "\n"
	default:
		return "[" + tok + "] [" + tok + "] " + msg + "\n"
	}
}

var concTok = regexp.MustCompile(`g(\d\d)-(\d{6})`)

// parse one file: returns the (g,k) of its lines in order, or an error for a torn/foreign line
func concParse(content []byte) ([][2]int, error) {
	var out [][2]int
	p := 0
	for p < len(content) {
		if len(content)-p < 20 || !stampRe.Match(content[p:p+20]) {
			return out, fmt.Errorf("offset %d: no time stamp: %q", p, vh.Clip(string(content[p:]), 60))
		}
		p += 20
		j := bytes.IndexByte(content[p:], '\n')
		if j < 0 {
			return out, fmt.Errorf("offset %d: unterminated line", p)
		}
		line := string(content[p : p+j+1])
		p += j + 1
		if line == "\n" || strings.HasPrefix(line, "## OPEN LOG FILE ") {
			continue
		}
		m := concTok.FindStringSubmatch(line)
		if m == nil {
			return out, fmt.Errorf("offset %d: unexpected line %q", p, vh.Clip(line, 80))
		}
		g, _ := strconv.Atoi(m[1])
		k, _ := strconv.Atoi(m[2])
		if line != concPayload(g, k) {
			return out, fmt.Errorf("offset %d: torn or altered line %q, expected %q", p, vh.Clip(line, 80), vh.Clip(concPayload(g, k), 80))
		}
		out = append(out, [2]int{g, k})
	}
	return out, nil
}

func concOnce(iter, writers, per int, out *concOut) {
	clockInit()
	home := newHome()
	defer os.RemoveAll(home)
	d := int64(5000 + iter%20000)
	t0 := baseTime + d*dayMs + 43200000
	setClock(t0)
	l := logfile.NewFileLogger(logfile.WithHomePath(home), logfile.WithOnameLogID("conc", "whatap"), logfile.WithLevel(0))
	created++
	waitParked()
	l.ProcessOnceForVerif() // takes the logger's lock after the start-up cycle: orders it before what follows
	oldName := curName(l)
	setClock(t0 + dayMs)
	var wg sync.WaitGroup
	var done int64
	start := make(chan struct{})
	for g := 0; g < writers; g++ {
		wg.Add(1)
		go func(g int) {
			defer wg.Done()
			<-start
			for k := 0; k < per; k++ {
				tok, msg := concMsg(g, k)
				switch concMeths[(g+k)%len(concMeths)] {
				case "errorf":
					l.Errorf("%s", msg)
				case "warnf":
					l.Warnf("%s", msg)
				case "infof":
					l.Infof("%s", msg)
				case "debugf":
					l.Debugf("%s", msg)
				default:
					l.Printf(tok, "%s", msg)
				}
				atomic.AddInt64(&done, 1)
			}
		}(g)
	}
	wg.Add(1)
	go func() {
		defer wg.Done()
		<-start
		target := int64(writers*per) * int64(20+iter%60) / 100
		for atomic.LoadInt64(&done) < target {
			time.Sleep(20 * time.Microsecond)
		}
		l.ProcessOnceForVerif()
	}()
	close(start)
	wg.Wait()
	newName := curName(l)
	l.CloseForVerif()
	out.Iters++
	out.Lines += writers * per
	fail := func(key, f string, a ...interface{}) {
		if len(out.Findings) < 6 {
			out.Findings = append(out.Findings, concFinding{key, fmt.Sprintf(f, a...), iter, writers, per})
		}
	}
	if newName == oldName {
		fail("FileLogger.process:rotation-target", "iteration %d: after a cycle on the next day the open file is still %q", iter, oldName)
		return
	}
	oldC, _ := os.ReadFile(filepath.Join(home, "logs", oldName))
	newC, _ := os.ReadFile(filepath.Join(home, "logs", newName))
	oldL, err1 := concParse(oldC)
	newL, err2 := concParse(newC)
	if err1 != nil {
		fail("FileLogger.log:torn-line", "iteration %d: %s: %v", iter, oldName, err1)
	}
	if err2 != nil {
		fail("FileLogger.log:torn-line", "iteration %d: %s: %v", iter, newName, err2)
	}
	out.InOld += len(oldL)
	out.InNew += len(newL)
	count := map[[2]int]int{}
	lastK := map[int]int{}
	for g := 0; g < writers; g++ {
		lastK[g] = -1
	}
	for _, ls := range [][][2]int{oldL, newL} {
		for _, x := range ls {
			count[x]++
			if x[1] <= lastK[x[0]] {
				fail("FileLogger.log:order", "iteration %d: goroutine %d: line %d follows line %d", iter, x[0], x[1], lastK[x[0]])
			}
			lastK[x[0]] = x[1]
		}
	}
	var lost []string
	for g := 0; g < writers; g++ {
		for k := 0; k < per; k++ {
			switch n := count[[2]int{g, k}]; {
			case n == 0:
				tok, _ := concMsg(g, k)
				lost = append(lost, tok)
			case n > 1:
				fail("FileLogger.log:duplicate-line", "iteration %d: line g%02d-%06d occurs %d times", iter, g, k, n)
			}
		}
	}
	if len(lost) > 0 {
		fail("FileLogger.process:line-lost-during-rotation",
			"iteration %d: %d goroutines x %d lines while one cycle rotates %s -> %s: %d lines are in neither file (first: %s); the old file is closed before the new one is installed",
			iter, writers, per, oldName, newName, len(lost), strings.Join(lost[:min(3, len(lost))], ","))
	}
}

// confOnce: goroutines log while another one calls SetLevel / ApplyConfig (with the values already
// in force, so that every line is still due).  Functionally every line must arrive whole, once,
// in order; under -race the unsynchronised conf fields are what the detector reports.
func confOnce(iter, writers, per int, out *concOut) {
	clockInit()
	home := newHome()
	defer os.RemoveAll(home)
	t0 := baseTime + int64(6000+iter%20000)*dayMs + 43200000
	setClock(t0)
	l := logfile.NewFileLogger(logfile.WithHomePath(home), logfile.WithOnameLogID("conf", "whatap"), logfile.WithLevel(0))
	created++
	waitParked()
	l.ProcessOnceForVerif()
	name := curName(l)
	var wg sync.WaitGroup
	var done int64
	start := make(chan struct{})
	total := int64(writers * per)
	for g := 0; g < writers; g++ {
		wg.Add(1)
		go func(g int) {
			defer wg.Done()
			<-start
			for k := 0; k < per; k++ {
				tok, msg := concMsg(g, k)
				switch concMeths[(g+k)%len(concMeths)] {
				case "errorf":
					l.Errorf("%s", msg)
				case "warnf":
					l.Warnf("%s", msg)
				case "infof":
					l.Infof("%s", msg)
				case "debugf":
					l.Debugf("%s", msg)
				default:
					l.Printf(tok, "%s", msg)
				}
				atomic.AddInt64(&done, 1)
			}
		}(g)
	}
	wg.Add(1)
	go func() {
		defer wg.Done()
		<-start
		for i := 0; atomic.LoadInt64(&done) < total; i++ {
			if i%2 == 0 {
				l.SetLevel(0)
			} else {
				l.ApplyConfig(&fakeConf{rot: true, keep: 7, interval: 10, level: "debug"})
			}
			time.Sleep(10 * time.Microsecond)
		}
	}()
	close(start)
	wg.Wait()
	l.CloseForVerif()
	out.Iters++
	out.Lines += writers * per
	fail := func(key, f string, a ...interface{}) {
		if len(out.Findings) < 6 {
			out.Findings = append(out.Findings, concFinding{key, fmt.Sprintf(f, a...), iter, writers, per})
		}
	}
	content, _ := os.ReadFile(filepath.Join(home, "logs", name))
	ls, err := concParse(content)
	if err != nil {
		fail("FileLogger.log:torn-line", "iteration %d (settings rewritten under load): %s: %v", iter, name, err)
	}
	out.InOld += len(ls)
	count := map[[2]int]int{}
	lastK := map[int]int{}
	for g := 0; g < writers; g++ {
		lastK[g] = -1
	}
	for _, x := range ls {
		count[x]++
		if x[1] <= lastK[x[0]] {
			fail("FileLogger.log:order", "iteration %d (settings rewritten under load): goroutine %d: line %d follows line %d", iter, x[0], x[1], lastK[x[0]])
		}
		lastK[x[0]] = x[1]
	}
	missing := 0
	for g := 0; g < writers; g++ {
		for k := 0; k < per; k++ {
			if count[[2]int{g, k}] != 1 {
				missing++
			}
		}
	}
	if missing > 0 {
		fail("FileLogger.log:line-missing", "iteration %d: %d of %d lines are not in the file exactly once while SetLevel/ApplyConfig rewrite the settings already in force", iter, missing, writers*per)
	}
}

// concChild is the body of the child process.
func concChild() {
	writers, _ := strconv.Atoi(os.Getenv("C17_WRITERS"))
	per, _ := strconv.Atoi(os.Getenv("C17_PER"))
	first, _ := strconv.Atoi(os.Getenv("C17_FIRST"))
	budget, _ := strconv.Atoi(os.Getenv("C17_BUDGET_MS"))
	deadline := time.Now().Add(time.Duration(budget) * time.Millisecond)
	var out concOut
	born := time.Now()
	for it := first; time.Now().Before(deadline) && time.Since(born) < 8*time.Second; it++ {
		if os.Getenv("C17_SCENARIO") == "conf" {
			confOnce(it, writers, per, &out)
		} else if os.Getenv("C17_SCENARIO") == "readers" {
			readersOnce(it, writers, per, &out)
		} else {
			concOnce(it, writers, per, &out)
		}
	}
	out.Settle = settleTimeouts
	b, _ := json.Marshal(out)
	fmt.Println("C17CONC " + string(b))
}

const confRaceKey = "FileLogger.conf:data-race"
const confRaceWhat = "SetLevel/ApplyConfig write this.conf.level, cacheInterval, rotationEnabled, keepDays, IsStdout without synchronisation while every log call reads conf.level and conf.cacheInterval (witness: 3-12 goroutines logging while one goroutine calls SetLevel(0) and ApplyConfig with the settings already in force)"

// confRaceStatic: the unsynchronised write/read pair is present in the source (used where the
// binary is not built with -race).
func confRaceStatic(repo string) bool {
	b, err := os.ReadFile(filepath.Join(repo, "logger/logfile/FileLogger.go"))
	if err != nil {
		return false
	}
	src := string(b)
	body := func(sig string) string {
		i := strings.Index(src, sig)
		if i < 0 {
			return ""
		}
		j := strings.Index(src[i:], "\n}\n")
		if j < 0 {
			return src[i:]
		}
		return src[i : i+j]
	}
	w := body("func (this *FileLogger) SetLevel(")
	r := body("func (this *FileLogger) Warnf(")
	unsyncW := strings.Contains(w, "this.conf.level =") && !strings.Contains(w, "Lock()") && !strings.Contains(w, "atomic.")
	unsyncR := strings.Contains(r, "this.conf.level") && !strings.Contains(r, "Lock()") && !strings.Contains(r, "atomic.")
	return unsyncW && unsyncR
}

func concStage(env *vh.Env, rep *vh.Report, rng *vh.Rng) {
	children, budget := 1, 3500
	if env.Thorough {
		children, budget = 6, 7000
	}
	self, err := os.Executable()
	if err != nil {
		vh.Die("executable: %v", err)
	}
	confRace := false
	for ch := 0; ch <= children+1; ch++ {
		writers := 3 + rng.Intn(10)
		per := 30 + rng.Intn(120)
		scenario := "rotate"
		if ch == children { // settings rewritten under load
			scenario = "conf"
			if !env.Thorough {
				budget = 1200
			}
		}
		if ch == children+1 { // concurrent readers (and readers against writers)
			scenario = "readers"
			per = 60 + rng.Intn(100)
		}
		// the child lives < 10 s; the deadline only bounds a hang (goroutines blocked for good)
		ctx, cancel := context.WithTimeout(context.Background(), 600*time.Second)
		cmd := exec.CommandContext(ctx, self, "-driver", env.Driver, "-tier", env.Tier)
		cmd.WaitDelay = 5 * time.Second
		cmd.Env = append(os.Environ(), "C17_CHILD=conc", "C17_SCENARIO="+scenario, fmt.Sprintf("C17_WRITERS=%d", writers), fmt.Sprintf("C17_PER=%d", per),
			fmt.Sprintf("C17_FIRST=%d", ch*1000+int(env.Seed)*17), fmt.Sprintf("C17_BUDGET_MS=%d", budget), "GORACE=halt_on_error=0 exitcode=0")
		var so, se bytes.Buffer
		cmd.Stdout, cmd.Stderr = &so, &se
		runErr := cmd.Run()
		timedOut := ctx.Err() != nil
		cancel()
		var out concOut
		got := false
		for _, ln := range strings.Split(so.String(), "\n") {
			if strings.HasPrefix(ln, "C17CONC ") {
				if json.Unmarshal([]byte(ln[8:]), &out) == nil {
					got = true
				}
			}
		}
		if !got && timedOut {
			rep.Fail("property", "FileLogger.concurrent:hang", fmt.Sprintf("the concurrent stage (%s: %d goroutines x %d lines) did not finish within 600 s (it normally ends within 10 s): calls of the logger block for good", scenario, writers, per),
				map[string]interface{}{"stage": "conc", "scenario": scenario, "writers": writers, "per": per})
			continue
		}
		if !got {
			rep.Fail("property", "FileLogger.concurrent:crash", fmt.Sprintf("the concurrent stage died: %v: %s", runErr, vh.Clip(se.String(), 1500)),
				map[string]interface{}{"stage": "conc", "writers": writers, "per": per})
			continue
		}
		if scenario == "conf" {
			rep.CountN("conc:conf-rewrites-under-load", out.Iters)
		} else if scenario == "readers" {
			rep.CountN("conc:concurrent-reader-rounds", out.Iters)
			rep.CountN("conc:concurrent-reads-checked", out.Lines)
		} else {
			rep.CountN("conc:rotations-under-load", out.Iters)
		}
		rep.CountN("conc:lines", out.Lines)
		rep.CountN("conc:lines-in-old-file", out.InOld)
		rep.CountN("conc:lines-in-new-file", out.InNew)
		for i := 0; i < out.Iters; i++ {
			rep.Case(fmt.Sprintf("conc/%s/%d/%d/%d/%d", scenario, ch, writers, per, i), true)
		}
		if out.Settle > 0 {
			rep.Note("concurrent stage: %d settle time-outs", out.Settle)
		}
		for _, f := range out.Findings {
			rep.Fail("property", f.Key, f.Summary, map[string]interface{}{"stage": "conc", "writers": f.Writers, "per": f.Per, "iter": f.Iter})
		}
		if raceEnabled {
			rep.Count("conc:race-detector-children")
			for _, r := range strings.Split(se.String(), "WARNING: DATA RACE")[1:] {
				if j := strings.Index(r, "=================="); j >= 0 {
					r = r[:j]
				}
				if strings.Contains(r, "main.setClock") || strings.Contains(r, "dateutil.SetDelta") || strings.Contains(r, "main.clockInit") {
					// the harness's own clock write met a background goroutine that outlived its
					// 10 s sleep (overloaded machine): not an access pair of the logger
					rep.Count("conc:race-report-on-harness-clock-ignored")
					continue
				}
				if strings.Contains(r, ").SetLevel") || strings.Contains(r, ").ApplyConfig") {
					if !confRace {
						confRace = true
						rep.Fail("property", confRaceKey, confRaceWhat+" — the race detector reports: "+vh.Clip(r, 1500),
							map[string]interface{}{"stage": "conc", "scenario": "conf", "writers": writers, "per": per})
					}
					continue
				}
				rep.Fail("property", "FileLogger.concurrent:data-race", "the race detector reports: "+vh.Clip(r, 1800),
					map[string]interface{}{"stage": "conc", "scenario": scenario, "writers": writers, "per": per})
			}
		}
	}
	if raceEnabled {
		rep.KnownReplay(confRaceKey, confRace, confRaceWhat+" (race detector, this run)")
	} else {
		rep.KnownReplay(confRaceKey, confRaceStatic(env.Repo), confRaceWhat+" (this build has no race detector: established from the source — the write in SetLevel and the read in Warnf take no lock; the detector runs in the thorough tier)")
	}
}
