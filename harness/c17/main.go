// Correspondence harness for C17: logger/logfile.FileLogger against the Lean CodeModel
// Golib.Logger.Model (driver drv_c17).
//
// A case is a history: a directory seeded with files, a logger created at a virtual time, and
// a sequence of log calls (all entry points), clock changes, background cycles
// (ProcessOnceForVerif), retention passes, SetLevel/ApplyConfig and Read calls.  The history
// runs on the real logger in a temp home; the same operations go to the driver; the decisions
// (line written or not, files removed, file open after a cycle, Read result, final content of
// every file chunk by chunk) are compared.  Independently of the model, the statement of C17
// is evaluated on what the implementation did (direct()).  A second stage logs from several
// goroutines while a cycle rotates the file and checks that no line is lost, torn or reordered.
package main

import (
	"bytes"
	"crypto/sha1"
	"encoding/hex"
	"encoding/json"
	"fmt"
	"os"
	"os/exec"
	"strconv"
	"strings"
	"time"

	"verif/harness/vh"
)

type caseResult struct {
	c  *hcase
	ob *obs
	mm []mismatch
	pf []pfail
}

func evalCase(env *vh.Env, c *hcase) *caseResult {
	ob := runImpl(c)
	if ob.skipped {
		return &caseResult{c, ob, nil, nil}
	}
	ans, err := vh.RunDriver(env.Driver, driverLines(c, ob))
	if err != nil {
		vh.Die("%v", err)
	}
	return &caseResult{c, ob, compare(c, ob, ans), direct(c, ob)}
}

func canon(c *hcase) string {
	b, _ := json.Marshal(c)
	return string(b)
}

func nontrivial(c *hcase) bool {
	// at least one call that reaches a decision of the logger
	return len(c.Ops) >= 2
}

// host time zone of this process (child processes of the zone stage set time.Local to a fixed
// non-UTC zone; the model is zone-free, so every decision must be the same)
var zoneName string
var zoneOffset int

var zones = []struct {
	name string
	off  int
}{{"UTC-5", -5 * 3600}, {"UTC+9", 9 * 3600}, {"UTC+13:45", 13*3600 + 45*60}, {"UTC-11", -11 * 3600}}

func setZone(name string, off int) {
	zoneName, zoneOffset = name, off
	time.Local = time.FixedZone(name, off)
}

// reportZone: the history fails in zone `zoneName` and passes under UTC.
func reportZone(rep *vh.Report, res *caseResult) {
	replay := map[string]interface{}{"stage": "history", "case": res.c, "zone": map[string]interface{}{"name": zoneName, "offset_s": zoneOffset}}
	seen := map[string]bool{}
	add := func(key, sum string) {
		key += ":depends-on-host-time-zone"
		if seen[key] {
			return
		}
		seen[key] = true
		rep.Fail("property", key, fmt.Sprintf("with the host time zone %s (time.Local) and not under UTC: %s", zoneName, sum), replay)
	}
	for _, p := range res.pf {
		add(p.Key, p.Summary)
	}
	for _, m := range res.mm {
		add(m.Key, m.Detail)
	}
}

// neighbours builds histories around a disagreement between model and implementation, aimed at
// the clause of the statement the disagreeing operation belongs to: suppression (the call and
// its neighbours repeated at once, just inside, at and just past the interval, with a fresh id
// in between), ordered lines and rotation/prune (marked lines before and after a further cycle
// and a retention pass).
func neighbours(c *hcase, mm []mismatch) []*hcase {
	at := len(c.Ops) - 1
	for _, m := range mm {
		if m.Op >= 0 {
			at = m.Op
			break
		}
	}
	if at < 0 {
		return nil
	}
	base := func() *hcase {
		d := *c
		d.Gen = c.Gen + "+probe"
		d.Ops = append([]hop{}, c.Ops[:at+1]...)
		return &d
	}
	t := c.Ops[at].T
	mark := func(n int) string { return vh.Hex([]byte(fmt.Sprintf("probe line number %d #99%07d#", n, n))) }
	var out []*hcase
	// suppression clause
	var logs []hop
	for j := at; j >= 0 && len(logs) < 3; j-- {
		if c.Ops[j].Kind == "log" {
			logs = append(logs, c.Ops[j])
		}
	}
	if len(logs) > 0 {
		for _, iv := range []int64{10, 60} {
			d := base()
			for _, dt := range []int64{0, 1, iv*1000 - 1, iv * 1000, iv*1000 + 1} {
				for _, l := range logs {
					l.T = t + dt
					d.Ops = append(d.Ops, l)
				}
				d.Ops = append(d.Ops, hop{Kind: "log", T: t + dt, Meth: "errorf", Msg: vh.Hex([]byte(fmt.Sprintf("fresh probe id %d", dt)))})
				l := logs[0]
				l.T = t + dt
				d.Ops = append(d.Ops, l)
			}
			out = append(out, d)
		}
	}
	// ordered lines, rotation, prune
	d := base()
	d.Ops = append(d.Ops, hop{Kind: "log", T: t, Meth: "errorf", Msg: mark(1)}, hop{Kind: "log", T: t, Meth: "printlnstd", Msg: mark(2)},
		hop{Kind: "proc", T: t + 61000}, hop{Kind: "log", T: t + 61000, Meth: "errorf", Msg: mark(3)},
		hop{Kind: "proc", T: t + dayMs + 61000}, hop{Kind: "log", T: t + dayMs + 61000, Meth: "printlnstd", Msg: mark(4)},
		hop{Kind: "clr", T: t + dayMs + 61000}, hop{Kind: "log", T: t + dayMs + 61001, Meth: "errorf", Msg: mark(5)})
	out = append(out, d)
	return out
}

// directed: before a disagreement is reported as a mere correspondence break, the statement is
// evaluated directly on histories around it; a failing one is reported instead (kind property).
var directedRuns int

func directed(env *vh.Env, rep *vh.Report, res *caseResult) bool {
	if len(res.pf) > 0 || len(res.mm) == 0 || realClock || directedRuns >= 15 {
		return false
	}
	directedRuns++
	for _, v := range neighbours(res.c, res.mm) {
		if v.T0+0 < baseTime {
			continue
		}
		r := evalCase(env, v)
		if r.ob.skipped {
			continue
		}
		rep.Count("directed-search:histories")
		if len(r.pf) > 0 {
			rep.Count("directed-search:property-failure-found")
			report(rep, r)
			return true
		}
	}
	return false
}

func report(rep *vh.Report, res *caseResult) {
	replay := map[string]interface{}{"stage": "history", "case": res.c}
	if zoneName != "" {
		replay["zone"] = map[string]interface{}{"name": zoneName, "offset_s": zoneOffset}
	}
	seen := map[string]bool{}
	for _, p := range res.pf {
		if seen[p.Key] {
			continue
		}
		seen[p.Key] = true
		rep.Fail("property", p.Key, p.Summary, replay)
	}
	if len(res.pf) == 0 {
		for _, m := range res.mm {
			if seen[m.Key] {
				continue
			}
			seen[m.Key] = true
			rep.Fail("correspondence", m.Key, m.Detail+" (the statement of the property, evaluated directly on this history, holds)", replay)
		}
	}
}

func witnessCases() []*hcase {
	t0 := baseTime + 8835*dayMs + 3600000 // 2024-03-10 01:00
	rd := func(file string, end, length int64) *hcase {
		return &hcase{Gen: "witness", T0: t0, Level: 2, Oname: "boot", LogID: "whatap",
			Seeds: []seed{{Name: "a.log", Content: vh.Hex([]byte("0123456789"))}},
			Ops:   []hop{{Kind: "read", T: t0, File: vh.Hex([]byte(file)), Endpos: end, Length: length}}}
	}
	ret := &hcase{Gen: "witness", T0: t0, Level: 2, Oname: "boot", LogID: "whatap",
		Seeds: []seed{{Name: "whatap-boot-abcdefgh.log", Content: vh.Hex([]byte("x"))}, {Name: "whatap-boot-20240101.log", Content: vh.Hex([]byte("x"))},
			{Name: "whatap-boot-20240309.log", Content: vh.Hex([]byte("x"))}, {Name: "whatapx-boot-20240101.log", Content: vh.Hex([]byte("x"))}},
		Ops: []hop{{Kind: "proc", T: t0 + 60001}}}
	// server-sync delta: adjusted time crosses midnight while system time is still on the old day
	tn := baseTime + 8835*dayMs + 84600000 // 2024-03-10 23:30 adjusted, 22:30 system
	msg := func(t int64, s string) hop {
		return hop{Kind: "log", T: t, Meth: "errorf", Msg: vh.Hex([]byte(s))}
	}
	dl := &hcase{Gen: "witness", Clock: "delta", Deltas: []int64{3600000}, T0: tn, Level: 2, Oname: "boot", LogID: "whatap",
		Seeds: []seed{{Name: "whatap-boot-20240302.log", Content: vh.Hex([]byte("x"))}, {Name: "whatap-boot-20240303.log", Content: vh.Hex([]byte("x"))}},
		Ops:   []hop{msg(tn, "before midnight #900001#"), msg(tn+2400000, "after midnight, before the cycle #900002#"), {Kind: "proc", T: tn + 2400000}, msg(tn+2400001, "after the cycle #900003#")}}
	sv := &hcase{Gen: "witness", Clock: "server", Deltas: []int64{-2 * dayMs}, T0: tn, Level: 2, Oname: "boot", LogID: "whatap",
		Seeds: dl.Seeds, Ops: dl.Ops}
	return []*hcase{rd("../secret.txt", -1, 100), rd("a.log", 0, -5), rd("a.log", 7, 4), ret, dl, sv}
}

// genCases builds the histories of one chunk.
func genCases(rng *vh.Rng, seq *int, withWitness bool) []*hcase {
	var cases []*hcase
	if withWitness {
		cases = append(cases, witnessCases()...)
	}
	for i := 0; i < 260; i++ {
		cases = append(cases, genMixed(rng, seq))
	}
	for i := 0; i < 70; i++ {
		cases = append(cases, genRate(rng, seq))
	}
	for i := 0; i < 90; i++ {
		cases = append(cases, genRotation(rng, seq))
	}
	for i := 0; i < 110; i++ {
		cases = append(cases, genRetention(rng, seq))
	}
	for i := 0; i < 45; i++ {
		cases = append(cases, genRetentionNames(rng, seq))
	}
	for i := 0; i < 70; i++ {
		cases = append(cases, genRead(rng, seq))
	}
	for i := 0; i < 2; i++ {
		cases = append(cases, genEvict(rng, seq))
	}
	for i := 0; i < 5; i++ {
		cases = append(cases, genManyIds(rng, seq, 400+rng.Intn(300)))
	}
	cases = append(cases, genManyIds(rng, seq, 1010+rng.Intn(150)))
	for i := 0; i < 25; i++ {
		cases = append(cases, genCollide(rng, seq))
	}
	for i := 0; i < 4; i++ {
		cases = append(cases, genFullTable(rng, seq))
	}
	for i := 0; i < 4; i++ {
		cases = append(cases, genRefreshFull(rng, seq))
	}
	for i := 0; i < 24; i++ {
		cases = append(cases, genFiles(rng, seq))
	}
	return cases
}

// runCases: everything on the implementation first, then one driver process for all histories.
func runCases(env *vh.Env, rep *vh.Report, cases []*hcase) {
	obsAll := make([]*obs, len(cases))
	var lines []string
	offs := make([]int, len(cases)+1)
	for i, c := range cases {
		obsAll[i] = runImpl(c)
		offs[i] = len(lines)
		if obsAll[i].skipped {
			continue
		}
		lines = append(lines, driverLines(c, obsAll[i])...)
	}
	offs[len(cases)] = len(lines)
	ans, err := vh.RunDriver(env.Driver, lines)
	if err != nil {
		vh.Die("%v", err)
	}
	for i, c := range cases {
		if obsAll[i].skipped {
			rep.Count("skipped-after-established-hang")
			continue
		}
		if obsAll[i].hung {
			// established: no second execution (it would block for the whole watchdog again)
			rep.Case(canon(c), nontrivial(c))
			rep.Count("gen:" + c.Gen)
			report(rep, &caseResult{c, obsAll[i], nil, direct(c, obsAll[i])})
			continue
		}
		res := &caseResult{c, obsAll[i], compare(c, obsAll[i], ans[offs[i]:offs[i+1]]), direct(c, obsAll[i])}
		if obsAll[i].disturbed {
			rep.Count("realclock:disturbed-by-load-skipped")
			continue
		}
		rep.Case(canon(c), nontrivial(c))
		rep.Count("gen:" + c.Gen)
		if realClock {
			rep.Count("clock:real")
		} else if c.Clock == "" {
			rep.Count("clock:sync")
		} else {
			rep.Count("clock:" + c.Clock)
		}
		for k, o := range c.Ops {
			rep.Count("op:" + o.Kind)
			if o.Kind == "log" {
				a := ans[offs[i]+1+k]
				rep.Count("log:" + a)
				rep.Count("meth:" + o.Meth)
			}
			if o.Kind == "read" {
				a := ans[offs[i]+1+k]
				rep.Count("read:" + strings.Fields(a)[0])
			}
			if o.Kind == "files" {
				a := ans[offs[i]+1+k]
				rep.Count("files:" + strings.Fields(a)[0])
				if f := strings.Fields(a); len(f) == 2 && f[1] != "-" {
					n := strings.Count(f[1], ",") + 1
					switch {
					case n >= 100:
						rep.Count("files:listed-100(limit)")
					case n > 10:
						rep.Count("files:listed-11..99")
					default:
						rep.Count("files:listed-1..10")
					}
				}
			}
			if o.Kind == "proc" || o.Kind == "clr" {
				rep.CountN("retention:files-removed", len(obsAll[i].dels[k]))
				if k > 0 && obsAll[i].curAt[k] != obsAll[i].curAt[k-1] {
					rep.Count("proc:rotated")
				}
			}
		}
		rep.CountN("seeds", len(c.Seeds))
		if len(res.mm) > 0 || len(res.pf) > 0 {
			// confirm on a fresh logger: a scheduling fluke does not repeat
			res2 := evalCase(env, c)
			if res2.ob.skipped || res2.ob.hung {
				// no second execution possible (hang established meanwhile): report the first one
				if res2.ob.hung {
					report(rep, res2)
				} else {
					report(rep, res)
				}
				continue
			}
			if res2.ob.disturbed {
				rep.Count("realclock:disturbed-by-load-skipped")
				continue
			}
			if len(res2.mm) == 0 && len(res2.pf) == 0 {
				rep.Count("flaky-not-reproduced")
				rep.Note("case %d (%s) disagreed once and agreed on re-execution: %v %v", i, c.Gen, res.mm, res.pf)
				continue
			}
			if zoneName != "" {
				// the same history under UTC in this process
				saved := time.Local
				time.Local = time.UTC
				res3 := evalCase(env, c)
				time.Local = saved
				if len(res3.mm) == 0 && len(res3.pf) == 0 {
					reportZone(rep, res2)
					continue
				}
			}
			if directed(env, rep, res2) {
				continue
			}
			report(rep, res2)
		}
		if i%97 == 5 {
			rep.Sample(map[string]interface{}{"gen": c.Gen, "t0": c.T0, "level": c.Level, "oname": c.Oname, "logid": c.LogID, "seeds": len(c.Seeds), "ops": len(c.Ops),
				"first_ops": c.Ops[:min(4, len(c.Ops))]})
		}
	}
	if settleTimeouts > 0 {
		rep.Note("%d times the background goroutine did not park within 5 s", settleTimeouts)
	}
	rep.CountN("loggers-created", created)
	if full, mods := collisions(); true {
		rep.Extra["colliding_id_groups"] = map[string]interface{}{"identical_crc32": len(full), "same_bucket": len(mods), "example": append([]string{}, full[0]...)}
	}
}

// histChildren runs chunks of histories in parallel child processes (each process has its own
// virtual clock) and merges their reports.
func histChildren(env *vh.Env, rep *vh.Report, kind string, chunks int) {
	self, err := os.Executable()
	if err != nil {
		vh.Die("executable: %v", err)
	}
	type result struct {
		idx  int
		path string
		err  error
		msg  string
	}
	ch := make(chan result, chunks)
	sem := make(chan struct{}, 6)
	for k := 0; k < chunks; k++ {
		go func(k int) {
			sem <- struct{}{}
			defer func() { <-sem }()
			out := fmt.Sprintf("c17-chunk-%s-%d-%d.json", kind, os.Getpid(), k)
			cmd := exec.Command(self, "-driver", env.Driver, "-tier", env.Tier, "-seed", fmt.Sprint(env.Seed), "-out", out)
			cmd.Env = append(os.Environ(), "C17_CHILD="+kind, fmt.Sprintf("C17_CHUNK=%d", k), "GORACE=halt_on_error=0 exitcode=0 log_path=/dev/null")
			var se bytes.Buffer
			cmd.Stderr = &se
			e := cmd.Run()
			ch <- result{k, out, e, vh.Clip(se.String(), 800)}
		}(k)
	}
	for k := 0; k < chunks; k++ {
		r := <-ch
		b, err := os.ReadFile(r.path)
		os.Remove(r.path)
		var cr vh.Report
		if err != nil || json.Unmarshal(b, &cr) != nil {
			rep.Fail("correspondence", "harness:chunk-failed", fmt.Sprintf("chunk %d produced no report: %v %s", r.idx, r.err, r.msg), map[string]interface{}{"stage": "chunk", "chunk": r.idx})
			continue
		}
		if hs, ok := cr.Extra["canons"].([]interface{}); ok {
			for _, h := range hs {
				rep.Case(fmt.Sprint(h), true)
			}
		}
		for k, v := range cr.Distribution {
			rep.CountN(k, v)
		}
		for _, sm := range cr.Samples {
			rep.Sample(sm)
		}
		for _, n := range cr.Notes {
			rep.Note("chunk %d: %s", r.idx, n)
		}
		for _, f := range cr.Failures {
			rep.Fail(f.Kind, f.Key, f.Summary, f.Replay)
		}
	}
}

func main() {
	env, rep := vh.Parse("C17")
	readIDCacheCap(env.Repo)
	if os.Getenv("C17_CHILD") == "conc" {
		concChild()
		return
	}
	rep.Rule = "a case is a history (seeded logs directory; logger created at a virtual time; 8-60 operations: log calls over the 12 entry points, clock steps aimed at the rate-limit, one-minute and midnight boundaries, background cycles, retention passes, SetLevel/ApplyConfig, Read over names x end positions x lengths); distinct = distinct canonical history; non-trivial = at least two operations; the concurrent stage counts one case per rotation under load; a reduced set of histories is repeated in child processes whose host time zone (time.Local) is UTC-5, UTC+9, UTC+13:45, UTC-11"
	seq := 0
	if os.Getenv("C17_CHILD") == "zone" {
		k, _ := strconv.Atoi(os.Getenv("C17_CHUNK"))
		z := zones[k%len(zones)]
		setZone(z.name, z.off)
		rng := vh.NewRng(env.Seed*424243 + uint64(k)*31 + 3)
		seq = 700000000 + k*1000000
		cases := witnessCases()
		n := 1
		if env.Thorough {
			n = 4
		}
		for i := 0; i < 40*n; i++ {
			cases = append(cases, genRotation(rng, &seq))
		}
		for i := 0; i < 35*n; i++ {
			cases = append(cases, genRetention(rng, &seq))
		}
		for i := 0; i < 30*n; i++ {
			cases = append(cases, genMixed(rng, &seq))
		}
		for i := 0; i < 6*n; i++ {
			cases = append(cases, genRate(rng, &seq))
		}
		runCases(env, rep, cases)
		rep.CountN("zone:"+z.name, len(cases))
		var hs []string
		for _, c := range cases {
			h := sha1.Sum([]byte(z.name + canon(c)))
			hs = append(hs, hex.EncodeToString(h[:8]))
		}
		rep.Extra["canons"] = hs
		rep.Write(env.Out)
		return
	}
	if os.Getenv("C17_CHILD") == "real" {
		realClock = true
		rng := vh.NewRng(env.Seed*7777 + 5)
		seq = 500000000
		var cases []*hcase
		n := 40
		if env.Thorough {
			n = 300
		}
		for i := 0; i < n; i++ {
			cases = append(cases, genReal(rng, &seq))
		}
		runCases(env, rep, cases)
		var hs []string
		for _, c := range cases {
			h := sha1.Sum([]byte(canon(c)))
			hs = append(hs, hex.EncodeToString(h[:8]))
		}
		rep.Extra["canons"] = hs
		rep.Write(env.Out)
		return
	}
	if os.Getenv("C17_CHILD") == "hist" {
		k, _ := strconv.Atoi(os.Getenv("C17_CHUNK"))
		rng := vh.NewRng(env.Seed*1000003 + uint64(k)*7919 + 17)
		seq = k * 1000000
		cases := genCases(rng, &seq, false)
		runCases(env, rep, cases)
		var hs []string
		for _, c := range cases {
			h := sha1.Sum([]byte(canon(c)))
			hs = append(hs, hex.EncodeToString(h[:8]))
		}
		rep.Extra["canons"] = hs
		rep.Write(env.Out)
		return
	}
	rng := vh.NewRng(env.Seed)
	runConc := true
	if env.Replay != "" {
		b, err := os.ReadFile(env.Replay)
		if err != nil {
			vh.Die("replay: %v", err)
		}
		var rf struct {
			Cases []struct {
				Stage string `json:"stage"`
				Case  *hcase `json:"case"`
				Zone  *struct {
					Name   string `json:"name"`
					Offset int    `json:"offset_s"`
				} `json:"zone"`
			} `json:"cases"`
		}
		if err := json.Unmarshal(b, &rf); err != nil {
			vh.Die("replay: %v", err)
		}
		var cases []*hcase
		runConc = false
		for _, x := range rf.Cases {
			if x.Zone != nil && zoneName == "" {
				setZone(x.Zone.Name, x.Zone.Offset)
			}
			if x.Case != nil {
				cases = append(cases, x.Case)
			}
			if x.Stage == "conc" || x.Stage == "fault" {
				runConc = true
			}
		}
		runCases(env, rep, cases)
	} else {
		stage("histories", func() { runCases(env, rep, genCases(rng, &seq, true)) })
		stage("real-clock child", func() { histChildren(env, rep, "real", 1) })
		stage("zone children", func() { histChildren(env, rep, "zone", len(zones)) })
		if env.Thorough {
			stage("history children", func() { histChildren(env, rep, "hist", 10) })
		}
	}
	if runConc {
		stage("concurrent", func() { concStage(env, rep, rng) })
		stage("fault", func() { faultStage(env, rep, rng) })
	}
	rep.Extra["stage_seconds"] = stageSecs
	rep.Write(env.Out)
}

var stageSecs = map[string]float64{}

func stage(name string, f func()) {
	t := time.Now()
	f()
	stageSecs[name] = float64(time.Since(t).Milliseconds()) / 1000
}

func min(a, b int) int {
	if a < b {
		return a
	}
	return b
}
