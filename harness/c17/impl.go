package main

// Running a history on the real logger: virtual clock, temp home, observations.

import (
	"bytes"
	"context"
	"fmt"
	"os"
	"path/filepath"
	"runtime/pprof"
	"sort"
	"strconv"
	"strings"
	"sync"
	"time"

	"github.com/whatap/golib/config"
	"github.com/whatap/golib/lang/value"
	"github.com/whatap/golib/logger/logfile"
	"github.com/whatap/golib/util/dateutil"
	"verif/harness/vh"
)

// ---------------------------------------------------------------- virtual clock

// dateutil.Now() = SystemNow() + delta; in "sync time" mode SystemNow() returns the
// package variable SyncTimeMillis, which a 1 ms ticker refreshes.  Starting and at once
// stopping that ticker leaves the mode switched on with nobody refreshing the variable:
// a frozen clock that the harness sets directly (public API only).
var clockOnce sync.Once

func clockInit() {
	clockOnce.Do(func() {
		dateutil.StartSyncTime()
		dateutil.StopSyncTime()
		// at most one tick can still be pending; the clock is ours once the ticker's goroutine is
		// blocked on its (now silent) channel — looked up in the goroutine dump, not slept for
		deadline := time.Now().Add(60 * time.Second)
		for {
			time.Sleep(2 * time.Millisecond)
			var buf bytes.Buffer
			pprof.Lookup("goroutine").WriteTo(&buf, 2)
			blocked := false
			for _, blk := range strings.Split(buf.String(), "\n\n") {
				if strings.Contains(blk, "dateutil.clock.func1") {
					head := blk
					if i := strings.Index(blk, "\n"); i >= 0 {
						head = blk[:i]
					}
					blocked = strings.Contains(head, "chan receive")
				}
			}
			if blocked || time.Now().After(deadline) {
				break
			}
		}
		dateutil.SetDelta(0)
	})
}

func setClock(t int64) { dateutil.SyncTimeMillis = t; dateutil.SetDelta(0) }

// realClock: the process never switches the frozen mode on; virtual time is real time plus
// the server-sync delta (the way the product runs).  Only histories whose decisions are
// seconds away from every boundary are run this way.
var realClock bool

// setTime puts the virtual clock of history c at t before operation i (-1 = creation).
//   sync    SystemNow() = t, delta = 0
//   delta   SystemNow() = t - D, delta = D set through dateutil.SetDelta  (D per operation from c.Deltas)
//   server  SystemNow() stays at the history's system time; dateutil.SetServerTime(t, 1) derives the delta
//   real    SystemNow() = time.Now(); delta = t - time.Now() through dateutil.SetDelta
func (c *hcase) setTime(i int, t int64) {
	if realClock {
		dateutil.SetDelta(t - time.Now().UnixMilli())
		return
	}
	switch c.Clock {
	case "delta":
		d := c.Deltas[(i+1)%len(c.Deltas)]
		dateutil.SyncTimeMillis = t - d
		dateutil.SetDelta(d)
	case "server":
		dateutil.SyncTimeMillis = c.T0 - c.Deltas[0]
		dateutil.SetServerTime(t, 1.0)
	default:
		setClock(t)
	}
}

const baseTime = int64(946684800000)
const dayMs = int64(86400000)

func unitOf(t int64) int64 { return (t - baseTime) / dayMs }

// ---------------------------------------------------------------- settling the background goroutine

var created int // loggers created by this process

// parkedRuns counts goroutines sitting in FileLogger.run's time.Sleep.
func parkedRuns() int {
	var buf bytes.Buffer
	pprof.Lookup("goroutine").WriteTo(&buf, 1)
	n := 0
	for _, blk := range strings.Split(buf.String(), "\n\n") {
		// parked = asleep, or blocked on a mutex for good (a background cycle of an earlier, closed
		// logger that deadlocked on its own lock will never act again; nobody else holds a logger's
		// lock while the harness waits here)
		if strings.Contains(blk, "logfile.(*FileLogger).run") && (strings.Contains(blk, "time.Sleep") || strings.Contains(blk, "sync.(*Mutex).Lock")) {
			head := blk
			if i := strings.Index(blk, "\n"); i >= 0 {
				head = blk[:i]
			}
			// a leading "goroutine profile: total N" line belongs to the first block
			if strings.HasPrefix(head, "goroutine profile") {
				rest := blk[len(head)+1:]
				head = rest
				if i := strings.Index(rest, "\n"); i >= 0 {
					head = rest[:i]
				}
			}
			f := strings.Fields(head)
			if len(f) > 0 {
				if k, err := strconv.Atoi(f[0]); err == nil {
					n += k
				}
			}
		}
	}
	return n
}

var settleTimeouts int

// waitParked returns when every logger's background goroutine has finished its start-up
// cycle and sleeps (so that it does not act at a time of its own choosing in the next 10 s).
func waitParked() {
	deadline := time.Now().Add(120 * time.Second) // bounds a hang only; a loaded machine just takes longer
	if settleTimeouts > 0 {
		// some background goroutine is stuck for good: waiting the long bound again for every
		// further logger would only burn time
		deadline = time.Now().Add(3 * time.Second)
	}
	for i := 0; ; i++ {
		if parkedRuns() >= created-lostRuns {
			return
		}
		if time.Now().After(deadline) {
			settleTimeouts++
			return
		}
		if i < 20 {
			time.Sleep(50 * time.Microsecond)
		} else {
			time.Sleep(time.Millisecond)
		}
	}
}

// ---------------------------------------------------------------- histories

type seed struct {
	Name    string `json:"name"`    // file directly under logs (hex of bytes in JSON would be overkill: ASCII names)
	Content string `json:"content"` // hex
	Dir     bool   `json:"dir,omitempty"`
}

type hop struct {
	Kind     string `json:"k"` // log proc clr lvl cfg read files path
	T        int64  `json:"t"`
	Meth     string `json:"m,omitempty"`
	ID       string `json:"id,omitempty"`  // hex
	Msg      string `json:"msg,omitempty"` // hex
	Lv       int    `json:"lv,omitempty"`
	Rot      bool   `json:"rot,omitempty"`
	Keep     int    `json:"keep,omitempty"`
	Interval int    `json:"iv,omitempty"`
	LevelStr string `json:"lvs,omitempty"`
	File     string `json:"file,omitempty"` // hex; "@home" is replaced by the temp home
	Endpos   int64  `json:"end,omitempty"`
	Length   int64  `json:"len,omitempty"`
}

type hcase struct {
	Gen    string  `json:"gen"`
	Clock  string  `json:"clock,omitempty"`  // sync (default) | delta | server | real
	Deltas []int64 `json:"deltas,omitempty"` // server-sync deltas (ms)
	T0     int64  `json:"t0"`
	Level  int    `json:"level"`
	Oname  string `json:"oname"`
	LogID  string `json:"logid"`
	Seeds  []seed `json:"seeds"`
	Nested []seed `json:"nested"` // files under logs/sub/
	Ops    []hop  `json:"ops"`
	// unusual configuration (retention-names family): the last element of the home path (may carry
	// glob metacharacters), and a sibling home directory <parent>/<Twin>/logs with its own files,
	// which belongs to somebody else
	Home      string `json:"home,omitempty"`
	Twin      string `json:"twin,omitempty"`
	TwinSeeds []seed `json:"twin_seeds,omitempty"`
}

// what the implementation did
type obs struct {
	home     string
	newCur   string
	outs     []string            // per op, canonical
	snaps    []string            // per READ op: snapshot in driver syntax ("" otherwise)
	files    map[string][]byte   // final regular files directly under logs
	curAt    []string            // name of the open file after each op
	wrote    []bool              // LOG ops: the open file grew
	readRes  []*logfile.LogData  // READ ops
	readFile []string            // READ ops: actual file argument
	snapMap  []map[string][]byte // READ ops: path -> content of regular files under logs (nil entry = directory)
	dels     [][]string          // PROC/CLR ops: names removed
	dirDels  [][]string          // PROC/CLR ops: directories directly under logs that existed before and not after
	outDels  [][]string          // PROC/CLR ops: files of the sibling home that existed before and not after
	before   [][]string          // PROC/CLR ops: regular files before
	panics   []string
	hung     bool
	skipped  bool // not run: a hang was already established for this family
	disturbed bool // real-clock mode only: an operation was delayed by more than 1.5 s
}

type fakeConf struct {
	rot      bool
	keep     int32
	interval int32
	level    string
}

func (c *fakeConf) ApplyDefault()        {}
func (c *fakeConf) GetConfFile() string  { return "" }
func (c *fakeConf) Destroy()             {}
func (c *fakeConf) GetKeys() []string    { return nil }
func (c *fakeConf) GetValue(string) string { return "" }
func (c *fakeConf) GetValueDef(key, def string) string {
	if key == "log_level" {
		return c.level
	}
	return def
}
func (c *fakeConf) GetBoolean(key string, def bool) bool {
	if key == "log_rotation_enabled" {
		return c.rot
	}
	if key == "log_stdout_enabled" {
		return false
	}
	return def
}
func (c *fakeConf) GetInt(key string, def int) int32 {
	switch key {
	case "log_keep_days":
		return c.keep
	case "_log_interval":
		return c.interval
	}
	return int32(def)
}
func (c *fakeConf) GetIntSet(key, def, deli string) []int32               { return nil }
func (c *fakeConf) GetLong(key string, def int64) int64                    { return def }
func (c *fakeConf) GetStringArray(key string, def string, deli string) []string { return nil }
func (c *fakeConf) GetStringHashSet(key, def, deli string) []int32        { return nil }
func (c *fakeConf) GetStringHashCodeSet(key, def, deli string) []int32    { return nil }
func (c *fakeConf) GetFloat(key string, def float32) float32              { return def }
func (c *fakeConf) SetValues(v *map[string]string)                        {}
func (c *fakeConf) ToString() string                                      { return "" }
func (c *fakeConf) String() string                                        { return "" }

var homeSeq int

func newHome() string {
	h, _ := newHomeNamed("")
	return h
}

// newHomeNamed: with a name, the home is <base>/<name> (the name may carry any byte but '/');
// base is what has to be removed afterwards.
func newHomeNamed(name string) (home, base string) {
	homeSeq++
	h, err := filepath.Abs(fmt.Sprintf("c17-home-%d-%d", os.Getpid(), homeSeq))
	if err != nil {
		vh.Die("abs: %v", err)
	}
	os.RemoveAll(h)
	base = h
	if name != "" {
		h = h + string(filepath.Separator) + name // not Join: the name is taken as it is
	}
	if err := os.MkdirAll(h+string(filepath.Separator)+"logs", 0o755); err != nil {
		vh.Die("mkdir: %v", err)
	}
	return h, base
}

func listDirs(dir string) []string {
	es, _ := os.ReadDir(dir)
	var out []string
	for _, e := range es {
		if e.IsDir() {
			out = append(out, e.Name())
		}
	}
	sort.Strings(out)
	return out
}

func minus(before, after []string) []string {
	af := map[string]bool{}
	for _, x := range after {
		af[x] = true
	}
	var del []string
	for _, x := range before {
		if !af[x] {
			del = append(del, x)
		}
	}
	return del
}

// ---------------------------------------------------------------- watchdog
//
// Every call into the implementation runs under a watchdog (vh.GuardTimeout): a call that never
// returns (a lock taken twice, a loop that does not end) must end the history, not the check.
// The first hang gets the long watchdog; afterwards a shorter one bounds what the remaining
// histories can cost, and the families in which a hang was met are not fed again.
var hangs int
var hungGens = map[string]bool{}
var lostRuns int // loggers whose lock is held for good: their background goroutine never parks again

func watchdog() time.Duration {
	if hangs > 0 {
		return 30 * time.Second
	}
	return 120 * time.Second
}

func guarded(f func()) vh.Outcome { return vh.GuardTimeout(watchdog(), f) }

func listRegular(dir string) []string {
	es, _ := os.ReadDir(dir)
	var out []string
	for _, e := range es {
		if e.Type().IsRegular() {
			out = append(out, e.Name())
		}
	}
	sort.Strings(out)
	return out
}

func hexNames(xs []string) string {
	if len(xs) == 0 {
		return "-"
	}
	ys := make([]string, len(xs))
	for i, x := range xs {
		ys[i] = vh.Hex([]byte(x))
	}
	sort.Strings(ys)
	return strings.Join(ys, ",")
}

// snapshot of everything under logs, in driver syntax, plus a map for direct evaluation
func snapshot(logs string) (string, map[string][]byte) {
	var parts []string
	m := map[string][]byte{}
	filepath.Walk(logs, func(p string, info os.FileInfo, err error) error {
		if err != nil {
			return nil
		}
		rel, _ := filepath.Rel(logs, p)
		if rel == "." {
			rel = ""
		}
		if info.IsDir() {
			parts = append(parts, fmt.Sprintf("%s:d:%d", vh.Hex([]byte(rel)), info.Size()))
			m[rel] = nil
		} else if info.Mode().IsRegular() {
			b, _ := os.ReadFile(p)
			if b == nil {
				b = []byte{}
			}
			parts = append(parts, fmt.Sprintf("%s:f:%s", vh.Hex([]byte(rel)), vh.Hex(b)))
			m[rel] = b
		}
		return nil
	})
	if len(parts) == 0 {
		return "-", m
	}
	return strings.Join(parts, ","), m
}

// dirListing: the entries of <home>/logs in os.ReadDir order (sorted by name), driver syntax
func dirListing(logs string) string {
	es, _ := os.ReadDir(logs)
	var parts []string
	for _, e := range es {
		fi, err := e.Info()
		if err != nil {
			continue
		}
		k := "f"
		if fi.IsDir() {
			k = "d"
		}
		parts = append(parts, fmt.Sprintf("%s:%s:%d", vh.Hex([]byte(e.Name())), k, fi.Size()))
	}
	if len(parts) == 0 {
		return "-"
	}
	return strings.Join(parts, ",")
}

func curSize(l *logfile.FileLogger) int64 {
	f := l.GetLogFile()
	if f == nil {
		return -1
	}
	fi, err := f.Stat()
	if err != nil {
		return -1
	}
	return fi.Size()
}

func curName(l *logfile.FileLogger) string {
	f := l.GetLogFile()
	if f == nil {
		return "none"
	}
	return filepath.Base(f.Name())
}

func callLog(l *logfile.FileLogger, meth string, id, msg string) {
	switch meth {
	case "errorf":
		l.Errorf("%s", msg)
	case "error":
		l.Error(msg)
	case "warnf":
		l.Warnf("%s", msg)
	case "warn":
		l.Warn(msg)
	case "infof":
		l.Infof("%s", msg)
	case "info":
		l.Info(msg)
	case "infoln":
		l.Infoln(msg)
	case "debugf":
		l.Debugf("%s", msg)
	case "debug":
		l.Debug(msg)
	case "printf":
		l.Printf(id, "%s", msg)
	case "println":
		l.Println(id, msg)
	case "printlnstd":
		l.PrintlnStd(msg, false)
	default:
		vh.Die("unknown method %s", meth)
	}
}

func (o *hop) fileArg(home string) string {
	return strings.ReplaceAll(string(vh.UnHex(o.File)), "@home", home)
}

// hangEstablished: a log call did not return within the watchdog.  The hang is reported once; the
// families of histories that fill the id table (where it was met) are not fed again, because each
// further call would block for the whole watchdog.
var hangEstablished bool

func fillsTable(c *hcase) bool {
	switch strings.TrimSuffix(c.Gen, "+probe") {
	case "manyids", "fulltable", "refreshfull", "evict":
		return true
	}
	return len(c.Ops) > 600
}

// runImpl executes the history on a fresh real logger.
func runImpl(c *hcase) *obs {
	if (hangEstablished && fillsTable(c)) || hungGens[strings.TrimSuffix(c.Gen, "+probe")] {
		return &obs{skipped: true, files: map[string][]byte{}}
	}
	if !realClock {
		clockInit()
	}
	if (c.Clock == "delta" || c.Clock == "server") && len(c.Deltas) == 0 {
		c.Deltas = []int64{3600000}
	}
	home, base := newHomeNamed(c.Home)
	defer os.RemoveAll(base)
	logs := home + "/logs"
	twinLogs := ""
	if c.Twin != "" {
		twinLogs = base + "/" + c.Twin + "/logs"
		os.MkdirAll(twinLogs, 0o755)
		for _, s := range c.TwinSeeds {
			os.WriteFile(twinLogs+"/"+s.Name, vh.UnHex(s.Content), 0o644)
		}
	}
	for _, s := range c.Seeds {
		if s.Dir {
			os.Mkdir(filepath.Join(logs, s.Name), 0o755)
			if s.Content != "" { // a directory that is not empty
				os.WriteFile(filepath.Join(logs, s.Name, "inside.txt"), vh.UnHex(s.Content), 0o644)
			}
			continue
		}
		if err := os.WriteFile(filepath.Join(logs, s.Name), vh.UnHex(s.Content), 0o644); err != nil {
			vh.Die("seed %q: %v", s.Name, err)
		}
	}
	if len(c.Nested) > 0 {
		os.Mkdir(filepath.Join(logs, "sub"), 0o755)
		for _, s := range c.Nested {
			os.WriteFile(filepath.Join(logs, "sub", s.Name), vh.UnHex(s.Content), 0o644)
		}
	}
	os.WriteFile(filepath.Join(home, "secret.txt"), []byte("TOP-SECRET-OUTSIDE-LOGS"), 0o644)
	os.Mkdir(filepath.Join(home, "logsx"), 0o755)
	os.WriteFile(filepath.Join(home, "logsx", "y.log"), []byte("SIBLING-DIRECTORY"), 0o644)

	ob := &obs{home: home, files: map[string][]byte{}}
	n := len(c.Ops)
	ob.outs = make([]string, n)
	ob.snaps = make([]string, n)
	ob.curAt = make([]string, n)
	ob.wrote = make([]bool, n)
	ob.readRes = make([]*logfile.LogData, n)
	ob.readFile = make([]string, n)
	ob.snapMap = make([]map[string][]byte, n)
	ob.dels = make([][]string, n)
	ob.before = make([][]string, n)
	ob.dirDels = make([][]string, n)
	ob.outDels = make([][]string, n)

	c.setTime(-1, c.T0)
	var l *logfile.FileLogger
	out := guarded(func() {
		// options that must not change anything observable: a context, a config observer, stdout off
		opts := []logfile.FileLoggerOption{logfile.WithHomePath(home), logfile.WithOnameLogID(c.Oname, c.LogID), logfile.WithLevel(c.Level)}
		sel := c.T0/1000 + int64(len(c.Ops)) + int64(len(c.Seeds))
		if sel%3 == 1 {
			ctx, cancel := context.WithCancel(context.Background())
			defer cancel()
			opts = append([]logfile.FileLoggerOption{logfile.WithContext(ctx, cancel)}, opts...)
		}
		if sel%5 == 2 {
			opts = append(opts, logfile.WithConfigObserver(config.NewConfigObserver()))
		}
		if sel%7 == 3 {
			opts = append(opts, logfile.WithStdout(false))
		}
		l = logfile.NewFileLogger(opts...)
	})
	created++
	if out.Timeout {
		hangs++
		lostRuns++
		hungGens[strings.TrimSuffix(c.Gen, "+probe")] = true
		ob.hung = true
		ob.panics = append(ob.panics, fmt.Sprintf("NewFileLogger: did not return within %v", watchdog()))
		return ob
	}
	if !out.OK() || l == nil {
		ob.panics = append(ob.panics, "NewFileLogger: "+out.Panic)
		return ob
	}
	waitParked()
	defer func() {
		if !ob.hung { // a hung call holds the logger's lock: closing would block as well
			guarded(func() { l.CloseForVerif() })
		}
	}()
	ob.newCur = curName(l)
	// hung: operation i did not return; the history ends here and is reported once
	hung := func(i int, what string) {
		wd := watchdog()
		hangs++
		lostRuns++
		hungGens[strings.TrimSuffix(c.Gen, "+probe")] = true
		ob.outs[i] = "timeout"
		ob.hung = true
		ob.panics = append(ob.panics, fmt.Sprintf("op %d %s: did not return within %v", i, what, wd))
		ob.curAt[i] = curName(l)
	}

ops:
	for i := range c.Ops {
		o := &c.Ops[i]
		c.setTime(i, o.T)
		switch o.Kind {
		case "log":
			before := curSize(l)
			// watchdog on every call (a call that never returns holds the logger's locks)
			g := guarded(func() { callLog(l, o.Meth, string(vh.UnHex(o.ID)), string(vh.UnHex(o.Msg))) })
			if g.Timeout {
				if fillsTable(c) {
					hangEstablished = true // once is enough: every further call of these families would block as long
				}
				hung(i, o.Meth)
				break ops
			}
			after := curSize(l)
			if !g.OK() {
				ob.outs[i] = "panic"
				ob.panics = append(ob.panics, fmt.Sprintf("op %d %s: %s", i, o.Meth, g.Panic))
			} else if after > before {
				ob.outs[i] = "w"
				ob.wrote[i] = true
			} else {
				ob.outs[i] = "s"
			}
		case "proc", "clr":
			bf := listRegular(logs)
			dbf := listDirs(logs)
			var tbf []string
			if twinLogs != "" {
				tbf = listRegular(twinLogs)
			}
			g := guarded(func() {
				if o.Kind == "proc" {
					l.ProcessOnceForVerif()
				} else {
					l.ClearOldLogForVerif()
				}
			})
			del := minus(bf, listRegular(logs))
			ob.dels[i] = del
			ob.before[i] = bf
			ob.dirDels[i] = minus(dbf, listDirs(logs))
			if twinLogs != "" {
				ob.outDels[i] = minus(tbf, listRegular(twinLogs))
			}
			if g.Timeout {
				what := "background cycle (process)"
				if o.Kind == "clr" {
					what = "retention pass (clearOldLog)"
				}
				hung(i, what)
				break ops
			}
			if !g.OK() {
				ob.outs[i] = "panic"
				ob.panics = append(ob.panics, fmt.Sprintf("op %d %s: %s", i, o.Kind, g.Panic))
			} else if o.Kind == "proc" {
				ob.outs[i] = "del " + hexNames(del) + " " + vh.Hex([]byte(curName(l)))
			} else {
				ob.outs[i] = "del " + hexNames(del)
			}
		case "lvl":
			if g := guarded(func() { l.SetLevel(o.Lv) }); g.Timeout {
				hung(i, "SetLevel")
				break ops
			}
			ob.outs[i] = "ok"
		case "cfg":
			if g := guarded(func() {
				l.ApplyConfig(&fakeConf{rot: o.Rot, keep: int32(o.Keep), interval: int32(o.Interval), level: o.LevelStr})
			}); g.Timeout {
				hung(i, "ApplyConfig")
				break ops
			}
			ob.outs[i] = "ok"
		case "read":
			file := o.fileArg(home)
			ob.readFile[i] = file
			ob.snaps[i], ob.snapMap[i] = snapshot(logs)
			var d *logfile.LogData
			szBefore := curSize(l)
			g := guarded(func() { d = l.Read(file, o.Endpos, o.Length) })
			if g.Timeout {
				hung(i, "Read")
				break ops
			}
			ob.wrote[i] = curSize(l) > szBefore // a failing Read logs an [Error] line of its own
			ob.readRes[i] = d
			if !g.OK() {
				ob.outs[i] = "panic"
				ob.panics = append(ob.panics, fmt.Sprintf("op %d read: %s", i, g.Panic))
			} else if d == nil {
				ob.outs[i] = "nil"
			} else {
				ob.outs[i] = fmt.Sprintf("data %d %d %s", d.Before, d.Next, vh.Hex([]byte(d.Text)))
			}
		case "files":
			// GetLogFiles: the listing of <home>/logs in ReadDir order is handed to the model; a panic is a
			// modelled quirk (dot inside logID/oname), not a failure of the statement
			ob.snaps[i] = dirListing(logs)
			var mv *value.MapValue
			g := guarded(func() { mv = l.GetLogFiles() })
			if g.Timeout {
				hung(i, "GetLogFiles")
				break ops
			}
			if !g.OK() || mv == nil {
				ob.outs[i] = "panic"
			} else {
				var ents []string
				for en := mv.Keys(); en.HasMoreElements(); {
					k := en.NextString()
					sz := int64(-1)
					if d, ok := mv.Get(k).(*value.DecimalValue); ok {
						sz = d.Val
					}
					ents = append(ents, fmt.Sprintf("%s:%d", vh.Hex([]byte(k)), sz))
				}
				sort.Strings(ents)
				ob.outs[i] = "files " + vh.List(ents)
			}
		case "path":
			var pth string
			g := guarded(func() { pth = l.GetLogFilePath() })
			if g.Timeout {
				hung(i, "GetLogFilePath")
				break ops
			}
			if !g.OK() {
				ob.outs[i] = "panic"
			} else {
				ob.outs[i] = "path " + vh.Hex([]byte(strings.TrimPrefix(pth, "/")))
			}
		default:
			vh.Die("unknown op kind %q", o.Kind)
		}
		ob.curAt[i] = curName(l)
		if realClock {
			// virtual time = time.Now() + delta: if this operation was held up for seconds (loaded
			// machine) its decisions are no longer those of the scripted instant
			if d := dateutil.Now() - o.T; d > 1500 || d < -1500 {
				ob.disturbed = true
			}
		}
	}
	for _, nme := range listRegular(logs) {
		b, _ := os.ReadFile(filepath.Join(logs, nme))
		ob.files[nme] = b
	}
	return ob
}

// driverLines renders the history for the Lean driver (READ lines need the snapshots taken
// during the run).
func driverLines(c *hcase, ob *obs) []string {
	var seeds []string
	for _, s := range c.Seeds {
		if s.Dir {
			continue
		}
		seeds = append(seeds, vh.Hex([]byte(s.Name))+":"+vh.Hex(vh.UnHex(s.Content)))
	}
	lines := []string{fmt.Sprintf("NEW %d %d %s %s %s %s", c.T0, c.Level, vh.Hex([]byte(c.Oname)), vh.Hex([]byte(c.LogID)),
		vh.Hex([]byte(ob.home)), vh.List(seeds))}
	for i := range c.Ops {
		o := &c.Ops[i]
		switch o.Kind {
		case "log":
			lines = append(lines, fmt.Sprintf("LOG %d %s %s %s", o.T, o.Meth, vh.Hex(vh.UnHex(o.ID)), vh.Hex(vh.UnHex(o.Msg))))
		case "proc":
			lines = append(lines, fmt.Sprintf("PROC %d", o.T))
		case "clr":
			lines = append(lines, fmt.Sprintf("CLR %d", o.T))
		case "lvl":
			lines = append(lines, fmt.Sprintf("LVL %d", o.Lv))
		case "cfg":
			r := "0"
			if o.Rot {
				r = "1"
			}
			lines = append(lines, fmt.Sprintf("CFG %s %d %d %s", r, o.Keep, o.Interval, vh.Hex([]byte(o.LevelStr))))
		case "read":
			snap := ob.snaps[i]
			if snap == "" {
				snap = "-"
			}
			lines = append(lines, fmt.Sprintf("READ %d %s %d %d %s", o.T, vh.Hex([]byte(ob.readFile[i])), o.Endpos, o.Length, snap))
		case "files":
			snap := ob.snaps[i]
			if snap == "" {
				snap = "-"
			}
			lines = append(lines, "FILES "+snap)
		case "path":
			lines = append(lines, "PATH")
		}
	}
	lines = append(lines, "DUMP")
	return lines
}
