package main

// Generators of histories.  Every random choice derives from the run's Rng.

import (
	"fmt"
	"math"
	"sort"
	"sync"
	"time"

	"github.com/whatap/golib/util/hash"
	"verif/harness/vh"
)

var onames = []string{"boot", "boot", "agent1", "a-b", "x.y", "B_2"}
var logIDs = []string{"whatap", "whatap", "RUM", "wh-ap", "w"}
var levels = []int{0, 1, 2, 2, 3, 3, -1, 4, 7}
var levelStrs = []string{"error", "warn", "info", "debug", "WARN", "Info", "DEBUG", "Error", "", "bogus", "warning"}
var methods = []string{"errorf", "error", "warnf", "warn", "infof", "info", "infoln", "debugf", "debug", "printf", "println", "printlnstd"}
var explicitIDs = []string{"WA111", "WA112", "", "an-id-longer-than-ten-bytes", "x", "WA111"}

var bodies = []string{
	"disk full on /dev/sda1", "disk full on /dev/sdb7", "connection refused", "connection reset by peer",
	"WA12345678 alpha", "WA12345678 beta", "WA1234567A", "WA1234567B tail",
	"", "a", "123456789", "1234567890", "12345678901",
	"line1\nline2", "trailing newline\n", "\n",
	"한글로그메시지입니다", "한글로그메시지였습니다", "%d %s %% %!v(MISSING)",
	"Read log file is not me", "tab\tand\x1b[0m\nreset inside",
}

func dayStr(u int64) string { return time.UnixMilli(baseTime + u*dayMs).UTC().Format("20060102") }

type builder struct {
	r   *vh.Rng
	c   *hcase
	t   int64
	seq *int
	// generator-side view of the settings, only to aim the time steps at the boundaries
	interval int
	keep     int
	lastLogT int64
}

func (b *builder) clampT() {
	lo := baseTime + 400*dayMs
	hi := baseTime + 36100*dayMs
	if b.t < lo {
		b.t = lo
	}
	if b.t > hi {
		b.t = hi
	}
}

func (b *builder) adv(ms int64) { b.t += ms; b.clampT() }

func (b *builder) toMidnight(off int64) { // next midnight + off
	next := (unitOf(b.t) + 1) * dayMs + baseTime
	b.t = next + off
	b.clampT()
}

func (b *builder) step() {
	r := b.r
	switch x := r.Intn(100); {
	case x < 35:
	case x < 50:
		b.adv(int64(r.Intn(2000)) + 1)
	case x < 65: // around the rate-limit boundary of the last log call
		iv := int64(b.interval)
		if iv <= 0 {
			iv = 10
		}
		b.t = b.lastLogT + iv*1000 + r.Pick64([]int64{-1, 0, 1, -1000, 1000})
		b.clampT()
	case x < 75:
		b.adv(r.Pick64([]int64{59999, 60000, 60001, 60002}))
	case x < 85:
		b.toMidnight(r.Pick64([]int64{-1, 0, 1, -1000, 5000}))
	case x < 95:
		k := int64(b.keep)
		if k < 0 {
			k = 0
		}
		b.adv(dayMs * r.Pick64([]int64{1, 2, k, k + 1, k + 2, 40}))
	case x < 98:
		b.adv(-r.Pick64([]int64{1, 1000, 11000, dayMs}))
	default:
		b.adv(int64(r.Intn(3600000)))
	}
}

func (b *builder) msg() string {
	r := b.r
	var body string
	switch {
	case r.Chance(70):
		body = r.PickStr(bodies)
	case r.Chance(50):
		body = string(r.Bytes(r.Intn(30)))
	default:
		body = fmt.Sprintf("unique message %d", r.Intn(1000000))
	}
	if r.Chance(55) {
		*b.seq++
		body += fmt.Sprintf(" #%d#", *b.seq)
	}
	return body
}

func (b *builder) log(meth, id, msg string) {
	b.c.Ops = append(b.c.Ops, hop{Kind: "log", T: b.t, Meth: meth, ID: vh.Hex([]byte(id)), Msg: vh.Hex([]byte(msg))})
	b.lastLogT = b.t
}
func (b *builder) proc() { b.c.Ops = append(b.c.Ops, hop{Kind: "proc", T: b.t}) }
func (b *builder) clr()  { b.c.Ops = append(b.c.Ops, hop{Kind: "clr", T: b.t}) }
func (b *builder) lvl(n int) {
	b.c.Ops = append(b.c.Ops, hop{Kind: "lvl", T: b.t, Lv: n})
}
func (b *builder) cfg(rot bool, keep, iv int, lv string) {
	b.c.Ops = append(b.c.Ops, hop{Kind: "cfg", T: b.t, Rot: rot, Keep: keep, Interval: iv, LevelStr: lv})
	b.keep, b.interval = keep, iv
}
func (b *builder) read(file string, end, length int64) {
	b.c.Ops = append(b.c.Ops, hop{Kind: "read", T: b.t, File: vh.Hex([]byte(file)), Endpos: end, Length: length})
}

func (b *builder) files() { b.c.Ops = append(b.c.Ops, hop{Kind: "files", T: b.t}) }
func (b *builder) path()  { b.c.Ops = append(b.c.Ops, hop{Kind: "path", T: b.t}) }

func (b *builder) randCfg() {
	r := b.r
	b.cfg(r.Chance(75), r.PickInt([]int{-1, 0, 1, 2, 7, 7, 30}), r.PickInt([]int{-1, 0, 1, 10, 10, 60}), r.PickStr(levelStrs))
}

func (b *builder) randLog() {
	r := b.r
	m := r.PickStr(methods)
	id := ""
	if m == "printf" || m == "println" {
		id = r.PickStr(explicitIDs)
	}
	b.log(m, id, b.msg())
}

func content(r *vh.Rng) string {
	switch r.Intn(4) {
	case 0:
		return vh.Hex(nil)
	case 1:
		return vh.Hex([]byte("old line 1\nold line 2\n"))
	case 2:
		return vh.Hex(r.Bytes(r.Intn(40) + 1))
	default:
		return vh.Hex([]byte("x"))
	}
}

// seeds: own files of all ages and foreign look-alikes
func (b *builder) seeds(dense bool) {
	r, c := b.r, b.c
	u := unitOf(c.T0)
	p := 35
	if dense {
		p = 75
	}
	add := func(name string) {
		if name == "" || len(name) > 200 {
			return
		}
		for _, s := range c.Seeds {
			if s.Name == name {
				return
			}
		}
		if r.Chance(p) {
			c.Seeds = append(c.Seeds, seed{Name: name, Content: content(r)})
		}
	}
	id, on := c.LogID, c.Oname
	for _, age := range []int64{0, 1, 2, 6, 7, 8, 9, 30, 31, 32, 365, -1, -400, int64(r.Intn(60))} {
		add(id + "-" + on + "-" + dayStr(u-age) + ".log")
		if r.Chance(30) {
			add(id + "-other-" + dayStr(u-age) + ".log")
		}
	}
	old := dayStr(u - 100)
	for _, n := range []string{
		id + "x-" + on + "-" + old + ".log", "x" + id + "-" + on + "-" + old + ".log", id + on + "-" + old + ".log",
		id + "-" + on + "-" + old[:7] + ".log", id + "-" + on + "-" + old + "0.log",
		id + "-" + on + "-abcdefgh.log", id + "-" + on + "-2020ab01.log", id + "-" + on + "-abcd0101.log", id + "-" + on + "-+2020101.log",
		id + "-" + on + "- 2020101.log", id + "-" + on + "-0x200101.log", id + "-" + on + "-２０２００１０１.log",
		id + "-" + old + ".log", id + "-" + on + "-" + old + ".txt", id + "-" + on + "-" + old + ".log.gz", id + "-" + on + "-" + old + ".log.1",
		id + "-" + on + "-" + old, id + "-" + on + "-" + old + ".lo-g", id + "-" + on + "-" + old + ".",
		id, id + "-", id + "-.log", id + "--" + old + ".log", "-" + old + ".log", id + "-" + on + ".log", id + "-" + on + "-.log",
		id + "-" + on + "-20240230.log", id + "-" + on + "-20241301.log", id + "-" + on + "-20240100.log", id + "-" + on + "-20240000.log",
		id + "-" + on + "-20230229.log", id + "-" + on + "-20000229.log",
		id + "-" + on + "-19990101.log", id + "-" + on + "-21000101.log", id + "-" + on + "-99991231.log", id + "-" + on + "-00000101.log",
		"whatap-hook.log", "other.log", "README", ".hidden", "WHATAP-" + on + "-" + old + ".log",
	} {
		add(n)
	}
	if r.Chance(30) {
		c.Seeds = append(c.Seeds, seed{Name: id + "-" + on + "-20000101.log.d", Dir: true})
	}
	if r.Chance(20) {
		c.Seeds = append(c.Seeds, seed{Name: id + "-dir-20000102.log", Dir: true})
	}
}

func newCase(r *vh.Rng, gen string, seq *int) (*hcase, *builder) {
	c := &hcase{Gen: gen, Level: r.PickInt(levels), Oname: r.PickStr(onames), LogID: r.PickStr(logIDs)}
	u := int64(400 + r.Intn(35600))
	tod := r.Pick64([]int64{0, 1, 3600000, 43200000, 86399000, 86399999, 86340000, int64(r.Intn(int(dayMs)))})
	c.T0 = baseTime + u*dayMs + tod
	b := &builder{r: r, c: c, t: c.T0, seq: seq, interval: 10, keep: 7, lastLogT: c.T0}
	b.pickClock()
	return c, b
}

// pickClock chooses how the virtual time reaches the logger: directly as system time, or as
// system time plus a server-sync delta (set with SetDelta, or derived by SetServerTime),
// positive and negative, below and above a day, constant or changing during the history, and
// chosen so that system time and adjusted time lie on different calendar days.
func (b *builder) pickClock() {
	r, c := b.r, b.c
	tod := (c.T0 - baseTime) % dayMs
	pool := []int64{1, -1, 999, -999, 3600000, -3600000, 43200000, -43200000, dayMs - 1, -(dayMs - 1), dayMs, -dayMs, dayMs + 1, -(dayMs + 1),
		3 * dayMs, -3 * dayMs, 399 * dayMs, -399 * dayMs, 30*dayMs + 12345, -(30*dayMs + 12345),
		tod + 1, -(dayMs - tod), tod + 1 + 3600000, -(dayMs - tod) - 3600000}
	switch x := r.Intn(100); {
	case x < 35:
		c.Clock = "sync"
		return
	case x < 72:
		c.Clock = "delta"
	default:
		c.Clock = "server"
	}
	n := 1
	if r.Chance(40) {
		n = 2 + r.Intn(3)
	}
	for i := 0; i < n; i++ {
		c.Deltas = append(c.Deltas, r.Pick64(pool))
	}
}

// many distinct ids: every id is logged, repeated at once (inside the interval) and again
// later; n >= 400 crosses the growth steps of the id cache's hash table (76, 152, 304, 609
// entries for capacity 101 and load factor 0.75), n > 1000 its eviction bound.
func genManyIds(r *vh.Rng, seq *int, n int) *hcase {
	c, b := newCase(r, "manyids", seq)
	c.Level = 0
	iv := 10
	if r.Chance(40) {
		iv = r.PickInt([]int{30, 60})
		b.cfg(true, 7, iv, "debug")
	}
	type ent struct{ m, id, msg string }
	ents := make([]ent, n)
	salt := r.Intn(1000)
	for k := 0; k < n; k++ {
		m := r.PickStr([]string{"errorf", "warnf", "infof", "error", "warn", "printf", "println", "infoln"})
		e := ent{m: m}
		switch {
		case m == "printf" || m == "println":
			e.id = fmt.Sprintf("ID-%d-%d", salt, k)
			if r.Chance(20) {
				e.id = fmt.Sprintf("%d", k*7919+salt) // short numeric ids
			}
			e.msg = "explicit id"
		default:
			e.msg = fmt.Sprintf("k%03d%06d", salt, k) + r.PickStr([]string{"", " tail", " other tail of the message"})
		}
		ents[k] = e
		b.log(e.m, e.id, e.msg)
		b.adv(r.Pick64([]int64{0, 0, 1, 2}))
		b.log(e.m, e.id, e.msg) // inside the interval: suppressed
		b.adv(r.Pick64([]int64{0, 1, 3}))
	}
	// later: everything again, inside or beyond the interval
	if r.Chance(50) {
		b.adv(int64(iv)*1000 - (b.t - c.T0) - 1 - int64(r.Intn(500))) // still inside for every id
	} else {
		b.adv(int64(iv)*1000 + int64(r.Intn(3)) - 1) // at the boundary of the newest, beyond for the rest
	}
	for k := 0; k < n; k++ {
		e := ents[k]
		b.log(e.m, e.id, e.msg)
		if r.Chance(30) {
			b.log(e.m, e.id, e.msg)
		}
	}
	b.adv(int64(iv) * 1000)
	for k := 0; k < n; k += 1 + r.Intn(3) {
		e := ents[k]
		b.log(e.m, e.id, e.msg)
		b.log(e.m, e.id, e.msg)
	}
	return c
}

// histories for the real clock (time.Now() + delta): every decision is at least several
// seconds away from its boundary, so that the milliseconds that pass while the history runs
// do not matter.
func genReal(r *vh.Rng, seq *int) *hcase {
	c, b := newCase(r, "realclock", seq)
	c.Clock, c.Deltas = "real", nil
	c.T0 = baseTime + unitOf(c.T0)*dayMs + r.Pick64([]int64{3600000, 43200000, 82800000})
	b.t, b.lastLogT = c.T0, c.T0
	b.seeds(r.Chance(50))
	iv := 10
	days := 1 + r.Intn(3)
	logs := func(k int) {
		for ; k > 0; k-- {
			m := r.PickStr(methods)
			id := ""
			if m == "printf" || m == "println" {
				id = r.PickStr(explicitIDs)
			}
			body := fmt.Sprintf("real clock message %d", r.Intn(50)) // same first 10 bytes: one id for the levelled calls
			mark := func() string { *b.seq++; return fmt.Sprintf("%s #%d#", body, *b.seq) }
			b.log(m, id, mark())
			switch r.Intn(4) {
			case 0:
				b.log(m, id, mark()) // at once: suppressed when rate limited
			case 1:
				b.adv(int64(iv)*1000 + 5000)
				b.log(m, id, mark())
			case 2:
				b.adv(int64(iv)*1000 - 5000)
				b.log(m, id, mark())
			}
			b.adv(20000 * int64(iv) / 10)
		}
	}
	for d := 0; d < days; d++ {
		logs(r.Intn(4))
		if r.Chance(35) {
			iv = r.PickInt([]int{0, 10, 10, 60})
			b.cfg(r.Chance(80), r.PickInt([]int{0, 1, 2, 7, 30}), iv, r.PickStr(levelStrs))
			if iv <= 0 {
				iv = 10
			}
		}
		b.toMidnight(r.Pick64([]int64{3600000, 600000, 43200000}))
		if r.Chance(20) {
			b.adv(dayMs * int64(r.Intn(9)))
		}
		logs(r.Intn(3))
		if r.Chance(90) {
			b.proc()
		}
		logs(r.Intn(4))
		switch r.Intn(3) {
		case 0:
			b.adv(30000)
			b.proc()
		case 1:
			b.adv(120000)
			b.proc()
		}
		if r.Chance(20) {
			b.clr()
		}
		logs(r.Intn(2))
	}
	return c
}

func genMixed(r *vh.Rng, seq *int) *hcase {
	c, b := newCase(r, "mixed", seq)
	b.seeds(false)
	n := 8 + r.Intn(50)
	for i := 0; i < n; i++ {
		b.step()
		switch x := r.Intn(100); {
		case x < 58:
			b.randLog()
		case x < 74:
			b.proc()
		case x < 77:
			b.clr()
		case x < 83:
			b.lvl(r.PickInt(levels))
		case x < 91:
			b.randCfg()
		default:
			b.randRead()
		}
	}
	return c
}

// rate limiter: few ids, times aimed at the interval boundary
func genRate(r *vh.Rng, seq *int) *hcase {
	c, b := newCase(r, "rate", seq)
	c.Level = 0
	if r.Chance(60) {
		b.cfg(true, 7, r.PickInt([]int{1, 2, 10, 60, 0, -1}), "debug")
	}
	pool := []string{"AAAAAAAAAA-one", "AAAAAAAAAA-two", "AAAAAAAAAB", "AAAAAAAAA", "short", ""}
	if full, _ := collisions(); len(full) > 0 {
		g := full[r.Intn(len(full))]
		pool = append(pool, g[0], g[1], g[0]+" with a tail", g[1]+" with a tail")
	}
	lastW := map[string]int64{}
	n := 10 + r.Intn(40)
	for i := 0; i < n; i++ {
		m := r.PickStr([]string{"errorf", "warnf", "infof", "error", "printf", "println", "debugf"})
		body := r.PickStr(pool)
		id := ""
		if m == "printf" || m == "println" {
			id = r.PickStr([]string{"WA1", "WA2", ""})
		}
		key := m[:1] + body + id
		iv := int64(b.interval)
		if iv <= 0 {
			iv = 10
		}
		if t, ok := lastW[key]; ok && r.Chance(70) {
			b.t = t + iv*1000 + r.Pick64([]int64{-1, 0, 1, -2, 2, -999})
			if b.t < c.T0 {
				b.t = c.T0
			}
			b.clampT()
		} else if r.Chance(50) {
			b.adv(int64(r.Intn(3000)))
		}
		msg := body
		if len(body) >= 10 && r.Chance(60) {
			*seq++
			msg += fmt.Sprintf(" #%d#", *seq)
		}
		b.log(m, id, msg)
		lastW[key] = b.t
		if r.Chance(8) {
			b.randCfg()
		}
	}
	return c
}

// more than 1000 distinct ids: the oldest entries of the id cache are evicted
func genEvict(r *vh.Rng, seq *int) *hcase {
	c, b := newCase(r, "evict", seq)
	c.Level = 0
	first := "id-0000000 first"
	b.log("errorf", "", first)
	b.adv(1)
	b.log("errorf", "", first) // suppressed
	n := 998 + r.Intn(6)
	for i := 1; i <= n; i++ {
		b.log("warnf", "", fmt.Sprintf("id-%07d x", i))
	}
	b.adv(1)
	b.log("errorf", "", first)               // written again iff its entry was evicted
	b.log("printf", "", "empty id is never limited")
	b.log("printf", "", "empty id is never limited")
	b.log("warnf", "", fmt.Sprintf("id-%07d x", 1)) // second oldest
	b.log("warnf", "", fmt.Sprintf("id-%07d x", n)) // newest: suppressed
	return c
}

// rotation: day boundaries, lines before and after the cycle, rotation switched off and on
func genRotation(r *vh.Rng, seq *int) *hcase {
	c, b := newCase(r, "rotation", seq)
	c.Level = r.PickInt([]int{0, 1, 2})
	b.seeds(false)
	days := 1 + r.Intn(4)
	for d := 0; d < days; d++ {
		for k := r.Intn(4); k > 0; k-- {
			b.adv(int64(r.Intn(5000)))
			b.randLog()
		}
		if r.Chance(30) {
			b.randCfg()
		}
		b.toMidnight(r.Pick64([]int64{-1, 0, 0, 1, 1500}))
		for k := r.Intn(3); k > 0; k-- {
			b.randLog()
			b.adv(int64(r.Intn(20000)))
		}
		if r.Chance(85) {
			b.proc()
		}
		for k := r.Intn(4); k > 0; k-- {
			b.adv(int64(r.Intn(5000)))
			b.randLog()
		}
		if r.Chance(30) {
			b.adv(10000)
			b.proc()
		}
	}
	return c
}

// retention: dense directory, cycles at chosen ages and settings
func genRetention(r *vh.Rng, seq *int) *hcase {
	c, b := newCase(r, "retention", seq)
	b.seeds(true)
	n := 1 + r.Intn(5)
	for i := 0; i < n; i++ {
		if r.Chance(60) {
			b.randCfg()
		}
		switch r.Intn(4) {
		case 0:
			b.adv(r.Pick64([]int64{60000, 60001}))
		case 1:
			b.adv(dayMs * int64(r.Intn(10)))
		case 2:
			b.toMidnight(r.Pick64([]int64{-1, 0, 60001}))
		}
		if r.Chance(25) {
			b.clr()
		} else {
			b.proc()
		}
		if r.Chance(40) {
			b.randLog()
		}
	}
	return c
}

// retention-names: what stands in <home>/logs and how the logger is configured is unusual, the
// statement is the same — retention removes the logger's own dated FILES of ITS logs directory and
// nothing else.  (a) directories (empty and not) named exactly like old own dated logs; (b) a home
// path whose last element carries a glob metacharacter, next to a sibling home whose name that
// pattern would match, holding old files with the very same names; (c) a log id carrying a
// metacharacter, next to files of the id it would match as a pattern.
var metaHomes = []struct{ home, twin string }{{"app[1]", "app1"}, {"a?c", "abc"}, {"st*r", "star"}, {"app[1-3]", "app2"},
	{"x\\[y", "x[y"}, {"home with blanks", "homewithblanks"}, {"app[^a]", "appb"}, {"[a]pp", "app"}}
var metaLogIDs = []struct{ id, victim string }{{"wh?tap", "whatap"}, {"what*", "whatap"}, {"[w]hatap", "whatap"}, {"w\\hatap", "whatap"},
	{"wh[a-z]tap", "whatap"}, {"*", "RUM"}, {"wha[^x]ap", "whatap"}}

func genRetentionNames(r *vh.Rng, seq *int) *hcase {
	c, b := newCase(r, "retention-names", seq)
	kind := r.Intn(3)
	victim := ""
	if kind == 1 || r.Chance(20) {
		h := metaHomes[r.Intn(len(metaHomes))]
		c.Home, c.Twin = h.home, h.twin
	}
	if kind == 2 || r.Chance(20) {
		m := metaLogIDs[r.Intn(len(metaLogIDs))]
		c.LogID, victim = m.id, m.victim
	}
	b.seeds(r.Chance(50))
	id, on := c.LogID, c.Oname
	u := unitOf(c.T0)
	has := func(name string) bool {
		for _, s := range c.Seeds {
			if s.Name == name {
				return true
			}
		}
		return false
	}
	ages := []int64{100, 9, 8, 400, 31, 1, 0, int64(r.Intn(60))}
	// (a) directories named like own dated logs
	if kind == 0 || r.Chance(40) {
		for _, age := range ages {
			for _, o2 := range []string{on, "archive", "dir"} {
				name := id + "-" + o2 + "-" + dayStr(u-age) + ".log"
				if age == 0 && o2 == on {
					continue // the name of the file the logger opens
				}
				if has(name) || !r.Chance(35) {
					continue
				}
				inside := ""
				if r.Chance(40) {
					inside = vh.Hex([]byte("kept by somebody"))
				}
				c.Seeds = append(c.Seeds, seed{Name: name, Dir: true, Content: inside})
			}
		}
		c.Seeds = append(c.Seeds, seed{Name: id + "-" + on + "-" + dayStr(u-200) + ".d", Dir: true})
	}
	// own old files that must go, whatever else is unusual
	for _, age := range []int64{100, 9} {
		if name := id + "-" + on + "-" + dayStr(u-age) + ".log"; !has(name) {
			c.Seeds = append(c.Seeds, seed{Name: name, Content: content(r)})
		}
	}
	// (b) the sibling home: same names, same ages
	if c.Twin != "" {
		for _, age := range ages {
			if r.Chance(70) {
				c.TwinSeeds = append(c.TwinSeeds, seed{Name: id + "-" + on + "-" + dayStr(u-age) + ".log", Content: content(r)})
			}
		}
		c.TwinSeeds = append(c.TwinSeeds, seed{Name: id + "-other-" + dayStr(u-300) + ".log", Content: content(r)}, seed{Name: "unrelated.log", Content: content(r)})
	}
	// (c) files of the id that the log id would match if it were read as a pattern
	if victim != "" {
		for _, age := range ages {
			if name := victim + "-" + on + "-" + dayStr(u-age) + ".log"; r.Chance(60) && !has(name) {
				c.Seeds = append(c.Seeds, seed{Name: name, Content: content(r)})
			}
		}
		if name := victim + "-other-" + dayStr(u-300) + ".log"; !has(name) {
			c.Seeds = append(c.Seeds, seed{Name: name, Content: content(r)})
		}
	}
	n := 1 + r.Intn(4)
	for i := 0; i < n; i++ {
		if r.Chance(25) {
			b.cfg(r.Chance(85), r.PickInt([]int{1, 2, 7, 7, 30, 0}), r.PickInt([]int{0, 10, 60}), r.PickStr(levelStrs))
		}
		switch r.Intn(4) {
		case 0, 3:
			b.adv(r.Pick64([]int64{60001, 60001, 120000}))
		case 1:
			b.adv(dayMs * int64(r.Intn(10)))
		case 2:
			b.toMidnight(r.Pick64([]int64{0, 60001}))
		}
		if r.Chance(25) {
			b.clr()
		} else {
			b.proc()
		}
		if r.Chance(40) {
			b.randLog()
		}
	}
	return c
}

func (b *builder) readNames() []string {
	c := b.c
	names := []string{"../secret.txt", "../logsx/y.log", "../../../../../../../../etc/hostname", "@home/secret.txt", "@home/logs/missing.log",
		".", "..", "sub", "sub/..", "", "missing.log", "sub/../../secret.txt", "./../secret.txt", "sub/../..//secret.txt", "/", "//", "../logs", "..\\secret.txt"}
	for _, s := range c.Seeds {
		if s.Dir {
			names = append(names, s.Name)
			continue
		}
		names = append(names, s.Name, "./"+s.Name, "sub/../"+s.Name, "../logs/"+s.Name, s.Name+"/x", "/"+s.Name, s.Name+"/", "nosuch/../"+s.Name)
	}
	for _, s := range c.Nested {
		names = append(names, "sub/"+s.Name, "sub//"+s.Name, "./sub/./"+s.Name, "sub/../sub/"+s.Name)
	}
	names = append(names, c.LogID+"-"+c.Oname+"-"+dayStr(unitOf(c.T0))+".log")
	return names
}

func (b *builder) sizeOf(name string) int64 {
	for _, s := range b.c.Seeds {
		if s.Name == name {
			return int64(len(vh.UnHex(s.Content)))
		}
	}
	return 23
}

func (b *builder) randRead() {
	r := b.r
	names := b.readNames()
	name := r.PickStr(names)
	if r.Chance(45) && len(b.c.Seeds) > 0 {
		name = b.c.Seeds[r.Intn(len(b.c.Seeds))].Name
	}
	sz := b.sizeOf(name)
	end := r.Pick64([]int64{-1, 0, 1, sz - 1, sz, sz + 1, sz / 2, -7, 1 << 40, math.MaxInt64, math.MinInt64})
	length := r.Pick64([]int64{0, 1, 2, sz - 1, sz, sz + 1, 1024, 1024, -1, -sz, -1024, math.MinInt64, math.MaxInt64, 1 << 62, 5})
	b.read(name, end, length)
}

func genRead(r *vh.Rng, seq *int) *hcase {
	c, b := newCase(r, "read", seq)
	for _, n := range []int{0, 1, 2, 10, 100, 1000} {
		if r.Chance(70) {
			c.Seeds = append(c.Seeds, seed{Name: fmt.Sprintf("f%d.log", n), Content: vh.Hex(r.Bytes(n))})
		}
	}
	c.Seeds = append(c.Seeds, seed{Name: "text.log", Content: vh.Hex([]byte("0123456789abcdefghijklmnopqrstuvwxyz\n"))})
	c.Nested = []seed{{Name: "n.log", Content: vh.Hex([]byte("nested content"))}}
	if r.Chance(50) {
		c.Seeds = append(c.Seeds, seed{Name: "adir", Dir: true})
	}
	n := 10 + r.Intn(40)
	for i := 0; i < n; i++ {
		if r.Chance(20) {
			b.adv(int64(r.Intn(15000)))
		}
		if r.Chance(10) {
			b.randLog()
		}
		b.randRead()
	}
	return c
}


// ---------------------------------------------------------------- colliding ids

// The id cache hashes its keys with hash.HashStr (CRC-32) and reduces the value modulo the
// table size (101, 203, 407, 815, 1631 as it grows).  Sequential or random ids practically
// never share a full hash, so they are searched for: groups of distinct 10-byte ids with an
// identical full hash (birthday search over generated names, deterministic), and groups that
// share the bucket modulo 101 but have different full hashes.
var (
	collideOnce sync.Once
	fullGroups  [][]string
	modGroups   [][]string
)

func tableHash(s string) uint { return uint(hash.HashStr(s)) } // as StringLongLinkedMap.hash

func collisions() ([][]string, [][]string) {
	collideOnce.Do(func() {
		byHash := map[uint][]string{}
		for i := 0; i < 600000; i++ {
			var name string
			if i%2 == 0 {
				name = fmt.Sprintf("WA-%07d", i)
			} else {
				name = fmt.Sprintf("id%08x", uint32(i)*2654435761)
			}
			h := tableHash(name)
			byHash[h] = append(byHash[h], name)
		}
		var keys []uint
		for h, g := range byHash {
			if len(g) > 1 {
				keys = append(keys, h)
			}
		}
		sort.Slice(keys, func(i, j int) bool { return keys[i] < keys[j] })
		for _, h := range keys {
			fullGroups = append(fullGroups, byHash[h])
		}
		// same bucket modulo 101, different full hash; also modulo 203 for the table after one growth
		for _, mod := range []uint{101, 203, 101 * 203} {
			byMod := map[uint][]string{}
			for i := 0; i < 6000; i++ {
				name := fmt.Sprintf("MD-%07d", i)
				m := tableHash(name) % mod
				if len(byMod[m]) < 7 {
					byMod[m] = append(byMod[m], name)
				}
			}
			var ms []uint
			for m, g := range byMod {
				if len(g) >= 4 {
					ms = append(ms, m)
				}
			}
			sort.Slice(ms, func(i, j int) bool { return ms[i] < ms[j] })
			for k, m := range ms {
				if k < 12 {
					modGroups = append(modGroups, byMod[m])
				}
			}
		}
	})
	return fullGroups, modGroups
}

// ids with an identical hash (and ids sharing a bucket) must not suppress each other
func genCollide(r *vh.Rng, seq *int) *hcase {
	full, mods := collisions()
	c, b := newCase(r, "collide", seq)
	c.Level = 0
	iv := 10
	if r.Chance(30) {
		iv = 60
		b.cfg(true, 7, iv, "debug")
	}
	type ent struct{ m, id, msg string }
	mk := func(id string) ent {
		m := r.PickStr([]string{"errorf", "warnf", "infof", "error", "warn", "infoln", "printf", "println"})
		if m == "printf" || m == "println" {
			return ent{m, id, "explicit colliding id"}
		}
		return ent{m, "", id + r.PickStr([]string{"", " tail", " a longer tail than ten bytes"})} // the id is the first 10 bytes
	}
	emit := func(e ent) { b.log(e.m, e.id, e.msg) }
	var groups [][]ent
	pick := func(src [][]string, n int) {
		for k := 0; k < n && len(src) > 0; k++ {
			g := src[r.Intn(len(src))]
			var es []ent
			proto := mk(g[0])
			for _, id := range g {
				e := mk(id)
				if r.Chance(70) { // same entry point for the whole group
					e.m = proto.m
					if e.m == "printf" || e.m == "println" {
						e.id, e.msg = id, "explicit colliding id"
					} else if e.id != "" {
						e.id, e.msg = "", id
					}
				}
				es = append(es, e)
			}
			groups = append(groups, es)
		}
	}
	pick(full, 3+r.Intn(5))
	pick(mods, 1+r.Intn(3))
	round := func(expectNote string) {
		for _, g := range groups {
			for _, e := range g { // A, then the colliding B, C …: all written the first time
				emit(e)
				b.adv(r.Pick64([]int64{0, 0, 1, 5}))
			}
			for _, e := range g { // and each suppressed only by itself
				emit(e)
			}
		}
	}
	round("first")
	// grow the table once or twice so that the colliding entries are rehashed
	n := r.PickInt([]int{0, 60, 90, 170, 330})
	for k := 0; k < n; k++ {
		b.log("debugf", "", "filler") // not rate limited
		b.log("warnf", "", fmt.Sprintf("fl%03d%05d", r.Intn(1000), k))
	}
	round("inside the interval: all suppressed")
	b.adv(int64(iv)*1000 + r.Pick64([]int64{-1, 0, 1, 500}))
	for i := len(groups) - 1; i >= 0; i-- { // reverse order after the interval
		g := groups[i]
		for j := len(g) - 1; j >= 0; j-- {
			emit(g[j])
		}
		for _, e := range g {
			emit(e)
		}
	}
	return c
}


// the id table is FULL: first capacity+k distinct ids, then
//   A B A   (a new id, one other new id, the first again inside the interval: must be suppressed),
//   repeats of the most recent ids (resident: suppressed),
//   repeats of the eldest ids (forgotten by then: written, and re-entering as the newest),
// all inside one interval, every decision compared with the model and with the specified table.
func genFullTable(r *vh.Rng, seq *int) *hcase {
	c, b := newCase(r, "fulltable", seq)
	c.Level = 0
	iv := r.PickInt([]int{60, 120})
	b.cfg(true, 7, iv, "debug")
	capN := idCacheCap
	k := 1 + r.Intn(40)
	salt := r.Intn(1000)
	type ent struct{ m, id, msg string }
	mk := func(n int) ent {
		m := r.PickStr([]string{"errorf", "warnf", "infof", "printf", "error"})
		if m == "printf" {
			return ent{m, fmt.Sprintf("F%d-%d", salt, n), "explicit id"}
		}
		return ent{m, "", fmt.Sprintf("f%03d%06d", salt, n) + r.PickStr([]string{"", " tail"})}
	}
	emit := func(e ent) { b.log(e.m, e.id, e.msg) }
	ents := make([]ent, 0, capN+k+200)
	next := 0
	fresh := func() ent { e := mk(next); next++; ents = append(ents, e); return e }
	for i := 0; i < capN+k; i++ {
		emit(fresh())
		if i%97 == 0 {
			b.adv(1)
		}
	}
	for round := 0; round < 12+r.Intn(20); round++ {
		switch r.Intn(4) {
		case 0, 1: // A B A (and A B C A)
			a := fresh()
			emit(a)
			b.adv(r.Pick64([]int64{0, 1}))
			emit(fresh())
			if r.Chance(40) {
				emit(fresh())
			}
			emit(a)
		case 2: // one of the most recent ids
			emit(ents[len(ents)-1-r.Intn(20)])
		default: // one of the eldest ids ever logged
			emit(ents[r.Intn(k+20)])
		}
	}
	// and once more after the interval: everything resident is due again
	b.adv(int64(iv)*1000 + 1)
	for i := 0; i < 10; i++ {
		e := ents[len(ents)-1-r.Intn(30)]
		emit(e)
		emit(e)
	}
	return c
}

// the id table is FULL and a RESIDENT id is logged again after its interval (an update of a known
// key at capacity): nothing may be forgotten by that.  Time stamps are mixed: a group of early
// ids, of which a part is logged again later (fresh stamp, but still the eldest places), then
// fillers up to capacity (+k).  Rounds inside the interval of the fresh stamps:
//   R  one of the early ids whose interval is over is logged again (written; refreshes a resident id),
//   E  the eldest resident ids with a fresh stamp are repeated (must be suppressed),
//   N  a new id (forgets exactly the eldest), then the forgotten id (written) and the new eldest (suppressed),
//   M  a filler from the middle / the newest end (suppressed),
// and the whole again after another interval.  Every decision is compared with the model and with
// the specified table of direct().
func genRefreshFull(r *vh.Rng, seq *int) *hcase {
	c, b := newCase(r, "refreshfull", seq)
	c.Level = 0
	iv := r.PickInt([]int{10, 10, 60})
	b.cfg(true, 7, iv, "debug")
	capN := idCacheCap
	salt := r.Intn(1000)
	type ent struct{ m, id, msg string }
	mk := func(n int) ent {
		m := r.PickStr([]string{"errorf", "warnf", "infof", "printf", "println", "error"})
		if m == "printf" || m == "println" {
			return ent{m, fmt.Sprintf("R%d-%d", salt, n), "explicit id"}
		}
		return ent{m, "", fmt.Sprintf("r%03d%06d", salt, n) + r.PickStr([]string{"", " tail"})}
	}
	emit := func(e ent) { b.log(e.m, e.id, e.msg) }
	// generator-side table (insertion order, known id keeps its place) to aim the rounds
	var order []int
	stamp := map[int]int64{}
	var ents []ent
	put := func(k int) {
		if _, ok := stamp[k]; !ok {
			for len(order) >= capN {
				delete(stamp, order[0])
				order = order[1:]
			}
			order = append(order, k)
		}
		stamp[k] = b.t
	}
	fresh := func(k int) bool { t, ok := stamp[k]; return ok && b.t < t+int64(iv)*1000 }
	log := func(k int) {
		emit(ents[k])
		if !fresh(k) {
			put(k)
		}
	}
	newID := func() int { ents = append(ents, mk(len(ents))); return len(ents) - 1 }
	g := 12 + r.Intn(50)
	for i := 0; i < g; i++ {
		log(newID())
	}
	b.adv(int64(iv)*1000 + int64(r.Intn(2000)))
	for i := 0; i < g; i++ { // part of the early ids again: fresh stamp, eldest place
		if r.Chance(50) || i == 0 {
			log(i)
		}
	}
	total := capN + r.PickInt([]int{0, 0, 0, 1, 2, 5})
	for len(ents) < total {
		log(newID())
		if len(ents)%211 == 0 {
			b.adv(1)
		}
	}
	for phase := 0; phase < 2; phase++ {
		b.adv(int64(500 + r.Intn(1500)))
		for round := 0; round < 25+r.Intn(25); round++ {
			switch x := r.Intn(10); {
			case x < 4: // R: a resident id whose interval is over
				var due []int
				for _, k := range order[:min(len(order), g+10)] {
					if !fresh(k) {
						due = append(due, k)
					}
				}
				if len(due) == 0 {
					k := order[len(order)/2+r.Intn(len(order)/2)]
					log(k)
					break
				}
				log(due[r.Intn(len(due))])
				log(order[0])
				if r.Chance(50) {
					log(order[r.Intn(min(len(order), 6))])
				}
			case x < 6: // E: the eldest places
				log(order[r.Intn(min(len(order), 8))])
			case x < 8: // N: a new id, the id it made the table forget, the new eldest
				old := order[0]
				log(newID())
				if r.Chance(60) {
					log(old)
				}
				log(order[0])
			default: // M
				log(order[len(order)-1-r.Intn(len(order)/2)])
			}
			if r.Chance(20) {
				b.adv(int64(r.Intn(300)))
			}
		}
		b.adv(int64(iv)*1000 + int64(r.Intn(3)) - 1) // the second pass: around the end of the interval
	}
	return c
}


// GetLogFiles / GetLogFilePath: directories with the logger's own dated files, look-alikes (other
// object names, 7- and 9-byte date parts, a second dot, no dot, directories), the hook log, and
// — in part of the histories — more than 100 listable files (the listing stops at 100, in directory
// order); the listing is taken before and after log calls and cycles (the open file's size grows,
// pruned files disappear), and listed names are passed to Read.
func genFiles(r *vh.Rng, seq *int) *hcase {
	c, b := newCase(r, "files", seq)
	c.Level = r.PickInt([]int{0, 1, 2})
	b.seeds(r.Chance(60))
	id, on := c.LogID, c.Oname
	u := unitOf(c.T0)
	have := map[string]bool{}
	for _, s := range c.Seeds {
		have[s.Name] = true
	}
	add := func(name string) {
		if !have[name] {
			have[name] = true
			c.Seeds = append(c.Seeds, seed{Name: name, Content: content(r)})
		}
	}
	if r.Chance(70) {
		add("whatap-hook.log")
	}
	add(id + "-" + on + "-" + dayStr(u-1) + ".log.gz")
	add(id + "-" + on + "-" + dayStr(u-2) + ".1.log")
	add(id + "-" + on + "-" + dayStr(u-3) + ".txt")
	add(id + "-" + on + "-abcdefgh.log")
	add(id + "-" + on + "x-" + dayStr(u-1) + ".log")
	add(id + "-" + on + "-" + dayStr(u-1))
	if r.Chance(45) { // around the limit of 100 entries
		n := r.PickInt([]int{92, 97, 98, 99, 100, 101, 104, 130})
		for k := 0; k < n; k++ {
			add(id + "-" + on + "-" + dayStr(u-10-int64(k)) + r.PickStr([]string{".log", ".log", ".log.1", ".txt"}))
		}
	}
	var listable []string
	for n := range have {
		listable = append(listable, n)
	}
	sort.Strings(listable)
	b.files()
	b.path()
	for round := 0; round < 2+r.Intn(3); round++ {
		for k := r.Intn(4); k > 0; k-- {
			b.randLog()
			b.step()
		}
		b.files()
		switch r.Intn(4) {
		case 0:
			b.toMidnight(r.Pick64([]int64{0, 1, 5000}))
			b.proc()
			b.path()
		case 1:
			b.adv(60001)
			b.proc()
		case 2:
			b.cfg(r.Chance(60), r.PickInt([]int{0, 1, 7}), 10, "info")
			b.adv(60001)
			b.proc()
			b.path()
		}
		b.files()
		if len(listable) > 0 {
			b.read(listable[r.Intn(len(listable))], r.Pick64([]int64{-1, 0, 5, 100}), r.Pick64([]int64{1, 10, 1024}))
		}
	}
	return c
}
