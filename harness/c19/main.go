// Correspondence harness for C19: util/dateutil (DateTimeHelper behind DateUtil.go, DateFormat)
// against Go's time package (the property, evaluated directly on the implementation) and
// against the Lean CodeModel Golib.Cal.* (driver drv_c19).
//
//	A  Spec vs standard library: `civil`/weekday of every one of the 36 525 days (driver op C)
//	B  helpers: selected days × fixed and random times of day; every exported helper compared
//	   with time.Time.Format / arithmetic (property) and with the model (driver op H);
//	   GetYmdTime(YYYYMMDD(t)) = start of day; unit step laws
//	C  DateFormat: patterns of the field letters with random literal separators;
//	   Parse(FormatTime(t)) = t truncated to the pattern's fields (property); format and parse
//	   against the model (driver ops F, P)
//
// The package reads the zone through time.Now().Location() and keeps a clock delta; both are
// pinned here (time.Local = UTC, delta 0).
package main

import (
	"encoding/json"
	"fmt"
	"os"
	"os/exec"
	"runtime/debug"
	"sort"
	"strconv"
	"strings"
	"time"

	"github.com/whatap/golib/util/dateutil"
	"verif/harness/vh"
)

const (
	dayMs    = int64(86400000)
	nDays    = 36525
	baseDay  = int64(10957)
	keyD40   = "TimeStamp:millis-2-digits"
	keyD41   = "DateFormat.Parse:absent-fields-from-now"
	nSlots   = 11
	slotTS   = 2
	slotWIdx = 6
)

var baseMs = time.Date(2000, time.January, 1, 0, 0, 0, 0, time.UTC).UnixMilli()
var labels = []string{"Mon", "Tue", "Wed", "Thr", "Fri", "Sat", "Sun"} // "Thr": the library's spelling of Thursday
var slotName = []string{"YYYYMMDD", "DateTime", "TimeStamp", "Ymdhms", "HHMMSS", "HHMM", "WeekDay#", "WeekDay",
	"GetDateUnit", "GetMinUnit", "GetFiveMinUnit"}

func guardS(f func() string) string {
	var s string
	if o := vh.Guard(func() { s = f() }); !o.OK() {
		return "panic"
	}
	return s
}
func guardI(f func() int64) string {
	var v int64
	if o := vh.Guard(func() { v = f() }); !o.OK() {
		return "panic"
	}
	return strconv.FormatInt(v, 10)
}

// implementation: the eleven observables of instant t
func implHelpers(t int64) []string {
	wl := guardS(func() string { return dateutil.WeekDay(t) })
	wi := "?"
	for i, l := range labels {
		if l == wl {
			wi = strconv.Itoa(i)
		}
	}
	if wl == "panic" {
		wi = "panic"
	}
	return []string{
		guardS(func() string { return dateutil.YYYYMMDD(t) }),
		guardS(func() string { return dateutil.DateTime(t) }),
		guardS(func() string { return dateutil.TimeStamp(t) }),
		guardS(func() string { return dateutil.Ymdhms(t) }),
		guardS(func() string { return dateutil.HHMMSS(t) }),
		guardS(func() string { return dateutil.HHMM(t) }),
		wi, wl,
		guardI(func() int64 { return dateutil.GetDateUnit(t) }),
		guardI(func() int64 { return dateutil.GetMinUnit(t) }),
		guardI(func() int64 { return dateutil.GetFiveMinUnit(t) }),
	}
}

// the property's right-hand side: the standard library, for base <= t < end
func stdHelpers(t int64) []string {
	tm := time.UnixMilli(t).UTC()
	w := (int(tm.Weekday()) + 6) % 7
	d := t - baseMs
	return []string{
		tm.Format("20060102"), tm.Format("20060102 15:04:05"), tm.Format("20060102 15:04:05.000"),
		tm.Format("20060102150405"), tm.Format("150405"), tm.Format("1504"),
		strconv.Itoa(w), labels[w],
		strconv.FormatInt(d/dayMs, 10), strconv.FormatInt(d/60000, 10), strconv.FormatInt(d/300000, 10),
	}
}

func cps(s string) string {
	rs := []rune(s)
	if len(rs) == 0 {
		return "-"
	}
	ss := make([]string, len(rs))
	for i, r := range rs {
		ss[i] = strconv.Itoa(int(r))
	}
	return strings.Join(ss, ",")
}
func unCps(s string) string {
	if s == "-" || s == "" {
		return ""
	}
	var rs []rune
	for _, x := range strings.Split(s, ",") {
		v, _ := strconv.Atoi(x)
		rs = append(rs, rune(v))
	}
	return string(rs)
}

// ---------------------------------------------------------------- DateFormat

const letters = "ymdHMSs"

var seps = []string{"-", "/", ":", ".", " ", "T", "_", ",", "", "", "Z", "x", "0", "9", "년", "é", "→", "|", "%", "Y", "D", "h"}

func hasAll(pat string) bool {
	for _, l := range letters {
		if !strings.ContainsRune(pat, l) {
			return false
		}
	}
	return true
}

func genPattern(r *vh.Rng, full bool) string {
	ls := []rune(letters)
	// random permutation
	for i := len(ls) - 1; i > 0; i-- {
		j := r.Intn(i + 1)
		ls[i], ls[j] = ls[j], ls[i]
	}
	if r.Chance(50) { // the natural order is the common case
		ls = []rune(letters)
	}
	if !full {
		// drop 1..6 letters
		k := 1 + r.Intn(6)
		for ; k > 0 && len(ls) > 1; k-- {
			i := r.Intn(len(ls))
			ls = append(ls[:i], ls[i+1:]...)
		}
	}
	if r.Chance(15) { // a repeated letter
		ls = append(ls, ls[r.Intn(len(ls))])
	}
	var b strings.Builder
	if r.Chance(20) {
		b.WriteString(r.PickStr(seps))
	}
	for i, l := range ls {
		b.WriteRune(l)
		if i < len(ls)-1 || r.Chance(20) {
			b.WriteString(r.PickStr(seps))
			if r.Chance(10) {
				b.WriteString(r.PickStr(seps))
			}
		}
	}
	return b.String()
}

// truncation of t to the fields of pat: an absent field takes its least value
func truncTo(pat string, t int64) int64 {
	tm := time.UnixMilli(t).UTC()
	y, mo, d, H, M, S, ms := 1970, 1, 1, 0, 0, 0, 0
	if strings.ContainsRune(pat, 'y') {
		y = tm.Year()
	}
	if strings.ContainsRune(pat, 'm') {
		mo = int(tm.Month())
	}
	if strings.ContainsRune(pat, 'd') {
		d = tm.Day()
	}
	if strings.ContainsRune(pat, 'H') {
		H = tm.Hour()
	}
	if strings.ContainsRune(pat, 'M') {
		M = tm.Minute()
	}
	if strings.ContainsRune(pat, 'S') {
		S = tm.Second()
	}
	if strings.ContainsRune(pat, 's') {
		ms = int(t % 1000)
	}
	return time.Date(y, time.Month(mo), d, H, M, S, ms*1000000, time.UTC).UnixMilli()
}

type parseRes struct {
	out           string // decimal instant | err | panic
	before, after int64
}

func implParse(pat, text string) parseRes {
	var res parseRes
	for try := 0; try < 20; try++ {
		df := newDF(pat)
		res.before = time.Now().UnixMilli()
		var v int64
		var err error
		o := vh.Guard(func() { v, err = df.Parse(text) })
		res.after = time.Now().UnixMilli()
		switch {
		case !o.OK():
			res.out = "panic"
		case err != nil:
			res.out = "err"
		default:
			res.out = strconv.FormatInt(v, 10)
		}
		if res.after-res.before <= 3 {
			break
		}
	}
	return res
}

// fmtMs: a decimal millisecond instant as UTC text (for messages)
func fmtMs(dec string) string {
	v, err := strconv.ParseInt(dec, 10, 64)
	if err != nil {
		return dec
	}
	return time.UnixMilli(v).UTC().Format("2006-01-02T15:04:05.000Z")
}

func implFormat(pat string, t int64) string {
	return guardS(func() string { return dateutil.NewDateFormat(pat).FormatTime(time.UnixMilli(t).UTC()) })
}

// ---------------------------------------------------------------- histories (stage D)

// one call of a public helper; slot = index into slotName for the per-instant helpers,
// -1 for GetYmdTime (argument: the date string of t), -2 for the shared DateFormat object,
// -3/-4/-5 for the clock-reading TimeStampNow / YmdNow / GetDateUnitNow
type hcall struct {
	Slot int   `json:"slot"`
	T    int64 `json:"t"`
}

var histFormat = newDF("y-m-d H:M:S.s")

// curDelta is the clock delta the harness has set (stage H); it goes into every replay
var curDelta int64

// newDF: NewDateFormat under guard (nil if the constructor panics; callers' calls are guarded too)
func newDF(pat string) (df *dateutil.DateFormat) {
	vh.Guard(func() { df = dateutil.NewDateFormat(pat) })
	return
}

// callI: an int64-returning implementation call under guard
func callI(f func() int64) (v int64, ok bool) {
	o := vh.Guard(func() { v = f() })
	return v, o.OK()
}

func (c hcall) name() string {
	switch c.Slot {
	case -1:
		return "GetYmdTime"
	case -2:
		return "DateFormat.FormatTime"
	case -3:
		return "TimeStampNow"
	case -4:
		return "YmdNow"
	case -5:
		return "GetDateUnitNow"
	case slotWIdx, slotWIdx + 1:
		return "WeekDay"
	}
	return slotName[c.Slot]
}

// run performs the call on the implementation
func (c hcall) run() string {
	t := c.T
	switch c.Slot {
	case 0:
		return guardS(func() string { return dateutil.YYYYMMDD(t) })
	case 1:
		return guardS(func() string { return dateutil.DateTime(t) })
	case 2:
		return guardS(func() string { return dateutil.TimeStamp(t) })
	case 3:
		return guardS(func() string { return dateutil.Ymdhms(t) })
	case 4:
		return guardS(func() string { return dateutil.HHMMSS(t) })
	case 5:
		return guardS(func() string { return dateutil.HHMM(t) })
	case slotWIdx, slotWIdx + 1:
		return guardS(func() string { return dateutil.WeekDay(t) })
	case 8:
		return guardI(func() int64 { return dateutil.GetDateUnit(t) })
	case 9:
		return guardI(func() int64 { return dateutil.GetMinUnit(t) })
	case 10:
		return guardI(func() int64 { return dateutil.GetFiveMinUnit(t) })
	case -1:
		return guardI(func() int64 { return dateutil.GetYmdTime(time.UnixMilli(t).UTC().Format("20060102")) })
	case -2:
		return guardS(func() string { return histFormat.FormatTime(time.UnixMilli(t).UTC()) })
	case -3:
		return guardS(func() string { return dateutil.TimeStampNow() })
	case -4:
		return guardS(func() string { return dateutil.YmdNow() })
	case -5:
		return guardI(func() int64 { return dateutil.GetDateUnitNow() })
	}
	return "?"
}

// want: what the standard library says the call returns (in-century instants); "" = not checked
func (c hcall) want() string {
	t := c.T
	if c.Slot <= -3 {
		return ""
	}
	if t < baseMs || t >= baseMs+nDays*dayMs {
		return ""
	}
	switch c.Slot {
	case -1:
		return strconv.FormatInt(t-(t-baseMs)%dayMs, 10)
	case -2:
		return time.UnixMilli(t).UTC().Format("2006-01-02 15:04:05.000")
	case slotWIdx:
		return stdHelpers(t)[slotWIdx+1]
	}
	return stdHelpers(t)[c.Slot]
}

// clockOK: the clock-reading variants must render an instant of the call window
func clockOK(c hcall, got string, before, after int64) bool {
	for t := before; t <= after; t++ {
		std := stdHelpers(t)
		switch c.Slot {
		case -3:
			if got == std[slotTS] {
				return true
			}
		case -4:
			if got == std[0] {
				return true
			}
		case -5:
			if got == std[8] {
				return true
			}
		}
	}
	return false
}

// runInChild runs a history in a fresh process (clean package state) and returns its last answer.
func runInChild(seq []hcall) (string, bool) {
	b, _ := json.Marshal(seq)
	cmd := exec.Command(os.Args[0])
	cmd.Env = append(os.Environ(), "C19_HIST_CHILD="+string(b))
	out, err := cmd.Output()
	if err != nil {
		return "", false
	}
	return strings.TrimSuffix(string(out), "\n"), true
}

// ---------------------------------------------------------------- main

type expect struct {
	want []string // acceptable model answers: the implementation's observable(s)
	key  string
	rep  map[string]interface{}
	// helper lines: per-slot comparison
	helper bool
	impl   []string
	propOK []bool // slot-wise: did the property hold on the implementation for this input
	anyOf  bool   // P lines with several candidate `now`: handled by group
	onlySlot int  // history lines: compare just this slot (1-based; 0 = all)
	asProperty   bool // a mismatch on this line is itself a failure of the property (kind "property")
	resetVariant bool // R line of a Q/R group
	objHist  bool // Q lines: results of a reused object; positions answered `range` by the model are not compared
	group  int
}

func main() {
	if j := os.Getenv("C19_TZ_CHILD"); j != "" { // the host zone is the point: do not pin time.Local
		var seed uint64
		var n int
		fmt.Sscanf(j, "%d:%d", &seed, &n)
		vh.Guard(func() { dateutil.SetDelta(0) })
		tzChild(seed, n)
		return
	}
	time.Local = time.UTC
	os.Setenv("TZ", "UTC")
	vh.Guard(func() { dateutil.SetDelta(0) })
	if j := os.Getenv("C19_DF_CHILD"); j != "" {
		var job dfJob
		if err := json.Unmarshal([]byte(j), &job); err != nil {
			os.Exit(2)
		}
		dfChild(job)
		return
	}
	if j := os.Getenv("C19_CONC_CHILD"); j != "" {
		var job concJob
		if err := json.Unmarshal([]byte(j), &job); err != nil {
			os.Exit(2)
		}
		concChild(job)
		return
	}
	if h := os.Getenv("C19_HIST_CHILD"); h != "" {
		var seq []hcall
		if err := json.Unmarshal([]byte(h), &seq); err != nil {
			os.Exit(2)
		}
		last := ""
		for _, c := range seq {
			last = c.run()
		}
		fmt.Println(last)
		return
	}

	env, rep := vh.Parse("C19")
	rng := vh.NewRng(env.Seed)
	// safety net: every implementation call below is guarded; should one still escape, the panic is a
	// finding (with the stack) and the report is written — the harness never dies on the implementation
	defer func() {
		if r := recover(); r != nil {
			rep.Fail("property", "dateutil:panic-in-implementation-call",
				fmt.Sprintf("a call into util/dateutil panicked: %v\n%s", r, vh.Clip(string(debug.Stack()), 2500)),
				map[string]interface{}{"op": "panic", "panic": fmt.Sprint(r), "delta": curDelta})
			rep.Write(env.Out)
		}
	}()
	rep.Rule = "A: every day of 2000-01-01..2099-12-31 (Spec calendar vs time package). " +
		"B: days (quick: every 7th + firsts/ends of months + Feb 28/29 + first/last week; thorough: every day) x times of day " +
		"{0,5,45 ms, 11:59:59.999, 12:00:00.000, 23:59:59.999, unit boundaries, random}; every exported helper vs time.Format/arithmetic and vs the model; " +
		"non-trivial = instant inside the century; distinct = distinct instants. " +
		"D: histories — seeded random sequences of calls mixing every public helper (and a shared DateFormat, and the clock-reading variants) over a pool of instants " +
		"(same second, adjacent seconds, same minute/day, far apart; interleaved, repeated) plus all ordered pairs of helpers on two instants; each answer vs the time package and vs the model. " +
		"I: goroutines each building their own NewDateFormat (same pattern / different patterns / a new object per call) and round-tripping their own instants, in child processes (a crash is a finding); two objects of one pattern probed sequentially against the model of a lone object. " +
		"J: all exported helpers re-checked in child processes with the host zone (TZ) west/east of UTC and with DST; answers must be the UTC answers. K: 120 canary instants re-checked after every stage. " +
		"G: DateFormat with time.Local in six constant-offset zones (non-hour offsets included; format and parse vs the zone model) and four zones with transitions (round trip judged away from transitions only). " +
		"H: SetDelta / SetServerTime(…,1.0) moving the clock to instants of the century, then Now / TimeStampNow / YmdNow / GetDateUnitNow vs SystemNow()+delta and vs the package state machine. " +
		"F: one DateFormat object parsing 2-4 texts in a row (formatted instants, cut short, with signs/letters) vs the object model. " +
		"E: 12-16 goroutines call every public helper on their own instants (two shared) for a fixed time, every answer vs the value precomputed from the time package; run in a child process (crash = finding), under -race in the thorough tier. " +
		"C: patterns over the letters ymdHMSs with random literal separators (ASCII, digits, non-ASCII), full and partial, x instants; " +
		"M: the exported LPadInt (widths -1..6, both signs) and ToInt (short texts with digits, signs, letters; bytes left in the reader) called directly vs the model, ToInt(LPadInt(v,w)+rest) = v evaluated directly, Format() vs FormatTime of the call window; " +
		"L: every ASCII code point that is not a field letter and 40 non-ASCII runes as the literal, each in 11 shapes (once, between all letters, paired around a letter / a literal, doubled, tripled, leading, trailing, three partial patterns): round trip and model; " +
		"non-trivial = pattern with at least one field letter; distinct = distinct (pattern, instant)."

	var lines []string
	var exps []expect
	add := func(line string, e expect) {
		lines = append(lines, line)
		exps = append(exps, e)
	}

	replayMode := env.Replay != ""
	var replayCases []map[string]interface{}
	if replayMode {
		b, err := os.ReadFile(env.Replay)
		if err != nil {
			vh.Die("replay file: %v", err)
		}
		var rf struct {
			Cases []map[string]interface{} `json:"cases"`
		}
		if err := json.Unmarshal(b, &rf); err != nil {
			vh.Die("replay file: %v", err)
		}
		replayCases = rf.Cases
	}

	// ------------------------------------------------------------ A: Spec vs stdlib
	if !replayMode {
		for i := int64(0); i < nDays; i++ {
			z := baseDay + i
			tm := time.Unix(z*86400, 0).UTC()
			want := fmt.Sprintf("%d %d %d %d", tm.Year(), int(tm.Month()), tm.Day(), (int(tm.Weekday())+6)%7)
			add(fmt.Sprintf("C %d", z), expect{want: []string{want}, key: "spec:civil-vs-stdlib",
				rep: map[string]interface{}{"op": "C", "z": z}})
		}
		rep.CountN("A:spec-days", nDays)
		rep.Evaluations += nDays
	}

	// ------------------------------------------------------------ K: canary (answers recorded now, re-checked after every stage)
	var can *canary
	if !replayMode {
		can = newCanary(rng.Fork())
	}
	canaryCheck := func(after string) {
		if can != nil {
			can.check(rep, after)
		}
	}

	// ------------------------------------------------------------ B: helpers
	endMs := baseMs + nDays*dayMs
	checkInstant := func(t int64, tag string) {
		in := t >= baseMs && t < endMs
		rep.Case("t:"+strconv.FormatInt(t, 10), in)
		rep.Count("B:" + tag)
		impl := implHelpers(t)
		ok := make([]bool, nSlots)
		for i := range ok {
			ok[i] = true
		}
		rp := map[string]interface{}{"op": "H", "t": t, "utc": time.UnixMilli(t).UTC().Format("2006-01-02T15:04:05.000Z")}
		if curDelta != 0 {
			rp["delta"] = curDelta
			rp["history"] = fmt.Sprintf("SetDelta(%d) (or SetServerTime to the same effect); then the helper on the explicit instant %d", curDelta, t)
		}
		if in {
			std := stdHelpers(t)
			var implZero []string // the same calls with the clock delta back at 0 (only computed on a mismatch)
			for i := 0; i < nSlots; i++ {
				if impl[i] == std[i] {
					continue
				}
				ok[i] = false
				key := slotName[i] + ":differs-from-standard-calendar"
				if curDelta != 0 {
					if implZero == nil {
						vh.Guard(func() { dateutil.SetDelta(0) })
						implZero = implHelpers(t)
						vh.Guard(func() { dateutil.SetDelta(curDelta) })
					}
					if implZero[i] == std[i] && i != slotWIdx {
						rep.Fail("property", slotName[i]+":explicit-instant-depends-on-clock-delta",
							fmt.Sprintf("after SetDelta(%d): %s(%d) = %q; with delta 0 and by the standard calendar it is %q — a helper given an explicit instant must not apply the clock correction",
								curDelta, slotName[i], t, impl[i], std[i]), rp)
						continue
					}
				}
				if i == slotTS && len(impl[i]) >= 17 && len(std[i]) == 21 && impl[i][:18] == std[i][:18] &&
					impl[i][18:] == fmt.Sprintf("%02d", t%1000) {
					key = keyD40
				}
				if i == slotWIdx {
					continue // reported through the label slot
				}
				rep.Fail("property", key, fmt.Sprintf("%s(%d) = %q, the standard library gives %q", slotName[i], t, impl[i], std[i]), rp)
			}
			// unit laws, directly on the implementation
			for _, u := range []struct {
				name string
				f    func(int64) int64
				k    int64
			}{{"GetDateUnit", dateutil.GetDateUnit, dayMs}, {"GetMinUnit", dateutil.GetMinUnit, 60000}, {"GetFiveMinUnit", dateutil.GetFiveMinUnit, 300000}} {
				var a, b, c int64
				if o := vh.Guard(func() { a, b, c = u.f(t), u.f(t+u.k), u.f(t+1) }); !o.OK() {
					rep.Fail("property", u.name+":panic", fmt.Sprintf("%s panicked around t=%d: %s", u.name, t, o.Panic), rp)
					continue
				}
				if b != a+1 || c < a || c > a+1 || (c == a+1) != ((t+1-baseMs)%u.k == 0) {
					rep.Fail("property", u.name+":not-a-step-function", fmt.Sprintf("%s: f(t)=%d f(t+1)=%d f(t+step)=%d at t=%d", u.name, a, c, b, t), rp)
				}
			}
			// date string -> time
			ymd := impl[0]
			if ymd != "panic" {
				back := guardI(func() int64 { return dateutil.GetYmdTime(ymd) })
				wantBack := strconv.FormatInt(t-(t-baseMs)%dayMs, 10)
				if back != wantBack {
					rep.Fail("property", "GetYmdTime:not-start-of-day", fmt.Sprintf("GetYmdTime(%q) = %s, want %s", ymd, back, wantBack), rp)
				}
			}
		}
		if len(rep.Samples) < 3 && in {
			rep.Sample(map[string]interface{}{"t": t, "helpers": impl})
		}
		add(fmt.Sprintf("H %d", t), expect{helper: true, impl: impl, propOK: ok, key: "helper", rep: rp})
	}
	checkYmd := func(s string, tag string) {
		rep.Case("ymd:"+s, true)
		rep.Count("B:ymd-" + tag)
		got := guardI(func() int64 { return dateutil.GetYmdTime(s) })
		add("Y "+cps(s), expect{want: []string{got}, key: "GetYmdTime:" + tag, rep: map[string]interface{}{"op": "Y", "s": s}})
	}

	fixedTimes := []int64{0, 5, 45, 999, 1000, 59999, 60000, 299999, 300000, 3599999, 3600000,
		43199999, 43200000, 86399999}
	coreTimes := []int64{0, 5, 45, 43199999, 43200000, 86399999}

	if !replayMode {
		nrand := 3
		if env.Thorough {
			nrand = 40
		}
		for i := int64(0); i < nDays; i++ {
			tm := time.Unix((baseDay+i)*86400, 0).UTC()
			next := tm.AddDate(0, 0, 1)
			special := tm.Day() == 1 || next.Day() == 1 || (tm.Month() == time.February && tm.Day() >= 28) ||
				i < 8 || i >= nDays-8
			if !env.Thorough && !special && i%7 != 0 {
				continue
			}
			rep.Count("B:days")
			times := coreTimes
			if special || i%49 == 0 || env.Thorough {
				times = fixedTimes
			}
			d0 := baseMs + i*dayMs
			for _, x := range times {
				checkInstant(d0+x, "fixed-time")
			}
			for k := 0; k < nrand; k++ {
				checkInstant(d0+rng.Range(0, dayMs-1), "random-time")
			}
			if special || env.Thorough {
				checkYmd(tm.Format("20060102"), "valid")
			}
		}
		// outside the century: not part of the property, model correspondence only
		for _, t := range []int64{baseMs - 1, baseMs - dayMs, baseMs - dayMs - 1, 0, -1, endMs, endMs + 5, endMs + dayMs} {
			checkInstant(t, "outside-century")
		}
		for _, s := range []string{"", "19991231", "19700101", "21000101", "99991231", "20240230", "20230229", "20241301",
			"20240001", "20240100", "20240132", "2024", "2024010", "202401011", "2024-1-1", "abcdefgh", "20x40101"} {
			checkYmd(s, "edge")
		}
	}

	canaryCheck("B")
	// ------------------------------------------------------------ C: DateFormat
	group := 0
	checkPattern := func(pat string, t int64) {
		full := hasAll(pat)
		hasLetter := strings.ContainsAny(pat, letters)
		rep.Case("p:"+pat+"@"+strconv.FormatInt(t, 10), hasLetter)
		if full {
			rep.Count("C:pattern-full")
		} else {
			rep.Count("C:pattern-partial")
		}
		for _, r := range pat {
			if r > 127 {
				rep.Count("C:pattern-with-non-ascii-literal")
				break
			}
		}
		rp := map[string]interface{}{"op": "P", "pattern": pat, "t": t, "utc": time.UnixMilli(t).UTC().Format("2006-01-02T15:04:05.000Z")}
		text := implFormat(pat, t)
		add(fmt.Sprintf("F %s %d", cps(pat), t), expect{want: []string{cps(text)}, key: "DateFormat.format", rep: rp})
		if text == "panic" {
			rep.Fail("property", "DateFormat.format:panic", "FormatTime panicked", rp)
			return
		}
		pr := implParse(pat, text)
		rp["text"] = text
		rp["parsed"] = pr.out
		want := truncTo(pat, t)
		if pr.out != strconv.FormatInt(want, 10) {
			key := "DateFormat.Parse:format-parse-differs"
			msg := fmt.Sprintf("Parse(%q) with pattern %q = %s, want %d (the instant truncated to the pattern's fields)", text, pat, pr.out, want)
			if !full && pr.out != "err" && pr.out != "panic" {
				// known finding D41 explains a partial pattern only as far as the ABSENT fields go (they come from the clock);
				// the fields present in the pattern must come back from the text (C19.obj_format_parse) — evaluated directly
				if presentFieldsOK(pat, t, pr.out) {
					key = keyD41
				} else {
					key = "DateFormat.Parse:present-field-lost"
					msg = fmt.Sprintf("Parse(%q) with pattern %q = %s = %s: a field that the pattern names does not come back from the text (instant formatted: %s)",
						text, pat, pr.out, fmtMs(pr.out), time.UnixMilli(t).UTC().Format("2006-01-02T15:04:05.000Z"))
				}
			}
			rep.Fail("property", key, msg, rp)
		}
		if len(rep.Samples) < 8 {
			rep.Sample(map[string]interface{}{"pattern": pat, "t": t, "text": text, "parsed": pr.out})
		}
		// model: some `now` in the window of the call must explain the result
		group++
		for now := pr.before; now <= pr.after; now++ {
			add(fmt.Sprintf("P %s %d %s", cps(pat), now, cps(text)),
				expect{want: []string{pr.out}, key: "DateFormat.Parse", rep: rp, anyOf: true, group: group})
			if full {
				break
			}
		}
	}
	checkMalformed := func(pat, text string) {
		rep.Case("m:"+pat+"@"+text, true)
		rep.Count("C:malformed-text")
		pr := implParse(pat, text)
		rp := map[string]interface{}{"op": "M", "pattern": pat, "text": text, "parsed": pr.out}
		group++
		for now := pr.before; now <= pr.after; now++ {
			add(fmt.Sprintf("P %s %d %s", cps(pat), now, cps(text)),
				expect{want: []string{pr.out}, key: "DateFormat.Parse:malformed", rep: rp, anyOf: true, group: group})
		}
	}

	if !replayMode {
		npat := 1500
		if env.Thorough {
			npat = 150000
		}
		instants := func() int64 {
			d := rng.Range(0, nDays-1)
			if rng.Chance(30) {
				return baseMs + d*dayMs + rng.Pick64(fixedTimes)
			}
			return baseMs + d*dayMs + rng.Range(0, dayMs-1)
		}
		for _, pat := range []string{"y-m-d H:M:S.s", "ymdHMSs", "y-m-d", "H:M:S", "y/m/d H:M", "sSMHdmy", "y년m월d일 H:M:S.s"} {
			for k := 0; k < 20; k++ {
				checkPattern(pat, instants())
			}
		}
		for i := 0; i < npat; i++ {
			checkPattern(genPattern(rng, rng.Chance(70)), instants())
		}
		// L: the whole alphabet of literal runes (see literals.go)
		literalStage(rep, rng.Fork(), env.Thorough, checkPattern)
		// M: the exported primitives LPadInt / ToInt / Format() called directly
		primitivesStage(rep, rng.Fork(), env.Thorough, add, func() int { group++; return group })
		// malformed texts: truncated, letter for a digit, empty
		for i := 0; i < npat/5; i++ {
			pat := genPattern(rng, true)
			text := implFormat(pat, instants())
			rs := []rune(text)
			switch rng.Intn(3) {
			case 0:
				rs = rs[:rng.Intn(len(rs)+1)]
			case 1:
				rs[rng.Intn(len(rs))] = rune(rng.PickStr([]string{"a", " ", "é", ":", "-", "+", "-", "+"})[0])
			case 2:
				j := rng.Intn(len(rs))
				rs = append(rs[:j], rs[j+1:]...)
			}
			ok := true
			for _, r := range rs {
				if r > 127 { // bytes vs runes differ inside fields
					ok = false
				}
			}
			if ok {
				checkMalformed(pat, string(rs))
			}
		}
	}

	canaryCheck("C")
	// ------------------------------------------------------------ D: histories
	// The helpers are specified as functions of the instant; a sequence of calls must therefore
	// return, call by call, what each call returns alone.  Seeded random sequences mix every
	// public helper over a small pool of instants (same second, adjacent seconds, same minute,
	// same day, far apart), interleaved and repeated.
	shrinks := 0
	runHistory := func(seq []hcall, tag string) {
		for i, c := range seq {
			before := time.Now().UnixMilli()
			got := c.run()
			after := time.Now().UnixMilli()
			rep.Evaluations++
			rep.Count("D:call-" + c.name())
			if c.Slot <= -3 {
				if !clockOK(c, got, before, after) {
					rep.Fail("property", c.name()+":not-the-current-instant", fmt.Sprintf("%s() = %q is not the rendering of any instant of the call window [%d,%d]", c.name(), got, before, after),
						map[string]interface{}{"op": "S", "sequence": seq[:i+1]})
				}
				continue
			}
			want := c.want()
			if want != "" && got != want {
				// is it the call, or the calls before it?  Hidden state cannot be reset in this process,
				// so suffixes of the history are re-run in a fresh process: the shortest one whose last
				// answer is still wrong is the replay (length 1 = the call is wrong on its own).
				key := c.name() + ":wrong-in-call-sequence"
				short := seq[:i+1]
				if shrinks < 8 {
					shrinks++
					for n := 1; n <= i+1 && n <= 48; n++ {
						if r, ok := runInChild(seq[i+1-n : i+1]); ok && r != want {
							short = seq[i+1-n : i+1]
							break
						}
					}
				}
				if len(short) == 1 {
					key = c.name() + ":differs-from-standard-calendar"
				}
				names := make([]string, len(short))
				for j, d := range short {
					names[j] = fmt.Sprintf("%s(%d)", d.name(), d.T)
				}
				rep.Fail("property", key, fmt.Sprintf("after %s the call returns %q, the standard library (and the same call alone) gives %q",
					vh.Clip(strings.Join(names, "; "), 400), got, want),
					map[string]interface{}{"op": "S", "sequence": short, "calls": names, "position_in_history": i, "stage": tag})
			}
			// the model, per call
			switch c.Slot {
			case -2:
				add(fmt.Sprintf("F %s %d", cps("y-m-d H:M:S.s"), c.T), expect{want: []string{cps(got)}, key: "DateFormat.format:history",
					rep: map[string]interface{}{"op": "S", "sequence": seq[:i+1]}})
			case -1:
				if want != "" {
					add("Y "+cps(time.UnixMilli(c.T).UTC().Format("20060102")), expect{want: []string{got}, key: "GetYmdTime:history",
						rep: map[string]interface{}{"op": "S", "sequence": seq[:i+1]}})
				}
			default:
				impl := make([]string, nSlots)
				ok := make([]bool, nSlots)
				for j := range impl {
					impl[j] = "-"
				}
				sl := c.Slot
				if sl == slotWIdx {
					sl = slotWIdx + 1
				}
				impl[sl] = got
				ok[sl] = want == "" || got == want
				add(fmt.Sprintf("H %d", c.T), expect{helper: true, impl: impl, propOK: ok, key: "helper:history", onlySlot: sl + 1,
					rep: map[string]interface{}{"op": "S", "sequence": seq[max(0, i-5) : i+1]}})
			}
		}
	}
	genHistory := func(n int) []hcall {
		// pool of instants around one second of the century
		d := rng.Range(0, nDays-1)
		s0 := baseMs + d*dayMs + rng.Range(0, 86399)*1000
		if rng.Chance(15) { // last second of a day / month / year
			s0 = baseMs + d*dayMs + 86399000
		}
		pool := []int64{s0, s0 + rng.Range(1, 999), s0 + rng.Range(1, 999), s0 + 999, s0 + 1000, s0 + 1000 + rng.Range(0, 999), s0 - 1, s0 - 1000,
			s0 + 60000, s0 - rng.Range(0, 59)*1000, s0 + 3600000, baseMs + d*dayMs, baseMs + d*dayMs + rng.Range(0, dayMs-1),
			baseMs + rng.Range(0, nDays-1)*dayMs + (s0-baseMs)%dayMs, baseMs + rng.Range(0, nDays-1)*dayMs + rng.Range(0, dayMs-1)}
		var ps []int64
		for _, t := range pool {
			if t >= baseMs && t < endMs {
				ps = append(ps, t)
			}
		}
		if rng.Chance(20) {
			ps = append(ps, baseMs-1, baseMs-rng.Range(1, dayMs)) // before the century: constant answers, model only
		}
		slots := []int{0, 1, 2, 3, 4, 5, slotWIdx, 8, 9, 10, -1, -2}
		hot := []int{slots[rng.Intn(len(slots))], slots[rng.Intn(len(slots))], 1, 3} // a few helpers dominate a history
		seq := make([]hcall, n)
		cur := ps[rng.Intn(len(ps))]
		for i := range seq {
			switch {
			case rng.Chance(45): // stay on the instant, change the helper
			case rng.Chance(50): // same second or neighbours (front of the pool)
				cur = ps[rng.Intn(min(8, len(ps)))]
			default:
				cur = ps[rng.Intn(len(ps))]
			}
			sl := slots[rng.Intn(len(slots))]
			if rng.Chance(40) {
				sl = hot[rng.Intn(len(hot))]
			}
			if rng.Chance(2) {
				sl = -3 - rng.Intn(3)
			}
			seq[i] = hcall{sl, cur}
		}
		return seq
	}
	if !replayMode {
		nhist, hlen := 80, 300
		if env.Thorough {
			nhist, hlen = 1500, 400
		}
		// every ordered pair and triple of helpers on (t1, t2, t2) and (t1, t1, t2) patterns: the shortest histories
		{
			slots := []int{0, 1, 2, 3, 4, 5, slotWIdx, 8, 9, 10, -1, -2}
			t1 := baseMs + 8888*dayMs + 45296789
			for _, t2 := range []int64{t1 + 1, t1 + 211, t1 + 1000, t1 + 61000, t1 + dayMs} {
				var seq []hcall
				for _, a := range slots {
					for _, b := range slots {
						seq = append(seq, hcall{a, t1}, hcall{b, t2}, hcall{a, t2}, hcall{b, t1})
					}
				}
				runHistory(seq, "pairs")
				rep.Case(fmt.Sprintf("hist:pairs:%d", t2-t1), true)
			}
		}
		for h := 0; h < nhist; h++ {
			seq := genHistory(hlen)
			rep.Case(fmt.Sprintf("hist:%d:%d:%d", env.Seed, h, seq[0].T), true)
			rep.Count("D:histories")
			if h == 0 {
				names := []string{}
				for _, c := range seq[:8] {
					names = append(names, fmt.Sprintf("%s(%d)", c.name(), c.T))
				}
				rep.Sample(map[string]interface{}{"history_prefix": names})
			}
			runHistory(seq, "random")
		}
	}

	canaryCheck("D")
	// ------------------------------------------------------------ F: one DateFormat object, several Parse calls
	// The object keeps its field map between calls (after a successful call all seven keys are set),
	// so later calls take absent fields from the map, not from the clock.  Model: parseObj/parseHistory.
	// presentOK: the parsed instant carries, for every letter present in the pattern, the field of t
	presentOK := presentFieldsOK
	var objInstants []int64 // set by callers that format unmodified instants: enables the direct round-trip assertion
	objHistory := func(pat string, texts []string, tag string) {
		var outs []string
		var nows []int64
		cleanRun := false
		for try := 0; try < 200; try++ {
			df := newDF(pat)
			outs, nows = outs[:0], nows[:0]
			clean := true
			for _, tx := range texts {
				before := time.Now().UnixMilli()
				var v int64
				var err error
				o := vh.Guard(func() { v, err = df.Parse(tx) })
				after := time.Now().UnixMilli()
				if after != before {
					clean = false
				}
				switch {
				case !o.OK():
					outs = append(outs, "panic")
				case err != nil:
					outs = append(outs, "err")
				default:
					outs = append(outs, strconv.FormatInt(v, 10))
				}
				nows = append(nows, before)
			}
			if clean {
				cleanRun = true
				break
			}
		}
		if !cleanRun {
			// every attempt straddled a millisecond tick (busy machine): the clock readings of the calls are not
			// known exactly, so nothing is asserted about this history — never a verdict from timing
			rep.Count("F:skipped-clock-tick-during-history")
			objInstants = nil
			return
		}
		if len(objInstants) == len(texts) {
			for k, t := range objInstants {
				if t < 0 {
					continue
				}
				rep.Evaluations++
				if !presentOK(pat, t, outs[k]) {
					rep.Fail("property", "DateFormat.Parse:reused-object-roundtrip",
						fmt.Sprintf("one DateFormat(%q) object, Parse calls %q: call %d returned %s, but the text is the format of %s — the fields present in the pattern must come back (obj_format_parse)",
							pat, texts[:k+1], k+1, outs[k], time.UnixMilli(t).UTC().Format("2006-01-02T15:04:05.000Z")),
						map[string]interface{}{"op": "Q", "pattern": pat, "texts": texts[:k+1], "results": outs[:k+1], "stage": tag})
					break
				}
			}
		}
		objInstants = nil
		rep.Case("obj:"+pat+"@"+strings.Join(texts, "|"), true)
		rep.Count("F:object-histories")
		rep.CountN("F:parse-calls-on-reused-object", len(texts))
		var b strings.Builder
		fmt.Fprintf(&b, "Q %s", cps(pat))
		for k, tx := range texts {
			fmt.Fprintf(&b, " %d %s", nows[k], cps(tx))
		}
		// the object as it is (map kept between calls) — or, if the repair proposed in proposed/C19/fix-D41-reuse.diff
		// has been applied, the map cleared on entry: either model explains the implementation
		group++
		rp := map[string]interface{}{"op": "Q", "pattern": pat, "texts": texts, "results": outs, "stage": tag}
		add(b.String(), expect{want: []string{strings.Join(outs, ";")}, key: "DateFormat.Parse:reused-object", objHist: true, anyOf: true, group: group, rep: rp})
		add("R"+b.String()[1:], expect{want: []string{strings.Join(outs, ";")}, key: "DateFormat.Parse:reused-object", objHist: true, anyOf: true, group: group, rep: rp, resetVariant: true})
	}
	if !replayMode {
		nobj := 400
		if env.Thorough {
			nobj = 20000
		}
		// (a) systematic: every order of the date letters (day-first, month-first, …), alone and followed by the
		//     time letters, on ordered pairs of dates whose validity depends on the other's month / year
		crit := [][3]int{{2024, 2, 29}, {2023, 2, 28}, {2000, 2, 29}, {2096, 2, 29}, {2099, 2, 28}, {2024, 3, 31}, {2024, 4, 30},
			{2023, 1, 31}, {2023, 12, 31}, {2024, 1, 1}, {2025, 6, 30}, {2025, 7, 31}, {2021, 8, 31}, {2021, 9, 30}, {2099, 12, 31}, {2000, 1, 1}, {2023, 11, 30}, {2024, 10, 31}}
		critMs := func(c [3]int, tod int64) int64 {
			return time.Date(c[0], time.Month(c[1]), c[2], 0, 0, 0, 0, time.UTC).UnixMilli() + tod
		}
		orders := []string{"ymd", "ydm", "myd", "mdy", "dym", "dmy"}
		for oi, ord := range orders {
			sep := []string{"/", "-", ".", "", " "}[oi%5]
			date := strings.Join(strings.Split(ord, ""), sep)
			pats := []string{date, date + " H:M:S.s", "H:M:S.s " + date, "s" + sep + date + "SMH"}
			for pi, pat := range pats {
				for ai, a := range crit {
					for bi, b := range crit {
						if ai == bi || (!env.Thorough && (ai+bi+pi+oi)%3 != 0) {
							continue
						}
						ta, tb := critMs(a, rng.Range(0, dayMs-1)), critMs(b, rng.Range(0, dayMs-1))
						objInstants = []int64{ta, tb}
						rep.Count("F:critical-date-pairs")
						objHistory(pat, []string{implFormat(pat, ta), implFormat(pat, tb)}, "critical-dates")
					}
				}
			}
		}
		// (b) random
		critRand := func() int64 {
			if rng.Chance(50) {
				return critMs(crit[rng.Intn(len(crit))], rng.Range(0, dayMs-1))
			}
			return baseMs + rng.Range(0, nDays-1)*dayMs + rng.Range(0, dayMs-1)
		}
		for i := 0; i < nobj; i++ {
			pat := genPattern(rng, rng.Chance(40))
			if rng.Chance(50) { // any order of all seven letters
				ls := []rune(letters)
				for a := len(ls) - 1; a > 0; a-- {
					b := rng.Intn(a + 1)
					ls[a], ls[b] = ls[b], ls[a]
				}
				sp := rng.PickStr([]string{"/", "-", ":", ".", " ", ""})
				parts := make([]string, len(ls))
				for a, l := range ls {
					parts[a] = string(l)
				}
				pat = strings.Join(parts, sp)
			}
			n := 2 + rng.Intn(3)
			texts := make([]string, n)
			insts := make([]int64, n)
			for k := range texts {
				t := critRand()
				insts[k] = t
				tx := implFormat(pat, t)
				rs := []rune(tx)
				switch rng.Intn(8) {
				case 0: // cut short: later fields keep what an earlier call stored
					rs = rs[:rng.Intn(len(rs)+1)]
				case 1: // a sign or a letter inside a field
					if len(rs) > 0 {
						rs[rng.Intn(len(rs))] = rune(rng.PickStr([]string{"-", "+", "a"})[0])
					}
				}
				ok := true
				for _, r := range rs {
					if r > 127 {
						ok = false
					}
				}
				if ok {
					tx = string(rs)
				}
				if tx != implFormat(pat, t) {
					insts[k] = -1
				}
				texts[k] = tx
			}
			objInstants = insts
			objHistory(pat, texts, "random")
		}
		// the witness of C19.finding_reuse
		objHistory("y-m-d", []string{"2024-02-29", "2025-03-01"}, "witness")
		// a text cut at a field boundary: the day of the second call is the one stored by the first (or today's, once the map is cleared on entry)
		objHistory("y-m-d", []string{"2024-02-17", "2025"}, "witness-cut")
		objHistory("d.m.y", []string{"17.02.2024", "05"}, "witness-cut")
	}

	if !replayMode {
		objectsIndependent(rep, add, rng)
	}
	canaryCheck("F")
	// ------------------------------------------------------------ G: DateFormat in other zones
	// format reads the fields in the zone of its argument, Parse builds the instant in time.Local.
	// Constant-offset zones (incl. non-hour offsets) are modelled (formatIn / parseObjIn); zones with
	// transitions are only compared with the property away from their transitions.
	if !replayMode {
		type zc struct {
			name string
			off  int
		}
		nz := 50
		if env.Thorough {
			nz = 3000
		}
		for _, z := range []zc{{"+05:45", 20700}, {"-03:30", -12600}, {"+14:00", 50400}, {"-12:00", -43200}, {"+00:20", 1200}, {"-00:01", -60}} {
			loc := time.FixedZone(z.name, z.off)
			time.Local = loc
			for i := 0; i < nz; i++ {
				pat := genPattern(rng, rng.Chance(70))
				t := baseMs + rng.Range(1, nDays-2)*dayMs + rng.Range(0, dayMs-1)
				if rng.Chance(20) { // around local midnight
					t = baseMs + rng.Range(1, nDays-2)*dayMs - int64(z.off)*1000 + rng.Range(-2, 2)
				}
				text := guardS(func() string { return dateutil.NewDateFormat(pat).FormatTime(time.UnixMilli(t).In(loc)) })
				rp := map[string]interface{}{"op": "Z", "pattern": pat, "t": t, "zone_offset_s": z.off, "text": text}
				rep.Case(fmt.Sprintf("zone:%s:%s@%d", z.name, pat, t), true)
				rep.Count("G:fixed-offset-zone " + z.name)
				add(fmt.Sprintf("FZ %s %d %d", cps(pat), t, int64(z.off)*1000), expect{want: []string{cps(text)}, key: "DateFormat.format:zone", rep: rp})
				pr := implParse(pat, text)
				if hasAll(pat) && pr.out != strconv.FormatInt(t, 10) {
					rep.Fail("property", "DateFormat.Parse:zone-roundtrip", fmt.Sprintf("zone %s: Parse(FormatTime(%d)) with pattern %q = %s", z.name, t, pat, pr.out), rp)
				}
				group++
				for now := pr.before; now <= pr.after; now++ {
					add(fmt.Sprintf("PZ %s %d %s %d", cps(pat), now, cps(text), int64(z.off)*1000),
						expect{want: []string{pr.out}, key: "DateFormat.Parse:zone", rep: rp, anyOf: true, group: group})
					if hasAll(pat) {
						break
					}
				}
			}
		}
		for _, name := range []string{"America/New_York", "Europe/London", "Australia/Lord_Howe", "Asia/Seoul"} {
			loc, err := time.LoadLocation(name)
			if err != nil {
				rep.Note("zone %s not available: %v", name, err)
				continue
			}
			time.Local = loc
			for i := 0; i < nz; i++ {
				t := baseMs + rng.Range(1, nDays-2)*dayMs + rng.Range(0, dayMs-1)
				tm := time.UnixMilli(t).In(loc)
				_, o1 := time.UnixMilli(t - 3*3600000).In(loc).Zone()
				_, o2 := time.UnixMilli(t + 3*3600000).In(loc).Zone()
				pat := "y-m-d H:M:S.s"
				text := guardS(func() string { return dateutil.NewDateFormat(pat).FormatTime(tm) })
				pr := implParse(pat, text)
				rep.Case(fmt.Sprintf("zone:%s@%d", name, t), true)
				if o1 != o2 {
					rep.Count("G:dst-zone-near-transition(not-judged) " + name)
					continue
				}
				rep.Count("G:dst-zone " + name)
				if pr.out != strconv.FormatInt(t, 10) {
					rep.Fail("property", "DateFormat.Parse:zone-roundtrip", fmt.Sprintf("zone %s: Parse(FormatTime(%d)) = %s", name, t, pr.out),
						map[string]interface{}{"op": "Z", "zone": name, "t": t, "text": text})
				}
			}
		}
		time.Local = time.UTC
	}

	canaryCheck("G")
	// ------------------------------------------------------------ H: the clock delta and the …Now variants
	// Now() = SystemNow() + delta; TimeStampNow / YmdNow / GetDateUnitNow render Now(); SetDelta / SetServerTime(…, 1.0)
	// set delta; nothing else does (model: Golib.Cal.Pkg).  The delta moves the clock to chosen instants of the century.
	if !replayMode {
		nd := 150
		if env.Thorough {
			nd = 5000
		}
		for i := 0; i < nd; i++ {
			target := baseMs + rng.Range(0, nDays-1)*dayMs + rng.Pick64([]int64{0, 1, 999, 59999, 86399990, 86399999, rng.Range(0, dayMs-1)})
			sys, _ := callI(dateutil.SystemNow)
			d := target - sys
			rp := map[string]interface{}{"op": "N", "delta": d}
			rep.Evaluations++
			if rng.Chance(30) {
				got, ok1 := callI(func() int64 { return dateutil.SetServerTime(target, 1.0) })
				sys2, _ := callI(dateutil.SystemNow)
				gd, ok2 := callI(dateutil.GetDelta)
				if !ok1 || !ok2 || got < target-sys2 || got > d || gd != got { // serverTime - SystemNow() for a clock reading between the two measurements
					rep.Fail("property", "SetServerTime:delta", fmt.Sprintf("SetServerTime(%d, 1.0) = %d (ok=%v), GetDelta() = %d, expected serverTime - SystemNow() ≈ %d", target, got, ok1, gd, d), rp)
				}
				d = got
				rep.Count("H:SetServerTime")
			} else {
				_, ok1 := callI(func() int64 { dateutil.SetDelta(d); return 0 })
				gd, ok2 := callI(dateutil.GetDelta)
				if !ok1 || !ok2 || gd != d {
					rep.Fail("property", "SetDelta:GetDelta", fmt.Sprintf("SetDelta(%d); GetDelta() = %d", d, gd), rp)
				}
				rep.Count("H:SetDelta")
			}
			curDelta = d
			// explicit-instant helpers are functions of their argument (pkg_history_pure): the full helper check
			// — all exported helpers, unit laws, GetYmdTime inverse, model — on instants unrelated to the clock, with this delta in force
			for k := 0; k < 3; k++ {
				probe := baseMs + rng.Range(0, nDays-1)*dayMs + rng.Pick64([]int64{0, 5, 86399999, rng.Range(0, dayMs-1), rng.Range(0, dayMs-1)})
				checkInstant(probe, "after-set-delta")
			}
			which := rng.Intn(4)
			before, _ := callI(dateutil.SystemNow)
			var got string
			switch which {
			case 0:
				got = guardI(dateutil.Now)
			case 1:
				got = guardS(dateutil.TimeStampNow)
			case 2:
				got = guardS(dateutil.YmdNow)
			case 3:
				got = guardI(dateutil.GetDateUnitNow)
			}
			after, _ := callI(dateutil.SystemNow)
			name := []string{"now", "ts", "ymd", "du"}[which]
			rep.Count("H:" + name)
			okDirect := false
			group++
			for c := before; c <= after; c++ {
				x := c + d
				var want string
				if x >= baseMs && x < endMs {
					std := stdHelpers(x)
					want = []string{strconv.FormatInt(x, 10), std[slotTS], std[0], std[8]}[which]
				}
				if want == got {
					okDirect = true
				}
				add(fmt.Sprintf("N %d %d %s", c, d, name), expect{want: []string{got}, key: "Now-variants", rep: rp, anyOf: true, group: group})
			}
			if !okDirect {
				rep.Fail("property", name+":not-SystemNow-plus-delta", fmt.Sprintf("delta %d: %s() = %q is not the rendering of SystemNow()+delta for any clock reading in [%d,%d]", d, name, got, before, after), rp)
			}
		}
		// a delta stays in force while the canary and the remaining stages of this process run? No: back to 0 …
		curDelta = 0
		vh.Guard(func() { dateutil.SetDelta(0) })
	}

	canaryCheck("H")
	// ------------------------------------------------------------ I: separately built DateFormat objects used concurrently (child processes)
	if !replayMode {
		full, part := "y-m-d H:M:S.s", "y-m-d"
		ms := 250
		jobs := []dfJob{
			{Goroutines: 12, Patterns: []string{full}},                               // everybody builds "the same" formatter
			{Goroutines: 12, Patterns: []string{part}},                               // partial pattern: per-object field map in play
			{Goroutines: 12, Patterns: []string{full, "d/m/y H:M:S.s", "ymdHMSs", part}}, // different patterns
			{Goroutines: 8, Patterns: []string{full}, Renew: true},                   // a new object per call
		}
		if env.Thorough {
			ms = 1500
			for i := 0; i < 4; i++ {
				jobs = append(jobs, dfJob{Goroutines: 16, Patterns: []string{genPattern(rng, true), genPattern(rng, true), genPattern(rng, false)}, Renew: i%2 == 1})
			}
		}
		for k, j := range jobs {
			j.Seed, j.Millis = env.Seed*100+uint64(k), ms
			dfStage(rep, j, "objects")
		}
	}
	// ------------------------------------------------------------ J: the helper checks under other host zones (child processes, TZ=…)
	if !replayMode {
		n := 1500
		if env.Thorough {
			n = 40000
		}
		for _, z := range []string{"America/New_York", "America/Sao_Paulo", "Pacific/Honolulu", "Asia/Seoul", "Europe/London", "Australia/Lord_Howe", "Pacific/Kiritimati"} {
			tzStage(rep, env.Seed, z, n)
		}
	}
	canaryCheck("J")

	// ------------------------------------------------------------ E: concurrent calls (child process, see conc.go)
	if !replayMode {
		rounds, gor, ms := 2, []int{12, 16}, 450
		if env.Thorough {
			rounds, gor, ms = 4, []int{8, 12, 16, 16}, 2500
		}
		for k := 0; k < rounds; k++ {
			concStage(rep, concJob{Seed: env.Seed*100 + uint64(k), Goroutines: gor[k], Millis: ms}, "random")
		}
	}

	// ------------------------------------------------------------ replay mode
	for _, c := range replayCases {
		switch c["op"] {
		case "H":
			if dv, ok := c["delta"].(float64); ok && dv != 0 {
				curDelta = int64(dv)
				vh.Guard(func() { dateutil.SetDelta(curDelta) })
			}
			checkInstant(int64(c["t"].(float64)), "replay")
			curDelta = 0
			vh.Guard(func() { dateutil.SetDelta(0) })
		case "P":
			checkPattern(c["pattern"].(string), int64(c["t"].(float64)))
		case "M":
			checkMalformed(c["pattern"].(string), c["text"].(string))
		case "Y":
			checkYmd(c["s"].(string), "replay")
		case "ML", "MLI", "MI", "MFN":
			primitivesStage(rep, vh.NewRng(env.Seed), false, add, func() int { group++; return group })
		case "I":
			var job dfJob
			if raw, err := json.Marshal(c); err == nil {
				json.Unmarshal(raw, &job)
			}
			if job.Goroutines > 0 && len(job.Patterns) > 0 {
				job.Millis = 1000
				for k := 0; k < 3; k++ {
					dfStage(rep, job, "replay")
				}
			}
		case "I2":
			objectsIndependent(rep, add, rng)
		case "J":
			tzStage(rep, uint64(c["seed"].(float64)), c["zone"].(string), 4000)
		case "K":
			rep.Note("canary findings replay by re-running the whole check (they depend on the stages run before)")
		case "E":
			job := concJob{Seed: uint64(c["seed"].(float64)), Goroutines: int(c["goroutines"].(float64)), Millis: 1000}
			if raw, err := json.Marshal(c["instants"]); err == nil {
				json.Unmarshal(raw, &job.Instants)
			}
			for k := 0; k < 3; k++ {
				concStage(rep, job, "replay")
			}
		case "Q":
			var texts []string
			if raw, err := json.Marshal(c["texts"]); err == nil {
				json.Unmarshal(raw, &texts)
			}
			objHistory(c["pattern"].(string), texts, "replay")
		case "S":
			var seq []hcall
			if raw, err := json.Marshal(c["sequence"]); err == nil {
				json.Unmarshal(raw, &seq)
			}
			for k := 0; k < 3; k++ { // the state left by earlier calls is part of a history: run it more than once
				runHistory(seq, "replay")
			}
		case "C":
			z := int64(c["z"].(float64))
			tm := time.Unix(z*86400, 0).UTC()
			add(fmt.Sprintf("C %d", z), expect{want: []string{fmt.Sprintf("%d %d %d %d", tm.Year(), int(tm.Month()), tm.Day(), (int(tm.Weekday())+6)%7)},
				key: "spec:civil-vs-stdlib", rep: c})
		}
	}

	// ------------------------------------------------------------ known findings: replay the witnesses
	{
		// D40 witness: 5 ms after 2000-01-01T00:00:00Z
		got := guardS(func() string { return dateutil.TimeStamp(baseMs + 5) })
		rep.KnownReplay(keyD40, got != "20000101 00:00:00.005", fmt.Sprintf("TimeStamp(%d) = %q, want \"20000101 00:00:00.005\"", baseMs+5, got))
		// D41 witness: pattern y-m-d, 2024-02-29T12:34:56.789Z
		t := time.Date(2024, 2, 29, 12, 34, 56, 789000000, time.UTC).UnixMilli()
		still := false
		var out string
		for try := 0; try < 3 && !still; try++ {
			pr := implParse("y-m-d", implFormat("y-m-d", t))
			out = pr.out
			still = pr.out != strconv.FormatInt(truncTo("y-m-d", t), 10)
			if !still {
				time.Sleep(3 * time.Millisecond)
			}
		}
		rep.KnownReplay(keyD41, still, fmt.Sprintf("NewDateFormat(\"y-m-d\").Parse(\"2024-02-29\") = %s, the truncated instant is %d", out, truncTo("y-m-d", t)))
	}

	// ------------------------------------------------------------ ask the model
	outs, err := vh.RunDriver(env.Driver, lines)
	if err != nil {
		vh.Die("%v", err)
	}
	groupOK := map[int]bool{}
	groupSeen := map[int]int{}
	for i, got := range outs {
		e := exps[i]
		if e.anyOf {
			if _, ok := groupSeen[e.group]; !ok {
				groupSeen[e.group] = i
			}
			if e.objHist {
				g, w := strings.Split(got, ";"), strings.Split(e.want[0], ";")
				same := len(g) == len(w)
				for k := 0; same && k < len(g); k++ {
					if g[k] != "range" && g[k] != w[k] {
						same = false
					}
				}
				if same {
					if e.resetVariant && !groupOK[e.group] {
						rep.Count("F:explained-only-by-cleared-map-variant")
					}
					groupOK[e.group] = true
				}
			} else if got == e.want[0] {
				groupOK[e.group] = true
			}
			if got == "range" { // year outside 1970..2200 (UnixNano overflows / negative instants): not modelled
				if !groupOK[e.group] {
					rep.Count("C:result-outside-modelled-years")
				}
				groupOK[e.group] = true
			}
		}
	}
	for i, got := range outs {
		e := exps[i]
		switch {
		case e.helper:
			parts := strings.Split(got, "|")
			if len(parts) < nSlots {
				rep.Fail("correspondence", "helper:driver-answer", "unexpected driver answer", map[string]interface{}{"line": lines[i], "model": got})
				continue
			}
			for s := 0; s < nSlots; s++ {
				if e.onlySlot != 0 && s != e.onlySlot-1 {
					continue
				}
				if parts[s] == e.impl[s] || !e.propOK[s] {
					// equal, or already reported as a failure of the property on this very input
					continue
				}
				rp := map[string]interface{}{}
				for k, v := range e.rep {
					rp[k] = v
				}
				rp["implementation"] = e.impl[s]
				rp["model"] = parts[s]
				rep.Fail("correspondence", slotName[s]+":model-differs", fmt.Sprintf("%s: implementation %q, model %q", slotName[s], e.impl[s], parts[s]), rp)
			}
		case e.anyOf:
			if groupOK[e.group] || groupSeen[e.group] != i {
				continue
			}
			rp := map[string]interface{}{}
			for k, v := range e.rep {
				rp[k] = v
			}
			rp["model"] = got
			rep.Fail("correspondence", e.key+":model-differs", fmt.Sprintf("Parse: implementation %s, model %s (for every clock reading of the call window)", e.want[0], got), rp)
		default:
			if got == e.want[0] {
				continue
			}
			if e.objHist {
				g, w := strings.Split(got, ";"), strings.Split(e.want[0], ";")
				same := len(g) == len(w)
				for k := 0; same && k < len(g); k++ {
					if g[k] == "range" {
						rep.Count("F:result-outside-modelled-years")
					} else if g[k] != w[k] {
						same = false
					}
				}
				if same {
					continue
				}
			}
			rp := map[string]interface{}{}
			for k, v := range e.rep {
				rp[k] = v
			}
			rp["implementation"] = e.want[0]
			rp["model"] = got
			kind := "correspondence"
			if e.asProperty {
				rep.Fail("property", e.key, fmt.Sprintf("object b answers %q; an object that saw only b's calls answers %q", vh.Clip(e.want[0], 200), vh.Clip(got, 200)), rp)
				continue
			}
			if e.key == "spec:civil-vs-stdlib" {
				// the Spec calendar itself disagrees with the standard library: the theorems are about the wrong calendar
				kind = "correspondence"
			}
			rep.Fail(kind, e.key+":model-differs", fmt.Sprintf("implementation %q, model %q", vh.Clip(e.want[0], 200), vh.Clip(got, 200)), rp)
		}
	}
	rep.Extra["driver_lines"] = len(lines)
	// the link "Go's time package = the Spec calendar `civil`" is compared, not proved: say how much was compared
	{
		specDays, specBad := 0, 0
		for i, e := range exps {
			if e.key == "spec:civil-vs-stdlib" {
				specDays++
				if outs[i] != e.want[0] {
					specBad++
				}
			}
		}
		rep.Extra["spec_vs_go_time_package"] = map[string]interface{}{
			"what":                 "Lean Spec `civil`/`weekdayMon` (driver op C) against time.Unix(z*86400,0).UTC() Year/Month/Day/Weekday",
			"days_compared":        specDays,
			"range":                "2000-01-01 .. 2099-12-31 (every day, both tiers)",
			"mismatches":           specBad,
			"status":               "compared on every run, NOT proved: Go's time package is outside the Lean development",
			"proved_about_spec":    "civil is a bijection between day numbers >= 0 and valid Gregorian dates >= 1970-01-01, civil 0 = 1970-01-01, civil (z+1) = nextDay (civil z) for every z (C19.spec_inverse, spec_inverse_left, spec_day_by_day_all)",
			"also_compared_per_call": "every helper answer of stages B, D, E against time.Time.Format / arithmetic",
		}
		rep.Note("Spec calendar vs Go time package: %d days compared, %d mismatches (comparison, not a proof)", specDays, specBad)
	}
	// a function for which an input violating the property itself was exhibited is reported once,
	// as that violation; its model disagreements are not separate verdicts
	fn := func(key string) string {
		k := strings.SplitN(key, ":", 2)[0]
		return strings.TrimSuffix(k, "#")
	}
	propFns := map[string]bool{}
	for _, f := range rep.Failures {
		if f.Kind == "property" && f.Key != keyD41 && f.Key != keyD40 { // the known findings are met on every run: they explain nothing else
			propFns[fn(f.Key)] = true
			if strings.HasPrefix(f.Key, "DateFormat.Parse:format-parse-differs") || strings.HasPrefix(f.Key, "DateFormat.Parse:present-field-lost") {
				propFns["DateFormat.format"] = true // the round trip failed on an exhibited pattern: the text format wrote is part of that finding
			}
		}
	}
	// a function that is wrong on a plain instant in the plain (UTC, delta 0, sequential) setting is reported as that;
	// the same wrongness seen again by the host-zone / canary / history / concurrency stages is not a separate verdict
	plainWrong := map[string]bool{}
	for _, f := range rep.Failures {
		if f.Kind == "property" && strings.HasSuffix(f.Key, ":differs-from-standard-calendar") {
			plainWrong[fn(f.Key)] = true
		}
	}
	derived := []string{":depends-on-host-time-zone", ":answer-changed-during-run", ":wrong-in-call-sequence", ":wrong-under-concurrent-calls",
		":not-a-step-function", ":not-start-of-day", ":panic"}
	kept := rep.Failures[:0]
	for _, f := range rep.Failures {
		if f.Kind == "property" && plainWrong[fn(f.Key)] {
			drop := false
			for _, sfx := range derived {
				if strings.HasSuffix(f.Key, sfx) {
					drop = true
				}
			}
			if drop {
				rep.Count("suppressed-derived:" + fn(f.Key))
				continue
			}
		}
		if f.Kind == "correspondence" && propFns[fn(f.Key)] {
			rep.Count("suppressed-correspondence:" + fn(f.Key))
			continue
		}
		kept = append(kept, f)
	}
	rep.Failures = kept
	_ = unCps
	_ = sort.Strings
	rep.Write(env.Out)
}
