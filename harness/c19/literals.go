// Stage L — every rune that is not one of the seven field letters is a literal separator.
//
// The property quantifies over "all patterns composed of the supported field letters and literal
// separators"; the model (Cal.letterWidth) and the theorems (∀ pat : List Char) say that exactly
// y m d H M S s are field letters and EVERY other rune is copied by format and skipped by Parse.
// Stage C draws its separators from a short list; this stage runs the whole alphabet: each of the
// 121 ASCII code points that are not field letters (controls, quotes, backslash, percent, braces,
// digits, signs, the other letters …) and a sample of non-ASCII runes (quote-like punctuation,
// CJK date words, every UTF-8 length boundary), each in shapes that differ in how often and where
// the rune occurs: once (odd count), between all letters, as a pair around a letter, as a pair
// around a non-letter, doubled, leading, trailing; in full and in partial patterns.  A rune that
// format or Parse gives a meaning of its own (quote, escape, "optional", repeat count, …) makes
// the round trip lose a field in at least one of the shapes.
package main

import (
	"bytes"
	"fmt"
	"strconv"
	"strings"
	"time"

	"github.com/whatap/golib/util/dateutil"
	"verif/harness/vh"
)

// presentFieldsOK: the parsed instant `res` carries, for every letter present in the pattern, the field of t
// (all seven present: it is t).  This is what holds of Parse∘format on the unchanged code even for partial
// patterns (absent fields come from the clock — known finding D41 — but present ones come from the text).
func presentFieldsOK(pat string, t int64, res string) bool {
	v, err := strconv.ParseInt(res, 10, 64)
	if err != nil {
		return false
	}
	if hasAll(pat) {
		return v == t
	}
	a, b := time.UnixMilli(t).UTC(), time.UnixMilli(v).UTC()
	ok := true
	if strings.ContainsRune(pat, 'H') {
		ok = ok && a.Hour() == b.Hour()
	}
	if strings.ContainsRune(pat, 'M') {
		ok = ok && a.Minute() == b.Minute()
	}
	if strings.ContainsRune(pat, 'S') {
		ok = ok && a.Second() == b.Second()
	}
	if strings.ContainsRune(pat, 's') {
		ok = ok && a.Nanosecond()/1000000 == b.Nanosecond()/1000000
	}
	// the date fields only when all three are in the text (an absent one, taken from the clock, may push a day over)
	if strings.ContainsRune(pat, 'y') && strings.ContainsRune(pat, 'm') && strings.ContainsRune(pat, 'd') {
		ok = ok && a.Year() == b.Year() && a.Month() == b.Month() && a.Day() == b.Day()
	}
	return ok
}

// literalAlphabet: every ASCII code point that is not a field letter, and a sample of non-ASCII runes
func literalAlphabet() []rune {
	var rs []rune
	for c := rune(0); c < 128; c++ {
		if !strings.ContainsRune(letters, c) {
			rs = append(rs, c)
		}
	}
	rs = append(rs,
		0x80, 0xA0, 0xA7, 0xAB, 0xB4, 0xB7, 0xBB, 0xD7, 0xE9, 0xFF, // Latin-1 (two bytes)
		0x02B9, 0x02BC, 0x07FF, // modifier primes / apostrophe, last two-byte rune
		0x0800, 0x2013, 0x2014, 0x2018, 0x2019, 0x201C, 0x201D, 0x2026, 0x2032, 0x2033, 0x2192, // quotes, dashes, primes
		0x3001, 0x5E74, 0x6708, 0x65E5, 0xC2DC, 0xBD84, 0xCD08, // CJK date words
		0xFF07, 0xFF0D, 0xFF1A, 0xFFFD, 0xFFFF, // full-width apostrophe / hyphen / colon, replacement char, last three-byte rune
		0x10000, 0x1F4C5, 0x1F552, 0x10FFFF) // four bytes
	return rs
}

// literalShapes: patterns in which the rune s occurs once / often / in pairs / at the ends
func literalShapes(s string) []string {
	return []string{
		"y-m-d" + s + "H:M:S.s",                             // once, between date and time
		"y" + s + "m" + s + "d" + s + "H" + s + "M" + s + "S" + s + "s", // between all letters (six times)
		"y-m-d " + s + "H" + s + ":M:S.s",                   // a pair around a field letter
		"y-m-d" + s + "T" + s + "H:M:S.s",                   // a pair around a literal
		s + "ymdHMSs",                                       // leading
		"ymdHMS" + s + s + "s",                              // doubled
		"s.S:M:H d-m-y" + s,                                 // trailing (reverse order of letters)
		"d/m/y" + s + s + s + "H:M:S.s",                     // three in a row
		"H" + s + "M",                                       // partial: hours ' minutes
		"y" + s + "m" + s + "d",                             // partial: date only
		"d.m.y H:M" + s + "S",                               // partial: once, late
	}
}

func literalStage(rep *vh.Report, rng *vh.Rng, thorough bool, checkPattern func(pat string, t int64)) {
	per := 1
	if thorough {
		per = 3
	}
	for _, c := range literalAlphabet() {
		s := string(c)
		switch {
		case c < 32 || c == 127:
			rep.Count("L:literal-rune control")
		case c < 128 && (c >= '0' && c <= '9'):
			rep.Count("L:literal-rune digit")
		case c < 128 && ((c >= 'a' && c <= 'z') || (c >= 'A' && c <= 'Z')):
			rep.Count("L:literal-rune other-letter")
		case c < 128:
			rep.Count("L:literal-rune ascii-punctuation")
		default:
			rep.Count("L:literal-rune non-ascii utf8-bytes=" + strconv.Itoa(len(s)))
		}
		for _, pat := range literalShapes(s) {
			for k := 0; k < per; k++ {
				t := baseMs + rng.Range(0, nDays-1)*dayMs + rng.Range(0, dayMs-1)
				if k == 0 && rng.Chance(25) {
					t = baseMs + rng.Range(0, nDays-1)*dayMs + rng.Pick64([]int64{0, 999, 43199999, 86399999})
				}
				rep.Count("L:patterns")
				checkPattern(pat, t)
			}
		}
	}
}

// ---------------------------------------------------------------- stage M: the exported primitives, called directly
//
// LPadInt(v, size) and (*DateFormat).ToInt(reader, size) are exported and were exercised only through
// format / Parse (non-negative fields, widths 2..4); DateFormat.Format() (the clock variant of FormatTime)
// was not exercised at all.  Here they are called on their own: every width 0..6 (and a negative one) with
// boundary and random values of both signs against the model `lpadInt`; field texts (digits, signs, short,
// empty, letters) against `toIntZ` incl. the number of bytes left in the reader; and the law that ties them
// (C19.lpad_toInt_inverse): ToInt(LPadInt(v, w) + rest, w) = v with `rest` left, evaluated directly.
func primitivesStage(rep *vh.Report, rng *vh.Rng, thorough bool, add func(line string, e expect), newGroup func() int) {
	n := 400
	if thorough {
		n = 20000
	}
	df := newDF("y")
	pow10 := []int64{1, 10, 100, 1000, 10000, 100000, 1000000}
	for i := 0; i < n; i++ {
		size := rng.Intn(8) - 1 // -1..6
		var v int64
		switch rng.Intn(5) {
		case 0:
			v = rng.Pick64([]int64{0, 1, 9, 10, 99, 100, 999, 1000, 9999, 10000, 99999, -1, -9, -10, -99, -100})
		case 1:
			v = -rng.Range(0, 100000)
		default:
			v = rng.Range(0, pow10[rng.Intn(7)])
		}
		got := guardS(func() string { return dateutil.LPadInt(int(v), size) })
		rep.Case(fmt.Sprintf("lpad:%d:%d", v, size), true)
		rep.Count("M:LPadInt")
		rp := map[string]interface{}{"op": "ML", "v": v, "size": size}
		add(fmt.Sprintf("L %d %d", v, size), expect{want: []string{cps(got)}, key: "LPadInt", rep: rp})
		// the inverse law, on the range format uses it in (and a bit beyond: widths 1..6)
		if size >= 1 && v >= 0 && v < pow10[size] {
			rest := rng.PickStr([]string{"", "-", ":05", "xyz", "'q'", "0", "+1"})
			rd := bytes.NewReader([]byte(got + rest))
			var back int
			var err error
			o := vh.Guard(func() { back, err = df.ToInt(rd, size) })
			rep.Evaluations++
			rep.Count("M:ToInt-after-LPadInt")
			if !o.OK() || err != nil || int64(back) != v || rd.Len() != len(rest) {
				rep.Fail("property", "DateFormat.ToInt:not-inverse-of-LPadInt",
					fmt.Sprintf("LPadInt(%d, %d) = %q; ToInt(reader(%q), %d) = %d, err=%v, panic=%q, %d bytes left (want %d with %d left): a field that format writes is not read back",
						v, size, got, got+rest, size, back, err, o.Panic, rd.Len(), v, len(rest)),
					map[string]interface{}{"op": "MLI", "v": v, "size": size, "rest": rest})
			}
		}
	}
	// ToInt on arbitrary short texts
	alphabet := []string{"0", "1", "5", "9", "0", "7", "-", "+", "a", " ", ":", "'", "_", "x"}
	for i := 0; i < n; i++ {
		size := rng.Intn(6) // 0..5
		ln := rng.Intn(8)
		var sb strings.Builder
		for k := 0; k < ln; k++ {
			if rng.Chance(75) {
				sb.WriteString(strconv.Itoa(rng.Intn(10)))
			} else {
				sb.WriteString(rng.PickStr(alphabet))
			}
		}
		text := sb.String()
		rd := bytes.NewReader([]byte(text))
		var v int
		var err error
		o := vh.Guard(func() { v, err = df.ToInt(rd, size) })
		res := "err"
		switch {
		case !o.OK():
			res = "panic"
		case err == nil:
			res = fmt.Sprintf("%d %d", v, rd.Len())
		}
		rep.Case(fmt.Sprintf("toint:%d:%s", size, text), true)
		rep.Count("M:ToInt")
		add(fmt.Sprintf("I %d %s", size, cps(text)), expect{want: []string{res}, key: "DateFormat.ToInt",
			rep: map[string]interface{}{"op": "MI", "size": size, "text": text, "result": res}})
	}
	// Format(): FormatTime of the current instant
	pats := []string{"y-m-d H:M:S.s", "ymdHMSs", "y'm'd", "H:M", "s"}
	nf := 40
	if thorough {
		nf = 2000
	}
	for i := 0; i < nf; i++ {
		pat := pats[i%len(pats)]
		if i >= len(pats) && rng.Chance(50) {
			pat = genPattern(rng, rng.Chance(60))
		}
		d := newDF(pat)
		before := time.Now().UnixMilli()
		got := guardS(func() string { return d.Format() })
		after := time.Now().UnixMilli()
		if after-before > 50 {
			rep.Count("M:Format-skipped-slow-call")
			continue
		}
		rep.Case("fmtnow:"+pat, true)
		rep.Count("M:Format")
		rep.Evaluations++
		rp := map[string]interface{}{"op": "MFN", "pattern": pat}
		ok := false
		g := newGroup()
		for c := before; c <= after; c++ {
			if got == implFormat(pat, c) {
				ok = true
			}
			add(fmt.Sprintf("F %s %d", cps(pat), c), expect{want: []string{cps(got)}, key: "DateFormat.Format", rep: rp, anyOf: true, group: g})
		}
		if !ok {
			rep.Fail("property", "DateFormat.Format:not-the-current-instant",
				fmt.Sprintf("NewDateFormat(%q).Format() = %q is not FormatTime of any instant of the call window [%d,%d]", pat, got, before, after), rp)
		}
	}
}
