// Stage E of the C19 harness: the helpers under concurrent calls.
//
// The property quantifies over instants, not over schedules: a helper must return the calendar
// rendering of its argument no matter what other goroutines are asking at the same time (the
// product calls these helpers from logger goroutines).  N goroutines call every public helper on
// their own instants (plus two instants shared by all) for a fixed time; every answer is compared
// with the value precomputed from Go's time package.  The stage runs in a child process so that a
// crash (concurrent map write, slice bounds in a shared buffer) is a finding, not a harness error;
// when built with -race the child's race reports are collected as well.
package main

import (
	"bytes"
	"encoding/json"
	"fmt"
	"os"
	"os/exec"
	"sort"
	"strings"
	"sync"
	"time"

	"verif/harness/vh"
)

type concJob struct {
	Seed       uint64  `json:"seed"`
	Goroutines int     `json:"goroutines"`
	Millis     int     `json:"millis"`
	Instants   []int64 `json:"instants,omitempty"` // replay: use exactly these (dealt round-robin)
}

type concFinding struct {
	Func  string `json:"func"`
	Slot  int    `json:"slot"`
	T     int64  `json:"t"`
	Got   string `json:"got"`
	Want  string `json:"want"`
	Alone string `json:"alone"` // the same call after all goroutines have stopped
}

type concOut struct {
	Calls    int            `json:"calls"`
	PerFunc  map[string]int `json:"per_func"`
	Instants []int64        `json:"instants"`
	Findings []concFinding  `json:"findings"`
}

var concSlots = []int{0, 1, 2, 3, 4, 5, slotWIdx, 8, 9, 10, -1, -2, 1, 2, 3, 1, 2, 3} // the string renderers weigh more

// concChild is the body of the child process.
func concChild(job concJob) {
	rng := vh.NewRng(job.Seed ^ 0xC19E)
	endMs := baseMs + nDays*dayMs
	pick := func() int64 {
		d := rng.Range(0, nDays-1)
		switch rng.Intn(4) {
		case 0:
			return baseMs + d*dayMs + rng.Pick64([]int64{0, 5, 45, 999, 59999, 43199999, 43200000, 86399999})
		default:
			return baseMs + d*dayMs + rng.Range(0, dayMs-1)
		}
	}
	shared := []int64{pick(), pick()}
	per := make([][]int64, job.Goroutines)
	var all []int64
	if len(job.Instants) > 0 {
		for i, t := range job.Instants {
			if t >= baseMs && t < endMs {
				per[i%job.Goroutines] = append(per[i%job.Goroutines], t)
			}
		}
		for g := range per {
			if len(per[g]) == 0 {
				per[g] = []int64{job.Instants[0]}
			}
		}
	} else {
		for g := range per {
			for k := 0; k < 6; k++ {
				per[g] = append(per[g], pick())
			}
			per[g] = append(per[g], shared...)
		}
	}
	want := map[int64]map[int]string{}
	for g := range per {
		for _, t := range per[g] {
			if _, ok := want[t]; ok {
				continue
			}
			all = append(all, t)
			m := map[int]string{}
			for _, s := range concSlots {
				m[s] = hcall{s, t}.want()
			}
			want[t] = m
		}
	}
	sort.Slice(all, func(i, j int) bool { return all[i] < all[j] })

	out := concOut{PerFunc: map[string]int{}, Instants: all}
	var mu sync.Mutex
	var wg sync.WaitGroup
	start := make(chan struct{})
	deadline := time.Now().Add(time.Duration(job.Millis) * time.Millisecond)
	for g := 0; g < job.Goroutines; g++ {
		wg.Add(1)
		r := rng.Fork()
		mine := per[g]
		go func() {
			defer wg.Done()
			<-start
			calls := 0
			local := map[string]int{}
			var fs []concFinding
			for i := 0; ; i++ {
				if i&63 == 0 && time.Now().After(deadline) {
					break
				}
				c := hcall{concSlots[r.Intn(len(concSlots))], mine[r.Intn(len(mine))]}
				if r.Chance(1) {
					c.Slot = -3 - r.Intn(3)
				}
				var got string
				if c.Slot <= -3 {
					before := time.Now().UnixMilli()
					got = c.run()
					after := time.Now().UnixMilli()
					if !clockOK(c, got, before-1, after+1) && len(fs) < 4 {
						fs = append(fs, concFinding{c.name(), c.Slot, before, got, "(rendering of the current instant)", ""})
					}
				} else {
					got = c.run()
					if w := want[c.T][c.Slot]; got != w && len(fs) < 4 {
						fs = append(fs, concFinding{c.name(), c.Slot, c.T, got, w, ""})
					}
				}
				calls++
				local[c.name()]++
			}
			mu.Lock()
			out.Calls += calls
			for k, v := range local {
				out.PerFunc[k] += v
			}
			out.Findings = append(out.Findings, fs...)
			mu.Unlock()
		}()
	}
	close(start)
	wg.Wait()
	for i := range out.Findings {
		f := &out.Findings[i]
		if f.Slot > -3 {
			f.Alone = hcall{f.Slot, f.T}.run()
		}
	}
	b, _ := json.Marshal(out)
	os.Stdout.Write(b)
}

// runChildPatiently runs a child process of this harness.  A child that died of a Go runtime error
// (exit status 2 with "fatal error"/"panic" on stderr) is a result; a child that was killed, could not
// start, or produced no output for any other reason (busy or short-of-memory machine) is simply run
// again — up to five times, with pauses — and if it never completes the stage is skipped with a note.
// No deadline is imposed on the child: the harness's own budget is the only bound on a hang.
func runChildPatiently(rep *vh.Report, what string, mk func() *exec.Cmd) (stdout, stderr string, err error, ok bool) {
	for try := 0; try < 5; try++ {
		cmd := mk()
		var so, se bytes.Buffer
		cmd.Stdout, cmd.Stderr = &so, &se
		err = cmd.Run()
		stdout, stderr = so.String(), se.String()
		if err == nil {
			return stdout, stderr, nil, true
		}
		goDied := strings.Contains(stderr, "fatal error") || strings.Contains(stderr, "panic:") || strings.Contains(stderr, "goroutine ")
		if ee, isExit := err.(*exec.ExitError); isExit && ee.ExitCode() > 0 && goDied {
			return stdout, stderr, err, true // the program itself died: a result
		}
		rep.Count("infra:child-rerun " + what)
		time.Sleep(time.Duration(200*(try+1)) * time.Millisecond)
	}
	rep.Note("%s: the child process could not be completed after 5 attempts (%v); stage skipped, no verdict", what, err)
	return stdout, stderr, err, false
}

// concStage runs the child and turns its output into report entries.
func concStage(rep *vh.Report, job concJob, tag string) {
	jb, _ := json.Marshal(job)
	sout, serr, err, completed := runChildPatiently(rep, "E", func() *exec.Cmd {
		cmd := exec.Command(os.Args[0])
		cmd.Env = append(os.Environ(), "C19_CONC_CHILD="+string(jb), "GORACE=halt_on_error=0 exitcode=0 history_size=2")
		return cmd
	})
	if !completed {
		return
	}
	so, se := bytes.NewBufferString(sout), bytes.NewBufferString(serr)
	rp := func(extra map[string]interface{}) map[string]interface{} {
		m := map[string]interface{}{"op": "E", "seed": job.Seed, "goroutines": job.Goroutines, "millis": job.Millis, "stage": tag}
		for k, v := range extra {
			m[k] = v
		}
		return m
	}
	var out concOut
	if jerr := json.Unmarshal(so.Bytes(), &out); err != nil || jerr != nil {
		rep.Fail("property", "dateutil:crash-under-concurrent-calls",
			fmt.Sprintf("%d goroutines calling the public helpers: the process died (%v): %s", job.Goroutines, err, vh.Clip(se.String(), 1500)),
			rp(map[string]interface{}{"instants": job.Instants}))
		return
	}
	rep.Evaluations += out.Calls
	rep.CountN("E:concurrent-calls", out.Calls)
	for k, v := range out.PerFunc {
		rep.CountN("E:call-"+k, v)
	}
	rep.Case(fmt.Sprintf("conc:%d:%d:%s", job.Seed, job.Goroutines, tag), true)
	for _, f := range out.Findings {
		if f.Slot > -3 && f.Alone != f.Want {
			// wrong also when called alone: a per-instant failure, reported by stage B under its own key
			rep.Count("E:also-wrong-alone:" + f.Func)
			continue
		}
		rep.Fail("property", f.Func+":wrong-under-concurrent-calls",
			fmt.Sprintf("%s(%d) returned %q while %d goroutines were calling the helpers on other instants; alone (and by the standard library) it is %q",
				f.Func, f.T, f.Got, job.Goroutines, f.Want),
			rp(map[string]interface{}{"func": f.Func, "t": f.T, "got": f.Got, "want": f.Want, "instants": out.Instants}))
	}
	if raceEnabled {
		rep.Count("E:race-detector-runs")
		if i := strings.Index(se.String(), "WARNING: DATA RACE"); i >= 0 {
			rep.Fail("property", "dateutil:data-race-under-concurrent-calls",
				"the race detector reports, while goroutines call only the public helpers: "+vh.Clip(se.String()[i:], 1800),
				rp(map[string]interface{}{"instants": out.Instants}))
		}
	}
}
