// Stages I, J, K of the C19 harness: things that must stay separate.
//
//	I  DateFormat objects built separately (same pattern / different patterns) used from many
//	   goroutines, each formatting and parsing its own instants — child process; a crash
//	   (`concurrent map writes` is not recoverable) is a finding with the history
//	J  the helper checks re-executed in child processes whose host zone (TZ) lies west / east of UTC
//	   or has DST: the exported helpers are specified for UTC instants, the host zone must not matter
//	K  canary: answers of the UTC helper recorded at the start must be the same after every stage
package main

import (
	"bytes"
	"encoding/json"
	"fmt"
	"os"
	"os/exec"
	"strconv"
	"strings"
	"sync"
	"time"
	_ "time/tzdata"

	"github.com/whatap/golib/util/dateutil"
	"verif/harness/vh"
)

// ---------------------------------------------------------------- I: separate DateFormat objects, concurrently

type dfJob struct {
	Seed       uint64   `json:"seed"`
	Goroutines int      `json:"goroutines"`
	Millis     int      `json:"millis"`
	Patterns   []string `json:"patterns"` // goroutine g uses Patterns[g % len]
	Renew      bool     `json:"renew"`    // build a new object for every call instead of one per goroutine
}

type dfFinding struct {
	Pattern string `json:"pattern"`
	T       int64  `json:"t"`
	Text    string `json:"text"`
	Got     string `json:"got"`
	Want    string `json:"want"`
}

type dfOut struct {
	Calls    int         `json:"calls"`
	Findings []dfFinding `json:"findings"`
}

// presentFields: does the parsed instant carry the fields of t that the pattern contains (exact instant for full patterns)
func presentFields(pat string, t int64, res string) bool {
	v, err := strconv.ParseInt(res, 10, 64)
	if err != nil {
		return false
	}
	if hasAll(pat) {
		return v == t
	}
	a, b := time.UnixMilli(t).UTC(), time.UnixMilli(v).UTC()
	ok := true
	if strings.ContainsRune(pat, 'H') {
		ok = ok && a.Hour() == b.Hour()
	}
	if strings.ContainsRune(pat, 'M') {
		ok = ok && a.Minute() == b.Minute()
	}
	if strings.ContainsRune(pat, 'S') {
		ok = ok && a.Second() == b.Second()
	}
	if strings.ContainsRune(pat, 's') {
		ok = ok && a.Nanosecond()/1000000 == b.Nanosecond()/1000000
	}
	if strings.ContainsRune(pat, 'y') && strings.ContainsRune(pat, 'm') && strings.ContainsRune(pat, 'd') {
		ok = ok && a.Year() == b.Year() && a.Month() == b.Month() && a.Day() == b.Day()
	}
	return ok
}

func dfChild(job dfJob) {
	rng := vh.NewRng(job.Seed ^ 0xDF19)
	var out dfOut
	var mu sync.Mutex
	var wg sync.WaitGroup
	start := make(chan struct{})
	deadline := time.Now().Add(time.Duration(job.Millis) * time.Millisecond)
	for g := 0; g < job.Goroutines; g++ {
		wg.Add(1)
		r := rng.Fork()
		pat := job.Patterns[g%len(job.Patterns)]
		go func() {
			defer wg.Done()
			<-start
			df := newDF(pat) // this goroutine's own formatter
			calls := 0
			var fs []dfFinding
			for i := 0; ; i++ {
				if i&31 == 0 && time.Now().After(deadline) {
					break
				}
				if job.Renew {
					df = newDF(pat)
				}
				t := baseMs + r.Range(0, nDays-1)*dayMs + r.Range(0, dayMs-1)
				var text, got string
				o := vh.Guard(func() {
					text = df.FormatTime(time.UnixMilli(t).UTC())
					v, err := df.Parse(text)
					if err != nil {
						got = "err"
					} else {
						got = strconv.FormatInt(v, 10)
					}
				})
				if !o.OK() {
					got = "panic"
				}
				calls++
				if !presentFields(pat, t, got) && len(fs) < 3 {
					fs = append(fs, dfFinding{pat, t, text, got, strconv.FormatInt(t, 10)})
				}
			}
			mu.Lock()
			out.Calls += calls
			out.Findings = append(out.Findings, fs...)
			mu.Unlock()
		}()
	}
	close(start)
	wg.Wait()
	b, _ := json.Marshal(out)
	os.Stdout.Write(b)
}

func dfStage(rep *vh.Report, job dfJob, tag string) {
	jb, _ := json.Marshal(job)
	sout, serr, err, completed := runChildPatiently(rep, "I", func() *exec.Cmd {
		cmd := exec.Command(os.Args[0])
		cmd.Env = append(os.Environ(), "C19_DF_CHILD="+string(jb), "GORACE=halt_on_error=0 exitcode=0 history_size=2")
		return cmd
	})
	if !completed {
		return
	}
	so, se := bytes.NewBufferString(sout), bytes.NewBufferString(serr)
	rp := map[string]interface{}{"op": "I", "seed": job.Seed, "goroutines": job.Goroutines, "millis": job.Millis,
		"patterns": job.Patterns, "renew": job.Renew, "stage": tag,
		"history": fmt.Sprintf("%d goroutines; goroutine g: df := NewDateFormat(patterns[g %% %d]); loop { text := df.FormatTime(t); df.Parse(text) } on its own instants", job.Goroutines, len(job.Patterns))}
	var out dfOut
	if jerr := json.Unmarshal(so.Bytes(), &out); err != nil || jerr != nil {
		msg := se.String()
		if i := strings.Index(msg, "fatal error"); i >= 0 {
			msg = msg[i:]
		}
		rep.Fail("property", "DateFormat:crash-with-separately-built-objects",
			fmt.Sprintf("%d goroutines, each with its own NewDateFormat(%q…) formatting and parsing its own instants: the process died (%v): %s",
				job.Goroutines, job.Patterns[0], err, vh.Clip(msg, 900)), rp)
		return
	}
	rep.Evaluations += out.Calls
	rep.CountN("I:format-parse-on-own-object-concurrently", out.Calls)
	rep.Case(fmt.Sprintf("dfconc:%d:%d:%v:%s", job.Seed, job.Goroutines, job.Renew, strings.Join(job.Patterns, "|")), true)
	for _, f := range out.Findings {
		rp2 := map[string]interface{}{}
		for k, v := range rp {
			rp2[k] = v
		}
		rp2["pattern"], rp2["t"], rp2["text"], rp2["got"] = f.Pattern, f.T, f.Text, f.Got
		rep.Fail("property", "DateFormat.Parse:wrong-with-separately-built-objects",
			fmt.Sprintf("goroutine with its own NewDateFormat(%q): Parse(FormatTime(%d)=%q) = %s while other goroutines used their own objects; sequentially it is the instant (fields present in the pattern)",
				f.Pattern, f.T, f.Text, f.Got), rp2)
	}
	if raceEnabled {
		if i := strings.Index(se.String(), "WARNING: DATA RACE"); i >= 0 {
			rep.Fail("property", "DateFormat:data-race-between-separately-built-objects",
				"the race detector reports, although every goroutine uses only the object it built itself: "+vh.Clip(se.String()[i:], 1500), rp)
		}
	}
}

// objectsIndependent: two objects built for the same pattern must not influence each other (sequential probe).
// The second object's answers are compared with the model of an object that saw only its own calls.
func objectsIndependent(rep *vh.Report, add func(line string, e expect), rng *vh.Rng) {
	today := time.Now().UTC()
	otherDay := today.Day()%28 + 1
	otherMonth := int(today.Month())%12 + 1
	probes := []struct {
		pat   string
		first string // parsed on object a
		texts []string
	}{
		{"y-m-d", fmt.Sprintf("2024-%02d-%02d", otherMonth, otherDay), []string{"2025", "2031-07"}},
		{"d.m.y", fmt.Sprintf("%02d.%02d.2024", otherDay, otherMonth), []string{"05", "2031"}},
		{"y-m-d H:M:S.s", "2024-02-17 01:02:03.004", []string{"2025-03-01", "2026"}},
		{"ymdHMSs", "20240217010203004", []string{"20250301", "2026"}},
	}
	for _, p := range probes {
		for try := 0; try < 30; try++ {
			a := newDF(p.pat)
			b := newDF(p.pat)
			vh.Guard(func() { a.Parse(p.first) })
			var outs []string
			var nows []int64
			clean := true
			for _, tx := range p.texts {
				before := time.Now().UnixMilli()
				var v int64
				var err error
				o := vh.Guard(func() { v, err = b.Parse(tx) })
				if time.Now().UnixMilli() != before {
					clean = false
				}
				switch {
				case !o.OK():
					outs = append(outs, "panic")
				case err != nil:
					outs = append(outs, "err")
				default:
					outs = append(outs, strconv.FormatInt(v, 10))
				}
				nows = append(nows, before)
				vh.Guard(func() { a.Parse(p.first) }) // keep disturbing through the other object
			}
			if !clean {
				continue
			}
			// what a lone object gives for the same calls at the same clock readings
			var b2 strings.Builder
			fmt.Fprintf(&b2, "Q %s", cps(p.pat))
			for k, tx := range p.texts {
				fmt.Fprintf(&b2, " %d %s", nows[k], cps(tx))
			}
			rep.Count("I:two-objects-same-pattern-probes")
			rep.Case("twoobj:"+p.pat, true)
			rp := map[string]interface{}{"op": "I2", "pattern": p.pat,
				"history": fmt.Sprintf("a := NewDateFormat(%q); b := NewDateFormat(%q); a.Parse(%q); b.Parse(%q) …", p.pat, p.pat, p.first, p.texts),
				"results_of_b": outs}
			add(b2.String(), expect{want: []string{strings.Join(outs, ";")}, key: "DateFormat:separately-built-objects-share-state", objHist: true, asProperty: true, rep: rp})
			break
		}
	}
}

// ---------------------------------------------------------------- J: host zone

type tzOut struct {
	Zone     string        `json:"zone"`
	Offset   int           `json:"offset_s"`
	Checked  int           `json:"checked"`
	Findings []concFinding `json:"findings"`
}

// tzChild runs in a process whose TZ is the zone under test; time.Local is left alone.
func tzChild(seed uint64, n int) {
	rng := vh.NewRng(seed ^ 0x7A19)
	name, off := time.Now().Zone()
	out := tzOut{Zone: os.Getenv("TZ") + "(" + name + ")", Offset: off}
	seen := map[string]int{}
	for i := 0; i < n; i++ {
		d := rng.Range(0, nDays-1)
		var t int64
		switch rng.Intn(5) {
		case 0: // around UTC midnight
			t = baseMs + d*dayMs + rng.Pick64([]int64{0, 1, 86399999, 3599999, 3600000})
		case 1: // around local midnight
			_, o := time.UnixMilli(baseMs + d*dayMs).Zone()
			t = baseMs + d*dayMs - int64(o)*1000 + rng.Range(-2, 2)
		case 2: // near a DST transition of the host zone, if any
			t = baseMs + d*dayMs + rng.Range(0, dayMs-1)
			for k := int64(0); k < 400; k++ {
				_, o1 := time.UnixMilli(t + k*dayMs).Zone()
				_, o2 := time.UnixMilli(t + (k+1)*dayMs).Zone()
				if o1 != o2 {
					t += k*dayMs + rng.Range(0, dayMs)
					break
				}
			}
		default:
			t = baseMs + d*dayMs + rng.Range(0, dayMs-1)
		}
		if t < baseMs || t >= baseMs+nDays*dayMs {
			continue
		}
		impl, std := implHelpers(t), stdHelpers(t)
		out.Checked++
		for s := 0; s < nSlots; s++ {
			if s == slotWIdx || impl[s] == std[s] {
				continue
			}
			if seen[slotName[s]] < 2 {
				seen[slotName[s]]++
				out.Findings = append(out.Findings, concFinding{slotName[s], s, t, impl[s], std[s], ""})
			}
		}
		if back, want := guardI(func() int64 { return dateutil.GetYmdTime(impl[0]) }), strconv.FormatInt(t-(t-baseMs)%dayMs, 10); back != want && seen["GetYmdTime"] < 2 {
			seen["GetYmdTime"]++
			out.Findings = append(out.Findings, concFinding{"GetYmdTime", -1, t, back, want, ""})
		}
	}
	b, _ := json.Marshal(out)
	os.Stdout.Write(b)
}

func tzStage(rep *vh.Report, seed uint64, zone string, n int) {
	env := []string{}
	for _, e := range os.Environ() {
		if !strings.HasPrefix(e, "TZ=") {
			env = append(env, e)
		}
	}
	sout, serr, err, completed := runChildPatiently(rep, "J", func() *exec.Cmd {
		cmd := exec.Command(os.Args[0])
		cmd.Env = append(env, "TZ="+zone, fmt.Sprintf("C19_TZ_CHILD=%d:%d", seed, n))
		return cmd
	})
	if !completed {
		return
	}
	so, se := bytes.NewBufferString(sout), bytes.NewBufferString(serr)
	var out tzOut
	if jerr := json.Unmarshal(so.Bytes(), &out); err != nil || jerr != nil {
		rep.Fail("property", "dateutil:crash-with-host-zone", fmt.Sprintf("helper checks with TZ=%s: the process died (%v): %s", zone, err, vh.Clip(se.String(), 800)),
			map[string]interface{}{"op": "J", "zone": zone, "seed": seed})
		return
	}
	rep.Evaluations += out.Checked
	rep.CountN("J:instants-with-host-zone "+zone, out.Checked)
	rep.Case("tz:"+zone, true)
	if out.Zone == zone+"(UTC)" && zone != "UTC" {
		rep.Note("host zone %s was not applied (zone data missing?)", zone)
	}
	for _, f := range out.Findings {
		rep.Fail("property", f.Func+":depends-on-host-time-zone",
			fmt.Sprintf("with the host zone %s (offset %d s) %s(%d) = %q; for the UTC instant %s the standard calendar gives %q (and the same call under TZ=UTC)",
				zone, out.Offset, f.Func, f.T, f.Got, time.UnixMilli(f.T).UTC().Format("2006-01-02T15:04:05.000Z"), f.Want),
			map[string]interface{}{"op": "J", "zone": zone, "t": f.T, "func": f.Func, "got": f.Got, "want": f.Want, "seed": seed})
	}
}

// ---------------------------------------------------------------- K: canary

type canary struct {
	ts   []int64
	base [][]string
	ymd  []string
}

func newCanary(rng *vh.Rng) *canary {
	c := &canary{}
	for i := 0; i < 120; i++ {
		t := baseMs + rng.Range(0, nDays-1)*dayMs + rng.Pick64([]int64{0, 5, 86399999, rng.Range(0, dayMs-1)})
		c.ts = append(c.ts, t)
		c.base = append(c.base, implHelpers(t))
		c.ymd = append(c.ymd, guardI(func() int64 { return dateutil.GetYmdTime(time.UnixMilli(t).UTC().Format("20060102")) }))
	}
	return c
}

// check compares the helper's answers with those recorded at the start of the run.
func (c *canary) check(rep *vh.Report, after string) {
	for i, t := range c.ts {
		now := implHelpers(t)
		rep.Evaluations++
		for s := 0; s < nSlots; s++ {
			if now[s] != c.base[i][s] && s != slotWIdx {
				rep.Fail("property", slotName[s]+":answer-changed-during-run",
					fmt.Sprintf("%s(%d) was %q at the start of the run and is %q after stage %s", slotName[s], t, c.base[i][s], now[s], after),
					map[string]interface{}{"op": "K", "t": t, "func": slotName[s], "after_stage": after, "before": c.base[i][s], "now": now[s]})
			}
		}
		if y := guardI(func() int64 { return dateutil.GetYmdTime(time.UnixMilli(t).UTC().Format("20060102")) }); y != c.ymd[i] {
			rep.Fail("property", "GetYmdTime:answer-changed-during-run",
				fmt.Sprintf("GetYmdTime of the day of %d was %s at the start of the run and is %s after stage %s", t, c.ymd[i], y, after),
				map[string]interface{}{"op": "K", "t": t, "after_stage": after})
		}
	}
	rep.Count("K:canary-checks")
}
