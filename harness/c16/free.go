package main

import (
	"encoding/json"
	"fmt"
	"sort"
	"strconv"
	"strings"
	"sync"
	"sync/atomic"
	"time"

	"github.com/whatap/golib/lang/pack"
	"github.com/whatap/golib/logsink/zip"
	"verif/harness/vh"
)

type freeResult struct {
	packs     []string // shared packs in hand-over order, then direct packs in hand-over order
	modelLine string   // equivalent sequential history for the driver
	finds     []finding
	nPack     int
	idleCuts  int
	drops     int
	skipped   string
}

// runFree lets the real background goroutine run against concurrent producers and a
// concurrent SendDirect caller, then evaluates the property on what the client received
// and rebuilds an equivalent sequential history for the model.
// hangAfter: nothing at all moves (no pack handed over, no ApplyConfig call returning) for this long
// while calls into the sender are outstanding: a hang.  Only bounds hangs; generous for a loaded machine.
const hangAfter = 45 * time.Second

// deadFlavour: scenario flavours for which a hang has been established in this process; their
// remaining cases are skipped (the hang is paid for once)
var deadFlavour sync.Map

func runFree(c *Case, e *evalCtx) *freeResult {
	f := c.Free
	if f.ReloadStorm {
		if _, dead := deadFlavour.Load("reload-storm"); dead {
			return &freeResult{skipped: "reload-storm"}
		}
	}
	cl := &recClient{mode: c.Client, slow: time.Duration(f.SlowUs) * time.Microsecond, fault: c.Fault}
	snd := zip.NewForVerif(cl, toVS(c.Settings))
	if f.Conf != nil {
		snd.ApplyConfig(f.Conf.toConf()) // before the goroutine exists: settings are not synchronised
	}
	st := fromVS(snd.SettingsForVerif())
	res := &freeResult{}

	// which records did the bounded queue refuse?  (unchanged semantics: a full queue refuses the
	// newcomer and keeps everything it accepted)
	var dmu sync.Mutex
	dropped := map[int]bool{}
	markDropped := func(id int) {
		dmu.Lock()
		dropped[id] = true
		dmu.Unlock()
	}
	if f.Accept == "failed" || f.Accept == "" {
		snd.Queue.Failed = func(v interface{}) {
			if p, ok := v.(*pack.LogSinkPack); ok {
				markDropped(e.byPtr[p])
			}
		}
	}
	hand := func(r *Rec) {
		if f.Accept == "put" {
			if !snd.Queue.Put(r.P) { // exactly what Add does, keeping the answer
				markDropped(r.Spec.ID)
			}
			return
		}
		snd.Add(r.P)
	}
	var stalledOrder []int // "stalled": the order in which the records were added
	if f.Accept == "stalled" {
		// round-robin over the producers, everything before the consumer exists
		capacity := snd.Queue.GetCapacity()
		n := 0
		for i := 0; ; i++ {
			any := false
			for _, items := range f.Producers {
				if i < len(items) {
					any = true
					id := items[i].R.ID
					stalledOrder = append(stalledOrder, id)
					if capacity <= 0 || n < capacity {
						n++
					} else {
						dropped[id] = true
					}
					snd.Add(e.recs[id].P)
				}
			}
			if !any {
				break
			}
		}
		if snd.Queue.Size() != n {
			e.prop("queue:size", "%d records added to a queue of capacity %d before the consumer started: it holds %d, not %d", len(stalledOrder), capacity, snd.Queue.Size(), n)
		}
	}
	directSet := map[int]bool{}
	var directWant []int
	for _, b := range f.Direct {
		for _, r := range b {
			directSet[r.ID] = true
			directWant = append(directWant, r.ID)
		}
	}

	done := snd.StartForVerif()
	var wg sync.WaitGroup
	for _, items := range f.Producers {
		if f.Accept == "stalled" {
			break
		}
		wg.Add(1)
		go func(items []FreeItem) {
			defer wg.Done()
			for _, it := range items {
				hand(e.recs[it.R.ID])
				if it.DelayUs > 0 {
					time.Sleep(time.Duration(it.DelayUs) * time.Microsecond)
				}
			}
		}(items)
	}
	// SendDirect callers: the batches are dealt round-robin to `DirectCallers` goroutines, so several
	// SendDirect calls (and the background flush) compress at the same time on this sender — and, the
	// worker process running other cases next to this one, on different senders too
	var directPanic string
	var dpMu sync.Mutex
	callers := f.DirectCallers
	if callers < 1 {
		callers = 1
	}
	batchOf := map[int]int{} // record id -> index of its SendDirect batch
	for bi, b := range f.Direct {
		for _, r := range b {
			batchOf[r.ID] = bi
		}
	}
	for cI := 0; cI < callers; cI++ {
		wg.Add(1)
		go func(cI int) {
			defer wg.Done()
			for bi, b := range f.Direct {
				if bi%callers != cI {
					continue
				}
				var ps []*pack.LogSinkPack
				for _, r := range b {
					ps = append(ps, e.recs[r.ID].P)
				}
				if o := vh.Guard(func() { snd.SendDirect(ps) }); !o.OK() {
					dpMu.Lock()
					directPanic = o.Panic
					dpMu.Unlock()
				}
				if callers == 1 {
					time.Sleep(200 * time.Microsecond)
				}
			}
		}(cI)
	}
	// reconfiguration hammered while the loop appends and flushes: ApplyConfig with the settings already in
	// force (all four keys), so what is emitted must not change — but every call takes the settings lock
	// against the readers in run / Append / doZip / SendDirect
	var reloadCalls atomic.Int64
	var stopReload atomic.Bool
	reloadDone := make(chan struct{})
	if f.ReloadStorm {
		q, w, b, z := st.QueueCap, st.MaxWait, st.MaxBuf, st.ZipMin
		same := (&ConfSpec{QueueSize: &q, MaxWait: &w, MaxBuf: &b, ZipMin: &z}).toConf()
		go func() {
			defer close(reloadDone)
			for !stopReload.Load() {
				snd.ApplyConfig(same)
				reloadCalls.Add(1)
				time.Sleep(20 * time.Microsecond)
			}
		}()
	} else {
		close(reloadDone)
	}
	// the callers may never come back (a deadlock inside the sender blocks SendDirect and ApplyConfig for
	// good): wait for them with a hang watchdog on logical progress
	callersDone := make(chan struct{})
	go func() { wg.Wait(); close(callersDone) }()
	progress := func() int64 {
		cl.mu.Lock()
		n := int64(len(cl.got))
		cl.mu.Unlock()
		return n + reloadCalls.Load()
	}
	hung := func(ch <-chan struct{}) bool {
		last, lastAt := progress(), time.Now()
		for {
			select {
			case <-ch:
				return false
			case <-time.After(2 * time.Millisecond):
			}
			if p := progress(); p != last {
				last, lastAt = p, time.Now()
			} else if time.Since(lastAt) > hangAfter {
				return true
			}
		}
	}
	reportHang := func(what string) *freeResult {
		if f.ReloadStorm {
			deadFlavour.Store("reload-storm", true)
		}
		cl.mu.Lock()
		n := len(cl.got)
		cl.mu.Unlock()
		e.prop("reload-while-appending:hang", "%s: for %v no pack was handed over and no ApplyConfig call returned (%d packs and %d reloads until then) while producers, %d SendDirect caller(s) and a goroutine calling ApplyConfig (with the settings already in force) use the running sender — the sender is deadlocked and never emits again",
			what, hangAfter, n, reloadCalls.Load(), callers)
		res.finds = e.finds
		return res
	}
	if hung(callersDone) {
		return reportHang("the producers / SendDirect callers do not return")
	}
	stopReload.Store(true)
	if hung(reloadDone) {
		return reportHang("ApplyConfig does not return")
	}
	if directPanic != "" {
		e.prop("SendDirect:panic", "SendDirect panicked: %s", vh.Clip(directPanic, 200))
	}

	total := len(directWant)
	var accepted [][]int
	for _, items := range f.Producers {
		var a []int
		for _, it := range items {
			if !dropped[it.R.ID] && !e.recs[it.R.ID].Bad { // an unserialisable record is accepted by the queue and dropped by Append
				a = append(a, it.R.ID)
				total++
			}
		}
		accepted = append(accepted, a)
	}
	handedCount := func() int {
		cl.mu.Lock()
		defer cl.mu.Unlock()
		n := 0
		for _, h := range cl.got {
			n += h.Count
		}
		return n
	}
	// watchdogs are progress based (the machine may be loaded, the race detector slows gzip a lot):
	// a wait fails only when nothing at all was handed over for `watchdog`
	stalled := func(cond func() bool) bool {
		last, lastAt := handedCount(), time.Now()
		for !cond() {
			time.Sleep(time.Millisecond)
			if n := handedCount(); n != last {
				last, lastAt = n, time.Now()
			} else if time.Since(lastAt) > watchdog {
				return true
			}
		}
		return false
	}
	if !f.StopEarly {
		// the idle timeout must flush the last batch without any further input
		if stalled(func() bool { return handedCount() >= total }) {
			e.prop("run:idle-flush-missed", "%d of %d records still not handed over, and nothing was handed over for %v (waiting time in force %d ms)",
				total-handedCount(), total, watchdog, st.MaxWait)
		}
	}
	snd.StopForVerif()
	isDone := func() bool {
		select {
		case <-done:
			return true
		default:
			return false
		}
	}
	if stalled(isDone) {
		e.prop("stop:loop-does-not-return", "the background loop did not return after cancellation (no pack handed over for %v)", watchdog)
		res.finds = e.finds
		return res
	}

	// ---- evaluate
	cl.mu.Lock()
	got := cl.got
	cl.mu.Unlock()
	res.nPack = len(got)
	res.drops = len(dropped)
	var sharedIDs, directIDs []int
	var sharedLines, directLines []string
	var sharedPacks [][]int
	type dpack struct {
		batch int
		ids   []int
		line  string
	}
	var dpacks []dpack
	for k, h := range got {
		// classify by content: every pack holds at least one record
		d0 := decodePack(h.Snap, h.Count, h.Status)
		site, src := "sendAndClear", "S"
		if d0.Err == "" && len(d0.Recs) > 0 {
			if id := int(d0.Recs[0].Oid) / 31; directSet[id] {
				site, src = "SendDirect", "D"
			}
		}
		ids, d := e.checkPack(h, site, st.ZipMin, k)
		if src == "S" {
			sharedIDs = append(sharedIDs, ids...)
			sharedLines = append(sharedLines, e.packLine(src, d, ids))
			sharedPacks = append(sharedPacks, ids)
		} else {
			bi := len(f.Direct)
			if len(ids) > 0 {
				bi = batchOf[ids[0]]
			} else if d0.Err == "" && len(d0.Recs) > 0 {
				bi = batchOf[int(d0.Recs[0].Oid)/31]
			}
			dpacks = append(dpacks, dpack{bi, ids, e.packLine(src, d, ids)})
		}
	}
	// the calls of different callers interleave: group the direct packs by call (stable: the packs of
	// one call keep their order)
	sort.SliceStable(dpacks, func(a, b int) bool { return dpacks[a].batch < dpacks[b].batch })
	for _, dp := range dpacks {
		directIDs = append(directIDs, dp.ids...)
		directLines = append(directLines, dp.line)
	}
	res.packs = append(sharedLines, directLines...)
	if !e.hasKeySuffix(":undecodable") && !e.hasKeySuffix(":foreign-record") {
		seen := map[int]int{}
		for _, id := range sharedIDs {
			seen[id]++
		}
		for id, n := range seen {
			if n > 1 {
				e.prop("emit:duplicate", "record %d emitted %d times", id, n)
			}
			if dropped[id] {
				e.prop("emit:refused-record-emitted", "record %d was refused by the full queue (capacity %d) and emitted nevertheless", id, snd.Queue.GetCapacity())
			}
		}
		var missing []int
		for k, a := range accepted {
			mine := map[int]bool{}
			for _, id := range a {
				mine[id] = true
			}
			var sub, kept []int
			for _, id := range sharedIDs {
				if mine[id] {
					sub = append(sub, id)
				}
			}
			for _, id := range a {
				if seen[id] > 0 {
					kept = append(kept, id)
				} else {
					missing = append(missing, id)
				}
			}
			if !eqInts(sub, kept) && !e.hasKeySuffix("emit:duplicate") {
				e.prop("emit:not-exactly-once-in-order", "producer %d handed over %s; emitted of these, in order of emission: %s", k, vh.Clip(idsStr(a), 300), vh.Clip(idsStr(sub), 300))
			}
		}
		if len(missing) > 0 {
			// all producers had returned before the stop: nothing may be left behind
			var specs []string
			for i, id := range missing {
				if i == 3 {
					break
				}
				b, _ := json.Marshal(e.recs[id].Spec)
				specs = append(specs, string(b))
			}
			if snd.Queue.Size() >= len(missing) {
				e.prop("stop:queued-records-lost", "%d records accepted by the queue before the stop were never emitted (queue holds %d after the loop returned): %s",
					len(missing), snd.Queue.Size(), strings.Join(specs, " "))
			} else {
				e.prop("emit:accepted-record-never-emitted", "%d records accepted by the queue (capacity %d) were never handed to the client and are not in the queue either (it holds %d) — lost inside the queue or swallowed inside Append: %s",
					len(missing), snd.Queue.GetCapacity(), snd.Queue.Size(), strings.Join(specs, " "))
			}
		}
		if !eqInts(directIDs, directWant) {
			e.prop("SendDirect:not-exactly-once-in-order", "SendDirect batches %s emitted %s", idsStr(directWant), idsStr(directIDs))
		}
	}
	if cnt, blen, _ := snd.BufferedForVerif(); cnt != 0 || blen != 0 {
		e.prop("stop:flush-missed", "after the loop returned %d records / %d bytes are still buffered", cnt, blen)
	}

	// ---- an equivalent schedule of the loop machine (Golib.ZipSender.Loop, driver line `L`):
	// the loop enters GetTimeout (`t<j>`: 1+j polls fit), polls empty-handed j times, the producer's
	// Add lands, the next poll finds the record; at an observed pack boundary that the model does not
	// produce by itself GetTimeout runs out of polls (idle flush); finally the cancellation (`k`) is
	// noticed at the next select (`t0`)
	var sb strings.Builder
	fmt.Fprintf(&sb, "L fixed %s ", st.String())
	first := true
	put := func(s string) {
		if !first {
			sb.WriteByte(';')
		}
		first = false
		sb.WriteString(s)
	}
	// clock readings of the schedule (synthetic, in the observed order): a round before the deadline is
	// possible only while the reading stays below select-time + waiting time in force
	clk := int64(1000)
	wait := st.MaxWait
	getRecord := func(id int, j int64, addNow bool) { // GetTimeout entered at clk, j empty-handed rounds, then the record
		if j >= wait {
			j = 0
		}
		put("t" + strconv.FormatInt(clk, 10))
		for i := int64(0); i < j; i++ {
			put("p" + strconv.FormatInt(clk+i, 10))
		}
		if addNow {
			put("a:" + e.recs[id].line())
		}
		put("p" + strconv.FormatInt(clk+j, 10))
		clk += j + 1
	}
	idle := func(j int64) { // GetTimeout entered at clk, j rounds before the deadline, one at or after it
		if j >= wait {
			j = 0
		}
		put("t" + strconv.FormatInt(clk, 10))
		for i := int64(0); i < j; i++ {
			put("p" + strconv.FormatInt(clk+i, 10))
		}
		due := clk
		if wait > 0 {
			due = clk + wait
		}
		put("p" + strconv.FormatInt(due, 10))
		clk = due + 1
	}
	if f.Accept == "stalled" {
		// the exact schedule: every Add before the loop starts (the model refuses the overflow
		// itself), then one successful GetTimeout per accepted record, the idle timeout, the stop
		for _, id := range stalledOrder {
			put("a:" + e.recs[id].line())
		}
		for _, id := range stalledOrder {
			if !dropped[id] {
				getRecord(id, 0, false)
			}
		}
		idle(1)
	} else {
		for _, ids := range sharedPacks {
			for _, id := range ids {
				getRecord(id, int64((id*7+3)%3), true)
			}
			idle(int64(len(ids) % 3))
		}
	}
	put("k")
	put("t" + strconv.FormatInt(clk, 10))
	for _, b := range f.Direct {
		if len(b) == 0 {
			put("d:-")
			continue
		}
		parts := make([]string, len(b))
		for i, r := range b {
			parts[i] = e.recs[r.ID].line()
		}
		put("d:" + strings.Join(parts, "|"))
	}
	res.modelLine = sb.String()
	res.finds = e.finds
	return res
}
