package main

// D69: ApplyConfig replaces the four settings while the background loop, Append, doZip and
// SendDirect read them.  Whether that is a data race under the Go memory model is decided by
// the race detector: the scenario below runs in a child process built with -race (this binary
// itself in the thorough tier; a race build of the same package made on the fly in the quick tier).

import (
	"bytes"
	"fmt"
	"os"
	"os/exec"
	"path/filepath"
	"regexp"
	"strings"
	"sync"
	"time"

	"github.com/whatap/golib/lang/pack"
	"github.com/whatap/golib/logsink/zip"
	"verif/harness/vh"
)

// raceChild is the scenario; it only has to execute the accesses, the verdict is the detector's.
func raceChild() {
	cl := &recClient{mode: "consume"}
	snd := zip.NewForVerif(cl, toVS(Settings{MaxWait: 2, QueueCap: 1000, MaxBuf: 200, ZipMin: 100}))
	done := snd.StartForVerif()
	var wg sync.WaitGroup
	wg.Add(3)
	go func() { // producer
		defer wg.Done()
		for i := 1; i <= 60; i++ {
			snd.Add(NewRec(RecSpec{ID: i, Time: t0 + int64(i), N: i % 50}).P)
			time.Sleep(200 * time.Microsecond)
		}
	}()
	go func() { // direct sender
		defer wg.Done()
		for i := 0; i < 10; i++ {
			var ps []*pack.LogSinkPack
			for k := 0; k < 4; k++ {
				ps = append(ps, NewRec(RecSpec{ID: 1000 + 10*i + k, Time: t0, N: 40}).P)
			}
			snd.SendDirect(ps)
			time.Sleep(time.Millisecond)
		}
	}()
	go func() { // configuration updates; the queue size stays what it is (SetCapacity is the queue's business)
		defer wg.Done()
		for i := 0; i < 30; i++ {
			w, b, z := int64(2+i%3), int64(150+i), int64(90+i)
			q := int64(1000)
			snd.ApplyConfig((&ConfSpec{QueueSize: &q, MaxWait: &w, MaxBuf: &b, ZipMin: &z}).toConf())
			time.Sleep(500 * time.Microsecond)
		}
	}()
	allBack := make(chan struct{})
	go func() { wg.Wait(); close(allBack) }()
	select {
	case <-allBack:
	case <-time.After(hangAfter + watchdog):
		// a producer, SendDirect or ApplyConfig never came back: the sender is deadlocked
		fmt.Fprintln(os.Stderr, "C16-CHILD-HANG: calls into the running sender (Add / SendDirect / ApplyConfig) did not return within", hangAfter+watchdog)
		os.Exit(7)
	}
	time.Sleep(10 * time.Millisecond)
	snd.StopForVerif()
	select {
	case <-done:
	case <-time.After(watchdog):
	}
}

var raceFrame = regexp.MustCompile(`(?m)^  (\S+)\(`)

// checkSettingsRace runs the child and turns a detector report into a finding.
func checkSettingsRace(env *vh.Env, rep *vh.Report) {
	rep.Case("race ApplyConfig vs run/Append/doZip/SendDirect", true)
	rep.Count("kind:race")
	self, err := os.Executable()
	if err != nil {
		rep.Note("D69 race scenario skipped: %v", err)
		return
	}
	bin := self
	if !raceEnabled {
		root := os.Getenv("VERIF_ROOT")
		cwd, _ := os.Getwd()
		mod := filepath.Join(cwd, "go.mod")
		if root == "" {
			rep.Note("D69 race scenario skipped: VERIF_ROOT not set (run through ./check)")
			return
		}
		if _, err := os.Stat(mod); err != nil {
			rep.Note("D69 race scenario skipped: no go.mod in %s", cwd)
			return
		}
		bin = filepath.Join(cwd, "harness-race")
		cmd := exec.Command("go", "build", "-race", "-tags", "verif", "-modfile="+mod, "-o", bin, "./c16")
		cmd.Dir = filepath.Join(root, "harness")
		cmd.Env = append(os.Environ(), "GOFLAGS=-mod=mod", "GOPROXY=off", "GOSUMDB=off", "GOTOOLCHAIN=local", "GOWORK=off")
		t := time.Now()
		if out, err := cmd.CombinedOutput(); err != nil {
			rep.Note("D69 race scenario skipped: race build failed: %v: %s", err, vh.Clip(string(out), 300))
			return
		}
		rep.Note("race build of the harness for the D69 child: %.1fs", time.Since(t).Seconds())
	}
	var report string
	hang := ""
	for attempt := 0; attempt < 3 && report == "" && hang == ""; attempt++ {
		cmd := exec.Command(bin, "-child", "d69")
		var errb bytes.Buffer
		cmd.Stderr = &errb
		cmd.Env = append(os.Environ(), "GORACE=halt_on_error=0 exitcode=0")
		if err := cmd.Start(); err != nil {
			rep.Note("D69 race scenario skipped: %v", err)
			return
		}
		fin := make(chan struct{})
		go func() { cmd.Wait(); close(fin) }()
		select {
		case <-fin:
		case <-time.After(hangAfter + 3*watchdog):
			cmd.Process.Kill()
			<-fin
			hang = "the scenario did not finish and was stopped"
		}
		if i := strings.Index(errb.String(), "C16-CHILD-HANG:"); i >= 0 {
			hang = firstLine(errb.String()[i:])
		}
		if i := strings.Index(errb.String(), "WARNING: DATA RACE"); i >= 0 {
			report = errb.String()[i:]
		}
	}
	if hang != "" {
		rep.Fail("property", "reload-while-appending:hang", "real background loop + producer + SendDirect caller + 30 ApplyConfig calls on one sender: "+hang+" — the sender deadlocks under a configuration update that arrives while it appends / flushes",
			map[string]interface{}{"case": &Case{Kind: "race"}, "scenario": "harness -child d69"})
	}
	replay := map[string]interface{}{"case": &Case{Kind: "race"},
		"scenario": "real background loop + producer + SendDirect caller + 30 ApplyConfig calls (max_wait_time, max_buffer_size, logsink_zip_min_size changing; queue size constant), built with -race"}
	if report == "" {
		return
	}
	// one finding per pair of racing functions
	seen := map[string]bool{}
	for _, blk := range strings.Split(report, "WARNING: DATA RACE")[1:] {
		fr := raceFrame.FindAllStringSubmatch(blk, -1)
		var fns []string
		for _, m := range fr {
			f := m[1]
			if k := strings.LastIndex(f, "/"); k >= 0 {
				f = f[k+1:]
			}
			fns = append(fns, f)
		}
		has := func(sub string) bool {
			for _, f := range fns {
				if strings.Contains(f, sub) {
					return true
				}
			}
			return false
		}
		key := "race:other"
		if has("zip.(*ZipSendProxyThread).ApplyConfig") && (has("zip.(*ZipSendProxyThread).run") || has("zip.(*ZipSendProxyThread).Append") ||
			has("zip.(*ZipSendProxyThread).doZip") || has("zip.(*ZipSendProxyThread).SendDirect")) {
			key = "ApplyConfig:settings-data-race"
		}
		if seen[key] {
			continue
		}
		seen[key] = true
		replay["detector_report"] = vh.Clip(strings.TrimSpace(blk), 1800)
		top := fns
		if len(top) > 6 {
			top = top[:6]
		}
		summary := fmt.Sprintf("the race detector reports a data race between a configuration update and the sender's readers of the settings (frames: %s): "+
			"ApplyConfig writes logsinkMaxWaitTime / logsinkMaxBufferSize / logsinkZipMinSize without synchronisation while the background goroutine and SendDirect read them",
			strings.Join(top, ", "))
		if key == "race:other" {
			summary = fmt.Sprintf("the race detector reports a data race while the background loop, a producer, a SendDirect caller and configuration updates run on one sender (frames: %s)", strings.Join(top, ", "))
		}
		rep.Fail("property", key, summary, replay)
	}
}
