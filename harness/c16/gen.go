package main

import (
	"strconv"

	"verif/harness/vh"
)

var (
	gridMaxBuf  = []int64{0, 1, 30, 60, 100, 257, 1000, 4096}
	gridMaxWait = []int64{0, 1, 10, 50, 5000, -5}
	gridZipMin  = []int64{0, 1, 40, 100, 300, 5000, 1 << 30}
	gridQueue   = []int64{0, 1, 2, 5, 1000, -1}
)

const t0 = int64(1_700_000_000_000)

func genSettings(r *vh.Rng) Settings {
	s := Settings{MaxWait: r.Pick64(gridMaxWait), QueueCap: r.Pick64(gridQueue), MaxBuf: r.Pick64(gridMaxBuf), ZipMin: r.Pick64(gridZipMin)}
	switch {
	case r.Chance(12):
		s = Settings{5000, 1000, 65536, 100} // the documented defaults
	case r.Chance(4):
		s.MaxBuf = 65536
	case r.Chance(3):
		s.MaxBuf = -1
	}
	if r.Chance(40) {
		s.QueueCap = 1000
	}
	return s
}

// encLen: length of the record's encoding, computed from the encoding of the same record with
// empty content (the content is written as a length-prefixed text: 1, 3 or 5 bytes of prefix).
func encLen(s RecSpec) int {
	n := s.N
	s.N = 0
	base := len(refEncode(s.want())) // includes the 1-byte prefix of the empty text
	switch {
	case n <= 253:
		return base + n
	case n <= 65535:
		return base + 2 + n
	default:
		return base + 4 + n
	}
}

// withEncLen adjusts the content length so that the encoding has `target` bytes when possible.
func withEncLen(s RecSpec, target int) RecSpec {
	s.N = 0
	base := encLen(s)
	if target <= base {
		return s
	}
	s.N = target - base
	for i := 0; i < 3; i++ {
		d := encLen(s) - target
		if d == 0 || s.N-d < 0 {
			break
		}
		s.N -= d
	}
	return s
}

var tagHashPool = []int64{7, 0x5EED0C16, -3, 1, 7, 0x5EED0C16}

// decorate turns some records of the queue / Append paths into unserialisable ones (kinds as allowed)
// or lets the caller recycle the pack object of an earlier record (deterministic mode only).
func (g *recGen) decorate(s *RecSpec, badKinds []string, reuse bool) {
	r := g.r
	switch {
	case len(badKinds) > 0 && r.Chance(6):
		s.Bad = r.PickStr(badKinds)
	case reuse && s.ID > 1 && r.Chance(6):
		s.ReuseOf = 1 + r.Intn(s.ID-1)
	}
}

type recGen struct {
	r      *vh.Rng
	st     Settings
	nextID int
	now    int64
	recent []int // encoded sizes of the last records generated
	big    int   // budget of very large records
}

func newRecGen(r *vh.Rng, st Settings) *recGen {
	return &recGen{r: r, st: st, nextID: 1, now: t0 + r.Range(0, 1000), big: 3}
}

func (g *recGen) next() RecSpec {
	r := g.r
	s := RecSpec{ID: g.nextID, Fill: r.Intn(2)}
	g.nextID++
	if r.Chance(35) {
		s.Tags = r.Intn(4)
	}
	if r.Chance(20) {
		s.Fields = r.Intn(3)
	}
	// a caller-assigned tag hash from a small pool shared by all cases of the process: different tag
	// tables under one hash, within a batch, across batches, across sender instances
	if r.Chance(22) {
		s.TagHash = r.Pick64(tagHashPool)
		if r.Chance(70) && s.Tags == 0 {
			s.Tags = 1 + r.Intn(3)
		}
	}
	// unusual but legal shapes (nil Tags is not among them: the unchanged encoder dereferences it)
	if r.Chance(10) {
		s.NilFields = true
	}
	if r.Chance(8) {
		s.NoCat = true
	}
	if r.Chance(8) {
		s.Line0 = true
	}
	if r.Chance(3) {
		s.LongTag = r.PickInt([]int{253, 254, 300, 4000})
		if r.Chance(5) && g.big > 0 {
			g.big--
			s.LongTag = 33000 // value of 66000 bytes: 5-byte length prefix
		}
	}
	// time: steps around the waiting time in force
	w := g.st.MaxWait
	switch {
	case r.Chance(40):
	case r.Chance(25):
		g.now += r.Range(1, 5)
	case r.Chance(50):
		g.now += r.Pick64([]int64{w - 1, w, w + 1, 2 * w, w / 2})
	case r.Chance(20):
		g.now -= r.Range(1, 3)
	default:
		g.now += r.Range(0, 2*abs64(w)+2)
	}
	s.Time = g.now
	if r.Chance(3) {
		s.Time = 0 // the "no first record yet" sentinel of the sender
	}
	// size: from empty content to three times the buffer limit, biased to the flush boundary
	mb := int(g.st.MaxBuf)
	if mb < 0 {
		mb = 0
	}
	switch {
	case r.Chance(25):
		s.N = 0
	case r.Chance(35) && mb > 0 && (mb <= 5000 || g.big > 0):
		// complete the buffer exactly (±1) assuming the last k records are still buffered
		if mb > 5000 {
			g.big--
		}
		k := r.Intn(3)
		have := 0
		for i := 0; i < k && i < len(g.recent); i++ {
			have += g.recent[len(g.recent)-1-i]
		}
		s = withEncLen(s, mb-have+r.Intn(3)-1)
	case r.Chance(25) && mb > 0 && (mb <= 5000 || g.big > 0):
		if mb > 5000 {
			g.big--
		}
		s = withEncLen(s, r.PickInt([]int{mb / 2, mb, mb + 1, 2 * mb, 3 * mb, 3*mb + 7}))
	case r.Chance(30):
		// around the compression threshold
		z := int(g.st.ZipMin)
		if z > 0 && z < 10000 {
			s = withEncLen(s, z+r.Intn(3)-1)
		} else {
			s.N = r.Intn(50)
		}
	default:
		s.N = r.Intn(120)
	}
	g.recent = append(g.recent, encLen(s))
	if len(g.recent) > 4 {
		g.recent = g.recent[1:]
	}
	return s
}

func abs64(x int64) int64 {
	if x < 0 {
		return -x
	}
	return x
}

func optVal(r *vh.Rng, grid []int64) *int64 {
	if r.Chance(30) {
		return nil
	}
	v := r.Pick64(grid)
	return &v
}

func genConf(r *vh.Rng) *ConfSpec {
	return &ConfSpec{QueueSize: optVal(r, gridQueue), MaxWait: optVal(r, gridMaxWait), MaxBuf: optVal(r, append([]int64{65536}, gridMaxBuf...)), ZipMin: optVal(r, gridZipMin)}
}

// genCase: one deterministic history.
func genCase(r *vh.Rng, thorough bool) *Case {
	st := genSettings(r)
	c := &Case{Kind: "det", Settings: st, Client: r.PickStr([]string{"consume", "retain"}), FailedCb: r.Chance(20), Fault: genFault(r)}
	if r.Chance(12) {
		return genBurst(r, c)
	}
	if r.Chance(8) {
		return genBadMix(r, c)
	}
	if r.Chance(10) {
		return genReload(r, c)
	}
	g := newRecGen(r, st)
	profile := r.Intn(5) // 0,1 queue  2 direct  3 append-only  4 mixed
	n := 4 + r.Intn(36)
	if thorough && r.Chance(10) {
		n = 60 + r.Intn(80)
	}
	if st.MaxBuf >= 65536 && n > 30 {
		n = 30
	}
	stopped := false
	for i := 0; i < n; i++ {
		var k string
		x := r.Intn(100)
		switch profile {
		case 0, 1:
			switch {
			case x < 45:
				k = "add"
			case x < 85:
				k = "step"
			case x < 90:
				k = "direct"
			case x < 94:
				k = "config"
			case x < 97:
				k = "stop"
			default:
				k = "add"
			}
		case 2:
			switch {
			case x < 70:
				k = "direct"
			case x < 80:
				k = "config"
			case x < 90:
				k = "append"
			default:
				k = "step"
			}
		case 3:
			switch {
			case x < 80:
				k = "append"
			case x < 88:
				k = "config"
			case x < 95:
				k = "direct"
			default:
				k = "step"
			}
		default:
			k = r.PickStr([]string{"add", "add", "step", "step", "step", "append", "direct", "config", "stop"})
		}
		if k == "stop" && (stopped || i < n/2) {
			k = "step"
		}
		o := Op{K: k}
		switch k {
		case "add", "append":
			s := g.next()
			if k == "add" {
				g.decorate(&s, []string{"niltags", "niltags", "nilpack", "wrongtype"}, true)
			} else {
				g.decorate(&s, []string{"niltags", "nilpack"}, true)
			}
			o.R = &s
		case "direct":
			m := r.Intn(7)
			if r.Chance(10) {
				m = 0
			}
			for j := 0; j < m; j++ {
				x := g.next()
				g.decorate(&x, nil, true) // SendDirect has no recover: only serialisable records
				o.Rs = append(o.Rs, x)
			}
		case "config":
			o.C = genConf(r)
			// later records are generated against the new limits when the keys are present
			if o.C.MaxBuf != nil {
				g.st.MaxBuf = *o.C.MaxBuf
			}
			if o.C.MaxWait != nil {
				g.st.MaxWait = *o.C.MaxWait
			}
			if o.C.ZipMin != nil {
				g.st.ZipMin = *o.C.ZipMin
			}
		case "stop":
			stopped = true
		}
		c.Ops = append(c.Ops, o)
	}
	// most histories end by draining: steps until idle, sometimes a stop
	if !stopped && r.Chance(70) {
		adds := 0
		for _, o := range c.Ops {
			if o.K == "add" {
				adds++
			}
		}
		if r.Chance(50) {
			for i := 0; i < adds+1; i++ {
				c.Ops = append(c.Ops, Op{K: "step"})
			}
		}
		if r.Chance(60) {
			c.Ops = append(c.Ops, Op{K: "stop"})
		}
	}
	return c
}

// genFault: in a third of the cases the client reports transmission errors
func genFault(r *vh.Rng) string {
	if !r.Chance(33) {
		return ""
	}
	switch r.Intn(5) {
	case 0:
		return "first"
	case 1:
		return "all"
	case 2:
		return "every:2"
	case 3:
		return "every:3"
	}
	return "random:" + strconv.Itoa(r.PickInt([]int{20, 50, 80})) + ":" + strconv.Itoa(r.Intn(1000))
}

// genReload: reconfiguration x construction variant.  The sender is built by the production constructor
// without a queue (or by the hook, in queue mode); several reloads follow, each changing an arbitrary
// subset of the four settings — the queue size together with the others more often than not — and after
// each reload records are appended whose sizes and times sit on the NEW limits (flush by size, by time,
// compression threshold), on the Append path and through SendDirect.
func genReload(r *vh.Rng, c *Case) *Case {
	noQueue := r.Chance(65)
	if noQueue {
		c.Ctor = "noqueue"
		c.Settings = Settings{5000, 1000, 65536, 100} // GetInstance: the defaults
		c.FailedCb = false
	} else {
		c.Settings = genSettings(r)
	}
	cur := c.Settings
	g := newRecGen(r, cur)
	pickP := func(grid []int64, old int64) *int64 {
		v := r.Pick64(grid)
		for tries := 0; v == old && tries < 4; tries++ {
			v = r.Pick64(grid)
		}
		return &v
	}
	reloads := 2 + r.Intn(4)
	for k := 0; k < reloads; k++ {
		conf := &ConfSpec{}
		mask := 1 + r.Intn(15) // any non-empty subset of {queue, wait, buf, zip}
		if r.Chance(60) {
			mask |= 1 // the queue size changes together with the others
		}
		if mask&1 != 0 {
			conf.QueueSize = pickP([]int64{1, 2, 5, 500, 1000, 2000}, cur.QueueCap)
		} else if cur.QueueCap != 1000 || r.Chance(50) {
			q := cur.QueueCap // key present, value unchanged
			conf.QueueSize = &q
		}
		if mask&2 != 0 {
			conf.MaxWait = pickP([]int64{1, 10, 50, 5000}, cur.MaxWait)
		} else if cur.MaxWait != 2000 {
			w := cur.MaxWait
			conf.MaxWait = &w
		}
		if mask&4 != 0 {
			conf.MaxBuf = pickP([]int64{60, 100, 257, 1000, 65536}, cur.MaxBuf)
		} else if cur.MaxBuf != 65536 {
			b := cur.MaxBuf
			conf.MaxBuf = &b
		}
		if mask&8 != 0 {
			conf.ZipMin = pickP([]int64{0, 40, 100, 300, 1 << 30}, cur.ZipMin)
		} else if cur.ZipMin != 100 {
			z := cur.ZipMin
			conf.ZipMin = &z
		}
		c.Ops = append(c.Ops, Op{K: "config", C: conf})
		cur = applyConf(cur, conf)
		g.st = cur
		// records on the new limits
		n := 3 + r.Intn(6)
		for i := 0; i < n; i++ {
			s := g.next()
			switch r.Intn(5) {
			case 0:
				s = withEncLen(s, int(cur.MaxBuf)) // reaches the new buffer limit by itself
			case 1:
				s = withEncLen(s, int(cur.ZipMin)+r.Intn(3)-1) // around the new compression threshold
			case 2:
				g.now += cur.MaxWait // the new waiting time has passed since the batch began
				s.Time = g.now
			}
			if s.N > 20000 {
				s.N = 20000
			}
			switch {
			case !noQueue && r.Chance(50):
				c.Ops = append(c.Ops, Op{K: "add", R: &s}, Op{K: "step"})
			case r.Chance(25):
				c.Ops = append(c.Ops, Op{K: "direct", Rs: []RecSpec{s, g.next()}})
			default:
				c.Ops = append(c.Ops, Op{K: "append", R: &s})
			}
		}
		if !noQueue && r.Chance(50) {
			c.Ops = append(c.Ops, Op{K: "step"}, Op{K: "step"})
		}
	}
	if !noQueue && r.Chance(60) {
		c.Ops = append(c.Ops, Op{K: "stop"})
	}
	return c
}

// genBadMix: unserialisable records at every position of a batch — first, middle, last, alone,
// k in a row, right before a flush by size, by time, by the idle timeout and by the stop — on the
// queue path and on the direct Append path.
func genBadMix(r *vh.Rng, c *Case) *Case {
	c.Settings = Settings{MaxWait: r.Pick64([]int64{50, 5000}), QueueCap: 1000, MaxBuf: r.Pick64([]int64{120, 300, 65536}), ZipMin: r.Pick64([]int64{0, 100, 1 << 30})}
	g := newRecGen(r, c.Settings)
	kinds := []string{"niltags", "nilpack", "wrongtype"}
	viaQueue := r.Chance(60)
	put := func(bad bool, dt int64, n int) {
		s := g.next()
		s.N = n
		g.now += dt
		s.Time = g.now
		k := "append"
		if viaQueue {
			k = "add"
		}
		if bad {
			s.Bad = r.PickStr(kinds)
			if k == "append" && s.Bad == "wrongtype" {
				s.Bad = "nilpack"
			}
		}
		c.Ops = append(c.Ops, Op{K: k, R: &s})
		if viaQueue && r.Chance(70) {
			c.Ops = append(c.Ops, Op{K: "step"})
		}
	}
	drain := func() {
		if viaQueue {
			for i := 0; i < 6; i++ {
				c.Ops = append(c.Ops, Op{K: "step"})
			}
		}
	}
	batches := 3 + r.Intn(4)
	for b := 0; b < batches; b++ {
		switch r.Intn(8) {
		case 0: // first
			put(true, 0, 0)
			put(false, 0, 10)
			put(false, 0, 10)
		case 1: // middle
			put(false, 0, 10)
			put(true, 0, 0)
			put(false, 0, 10)
		case 2: // last
			put(false, 0, 10)
			put(false, 0, 10)
			put(true, 0, 0)
		case 3: // alone in its batch
			put(true, 0, 0)
		case 4: // k in a row
			put(false, 0, 5)
			for i := 0; i < 2+r.Intn(3); i++ {
				put(true, 0, 0)
			}
			put(false, 0, 5)
		case 5: // right before a flush by size
			put(false, 0, 10)
			put(true, 0, 0)
			put(false, 0, int(c.Settings.MaxBuf))
		case 6: // right before a flush by time
			put(false, 0, 10)
			put(true, 0, 0)
			put(false, c.Settings.MaxWait, 10)
		case 7: // bad record with a time that would trigger the time flush
			put(false, 0, 10)
			put(true, c.Settings.MaxWait+5, 0)
			put(false, 0, 10)
		}
		if r.Chance(60) {
			drain() // … and the idle timeout after it
		}
	}
	if r.Chance(50) {
		put(false, 0, 10)
		put(true, 0, 0)
	}
	c.Ops = append(c.Ops, Op{K: "stop"})
	return c
}

// genBurst: producers outrun the consumer by more than the queue holds — k > capacity records are
// added before any loop iteration (several rounds), then everything is consumed.
func genBurst(r *vh.Rng, c *Case) *Case {
	c.Settings.QueueCap = r.Pick64([]int64{1, 2, 5, 1, 2, 5, 3})
	if r.Chance(4) {
		c.Settings.QueueCap = 1000
	}
	if c.Settings.QueueCap == 1000 {
		// the default capacity with a stalled consumer: keep the records small
		c.Settings.MaxBuf = r.Pick64([]int64{4096, 65536})
	}
	g := newRecGen(r, c.Settings)
	capacity := int(c.Settings.QueueCap)
	rounds := 1 + r.Intn(3)
	if capacity == 1000 {
		rounds = 1
	}
	for round := 0; round < rounds; round++ {
		k := capacity + 1 + r.Intn(capacity/2+4)
		for i := 0; i < k; i++ {
			s := g.next()
			g.decorate(&s, []string{"niltags", "nilpack", "wrongtype"}, false)
			if capacity == 1000 && s.N > 40 {
				s.N = s.N % 40
			}
			c.Ops = append(c.Ops, Op{K: "add", R: &s})
		}
		// consume some or all of what was accepted
		steps := capacity + 1
		if r.Chance(40) {
			steps = 1 + r.Intn(capacity)
		}
		for i := 0; i < steps; i++ {
			c.Ops = append(c.Ops, Op{K: "step"})
		}
		if r.Chance(15) {
			c.Ops = append(c.Ops, Op{K: "config", C: &ConfSpec{QueueSize: optVal(r, []int64{1, 2, 5, 0})}})
			if q := c.Ops[len(c.Ops)-1].C.QueueSize; q != nil && *q > 0 {
				capacity = int(*q)
			} else if q != nil {
				capacity = 8 // unbounded from here on: just keep adding a few
			}
		}
	}
	if r.Chance(60) {
		c.Ops = append(c.Ops, Op{K: "stop"})
	}
	return c
}

// ---------------------------------------------------------------- free-running cases

type FreeItem struct {
	R       RecSpec `json:"r"`
	DelayUs int     `json:"delay_us"` // pause of the producer after handing the record over
}

type Free struct {
	Producers [][]FreeItem `json:"producers"`
	Direct    [][]RecSpec  `json:"direct"`
	StopEarly bool         `json:"stop_early"` // cancel right after the producers finished (records may still be queued)
	Conf      *ConfSpec    `json:"conf,omitempty"`
	// Accept: how the harness learns which records the bounded queue accepted
	//   "failed"  it installs RequestQueue.Failed (the sender itself never does)
	//   "put"     producers call sender.Queue.Put (what Add does) and keep the result; no callback
	//   "stalled" all records are added, one after the other, before the background goroutine
	//             is started: exactly the first `capacity` ones are accepted; no callback
	Accept string `json:"accept"`
	// DirectCallers: number of goroutines calling SendDirect concurrently (batches dealt round-robin)
	DirectCallers int `json:"direct_callers,omitempty"`
	// ReloadStorm: a goroutine keeps calling ApplyConfig (with the settings in force) while the producers run
	ReloadStorm bool `json:"reload_storm,omitempty"`
	SlowUs      int  `json:"slow_us,omitempty"` // time the client takes per pack (a consumer slower than the producers)
}

func genFree(r *vh.Rng, thorough bool) *Case {
	// boundary values of every setting are exercised against the real goroutine too: a waiting time of
	// 0, 1 or negative (GetTimeout must still poll once), buffer / zip-min / queue size 0, 1, negative
	st := Settings{MaxWait: r.Pick64([]int64{3, 10, 25, 3, 10, 0, 1, -5}), QueueCap: r.Pick64([]int64{0, 1000, 1000, 3, 1, 2, 5, -1}),
		MaxBuf: r.Pick64([]int64{1, 60, 100, 257, 1000, 4096, 65536, 0, -1}), ZipMin: r.Pick64([]int64{0, 40, 100, 300, 1 << 30, 1, -1})}
	c := &Case{Kind: "free", Settings: st, Client: r.PickStr([]string{"consume", "retain"}), Fault: genFault(r)}
	f := &Free{StopEarly: r.Chance(50), Accept: r.PickStr([]string{"failed", "put", "put", "stalled"})}
	// producers much faster than the sender: bursts without pauses against a slow client
	fast := r.Chance(45)
	if fast {
		f.SlowUs = r.PickInt([]int{100, 500, 2000})
		if st.QueueCap == 0 || r.Chance(50) {
			st.QueueCap = r.Pick64([]int64{1, 2, 5, 3})
		}
		st.MaxBuf = r.Pick64([]int64{1, 60, 100})
		c.Settings = st
	}
	np := 1 + r.Intn(3)
	per := 5 + r.Intn(40)
	if thorough {
		per = 10 + r.Intn(150)
	}
	if f.Accept == "stalled" {
		switch {
		case st.QueueCap == 1000 && r.Chance(25):
			per = (1000+1+r.Intn(30))/np + 1 // the default capacity, overrun by a stalled consumer
		case st.QueueCap == 0 || st.QueueCap == 1000:
			st.QueueCap = r.Pick64([]int64{1, 2, 5})
			c.Settings = st
		}
	}
	g := newRecGen(r, st)
	f.Producers = make([][]FreeItem, np)
	for i := 0; i < per*np; i++ {
		it := FreeItem{R: g.next()}
		g.decorate(&it.R, []string{"niltags"}, false)
		if per > 200 && it.R.N > 40 {
			it.R.N %= 40
		}
		switch {
		case fast || r.Chance(70):
		case r.Chance(50):
			it.DelayUs = r.Intn(300)
		case r.Chance(60):
			it.DelayUs = 500 + r.Intn(2000)
		default:
			it.DelayUs = int(st.MaxWait)*1000 + 3000 // long enough for an idle flush
		}
		k := r.Intn(np)
		f.Producers[k] = append(f.Producers[k], it)
	}
	if f.Accept != "stalled" && r.Chance(30) {
		f.ReloadStorm = true
	}
	nd := r.Intn(4)
	if r.Chance(35) {
		// several SendDirect callers at once, enough batches for them to overlap, payloads that compress
		f.DirectCallers = 2 + r.Intn(3)
		nd = 4 + r.Intn(8)
	}
	for i := 0; i < nd; i++ {
		var b []RecSpec
		m := r.Intn(8)
		if f.DirectCallers > 1 {
			m = 1 + r.Intn(8)
		}
		for j := 0; j < m; j++ {
			b = append(b, g.next())
		}
		f.Direct = append(f.Direct, b)
	}
	c.Free = f
	return c
}

// addClientSwitches inserts SetTcpClient calls at arbitrary positions of a deterministic history
// (clients 0..2; 0 is the one given at construction): before the first record, in the middle of a batch
// under construction, between the records queued and the step that dequeues them, right before the stop.
func addClientSwitches(r *vh.Rng, c *Case) *Case {
	if c.Kind != "det" || !r.Chance(18) {
		return c
	}
	n := 1 + r.Intn(3)
	for i := 0; i < n; i++ {
		at := r.Intn(len(c.Ops) + 1)
		if r.Chance(20) {
			at = 0
		}
		ops := append([]Op{}, c.Ops[:at]...)
		ops = append(ops, Op{K: "client", N: r.Intn(3)})
		c.Ops = append(ops, c.Ops[at:]...)
	}
	return c
}
