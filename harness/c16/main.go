// Correspondence harness for C16: logsink/zip.ZipSendProxyThread against the Lean CodeModel
// Golib.ZipSender.Model (driver drv_c16).
//
//	A  GetInstance: the settings a fresh singleton gets (defaults in force)
//	B  fixed witnesses of the candidate defects (retained pack overwritten, queue not drained on stop)
//	C  deterministic random histories on NewForVerif senders, stepped with StepForVerif /
//	   RunForVerif, both client behaviours (consume at hand-over / retain and re-inspect)
//	D  free-running histories: the real background goroutine, concurrent producers and a
//	   concurrent SendDirect caller (built with -race in the thorough tier)
//
// Every history is (1) evaluated against the property directly on the implementation
// (each record exactly once and in order, counts, payload decodes with the real
// pack/compressutil code to exactly those records, compressed iff at the threshold, flush
// conditions, retained packs unchanged, configuration applied) and (2) compared with the
// model: pack sequence (site, count, compressed flag, payload length and hash, record ids)
// and final state.
//
// Beyond the hand-over (fourth round): every handed-over pack is transmitted with the real pack.WritePack,
// read with pack.ReadPack, decompressed when flagged and opened with ZipPack.GetRecords (checkWire); a few
// small packs per case are put to the model's wire functions (`W` / `U` driver lines); deterministic
// histories contain SetTcpClient calls (op `client`; pack lines end in @<client>); the getinstance case
// also covers WithConfigObserver / WithLogger and the LogSinkPack helper methods.
package main

import (
	"bytes"
	"context"
	"encoding/json"
	"fmt"
	"os"
	"strconv"
	"strings"
	"sync"
	"sync/atomic"
	"time"

	"github.com/whatap/golib/config"
	"github.com/whatap/golib/lang/pack"
	"github.com/whatap/golib/logger"
	"github.com/whatap/golib/logsink/zip"
	"github.com/whatap/golib/util/hash"
	"verif/harness/vh"
)

type job struct {
	c   *Case
	res *caseResult // nil: the case could not be run (worker crashed or hung on it)
}

func ptr(v int64) *int64 { return &v }

func witnesses() []*Case {
	def := Settings{5000, 1000, 65536, 100}
	r := func(id int, t int64, n int) *RecSpec { return &RecSpec{ID: id, Time: t, N: n} }
	var out []*Case
	// D32: an uncompressed pack is retained, the next record overwrites it
	out = append(out, &Case{Kind: "det", Settings: def, Client: "retain", Ops: []Op{
		{K: "add", R: r(1, t0, 4)}, {K: "step"}, {K: "step"}, {K: "add", R: r(2, t0+1, 4)}, {K: "step"}}})
	// D32 at the SendDirect site: the first pack is overwritten by the records that follow in the same call
	out = append(out, &Case{Kind: "det", Settings: Settings{5000, 1000, 30, 1 << 30}, Client: "retain", Ops: []Op{
		{K: "direct", Rs: []RecSpec{*r(1, t0, 10), *r(2, t0, 10), *r(3, t0, 10)}}}})
	// D33: two records queued, one consumed, stop
	out = append(out, &Case{Kind: "det", Settings: def, Client: "consume", Ops: []Op{
		{K: "add", R: r(1, t0, 1)}, {K: "add", R: r(2, t0+1, 1)}, {K: "step"}, {K: "stop"}}})
	// boundaries of every flush condition with the defaults
	big := withEncLen(RecSpec{ID: 1, Time: t0}, 65536)
	out = append(out, &Case{Kind: "det", Settings: def, Client: "retain", Ops: []Op{
		{K: "append", R: &big}, {K: "append", R: r(2, t0, 50)}, {K: "append", R: r(3, t0+4999, 50)}, {K: "append", R: r(4, t0+5000, 50)},
		{K: "config", C: &ConfSpec{MaxWait: ptr(10), ZipMin: ptr(0)}}, {K: "append", R: r(5, t0+6000, 0)}, {K: "append", R: r(6, t0+6010, 0)}}})
	// payloads beyond 1 MiB, compressed: a single record of ~1.5 MiB and one of ~5 MiB (compressible
	// content) through Append and through SendDirect, and a buffer limit of 3 MiB filled by 200 KiB records;
	// every pack is decompressed and decoded with the real compressutil / pack code
	mib := 1 << 20
	out = append(out, &Case{Kind: "det", Settings: def, Client: "consume", Ops: []Op{
		{K: "append", R: r(1, t0, 3*mib/2)}, {K: "append", R: r(2, t0+1, 10)}, {K: "append", R: r(3, t0+2, 5*mib)}, {K: "step"}}})
	out = append(out, &Case{Kind: "det", Settings: def, Client: "retain", Ops: []Op{
		{K: "direct", Rs: []RecSpec{*r(1, t0, 20), *r(2, t0, 3*mib/2+7), *r(3, t0, 30)}}, {K: "add", R: r(4, t0, 2*mib)}, {K: "step"}, {K: "stop"}}})
	{
		c := &Case{Kind: "det", Settings: Settings{5000, 1000, int64(3 * mib), 100}, Client: "consume"}
		for i := 1; i <= 17; i++ {
			c.Ops = append(c.Ops, Op{K: "add", R: r(i, t0+int64(i), 200*1024)}, Op{K: "step"})
		}
		c.Ops = append(c.Ops, Op{K: "stop"})
		out = append(out, c)
	}
	// a full queue refuses the newcomer and keeps what it accepted: capacity 1, 2, 5 and the
	// default 1000, overrun by k > capacity records before the consumer takes anything
	// (no Failed callback: that is how the sender builds its queue)
	for _, capacity := range []int{1, 2, 5, 1000} {
		c := &Case{Kind: "det", Settings: Settings{5000, int64(capacity), 65536, 100}, Client: "consume"}
		for i := 1; i <= capacity+4; i++ {
			c.Ops = append(c.Ops, Op{K: "add", R: r(i, t0+int64(i), i%7)})
		}
		for i := 0; i < capacity+1; i++ {
			c.Ops = append(c.Ops, Op{K: "step"})
		}
		c.Ops = append(c.Ops, Op{K: "add", R: r(capacity+5, t0+int64(capacity)+5, 3)}, Op{K: "stop"})
		out = append(out, c)
	}
	return out
}

func main() {
	tStart := time.Now()
	// child modes (internal): `-child d69` the race scenario; `-child worker <in> <out> <par>` runs a
	// chunk of cases in this process and streams the results to <out>
	for i, a := range os.Args[1:] {
		if a == "-child" || a == "--child" {
			rest := os.Args[i+2:]
			if len(rest) >= 4 && rest[0] == "worker" {
				par, _ := strconv.Atoi(rest[3])
				workerMain(rest[1], rest[2], par)
				return
			}
			raceChild()
			return
		}
	}
	env, rep := vh.Parse("C16")
	rng := vh.NewRng(env.Seed)
	rep.Rule = "a case is one history of sender operations (add/step/stop/append/sendDirect/applyConfig) with its settings and client behaviour; " +
		"it is non-trivial when at least one pack was handed to the client; distinct = distinct canonical histories (ops, record sizes and times, settings)"

	// ---------------------------------------------------------------- replay mode
	var cases []*Case
	if env.Replay != "" {
		b, err := os.ReadFile(env.Replay)
		if err != nil {
			vh.Die("cannot read replay %s: %v", env.Replay, err)
		}
		var rf struct {
			Cases []json.RawMessage `json:"cases"`
		}
		if err := json.Unmarshal(b, &rf); err != nil {
			vh.Die("bad replay file: %v", err)
		}
		for _, raw := range rf.Cases {
			var w struct {
				Case *Case `json:"case"`
			}
			if json.Unmarshal(raw, &w) == nil && w.Case != nil {
				cases = append(cases, w.Case)
			}
		}
		rep.Note("replay of %d case(s) from %s", len(cases), env.Replay)
	}

	// ---------------------------------------------------------------- A: GetInstance
	if env.Replay == "" {
		cases = append(cases, &Case{Kind: "getinstance", Client: "consume"})
	}
	// ---------------------------------------------------------------- A': settings vs the Go memory model (D69)
	if env.Replay == "" || hasKind(cases, "race") {
		checkSettingsRace(env, rep)
	}

	// ---------------------------------------------------------------- case lists
	nDet, nFree := 7000, 140
	if env.Thorough {
		nDet, nFree = 10000, 500
	}
	if v, err := strconv.Atoi(os.Getenv("C16_NDET")); err == nil { // experiments only
		nDet = v
	}
	if v, err := strconv.Atoi(os.Getenv("C16_NFREE")); err == nil {
		nFree = v
	}
	if env.Replay == "" {
		cases = append(cases, witnesses()...)
		for i := 0; i < nDet; i++ {
			cr := rng.Fork()
			cases = append(cases, addClientSwitches(cr, genCase(cr, env.Thorough)))
		}
		for i := 0; i < nFree; i++ {
			cases = append(cases, genFree(rng.Fork(), env.Thorough))
		}
		cases = append(cases, reconfCases(rng.Fork(), env.Thorough)...)
		nStorm := 250
		if env.Thorough {
			nStorm = 1200
		}
		for i := 0; i < nStorm; i++ {
			cases = append(cases, genStorm(rng.Fork()))
		}
	} else {
		// a replayed free-running case is repeated: schedules differ from run to run
		var more []*Case
		for _, c := range cases {
			if c.Kind == "free" {
				for i := 0; i < 20; i++ {
					more = append(more, c)
				}
			}
		}
		cases = append(cases, more...)
	}

	// ---------------------------------------------------------------- run on the implementation
	// in worker processes with deadlines: a crash or a hang of the implementation (a panic in one of its
	// own goroutines cannot be recovered in-process) costs one worker, is reported as a failure of the
	// property with the scenario as replay, and the remaining cases still run
	jobs := make([]*job, 0, len(cases))
	for _, c := range cases {
		switch c.Kind {
		case "det", "free", "reconf", "getinstance", "stopstorm":
			jobs = append(jobs, &job{c: c})
		}
	}
	runInWorkers(env, rep, jobs)
	rep.Note("implementation phase done at %.1fs", time.Since(tStart).Seconds())

	// ---------------------------------------------------------------- model
	var lines []string
	var idx []int
	for i, j := range jobs {
		if j.res != nil && j.res.Line != "" {
			lines = append(lines, j.res.Line)
			idx = append(idx, i)
		}
	}
	if os.Getenv("C16_DUMP") != "" {
		os.WriteFile(os.Getenv("C16_DUMP"), []byte(strings.Join(lines, "\n")+"\n"), 0o644)
	}
	// wire-format probes (ZipPack.Write / Read against Golib.ZipSender.Wire): appended to the same batch
	type probeRef struct{ job, k int }
	var prefs []probeRef
	nMain := len(lines)
	for i, j := range jobs {
		if j.res == nil {
			continue
		}
		for k, p := range j.res.Probes {
			lines = append(lines, p.Line)
			prefs = append(prefs, probeRef{i, k})
		}
	}
	outs, err := runDriverParallel(env.Driver, lines, 6)
	if err != nil {
		// the verdict on the implementation does not depend on the model: keep what was evaluated
		rep.Fail("correspondence", "model:driver-failed", "the model driver could not be run: "+vh.Clip(err.Error(), 300), map[string]interface{}{"case": &Case{Kind: "driver"}})
		outs = make([]string, len(lines))
		idx = nil
	}
	rep.Note("driver phase done at %.1fs", time.Since(tStart).Seconds())
	if err == nil {
		nDiff := 0
		for k, pr := range prefs {
			p := jobs[pr.job].res.Probes[pr.k]
			rep.Count("wire-probe:" + p.Line[:1])
			if got := outs[nMain+k]; got != p.Want && nDiff < 5 {
				nDiff++
				what := "pack.WritePack of a ZipPack"
				if p.Line[0] == 'U' {
					what = "pack.ReadPack of a transmitted ZipPack"
				}
				rep.Fail("correspondence", "model:wire-differs", what+": implementation "+vh.Clip(p.Want, 200)+"; model "+vh.Clip(got, 200)+" (request "+vh.Clip(p.Line, 200)+")",
					map[string]interface{}{"case": jobs[pr.job].c, "probe": p, "model": got})
			}
		}
		outs = outs[:nMain]
	}
	model := map[int]string{}
	for k, i := range idx {
		model[i] = outs[k]
	}

	// ---------------------------------------------------------------- compare and report
	for i, j := range jobs {
		c := j.c
		if j.res == nil {
			continue // reported by runInWorkers
		}
		if j.res.Skip != "" {
			rep.Count("skipped:hang-established:" + j.res.Skip)
			continue
		}
		finds, implPacks, implState, nPack := j.res.Finds, j.res.Packs, j.res.State, j.res.NPack
		rep.CountN("free:queue-drops", j.res.Drops)
		if j.res.Incon {
			rep.Count("reconf:upper-time-bound-not-judged-under-load")
		}
		rep.Case(c.canon(), nPack > 0)
		distribution(rep, c, implPacks)
		if i%397 == 0 {
			rep.Sample(map[string]interface{}{"case": c.canon(), "packs": implPacks, "state": implState})
		}
		isProp := false
		for _, f := range finds {
			if f.Kind == "property" {
				isProp = true
			}
		}
		replay := map[string]interface{}{"case": c, "implementation": map[string]interface{}{"packs": implPacks, "state": implState}, "model": model[i]}
		for _, f := range finds {
			if f.Kind == "property" || !isProp {
				rep.Fail(f.Kind, f.Key, f.Summary, replay)
			}
		}
		m, ok := model[i]
		if !ok {
			continue
		}
		if c.Kind == "getinstance" {
			if m != implState && !isProp {
				rep.Fail("correspondence", "model:resolve-differs", "GetInstance settings "+implState+", model "+m, replay)
			}
			continue
		}
		parts := strings.SplitN(m, " | ", 2)
		if len(parts) != 2 {
			rep.Fail("correspondence", "model:bad-answer", "driver answered "+vh.Clip(m, 200), replay)
			continue
		}
		want := parts[0]
		gotPacks := "-"
		if len(implPacks) > 0 {
			gotPacks = strings.Join(implPacks, ";")
		}
		if want != gotPacks && !isProp {
			rep.Fail("correspondence", "model:packs-differ",
				fmt.Sprintf("the property holds on this history, but the packs differ from the model's: implementation %s; model %s", vh.Clip(gotPacks, 400), vh.Clip(want, 400)), replay)
		}
		if (c.Kind == "free" || c.Kind == "reconf" || c.Kind == "stopstorm") && !strings.HasSuffix(parts[1], "pc=exited cancelled=1") && !isProp {
			rep.Fail("correspondence", "model:loop-not-exited", "the loop machine did not exit on the reconstructed schedule: "+vh.Clip(parts[1], 300), replay)
		}
		if c.Kind == "det" && parts[1] != implState && !isProp {
			rep.Fail("correspondence", "model:state-differs",
				fmt.Sprintf("the property holds on this history, but the final state differs from the model's: implementation %s; model %s", vh.Clip(implState, 300), vh.Clip(parts[1], 300)), replay)
		}
	}
	rep.Write(env.Out)
}

func hasKind(cs []*Case, k string) bool {
	for _, c := range cs {
		if c.Kind == k {
			return true
		}
	}
	return false
}

func distribution(rep *vh.Report, c *Case, packs []string) {
	rep.Count("kind:" + c.Kind)
	rep.Count("client:" + c.Client)
	for _, o := range c.Ops {
		rep.Count("op:" + o.K)
	}
	for _, s := range c.allSpecs() {
		switch {
		case s.N == 0:
			rep.Count("content:0")
		case s.N < 100:
			rep.Count("content:<100")
		case s.N < 5000:
			rep.Count("content:<5000")
		default:
			rep.Count("content:>=5000")
		}
		if s.Time == 0 {
			rep.Count("time:0")
		}
		if s.Bad != "" {
			rep.Count("rec:unserialisable:" + s.Bad)
		}
		if s.TagHash != 0 {
			rep.Count("rec:caller-tag-hash")
		}
		if s.ReuseOf != 0 {
			rep.Count("rec:recycled-object-requested")
		}
	}
	rep.Count(fmt.Sprintf("maxBuf:%d", c.Settings.MaxBuf))
	rep.Count(fmt.Sprintf("zipMin:%d", c.Settings.ZipMin))
	rep.Count(fmt.Sprintf("maxWait:%d", c.Settings.MaxWait))
	rep.Count(fmt.Sprintf("queue:%d", c.Settings.QueueCap))
	for _, p := range packs {
		f := strings.Split(p, ":")
		if len(f) >= 3 {
			rep.Count("pack:" + f[0] + ":zipped=" + f[2])
			if f[1] == "1" {
				rep.Count("pack:single-record")
			} else {
				rep.Count("pack:multi-record")
			}
		}
	}
}

// runGetInstance: the settings of a sender created through the real singleton constructor, and the
// singleton in queue mode with the goroutine it starts itself.
func runGetInstance(c *Case) *caseResult {
	res := &caseResult{Line: "R fixed 0,0,0,0"}
	e := newEvalCtx([]RecSpec{{ID: 1, Time: t0, N: 5}, {ID: 2, Time: t0 + 1, N: 0}, {ID: 3, Time: t0 + 2, N: 40}, {ID: 4, Time: t0 + 3, N: 7, Tags: 2}})
	defer func() { res.Finds = e.finds }()
	cl := &recClient{mode: "consume"}
	var got Settings
	singleton.Lock()
	zip.ResetForVerif()
	o := vh.Guard(func() {
		g := zip.GetInstance(zip.WithTcpClient(cl))
		got = fromVS(g.SettingsForVerif())
	})
	zip.ResetForVerif()
	singleton.Unlock()
	res.State = got.String()
	res.NPack = 1
	if !o.OK() {
		e.prop("GetInstance:panic", "GetInstance panicked: %s", vh.Clip(o.Panic, 200))
		return res
	}
	want := Settings{5000, 1000, 65536, 100}
	if got != want {
		e.prop("GetInstance:defaults-overwritten",
			"a sender created without size/time options has maxWait=%d ms, queue=%d, maxBuffer=%d bytes, zipMin=%d bytes in force; the built-in defaults are 5000 ms, 1000, 65536 bytes, 100 bytes",
			got.MaxWait, got.QueueCap, got.MaxBuf, got.ZipMin)
		return res // the behaviour below depends on the settings being the defaults
	}

	// the singleton in queue mode, with the goroutine GetInstance starts itself: three records are
	// queued, the context is cancelled; exactly one batch with the three records must arrive
	cl2 := &recClient{mode: "retain"}
	ctx, cancel := context.WithCancel(context.Background())
	var snd *zip.ZipSendProxyThread
	singleton.Lock()
	zip.ResetForVerif()
	o = vh.Guard(func() {
		snd = zip.GetInstance(zip.WithUseQueue(), zip.WithContext(ctx, cancel), zip.WithTcpClient(cl2))
		for id := 1; id <= 3; id++ {
			snd.Add(e.recs[id].P)
		}
		cancel()
	})
	zip.ResetForVerif()
	singleton.Unlock()
	if !o.OK() {
		e.prop("GetInstance:panic", "queue-mode singleton panicked: %s", vh.Clip(o.Panic, 200))
		return res
	}
	handed := func() int {
		cl2.mu.Lock()
		defer cl2.mu.Unlock()
		n := 0
		for _, h := range cl2.got {
			n += h.Count
		}
		return n
	}
	deadline := time.Now().Add(watchdog)
	for handed() < 3 && time.Now().Before(deadline) {
		time.Sleep(5 * time.Millisecond)
	}
	time.Sleep(20 * time.Millisecond)
	cl2.mu.Lock()
	got2 := cl2.got
	cl2.mu.Unlock()
	var ids []int
	for k, h := range got2 {
		x, _ := e.checkPack(h, "sendAndClear", want.ZipMin, k)
		ids = append(ids, x...)
	}
	if !eqInts(ids, []int{1, 2, 3}) {
		e.prop("stop:queued-records-lost", "GetInstance in queue mode (WithUseQueue, WithContext): records 1,2,3 queued, context cancelled: emitted %s within %v", idsStr(ids), watchdog)
	} else if len(got2) != 1 {
		e.corr("model:packs-differ", "GetInstance in queue mode: the three records arrived in %d packs, the model batches them into one", len(got2))
	}

	// the singleton with a configuration observer and a logger (WithConfigObserver, WithLogger): GetInstance
	// registers the sender with the observer, and the observer's Run(conf) is how a reload reaches
	// ApplyConfig in production; a transmission error is logged and changes nothing else
	cl3 := &recClient{mode: "consume", fault: "all"}
	obs := config.NewConfigObserver()
	lg := &countLogger{}
	var snd3 *zip.ZipSendProxyThread
	conf := &ConfSpec{MaxBuf: ptr(1), ZipMin: ptr(1 << 30)}
	singleton.Lock()
	zip.ResetForVerif()
	o = vh.Guard(func() {
		snd3 = zip.GetInstance(zip.WithTcpClient(cl3), zip.WithConfigObserver(obs), zip.WithLogger(lg))
		obs.Run(conf.toConf())
	})
	zip.ResetForVerif()
	singleton.Unlock()
	if !o.OK() {
		e.prop("GetInstance:panic", "GetInstance(WithConfigObserver, WithLogger) / ConfigObserver.Run panicked: %s", vh.Clip(o.Panic, 200))
		return res
	}
	want3 := applyConf(want, conf)
	if got3 := fromVS(snd3.SettingsForVerif()); got3 != want3 {
		e.prop("ApplyConfig:settings-not-in-force", "GetInstance(WithConfigObserver(obs)); obs.Run(max_buffer_size=1, logsink_zip_min_size=2^30): the settings in force must be %s, the sender runs with %s", want3.String(), got3.String())
		return res
	}
	o = vh.Guard(func() { snd3.Append(e.recs[4].P) })
	cnt3, len3, _ := snd3.BufferedForVerif()
	if !o.OK() || cl3.n() != 1 || cnt3 != 0 || len3 != 0 {
		e.prop("Append:flush-missed", "buffer limit 1 byte put in force through ConfigObserver.Run: one record appended, %d packs handed over, %d records / %d bytes stay buffered %s", cl3.n(), cnt3, len3, vh.Clip(o.Panic, 120))
	} else {
		cl3.mu.Lock()
		h3 := cl3.got[0]
		cl3.mu.Unlock()
		if ids3, _ := e.checkPack(h3, "sendAndClear", want3.ZipMin, 0); !eqInts(ids3, []int{4}) {
			e.prop("emit:not-exactly-once-in-order", "GetInstance(WithConfigObserver): record 4 appended, emitted %s", idsStr(ids3))
		}
		if n := lg.errs.Load(); n != 1 {
			e.corr("WithLogger:transmission-error-not-logged", "the client answered the hand-over with an error: the logger given with WithLogger received %d Errorf calls (1 expected)", n)
		}
	}
	checkRecordAPI(e)
	return res
}

// checkRecordAPI exercises the helper methods of LogSinkPack that a caller uses to prepare a record
// before handing it to the sender (they are not used by the sender itself; implementation only).
func checkRecordAPI(e *evalCtx) {
	for _, s := range []RecSpec{{ID: 11, Time: t0, N: 0}, {ID: 12, Time: t0, N: 9, Tags: 3}, {ID: 13, Time: t0, N: 300, Tags: 1, TagHash: 7}, {ID: 15, Time: t0, N: 70000, LongTag: 300, Line0: true}} {
		p := s.Build()
		w := s.want()
		bad := func(m, f string, a ...interface{}) {
			e.corr("LogSinkPack."+m+":differs", "record %s: "+f, append([]interface{}{s.flags() + "#" + strconv.Itoa(s.ID)}, a...)...)
		}
		o := vh.Guard(func() {
			tb := refTagBytes(w.Tags)
			if got := p.GetTabAsBytes(); !bytes.Equal(got, tb) {
				bad("GetTabAsBytes", "%d bytes, the tag table serialises to %d bytes", len(got), len(tb))
			}
			if p.GetPackType() != 0x170a || pack.NewZipPack().GetPackType() != 0x170b {
				bad("GetPackType", "LogSinkPack %#x, ZipPack %#x (0x170a, 0x170b expected)", p.GetPackType(), pack.NewZipPack().GetPackType())
			}
			if p.GetContent() != w.Content {
				bad("GetContent", "returns %d bytes, Content has %d", len(p.GetContent()), len(w.Content))
			}
			q := pack.NewLogSinkPack()
			q.SetContentBytes(p.GetContentBytes())
			if q.Content != w.Content || q.Line != w.Line {
				bad("SetContentBytes", "GetContentBytes then SetContentBytes: content %d -> %d bytes, line %d -> %d", len(w.Content), len(q.Content), w.Line, q.Line)
			}
			q.SetContent("x" + w.Content)
			if q.Content != "x"+w.Content {
				bad("SetContent", "content not replaced")
			}
			if _ = p.ToString(); pack.NewZipPack().ToString() == "" {
				bad("ToString", "empty description")
			}
			if got := p.ResetTagHash(); !bytes.Equal(got, tb) || p.TagHash != hash.Hash64(tb) {
				bad("ResetTagHash", "returns %d bytes (tag table: %d), TagHash %d (hash of the tag bytes: %d)", len(got), len(tb), p.TagHash, hash.Hash64(tb))
			}
			// TransferOidToTag: non-zero Oid / Okind / Onode become tags (unless present), TagHash is forgotten
			t := s.Build()
			t.Oid, t.Okind, t.Onode, t.TagHash = 5, 0, 9, 77
			n0 := t.Tags.Size()
			t.TransferOidToTag()
			if !t.Tags.ContainsKey("oid") || t.Tags.GetLong("oid") != 5 || t.Tags.ContainsKey("okind") || t.Tags.GetLong("onode") != 9 || t.Tags.Size() != n0+2 || t.TagHash != 0 {
				bad("TransferOidToTag", "Oid 5, Okind 0, Onode 9, TagHash 77: tags %s, TagHash %d", t.Tags.ToString(), t.TagHash)
			}
			t.TagHash = 78
			t.TransferOidToTag()
			if t.Tags.Size() != n0+2 || t.TagHash != 78 {
				bad("TransferOidToTag", "second call: %d tags (%d expected), TagHash %d (78 expected: nothing to transfer)", t.Tags.Size(), n0+2, t.TagHash)
			}
		})
		if !o.OK() {
			bad("*", "panicked: %s", vh.Clip(o.Panic, 200))
		}
	}
}

// countLogger counts the error reports it receives
type countLogger struct {
	logger.EmptyLogger
	errs atomic.Int64
}

func (l *countLogger) Errorf(format string, args ...interface{}) { l.errs.Add(1) }

// singleton serialises the uses of the process-wide GetInstance / ResetForVerif pair
var singleton sync.Mutex

// runDriverParallel splits the (independent) lines over several driver processes.
func runDriverParallel(driver string, lines []string, k int) ([]string, error) {
	if len(lines) < 4*k {
		return vh.RunDriver(driver, lines)
	}
	outs := make([]string, len(lines))
	errs := make([]error, k)
	var wg sync.WaitGroup
	for c := 0; c < k; c++ {
		wg.Add(1)
		go func(c int) {
			defer wg.Done()
			var mine []string
			var at []int
			for i := c; i < len(lines); i += k {
				mine = append(mine, lines[i])
				at = append(at, i)
			}
			res, err := vh.RunDriver(driver, mine)
			if err != nil {
				errs[c] = err
				return
			}
			for j, i := range at {
				outs[i] = res[j]
			}
		}(c)
	}
	wg.Wait()
	for _, e := range errs {
		if e != nil {
			return nil, e
		}
	}
	return outs, nil
}
