package main

import (
	"bytes"
	"encoding/json"
	"errors"
	"fmt"
	"strconv"
	"strings"
	"sync"
	"time"

	gio "github.com/whatap/golib/io"
	"github.com/whatap/golib/lang/pack"
	"github.com/whatap/golib/logsink/zip"
	wnet "github.com/whatap/golib/net"
	"github.com/whatap/golib/util/compressutil"
	"verif/harness/vh"
)

// ---------------------------------------------------------------- recording client

// Handed is one pack as the client received it.
type Handed struct {
	P      *pack.ZipPack // retained pointer (mode retain: inspected again at the end)
	Snap   []byte        // copy of Records taken at hand-over
	Count  int
	Status byte
	OpIdx  int  // index of the operation during which it was handed over (deterministic mode)
	Direct int  // >=0: index of the SendDirect call it belongs to (free mode: identified by goroutine)
	Failed bool // the client answered this hand-over with an error
	At     time.Time
	Dest   int // which client's SendFlush was called (0: the one given at construction; see altClient)
}

type recClient struct {
	wnet.EmptyTcpClient
	mu      sync.Mutex
	mode    string
	got     []*Handed
	opIdx   int
	zipMin  func() int64 // settings in force, read at hand-over
	zipMins []int64
	slow    time.Duration // transmission time of the client (free-running mode: a slow consumer)
	fault   string        // which hand-overs are answered with an error (see faultAt)
	nFault  int
}

var errInjected = errors.New("injected transmission error")

func (c *recClient) SendFlush(p pack.Pack, flush bool, opts ...wnet.TcpClientOption) error {
	return c.sendFlushAs(0, p)
}

// altClient is another TCP client (number id) installed with SetTcpClient; the clients of one case
// share the recording, so the order of the hand-overs across clients is kept.
type altClient struct {
	wnet.EmptyTcpClient
	main *recClient
	id   int
}

func (a *altClient) SendFlush(p pack.Pack, flush bool, opts ...wnet.TcpClientOption) error {
	return a.main.sendFlushAs(a.id, p)
}
func (a *altClient) Send(p pack.Pack, opts ...wnet.TcpClientOption) error {
	return a.main.sendFlushAs(a.id, p)
}

func (c *recClient) sendFlushAs(dest int, p pack.Pack) error {
	z, ok := p.(*pack.ZipPack)
	if c.slow > 0 {
		defer time.Sleep(c.slow) // runs after the unlock below: the "transmission" follows the hand-over
	}
	c.mu.Lock()
	defer c.mu.Unlock()
	if !ok {
		c.got = append(c.got, &Handed{Count: -1, OpIdx: c.opIdx, Direct: -1, Dest: dest})
		return nil
	}
	h := &Handed{Snap: append([]byte{}, z.Records...), Count: z.RecordCount, Status: z.Status, OpIdx: c.opIdx, Direct: -1, At: time.Now(), Dest: dest}
	if z.Records == nil {
		h.Snap = nil
	}
	if c.mode == "retain" {
		h.P = z
	}
	c.got = append(c.got, h)
	if c.zipMin != nil {
		c.zipMins = append(c.zipMins, c.zipMin())
	}
	// a hand-over is a hand-over whatever the client answers: the pack is recorded first
	if c.fault != "" && faultAt(c.fault, len(c.got)-1) {
		c.nFault++
		h.Failed = true
		return errInjected
	}
	return nil
}

func (c *recClient) Send(p pack.Pack, opts ...wnet.TcpClientOption) error {
	return c.SendFlush(p, false, opts...)
}

func (c *recClient) n() int {
	c.mu.Lock()
	defer c.mu.Unlock()
	return len(c.got)
}

// ---------------------------------------------------------------- a config.Config over a map

type mapConf map[string]int64

func (m mapConf) ApplyDefault()              {}
func (m mapConf) GetConfFile() string        { return "" }
func (m mapConf) Destroy()                   {}
func (m mapConf) GetKeys() []string          { return nil }
func (m mapConf) GetValue(key string) string { return m.GetValueDef(key, "") }
func (m mapConf) GetValueDef(key, def string) string {
	if v, ok := m[key]; ok {
		return strconv.FormatInt(v, 10)
	}
	return def
}
func (m mapConf) GetBoolean(key string, def bool) bool { return def }
func (m mapConf) GetInt(key string, def int) int32 {
	if v, ok := m[key]; ok {
		return int32(v)
	}
	return int32(def)
}
func (m mapConf) GetIntSet(key, def, deli string) []int32 { return nil }
func (m mapConf) GetLong(key string, def int64) int64 {
	if v, ok := m[key]; ok {
		return v
	}
	return def
}
func (m mapConf) GetStringArray(key string, def string, deli string) []string { return nil }
func (m mapConf) GetStringHashSet(key, def, deli string) []int32              { return nil }
func (m mapConf) GetStringHashCodeSet(key, def, deli string) []int32          { return nil }
func (m mapConf) GetFloat(key string, def float32) float32                    { return def }
func (m mapConf) SetValues(v *map[string]string)                              {}
func (m mapConf) ToString() string                                            { return "" }
func (m mapConf) String() string                                              { return "" }

func (c *ConfSpec) toConf() mapConf {
	m := mapConf{}
	if c.QueueSize != nil {
		m["logsink_queue_size"] = *c.QueueSize
	}
	if c.MaxWait != nil {
		m["max_wait_time"] = *c.MaxWait
	}
	if c.MaxBuf != nil {
		m["max_buffer_size"] = *c.MaxBuf
	}
	if c.ZipMin != nil {
		m["logsink_zip_min_size"] = *c.ZipMin
	}
	return m
}

// ---------------------------------------------------------------- decoding a pack with the real code

// Decoded is what the real pack / compressutil code makes of a handed-over pack.
type Decoded struct {
	Raw    []byte              // payload after decompression when flagged
	Recs   []*pack.LogSinkPack // the decoded records
	Err    string              // non-empty: the payload does not decode to RecordCount records exactly
	Zipped bool
	Count  int
}

func decodePack(records []byte, count int, status byte) *Decoded {
	d := &Decoded{Zipped: status == pack.ZIPPED, Count: count}
	raw := records
	if status == pack.ZIPPED {
		var err error
		raw, err = compressutil.UnZip(records)
		if err != nil {
			d.Err = "unzip: " + err.Error()
			return d
		}
	} else if status != 0 {
		d.Err = fmt.Sprintf("status byte %d", status)
		return d
	}
	d.Raw = raw
	if count < 0 {
		d.Err = "negative record count"
		return d
	}
	o := vh.Guard(func() {
		in := gio.NewDataInputX(raw)
		for i := 0; i < count; i++ {
			if in.Available() <= 0 && len(raw) > 0 {
				panic("payload exhausted before record " + strconv.Itoa(i))
			}
			p := pack.ReadPack(in)
			ls, ok := p.(*pack.LogSinkPack)
			if !ok {
				panic(fmt.Sprintf("record %d is not a LogSinkPack", i))
			}
			d.Recs = append(d.Recs, ls)
		}
		if in.Available() != 0 {
			panic(fmt.Sprintf("%d bytes left after %d records", in.Available(), count))
		}
	})
	if !o.OK() {
		d.Err = "decode: " + o.Panic
	}
	return d
}

func hashBytes(bs []byte) uint32 {
	h := uint32(7)
	for _, b := range bs {
		h = h*31 + uint32(b) + 1
	}
	return h
}

// ---------------------------------------------------------------- property evaluation shared by both modes

type finding struct {
	Kind    string `json:"kind"`
	Key     string `json:"key"`
	Summary string `json:"summary"`
}

type evalCtx struct {
	recs   map[int]*Rec
	byPtr  map[*pack.LogSinkPack]int
	finds  []finding
	isProp bool
	probes []probe // wire-format questions for the model (Golib.ZipSender.Wire), a few per case
}

// probe: one request line for the model driver and the answer the implementation gave
type probe struct {
	Line string `json:"line"`
	Want string `json:"want"`
}

func newEvalCtx(specs []RecSpec) *evalCtx {
	e := &evalCtx{recs: map[int]*Rec{}, byPtr: map[*pack.LogSinkPack]int{}}
	for _, s := range specs {
		r := NewRec(s)
		e.recs[s.ID] = r
		if r.P != nil {
			e.byPtr[r.P] = s.ID
		}
	}
	return e
}

// applyConf: what ApplyConfig must do to the settings (values travel as int32)
func applyConf(s Settings, c *ConfSpec) Settings {
	get := func(p *int64, def int64) int64 {
		if p == nil {
			return def
		}
		return int64(int32(*p))
	}
	return Settings{MaxWait: get(c.MaxWait, 2000), QueueCap: get(c.QueueSize, 1000), MaxBuf: get(c.MaxBuf, 65536), ZipMin: get(c.ZipMin, 100)}
}

func (e *evalCtx) goodOf(ids []int) []int {
	var out []int
	for _, id := range ids {
		if !e.recs[id].Bad {
			out = append(out, id)
		}
	}
	return out
}

// handIn returns the record as it is handed to the sender now.  With ReuseOf the caller recycles the
// pack object of an earlier record that the sender has already serialised: every field is overwritten
// but TagHash keeps whatever the earlier serialisation left in it (the computed hash, or the caller's).
// The unchanged code then writes that stale hash followed by the NEW tags — which is what the record
// must decode back to.
func (e *evalCtx) handIn(id int, serialised map[int]bool) *Rec {
	r := e.recs[id]
	if r.Spec.ReuseOf == 0 || r.Bad || r.recycled {
		return r
	}
	old, ok := e.recs[r.Spec.ReuseOf]
	if !ok || old.P == nil || old.Bad || !serialised[r.Spec.ReuseOf] || old.taken {
		return r
	}
	old.taken = true
	r.recycled = true
	obj := old.P
	stale := obj.TagHash
	r.Spec.fill(obj)
	obj.TagHash = stale
	delete(e.byPtr, r.P)
	r.P = obj
	e.byPtr[obj] = id
	r.Want.TagHash = carriedHash(stale, r.Want.Tags)
	r.Enc = refEncode(r.Want)
	return r
}

func (e *evalCtx) prop(key, f string, a ...interface{}) {
	e.finds = append(e.finds, finding{"property", key, fmt.Sprintf(f, a...)})
	e.isProp = true
}
func (e *evalCtx) corr(key, f string, a ...interface{}) {
	e.finds = append(e.finds, finding{"correspondence", key, fmt.Sprintf(f, a...)})
}

// checkPack evaluates the per-pack clauses of the property on one handed-over pack and
// returns the ids of the records it decodes to (nil when undecodable).
//
//	site: "sendAndClear" | "SendDirect";  zipMin: threshold in force when it was built
func (e *evalCtx) checkPack(h *Handed, site string, zipMin int64, idx int) ([]int, *Decoded) {
	if h.Count == -1 && h.Snap == nil && h.P == nil {
		e.prop(site+":not-a-zip-pack", "pack #%d handed to the client is not a *pack.ZipPack", idx)
		return nil, nil
	}
	records := h.Snap
	if h.P != nil {
		// the client kept the pack: what it would transmit now
		if !bytes.Equal(h.P.Records, h.Snap) || h.P.RecordCount != h.Count || h.P.Status != h.Status {
			e.prop(site+":alias-overwritten", "pack #%d (count %d, status %d, %d bytes) changed after it was handed over: at hand-over %s, at the end %s",
				idx, h.Count, h.Status, len(h.Snap), vh.Clip(vh.Hex(h.Snap), 80), vh.Clip(vh.Hex(h.P.Records), 80))
		}
	}
	d := decodePack(records, h.Count, h.Status)
	if d.Err != "" {
		e.prop(site+":undecodable", "pack #%d (count %d, status %d, %d bytes): %s", idx, h.Count, h.Status, len(records), d.Err)
		return nil, d
	}
	// every decoded record is one of the records handed in (identified by its Oid, unique per id) and
	// carries exactly the fields it was handed in with — compared field by field, tags in full,
	// against values computed from the spec alone
	var ids []int
	for i, ls := range d.Recs {
		id := int(ls.Oid) / 31
		r, ok := e.recs[id]
		if !ok || int(ls.Oid)%31 != 0 || r.Bad {
			e.prop(site+":foreign-record", "pack #%d: decoded record %d (Oid %d) is none of the records handed to the sender", idx, i, ls.Oid)
			return nil, d
		}
		if df := diffWant(wantOfDecoded(ls), r.Want); df != "" {
			sp, _ := json.Marshal(r.Spec)
			e.prop(site+":record-altered", "pack #%d: record %s does not decode back to what was handed in — %s", idx, sp, df)
		}
		ids = append(ids, id)
	}
	// the payload is exactly the concatenation of the records' encodings
	var want []byte
	for _, id := range ids {
		want = append(want, e.recs[id].Enc...)
	}
	if !bytes.Equal(want, d.Raw) {
		e.prop(site+":payload-bytes", "pack #%d: payload is not the concatenation of its records' encodings", idx)
	}
	if len(ids) != h.Count {
		e.prop(site+":count-mismatch", "pack #%d: RecordCount %d but %d records", idx, h.Count, len(ids))
	}
	wantZip := !(int64(len(d.Raw)) < zipMin)
	if d.Zipped != wantZip {
		e.prop(site+":zipped-flag", "pack #%d: payload %d bytes, threshold %d, compressed=%v", idx, len(d.Raw), zipMin, d.Zipped)
	}
	if len(ids) == h.Count {
		e.checkWire(h, d, ids, site, idx)
	}
	return ids, d
}

// checkWire follows the pack beyond the hand-over, with the real code of lang/pack/ZipPack.go:
// (1) the client transmits it: pack.WritePack; the receiver's pack.ReadPack must deliver a ZipPack with
// the same header, Status, RecordCount and Records and leave what follows in the stream; (2) the
// receiver decompresses when Status == ZIPPED and calls ZipPack.GetRecords: exactly the pack's records,
// in order, each stamped with the container's Pcode/Oid/Okind/Onode, its own Time kept; (3)
// ZipPack.SetRecords of those records builds the same payload and count as the sender's incremental
// batching did.  A few small packs per case are also put to the model (`W` / `U` lines).
func (e *evalCtx) checkWire(h *Handed, d *Decoded, ids []int, site string, idx int) {
	z := pack.NewZipPack()
	z.Pcode = []int64{0, 7, -3, 1 << 40, 123456789}[idx%5]
	z.Oid = int32(idx*7919 + 1)
	if idx%3 != 0 {
		z.Okind = int32(idx + 1)
	}
	if idx%4 == 1 {
		z.Onode = -5
	}
	z.Time = t0 + int64(idx)
	z.Status, z.RecordCount, z.Records = h.Status, h.Count, h.Snap
	sentinel := []byte{0xA5, 0x5A, 0x42}
	var wire []byte
	var back pack.Pack
	left := -1
	o := vh.Guard(func() {
		dout := gio.NewDataOutputX()
		pack.WritePack(dout, z)
		wire = dout.ToByteArray()
		in := gio.NewDataInputX(append(append([]byte{}, wire...), sentinel...))
		back = pack.ReadPack(in)
		left = int(in.Available())
	})
	zb, ok := back.(*pack.ZipPack)
	if !o.OK() || !ok || zb == nil {
		e.prop("transmit:zip-pack-not-read-back", "pack #%d (%s, count %d, status %d, %d bytes): written with pack.WritePack and read with pack.ReadPack it does not come back as a ZipPack (%T; %s)",
			idx, site, h.Count, h.Status, len(h.Snap), back, vh.Clip(o.Panic, 160))
		return
	}
	if zb.Pcode != z.Pcode || zb.Oid != z.Oid || zb.Okind != z.Okind || zb.Onode != z.Onode || zb.Time != z.Time ||
		zb.Status != z.Status || zb.RecordCount != z.RecordCount || !bytes.Equal(zb.Records, z.Records) || left != len(sentinel) {
		e.prop("transmit:zip-pack-not-read-back", "pack #%d (%s): written with pack.WritePack and read back: header %d/%d/%d/%d/%d -> %d/%d/%d/%d/%d, status %d -> %d, count %d -> %d, payload %d -> %d bytes (equal=%v), %d bytes left in the stream (3 follow the pack)",
			idx, site, z.Pcode, z.Oid, z.Okind, z.Onode, z.Time, zb.Pcode, zb.Oid, zb.Okind, zb.Onode, zb.Time, z.Status, zb.Status, z.RecordCount, zb.RecordCount,
			len(z.Records), len(zb.Records), bytes.Equal(zb.Records, z.Records), left)
		return
	}
	// (2) the receiving side
	if len(ids) > 0 {
		var got []pack.Pack
		o = vh.Guard(func() {
			if zb.Status == pack.ZIPPED {
				raw, err := compressutil.UnZip(zb.Records)
				if err != nil {
					panic("unzip: " + err.Error())
				}
				zb.Records = raw
			}
			got = zb.GetRecords()
		})
		bad := ""
		switch {
		case !o.OK():
			bad = "panicked: " + vh.Clip(o.Panic, 160)
		case len(got) != len(ids):
			bad = fmt.Sprintf("returned %d records, the pack holds %d", len(got), len(ids))
		default:
			for i, g := range got {
				ls, ok := g.(*pack.LogSinkPack)
				if !ok {
					bad = fmt.Sprintf("record %d is a %T", i, g)
					break
				}
				w := e.recs[ids[i]].Want
				w.Pcode, w.Oid, w.Okind, w.Onode = z.Pcode, z.Oid, z.Okind, z.Onode // stamped; Time stays the record's
				if df := diffWant(wantOfDecoded(ls), w); df != "" {
					bad = fmt.Sprintf("record %d (id %d) — %s", i, ids[i], df)
					break
				}
			}
		}
		if bad != "" {
			e.prop("receive:GetRecords-differs", "pack #%d (%s, count %d, status %d): transmitted, read back, decompressed when flagged: ZipPack.GetRecords %s", idx, site, h.Count, h.Status, bad)
		}
	}
	// (3) SetRecords of the decoded records = the sender's batch
	{
		items := make([]pack.Pack, len(d.Recs))
		for i, r := range d.Recs {
			items[i] = r
		}
		z2 := pack.NewZipPack()
		o = vh.Guard(func() { z2.SetRecords(items) })
		if !o.OK() || z2.RecordCount != h.Count || !bytes.Equal(z2.Records, d.Raw) {
			e.corr("ZipPack.SetRecords:differs-from-sender-batching", "pack #%d (%s): ZipPack.SetRecords of its %d records gives count %d and %d payload bytes (equal=%v %s); the sender built count %d and %d bytes",
				idx, site, len(items), z2.RecordCount, len(z2.Records), bytes.Equal(z2.Records, d.Raw), vh.Clip(o.Panic, 120), h.Count, len(d.Raw))
		}
	}
	// model probes
	if len(h.Snap) <= 300 && len(e.probes) < 2 && idx%2 == 0 {
		hdr := fmt.Sprintf("%d,%d,%d,%d,%d", z.Pcode, z.Oid, z.Okind, z.Onode, z.Time)
		hx := "-"
		if len(h.Snap) > 0 {
			hx = vh.Hex(h.Snap)
		}
		e.probes = append(e.probes,
			probe{fmt.Sprintf("W %s %d %d %s", hdr, h.Status, h.Count, hx), vh.Hex(wire)},
			probe{"U " + vh.Hex(wire) + vh.Hex(sentinel), fmt.Sprintf("%s %d %d %s rest=%d", hdr, h.Status, h.Count, hx, len(sentinel))})
	}
}

func idsStr(ids []int) string {
	if len(ids) == 0 {
		return "-"
	}
	s := make([]string, len(ids))
	for i, x := range ids {
		s[i] = strconv.Itoa(x)
	}
	return strings.Join(s, ",")
}

func (e *evalCtx) packLine(src string, d *Decoded, ids []int) string {
	if d == nil {
		return src + ":?"
	}
	z := 0
	if d.Zipped {
		z = 1
	}
	if d.Err != "" {
		return fmt.Sprintf("%s:%d:%d:?", src, d.Count, z)
	}
	// the hash is taken over the model's view of the payload (long encodings as zeros); that the
	// real payload is the concatenation of the real encodings is checked in checkPack
	h := uint32(7)
	n := 0
	for _, id := range ids {
		mb := e.recs[id].modelBytes()
		n += len(mb)
		for _, b := range mb {
			h = h*31 + uint32(b) + 1
		}
	}
	if n != len(d.Raw) {
		h = hashBytes(d.Raw)
	}
	return fmt.Sprintf("%s:%d:%d:o:%d:%d:%s", src, d.Count, z, len(d.Raw), h, idsStr(ids))
}

func eqInts(a, b []int) bool {
	if len(a) != len(b) {
		return false
	}
	for i := range a {
		if a[i] != b[i] {
			return false
		}
	}
	return true
}

// ---------------------------------------------------------------- deterministic histories

// watchdog only bounds hangs (no progress at all for this long); verdicts never depend on it otherwise
const watchdog = 60 * time.Second

type detResult struct {
	packs []string // one line per pack, driver syntax
	state string   // final state, driver syntax
	finds []finding
	nPack int
}

func toVS(s Settings) zip.SettingsForVerif {
	return zip.SettingsForVerif{MaxWaitTime: s.MaxWait, QueueSize: int(s.QueueCap), MaxBufferSize: int(s.MaxBuf), ZipMinSize: int(s.ZipMin)}
}
func fromVS(s zip.SettingsForVerif) Settings {
	return Settings{s.MaxWaitTime, int64(s.QueueSize), int64(s.MaxBufferSize), int64(s.ZipMinSize)}
}

// runDet executes a deterministic history on the real sender and evaluates the property on it.
func runDet(c *Case, e *evalCtx) *detResult {
	cl := &recClient{mode: c.Client, fault: c.Fault}
	var snd *zip.ZipSendProxyThread
	if c.Ctor == "noqueue" {
		// the production constructor without WithUseQueue: no queue, no goroutine, the built-in defaults
		singleton.Lock()
		zip.ResetForVerif()
		snd = zip.GetInstance(zip.WithTcpClient(cl))
		zip.ResetForVerif()
		singleton.Unlock()
	} else {
		snd = zip.NewForVerif(cl, toVS(c.Settings))
	}
	hasQueue := snd.Queue != nil
	curClient := 0                      // the client in force (SetTcpClient)
	clientAt := make([]int, len(c.Ops)) // … during each operation
	// the settings that MUST be in force: the harness's own reading of the history (initial settings,
	// then every ApplyConfig: key present -> its value, absent -> the documented fall-back).  Flush and
	// compression are judged against these, not against what the sender reports about itself.
	exp := c.Settings
	cl.zipMin = func() int64 { return exp.ZipMin }
	var dropped []int // ids reported through the Failed callback (when installed)
	if c.FailedCb && hasQueue {
		snd.Queue.Failed = func(v interface{}) {
			if p, ok := v.(*pack.LogSinkPack); ok && p != nil {
				dropped = append(dropped, e.byPtr[p])
			} else {
				dropped = append(dropped, -1) // a nil pack / an element of another type
			}
		}
	}
	refused := map[int]bool{}    // ids the bounded queue must refuse (queue full at the time of Add)
	serialised := map[int]bool{} // ids whose pack object has been through WritePack (may be recycled by the caller)
	fifoBroken := false
	res := &detResult{}
	var fifo []int // mirror of the queue: ids accepted and not yet dequeued
	var fed []int  // ids passed to Append, in order
	stopped := false
	type dcall struct {
		op   int
		want []int
	}
	var dcalls []dcall
	broke := false

	for i, o := range c.Ops {
		cl.mu.Lock()
		cl.opIdx = i
		cl.mu.Unlock()
		st := exp
		cnt0, len0, first0 := snd.BufferedForVerif()
		np0 := cl.n()
		var out vh.Outcome
		appended := -1     // id of the (serialisable) record passed to Append by this op
		failedAppend := -1 // id of the unserialisable record passed to Append / skipped by the loop
		flushOnly := false
		if o.K == "client" {
			curClient = o.N
		}
		clientAt[i] = curClient
		switch o.K {
		case "client":
			// SetTcpClient replaces the client and nothing else: no hand-over, the batch stays as it is
			out = vh.Guard(func() {
				if o.N == 0 {
					snd.SetTcpClient(cl)
				} else {
					snd.SetTcpClient(&altClient{main: cl, id: o.N})
				}
			})
			if c1, l1, f1 := snd.BufferedForVerif(); c1 != cnt0 || l1 != len0 || f1 != first0 {
				e.corr("SetTcpClient:changed-batch", "op %d: SetTcpClient changed the batch under construction: count %d -> %d, bytes %d -> %d, first time %d -> %d", i, cnt0, c1, len0, l1, first0, f1)
			}
		case "add":
			// the unchanged queue semantics: a full bounded queue refuses the newcomer and keeps
			// what it accepted; capacity <= 0 means unbounded
			nd := len(dropped)
			q0 := snd.Queue.Size()
			capacity := int(exp.QueueCap)
			if snd.Queue.GetCapacity() != capacity {
				e.prop("ApplyConfig:queue-capacity-not-applied", "op %d: the queue's capacity is %d, the queue size in force is %d", i, snd.Queue.GetCapacity(), capacity)
			}
			accept := capacity <= 0 || len(fifo) < capacity
			if q0 != len(fifo) {
				fifoBroken = true
				e.prop("queue:size", "op %d: %d records should be queued, the queue holds %d", i, len(fifo), q0)
			}
			rec := e.handIn(o.R.ID, serialised)
			out = vh.Guard(func() {
				if rec.Other != nil {
					snd.Queue.Put(rec.Other) // an element that is not a *LogSinkPack
				} else {
					snd.Add(rec.P)
				}
			})
			q1 := snd.Queue.Size()
			if accept {
				fifo = append(fifo, o.R.ID)
				if q1 != q0+1 || len(dropped) != nd {
					e.prop("Add:dropped-below-capacity", "op %d: record %d added with %d queued, capacity %d: queue size %d -> %d, Failed callback calls %d",
						i, o.R.ID, q0, capacity, q0, q1, len(dropped)-nd)
				}
			} else {
				refused[o.R.ID] = true
				if q1 != q0 {
					fifoBroken = true
					e.prop("Add:accepted-above-capacity", "op %d: record %d added to a full queue (capacity %d): queue size %d -> %d", i, o.R.ID, capacity, q0, q1)
				}
				if c.FailedCb && (len(dropped) != nd+1 || (dropped[nd] != o.R.ID && dropped[nd] != -1)) {
					e.prop("Add:failed-callback", "op %d: record %d refused by the full queue but the Failed callback was not called with it", i, o.R.ID)
				}
			}
		case "append":
			rec := e.handIn(o.R.ID, serialised)
			if rec.Bad {
				failedAppend = o.R.ID
			} else {
				appended = o.R.ID
			}
			out = vh.Guard(func() { snd.Append(rec.P) })
		case "step":
			var rc int
			out = vh.Guard(func() { rc = snd.StepForVerif() })
			switch rc {
			case 1:
				if len(fifo) == 0 {
					e.prop("run:dequeued-from-empty", "op %d: a record was dequeued although none was queued", i)
				} else {
					if e.recs[fifo[0]].Bad {
						failedAppend = fifo[0]
					} else {
						appended = fifo[0]
					}
					fifo = fifo[1:]
				}
			case 0:
				flushOnly = true
				if len(fifo) != 0 {
					e.prop("run:idle-with-queued-records", "op %d: idle flush although %d records are queued", i, len(fifo))
				}
			case -1:
				if !stopped {
					e.prop("run:stopped-spontaneously", "op %d: the sender reports stopped without a stop", i)
				}
			}
		case "stop":
			if !stopped {
				stopped = true
				q := append([]int{}, fifo...)
				out = vh.GuardTimeout(3*watchdog, func() {
					snd.StopForVerif()
					snd.RunForVerif()
				})
				if out.Timeout {
					e.prop("stop:loop-does-not-return", "op %d: the background loop did not return within %v of cancellation", i, 3*watchdog)
					broke = true
				} else {
					left := snd.Queue.Size()
					if left != 0 {
						e.prop("stop:queued-records-lost", "op %d: stop with %d records queued (%s): the loop returned leaving %d of them in the queue, never emitted",
							i, len(q), idsStr(q), left)
						// what was drained (a prefix, if anything)
						fed = append(fed, e.goodOf(q[:len(q)-left])...)
						fifo = q[len(q)-left:]
					} else {
						fed = append(fed, e.goodOf(q)...)
						fifo = nil
					}
					for _, id := range q[:len(q)-left] {
						serialised[id] = !e.recs[id].Bad
					}
					flushOnly = true
				}
			}
		case "direct":
			var ps []*pack.LogSinkPack
			var want []int
			for _, r := range o.Rs {
				ps = append(ps, e.handIn(r.ID, serialised).P)
				want = append(want, r.ID)
			}
			dcalls = append(dcalls, dcall{i, want})
			out = vh.Guard(func() { snd.SendDirect(ps) })
			for _, r := range o.Rs {
				serialised[r.ID] = true
			}
		case "config":
			out = vh.Guard(func() { snd.ApplyConfig(o.C.toConf()) })
			got := fromVS(snd.SettingsForVerif())
			chk := func(name string, p *int64, g int64) {
				if p != nil && int64(int32(*p)) != g {
					e.prop("ApplyConfig:"+name+"-not-applied", "op %d: configuration sets %s=%d but %d is in force", i, name, *p, g)
				}
			}
			chk("logsink_queue_size", o.C.QueueSize, got.QueueCap)
			chk("max_wait_time", o.C.MaxWait, got.MaxWait)
			chk("max_buffer_size", o.C.MaxBuf, got.MaxBuf)
			chk("logsink_zip_min_size", o.C.ZipMin, got.ZipMin)
			exp = applyConf(exp, o.C)
			if got != exp {
				e.prop("ApplyConfig:settings-not-in-force", "op %d: after this reload the settings in force must be %s (key present: its value; absent: the fall-back 2000 ms / 1000 / 64 KiB / 100), the sender runs with %s", i, exp.String(), got.String())
			}
			if hasQueue && o.C.QueueSize != nil && int64(snd.Queue.GetCapacity()) != got.QueueCap {
				e.prop("ApplyConfig:queue-capacity-not-applied", "op %d: logsink_queue_size=%d in force but the queue's capacity is %d", i, got.QueueCap, snd.Queue.GetCapacity())
			}
		}
		if out.Panic != "" {
			e.prop(o.K+":panic", "op %d (%s) panicked: %s", i, o.K, vh.Clip(out.Panic, 200))
		}
		if broke {
			break
		}
		// flush conditions, evaluated on the implementation's own counters
		cnt1, len1, _ := snd.BufferedForVerif()
		if failedAppend >= 0 {
			// a record whose serialisation fails is dropped (Append recovers / the loop skips it) and
			// must leave the batch exactly as it was
			if c1, l1, f1 := snd.BufferedForVerif(); c1 != cnt0 || l1 != len0 || f1 != first0 || cl.n() != np0 {
				sp, _ := json.Marshal(e.recs[failedAppend].Spec)
				e.prop("Append:failed-record-changed-state", "op %d: record %s cannot be serialised and is dropped, but the batch changed: count %d -> %d, bytes %d -> %d, first time %d -> %d, packs handed over %d",
					i, sp, cnt0, c1, len0, l1, first0, f1, cl.n()-np0)
			}
		}
		if appended >= 0 {
			serialised[appended] = true
		}
		if appended >= 0 && o.K == "step" && cl.n() == np0 && len1-len0 != len(e.recs[appended].Enc) && !fifoBroken {
			fifoBroken = true
			e.prop("queue:not-fifo", "op %d: the oldest accepted record is %d (%d bytes) but the record the loop dequeued and appended has %d bytes: the queue lost or reordered an accepted record",
				i, appended, len(e.recs[appended].Enc), len1-len0)
		}
		if appended >= 0 && fifoBroken {
			fed = append(fed, appended)
		} else if appended >= 0 {
			fed = append(fed, appended)
			r := e.recs[appended]
			must := int64(len0+len(r.Enc)) >= st.MaxBuf || (first0 != 0 && r.Spec.Time-first0 >= st.MaxWait)
			if must && len1 != 0 {
				e.prop("Append:flush-missed", "op %d: record %d (%d bytes, time %d) appended to %d buffered bytes (first time %d) with limits %d bytes / %d ms, but %d bytes stay buffered",
					i, appended, len(r.Enc), r.Spec.Time, len0, first0, st.MaxBuf, st.MaxWait, len1)
			}
			if cl.n() == np0 && cnt1 == cnt0 && len1 == len0 {
				sp, _ := json.Marshal(r.Spec)
				e.prop("Append:record-vanished", "op %d: record %s was passed to Append and is neither buffered (count %d, %d bytes as before) nor handed over: it is lost (a panic inside Append is swallowed by its recover)",
					i, sp, cnt0, len0)
			} else if !must && (cl.n() != np0 || cnt1 != cnt0+1) {
				e.corr("Append:flush-early", "op %d: record %d appended below both limits but the batch was flushed (count %d -> %d)", i, appended, cnt0, cnt1)
			}
		}
		if flushOnly && len1 != 0 {
			e.prop(o.K+":flush-missed", "op %d: %s left %d bytes (%d records) buffered", i, o.K, len1, cnt1)
		}
	}

	// ---- global clauses
	cl.mu.Lock()
	got := cl.got
	zipMins := cl.zipMins
	cl.mu.Unlock()
	res.nPack = len(got)
	var sharedIDs []int
	var packIDs [][]int
	directIDs := map[int][]int{} // op index -> ids
	isDirectOp := map[int]bool{}
	for _, d := range dcalls {
		isDirectOp[d.op] = true
	}
	for k, h := range got {
		site, src := "sendAndClear", "S"
		if isDirectOp[h.OpIdx] {
			site, src = "SendDirect", "D"
		}
		zm := int64(0)
		if k < len(zipMins) {
			zm = zipMins[k]
		}
		ids, d := e.checkPack(h, site, zm, k)
		packIDs = append(packIDs, ids)
		res.packs = append(res.packs, e.packLine(src, d, ids)+"@"+strconv.Itoa(h.Dest))
		// (a hand-over made BY SetTcpClient itself — the unchanged code makes none — may go to either client
		// as far as the property is concerned; the comparison with the model reports it)
		if h.OpIdx >= 0 && h.OpIdx < len(clientAt) && h.Dest != clientAt[h.OpIdx] && c.Ops[h.OpIdx].K != "client" {
			e.prop("SetTcpClient:pack-handed-to-replaced-client", "pack #%d (%s, records %s) was handed over during op %d, when client %d was the sender's TCP client (SetTcpClient), but client %d received it",
				k, site, idsStr(ids), h.OpIdx, clientAt[h.OpIdx], h.Dest)
		}
		if src == "S" {
			sharedIDs = append(sharedIDs, ids...)
		} else {
			directIDs[h.OpIdx] = append(directIDs[h.OpIdx], ids...)
		}
	}
	cnt, blen, first := snd.BufferedForVerif()
	if !e.hasKeySuffix(":undecodable") && !e.hasKeySuffix(":foreign-record") {
		for _, id := range sharedIDs {
			if refused[id] {
				e.prop("emit:refused-record-emitted", "record %d was refused by the full queue (capacity %d) and emitted nevertheless", id, snd.Queue.GetCapacity())
				break
			}
		}
		seenAt := map[int]int{}
		for k, h := range got {
			_ = h
			if k < len(packIDs) {
				for _, id := range packIDs[k] {
					if first, dup := seenAt[id]; dup {
						e.prop("emit:duplicate", "record %d was handed over in pack #%d and again in pack #%d (the client answered pack #%d with error=%v)", id, first, k, first, got[first].Failed)
						goto dupDone
					}
					seenAt[id] = k
				}
			}
		}
	dupDone:
		// every record passed to Append is in exactly one pack, in order, or still buffered
		if cnt < 0 || cnt > len(fed) || !eqInts(sharedIDs, fed[:len(fed)-cnt]) {
			e.prop("emit:not-exactly-once-in-order", "records passed to Append: %s; emitted in shared packs: %s; still buffered: %d",
				vh.Clip(idsStr(fed), 300), vh.Clip(idsStr(sharedIDs), 300), cnt)
		}
		for _, d := range dcalls {
			if !eqInts(directIDs[d.op], d.want) {
				e.prop("SendDirect:not-exactly-once-in-order", "op %d: SendDirect(%s) emitted %s", d.op, idsStr(d.want), idsStr(directIDs[d.op]))
			}
		}
	}
	if hasQueue && snd.Queue.Size() != len(fifo) {
		e.prop("queue:size", "%d records should be queued, the queue holds %d", len(fifo), snd.Queue.Size())
	}
	bufIDs := "?"
	if cnt >= 0 && cnt <= len(fed) {
		bufIDs = idsStr(fed[len(fed)-cnt:])
	}
	sp := 0
	if stopped {
		sp = 1
	}
	res.state = fmt.Sprintf("buf=%s count=%d len=%d first=%d queue=%s set=%s stopped=%d", bufIDs, cnt, blen, first, idsStr(fifo),
		fromVS(snd.SettingsForVerif()).String(), sp)
	res.finds = e.finds
	return res
}

func (e *evalCtx) hasKeySuffix(suf string) bool {
	for _, f := range e.finds {
		if strings.HasSuffix(f.Key, suf) {
			return true
		}
	}
	return false
}
