package main

import (
	"fmt"
	"reflect"
	"strconv"
	"strings"

	gio "github.com/whatap/golib/io"
	"github.com/whatap/golib/lang/pack"
	"github.com/whatap/golib/lang/value"
	"github.com/whatap/golib/util/hash"
	"verif/harness/vh"
)

// ---------------------------------------------------------------- records

// RecSpec determines one log record completely (so replays stay small).
type RecSpec struct {
	ID     int   `json:"id"`   // unique per case; stored in LogSinkPack.Line
	Time   int64 `json:"t"`    // LogSinkPack.Time
	N      int   `json:"n"`    // content length in bytes
	Tags   int   `json:"tags"` // number of tag entries
	Fields int   `json:"fld"`  // number of field entries
	Fill   int   `json:"fill"` // 0 repetitive filler, 1 pseudo-random filler
	// unusual but legal shapes
	NilFields bool `json:"nil_fields,omitempty"` // Fields == nil (Write guards it: encodes like "no fields")
	NoCat     bool `json:"no_cat,omitempty"`     // empty Category
	Line0     bool `json:"line0,omitempty"`      // Line == 0
	LongTag   int  `json:"long_tag,omitempty"`   // one tag whose key has this many bytes and whose value twice as many
	// TagHash set by the caller (0: Write computes it from the tags).  The value is drawn from a small
	// process-wide pool, so records with DIFFERENT tag tables share a hash, within a batch, across
	// batches, across senders.
	TagHash int64 `json:"tag_hash,omitempty"`
	// ReuseOf: the caller recycles the pack object of that earlier record (already serialised by the
	// sender), overwrites every field but forgets TagHash: the stale hash travels with the new tags.
	ReuseOf int `json:"reuse_of,omitempty"`
	// Bad: the record cannot be serialised — "niltags" (Tags == nil: Write panics), "nilpack" (a nil
	// *LogSinkPack), "wrongtype" (queue only: an element that is not a *LogSinkPack).  Append recovers
	// from the panic / the loop skips the element: the record is dropped and must leave no trace.
	Bad string `json:"bad,omitempty"`
}

// ---------------------------------------------------------------- independent reference

// Want is what a record carries on the wire, computed from the spec alone — not through the
// encoder under test.
type KV struct{ K, V string }
type KI struct {
	K string
	V int64
}
type Want struct {
	Pcode             int64
	Oid, Okind, Onode int32
	Time              int64
	Category          string
	TagHash           int64
	Tags              []KV
	Line              int64
	Content           string
	Fields            []KI
}

func refTagBytes(tags []KV) []byte {
	o := gio.NewDataOutputX()
	o.WriteByte(80) // VALUE_MAP
	o.WriteDecimal(int64(len(tags)))
	for _, kv := range tags {
		o.WriteText(kv.K)
		o.WriteByte(50) // VALUE_TEXT
		o.WriteText(kv.V)
	}
	return o.ToByteArray()
}

// refEncode: pack.WritePack of a LogSinkPack, written out by hand on the primitive writers
// (type code, AbstractPack header, version 0, Category, TagHash, Tags, Line, Content, optional Fields).
func refEncode(w Want) []byte {
	o := gio.NewDataOutputX()
	o.WriteShort(0x170a)
	if w.Okind|w.Onode == 0 {
		o.WriteDecimal(w.Pcode)
		o.WriteInt(w.Oid)
		o.WriteLong(w.Time)
	} else {
		o.WriteByte(9)
		o.WriteDecimal(w.Pcode)
		o.WriteInt(w.Oid)
		o.WriteInt(w.Okind)
		o.WriteInt(w.Onode)
		o.WriteLong(w.Time)
	}
	o.WriteByte(0)
	o.WriteText(w.Category)
	o.WriteDecimal(w.TagHash)
	o.WriteBytes(refTagBytes(w.Tags))
	o.WriteDecimal(w.Line)
	o.WriteText(w.Content)
	if len(w.Fields) > 0 {
		o.WriteBool(true)
		o.WriteByte(80)
		o.WriteDecimal(int64(len(w.Fields)))
		for _, kv := range w.Fields {
			o.WriteText(kv.K)
			o.WriteByte(20) // VALUE_DECIMAL
			o.WriteDecimal(kv.V)
		}
	} else {
		o.WriteBool(false)
	}
	return o.ToByteArray()
}

// carriedHash: the TagHash a record travels with when its TagHash field holds `field`
func carriedHash(field int64, tags []KV) int64 {
	if field == 0 && len(tags) > 0 {
		return hash.Hash64(refTagBytes(tags)) // Write computes and stores it
	}
	return field
}

// want: the carried fields of the record described by the spec (TagHash field as the spec says)
func (s RecSpec) want() Want {
	w := Want{Pcode: int64(s.ID % 7), Oid: int32(s.ID * 31), Time: s.Time, Content: filler(s.ID, s.N, s.Fill)}
	if s.ID%5 == 0 {
		w.Okind = int32(s.ID)
	}
	if !s.NoCat {
		w.Category = "cat" + strconv.Itoa(s.ID%3)
	}
	if !s.Line0 {
		w.Line = int64(s.ID)
	}
	for i := 0; i < s.Tags; i++ {
		w.Tags = append(w.Tags, KV{"k" + strconv.Itoa(i), "v" + strconv.Itoa(s.ID+i)})
	}
	if s.LongTag > 0 {
		w.Tags = append(w.Tags, KV{strings.Repeat("K", s.LongTag), strings.Repeat("v", 2*s.LongTag)})
	}
	if !s.NilFields {
		for i := 0; i < s.Fields; i++ {
			w.Fields = append(w.Fields, KI{"f" + strconv.Itoa(i), int64(s.ID*10 + i)})
		}
	}
	w.TagHash = carriedHash(s.TagHash, w.Tags)
	return w
}

// fill writes the spec's field values into a pack object; TagHash is left to the caller
func (s RecSpec) fill(p *pack.LogSinkPack) {
	w := s.want()
	p.Pcode, p.Oid, p.Okind, p.Onode, p.Time = w.Pcode, w.Oid, w.Okind, w.Onode, w.Time
	p.Category, p.Line, p.Content = w.Category, w.Line, w.Content
	p.Tags = value.NewMapValue()
	for _, kv := range w.Tags {
		p.Tags.PutString(kv.K, kv.V)
	}
	p.Fields = value.NewMapValue()
	for _, kv := range w.Fields {
		p.Fields.PutLong(kv.K, kv.V)
	}
	if s.NilFields {
		p.Fields = nil
	}
}

// wantOfDecoded reads a decoded LogSinkPack back into the comparable form
func wantOfDecoded(ls *pack.LogSinkPack) Want {
	w := Want{Pcode: ls.Pcode, Oid: ls.Oid, Okind: ls.Okind, Onode: ls.Onode, Time: ls.Time,
		Category: ls.Category, TagHash: ls.TagHash, Line: ls.Line, Content: ls.Content}
	if ls.Tags != nil {
		ks := ls.Tags.Keys()
		for ks.HasMoreElements() {
			k := ks.NextString()
			v := ls.Tags.Get(k)
			if tv, ok := v.(*value.TextValue); ok {
				w.Tags = append(w.Tags, KV{k, tv.Val})
			} else {
				w.Tags = append(w.Tags, KV{k, fmt.Sprintf("<%T>", v)})
			}
		}
	}
	if ls.Fields != nil {
		ks := ls.Fields.Keys()
		for ks.HasMoreElements() {
			k := ks.NextString()
			v := ls.Fields.Get(k)
			if dv, ok := v.(*value.DecimalValue); ok {
				w.Fields = append(w.Fields, KI{k, dv.Val})
			} else {
				w.Fields = append(w.Fields, KI{k, -999999})
			}
		}
	}
	return w
}

// diffWant names the first field in which two records differ ("" when equal)
func diffWant(got, want Want) string {
	clip := func(x interface{}) string { return vh.Clip(fmt.Sprint(x), 120) }
	switch {
	case got.Pcode != want.Pcode || got.Oid != want.Oid || got.Okind != want.Okind || got.Onode != want.Onode || got.Time != want.Time:
		return fmt.Sprintf("header: emitted %d/%d/%d/%d/%d, handed in %d/%d/%d/%d/%d", got.Pcode, got.Oid, got.Okind, got.Onode, got.Time, want.Pcode, want.Oid, want.Okind, want.Onode, want.Time)
	case got.Category != want.Category:
		return "Category: emitted " + clip(got.Category) + ", handed in " + clip(want.Category)
	case got.TagHash != want.TagHash:
		return fmt.Sprintf("TagHash: emitted %d, handed in %d", got.TagHash, want.TagHash)
	case !reflect.DeepEqual(got.Tags, want.Tags) && (len(got.Tags) > 0 || len(want.Tags) > 0):
		return "Tags: emitted " + clip(got.Tags) + ", handed in " + clip(want.Tags)
	case got.Line != want.Line:
		return fmt.Sprintf("Line: emitted %d, handed in %d", got.Line, want.Line)
	case got.Content != want.Content:
		return "Content: emitted " + clip(got.Content) + ", handed in " + clip(want.Content)
	case !reflect.DeepEqual(got.Fields, want.Fields) && (len(got.Fields) > 0 || len(want.Fields) > 0):
		return "Fields: emitted " + clip(got.Fields) + ", handed in " + clip(want.Fields)
	}
	return ""
}

func filler(id, n, kind int) string {
	b := make([]byte, n)
	if kind == 0 {
		pat := "log line " + strconv.Itoa(id) + " | "
		for i := range b {
			b[i] = pat[i%len(pat)]
		}
	} else {
		x := uint64(id)*0x9E3779B97F4A7C15 + 12345
		for i := range b {
			x ^= x << 13
			x ^= x >> 7
			x ^= x << 17
			b[i] = byte(33 + x%90)
		}
	}
	return string(b)
}

// Build makes a fresh pack object for the spec (TagHash field as the spec says).  Oid is unique per id,
// so two records of a case never share an encoding even when everything else is empty/zero.
func (s RecSpec) Build() *pack.LogSinkPack {
	switch s.Bad {
	case "nilpack", "wrongtype":
		return nil
	}
	p := pack.NewLogSinkPack()
	s.fill(p)
	p.TagHash = s.TagHash
	if s.Bad == "niltags" {
		p.Tags = nil
	}
	return p
}

// Rec is a record as handed to the sender, with what it must carry on the wire.
type Rec struct {
	Spec            RecSpec
	P               *pack.LogSinkPack
	Other           pack.Pack // Bad == "wrongtype": what is put on the queue instead
	Want            Want
	Enc             []byte // reference encoding (refEncode of Want): independent of the encoder under test
	Bad             bool
	recycled, taken bool // ReuseOf bookkeeping
}

func NewRec(s RecSpec) *Rec {
	r := &Rec{Spec: s, P: s.Build(), Want: s.want(), Bad: s.Bad != ""}
	r.Enc = refEncode(r.Want)
	if s.Bad == "wrongtype" {
		r.Other = pack.NewZipPack()
	}
	return r
}

// longEnc: encodings longer than this are represented to the model by their length only
// (as that many zero bytes); the harness compares their bytes itself.
const longEnc = 300

// modelBytes is the byte string that stands for the record's encoding in the model.
func (r *Rec) modelBytes() []byte {
	if len(r.Enc) > longEnc {
		return make([]byte, len(r.Enc))
	}
	return r.Enc
}

func (r *Rec) line() string {
	if r.Bad {
		return fmt.Sprintf("%d:%d:!", r.Spec.ID, r.Spec.Time)
	}
	if len(r.Enc) > longEnc {
		return fmt.Sprintf("%d:%d:#%d", r.Spec.ID, r.Spec.Time, len(r.Enc))
	}
	return fmt.Sprintf("%d:%d:%s", r.Spec.ID, r.Spec.Time, vh.Hex(r.Enc))
}

// ---------------------------------------------------------------- operations

type Settings struct {
	MaxWait  int64 `json:"maxWait"`
	QueueCap int64 `json:"queue"`
	MaxBuf   int64 `json:"maxBuf"`
	ZipMin   int64 `json:"zipMin"`
}

func (s Settings) String() string {
	return fmt.Sprintf("%d,%d,%d,%d", s.MaxWait, s.QueueCap, s.MaxBuf, s.ZipMin)
}

// ConfSpec: the four keys ApplyConfig reads; nil = key absent.
type ConfSpec struct {
	QueueSize *int64 `json:"logsink_queue_size"`
	MaxWait   *int64 `json:"max_wait_time"`
	MaxBuf    *int64 `json:"max_buffer_size"`
	ZipMin    *int64 `json:"logsink_zip_min_size"`
}

func optStr(p *int64) string {
	if p == nil {
		return "-"
	}
	return strconv.FormatInt(*p, 10)
}

// Op kinds: add step stop append direct config client
type Op struct {
	K  string    `json:"k"`
	R  *RecSpec  `json:"r,omitempty"`
	Rs []RecSpec `json:"rs,omitempty"`
	C  *ConfSpec `json:"c,omitempty"`
	N  int       `json:"n,omitempty"` // client: SetTcpClient(client number N); 0 is the client given at construction
}

// Case is one deterministic history.
type Case struct {
	Kind     string   `json:"kind"` // "det" | "free" | "getinstance"
	Settings Settings `json:"settings"`
	Client   string   `json:"client"` // "consume" | "retain"
	Ops      []Op     `json:"ops,omitempty"`
	Free     *Free    `json:"free,omitempty"`
	Reconf   *Reconf  `json:"reconf,omitempty"`
	Storm    *Storm   `json:"storm,omitempty"`
	// FailedCb: install RequestQueue.Failed (the sender itself never does; a queue without the
	// callback must refuse on overflow all the same)
	FailedCb bool `json:"failed_cb,omitempty"`
	// Fault: which hand-overs the client answers with an error (it records them all the same):
	//   ""  none | "first" | "all" | "every:<k>" (k-th, 2k-th, …) | "random:<pct>:<salt>"
	Fault string `json:"fault,omitempty"`
	// Ctor: how the sender is constructed — "" the hook NewForVerif (queue mode, explicit settings);
	// "noqueue" the production constructor GetInstance(WithTcpClient(c)) without WithUseQueue: no queue,
	// no goroutine, defaults in force (only append / direct / config operations make sense)
	Ctor string `json:"ctor,omitempty"`
}

// faultAt: does the client report an error for its n-th hand-over (n from 0)?
func faultAt(spec string, n int) bool {
	f := strings.Split(spec, ":")
	switch f[0] {
	case "first":
		return n == 0
	case "all":
		return true
	case "every":
		k, _ := strconv.Atoi(f[1])
		return k > 0 && (n+1)%k == 0
	case "random":
		pct, _ := strconv.Atoi(f[1])
		salt, _ := strconv.Atoi(f[2])
		x := uint64(n+1)*0x9E3779B97F4A7C15 ^ uint64(salt)*0xBF58476D1CE4E5B9
		x ^= x >> 29
		x *= 0x94D049BB133111EB
		x ^= x >> 32
		return int(x%100) < pct
	}
	return false
}

func (c *Case) driverLine(recs map[int]*Rec) string {
	var sb strings.Builder
	sb.WriteString("H fixed ")
	sb.WriteString(c.Settings.String())
	sb.WriteByte(' ')
	if len(c.Ops) == 0 {
		sb.WriteByte('-')
	}
	for i, o := range c.Ops {
		if i > 0 {
			sb.WriteByte(';')
		}
		switch o.K {
		case "add":
			sb.WriteString("a:" + recs[o.R.ID].line())
		case "append":
			sb.WriteString("p:" + recs[o.R.ID].line())
		case "step":
			sb.WriteString("s")
		case "stop":
			sb.WriteString("x")
		case "direct":
			sb.WriteString("d:")
			if len(o.Rs) == 0 {
				sb.WriteByte('-')
			}
			for j, r := range o.Rs {
				if j > 0 {
					sb.WriteByte('|')
				}
				sb.WriteString(recs[r.ID].line())
			}
		case "config":
			sb.WriteString("c:" + optStr(o.C.QueueSize) + "," + optStr(o.C.MaxWait) + "," + optStr(o.C.MaxBuf) + "," + optStr(o.C.ZipMin))
		case "client":
			sb.WriteString("k:" + strconv.Itoa(o.N))
		}
	}
	if c.Fault != "" {
		sb.WriteString(" " + c.Fault)
	}
	return sb.String()
}

// canon: a short canonical text of the case (without record bytes)
func (c *Case) canon() string {
	var sb strings.Builder
	sb.WriteString(c.Kind + " " + c.Settings.String() + " " + c.Client + " ")
	if c.FailedCb {
		sb.WriteString("cb ")
	}
	if c.Fault != "" {
		sb.WriteString("fault=" + c.Fault + " ")
	}
	if c.Ctor != "" {
		sb.WriteString("ctor=" + c.Ctor + " ")
	}
	for _, o := range c.Ops {
		switch o.K {
		case "add", "append":
			fmt.Fprintf(&sb, "%s(%d@%d/%d%s);", o.K[:2], o.R.ID, o.R.Time, o.R.N, o.R.flags())
		case "direct":
			sb.WriteString("d(")
			for _, r := range o.Rs {
				fmt.Fprintf(&sb, "%d/%d,", r.ID, r.N)
			}
			sb.WriteString(");")
		case "config":
			sb.WriteString("c(" + optStr(o.C.QueueSize) + "," + optStr(o.C.MaxWait) + "," + optStr(o.C.MaxBuf) + "," + optStr(o.C.ZipMin) + ");")
		case "client":
			sb.WriteString("k" + strconv.Itoa(o.N) + ";")
		default:
			sb.WriteString(o.K[:2] + ";")
		}
	}
	if c.Storm != nil {
		fmt.Fprintf(&sb, "stopstorm pre=%d late=%d/%d", len(c.Storm.Pre), len(c.Storm.Late), len(c.stormSpecs())-len(c.Storm.Pre))
	}
	if c.Reconf != nil {
		x := c.Reconf.New
		fmt.Fprintf(&sb, "reconf a=%d b=%d new=%s,%s,%s,%s", len(c.Reconf.A), len(c.Reconf.B), optStr(x.QueueSize), optStr(x.MaxWait), optStr(x.MaxBuf), optStr(x.ZipMin))
	}
	if c.Free != nil {
		fmt.Fprintf(&sb, "free p=%d d=%d early=%v accept=%s slow=%d callers=%d reload=%v", len(c.Free.Producers), len(c.Free.Direct), c.Free.StopEarly, c.Free.Accept, c.Free.SlowUs, c.Free.DirectCallers, c.Free.ReloadStorm)
		for _, p := range c.Free.Producers {
			sb.WriteString(" [")
			for _, it := range p {
				fmt.Fprintf(&sb, "%d/%d,", it.R.ID, it.R.N)
			}
			sb.WriteString("]")
		}
	}
	return sb.String()
}

func (c *Case) allSpecs() []RecSpec {
	var out []RecSpec
	if c.Reconf != nil {
		out = append(out, c.Reconf.A...)
		out = append(out, c.Reconf.B...)
	}
	out = append(out, c.stormSpecs()...)
	for _, o := range c.Ops {
		if o.R != nil {
			out = append(out, *o.R)
		}
		out = append(out, o.Rs...)
	}
	if c.Free != nil {
		for _, p := range c.Free.Producers {
			for _, it := range p {
				out = append(out, it.R)
			}
		}
		for _, d := range c.Free.Direct {
			out = append(out, d...)
		}
	}
	return out
}

func (s RecSpec) flags() string {
	f := ""
	if s.Bad != "" {
		f += "!" + s.Bad
	}
	if s.TagHash != 0 {
		f += "H" + strconv.FormatInt(s.TagHash, 10)
	}
	if s.ReuseOf != 0 {
		f += "R" + strconv.Itoa(s.ReuseOf)
	}
	if s.NilFields {
		f += "F"
	}
	if s.NoCat {
		f += "C"
	}
	if s.Line0 {
		f += "L"
	}
	if s.LongTag > 0 {
		f += "T" + strconv.Itoa(s.LongTag)
	}
	return f
}
