package main

import (
	"fmt"
	"strconv"
	"strings"

	"github.com/whatap/golib/lang/pack"
	"verif/harness/vh"
)

// ---------------------------------------------------------------- records

// RecSpec determines one log record completely (so replays stay small).
type RecSpec struct {
	ID     int   `json:"id"`   // unique per case; stored in LogSinkPack.Line
	Time   int64 `json:"t"`    // LogSinkPack.Time
	N      int   `json:"n"`    // content length in bytes
	Tags   int   `json:"tags"` // number of tag entries
	Fields int   `json:"fld"`  // number of field entries
	Fill   int   `json:"fill"` // 0 repetitive filler, 1 pseudo-random filler
	// unusual but legal shapes
	NilFields bool `json:"nil_fields,omitempty"` // Fields == nil (Write guards it: encodes like "no fields")
	NoCat     bool `json:"no_cat,omitempty"`     // empty Category
	Line0     bool `json:"line0,omitempty"`      // Line == 0
	LongTag   int  `json:"long_tag,omitempty"`   // one tag whose key has this many bytes and whose value twice as many
}

func filler(id, n, kind int) string {
	b := make([]byte, n)
	if kind == 0 {
		pat := "log line " + strconv.Itoa(id) + " | "
		for i := range b {
			b[i] = pat[i%len(pat)]
		}
	} else {
		x := uint64(id)*0x9E3779B97F4A7C15 + 12345
		for i := range b {
			x ^= x << 13
			x ^= x >> 7
			x ^= x << 17
			b[i] = byte(33 + x%90)
		}
	}
	return string(b)
}

// Build makes the record.  Oid is unique per id, so two records of a case never share an
// encoding even when Line, Content, Category and Time are all empty/zero.
func (s RecSpec) Build() *pack.LogSinkPack {
	p := pack.NewLogSinkPack()
	p.Time = s.Time
	p.Pcode = int64(s.ID % 7)
	p.Oid = int32(s.ID * 31)
	if s.ID%5 == 0 {
		p.Okind = int32(s.ID)
	}
	if !s.NoCat {
		p.Category = "cat" + strconv.Itoa(s.ID%3)
	}
	if !s.Line0 {
		p.Line = int64(s.ID)
	}
	p.Content = filler(s.ID, s.N, s.Fill)
	for i := 0; i < s.Tags; i++ {
		p.Tags.PutString("k"+strconv.Itoa(i), "v"+strconv.Itoa(s.ID+i))
	}
	if s.LongTag > 0 {
		p.Tags.PutString(strings.Repeat("K", s.LongTag), strings.Repeat("v", 2*s.LongTag))
	}
	for i := 0; i < s.Fields; i++ {
		p.Fields.PutLong("f"+strconv.Itoa(i), int64(s.ID*10+i))
	}
	if s.NilFields {
		p.Fields = nil
	}
	return p
}

// Rec is a built record with its reference encoding (pack.WritePack).
type Rec struct {
	Spec RecSpec
	P    *pack.LogSinkPack
	Enc  []byte
}

// NewRec builds the record and its reference encoding.  A nil Fields map encodes exactly like an
// empty one ("no fields"), so the reference bytes are taken from that twin: they do not depend on
// how the encoder treats the nil.
func NewRec(s RecSpec) *Rec {
	p := s.Build()
	twin := s
	if s.NilFields {
		twin.NilFields = false
		twin.Fields = 0
	}
	return &Rec{Spec: s, P: p, Enc: pack.ToBytesPack(twin.Build())}
}

// longEnc: encodings longer than this are represented to the model by their length only
// (as that many zero bytes); the harness compares their bytes itself.
const longEnc = 300

// modelBytes is the byte string that stands for the record's encoding in the model.
func (r *Rec) modelBytes() []byte {
	if len(r.Enc) > longEnc {
		return make([]byte, len(r.Enc))
	}
	return r.Enc
}

func (r *Rec) line() string {
	if len(r.Enc) > longEnc {
		return fmt.Sprintf("%d:%d:#%d", r.Spec.ID, r.Spec.Time, len(r.Enc))
	}
	return fmt.Sprintf("%d:%d:%s", r.Spec.ID, r.Spec.Time, vh.Hex(r.Enc))
}

// ---------------------------------------------------------------- operations

type Settings struct {
	MaxWait  int64 `json:"maxWait"`
	QueueCap int64 `json:"queue"`
	MaxBuf   int64 `json:"maxBuf"`
	ZipMin   int64 `json:"zipMin"`
}

func (s Settings) String() string {
	return fmt.Sprintf("%d,%d,%d,%d", s.MaxWait, s.QueueCap, s.MaxBuf, s.ZipMin)
}

// ConfSpec: the four keys ApplyConfig reads; nil = key absent.
type ConfSpec struct {
	QueueSize *int64 `json:"logsink_queue_size"`
	MaxWait   *int64 `json:"max_wait_time"`
	MaxBuf    *int64 `json:"max_buffer_size"`
	ZipMin    *int64 `json:"logsink_zip_min_size"`
}

func optStr(p *int64) string {
	if p == nil {
		return "-"
	}
	return strconv.FormatInt(*p, 10)
}

// Op kinds: add step stop append direct config
type Op struct {
	K  string    `json:"k"`
	R  *RecSpec  `json:"r,omitempty"`
	Rs []RecSpec `json:"rs,omitempty"`
	C  *ConfSpec `json:"c,omitempty"`
}

// Case is one deterministic history.
type Case struct {
	Kind     string   `json:"kind"` // "det" | "free" | "getinstance"
	Settings Settings `json:"settings"`
	Client   string   `json:"client"` // "consume" | "retain"
	Ops      []Op     `json:"ops,omitempty"`
	Free     *Free    `json:"free,omitempty"`
	Reconf   *Reconf  `json:"reconf,omitempty"`
	// FailedCb: install RequestQueue.Failed (the sender itself never does; a queue without the
	// callback must refuse on overflow all the same)
	FailedCb bool `json:"failed_cb,omitempty"`
	// Fault: which hand-overs the client answers with an error (it records them all the same):
	//   ""  none | "first" | "all" | "every:<k>" (k-th, 2k-th, …) | "random:<pct>:<salt>"
	Fault string `json:"fault,omitempty"`
}

// faultAt: does the client report an error for its n-th hand-over (n from 0)?
func faultAt(spec string, n int) bool {
	f := strings.Split(spec, ":")
	switch f[0] {
	case "first":
		return n == 0
	case "all":
		return true
	case "every":
		k, _ := strconv.Atoi(f[1])
		return k > 0 && (n+1)%k == 0
	case "random":
		pct, _ := strconv.Atoi(f[1])
		salt, _ := strconv.Atoi(f[2])
		x := uint64(n+1)*0x9E3779B97F4A7C15 ^ uint64(salt)*0xBF58476D1CE4E5B9
		x ^= x >> 29
		x *= 0x94D049BB133111EB
		x ^= x >> 32
		return int(x%100) < pct
	}
	return false
}

func (c *Case) driverLine(recs map[int]*Rec) string {
	var sb strings.Builder
	sb.WriteString("H fixed ")
	sb.WriteString(c.Settings.String())
	sb.WriteByte(' ')
	if len(c.Ops) == 0 {
		sb.WriteByte('-')
	}
	for i, o := range c.Ops {
		if i > 0 {
			sb.WriteByte(';')
		}
		switch o.K {
		case "add":
			sb.WriteString("a:" + recs[o.R.ID].line())
		case "append":
			sb.WriteString("p:" + recs[o.R.ID].line())
		case "step":
			sb.WriteString("s")
		case "stop":
			sb.WriteString("x")
		case "direct":
			sb.WriteString("d:")
			if len(o.Rs) == 0 {
				sb.WriteByte('-')
			}
			for j, r := range o.Rs {
				if j > 0 {
					sb.WriteByte('|')
				}
				sb.WriteString(recs[r.ID].line())
			}
		case "config":
			sb.WriteString("c:" + optStr(o.C.QueueSize) + "," + optStr(o.C.MaxWait) + "," + optStr(o.C.MaxBuf) + "," + optStr(o.C.ZipMin))
		}
	}
	if c.Fault != "" {
		sb.WriteString(" " + c.Fault)
	}
	return sb.String()
}

// canon: a short canonical text of the case (without record bytes)
func (c *Case) canon() string {
	var sb strings.Builder
	sb.WriteString(c.Kind + " " + c.Settings.String() + " " + c.Client + " ")
	if c.FailedCb {
		sb.WriteString("cb ")
	}
	if c.Fault != "" {
		sb.WriteString("fault=" + c.Fault + " ")
	}
	for _, o := range c.Ops {
		switch o.K {
		case "add", "append":
			fmt.Fprintf(&sb, "%s(%d@%d/%d%s);", o.K[:2], o.R.ID, o.R.Time, o.R.N, o.R.flags())
		case "direct":
			sb.WriteString("d(")
			for _, r := range o.Rs {
				fmt.Fprintf(&sb, "%d/%d,", r.ID, r.N)
			}
			sb.WriteString(");")
		case "config":
			sb.WriteString("c(" + optStr(o.C.QueueSize) + "," + optStr(o.C.MaxWait) + "," + optStr(o.C.MaxBuf) + "," + optStr(o.C.ZipMin) + ");")
		default:
			sb.WriteString(o.K[:2] + ";")
		}
	}
	if c.Reconf != nil {
		x := c.Reconf.New
		fmt.Fprintf(&sb, "reconf a=%d b=%d new=%s,%s,%s,%s", len(c.Reconf.A), len(c.Reconf.B), optStr(x.QueueSize), optStr(x.MaxWait), optStr(x.MaxBuf), optStr(x.ZipMin))
	}
	if c.Free != nil {
		fmt.Fprintf(&sb, "free p=%d d=%d early=%v accept=%s slow=%d", len(c.Free.Producers), len(c.Free.Direct), c.Free.StopEarly, c.Free.Accept, c.Free.SlowUs)
		for _, p := range c.Free.Producers {
			sb.WriteString(" [")
			for _, it := range p {
				fmt.Fprintf(&sb, "%d/%d,", it.R.ID, it.R.N)
			}
			sb.WriteString("]")
		}
	}
	return sb.String()
}

func (c *Case) allSpecs() []RecSpec {
	var out []RecSpec
	if c.Reconf != nil {
		out = append(out, c.Reconf.A...)
		out = append(out, c.Reconf.B...)
	}
	for _, o := range c.Ops {
		if o.R != nil {
			out = append(out, *o.R)
		}
		out = append(out, o.Rs...)
	}
	if c.Free != nil {
		for _, p := range c.Free.Producers {
			for _, it := range p {
				out = append(out, it.R)
			}
		}
		for _, d := range c.Free.Direct {
			out = append(out, d...)
		}
	}
	return out
}

func (s RecSpec) flags() string {
	f := ""
	if s.NilFields {
		f += "F"
	}
	if s.NoCat {
		f += "C"
	}
	if s.Line0 {
		f += "L"
	}
	if s.LongTag > 0 {
		f += "T" + strconv.Itoa(s.LongTag)
	}
	return f
}
