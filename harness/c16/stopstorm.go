package main

// Shutdown under contention: the sender is stopped while other goroutines keep using its queue
// (`Put` takes the queue's lock; `Size`, `GetCapacity`, `SetCapacity` touch it too).  Every record the
// queue ACCEPTED before the stop was requested must be emitted (`all_emitted_at_stop`); records put
// later may or may not make it, but none may be duplicated, reordered or vanish (they are emitted or
// still in the queue).  One case = one sender = one interleaving; a few hundred per run.

import (
	"fmt"
	"strconv"
	"strings"
	"sync"
	"sync/atomic"
	"time"

	"github.com/whatap/golib/lang/pack"
	"github.com/whatap/golib/logsink/zip"
	"verif/harness/vh"
)

type Storm struct {
	Pre  []RecSpec   `json:"pre"`  // added (and accepted) before the stop is requested
	Late [][]RecSpec `json:"late"` // per noise goroutine: put while the sender stops
}

func (c *Case) stormSpecs() []RecSpec {
	var out []RecSpec
	if c.Storm != nil {
		out = append(out, c.Storm.Pre...)
		for _, l := range c.Storm.Late {
			out = append(out, l...)
		}
	}
	return out
}

func genStorm(r *vh.Rng) *Case {
	st := Settings{MaxWait: r.Pick64([]int64{5, 20, 5000}), QueueCap: r.Pick64([]int64{0, 1000, -1}),
		MaxBuf: r.Pick64([]int64{60, 300, 4096, 65536}), ZipMin: r.Pick64([]int64{0, 100, 1 << 30})}
	c := &Case{Kind: "stopstorm", Settings: st, Client: r.PickStr([]string{"consume", "retain"}), Storm: &Storm{}}
	id := 1
	n := 3 + r.Intn(40)
	for i := 0; i < n; i++ {
		c.Storm.Pre = append(c.Storm.Pre, RecSpec{ID: id, Time: t0 + int64(i%3), N: r.Intn(40), Tags: r.Intn(2)})
		id++
	}
	for g := 0; g < 1+r.Intn(3); g++ {
		var l []RecSpec
		for i := 0; i < 30+r.Intn(120); i++ {
			l = append(l, RecSpec{ID: id, Time: t0 + 5, N: r.Intn(10)})
			id++
		}
		c.Storm.Late = append(c.Storm.Late, l)
	}
	return c
}

func runStopStorm(c *Case, e *evalCtx) *freeResult {
	res := &freeResult{}
	cl := &recClient{mode: c.Client}
	snd := zip.NewForVerif(cl, toVS(c.Settings))
	st := fromVS(snd.SettingsForVerif())
	done := snd.StartForVerif()
	for _, s := range c.Storm.Pre {
		snd.Add(e.recs[s.ID].P) // capacity 0 / 1000 / -1 and fewer than 50 records: all accepted
	}
	var halt atomic.Bool
	var wg sync.WaitGroup
	lateOK := make([][]int, len(c.Storm.Late)) // ids the queue accepted, per noise goroutine
	for g, l := range c.Storm.Late {
		wg.Add(1)
		go func(g int, l []RecSpec) {
			defer wg.Done()
			for k, s := range l {
				if halt.Load() {
					return
				}
				if snd.Queue.Put(e.recs[s.ID].P) {
					lateOK[g] = append(lateOK[g], s.ID)
				}
				if k%7 == 3 {
					_ = snd.Queue.GetCapacity()
				}
			}
		}(g, l)
	}
	snd.StopForVerif() // … while the noise is running
	select {
	case <-done:
	case <-time.After(3 * watchdog):
		halt.Store(true)
		e.prop("stop:loop-does-not-return", "the background loop did not return within %v of cancellation while other goroutines keep putting records on the queue", 3*watchdog)
		res.finds = e.finds
		return res
	}
	halt.Store(true)
	wg.Wait()

	cl.mu.Lock()
	got := cl.got
	cl.mu.Unlock()
	res.nPack = len(got)
	var ids []int
	var packIDs [][]int
	for k, h := range got {
		x, d := e.checkPack(h, "sendAndClear", st.ZipMin, k)
		ids = append(ids, x...)
		packIDs = append(packIDs, x)
		res.packs = append(res.packs, e.packLine("S", d, x))
	}
	if !e.hasKeySuffix(":undecodable") && !e.hasKeySuffix(":foreign-record") {
		count := map[int]int{}
		for _, id := range ids {
			count[id]++
			if count[id] == 2 {
				e.prop("emit:duplicate", "record %d was handed over twice", id)
			}
		}
		sub := func(want []int) []int { // the emitted ones of `want`, in order of emission
			in := map[int]bool{}
			for _, id := range want {
				in[id] = true
			}
			var out []int
			for _, id := range ids {
				if in[id] {
					out = append(out, id)
				}
			}
			return out
		}
		var pre []int
		for _, s := range c.Storm.Pre {
			pre = append(pre, s.ID)
		}
		left := snd.Queue.Size()
		if got := sub(pre); !eqInts(got, pre) {
			missing := len(pre) - len(got)
			if missing > 0 && len(got) <= len(pre) && eqInts(got, pre[:len(got)]) {
				e.prop("stop:queued-records-lost", "%d records were accepted by the queue before the stop was requested; the loop returned having emitted only %s — %d of them were never emitted (the queue holds %d records after the loop returned) although other goroutines merely kept using the queue during the stop",
					len(pre), vh.Clip(idsStr(got), 200), missing, left)
			} else {
				e.prop("emit:not-exactly-once-in-order", "records accepted before the stop: %s; emitted of these, in order of emission: %s", vh.Clip(idsStr(pre), 300), vh.Clip(idsStr(got), 300))
			}
		}
		notEmitted := 0
		for g, ok := range lateOK {
			em := sub(ok)
			// the emitted late records of one goroutine are a prefix of what it put (FIFO queue)
			if len(em) > len(ok) || !eqInts(em, ok[:len(em)]) {
				e.prop("emit:not-exactly-once-in-order", "noise goroutine %d put %s; emitted of these: %s", g, vh.Clip(idsStr(ok), 300), vh.Clip(idsStr(em), 300))
			}
			notEmitted += len(ok) - len(em)
		}
		if !e.isProp && left != notEmitted {
			e.prop("queue:accepted-record-lost", "%d records accepted during the stop were not emitted, but the queue holds %d after the loop returned", notEmitted, left)
		}
	}
	if cnt, blen, _ := snd.BufferedForVerif(); cnt != 0 || blen != 0 {
		e.prop("stop:flush-missed", "after the loop returned %d records / %d bytes are still buffered", cnt, blen)
	}

	// the emitted stream as a schedule of the loop machine
	var sb strings.Builder
	fmt.Fprintf(&sb, "L fixed %s ", st.String())
	first := true
	put := func(s string) {
		if !first {
			sb.WriteByte(';')
		}
		first = false
		sb.WriteString(s)
	}
	clk := int64(1000)
	for _, p := range packIDs {
		for _, id := range p {
			put("t" + strconv.FormatInt(clk, 10))
			put("a:" + e.recs[id].line())
			put("p" + strconv.FormatInt(clk, 10))
			clk++
		}
		due := clk
		if st.MaxWait > 0 {
			due = clk + st.MaxWait
		}
		put("t" + strconv.FormatInt(clk, 10))
		put("p" + strconv.FormatInt(due, 10))
		clk = due + 1
	}
	put("k")
	put("t" + strconv.FormatInt(clk, 10))
	res.modelLine = sb.String()
	res.finds = e.finds
	_ = pack.ZIPPED
	return res
}
