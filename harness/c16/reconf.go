package main

// Reconfiguration of a RUNNING sender: the real background goroutine is started with one set of
// settings, ApplyConfig replaces them, and what follows must obey the new ones — in particular the
// idle flush must come after the NEW waiting time, not the one the loop started with.
//
// Timing is asserted only through bounds relative to the new waiting time W':
//   lower:  hand-over − Add  ≥  W' − 5 ms     (GetTimeout(W') started after the record was dequeued)
//   upper:  hand-over − Add  ≤  W' + W/3 + 2.5 s   (W/3: the GetTimeout in progress polls every W/3;
//                                                  2.5 s: slack for a loaded machine)
// the cases are chosen so that the other waiting time lies outside the bounds by a wide margin
// (300 ms vs 5 s; 1.5 s vs 200 ms).

import (
	"fmt"
	"strings"
	"time"

	"github.com/whatap/golib/logsink/zip"
	"verif/harness/vh"
)

type Reconf struct {
	New ConfSpec  `json:"new"` // all four keys present
	A   []RecSpec `json:"a"`   // added before the reconfiguration (and flushed by the old idle timeout)
	B   []RecSpec `json:"b"`   // added after it
}

const reconfSlack = 2500 * time.Millisecond

func reconfCases(r *vh.Rng, thorough bool) []*Case {
	def := Settings{5000, 1000, 65536, 100}
	p := func(v int64) *int64 { return &v }
	mk := func(old Settings, nw Settings, na, nb, nB int) *Case {
		c := &Case{Kind: "reconf", Settings: old, Client: r.PickStr([]string{"consume", "retain"}),
			Reconf: &Reconf{New: ConfSpec{QueueSize: p(nw.QueueCap), MaxWait: p(nw.MaxWait), MaxBuf: p(nw.MaxBuf), ZipMin: p(nw.ZipMin)}}}
		id := 1
		for i := 0; i < na; i++ {
			c.Reconf.A = append(c.Reconf.A, RecSpec{ID: id, Time: t0, N: r.Intn(30)})
			id++
		}
		for i := 0; i < nb; i++ {
			c.Reconf.B = append(c.Reconf.B, RecSpec{ID: id, Time: t0 + 1, N: nB + r.Intn(5)})
			id++
		}
		return c
	}
	cs := []*Case{
		// shorter waiting time on a sender that started with the 5 s default
		mk(def, Settings{300, 1000, 65536, 100}, 0, 2, 10),
		// longer waiting time
		mk(Settings{200, 1000, 65536, 100}, Settings{1500, 1000, 65536, 100}, 2, 2, 10),
		// smaller buffer limit: the new limit cuts the batches
		mk(Settings{50, 1000, 65536, 100}, Settings{50, 1000, 120, 100}, 2, 6, 40),
		// compression threshold: never -> always, always -> never
		mk(Settings{50, 1000, 65536, 1 << 30}, Settings{50, 1000, 65536, 0}, 2, 3, 20),
		mk(Settings{50, 1000, 65536, 0}, Settings{50, 1000, 65536, 1 << 30}, 2, 3, 200),
		// waiting time 0 / negative from a positive one
		mk(Settings{100, 1000, 65536, 100}, Settings{r.Pick64([]int64{0, -5, 1}), 1000, 65536, 100}, 1, 3, 10),
	}
	if thorough {
		for i := 0; i < 6; i++ {
			w := r.Pick64([]int64{150, 300, 600})
			cs = append(cs, mk(def, Settings{w, 1000, r.Pick64([]int64{65536, 4096}), r.Pick64([]int64{100, 0})}, 0, 1+r.Intn(3), 10))
			cs = append(cs, mk(Settings{r.Pick64([]int64{100, 250}), 1000, 65536, 100}, Settings{r.Pick64([]int64{1200, 2000}), 1000, 65536, 100}, 1+r.Intn(2), 1+r.Intn(3), 10))
		}
	}
	return cs
}

type reconfResult struct {
	packs        []string
	modelLine    string
	finds        []finding
	nPack        int
	inconclusive bool // the upper time bound was missed while the machine was demonstrably starved
}

// lagProbe measures how late this process's timers fire while a case runs: a 5 ms sleep that takes
// 5 ms + x shows the scheduling lag x.  An upper time bound is only held against the sender when the
// probe shows that the machine was not starved.
type lagProbe struct {
	stop chan struct{}
	done chan struct{}
	max  time.Duration
}

func startLagProbe() *lagProbe {
	p := &lagProbe{stop: make(chan struct{}), done: make(chan struct{})}
	go func() {
		defer close(p.done)
		for {
			select {
			case <-p.stop:
				return
			default:
			}
			t := time.Now()
			time.Sleep(5 * time.Millisecond)
			if lag := time.Since(t) - 5*time.Millisecond; lag > p.max {
				p.max = lag
			}
		}
	}()
	return p
}

func (p *lagProbe) finish() time.Duration {
	close(p.stop)
	<-p.done
	return p.max
}

const quietLag = 150 * time.Millisecond

// runReconf repeats a case whose upper time bound was missed under load (a repetition cannot mask a
// real failure: on a quiet run the bound is held against the sender; the logical clauses — exactly
// once, settings applied, lower bound — are judged on every run)
func runReconf(c *Case, e *evalCtx) *reconfResult {
	var r *reconfResult
	for attempt := 0; attempt < 3; attempt++ {
		ee := newEvalCtx(c.allSpecs())
		r = runReconfOnce(c, ee)
		if !r.inconclusive || len(r.finds) > 0 {
			break
		}
		time.Sleep(time.Duration(200*(attempt+1)) * time.Millisecond)
	}
	return r
}

func runReconfOnce(c *Case, e *evalCtx) *reconfResult {
	rc := c.Reconf
	res := &reconfResult{}
	cl := &recClient{mode: c.Client}
	snd := zip.NewForVerif(cl, toVS(c.Settings))
	old := c.Settings
	nw := Settings{*rc.New.MaxWait, *rc.New.QueueSize, *rc.New.MaxBuf, *rc.New.ZipMin}
	done := snd.StartForVerif()
	probe := startLagProbe()
	lag := time.Duration(-1)
	quiet := func() bool {
		if lag < 0 {
			lag = probe.finish()
		}
		return lag < quietLag
	}
	defer func() {
		if lag < 0 {
			probe.finish()
		}
	}()
	handedCount := func() int {
		cl.mu.Lock()
		defer cl.mu.Unlock()
		n := 0
		for _, h := range cl.got {
			n += h.Count
		}
		return n
	}
	waitFor := func(total int, limit time.Duration) bool {
		deadline := time.Now().Add(limit)
		for handedCount() < total {
			if time.Now().After(deadline) {
				return false
			}
			time.Sleep(time.Millisecond)
		}
		return true
	}
	if len(rc.A) == 0 {
		// let the loop enter its first GetTimeout with the old waiting time (otherwise the
		// reconfiguration could overtake the start of the goroutine)
		time.Sleep(150 * time.Millisecond)
	}
	for _, s := range rc.A {
		snd.Add(e.recs[s.ID].P)
	}
	if !waitFor(len(rc.A), time.Duration(old.MaxWait)*time.Millisecond*4/3+watchdog) {
		e.prop("run:idle-flush-missed", "%d records added, waiting time %d ms: not handed over within %v", len(rc.A), old.MaxWait, watchdog)
	}
	nA := cl.n()
	snd.ApplyConfig(rc.New.toConf()) // on the running sender
	var tAdd time.Time
	for _, s := range rc.B {
		snd.Add(e.recs[s.ID].P)
		tAdd = time.Now()
	}
	upper := time.Duration(nw.MaxWait)*time.Millisecond + time.Duration(old.MaxWait)*time.Millisecond/3 + reconfSlack
	if nw.MaxWait < 0 {
		upper = time.Duration(old.MaxWait)*time.Millisecond/3 + reconfSlack
	}
	inTime := waitFor(len(rc.A)+len(rc.B), upper)
	elapsedAtGiveUp := time.Since(tAdd)
	if !inTime {
		// keep waiting (bounded) so that the rest of the evaluation sees the complete stream
		waitFor(len(rc.A)+len(rc.B), time.Duration(old.MaxWait)*time.Millisecond*2+watchdog)
	}
	snd.StopForVerif()
	select {
	case <-done:
	case <-time.After(3 * watchdog):
		e.prop("stop:loop-does-not-return", "the background loop did not return within %v of cancellation", 3*watchdog)
		res.finds = e.finds
		return res
	}

	cl.mu.Lock()
	got := cl.got
	cl.mu.Unlock()
	res.nPack = len(got)
	var ids []int
	var packIDs [][]int
	for k, h := range got {
		zm := old.ZipMin
		if k >= nA {
			zm = nw.ZipMin
		}
		x, d := e.checkPack(h, "sendAndClear", zm, k)
		ids = append(ids, x...)
		packIDs = append(packIDs, x)
		res.packs = append(res.packs, e.packLine("S", d, x))
	}
	var want []int
	for _, s := range rc.A {
		want = append(want, s.ID)
	}
	for _, s := range rc.B {
		want = append(want, s.ID)
	}
	if !e.hasKeySuffix(":undecodable") && !eqInts(ids, want) {
		e.prop("emit:not-exactly-once-in-order", "records added %s; handed over %s", idsStr(want), idsStr(ids))
	}
	// is the last pack flushed by the idle timeout under the new settings?  (no size / time trigger)
	if len(got) > nA && len(rc.B) > 0 && eqInts(ids, want) {
		last := got[len(got)-1]
		lastIDs := packIDs[len(packIDs)-1]
		size := 0
		for _, id := range lastIDs {
			size += len(e.recs[id].Enc)
		}
		idle := int64(size) < nw.MaxBuf // records of B share one Time: no time trigger
		if idle && last.At.After(tAdd) {
			el := last.At.Sub(tAdd)
			lower := time.Duration(nw.MaxWait)*time.Millisecond - 5*time.Millisecond
			if nw.MaxWait > 0 && el < lower {
				e.prop("ApplyConfig:wait-time-not-in-force", "max_wait_time changed %d -> %d ms on the running sender; the batch added afterwards was flushed by the idle timeout after %d ms: earlier than the waiting time in force",
					old.MaxWait, nw.MaxWait, el.Milliseconds())
			}
			if el > upper {
				if quiet() {
					e.prop("ApplyConfig:wait-time-not-in-force", "max_wait_time changed %d -> %d ms on the running sender; the batch added afterwards was flushed by the idle timeout only after %d ms (bound: new waiting time + one poll interval of the old one + %v = %v; timers of this process were at most %v late meanwhile)",
						old.MaxWait, nw.MaxWait, el.Milliseconds(), reconfSlack, upper, lag)
				} else {
					res.inconclusive = true
				}
			}
		} else if !inTime {
			if quiet() {
				e.prop("ApplyConfig:wait-time-not-in-force", "max_wait_time changed %d -> %d ms on the running sender; the batch added afterwards was not handed over within %v (gave up after %d ms; timers of this process were at most %v late meanwhile)",
					old.MaxWait, nw.MaxWait, upper, elapsedAtGiveUp.Milliseconds(), lag)
			} else {
				res.inconclusive = true
			}
		}
	}
	if got := fromVS(snd.SettingsForVerif()); got != nw {
		e.prop("ApplyConfig:not-applied", "settings in force %s after ApplyConfig(%s)", got.String(), nw.String())
	}

	// ---- the same as a schedule of the loop machine
	var sb strings.Builder
	fmt.Fprintf(&sb, "L fixed %s ", old.String())
	first := true
	put := func(s string) {
		if !first {
			sb.WriteByte(';')
		}
		first = false
		sb.WriteString(s)
	}
	k := 0
	clk := int64(1000)
	wait := old.MaxWait
	feed := func(n int) { // the packs k.. that hold the next n records, with an idle timeout at each observed boundary
		for n > 0 && k < len(packIDs) {
			for _, id := range packIDs[k] {
				put(fmt.Sprintf("t%d", clk))
				put("a:" + e.recs[id].line())
				put(fmt.Sprintf("p%d", clk))
				clk++
				n--
			}
			due := clk
			if wait > 0 {
				due = clk + wait
			}
			put(fmt.Sprintf("t%d", clk))
			if wait > 1 {
				put(fmt.Sprintf("p%d", due-1)) // one round just before the deadline: nothing happens
			}
			put(fmt.Sprintf("p%d", due))
			clk = due + 1
			k++
		}
	}
	feed(len(rc.A))
	put(fmt.Sprintf("c:%d,%d,%d,%d", nw.QueueCap, nw.MaxWait, nw.MaxBuf, nw.ZipMin))
	wait = nw.MaxWait
	feed(len(rc.B))
	put("k")
	put(fmt.Sprintf("t%d", clk))
	res.modelLine = sb.String()
	res.finds = e.finds
	return res
}
